(* C02 -- polar decomposition F = R U 1D, 2D and the abstract algebra; 3D: Properties_C02_polar3.v, thorough tier (statements only; proofs: generated obligations t_polar_{R,U}_N_ok = "the traced
   code is the Hoger-Carlson closed form" + coq/Polar.v = "the closed form is a polar decomposition").
   a: storage vector of F; b: the three values the eigen-solver returns for C = F^T F (injected as free symbols in the
   trace), assumed to be the eigenvalues of C counted with multiplicity; polar_den = (i1 i2 - i3) i3 <> 0 holds as soon
   as they are positive (det F <> 0).  U positive definite is NOT stated (it needs the eigenvectors). *)
From Coq Require Import Reals List.
Require Import TensorIndex C02Spec Polar C02_g4_n1_p0 C02_g4_n2_p0 C02_g4_n2_p1.
Import ListNotations.
Local Open Scope R_scope.

Theorem C02_polar_decomposition_2D : forall a b : nat -> R,
  0 <= b 0%nat -> 0 <= b 1%nat -> 0 <= b 2%nat ->
  eigenvalues3 (mul2 (tr2 (full_t 2%nat a)) (full_t 2%nat a)) (b 0%nat) (b 1%nat) (b 2%nat) ->
  polar_den 2%nat (full_v 2%nat b) <> 0 ->
  exists R U : M2, t_polar_R_2 a b = flat_t 2%nat R /\ t_polar_U_2 a b = flat_s 2%nat U /\
                   is_polar_decomposition (full_t 2%nat a) R U.
Proof.
  exact (fun a b P0 P1 P2 He Hd =>
    ex_intro _ _ (ex_intro _ _ (conj (t_polar_R_2_ok a b Hd) (conj (t_polar_U_2_ok a b Hd)
      (polar_formulas_23 2%nat (full_t 2%nat a) b (or_introl eq_refl) P0 P1 P2 He Hd))))).
Qed.
Print Assumptions C02_polar_decomposition_2D.

Theorem C02_polar_decomposition_1D : forall a b : nat -> R,
  polar_den 1%nat (full_v 1%nat b) <> 0 ->
  exists R U : M2, t_polar_R_1 a b = flat_t 1%nat R /\ t_polar_U_1 a b = flat_s 1%nat U /\
                   is_polar_decomposition (full_t 1%nat a) R U.
Proof.
  exact (fun a b Hd =>
    ex_intro _ _ (ex_intro _ _ (conj (t_polar_R_1_ok a b Hd) (conj (t_polar_U_1_ok a b Hd) (polar_formulas_1 a b))))).
Qed.
Print Assumptions C02_polar_decomposition_1D.

(* the statement of DESIGN.md: ANY symmetric-inverse pair (U, V) with U U = F^T F gives a polar decomposition R = F V *)
Theorem C02_polar_algebra : forall F U V : M2,
  meq (tr2 V) V -> meq (mul2 U U) (mul2 (tr2 F) F) -> meq (mul2 U V) Id2 -> meq (mul2 V U) Id2 ->
  meq (mul2 (tr2 (mul2 F V)) (mul2 F V)) Id2 /\ meq (mul2 (mul2 F V) U) F.
Proof. exact polar_from_sqrt. Qed.
Print Assumptions C02_polar_algebra.

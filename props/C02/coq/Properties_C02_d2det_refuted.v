(* C02 -- the finding on computeDeterminantSecondDerivative(tensor<N>), N = 2, 3 (the same defect as the one recorded
   under property C06, keys run:tensor_det2:N2 / N3; used only while this run observes it on a concrete input).
   C02's specification of the operation is what its name and documentation say: the second derivative of the determinant,
   d2 det / dF_ij dF_kl = eps_ikm eps_jln F_mn (the Jacobian of computeDeterminantDerivative, C02_t_ddet).  The pinned
   code returns that table with the first index pair transposed, eps_jkm eps_iln F_mn = d(det(F) F^-1)_ij / dF_kl (the
   derivative of the adjugate): the rows of the component pairs (01,10), (02,20), (12,21) are exchanged.  Upstream's own
   (unbuilt) test pins that behaviour, so it stays a finding.
   Witness F = (1,1,1 | 2,3 | ...): entry (01,22) is -F01 = -2, the derivative is -F10 = -3.
   What the code does compute is proved too (C02_B_d2det_{2,3}_is_adjugate_derivative); in 1D the two coincide. *)
From Coq Require Import Reals List Lra.
From VLib Require Import RealExtra.
Require Import TensorIndex TensorTactics C02Spec C02_g2_n1_p0 C02_g2_n2_p1 C02_g2_n3_p3.
Import ListNotations.
Local Open Scope R_scope.

Definition witness_F : nat -> R := fun k => if Nat.eqb k 3 then 2 else if Nat.eqb k 4 then 3 else 1.
Definition d2det4_first_pair_transposed (a : M2) : M4 := fun i j k l => d2det4 a j i k l.
Ltac red_R := lazy -[Rplus Rmult Rminus Ropp Rdiv Rinv IZR sqrt].
Ltac list_ring := repeat (apply f_equal2; [ ring | ]); reflexivity.

Theorem C02_B_d2det_1 : forall a : nat -> R,
  B_d2det_1 a = flat_B 1%nat (spec_B_d2det 1%nat (full_t 1%nat a)).
Proof. exact B_d2det_1_ok. Qed.
Print Assumptions C02_B_d2det_1.

Theorem C02_B_d2det_2_refuted :
  exists a : nat -> R, B_d2det_2 a <> flat_B 2%nat (spec_B_d2det 2%nat (full_t 2%nat a)).
Proof.
  exists witness_F. intro H.
  apply (f_equal (fun l => nth 17 l 0)) in H.
  lazy -[Rplus Rmult Rminus Ropp Rdiv Rinv IZR sqrt] in H. lra.
Qed.
Print Assumptions C02_B_d2det_2_refuted.

Theorem C02_B_d2det_3_refuted :
  exists a : nat -> R, B_d2det_3 a <> flat_B 3%nat (spec_B_d2det 3%nat (full_t 3%nat a)).
Proof.
  exists witness_F. intro H.
  apply (f_equal (fun l => nth 29 l 0)) in H.
  lazy -[Rplus Rmult Rminus Ropp Rdiv Rinv IZR sqrt] in H. lra.
Qed.
Print Assumptions C02_B_d2det_3_refuted.

Theorem C02_B_d2det_2_is_adjugate_derivative : forall a : nat -> R,
  B_d2det_2 a = flat_B 2%nat (d2det4_first_pair_transposed (full_t 2%nat a)).
Proof. intro a. red_R. list_ring. Qed.
Print Assumptions C02_B_d2det_2_is_adjugate_derivative.

Theorem C02_B_d2det_3_is_adjugate_derivative : forall a : nat -> R,
  B_d2det_3 a = flat_B 3%nat (d2det4_first_pair_transposed (full_t 3%nat a)).
Proof. intro a. red_R. list_ring. Qed.
Print Assumptions C02_B_d2det_3_is_adjugate_derivative.

(* C02 -- st2tost2::convert (used when finding F22 is absent) (statements only; every proof is `exact` of lemmas generated and proved per component).
   Regenerate with mkprops.py when the operation registry of trace.cxx changes. *)
From Coq Require Import Reals List.
Require Import TensorIndex C02Spec C02_g1_n1_p0 C02_g1_n2_p0 C02_g1_n2_p1 C02_g1_n3_p0 C02_g1_n3_p1 C02_g1_n3_p2 C02_g1_n3_p3 C02_g1_n3_p4.

Import ListNotations.
Local Open Scope R_scope.

Theorem C02_A_convert : forall a : nat -> R,
  (A_convert_1 a = flat_A 1%nat (spec_A_convert 1%nat (full_C 1%nat a))) /\
  (A_convert_2 a = flat_A 2%nat (spec_A_convert 2%nat (full_C 2%nat a))) /\
  (A_convert_3 a = flat_A 3%nat (spec_A_convert 3%nat (full_C 3%nat a))).
Proof. intros a; exact (conj (A_convert_1_ok a) (conj (A_convert_2_ok a) (A_convert_3_ok a))). Qed.
Print Assumptions C02_A_convert.

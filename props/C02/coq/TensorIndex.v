(* Index notation for second- and fourth-order tensors of R^3, written independently of the C++.
   Shared by C02 and C23.

   A second-order tensor is a function  i j |-> t_ij  (i,j in {0,1,2}), a fourth-order tensor a function
   i j k l |-> c_ijkl.  TFEL stores
     tensor<N>   : (t00 t11 t22 | t01 t10 | t02 t20 t12 t21)          3 / 5 / 9 values in 1D / 2D / 3D
     stensor<N>  : (s00 s11 s22 | V2 s01 | V2 s02  V2 s12)            3 / 4 / 6 values   (V2 = sqrt 2, "Mandel")
     st2tost2<N> : matrix C(I,J) on stensor storage   (linear map stensor -> stensor)
     t2tot2<N>   : matrix C(I,J) on tensor storage    (tensor -> tensor)
     t2tost2<N>  : rows on stensor storage, columns on tensor storage   (tensor -> stensor)
     st2tot2<N>  : rows on tensor storage, columns on stensor storage   (stensor -> tensor)
   `full_*` gives the meaning of a storage vector (components outside the 1D/2D pattern are 0),
   `flat_*` stores a full object again.  The storage vector of an object is a function  nat -> R
   indexed row-major, C(I,J) at position I*ncols+J. *)
From Coq Require Import Reals List Bool Arith Lra Lia.
From VLib Require Import RealExtra.
Import ListNotations.
Local Open Scope R_scope.

Definition vec := nat -> R.
Definition M2 := nat -> nat -> R.
Definition M4 := nat -> nat -> nat -> nat -> R.

Definition sum3 (f : nat -> R) : R := f 0%nat + f 1%nat + f 2%nat.
Definition delta (i j : nat) : R := if Nat.eqb i j then 1 else 0.
(* Levi-Civita symbol *)
Definition eps (i j k : nat) : R :=
  match i, j, k with
  | 0, 1, 2 | 1, 2, 0 | 2, 0, 1 => 1%R
  | 0, 2, 1 | 2, 1, 0 | 1, 0, 2 => (-1)%R
  | _, _, _ => 0%R
  end%nat.

Definition tsize (N : nat) : nat := match N with 1 => 3 | 2 => 5 | _ => 9 end%nat.
Definition ssize (N : nat) : nat := match N with 1 => 3 | 2 => 4 | _ => 6 end%nat.

(* position of component (i,j) in the 9-component storage of a non-symmetric tensor *)
Definition idx9 (i j : nat) : nat :=
  match i, j with
  | 0, 0 => 0 | 1, 1 => 1 | 2, 2 => 2
  | 0, 1 => 3 | 1, 0 => 4 | 0, 2 => 5 | 2, 0 => 6 | 1, 2 => 7 | 2, 1 => 8
  | _, _ => 99
  end%nat.
(* position of component (i,j) in the Mandel storage of a symmetric tensor *)
Definition idx6 (i j : nat) : nat :=
  match i, j with
  | 0, 0 => 0 | 1, 1 => 1 | 2, 2 => 2
  | 0, 1 | 1, 0 => 3 | 0, 2 | 2, 0 => 4 | 1, 2 | 2, 1 => 5
  | _, _ => 99
  end%nat.
(* Mandel weight of component (i,j) *)
Definition w (i j : nat) : R := if Nat.eqb i j then 1 else sqrt 2.
(* its inverse, 1/sqrt 2 = sqrt 2 / 2 off the diagonal (lemma iw_w below) *)
Definition iw (i j : nat) : R := if Nat.eqb i j then 1 else sqrt 2 / 2.

Definition pairs9 : list (nat * nat) := [(0,0); (1,1); (2,2); (0,1); (1,0); (0,2); (2,0); (1,2); (2,1)]%nat.
Definition pairs6 : list (nat * nat) := [(0,0); (1,1); (2,2); (0,1); (0,2); (1,2)]%nat.

(* ---- meaning of storage vectors *)
Definition full_x (N : nat) (v : vec) : R := v 0%nat.
Definition full_t (N : nat) (v : vec) : M2 :=
  fun i j => if Nat.ltb (idx9 i j) (tsize N) then v (idx9 i j) else 0.
Definition full_s (N : nat) (v : vec) : M2 :=
  fun i j => if Nat.ltb (idx6 i j) (ssize N) then v (idx6 i j) * iw i j else 0.
(* a 3x3 matrix stored row-major (tmatrix<3,3>, "rotation_matrix"); in 2D only the in-plane block acts, in 1D none *)
Definition full_r (N : nat) (v : vec) : M2 :=
  match N with
  | 1%nat => delta
  | 2%nat => fun i j => if Nat.ltb i 2 && Nat.ltb j 2 then v (3 * i + j)%nat else delta i j
  | _ => fun i j => v (3 * i + j)%nat
  end.
(* a 3-vector (tvector<3>) *)
Definition full_v (N : nat) (v : vec) : nat -> R := v.
(* a plain 3x3 matrix stored row-major, the same meaning in every dimension *)
Definition full_m (N : nat) (v : vec) : M2 := fun i j => v (3 * i + j)%nat.
Definition full_A (N : nat) (v : vec) : M4 :=
  fun i j k l => if Nat.ltb (idx6 i j) (ssize N) && Nat.ltb (idx6 k l) (ssize N)
                 then v (idx6 i j * ssize N + idx6 k l)%nat * (iw i j * iw k l) else 0.
Definition full_B (N : nat) (v : vec) : M4 :=
  fun i j k l => if Nat.ltb (idx9 i j) (tsize N) && Nat.ltb (idx9 k l) (tsize N)
                 then v (idx9 i j * tsize N + idx9 k l)%nat else 0.
Definition full_C (N : nat) (v : vec) : M4 :=
  fun i j k l => if Nat.ltb (idx6 i j) (ssize N) && Nat.ltb (idx9 k l) (tsize N)
                 then v (idx6 i j * tsize N + idx9 k l)%nat * iw i j else 0.
Definition full_D (N : nat) (v : vec) : M4 :=
  fun i j k l => if Nat.ltb (idx9 i j) (tsize N) && Nat.ltb (idx6 k l) (ssize N)
                 then v (idx9 i j * ssize N + idx6 k l)%nat * iw k l else 0.

(* ---- storage of full objects *)
Definition flat_x (N : nat) (x : R) : list R := [x].
Definition flat_t (N : nat) (m : M2) : list R :=
  map (fun p => m (fst p) (snd p)) (firstn (tsize N) pairs9).
Definition flat_s (N : nat) (m : M2) : list R :=
  map (fun p => m (fst p) (snd p) * w (fst p) (snd p)) (firstn (ssize N) pairs6).
Definition flat_r (N : nat) (m : M2) : list R :=
  flat_map (fun i => map (fun j => m i j) [0; 1; 2]%nat) [0; 1; 2]%nat.
Definition flat4 (rows cols : list (nat * nat)) (wr wc : bool) (c : M4) : list R :=
  flat_map (fun p => map (fun q =>
     c (fst p) (snd p) (fst q) (snd q) * ((if wr then w (fst p) (snd p) else 1) * (if wc then w (fst q) (snd q) else 1)))
     cols) rows.
Definition flat_A N := flat4 (firstn (ssize N) pairs6) (firstn (ssize N) pairs6) true true.
Definition flat_B N := flat4 (firstn (tsize N) pairs9) (firstn (tsize N) pairs9) false false.
Definition flat_C N := flat4 (firstn (ssize N) pairs6) (firstn (tsize N) pairs9) true false.
Definition flat_D N := flat4 (firstn (tsize N) pairs9) (firstn (ssize N) pairs6) false true.

(* ---- index notation: second order *)
Definition Id2 : M2 := delta.
Definition add2 (a b : M2) : M2 := fun i j => a i j + b i j.
Definition sub2 (a b : M2) : M2 := fun i j => a i j - b i j.
Definition scal2 (x : R) (a : M2) : M2 := fun i j => x * a i j.
Definition mul2 (a b : M2) : M2 := fun i j => sum3 (fun k => a i k * b k j).
Definition tr2 (a : M2) : M2 := fun i j => a j i.
Definition trace2 (a : M2) : R := sum3 (fun i => a i i).
Definition sym2 (a : M2) : M2 := fun i j => (a i j + a j i) / 2.
Definition dot2 (a b : M2) : R := sum3 (fun i => sum3 (fun j => a i j * b i j)).
Definition det2 (a : M2) : R :=
  sum3 (fun i => sum3 (fun j => sum3 (fun k => eps i j k * a 0%nat i * a 1%nat j * a 2%nat k))).
(* cofactor: d det / d a_ij *)
Definition cof2 (a : M2) : M2 :=
  fun i j => sum3 (fun p => sum3 (fun q => sum3 (fun r => sum3 (fun s =>
    eps i p q * eps j r s * a p r * a q s)))) / 2.
Definition inv2 (a : M2) : M2 := fun i j => cof2 a j i / det2 a.
(* r^T a r *)
Definition rot2 (r a : M2) : M2 := fun i j => sum3 (fun m => sum3 (fun n => r m i * r n j * a m n)).
(* F a F^T *)
Definition pf2 (F a : M2) : M2 := fun i j => sum3 (fun m => sum3 (fun n => F i m * F j n * a m n)).

(* ---- index notation: fourth order *)
Definition add4 (a b : M4) : M4 := fun i j k l => a i j k l + b i j k l.
Definition sub4 (a b : M4) : M4 := fun i j k l => a i j k l - b i j k l.
Definition scal4 (x : R) (a : M4) : M4 := fun i j k l => x * a i j k l.
Definition mul44 (a b : M4) : M4 :=
  fun i j k l => sum3 (fun m => sum3 (fun n => a i j m n * b m n k l)).
Definition mul42 (a : M4) (b : M2) : M2 := fun i j => sum3 (fun k => sum3 (fun l => a i j k l * b k l)).
Definition mul24 (a : M2) (b : M4) : M2 := fun k l => sum3 (fun i => sum3 (fun j => a i j * b i j k l)).
Definition otimes (a b : M2) : M4 := fun i j k l => a i j * b k l.
Definition tr4 (a : M4) : M4 := fun i j k l => a k l i j.
Definition Id4 : M4 := fun i j k l => delta i k * delta j l.
Definition IdT4 : M4 := fun i j k l => delta i l * delta j k.       (* d a^T / d a *)
Definition IdS4 : M4 := fun i j k l => (delta i k * delta j l + delta i l * delta j k) / 2.
Definition IxI4 : M4 := fun i j k l => delta i j * delta k l.
(* symmetrisation on the first / second pair *)
Definition symL (a : M4) : M4 := fun i j k l => (a i j k l + a j i k l) / 2.
Definition symR (a : M4) : M4 := fun i j k l => (a i j k l + a i j l k) / 2.
(* the map  x |-> r^T x r  *)
Definition Rot4 (r : M2) : M4 := fun i j k l => r k i * r l j.
(* change of basis  c'_ijkl = r_mi r_nj r_pk r_ql c_mnpq *)
Definition rot4 (r : M2) (c : M4) : M4 :=
  fun i j k l => sum3 (fun m => sum3 (fun n => sum3 (fun p => sum3 (fun q =>
    r m i * r n j * r p k * r q l * c m n p q)))).
(* push-forward  c'_ijkl = F_im F_jn F_kp F_lq c_mnpq *)
Definition pf4 (F : M2) (c : M4) : M4 :=
  fun i j k l => sum3 (fun m => sum3 (fun n => sum3 (fun p => sum3 (fun q =>
    F i m * F j n * F k p * F l q * c m n p q)))).
(* d(a.b)/da  and  d(a.b)/db *)
Definition tpld4 (b : M2) : M4 := fun i j k l => delta i k * b l j.
Definition tprd4 (a : M2) : M4 := fun i j k l => a i k * delta j l.

(* ---- sanity of the storage maps *)
Lemma idx9_pairs9 : map (fun p => idx9 (fst p) (snd p)) pairs9 = seq 0 9.
Proof. reflexivity. Qed.
Lemma idx6_pairs6 : map (fun p => idx6 (fst p) (snd p)) pairs6 = seq 0 6.
Proof. reflexivity. Qed.
Lemma idx6_sym i j : idx6 i j = idx6 j i.
Proof. destruct i as [|[|[|i]]], j as [|[|[|j]]]; reflexivity. Qed.
Lemma w_sym i j : w i j = w j i.
Proof. unfold w. now rewrite Nat.eqb_sym. Qed.
Lemma iw_w i j : iw i j * w i j = 1.
Proof. unfold iw, w. destruct (Nat.eqb i j); [ring | field_simplify_eq; ring [sqrt2_sq]]. Qed.


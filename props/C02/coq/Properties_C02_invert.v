(* C02 -- invert(st2tost2<1>) (LU with partial pivoting inside TinyMatrixInvert<3>): on every one of the pivoting paths
   traced from /repo, a returned tensor X satisfies  A : X = Is  in index notation (statement only). *)
From Coq Require Import Reals List.
Require Import TensorIndex C02_invert_gen InvertProofs.
Import ListNotations.
Local Open Scope R_scope.

Theorem C02_A_invert_1D : forall a0 a1 a2 a3 a4 a5 a6 a7 a8 x,
  A_invert_1 a0 a1 a2 a3 a4 a5 a6 a7 a8 = Some x ->
  flat_A 1%nat (mul44 (full_A 1%nat (vec_of [a0; a1; a2; a3; a4; a5; a6; a7; a8])) (full_A 1%nat (vec_of x))) = flat_A 1%nat IdS4.
Proof. exact A_invert_1_ok. Qed.
Print Assumptions C02_A_invert_1D.

(* C02 -- remaining (expensive) instances, thorough tier, group 1 of trace.cxx (statements only; every proof is `exact` of lemmas generated and proved per component).
   Regenerate with mkprops.py when the operation registry of trace.cxx changes. *)
From Coq Require Import Reals List.
Require Import TensorIndex C02Spec C02_g1_n1_p0 C02_g1_n2_p0 C02_g1_n2_p1 C02_g1_n3_p0 C02_g1_n3_p1 C02_g1_n3_p2 C02_g1_n3_p3 C02_g1_n3_p4.

Import ListNotations.
Local Open Scope R_scope.

Theorem C02_A_mul_full : forall a b : nat -> R,
  (A_mul_3 a b = flat_A 3%nat (spec_A_mul 3%nat (full_A 3%nat a) (full_A 3%nat b))).
Proof. intros a b; exact (A_mul_3_ok a b). Qed.
Print Assumptions C02_A_mul_full.

Theorem C02_A_mul3_full : forall a b c : nat -> R,
  (A_mul3_1 a b c = flat_A 1%nat (spec_A_mul3 1%nat (full_A 1%nat a) (full_A 1%nat b) (full_A 1%nat c))) /\
  (A_mul3_2 a b c = flat_A 2%nat (spec_A_mul3 2%nat (full_A 2%nat a) (full_A 2%nat b) (full_A 2%nat c))) /\
  (A_mul3_3 a b c = flat_A 3%nat (spec_A_mul3 3%nat (full_A 3%nat a) (full_A 3%nat b) (full_A 3%nat c))).
Proof. intros a b c; exact (conj (A_mul3_1_ok a b c) (conj (A_mul3_2_ok a b c) (A_mul3_3_ok a b c))). Qed.
Print Assumptions C02_A_mul3_full.

Theorem C02_A_expr_full : forall a b c : nat -> R,
  (A_expr_3 a b c = flat_A 3%nat (spec_A_expr 3%nat (full_A 3%nat a) (full_A 3%nat b) (full_x 3%nat c))).
Proof. intros a b c; exact (A_expr_3_ok a b c). Qed.
Print Assumptions C02_A_expr_full.

Theorem C02_s_otimes_full : forall a b : nat -> R,
  (s_otimes_3 a b = flat_A 3%nat (spec_s_otimes 3%nat (full_s 3%nat a) (full_s 3%nat b))).
Proof. intros a b; exact (s_otimes_3_ok a b). Qed.
Print Assumptions C02_s_otimes_full.

Theorem C02_A_transpose_full : forall a : nat -> R,
  (A_transpose_3 a = flat_A 3%nat (spec_A_transpose 3%nat (full_A 3%nat a))).
Proof. intros a; exact (A_transpose_3_ok a). Qed.
Print Assumptions C02_A_transpose_full.

Theorem C02_A_change_basis_full : forall a b : nat -> R,
  (A_change_basis_3 a b = flat_A 3%nat (spec_A_change_basis 3%nat (full_A 3%nat a) (full_r 3%nat b))).
Proof. intros a b; exact (A_change_basis_3_ok a b). Qed.
Print Assumptions C02_A_change_basis_full.

Theorem C02_A_push_forward_full : forall a b : nat -> R,
  (A_push_forward_3 a b = flat_A 3%nat (spec_A_push_forward 3%nat (full_A 3%nat a) (full_t 3%nat b))).
Proof. intros a b; exact (A_push_forward_3_ok a b). Qed.
Print Assumptions C02_A_push_forward_full.

Theorem C02_A_fromRotationMatrix_full : forall a : nat -> R,
  (A_fromRotationMatrix_3 a = flat_A 3%nat (spec_A_fromRotationMatrix 3%nat (full_r 3%nat a))).
Proof. intros a; exact (A_fromRotationMatrix_3_ok a). Qed.
Print Assumptions C02_A_fromRotationMatrix_full.

Theorem C02_A_getComponent_full : forall a : nat -> R,
  (A_getComponent_3 a = flat_A 3%nat (spec_A_getComponent 3%nat (full_A 3%nat a))).
Proof. intros a; exact (A_getComponent_3_ok a). Qed.
Print Assumptions C02_A_getComponent_full.

Theorem C02_A_dsquare_full : forall a : nat -> R,
  (A_dsquare_3 a = flat_A 3%nat (spec_A_dsquare 3%nat (full_s 3%nat a))).
Proof. intros a; exact (A_dsquare_3_ok a). Qed.
Print Assumptions C02_A_dsquare_full.

Theorem C02_A_stpd_full : forall a : nat -> R,
  (A_stpd_1 a = flat_A 1%nat (spec_A_stpd 1%nat (full_s 1%nat a))) /\
  (A_stpd_2 a = flat_A 2%nat (spec_A_stpd 2%nat (full_s 2%nat a))) /\
  (A_stpd_3 a = flat_A 3%nat (spec_A_stpd 3%nat (full_s 3%nat a))).
Proof. intros a; exact (conj (A_stpd_1_ok a) (conj (A_stpd_2_ok a) (A_stpd_3_ok a))). Qed.
Print Assumptions C02_A_stpd_full.

Theorem C02_A_d2det_full : forall a : nat -> R,
  (A_d2det_1 a = flat_A 1%nat (spec_A_d2det 1%nat (full_s 1%nat a))) /\
  (A_d2det_2 a = flat_A 2%nat (spec_A_d2det 2%nat (full_s 2%nat a))) /\
  (A_d2det_3 a = flat_A 3%nat (spec_A_d2det 3%nat (full_s 3%nat a))).
Proof. intros a; exact (conj (A_d2det_1_ok a) (conj (A_d2det_2_ok a) (A_d2det_3_ok a))). Qed.
Print Assumptions C02_A_d2det_full.

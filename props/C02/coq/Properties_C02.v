(* C02 -- tensor algebra = index notation, core set (quick and thorough tiers) (statements only; every proof is `exact` of lemmas generated and proved per component).
   Regenerate with mkprops.py when the operation registry of trace.cxx changes. *)
From Coq Require Import Reals List.
Require Import TensorIndex C02Spec C02_g0_n1_p0 C02_g0_n2_p0 C02_g0_n3_p0 C02_g0_n3_p1 C02_g1_n1_p0 C02_g1_n2_p0 C02_g1_n2_p1 C02_g1_n3_p0 C02_g1_n3_p1 C02_g1_n3_p2 C02_g1_n3_p3 C02_g1_n3_p4 C02_g2_n1_p0 C02_g2_n2_p0 C02_g2_n2_p1 C02_g2_n3_p0 C02_g2_n3_p1 C02_g2_n3_p2 C02_g2_n3_p3 C02_g3_n1_p0 C02_g3_n2_p0 C02_g3_n3_p0 C02_g3_n3_p1 C02_g3_n3_p2.

Import ListNotations.
Local Open Scope R_scope.

Theorem C02_t_mul : forall a b : nat -> R,
  (t_mul_1 a b = flat_t 1%nat (spec_t_mul 1%nat (full_t 1%nat a) (full_t 1%nat b))) /\
  (t_mul_2 a b = flat_t 2%nat (spec_t_mul 2%nat (full_t 2%nat a) (full_t 2%nat b))) /\
  (t_mul_3 a b = flat_t 3%nat (spec_t_mul 3%nat (full_t 3%nat a) (full_t 3%nat b))).
Proof. intros a b; exact (conj (t_mul_1_ok a b) (conj (t_mul_2_ok a b) (t_mul_3_ok a b))). Qed.
Print Assumptions C02_t_mul.

Theorem C02_t_expr : forall a b c : nat -> R,
  (t_expr_1 a b c = flat_t 1%nat (spec_t_expr 1%nat (full_t 1%nat a) (full_t 1%nat b) (full_x 1%nat c))) /\
  (t_expr_2 a b c = flat_t 2%nat (spec_t_expr 2%nat (full_t 2%nat a) (full_t 2%nat b) (full_x 2%nat c))) /\
  (t_expr_3 a b c = flat_t 3%nat (spec_t_expr 3%nat (full_t 3%nat a) (full_t 3%nat b) (full_x 3%nat c))).
Proof. intros a b c; exact (conj (t_expr_1_ok a b c) (conj (t_expr_2_ok a b c) (t_expr_3_ok a b c))). Qed.
Print Assumptions C02_t_expr.

Theorem C02_t_transpose : forall a : nat -> R,
  (t_transpose_1 a = flat_t 1%nat (spec_t_transpose 1%nat (full_t 1%nat a))) /\
  (t_transpose_2 a = flat_t 2%nat (spec_t_transpose 2%nat (full_t 2%nat a))) /\
  (t_transpose_3 a = flat_t 3%nat (spec_t_transpose 3%nat (full_t 3%nat a))).
Proof. intros a; exact (conj (t_transpose_1_ok a) (conj (t_transpose_2_ok a) (t_transpose_3_ok a))). Qed.
Print Assumptions C02_t_transpose.

Theorem C02_t_trace : forall a : nat -> R,
  (t_trace_1 a = flat_x 1%nat (spec_t_trace 1%nat (full_t 1%nat a))) /\
  (t_trace_2 a = flat_x 2%nat (spec_t_trace 2%nat (full_t 2%nat a))) /\
  (t_trace_3 a = flat_x 3%nat (spec_t_trace 3%nat (full_t 3%nat a))).
Proof. intros a; exact (conj (t_trace_1_ok a) (conj (t_trace_2_ok a) (t_trace_3_ok a))). Qed.
Print Assumptions C02_t_trace.

Theorem C02_t_det : forall a : nat -> R,
  (t_det_1 a = flat_x 1%nat (spec_t_det 1%nat (full_t 1%nat a))) /\
  (t_det_2 a = flat_x 2%nat (spec_t_det 2%nat (full_t 2%nat a))) /\
  (t_det_3 a = flat_x 3%nat (spec_t_det 3%nat (full_t 3%nat a))).
Proof. intros a; exact (conj (t_det_1_ok a) (conj (t_det_2_ok a) (t_det_3_ok a))). Qed.
Print Assumptions C02_t_det.

Theorem C02_t_invert : forall a : nat -> R,
  (det2 (full_t 1%nat a) <> 0 -> t_invert_1 a = flat_t 1%nat (spec_t_invert 1%nat (full_t 1%nat a))) /\
  (det2 (full_t 2%nat a) <> 0 -> t_invert_2 a = flat_t 2%nat (spec_t_invert 2%nat (full_t 2%nat a))) /\
  (det2 (full_t 3%nat a) <> 0 -> t_invert_3 a = flat_t 3%nat (spec_t_invert 3%nat (full_t 3%nat a))).
Proof. intros a; exact (conj (t_invert_1_ok a) (conj (t_invert_2_ok a) (t_invert_3_ok a))). Qed.
Print Assumptions C02_t_invert.

Theorem C02_t_ddet : forall a : nat -> R,
  (t_ddet_1 a = flat_t 1%nat (spec_t_ddet 1%nat (full_t 1%nat a))) /\
  (t_ddet_2 a = flat_t 2%nat (spec_t_ddet 2%nat (full_t 2%nat a))) /\
  (t_ddet_3 a = flat_t 3%nat (spec_t_ddet 3%nat (full_t 3%nat a))).
Proof. intros a; exact (conj (t_ddet_1_ok a) (conj (t_ddet_2_ok a) (t_ddet_3_ok a))). Qed.
Print Assumptions C02_t_ddet.

Theorem C02_t_change_basis : forall a b : nat -> R,
  (t_change_basis_1 a b = flat_t 1%nat (spec_t_change_basis 1%nat (full_t 1%nat a) (full_r 1%nat b))) /\
  (t_change_basis_2 a b = flat_t 2%nat (spec_t_change_basis 2%nat (full_t 2%nat a) (full_r 2%nat b))) /\
  (t_change_basis_3 a b = flat_t 3%nat (spec_t_change_basis 3%nat (full_t 3%nat a) (full_r 3%nat b))).
Proof. intros a b; exact (conj (t_change_basis_1_ok a b) (conj (t_change_basis_2_ok a b) (t_change_basis_3_ok a b))). Qed.
Print Assumptions C02_t_change_basis.

Theorem C02_t_syme : forall a : nat -> R,
  (t_syme_1 a = flat_s 1%nat (spec_t_syme 1%nat (full_t 1%nat a))) /\
  (t_syme_2 a = flat_s 2%nat (spec_t_syme 2%nat (full_t 2%nat a))) /\
  (t_syme_3 a = flat_s 3%nat (spec_t_syme 3%nat (full_t 3%nat a))).
Proof. intros a; exact (conj (t_syme_1_ok a) (conj (t_syme_2_ok a) (t_syme_3_ok a))). Qed.
Print Assumptions C02_t_syme.

Theorem C02_t_unsyme : forall a : nat -> R,
  (t_unsyme_1 a = flat_t 1%nat (spec_t_unsyme 1%nat (full_s 1%nat a))) /\
  (t_unsyme_2 a = flat_t 2%nat (spec_t_unsyme 2%nat (full_s 2%nat a))) /\
  (t_unsyme_3 a = flat_t 3%nat (spec_t_unsyme 3%nat (full_s 3%nat a))).
Proof. intros a; exact (conj (t_unsyme_1_ok a) (conj (t_unsyme_2_ok a) (t_unsyme_3_ok a))). Qed.
Print Assumptions C02_t_unsyme.

Theorem C02_t_Id : (t_Id_1 = flat_t 1%nat (spec_t_Id 1%nat)) /\
  (t_Id_2 = flat_t 2%nat (spec_t_Id 2%nat)) /\
  (t_Id_3 = flat_t 3%nat (spec_t_Id 3%nat)).
Proof. exact (conj (t_Id_1_ok) (conj (t_Id_2_ok) (t_Id_3_ok))). Qed.
Print Assumptions C02_t_Id.

Theorem C02_t_rcg : forall a : nat -> R,
  (t_rcg_1 a = flat_s 1%nat (spec_t_rcg 1%nat (full_t 1%nat a))) /\
  (t_rcg_2 a = flat_s 2%nat (spec_t_rcg 2%nat (full_t 2%nat a))) /\
  (t_rcg_3 a = flat_s 3%nat (spec_t_rcg 3%nat (full_t 3%nat a))).
Proof. intros a; exact (conj (t_rcg_1_ok a) (conj (t_rcg_2_ok a) (t_rcg_3_ok a))). Qed.
Print Assumptions C02_t_rcg.

Theorem C02_t_lcg : forall a : nat -> R,
  (t_lcg_1 a = flat_s 1%nat (spec_t_lcg 1%nat (full_t 1%nat a))) /\
  (t_lcg_2 a = flat_s 2%nat (spec_t_lcg 2%nat (full_t 2%nat a))) /\
  (t_lcg_3 a = flat_s 3%nat (spec_t_lcg 3%nat (full_t 3%nat a))).
Proof. intros a; exact (conj (t_lcg_1_ok a) (conj (t_lcg_2_ok a) (t_lcg_3_ok a))). Qed.
Print Assumptions C02_t_lcg.

Theorem C02_t_gl : forall a : nat -> R,
  (t_gl_1 a = flat_s 1%nat (spec_t_gl 1%nat (full_t 1%nat a))) /\
  (t_gl_2 a = flat_s 2%nat (spec_t_gl 2%nat (full_t 2%nat a))) /\
  (t_gl_3 a = flat_s 3%nat (spec_t_gl 3%nat (full_t 3%nat a))).
Proof. intros a; exact (conj (t_gl_1_ok a) (conj (t_gl_2_ok a) (t_gl_3_ok a))). Qed.
Print Assumptions C02_t_gl.

Theorem C02_s_push_forward : forall a b : nat -> R,
  (s_push_forward_1 a b = flat_s 1%nat (spec_s_push_forward 1%nat (full_s 1%nat a) (full_t 1%nat b))) /\
  (s_push_forward_2 a b = flat_s 2%nat (spec_s_push_forward 2%nat (full_s 2%nat a) (full_t 2%nat b))) /\
  (s_push_forward_3 a b = flat_s 3%nat (spec_s_push_forward 3%nat (full_s 3%nat a) (full_t 3%nat b))).
Proof. intros a b; exact (conj (s_push_forward_1_ok a b) (conj (s_push_forward_2_ok a b) (s_push_forward_3_ok a b))). Qed.
Print Assumptions C02_s_push_forward.

Theorem C02_t_matrix_view : forall a : nat -> R,
  (t_matrix_view_1 a = flat_r 1%nat (spec_t_matrix_view 1%nat (full_t 1%nat a))) /\
  (t_matrix_view_2 a = flat_r 2%nat (spec_t_matrix_view 2%nat (full_t 2%nat a))) /\
  (t_matrix_view_3 a = flat_r 3%nat (spec_t_matrix_view 3%nat (full_t 3%nat a))).
Proof. intros a; exact (conj (t_matrix_view_1_ok a) (conj (t_matrix_view_2_ok a) (t_matrix_view_3_ok a))). Qed.
Print Assumptions C02_t_matrix_view.

Theorem C02_t_dot : forall a b : nat -> R,
  (t_dot_1 a b = flat_x 1%nat (spec_t_dot 1%nat (full_t 1%nat a) (full_t 1%nat b))) /\
  (t_dot_2 a b = flat_x 2%nat (spec_t_dot 2%nat (full_t 2%nat a) (full_t 2%nat b))) /\
  (t_dot_3 a b = flat_x 3%nat (spec_t_dot 3%nat (full_t 3%nat a) (full_t 3%nat b))).
Proof. intros a b; exact (conj (t_dot_1_ok a b) (conj (t_dot_2_ok a b) (t_dot_3_ok a b))). Qed.
Print Assumptions C02_t_dot.

Theorem C02_A_mul : forall a b : nat -> R,
  (A_mul_1 a b = flat_A 1%nat (spec_A_mul 1%nat (full_A 1%nat a) (full_A 1%nat b))) /\
  (A_mul_2 a b = flat_A 2%nat (spec_A_mul 2%nat (full_A 2%nat a) (full_A 2%nat b))) /\
  (A_mul_3 a b = flat_A 3%nat (spec_A_mul 3%nat (full_A 3%nat a) (full_A 3%nat b))).
Proof. intros a b; exact (conj (A_mul_1_ok a b) (conj (A_mul_2_ok a b) (A_mul_3_ok a b))). Qed.
Print Assumptions C02_A_mul.

Theorem C02_A_expr : forall a b c : nat -> R,
  (A_expr_1 a b c = flat_A 1%nat (spec_A_expr 1%nat (full_A 1%nat a) (full_A 1%nat b) (full_x 1%nat c))) /\
  (A_expr_2 a b c = flat_A 2%nat (spec_A_expr 2%nat (full_A 2%nat a) (full_A 2%nat b) (full_x 2%nat c))) /\
  (A_expr_3 a b c = flat_A 3%nat (spec_A_expr 3%nat (full_A 3%nat a) (full_A 3%nat b) (full_x 3%nat c))).
Proof. intros a b c; exact (conj (A_expr_1_ok a b c) (conj (A_expr_2_ok a b c) (A_expr_3_ok a b c))). Qed.
Print Assumptions C02_A_expr.

Theorem C02_A_apply : forall a b : nat -> R,
  (A_apply_1 a b = flat_s 1%nat (spec_A_apply 1%nat (full_A 1%nat a) (full_s 1%nat b))) /\
  (A_apply_2 a b = flat_s 2%nat (spec_A_apply 2%nat (full_A 2%nat a) (full_s 2%nat b))) /\
  (A_apply_3 a b = flat_s 3%nat (spec_A_apply 3%nat (full_A 3%nat a) (full_s 3%nat b))).
Proof. intros a b; exact (conj (A_apply_1_ok a b) (conj (A_apply_2_ok a b) (A_apply_3_ok a b))). Qed.
Print Assumptions C02_A_apply.

Theorem C02_A_lapply : forall a b : nat -> R,
  (A_lapply_1 a b = flat_s 1%nat (spec_A_lapply 1%nat (full_s 1%nat a) (full_A 1%nat b))) /\
  (A_lapply_2 a b = flat_s 2%nat (spec_A_lapply 2%nat (full_s 2%nat a) (full_A 2%nat b))) /\
  (A_lapply_3 a b = flat_s 3%nat (spec_A_lapply 3%nat (full_s 3%nat a) (full_A 3%nat b))).
Proof. intros a b; exact (conj (A_lapply_1_ok a b) (conj (A_lapply_2_ok a b) (A_lapply_3_ok a b))). Qed.
Print Assumptions C02_A_lapply.

Theorem C02_s_otimes : forall a b : nat -> R,
  (s_otimes_1 a b = flat_A 1%nat (spec_s_otimes 1%nat (full_s 1%nat a) (full_s 1%nat b))) /\
  (s_otimes_2 a b = flat_A 2%nat (spec_s_otimes 2%nat (full_s 2%nat a) (full_s 2%nat b))) /\
  (s_otimes_3 a b = flat_A 3%nat (spec_s_otimes 3%nat (full_s 3%nat a) (full_s 3%nat b))).
Proof. intros a b; exact (conj (s_otimes_1_ok a b) (conj (s_otimes_2_ok a b) (s_otimes_3_ok a b))). Qed.
Print Assumptions C02_s_otimes.

Theorem C02_A_transpose : forall a : nat -> R,
  (A_transpose_1 a = flat_A 1%nat (spec_A_transpose 1%nat (full_A 1%nat a))) /\
  (A_transpose_2 a = flat_A 2%nat (spec_A_transpose 2%nat (full_A 2%nat a))) /\
  (A_transpose_3 a = flat_A 3%nat (spec_A_transpose 3%nat (full_A 3%nat a))).
Proof. intros a; exact (conj (A_transpose_1_ok a) (conj (A_transpose_2_ok a) (A_transpose_3_ok a))). Qed.
Print Assumptions C02_A_transpose.

Theorem C02_A_change_basis : forall a b : nat -> R,
  (A_change_basis_1 a b = flat_A 1%nat (spec_A_change_basis 1%nat (full_A 1%nat a) (full_r 1%nat b))) /\
  (A_change_basis_2 a b = flat_A 2%nat (spec_A_change_basis 2%nat (full_A 2%nat a) (full_r 2%nat b))).
Proof. intros a b; exact (conj (A_change_basis_1_ok a b) (A_change_basis_2_ok a b)). Qed.
Print Assumptions C02_A_change_basis.

Theorem C02_A_push_forward : forall a b : nat -> R,
  (A_push_forward_1 a b = flat_A 1%nat (spec_A_push_forward 1%nat (full_A 1%nat a) (full_t 1%nat b))) /\
  (A_push_forward_2 a b = flat_A 2%nat (spec_A_push_forward 2%nat (full_A 2%nat a) (full_t 2%nat b))) /\
  (A_push_forward_3 a b = flat_A 3%nat (spec_A_push_forward 3%nat (full_A 3%nat a) (full_t 3%nat b))).
Proof. intros a b; exact (conj (A_push_forward_1_ok a b) (conj (A_push_forward_2_ok a b) (A_push_forward_3_ok a b))). Qed.
Print Assumptions C02_A_push_forward.

Theorem C02_A_fromRotationMatrix : forall a : nat -> R,
  (A_fromRotationMatrix_1 a = flat_A 1%nat (spec_A_fromRotationMatrix 1%nat (full_r 1%nat a))) /\
  (A_fromRotationMatrix_2 a = flat_A 2%nat (spec_A_fromRotationMatrix 2%nat (full_r 2%nat a))) /\
  (A_fromRotationMatrix_3 a = flat_A 3%nat (spec_A_fromRotationMatrix 3%nat (full_r 3%nat a))).
Proof. intros a; exact (conj (A_fromRotationMatrix_1_ok a) (conj (A_fromRotationMatrix_2_ok a) (A_fromRotationMatrix_3_ok a))). Qed.
Print Assumptions C02_A_fromRotationMatrix.

Theorem C02_A_Id : (A_Id_1 = flat_A 1%nat (spec_A_Id 1%nat)) /\
  (A_Id_2 = flat_A 2%nat (spec_A_Id 2%nat)) /\
  (A_Id_3 = flat_A 3%nat (spec_A_Id 3%nat)).
Proof. exact (conj (A_Id_1_ok) (conj (A_Id_2_ok) (A_Id_3_ok))). Qed.
Print Assumptions C02_A_Id.

Theorem C02_A_IxI : (A_IxI_1 = flat_A 1%nat (spec_A_IxI 1%nat)) /\
  (A_IxI_2 = flat_A 2%nat (spec_A_IxI 2%nat)) /\
  (A_IxI_3 = flat_A 3%nat (spec_A_IxI 3%nat)).
Proof. exact (conj (A_IxI_1_ok) (conj (A_IxI_2_ok) (A_IxI_3_ok))). Qed.
Print Assumptions C02_A_IxI.

Theorem C02_A_J : (A_J_1 = flat_A 1%nat (spec_A_J 1%nat)) /\
  (A_J_2 = flat_A 2%nat (spec_A_J 2%nat)) /\
  (A_J_3 = flat_A 3%nat (spec_A_J 3%nat)).
Proof. exact (conj (A_J_1_ok) (conj (A_J_2_ok) (A_J_3_ok))). Qed.
Print Assumptions C02_A_J.

Theorem C02_A_K : (A_K_1 = flat_A 1%nat (spec_A_K 1%nat)) /\
  (A_K_2 = flat_A 2%nat (spec_A_K 2%nat)) /\
  (A_K_3 = flat_A 3%nat (spec_A_K 3%nat)).
Proof. exact (conj (A_K_1_ok) (conj (A_K_2_ok) (A_K_3_ok))). Qed.
Print Assumptions C02_A_K.

Theorem C02_A_M : (A_M_1 = flat_A 1%nat (spec_A_M 1%nat)) /\
  (A_M_2 = flat_A 2%nat (spec_A_M 2%nat)) /\
  (A_M_3 = flat_A 3%nat (spec_A_M 3%nat)).
Proof. exact (conj (A_M_1_ok) (conj (A_M_2_ok) (A_M_3_ok))). Qed.
Print Assumptions C02_A_M.

Theorem C02_A_getComponent : forall a : nat -> R,
  (A_getComponent_1 a = flat_A 1%nat (spec_A_getComponent 1%nat (full_A 1%nat a))) /\
  (A_getComponent_2 a = flat_A 2%nat (spec_A_getComponent 2%nat (full_A 2%nat a))) /\
  (A_getComponent_3 a = flat_A 3%nat (spec_A_getComponent 3%nat (full_A 3%nat a))).
Proof. intros a; exact (conj (A_getComponent_1_ok a) (conj (A_getComponent_2_ok a) (A_getComponent_3_ok a))). Qed.
Print Assumptions C02_A_getComponent.

Theorem C02_A_dsquare : forall a : nat -> R,
  (A_dsquare_1 a = flat_A 1%nat (spec_A_dsquare 1%nat (full_s 1%nat a))) /\
  (A_dsquare_2 a = flat_A 2%nat (spec_A_dsquare 2%nat (full_s 2%nat a))) /\
  (A_dsquare_3 a = flat_A 3%nat (spec_A_dsquare 3%nat (full_s 3%nat a))).
Proof. intros a; exact (conj (A_dsquare_1_ok a) (conj (A_dsquare_2_ok a) (A_dsquare_3_ok a))). Qed.
Print Assumptions C02_A_dsquare.

Theorem C02_B_mul : forall a b : nat -> R,
  (B_mul_1 a b = flat_B 1%nat (spec_B_mul 1%nat (full_B 1%nat a) (full_B 1%nat b))) /\
  (B_mul_2 a b = flat_B 2%nat (spec_B_mul 2%nat (full_B 2%nat a) (full_B 2%nat b))) /\
  (B_mul_3 a b = flat_B 3%nat (spec_B_mul 3%nat (full_B 3%nat a) (full_B 3%nat b))).
Proof. intros a b; exact (conj (B_mul_1_ok a b) (conj (B_mul_2_ok a b) (B_mul_3_ok a b))). Qed.
Print Assumptions C02_B_mul.

Theorem C02_B_apply : forall a b : nat -> R,
  (B_apply_1 a b = flat_t 1%nat (spec_B_apply 1%nat (full_B 1%nat a) (full_t 1%nat b))) /\
  (B_apply_2 a b = flat_t 2%nat (spec_B_apply 2%nat (full_B 2%nat a) (full_t 2%nat b))) /\
  (B_apply_3 a b = flat_t 3%nat (spec_B_apply 3%nat (full_B 3%nat a) (full_t 3%nat b))).
Proof. intros a b; exact (conj (B_apply_1_ok a b) (conj (B_apply_2_ok a b) (B_apply_3_ok a b))). Qed.
Print Assumptions C02_B_apply.

Theorem C02_B_lapply : forall a b : nat -> R,
  (B_lapply_1 a b = flat_t 1%nat (spec_B_lapply 1%nat (full_t 1%nat a) (full_B 1%nat b))) /\
  (B_lapply_2 a b = flat_t 2%nat (spec_B_lapply 2%nat (full_t 2%nat a) (full_B 2%nat b))) /\
  (B_lapply_3 a b = flat_t 3%nat (spec_B_lapply 3%nat (full_t 3%nat a) (full_B 3%nat b))).
Proof. intros a b; exact (conj (B_lapply_1_ok a b) (conj (B_lapply_2_ok a b) (B_lapply_3_ok a b))). Qed.
Print Assumptions C02_B_lapply.

Theorem C02_B_change_basis : forall a b : nat -> R,
  (B_change_basis_1 a b = flat_B 1%nat (spec_B_change_basis 1%nat (full_B 1%nat a) (full_r 1%nat b))) /\
  (B_change_basis_2 a b = flat_B 2%nat (spec_B_change_basis 2%nat (full_B 2%nat a) (full_r 2%nat b))).
Proof. intros a b; exact (conj (B_change_basis_1_ok a b) (B_change_basis_2_ok a b)). Qed.
Print Assumptions C02_B_change_basis.

Theorem C02_B_fromRotationMatrix : forall a : nat -> R,
  (B_fromRotationMatrix_1 a = flat_B 1%nat (spec_B_fromRotationMatrix 1%nat (full_r 1%nat a))) /\
  (B_fromRotationMatrix_2 a = flat_B 2%nat (spec_B_fromRotationMatrix 2%nat (full_r 2%nat a))) /\
  (B_fromRotationMatrix_3 a = flat_B 3%nat (spec_B_fromRotationMatrix 3%nat (full_r 3%nat a))).
Proof. intros a; exact (conj (B_fromRotationMatrix_1_ok a) (conj (B_fromRotationMatrix_2_ok a) (B_fromRotationMatrix_3_ok a))). Qed.
Print Assumptions C02_B_fromRotationMatrix.

Theorem C02_B_tpld : forall a : nat -> R,
  (B_tpld_1 a = flat_B 1%nat (spec_B_tpld 1%nat (full_t 1%nat a))) /\
  (B_tpld_2 a = flat_B 2%nat (spec_B_tpld 2%nat (full_t 2%nat a))) /\
  (B_tpld_3 a = flat_B 3%nat (spec_B_tpld 3%nat (full_t 3%nat a))).
Proof. intros a; exact (conj (B_tpld_1_ok a) (conj (B_tpld_2_ok a) (B_tpld_3_ok a))). Qed.
Print Assumptions C02_B_tpld.

Theorem C02_B_tprd : forall a : nat -> R,
  (B_tprd_1 a = flat_B 1%nat (spec_B_tprd 1%nat (full_t 1%nat a))) /\
  (B_tprd_2 a = flat_B 2%nat (spec_B_tprd 2%nat (full_t 2%nat a))) /\
  (B_tprd_3 a = flat_B 3%nat (spec_B_tprd 3%nat (full_t 3%nat a))).
Proof. intros a; exact (conj (B_tprd_1_ok a) (conj (B_tprd_2_ok a) (B_tprd_3_ok a))). Qed.
Print Assumptions C02_B_tprd.

Theorem C02_B_Id : (B_Id_1 = flat_B 1%nat (spec_B_Id 1%nat)) /\
  (B_Id_2 = flat_B 2%nat (spec_B_Id 2%nat)) /\
  (B_Id_3 = flat_B 3%nat (spec_B_Id 3%nat)).
Proof. exact (conj (B_Id_1_ok) (conj (B_Id_2_ok) (B_Id_3_ok))). Qed.
Print Assumptions C02_B_Id.

Theorem C02_B_IxI : (B_IxI_1 = flat_B 1%nat (spec_B_IxI 1%nat)) /\
  (B_IxI_2 = flat_B 2%nat (spec_B_IxI 2%nat)) /\
  (B_IxI_3 = flat_B 3%nat (spec_B_IxI 3%nat)).
Proof. exact (conj (B_IxI_1_ok) (conj (B_IxI_2_ok) (B_IxI_3_ok))). Qed.
Print Assumptions C02_B_IxI.

Theorem C02_B_K : (B_K_1 = flat_B 1%nat (spec_B_K 1%nat)) /\
  (B_K_2 = flat_B 2%nat (spec_B_K 2%nat)) /\
  (B_K_3 = flat_B 3%nat (spec_B_K 3%nat)).
Proof. exact (conj (B_K_1_ok) (conj (B_K_2_ok) (B_K_3_ok))). Qed.
Print Assumptions C02_B_K.

Theorem C02_B_transpose_derivative : (B_transpose_derivative_1 = flat_B 1%nat (spec_B_transpose_derivative 1%nat)) /\
  (B_transpose_derivative_2 = flat_B 2%nat (spec_B_transpose_derivative 2%nat)) /\
  (B_transpose_derivative_3 = flat_B 3%nat (spec_B_transpose_derivative 3%nat)).
Proof. exact (conj (B_transpose_derivative_1_ok) (conj (B_transpose_derivative_2_ok) (B_transpose_derivative_3_ok))). Qed.
Print Assumptions C02_B_transpose_derivative.

Theorem C02_B_convert : forall a : nat -> R,
  (B_convert_1 a = flat_B 1%nat (spec_B_convert 1%nat (full_C 1%nat a))) /\
  (B_convert_2 a = flat_B 2%nat (spec_B_convert 2%nat (full_C 2%nat a))) /\
  (B_convert_3 a = flat_B 3%nat (spec_B_convert 3%nat (full_C 3%nat a))).
Proof. intros a; exact (conj (B_convert_1_ok a) (conj (B_convert_2_ok a) (B_convert_3_ok a))). Qed.
Print Assumptions C02_B_convert.

Theorem C02_C_apply : forall a b : nat -> R,
  (C_apply_1 a b = flat_s 1%nat (spec_C_apply 1%nat (full_C 1%nat a) (full_t 1%nat b))) /\
  (C_apply_2 a b = flat_s 2%nat (spec_C_apply 2%nat (full_C 2%nat a) (full_t 2%nat b))) /\
  (C_apply_3 a b = flat_s 3%nat (spec_C_apply 3%nat (full_C 3%nat a) (full_t 3%nat b))).
Proof. intros a b; exact (conj (C_apply_1_ok a b) (conj (C_apply_2_ok a b) (C_apply_3_ok a b))). Qed.
Print Assumptions C02_C_apply.

Theorem C02_D_apply : forall a b : nat -> R,
  (D_apply_1 a b = flat_t 1%nat (spec_D_apply 1%nat (full_D 1%nat a) (full_s 1%nat b))) /\
  (D_apply_2 a b = flat_t 2%nat (spec_D_apply 2%nat (full_D 2%nat a) (full_s 2%nat b))) /\
  (D_apply_3 a b = flat_t 3%nat (spec_D_apply 3%nat (full_D 3%nat a) (full_s 3%nat b))).
Proof. intros a b; exact (conj (D_apply_1_ok a b) (conj (D_apply_2_ok a b) (D_apply_3_ok a b))). Qed.
Print Assumptions C02_D_apply.

Theorem C02_AC_mul : forall a b : nat -> R,
  (AC_mul_1 a b = flat_C 1%nat (spec_AC_mul 1%nat (full_A 1%nat a) (full_C 1%nat b))) /\
  (AC_mul_2 a b = flat_C 2%nat (spec_AC_mul 2%nat (full_A 2%nat a) (full_C 2%nat b))) /\
  (AC_mul_3 a b = flat_C 3%nat (spec_AC_mul 3%nat (full_A 3%nat a) (full_C 3%nat b))).
Proof. intros a b; exact (conj (AC_mul_1_ok a b) (conj (AC_mul_2_ok a b) (AC_mul_3_ok a b))). Qed.
Print Assumptions C02_AC_mul.

Theorem C02_CB_mul : forall a b : nat -> R,
  (CB_mul_1 a b = flat_C 1%nat (spec_CB_mul 1%nat (full_C 1%nat a) (full_B 1%nat b))) /\
  (CB_mul_2 a b = flat_C 2%nat (spec_CB_mul 2%nat (full_C 2%nat a) (full_B 2%nat b))) /\
  (CB_mul_3 a b = flat_C 3%nat (spec_CB_mul 3%nat (full_C 3%nat a) (full_B 3%nat b))).
Proof. intros a b; exact (conj (CB_mul_1_ok a b) (conj (CB_mul_2_ok a b) (CB_mul_3_ok a b))). Qed.
Print Assumptions C02_CB_mul.

Theorem C02_CD_mul : forall a b : nat -> R,
  (CD_mul_1 a b = flat_A 1%nat (spec_CD_mul 1%nat (full_C 1%nat a) (full_D 1%nat b))) /\
  (CD_mul_2 a b = flat_A 2%nat (spec_CD_mul 2%nat (full_C 2%nat a) (full_D 2%nat b))) /\
  (CD_mul_3 a b = flat_A 3%nat (spec_CD_mul 3%nat (full_C 3%nat a) (full_D 3%nat b))).
Proof. intros a b; exact (conj (CD_mul_1_ok a b) (conj (CD_mul_2_ok a b) (CD_mul_3_ok a b))). Qed.
Print Assumptions C02_CD_mul.

Theorem C02_DC_mul : forall a b : nat -> R,
  (DC_mul_1 a b = flat_B 1%nat (spec_DC_mul 1%nat (full_D 1%nat a) (full_C 1%nat b))) /\
  (DC_mul_2 a b = flat_B 2%nat (spec_DC_mul 2%nat (full_D 2%nat a) (full_C 2%nat b))).
Proof. intros a b; exact (conj (DC_mul_1_ok a b) (DC_mul_2_ok a b)). Qed.
Print Assumptions C02_DC_mul.

Theorem C02_DA_mul : forall a b : nat -> R,
  (DA_mul_1 a b = flat_D 1%nat (spec_DA_mul 1%nat (full_D 1%nat a) (full_A 1%nat b))) /\
  (DA_mul_2 a b = flat_D 2%nat (spec_DA_mul 2%nat (full_D 2%nat a) (full_A 2%nat b))) /\
  (DA_mul_3 a b = flat_D 3%nat (spec_DA_mul 3%nat (full_D 3%nat a) (full_A 3%nat b))).
Proof. intros a b; exact (conj (DA_mul_1_ok a b) (conj (DA_mul_2_ok a b) (DA_mul_3_ok a b))). Qed.
Print Assumptions C02_DA_mul.

Theorem C02_BD_mul : forall a b : nat -> R,
  (BD_mul_1 a b = flat_D 1%nat (spec_BD_mul 1%nat (full_B 1%nat a) (full_D 1%nat b))) /\
  (BD_mul_2 a b = flat_D 2%nat (spec_BD_mul 2%nat (full_B 2%nat a) (full_D 2%nat b))).
Proof. intros a b; exact (conj (BD_mul_1_ok a b) (BD_mul_2_ok a b)). Qed.
Print Assumptions C02_BD_mul.

Theorem C02_C_dCdF : forall a : nat -> R,
  (C_dCdF_1 a = flat_C 1%nat (spec_C_dCdF 1%nat (full_t 1%nat a))) /\
  (C_dCdF_2 a = flat_C 2%nat (spec_C_dCdF 2%nat (full_t 2%nat a))) /\
  (C_dCdF_3 a = flat_C 3%nat (spec_C_dCdF 3%nat (full_t 3%nat a))).
Proof. intros a; exact (conj (C_dCdF_1_ok a) (conj (C_dCdF_2_ok a) (C_dCdF_3_ok a))). Qed.
Print Assumptions C02_C_dCdF.

Theorem C02_C_dBdF : forall a : nat -> R,
  (C_dBdF_1 a = flat_C 1%nat (spec_C_dBdF 1%nat (full_t 1%nat a))) /\
  (C_dBdF_2 a = flat_C 2%nat (spec_C_dBdF 2%nat (full_t 2%nat a))) /\
  (C_dBdF_3 a = flat_C 3%nat (spec_C_dBdF 3%nat (full_t 3%nat a))).
Proof. intros a; exact (conj (C_dBdF_1_ok a) (conj (C_dBdF_2_ok a) (C_dBdF_3_ok a))). Qed.
Print Assumptions C02_C_dBdF.

Theorem C02_C_convertToT2toST2 : forall a : nat -> R,
  (C_convertToT2toST2_1 a = flat_C 1%nat (spec_C_convertToT2toST2 1%nat (full_B 1%nat a))) /\
  (C_convertToT2toST2_2 a = flat_C 2%nat (spec_C_convertToT2toST2 2%nat (full_B 2%nat a))) /\
  (C_convertToT2toST2_3 a = flat_C 3%nat (spec_C_convertToT2toST2 3%nat (full_B 3%nat a))).
Proof. intros a; exact (conj (C_convertToT2toST2_1_ok a) (conj (C_convertToT2toST2_2_ok a) (C_convertToT2toST2_3_ok a))). Qed.
Print Assumptions C02_C_convertToT2toST2.

Theorem C02_D_tpld : forall a : nat -> R,
  (D_tpld_1 a = flat_D 1%nat (spec_D_tpld 1%nat (full_s 1%nat a))) /\
  (D_tpld_2 a = flat_D 2%nat (spec_D_tpld 2%nat (full_s 2%nat a))) /\
  (D_tpld_3 a = flat_D 3%nat (spec_D_tpld 3%nat (full_s 3%nat a))).
Proof. intros a; exact (conj (D_tpld_1_ok a) (conj (D_tpld_2_ok a) (D_tpld_3_ok a))). Qed.
Print Assumptions C02_D_tpld.

Theorem C02_D_tprd : forall a : nat -> R,
  (D_tprd_1 a = flat_D 1%nat (spec_D_tprd 1%nat (full_s 1%nat a))) /\
  (D_tprd_2 a = flat_D 2%nat (spec_D_tprd 2%nat (full_s 2%nat a))) /\
  (D_tprd_3 a = flat_D 3%nat (spec_D_tprd 3%nat (full_s 3%nat a))).
Proof. intros a; exact (conj (D_tprd_1_ok a) (conj (D_tprd_2_ok a) (D_tprd_3_ok a))). Qed.
Print Assumptions C02_D_tprd.

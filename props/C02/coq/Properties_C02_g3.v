(* C02 -- tensor algebra = index notation, core set (quick and thorough tiers), group 3 of trace.cxx (statements only; every proof is `exact` of lemmas generated and proved per component).
   Regenerate with mkprops.py when the operation registry of trace.cxx changes. *)
From Coq Require Import Reals List.
Require Import TensorIndex C02Spec C02_g3_n1_p0 C02_g3_n2_p0 C02_g3_n3_p0 C02_g3_n3_p1 C02_g3_n3_p2.

Import ListNotations.
Local Open Scope R_scope.

Theorem C02_C_apply : forall a b : nat -> R,
  (C_apply_1 a b = flat_s 1%nat (spec_C_apply 1%nat (full_C 1%nat a) (full_t 1%nat b))) /\
  (C_apply_2 a b = flat_s 2%nat (spec_C_apply 2%nat (full_C 2%nat a) (full_t 2%nat b))) /\
  (C_apply_3 a b = flat_s 3%nat (spec_C_apply 3%nat (full_C 3%nat a) (full_t 3%nat b))).
Proof. intros a b; exact (conj (C_apply_1_ok a b) (conj (C_apply_2_ok a b) (C_apply_3_ok a b))). Qed.
Print Assumptions C02_C_apply.

Theorem C02_D_apply : forall a b : nat -> R,
  (D_apply_1 a b = flat_t 1%nat (spec_D_apply 1%nat (full_D 1%nat a) (full_s 1%nat b))) /\
  (D_apply_2 a b = flat_t 2%nat (spec_D_apply 2%nat (full_D 2%nat a) (full_s 2%nat b))) /\
  (D_apply_3 a b = flat_t 3%nat (spec_D_apply 3%nat (full_D 3%nat a) (full_s 3%nat b))).
Proof. intros a b; exact (conj (D_apply_1_ok a b) (conj (D_apply_2_ok a b) (D_apply_3_ok a b))). Qed.
Print Assumptions C02_D_apply.

Theorem C02_AC_mul : forall a b : nat -> R,
  (AC_mul_1 a b = flat_C 1%nat (spec_AC_mul 1%nat (full_A 1%nat a) (full_C 1%nat b))) /\
  (AC_mul_2 a b = flat_C 2%nat (spec_AC_mul 2%nat (full_A 2%nat a) (full_C 2%nat b))).
Proof. intros a b; exact (conj (AC_mul_1_ok a b) (AC_mul_2_ok a b)). Qed.
Print Assumptions C02_AC_mul.

Theorem C02_CB_mul : forall a b : nat -> R,
  (CB_mul_1 a b = flat_C 1%nat (spec_CB_mul 1%nat (full_C 1%nat a) (full_B 1%nat b))) /\
  (CB_mul_2 a b = flat_C 2%nat (spec_CB_mul 2%nat (full_C 2%nat a) (full_B 2%nat b))).
Proof. intros a b; exact (conj (CB_mul_1_ok a b) (CB_mul_2_ok a b)). Qed.
Print Assumptions C02_CB_mul.

Theorem C02_CD_mul : forall a b : nat -> R,
  (CD_mul_1 a b = flat_A 1%nat (spec_CD_mul 1%nat (full_C 1%nat a) (full_D 1%nat b))) /\
  (CD_mul_2 a b = flat_A 2%nat (spec_CD_mul 2%nat (full_C 2%nat a) (full_D 2%nat b))).
Proof. intros a b; exact (conj (CD_mul_1_ok a b) (CD_mul_2_ok a b)). Qed.
Print Assumptions C02_CD_mul.

Theorem C02_DC_mul : forall a b : nat -> R,
  (DC_mul_1 a b = flat_B 1%nat (spec_DC_mul 1%nat (full_D 1%nat a) (full_C 1%nat b))) /\
  (DC_mul_2 a b = flat_B 2%nat (spec_DC_mul 2%nat (full_D 2%nat a) (full_C 2%nat b))).
Proof. intros a b; exact (conj (DC_mul_1_ok a b) (DC_mul_2_ok a b)). Qed.
Print Assumptions C02_DC_mul.

Theorem C02_DA_mul : forall a b : nat -> R,
  (DA_mul_1 a b = flat_D 1%nat (spec_DA_mul 1%nat (full_D 1%nat a) (full_A 1%nat b))) /\
  (DA_mul_2 a b = flat_D 2%nat (spec_DA_mul 2%nat (full_D 2%nat a) (full_A 2%nat b))).
Proof. intros a b; exact (conj (DA_mul_1_ok a b) (DA_mul_2_ok a b)). Qed.
Print Assumptions C02_DA_mul.

Theorem C02_BD_mul : forall a b : nat -> R,
  (BD_mul_1 a b = flat_D 1%nat (spec_BD_mul 1%nat (full_B 1%nat a) (full_D 1%nat b))) /\
  (BD_mul_2 a b = flat_D 2%nat (spec_BD_mul 2%nat (full_B 2%nat a) (full_D 2%nat b))).
Proof. intros a b; exact (conj (BD_mul_1_ok a b) (BD_mul_2_ok a b)). Qed.
Print Assumptions C02_BD_mul.

Theorem C02_C_dCdF : forall a : nat -> R,
  (C_dCdF_1 a = flat_C 1%nat (spec_C_dCdF 1%nat (full_t 1%nat a))) /\
  (C_dCdF_2 a = flat_C 2%nat (spec_C_dCdF 2%nat (full_t 2%nat a))).
Proof. intros a; exact (conj (C_dCdF_1_ok a) (C_dCdF_2_ok a)). Qed.
Print Assumptions C02_C_dCdF.

Theorem C02_C_dBdF : forall a : nat -> R,
  (C_dBdF_1 a = flat_C 1%nat (spec_C_dBdF 1%nat (full_t 1%nat a))) /\
  (C_dBdF_2 a = flat_C 2%nat (spec_C_dBdF 2%nat (full_t 2%nat a))).
Proof. intros a; exact (conj (C_dBdF_1_ok a) (C_dBdF_2_ok a)). Qed.
Print Assumptions C02_C_dBdF.

Theorem C02_C_convertToT2toST2 : forall a : nat -> R,
  (C_convertToT2toST2_1 a = flat_C 1%nat (spec_C_convertToT2toST2 1%nat (full_B 1%nat a))) /\
  (C_convertToT2toST2_2 a = flat_C 2%nat (spec_C_convertToT2toST2 2%nat (full_B 2%nat a))).
Proof. intros a; exact (conj (C_convertToT2toST2_1_ok a) (C_convertToT2toST2_2_ok a)). Qed.
Print Assumptions C02_C_convertToT2toST2.

Theorem C02_D_tpld : forall a : nat -> R,
  (D_tpld_1 a = flat_D 1%nat (spec_D_tpld 1%nat (full_s 1%nat a))) /\
  (D_tpld_2 a = flat_D 2%nat (spec_D_tpld 2%nat (full_s 2%nat a))).
Proof. intros a; exact (conj (D_tpld_1_ok a) (D_tpld_2_ok a)). Qed.
Print Assumptions C02_D_tpld.

Theorem C02_D_tprd : forall a : nat -> R,
  (D_tprd_1 a = flat_D 1%nat (spec_D_tprd 1%nat (full_s 1%nat a))) /\
  (D_tprd_2 a = flat_D 2%nat (spec_D_tprd 2%nat (full_s 2%nat a))).
Proof. intros a; exact (conj (D_tprd_1_ok a) (D_tprd_2_ok a)). Qed.
Print Assumptions C02_D_tprd.

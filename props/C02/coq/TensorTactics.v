(* Proof machinery shared by the generated obligations of C02 / C23. *)
From Coq Require Import Reals List Lra Lia.
From VLib Require Import RealExtra.
Require Import TensorIndex NsatzTac.
Local Open Scope R_scope.

(* ---- proof machinery shared by the generated obligations *)
Lemma list_eq_nth (l1 l2 : list R) :
  @length R l1 = @length R l2 -> (forall k : nat, Nat.lt k (@length R l1) -> @nth R k l1 0 = @nth R k l2 0) -> l1 = l2.
Proof. intros H1 H2. apply (nth_ext l1 l2 0 0 H1 H2). Qed.

(* reduce specification terms (index computations, sums, storage maps) but leave real arithmetic alone *)
Ltac spec_red := lazy -[Rplus Rmult Rminus Ropp Rdiv Rinv IZR sqrt].
Ltac spec_red_in H := lazy -[Rplus Rmult Rminus Ropp Rdiv Rinv IZR sqrt not] in H.
(* the Mandel weight 1/sqrt 2 is written sqrt 2 / 2: an atom for nsatz, which needs its square *)
Lemma hsqrt2_sq : (sqrt 2 / 2) * (sqrt 2 / 2) * 2 = 1.
Proof. replace (sqrt 2 / 2 * (sqrt 2 / 2) * 2) with (sqrt 2 * sqrt 2 / 2) by field. rewrite sqrt2_sq. field. Qed.
Lemma hsqrt2_def : sqrt 2 / 2 * 2 = sqrt 2.
Proof. field. Qed.
Ltac nonzero :=
  repeat split;
  first [ apply sqrt2_neq0 | apply sqrt3_neq0 | assumption | lra
        | match goal with H : _ <> 0 |- _ <> 0 => let E := fresh in intro E; apply H; first [ solve [timeout 600 nsatz_tac] | solve [generalize sqrt2_sq; intro; timeout 1200 nsatz_tac]
                      | solve [generalize hsqrt2_sq; intro; timeout 1200 nsatz_tac]
                      | solve [generalize hsqrt2_def; generalize sqrt2_sq; intros; timeout 1200 nsatz_tac] ] end ].
(* the single closing tactic: identities of rational functions over Q[sqrt 2, sqrt 3], whatever their shape.
   Coq's `timeout` counts wall-clock seconds: the limits only stop a runaway search and are an order of magnitude
   above the CPU time of the slowest obligation (a few seconds), because the machine may be heavily shared *)
Ltac comp_eq :=
  first [ reflexivity
        | timeout 3000 (field_simplify_eq; [ ring [sqrt2_sq sqrt3_sq sqrt6_sq] | nonzero .. ]) ].
Ltac prove_comp f :=
  intros; unfold f; spec_red;
  repeat match goal with H : _ <> _ |- _ => progress spec_red_in H end;
  comp_eq.

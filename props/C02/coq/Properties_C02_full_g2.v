(* C02 -- remaining (expensive) instances, thorough tier, group 2 of trace.cxx (statements only; every proof is `exact` of lemmas generated and proved per component).
   Regenerate with mkprops.py when the operation registry of trace.cxx changes. *)
From Coq Require Import Reals List.
Require Import TensorIndex C02Spec C02_g2_n1_p0 C02_g2_n2_p0 C02_g2_n2_p1 C02_g2_n3_p0 C02_g2_n3_p1 C02_g2_n3_p2 C02_g2_n3_p3.

Import ListNotations.
Local Open Scope R_scope.

Theorem C02_B_mul_full : forall a b : nat -> R,
  (B_mul_3 a b = flat_B 3%nat (spec_B_mul 3%nat (full_B 3%nat a) (full_B 3%nat b))).
Proof. intros a b; exact (B_mul_3_ok a b). Qed.
Print Assumptions C02_B_mul_full.

Theorem C02_B_expr_full : forall a b c : nat -> R,
  (B_expr_1 a b c = flat_B 1%nat (spec_B_expr 1%nat (full_B 1%nat a) (full_B 1%nat b) (full_x 1%nat c))) /\
  (B_expr_2 a b c = flat_B 2%nat (spec_B_expr 2%nat (full_B 2%nat a) (full_B 2%nat b) (full_x 2%nat c))) /\
  (B_expr_3 a b c = flat_B 3%nat (spec_B_expr 3%nat (full_B 3%nat a) (full_B 3%nat b) (full_x 3%nat c))).
Proof. intros a b c; exact (conj (B_expr_1_ok a b c) (conj (B_expr_2_ok a b c) (B_expr_3_ok a b c))). Qed.
Print Assumptions C02_B_expr_full.

Theorem C02_B_change_basis_full : forall a b : nat -> R,
  (B_change_basis_3 a b = flat_B 3%nat (spec_B_change_basis 3%nat (full_B 3%nat a) (full_r 3%nat b))).
Proof. intros a b; exact (B_change_basis_3_ok a b). Qed.
Print Assumptions C02_B_change_basis_full.

Theorem C02_B_fromRotationMatrix_full : forall a : nat -> R,
  (B_fromRotationMatrix_3 a = flat_B 3%nat (spec_B_fromRotationMatrix 3%nat (full_r 3%nat a))).
Proof. intros a; exact (B_fromRotationMatrix_3_ok a). Qed.
Print Assumptions C02_B_fromRotationMatrix_full.

Theorem C02_B_tpld_full : forall a : nat -> R,
  (B_tpld_3 a = flat_B 3%nat (spec_B_tpld 3%nat (full_t 3%nat a))).
Proof. intros a; exact (B_tpld_3_ok a). Qed.
Print Assumptions C02_B_tpld_full.

Theorem C02_B_tprd_full : forall a : nat -> R,
  (B_tprd_3 a = flat_B 3%nat (spec_B_tprd 3%nat (full_t 3%nat a))).
Proof. intros a; exact (B_tprd_3_ok a). Qed.
Print Assumptions C02_B_tprd_full.

Theorem C02_B_tpld2_full : forall a b : nat -> R,
  (B_tpld2_1 a b = flat_B 1%nat (spec_B_tpld2 1%nat (full_t 1%nat a) (full_B 1%nat b))) /\
  (B_tpld2_2 a b = flat_B 2%nat (spec_B_tpld2 2%nat (full_t 2%nat a) (full_B 2%nat b))) /\
  (B_tpld2_3 a b = flat_B 3%nat (spec_B_tpld2 3%nat (full_t 3%nat a) (full_B 3%nat b))).
Proof. intros a b; exact (conj (B_tpld2_1_ok a b) (conj (B_tpld2_2_ok a b) (B_tpld2_3_ok a b))). Qed.
Print Assumptions C02_B_tpld2_full.

Theorem C02_B_tprd2_full : forall a b : nat -> R,
  (B_tprd2_1 a b = flat_B 1%nat (spec_B_tprd2 1%nat (full_t 1%nat a) (full_B 1%nat b))) /\
  (B_tprd2_2 a b = flat_B 2%nat (spec_B_tprd2 2%nat (full_t 2%nat a) (full_B 2%nat b))) /\
  (B_tprd2_3 a b = flat_B 3%nat (spec_B_tprd2 3%nat (full_t 3%nat a) (full_B 3%nat b))).
Proof. intros a b; exact (conj (B_tprd2_1_ok a b) (conj (B_tprd2_2_ok a b) (B_tprd2_3_ok a b))). Qed.
Print Assumptions C02_B_tprd2_full.

Theorem C02_B_convert_full : forall a : nat -> R,
  (B_convert_3 a = flat_B 3%nat (spec_B_convert 3%nat (full_C 3%nat a))).
Proof. intros a; exact (B_convert_3_ok a). Qed.
Print Assumptions C02_B_convert_full.

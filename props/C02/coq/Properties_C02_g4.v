(* C02 -- tensor algebra = index notation, core set (quick and thorough tiers), group 4 of trace.cxx (statements only; every proof is `exact` of lemmas generated and proved per component).
   Regenerate with mkprops.py when the operation registry of trace.cxx changes. *)
From Coq Require Import Reals List.
Require Import TensorIndex C02Spec C02_g4_n1_p0 C02_g4_n2_p0 C02_g4_n2_p1 C02_g4_n3_p0 C02_g4_n3_p1 C02_g4_n3_p2.

Import ListNotations.
Local Open Scope R_scope.

Theorem C02_t_polar_U : forall a b : nat -> R,
  (polar_den 1%nat (full_v 1%nat b) <> 0 -> t_polar_U_1 a b = flat_s 1%nat (spec_t_polar_U 1%nat (full_t 1%nat a) (full_v 1%nat b))) /\
  (polar_den 2%nat (full_v 2%nat b) <> 0 -> t_polar_U_2 a b = flat_s 2%nat (spec_t_polar_U 2%nat (full_t 2%nat a) (full_v 2%nat b))) /\
  (polar_den 3%nat (full_v 3%nat b) <> 0 -> t_polar_U_3 a b = flat_s 3%nat (spec_t_polar_U 3%nat (full_t 3%nat a) (full_v 3%nat b))).
Proof. intros a b; exact (conj (t_polar_U_1_ok a b) (conj (t_polar_U_2_ok a b) (t_polar_U_3_ok a b))). Qed.
Print Assumptions C02_t_polar_U.

Theorem C02_t_polar_R : forall a b : nat -> R,
  (polar_den 1%nat (full_v 1%nat b) <> 0 -> t_polar_R_1 a b = flat_t 1%nat (spec_t_polar_R 1%nat (full_t 1%nat a) (full_v 1%nat b))) /\
  (polar_den 2%nat (full_v 2%nat b) <> 0 -> t_polar_R_2 a b = flat_t 2%nat (spec_t_polar_R 2%nat (full_t 2%nat a) (full_v 2%nat b))).
Proof. intros a b; exact (conj (t_polar_R_1_ok a b) (t_polar_R_2_ok a b)). Qed.
Print Assumptions C02_t_polar_R.

Theorem C02_C_lapply : forall a b : nat -> R,
  (C_lapply_1 a b = flat_t 1%nat (spec_C_lapply 1%nat (full_s 1%nat a) (full_C 1%nat b))) /\
  (C_lapply_2 a b = flat_t 2%nat (spec_C_lapply 2%nat (full_s 2%nat a) (full_C 2%nat b))) /\
  (C_lapply_3 a b = flat_t 3%nat (spec_C_lapply 3%nat (full_s 3%nat a) (full_C 3%nat b))).
Proof. intros a b; exact (conj (C_lapply_1_ok a b) (conj (C_lapply_2_ok a b) (C_lapply_3_ok a b))). Qed.
Print Assumptions C02_C_lapply.

Theorem C02_D_lapply : forall a b : nat -> R,
  (D_lapply_1 a b = flat_s 1%nat (spec_D_lapply 1%nat (full_t 1%nat a) (full_D 1%nat b))) /\
  (D_lapply_2 a b = flat_s 2%nat (spec_D_lapply 2%nat (full_t 2%nat a) (full_D 2%nat b))) /\
  (D_lapply_3 a b = flat_s 3%nat (spec_D_lapply 3%nat (full_t 3%nat a) (full_D 3%nat b))).
Proof. intros a b; exact (conj (D_lapply_1_ok a b) (conj (D_lapply_2_ok a b) (D_lapply_3_ok a b))). Qed.
Print Assumptions C02_D_lapply.

Theorem C02_st_otimes : forall a b : nat -> R,
  (st_otimes_1 a b = flat_C 1%nat (spec_st_otimes 1%nat (full_s 1%nat a) (full_t 1%nat b))) /\
  (st_otimes_2 a b = flat_C 2%nat (spec_st_otimes 2%nat (full_s 2%nat a) (full_t 2%nat b))).
Proof. intros a b; exact (conj (st_otimes_1_ok a b) (st_otimes_2_ok a b)). Qed.
Print Assumptions C02_st_otimes.

Theorem C02_ts_otimes : forall a b : nat -> R,
  (ts_otimes_1 a b = flat_D 1%nat (spec_ts_otimes 1%nat (full_t 1%nat a) (full_s 1%nat b))) /\
  (ts_otimes_2 a b = flat_D 2%nat (spec_ts_otimes 2%nat (full_t 2%nat a) (full_s 2%nat b))).
Proof. intros a b; exact (conj (ts_otimes_1_ok a b) (ts_otimes_2_ok a b)). Qed.
Print Assumptions C02_ts_otimes.

Theorem C02_C_expr : forall a b c : nat -> R,
  (C_expr_1 a b c = flat_C 1%nat (spec_C_expr 1%nat (full_C 1%nat a) (full_C 1%nat b) (full_x 1%nat c))) /\
  (C_expr_2 a b c = flat_C 2%nat (spec_C_expr 2%nat (full_C 2%nat a) (full_C 2%nat b) (full_x 2%nat c))).
Proof. intros a b c; exact (conj (C_expr_1_ok a b c) (C_expr_2_ok a b c)). Qed.
Print Assumptions C02_C_expr.

Theorem C02_D_expr : forall a b c : nat -> R,
  (D_expr_1 a b c = flat_D 1%nat (spec_D_expr 1%nat (full_D 1%nat a) (full_D 1%nat b) (full_x 1%nat c))) /\
  (D_expr_2 a b c = flat_D 2%nat (spec_D_expr 2%nat (full_D 2%nat a) (full_D 2%nat b) (full_x 2%nat c))).
Proof. intros a b c; exact (conj (D_expr_1_ok a b c) (D_expr_2_ok a b c)). Qed.
Print Assumptions C02_D_expr.

Theorem C02_A_dsquare2 : forall a b : nat -> R,
  (A_dsquare2_1 a b = flat_A 1%nat (spec_A_dsquare2 1%nat (full_s 1%nat a) (full_A 1%nat b))) /\
  (A_dsquare2_2 a b = flat_A 2%nat (spec_A_dsquare2 2%nat (full_s 2%nat a) (full_A 2%nat b))).
Proof. intros a b; exact (conj (A_dsquare2_1_ok a b) (A_dsquare2_2_ok a b)). Qed.
Print Assumptions C02_A_dsquare2.

Theorem C02_D_tpld2 : forall a b : nat -> R,
  (D_tpld2_1 a b = flat_D 1%nat (spec_D_tpld2 1%nat (full_s 1%nat a) (full_A 1%nat b))) /\
  (D_tpld2_2 a b = flat_D 2%nat (spec_D_tpld2 2%nat (full_s 2%nat a) (full_A 2%nat b))).
Proof. intros a b; exact (conj (D_tpld2_1_ok a b) (D_tpld2_2_ok a b)). Qed.
Print Assumptions C02_D_tpld2.

Theorem C02_D_tprd2 : forall a b : nat -> R,
  (D_tprd2_1 a b = flat_D 1%nat (spec_D_tprd2 1%nat (full_s 1%nat a) (full_A 1%nat b))) /\
  (D_tprd2_2 a b = flat_D 2%nat (spec_D_tprd2 2%nat (full_s 2%nat a) (full_A 2%nat b))).
Proof. intros a b; exact (conj (D_tprd2_1_ok a b) (D_tprd2_2_ok a b)). Qed.
Print Assumptions C02_D_tprd2.

Theorem C02_t_fromFortran : forall a : nat -> R,
  (t_fromFortran_1 a = flat_t 1%nat (spec_t_fromFortran 1%nat (full_m 1%nat a))) /\
  (t_fromFortran_2 a = flat_t 2%nat (spec_t_fromFortran 2%nat (full_m 2%nat a))) /\
  (t_fromFortran_3 a = flat_t 3%nat (spec_t_fromFortran 3%nat (full_m 3%nat a))).
Proof. intros a; exact (conj (t_fromFortran_1_ok a) (conj (t_fromFortran_2_ok a) (t_fromFortran_3_ok a))). Qed.
Print Assumptions C02_t_fromFortran.

(* C02 -- what every traced operation of /repo's tensor algebra has to compute, in index notation
   (definitions of TensorIndex.v), written from the mathematical meaning of the operation and not from the code.
   spec_<op> N <full inputs...> : full result.  The dimension N only matters for the storage maps. *)
From Coq Require Import Reals List Lra.
From VLib Require Import RealExtra.
Require Import TensorIndex.
Import ListNotations.
Local Open Scope R_scope.

(* ---- tensor<N> *)
Definition spec_t_mul (N : nat) (a b : M2) : M2 := mul2 a b.
Definition spec_t_expr (N : nat) (a b : M2) (x : R) : M2 :=
  add2 (sub2 (scal2 2 a) (scal2 (/ 3) b)) (scal2 x (mul2 a b)).
Definition spec_t_transpose (N : nat) (a : M2) : M2 := tr2 a.
Definition spec_t_trace (N : nat) (a : M2) : R := trace2 a.
Definition spec_t_det (N : nat) (a : M2) : R := det2 a.
Definition spec_t_invert (N : nat) (a : M2) : M2 := inv2 a.
Definition spec_t_ddet (N : nat) (a : M2) : M2 := cof2 a.
Definition spec_t_change_basis (N : nat) (a r : M2) : M2 := rot2 r a.
Definition spec_t_changeBasis (N : nat) (a r : M2) : M2 := rot2 r a.
Definition spec_t_syme (N : nat) (a : M2) : M2 := sym2 a.
Definition spec_t_unsyme (N : nat) (s : M2) : M2 := s.
Definition spec_t_Id (N : nat) : M2 := Id2.
Definition spec_t_rcg (N : nat) (F : M2) : M2 := mul2 (tr2 F) F.
Definition spec_t_lcg (N : nat) (F : M2) : M2 := mul2 F (tr2 F).
Definition spec_t_gl (N : nat) (F : M2) : M2 := scal2 (/ 2) (sub2 (mul2 (tr2 F) F) Id2).
Definition spec_s_push_forward (N : nat) (s F : M2) : M2 := pf2 F s.
Definition spec_t_matrix_view (N : nat) (a : M2) : M2 := a.
Definition spec_t_dot (N : nat) (a b : M2) : R := dot2 a b.
Definition spec_t_otimes (N : nat) (a b : M2) : M4 := otimes a b.

(* ---- st2tost2<N> *)
Definition spec_A_mul (N : nat) (a b : M4) : M4 := mul44 a b.
Definition spec_A_mul3 (N : nat) (a b c : M4) : M4 := mul44 (mul44 a b) c.
Definition spec_A_expr (N : nat) (a b : M4) (x : R) : M4 :=
  add4 (sub4 (scal4 2 a) (scal4 (/ 3) b)) (scal4 x (mul44 a b)).
Definition spec_A_apply (N : nat) (c : M4) (s : M2) : M2 := mul42 c s.
Definition spec_A_lapply (N : nat) (s : M2) (c : M4) : M2 := mul24 s c.
Definition spec_s_otimes (N : nat) (a b : M2) : M4 := otimes a b.
Definition spec_A_transpose (N : nat) (a : M4) : M4 := tr4 a.
Definition spec_A_change_basis (N : nat) (c : M4) (r : M2) : M4 := rot4 r c.
Definition spec_A_push_forward (N : nat) (c : M4) (F : M2) : M4 := pf4 F c.
(* the map s |-> r^T s r on symmetric tensors *)
Definition spec_A_fromRotationMatrix (N : nat) (r : M2) : M4 := symR (Rot4 r).
Definition spec_A_Id (N : nat) : M4 := IdS4.
Definition spec_A_IxI (N : nat) : M4 := IxI4.
Definition spec_A_J (N : nat) : M4 := scal4 (/ 3) IxI4.
Definition spec_A_K (N : nat) : M4 := sub4 IdS4 (scal4 (/ 3) IxI4).
Definition spec_A_M (N : nat) : M4 := scal4 (3 / 2) (sub4 IdS4 (scal4 (/ 3) IxI4)).
(* restriction of a map tensor -> stensor to symmetric arguments *)
Definition spec_A_convert (N : nat) (c : M4) : M4 := symR c.
Definition spec_A_getComponent (N : nat) (a : M4) : M4 := fun i j k l => (a i j k l + a j i l k) / 2.
(* d(s.s)/ds for symmetric s and symmetric variations *)
Definition spec_A_dsquare (N : nat) (s : M2) : M4 := symR (add4 (tpld4 s) (tprd4 s)).
(* d(a.b + b.a)/da for symmetric variations (documented meaning of stpd) *)
Definition spec_A_stpd (N : nat) (b : M2) : M4 := symR (add4 (tpld4 b) (tprd4 b)).
Definition d2det4 (a : M2) : M4 :=
  fun i j k l => sum3 (fun m => sum3 (fun n => eps i k m * eps j l n * a m n)).
Definition spec_A_d2det (N : nat) (s : M2) : M4 := symL (symR (d2det4 s)).

(* ---- t2tot2<N> *)
Definition spec_B_mul (N : nat) (a b : M4) : M4 := mul44 a b.
Definition spec_B_expr (N : nat) (a b : M4) (x : R) : M4 :=
  add4 (sub4 (scal4 2 a) (scal4 (/ 3) b)) (scal4 x (mul44 a b)).
Definition spec_B_apply (N : nat) (c : M4) (t : M2) : M2 := mul42 c t.
Definition spec_B_lapply (N : nat) (t : M2) (c : M4) : M2 := mul24 t c.
Definition spec_B_change_basis (N : nat) (c : M4) (r : M2) : M4 := rot4 r c.
Definition spec_B_fromRotationMatrix (N : nat) (r : M2) : M4 := Rot4 r.
Definition spec_B_tpld (N : nat) (b : M2) : M4 := tpld4 b.
Definition spec_B_tprd (N : nat) (a : M2) : M4 := tprd4 a.
Definition spec_B_tpld2 (N : nat) (b : M2) (c : M4) : M4 := mul44 (tpld4 b) c.
Definition spec_B_tprd2 (N : nat) (a : M2) (c : M4) : M4 := mul44 (tprd4 a) c.
Definition spec_B_Id (N : nat) : M4 := Id4.
Definition spec_B_IxI (N : nat) : M4 := IxI4.
Definition spec_B_K (N : nat) : M4 := sub4 Id4 (scal4 (/ 3) IxI4).
Definition spec_B_transpose_derivative (N : nat) : M4 := IdT4.
Definition spec_B_convert (N : nat) (c : M4) : M4 := c.
Definition spec_B_d2det (N : nat) (t : M2) : M4 := d2det4 t.

(* ---- t2tost2<N>, st2tot2<N> and the mixed products *)
Definition spec_C_apply (N : nat) (c : M4) (t : M2) : M2 := mul42 c t.
Definition spec_D_apply (N : nat) (c : M4) (s : M2) : M2 := mul42 c s.
Definition spec_AC_mul (N : nat) (a b : M4) : M4 := mul44 a b.
Definition spec_CB_mul (N : nat) (a b : M4) : M4 := mul44 a b.
Definition spec_CD_mul (N : nat) (a b : M4) : M4 := mul44 a b.
Definition spec_DC_mul (N : nat) (a b : M4) : M4 := mul44 a b.
Definition spec_DA_mul (N : nat) (a b : M4) : M4 := mul44 a b.
Definition spec_BD_mul (N : nat) (a b : M4) : M4 := mul44 a b.
Definition spec_C_change_basis (N : nat) (c : M4) (r : M2) : M4 := rot4 r c.
(* d(F^T F)_ij / dF_kl  and  d(F F^T)_ij / dF_kl *)
Definition spec_C_dCdF (N : nat) (F : M2) : M4 := fun i j k l => delta i l * F k j + F k i * delta j l.
Definition spec_C_dBdF (N : nat) (F : M2) : M4 := fun i j k l => delta i k * F j l + F i l * delta j k.
Definition spec_C_convertToT2toST2 (N : nat) (b : M4) : M4 := symL b.
Definition spec_D_tpld (N : nat) (b : M2) : M4 := symR (tpld4 b).
Definition spec_D_tprd (N : nat) (a : M2) : M4 := symR (tprd4 a).


(* ---- extensions (round 4) *)
Definition spec_C_lapply (N : nat) (s : M2) (c : M4) : M2 := mul24 s c.
Definition spec_D_lapply (N : nat) (t : M2) (c : M4) : M2 := mul24 t c.
Definition spec_st_otimes (N : nat) (a b : M2) : M4 := otimes a b.
Definition spec_ts_otimes (N : nat) (a b : M2) : M4 := otimes a b.
Definition spec_C_expr (N : nat) (a b : M4) (x : R) : M4 :=
  add4 (sub4 (scal4 2 a) (scal4 (/ 3) b)) (scal4 x (scal4 (-1) a)).
Definition spec_D_expr (N : nat) (a b : M4) (x : R) : M4 :=
  add4 (sub4 (scal4 2 a) (scal4 (/ 3) b)) (scal4 x (scal4 (-1) a)).
Definition spec_A_dsquare2 (N : nat) (s : M2) (c : M4) : M4 := mul44 (symR (add4 (tpld4 s) (tprd4 s))) c.
Definition spec_D_tpld2 (N : nat) (b : M2) (c : M4) : M4 := mul44 (symR (tpld4 b)) c.
Definition spec_D_tprd2 (N : nat) (a : M2) (c : M4) : M4 := mul44 (symR (tprd4 a)) c.
(* J3 = det(dev s), dev s = K : s is linear in s:  d2 J3 / ds2 = K : d2det(dev s) : K *)
Definition dev2 (s : M2) : M2 := sub2 s (scal2 (trace2 s / 3) Id2).
(* K : a = a - I (x) (I : a) / 3  and  a : K = a - (a : I) (x) I / 3   (K = Is - IxI/3, the deviatoric projector) *)
Definition devL (a : M4) : M4 := fun i j k l => a i j k l - delta i j * sum3 (fun m => a m m k l) / 3.
Definition devR (a : M4) : M4 := fun i j k l => a i j k l - sum3 (fun m => a i j m m) * delta k l / 3.
Definition spec_A_dev_d2det (N : nat) (s : M2) : M4 := devL (devR (symL (symR (d2det4 (dev2 s))))).
Definition spec_A_pull_back (N : nat) (c : M4) (F : M2) : M4 := pf4 (inv2 F) c.
(* buildFromFortranMatrix reads a column-major 3x3 matrix *)
Definition spec_t_fromFortran (N : nat) (m : M2) : M2 := tr2 m.

(* ---- polar decomposition F = R U.  The code evaluates the Hoger-Carlson closed form of U = sqrt(C), C = F^T F, from the
   eigenvalues vp of C (u_k = sqrt vp_k, i1 i2 i3 the invariants of U):
     U = (- C^2 + (i1^2 - i2) C + i1 i3 I) / (i1 i2 - i3),   U^-1 = (C - i1 U + i2 I) / i3,   R = F U^-1.
   These formulas are only the intermediate step of the proofs (coq/Polar.v shows that they do give U^2 = C,
   R^T R = I, R U = F when vp are the eigenvalues of C); in 1D the code returns U = F, R = I. *)
Definition polar_i1 (v : nat -> R) : R := sqrt (v 0%nat) + sqrt (v 1%nat) + sqrt (v 2%nat).
Definition polar_i2 (v : nat -> R) : R :=
  sqrt (v 0%nat) * sqrt (v 1%nat) + sqrt (v 0%nat) * sqrt (v 2%nat) + sqrt (v 1%nat) * sqrt (v 2%nat).
Definition polar_i3 (v : nat -> R) : R := sqrt (v 0%nat) * sqrt (v 1%nat) * sqrt (v 2%nat).
Definition polar_den (N : nat) (v : nat -> R) : R :=
  match N with 1%nat => 1 | _ => (polar_i1 v * polar_i2 v - polar_i3 v) * polar_i3 v end.
Definition polarP (C : M2) (i1 i2 i3 : R) : M2 :=
  fun i j => - mul2 C C i j + (i1 * i1 - i2) * C i j + i1 * i3 * delta i j.
Definition polarU (C : M2) (i1 i2 i3 : R) : M2 := fun i j => polarP C i1 i2 i3 i j / (i1 * i2 - i3).
Definition polarU1 (C : M2) (i1 i2 i3 : R) : M2 :=
  fun i j => (C i j - i1 * polarU C i1 i2 i3 i j + i2 * delta i j) / i3.
Definition spec_t_polar_U (N : nat) (F : M2) (v : nat -> R) : M2 :=
  match N with
  | 1%nat => F
  | _ => polarU (mul2 (tr2 F) F) (polar_i1 v) (polar_i2 v) (polar_i3 v)
  end.
Definition spec_t_polar_R (N : nat) (F : M2) (v : nat -> R) : M2 :=
  match N with
  | 1%nat => Id2
  | _ => mul2 F (polarU1 (mul2 (tr2 F) F) (polar_i1 v) (polar_i2 v) (polar_i3 v))
  end.

(* C02 -- remaining (expensive) instances, thorough tier, group 4 of trace.cxx (statements only; every proof is `exact` of lemmas generated and proved per component).
   Regenerate with mkprops.py when the operation registry of trace.cxx changes. *)
From Coq Require Import Reals List.
Require Import TensorIndex C02Spec C02_g4_n1_p0 C02_g4_n2_p0 C02_g4_n2_p1 C02_g4_n3_p0 C02_g4_n3_p1 C02_g4_n3_p2.

Import ListNotations.
Local Open Scope R_scope.

Theorem C02_t_polar_R_full : forall a b : nat -> R,
  (polar_den 3%nat (full_v 3%nat b) <> 0 -> t_polar_R_3 a b = flat_t 3%nat (spec_t_polar_R 3%nat (full_t 3%nat a) (full_v 3%nat b))).
Proof. intros a b; exact (t_polar_R_3_ok a b). Qed.
Print Assumptions C02_t_polar_R_full.

Theorem C02_st_otimes_full : forall a b : nat -> R,
  (st_otimes_3 a b = flat_C 3%nat (spec_st_otimes 3%nat (full_s 3%nat a) (full_t 3%nat b))).
Proof. intros a b; exact (st_otimes_3_ok a b). Qed.
Print Assumptions C02_st_otimes_full.

Theorem C02_ts_otimes_full : forall a b : nat -> R,
  (ts_otimes_3 a b = flat_D 3%nat (spec_ts_otimes 3%nat (full_t 3%nat a) (full_s 3%nat b))).
Proof. intros a b; exact (ts_otimes_3_ok a b). Qed.
Print Assumptions C02_ts_otimes_full.

Theorem C02_C_expr_full : forall a b c : nat -> R,
  (C_expr_3 a b c = flat_C 3%nat (spec_C_expr 3%nat (full_C 3%nat a) (full_C 3%nat b) (full_x 3%nat c))).
Proof. intros a b c; exact (C_expr_3_ok a b c). Qed.
Print Assumptions C02_C_expr_full.

Theorem C02_D_expr_full : forall a b c : nat -> R,
  (D_expr_3 a b c = flat_D 3%nat (spec_D_expr 3%nat (full_D 3%nat a) (full_D 3%nat b) (full_x 3%nat c))).
Proof. intros a b c; exact (D_expr_3_ok a b c). Qed.
Print Assumptions C02_D_expr_full.

Theorem C02_A_dsquare2_full : forall a b : nat -> R,
  (A_dsquare2_3 a b = flat_A 3%nat (spec_A_dsquare2 3%nat (full_s 3%nat a) (full_A 3%nat b))).
Proof. intros a b; exact (A_dsquare2_3_ok a b). Qed.
Print Assumptions C02_A_dsquare2_full.

Theorem C02_D_tpld2_full : forall a b : nat -> R,
  (D_tpld2_3 a b = flat_D 3%nat (spec_D_tpld2 3%nat (full_s 3%nat a) (full_A 3%nat b))).
Proof. intros a b; exact (D_tpld2_3_ok a b). Qed.
Print Assumptions C02_D_tpld2_full.

Theorem C02_D_tprd2_full : forall a b : nat -> R,
  (D_tprd2_3 a b = flat_D 3%nat (spec_D_tprd2 3%nat (full_s 3%nat a) (full_A 3%nat b))).
Proof. intros a b; exact (D_tprd2_3_ok a b). Qed.
Print Assumptions C02_D_tprd2_full.

Theorem C02_A_dev_d2det_full : forall a : nat -> R,
  (A_dev_d2det_1 a = flat_A 1%nat (spec_A_dev_d2det 1%nat (full_s 1%nat a))) /\
  (A_dev_d2det_2 a = flat_A 2%nat (spec_A_dev_d2det 2%nat (full_s 2%nat a))) /\
  (A_dev_d2det_3 a = flat_A 3%nat (spec_A_dev_d2det 3%nat (full_s 3%nat a))).
Proof. intros a; exact (conj (A_dev_d2det_1_ok a) (conj (A_dev_d2det_2_ok a) (A_dev_d2det_3_ok a))). Qed.
Print Assumptions C02_A_dev_d2det_full.

(* C02 -- invert(st2tost2<1>) on every pivoting path: a returned tensor is the inverse, A : A^-1 = Id (the identity of
   symmetric fourth-order tensors), in index notation.  The tactics are those of props/C07 (TinyMatrixInvert, same
   decision tree reached here through the st2tost2 wrapper): they do not depend on the shape of the regenerated tree:
   every comparison is split, every pivot is named as a variable (non null by the pivot test of the path against
   eps = 100 * numeric_limits::min > 0), `field` concludes; the algebra is done once per distinct leaf. *)
From Coq Require Import Reals List Lra.
From VLib Require Import RealExtra.
Require Import TensorIndex C02_invert_gen.
Import ListNotations.
Local Open Scope R_scope.

Definition vec_of (l : list R) : vec := fun k => nth k l 0.
(* A : X = Is on the full 3x3x3x3 representation (1D storage: the three diagonal components) *)
Definition is_inverse_A1 (a x : list R) : Prop :=
  flat_A 1%nat (mul44 (full_A 1%nat (vec_of a)) (full_A 1%nat (vec_of x))) = flat_A 1%nat IdS4.

Ltac split_tree H :=
  repeat match type of H with
  | context [if Rlt_dec ?a ?b then _ else _] => destruct (Rlt_dec a b)
  end.
Ltac list_eq :=
  repeat match goal with
  | |- (_ :: _) = (_ :: _) => apply f_equal2
  | |- @nil _ = @nil _ => reflexivity
  end.
Ltac unfold_spec := unfold is_inverse_A1, vec_of; lazy -[Rplus Rmult Rminus Ropp Rdiv Rinv IZR sqrt Rabs pow].
Ltac name_pivots :=
  repeat match goal with
  | |- context [_ / ?q] =>
      tryif is_var q then fail else
      (let qv := fresh "q" in let E := fresh "Eq" in
       remember q as qv eqn:E in *;
       match type of E with
       | qv = ?v - ?r => is_var v; let E' := fresh "E" in assert (E' : v = qv + r) by (rewrite E; ring); clear E; subst v
       end)
  end.
Ltac collect_den t acc :=
  match t with
  | context [_ / ?q] =>
      lazymatch acc with
      | context [q <> 0] => fail
      | _ => collect_den t (q <> 0 /\ acc)
      end
  | _ => acc
  end.
Ltac nz_from_path :=
  match goal with
  | |- True => exact I
  | Hn : ~ Rabs ?q < ?e, He : 0 < ?e |- ?q <> 0 =>
      let Hz := fresh "Hz" in intro Hz; apply Hn; rewrite Hz, Rabs_R0; exact He
  | Hp : ?e < Rabs ?q, He : 0 < ?e |- ?q <> 0 =>
      let Hz := fresh "Hz" in intro Hz; rewrite Hz, Rabs_R0 in Hp; lra
  end.
Ltac leaf_lemmas H spec :=
  repeat match type of H with
  | context [Some ?L] =>
      lazymatch goal with
      | _ : _ -> spec L |- _ => fail
      | _ => idtac
      end;
      let C := collect_den L True in
      let HL := fresh "HL" in
      assert (HL : C -> spec L) by
        (let HC := fresh "HC" in
         intro HC; decompose [and] HC; clear HC; name_pivots; unfold_spec; list_eq; (field; repeat split; assumption))
  end.
Ltac tree_piv_dedup H spec :=
  cbv zeta in H; leaf_lemmas H spec; split_tree H; try discriminate H;
  injection H as <-;
  match goal with HL : _ -> spec ?L |- spec ?L => apply HL; repeat split; nz_from_path end.

(* the threshold of the null-pivot test, whatever the way the literal is printed: abstracted into a positive variable *)
Ltac abstract_eps H :=
  match type of H with
  | context [Rlt_dec (IZR ?m / ?d) _] =>
      let eps := fresh "eps" in let He := fresh "Heps" in
      assert (He : 0 < IZR m / d) by (apply Rdiv_lt_0_compat; [lra | apply pow_lt; lra]);
      set (eps := IZR m / d) in *; clearbody eps
  end.

Lemma A_invert_1_ok a0 a1 a2 a3 a4 a5 a6 a7 a8 x :
  A_invert_1 a0 a1 a2 a3 a4 a5 a6 a7 a8 = Some x -> is_inverse_A1 [a0; a1; a2; a3; a4; a5; a6; a7; a8] x.
Proof.
  intro H. unfold A_invert_1 in H. cbv zeta in H. abstract_eps H.
  tree_piv_dedup H (is_inverse_A1 [a0; a1; a2; a3; a4; a5; a6; a7; a8]).
Qed.

(* C02 -- remaining (expensive) instances, thorough tier (statements only; every proof is `exact` of lemmas generated and proved per component).
   Regenerate with mkprops.py when the operation registry of trace.cxx changes. *)
From Coq Require Import Reals List.
Require Import TensorIndex C02Spec C02_g0_n1_p0 C02_g0_n2_p0 C02_g0_n3_p0 C02_g0_n3_p1 C02_g1_n1_p0 C02_g1_n2_p0 C02_g1_n2_p1 C02_g1_n3_p0 C02_g1_n3_p1 C02_g1_n3_p2 C02_g1_n3_p3 C02_g1_n3_p4 C02_g2_n1_p0 C02_g2_n2_p0 C02_g2_n2_p1 C02_g2_n3_p0 C02_g2_n3_p1 C02_g2_n3_p2 C02_g2_n3_p3 C02_g3_n1_p0 C02_g3_n2_p0 C02_g3_n3_p0 C02_g3_n3_p1 C02_g3_n3_p2.

Import ListNotations.
Local Open Scope R_scope.

Theorem C02_t_changeBasis_full : forall a b : nat -> R,
  (t_changeBasis_1 a b = flat_t 1%nat (spec_t_changeBasis 1%nat (full_t 1%nat a) (full_r 1%nat b))) /\
  (t_changeBasis_2 a b = flat_t 2%nat (spec_t_changeBasis 2%nat (full_t 2%nat a) (full_r 2%nat b))) /\
  (t_changeBasis_3 a b = flat_t 3%nat (spec_t_changeBasis 3%nat (full_t 3%nat a) (full_r 3%nat b))).
Proof. intros a b; exact (conj (t_changeBasis_1_ok a b) (conj (t_changeBasis_2_ok a b) (t_changeBasis_3_ok a b))). Qed.
Print Assumptions C02_t_changeBasis_full.

Theorem C02_t_otimes_full : forall a b : nat -> R,
  (t_otimes_1 a b = flat_B 1%nat (spec_t_otimes 1%nat (full_t 1%nat a) (full_t 1%nat b))) /\
  (t_otimes_2 a b = flat_B 2%nat (spec_t_otimes 2%nat (full_t 2%nat a) (full_t 2%nat b))) /\
  (t_otimes_3 a b = flat_B 3%nat (spec_t_otimes 3%nat (full_t 3%nat a) (full_t 3%nat b))).
Proof. intros a b; exact (conj (t_otimes_1_ok a b) (conj (t_otimes_2_ok a b) (t_otimes_3_ok a b))). Qed.
Print Assumptions C02_t_otimes_full.

Theorem C02_A_mul3_full : forall a b c : nat -> R,
  (A_mul3_1 a b c = flat_A 1%nat (spec_A_mul3 1%nat (full_A 1%nat a) (full_A 1%nat b) (full_A 1%nat c))) /\
  (A_mul3_2 a b c = flat_A 2%nat (spec_A_mul3 2%nat (full_A 2%nat a) (full_A 2%nat b) (full_A 2%nat c))) /\
  (A_mul3_3 a b c = flat_A 3%nat (spec_A_mul3 3%nat (full_A 3%nat a) (full_A 3%nat b) (full_A 3%nat c))).
Proof. intros a b c; exact (conj (A_mul3_1_ok a b c) (conj (A_mul3_2_ok a b c) (A_mul3_3_ok a b c))). Qed.
Print Assumptions C02_A_mul3_full.

Theorem C02_A_change_basis_full : forall a b : nat -> R,
  (A_change_basis_3 a b = flat_A 3%nat (spec_A_change_basis 3%nat (full_A 3%nat a) (full_r 3%nat b))).
Proof. intros a b; exact (A_change_basis_3_ok a b). Qed.
Print Assumptions C02_A_change_basis_full.

Theorem C02_A_stpd_full : forall a : nat -> R,
  (A_stpd_1 a = flat_A 1%nat (spec_A_stpd 1%nat (full_s 1%nat a))) /\
  (A_stpd_2 a = flat_A 2%nat (spec_A_stpd 2%nat (full_s 2%nat a))) /\
  (A_stpd_3 a = flat_A 3%nat (spec_A_stpd 3%nat (full_s 3%nat a))).
Proof. intros a; exact (conj (A_stpd_1_ok a) (conj (A_stpd_2_ok a) (A_stpd_3_ok a))). Qed.
Print Assumptions C02_A_stpd_full.

Theorem C02_A_d2det_full : forall a : nat -> R,
  (A_d2det_1 a = flat_A 1%nat (spec_A_d2det 1%nat (full_s 1%nat a))) /\
  (A_d2det_2 a = flat_A 2%nat (spec_A_d2det 2%nat (full_s 2%nat a))) /\
  (A_d2det_3 a = flat_A 3%nat (spec_A_d2det 3%nat (full_s 3%nat a))).
Proof. intros a; exact (conj (A_d2det_1_ok a) (conj (A_d2det_2_ok a) (A_d2det_3_ok a))). Qed.
Print Assumptions C02_A_d2det_full.

Theorem C02_B_expr_full : forall a b c : nat -> R,
  (B_expr_1 a b c = flat_B 1%nat (spec_B_expr 1%nat (full_B 1%nat a) (full_B 1%nat b) (full_x 1%nat c))) /\
  (B_expr_2 a b c = flat_B 2%nat (spec_B_expr 2%nat (full_B 2%nat a) (full_B 2%nat b) (full_x 2%nat c))) /\
  (B_expr_3 a b c = flat_B 3%nat (spec_B_expr 3%nat (full_B 3%nat a) (full_B 3%nat b) (full_x 3%nat c))).
Proof. intros a b c; exact (conj (B_expr_1_ok a b c) (conj (B_expr_2_ok a b c) (B_expr_3_ok a b c))). Qed.
Print Assumptions C02_B_expr_full.

Theorem C02_B_change_basis_full : forall a b : nat -> R,
  (B_change_basis_3 a b = flat_B 3%nat (spec_B_change_basis 3%nat (full_B 3%nat a) (full_r 3%nat b))).
Proof. intros a b; exact (B_change_basis_3_ok a b). Qed.
Print Assumptions C02_B_change_basis_full.

Theorem C02_B_tpld2_full : forall a b : nat -> R,
  (B_tpld2_1 a b = flat_B 1%nat (spec_B_tpld2 1%nat (full_t 1%nat a) (full_B 1%nat b))) /\
  (B_tpld2_2 a b = flat_B 2%nat (spec_B_tpld2 2%nat (full_t 2%nat a) (full_B 2%nat b))) /\
  (B_tpld2_3 a b = flat_B 3%nat (spec_B_tpld2 3%nat (full_t 3%nat a) (full_B 3%nat b))).
Proof. intros a b; exact (conj (B_tpld2_1_ok a b) (conj (B_tpld2_2_ok a b) (B_tpld2_3_ok a b))). Qed.
Print Assumptions C02_B_tpld2_full.

Theorem C02_B_tprd2_full : forall a b : nat -> R,
  (B_tprd2_1 a b = flat_B 1%nat (spec_B_tprd2 1%nat (full_t 1%nat a) (full_B 1%nat b))) /\
  (B_tprd2_2 a b = flat_B 2%nat (spec_B_tprd2 2%nat (full_t 2%nat a) (full_B 2%nat b))) /\
  (B_tprd2_3 a b = flat_B 3%nat (spec_B_tprd2 3%nat (full_t 3%nat a) (full_B 3%nat b))).
Proof. intros a b; exact (conj (B_tprd2_1_ok a b) (conj (B_tprd2_2_ok a b) (B_tprd2_3_ok a b))). Qed.
Print Assumptions C02_B_tprd2_full.

Theorem C02_DC_mul_full : forall a b : nat -> R,
  (DC_mul_3 a b = flat_B 3%nat (spec_DC_mul 3%nat (full_D 3%nat a) (full_C 3%nat b))).
Proof. intros a b; exact (DC_mul_3_ok a b). Qed.
Print Assumptions C02_DC_mul_full.

Theorem C02_BD_mul_full : forall a b : nat -> R,
  (BD_mul_3 a b = flat_D 3%nat (spec_BD_mul 3%nat (full_B 3%nat a) (full_D 3%nat b))).
Proof. intros a b; exact (BD_mul_3_ok a b). Qed.
Print Assumptions C02_BD_mul_full.

Theorem C02_C_change_basis_full : forall a b : nat -> R,
  (C_change_basis_1 a b = flat_C 1%nat (spec_C_change_basis 1%nat (full_C 1%nat a) (full_r 1%nat b))) /\
  (C_change_basis_2 a b = flat_C 2%nat (spec_C_change_basis 2%nat (full_C 2%nat a) (full_r 2%nat b))) /\
  (C_change_basis_3 a b = flat_C 3%nat (spec_C_change_basis 3%nat (full_C 3%nat a) (full_r 3%nat b))).
Proof. intros a b; exact (conj (C_change_basis_1_ok a b) (conj (C_change_basis_2_ok a b) (C_change_basis_3_ok a b))). Qed.
Print Assumptions C02_C_change_basis_full.

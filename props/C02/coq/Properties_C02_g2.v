(* C02 -- tensor algebra = index notation, core set (quick and thorough tiers), group 2 of trace.cxx (statements only; every proof is `exact` of lemmas generated and proved per component).
   Regenerate with mkprops.py when the operation registry of trace.cxx changes. *)
From Coq Require Import Reals List.
Require Import TensorIndex C02Spec C02_g2_n1_p0 C02_g2_n2_p0 C02_g2_n2_p1 C02_g2_n3_p0 C02_g2_n3_p1 C02_g2_n3_p2 C02_g2_n3_p3.

Import ListNotations.
Local Open Scope R_scope.

Theorem C02_B_mul : forall a b : nat -> R,
  (B_mul_1 a b = flat_B 1%nat (spec_B_mul 1%nat (full_B 1%nat a) (full_B 1%nat b))) /\
  (B_mul_2 a b = flat_B 2%nat (spec_B_mul 2%nat (full_B 2%nat a) (full_B 2%nat b))).
Proof. intros a b; exact (conj (B_mul_1_ok a b) (B_mul_2_ok a b)). Qed.
Print Assumptions C02_B_mul.

Theorem C02_B_apply : forall a b : nat -> R,
  (B_apply_1 a b = flat_t 1%nat (spec_B_apply 1%nat (full_B 1%nat a) (full_t 1%nat b))) /\
  (B_apply_2 a b = flat_t 2%nat (spec_B_apply 2%nat (full_B 2%nat a) (full_t 2%nat b))) /\
  (B_apply_3 a b = flat_t 3%nat (spec_B_apply 3%nat (full_B 3%nat a) (full_t 3%nat b))).
Proof. intros a b; exact (conj (B_apply_1_ok a b) (conj (B_apply_2_ok a b) (B_apply_3_ok a b))). Qed.
Print Assumptions C02_B_apply.

Theorem C02_B_lapply : forall a b : nat -> R,
  (B_lapply_1 a b = flat_t 1%nat (spec_B_lapply 1%nat (full_t 1%nat a) (full_B 1%nat b))) /\
  (B_lapply_2 a b = flat_t 2%nat (spec_B_lapply 2%nat (full_t 2%nat a) (full_B 2%nat b))) /\
  (B_lapply_3 a b = flat_t 3%nat (spec_B_lapply 3%nat (full_t 3%nat a) (full_B 3%nat b))).
Proof. intros a b; exact (conj (B_lapply_1_ok a b) (conj (B_lapply_2_ok a b) (B_lapply_3_ok a b))). Qed.
Print Assumptions C02_B_lapply.

Theorem C02_B_change_basis : forall a b : nat -> R,
  (B_change_basis_1 a b = flat_B 1%nat (spec_B_change_basis 1%nat (full_B 1%nat a) (full_r 1%nat b))) /\
  (B_change_basis_2 a b = flat_B 2%nat (spec_B_change_basis 2%nat (full_B 2%nat a) (full_r 2%nat b))).
Proof. intros a b; exact (conj (B_change_basis_1_ok a b) (B_change_basis_2_ok a b)). Qed.
Print Assumptions C02_B_change_basis.

Theorem C02_B_fromRotationMatrix : forall a : nat -> R,
  (B_fromRotationMatrix_1 a = flat_B 1%nat (spec_B_fromRotationMatrix 1%nat (full_r 1%nat a))) /\
  (B_fromRotationMatrix_2 a = flat_B 2%nat (spec_B_fromRotationMatrix 2%nat (full_r 2%nat a))).
Proof. intros a; exact (conj (B_fromRotationMatrix_1_ok a) (B_fromRotationMatrix_2_ok a)). Qed.
Print Assumptions C02_B_fromRotationMatrix.

Theorem C02_B_tpld : forall a : nat -> R,
  (B_tpld_1 a = flat_B 1%nat (spec_B_tpld 1%nat (full_t 1%nat a))) /\
  (B_tpld_2 a = flat_B 2%nat (spec_B_tpld 2%nat (full_t 2%nat a))).
Proof. intros a; exact (conj (B_tpld_1_ok a) (B_tpld_2_ok a)). Qed.
Print Assumptions C02_B_tpld.

Theorem C02_B_tprd : forall a : nat -> R,
  (B_tprd_1 a = flat_B 1%nat (spec_B_tprd 1%nat (full_t 1%nat a))) /\
  (B_tprd_2 a = flat_B 2%nat (spec_B_tprd 2%nat (full_t 2%nat a))).
Proof. intros a; exact (conj (B_tprd_1_ok a) (B_tprd_2_ok a)). Qed.
Print Assumptions C02_B_tprd.

Theorem C02_B_Id : (B_Id_1 = flat_B 1%nat (spec_B_Id 1%nat)) /\
  (B_Id_2 = flat_B 2%nat (spec_B_Id 2%nat)) /\
  (B_Id_3 = flat_B 3%nat (spec_B_Id 3%nat)).
Proof. exact (conj (B_Id_1_ok) (conj (B_Id_2_ok) (B_Id_3_ok))). Qed.
Print Assumptions C02_B_Id.

Theorem C02_B_IxI : (B_IxI_1 = flat_B 1%nat (spec_B_IxI 1%nat)) /\
  (B_IxI_2 = flat_B 2%nat (spec_B_IxI 2%nat)) /\
  (B_IxI_3 = flat_B 3%nat (spec_B_IxI 3%nat)).
Proof. exact (conj (B_IxI_1_ok) (conj (B_IxI_2_ok) (B_IxI_3_ok))). Qed.
Print Assumptions C02_B_IxI.

Theorem C02_B_K : (B_K_1 = flat_B 1%nat (spec_B_K 1%nat)) /\
  (B_K_2 = flat_B 2%nat (spec_B_K 2%nat)) /\
  (B_K_3 = flat_B 3%nat (spec_B_K 3%nat)).
Proof. exact (conj (B_K_1_ok) (conj (B_K_2_ok) (B_K_3_ok))). Qed.
Print Assumptions C02_B_K.

Theorem C02_B_transpose_derivative : (B_transpose_derivative_1 = flat_B 1%nat (spec_B_transpose_derivative 1%nat)) /\
  (B_transpose_derivative_2 = flat_B 2%nat (spec_B_transpose_derivative 2%nat)) /\
  (B_transpose_derivative_3 = flat_B 3%nat (spec_B_transpose_derivative 3%nat)).
Proof. exact (conj (B_transpose_derivative_1_ok) (conj (B_transpose_derivative_2_ok) (B_transpose_derivative_3_ok))). Qed.
Print Assumptions C02_B_transpose_derivative.

Theorem C02_B_convert : forall a : nat -> R,
  (B_convert_1 a = flat_B 1%nat (spec_B_convert 1%nat (full_C 1%nat a))) /\
  (B_convert_2 a = flat_B 2%nat (spec_B_convert 2%nat (full_C 2%nat a))).
Proof. intros a; exact (conj (B_convert_1_ok a) (B_convert_2_ok a)). Qed.
Print Assumptions C02_B_convert.

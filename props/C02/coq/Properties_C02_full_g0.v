(* C02 -- remaining (expensive) instances, thorough tier, group 0 of trace.cxx (statements only; every proof is `exact` of lemmas generated and proved per component).
   Regenerate with mkprops.py when the operation registry of trace.cxx changes. *)
From Coq Require Import Reals List.
Require Import TensorIndex C02Spec C02_g0_n1_p0 C02_g0_n2_p0 C02_g0_n3_p0 C02_g0_n3_p1.

Import ListNotations.
Local Open Scope R_scope.

Theorem C02_t_changeBasis_full : forall a b : nat -> R,
  (t_changeBasis_1 a b = flat_t 1%nat (spec_t_changeBasis 1%nat (full_t 1%nat a) (full_r 1%nat b))) /\
  (t_changeBasis_2 a b = flat_t 2%nat (spec_t_changeBasis 2%nat (full_t 2%nat a) (full_r 2%nat b))) /\
  (t_changeBasis_3 a b = flat_t 3%nat (spec_t_changeBasis 3%nat (full_t 3%nat a) (full_r 3%nat b))).
Proof. intros a b; exact (conj (t_changeBasis_1_ok a b) (conj (t_changeBasis_2_ok a b) (t_changeBasis_3_ok a b))). Qed.
Print Assumptions C02_t_changeBasis_full.

Theorem C02_t_otimes_full : forall a b : nat -> R,
  (t_otimes_1 a b = flat_B 1%nat (spec_t_otimes 1%nat (full_t 1%nat a) (full_t 1%nat b))) /\
  (t_otimes_2 a b = flat_B 2%nat (spec_t_otimes 2%nat (full_t 2%nat a) (full_t 2%nat b))) /\
  (t_otimes_3 a b = flat_B 3%nat (spec_t_otimes 3%nat (full_t 3%nat a) (full_t 3%nat b))).
Proof. intros a b; exact (conj (t_otimes_1_ok a b) (conj (t_otimes_2_ok a b) (t_otimes_3_ok a b))). Qed.
Print Assumptions C02_t_otimes_full.

(* C02 -- remaining (expensive) instances, thorough tier, group 3 of trace.cxx (statements only; every proof is `exact` of lemmas generated and proved per component).
   Regenerate with mkprops.py when the operation registry of trace.cxx changes. *)
From Coq Require Import Reals List.
Require Import TensorIndex C02Spec C02_g3_n1_p0 C02_g3_n2_p0 C02_g3_n3_p0 C02_g3_n3_p1 C02_g3_n3_p2.

Import ListNotations.
Local Open Scope R_scope.

Theorem C02_AC_mul_full : forall a b : nat -> R,
  (AC_mul_3 a b = flat_C 3%nat (spec_AC_mul 3%nat (full_A 3%nat a) (full_C 3%nat b))).
Proof. intros a b; exact (AC_mul_3_ok a b). Qed.
Print Assumptions C02_AC_mul_full.

Theorem C02_CB_mul_full : forall a b : nat -> R,
  (CB_mul_3 a b = flat_C 3%nat (spec_CB_mul 3%nat (full_C 3%nat a) (full_B 3%nat b))).
Proof. intros a b; exact (CB_mul_3_ok a b). Qed.
Print Assumptions C02_CB_mul_full.

Theorem C02_CD_mul_full : forall a b : nat -> R,
  (CD_mul_3 a b = flat_A 3%nat (spec_CD_mul 3%nat (full_C 3%nat a) (full_D 3%nat b))).
Proof. intros a b; exact (CD_mul_3_ok a b). Qed.
Print Assumptions C02_CD_mul_full.

Theorem C02_DC_mul_full : forall a b : nat -> R,
  (DC_mul_3 a b = flat_B 3%nat (spec_DC_mul 3%nat (full_D 3%nat a) (full_C 3%nat b))).
Proof. intros a b; exact (DC_mul_3_ok a b). Qed.
Print Assumptions C02_DC_mul_full.

Theorem C02_DA_mul_full : forall a b : nat -> R,
  (DA_mul_3 a b = flat_D 3%nat (spec_DA_mul 3%nat (full_D 3%nat a) (full_A 3%nat b))).
Proof. intros a b; exact (DA_mul_3_ok a b). Qed.
Print Assumptions C02_DA_mul_full.

Theorem C02_BD_mul_full : forall a b : nat -> R,
  (BD_mul_3 a b = flat_D 3%nat (spec_BD_mul 3%nat (full_B 3%nat a) (full_D 3%nat b))).
Proof. intros a b; exact (BD_mul_3_ok a b). Qed.
Print Assumptions C02_BD_mul_full.

Theorem C02_C_change_basis_full : forall a b : nat -> R,
  (C_change_basis_1 a b = flat_C 1%nat (spec_C_change_basis 1%nat (full_C 1%nat a) (full_r 1%nat b))) /\
  (C_change_basis_2 a b = flat_C 2%nat (spec_C_change_basis 2%nat (full_C 2%nat a) (full_r 2%nat b))) /\
  (C_change_basis_3 a b = flat_C 3%nat (spec_C_change_basis 3%nat (full_C 3%nat a) (full_r 3%nat b))).
Proof. intros a b; exact (conj (C_change_basis_1_ok a b) (conj (C_change_basis_2_ok a b) (C_change_basis_3_ok a b))). Qed.
Print Assumptions C02_C_change_basis_full.

Theorem C02_C_dCdF_full : forall a : nat -> R,
  (C_dCdF_3 a = flat_C 3%nat (spec_C_dCdF 3%nat (full_t 3%nat a))).
Proof. intros a; exact (C_dCdF_3_ok a). Qed.
Print Assumptions C02_C_dCdF_full.

Theorem C02_C_dBdF_full : forall a : nat -> R,
  (C_dBdF_3 a = flat_C 3%nat (spec_C_dBdF 3%nat (full_t 3%nat a))).
Proof. intros a; exact (C_dBdF_3_ok a). Qed.
Print Assumptions C02_C_dBdF_full.

Theorem C02_C_convertToT2toST2_full : forall a : nat -> R,
  (C_convertToT2toST2_3 a = flat_C 3%nat (spec_C_convertToT2toST2 3%nat (full_B 3%nat a))).
Proof. intros a; exact (C_convertToT2toST2_3_ok a). Qed.
Print Assumptions C02_C_convertToT2toST2_full.

Theorem C02_D_tpld_full : forall a : nat -> R,
  (D_tpld_3 a = flat_D 3%nat (spec_D_tpld 3%nat (full_s 3%nat a))).
Proof. intros a; exact (D_tpld_3_ok a). Qed.
Print Assumptions C02_D_tpld_full.

Theorem C02_D_tprd_full : forall a : nat -> R,
  (D_tprd_3 a = flat_D 3%nat (spec_D_tprd 3%nat (full_s 3%nat a))).
Proof. intros a; exact (D_tprd_3_ok a). Qed.
Print Assumptions C02_D_tprd_full.

(* C02 -- tensor algebra = index notation, core set (quick and thorough tiers), group 0 of trace.cxx (statements only; every proof is `exact` of lemmas generated and proved per component).
   Regenerate with mkprops.py when the operation registry of trace.cxx changes. *)
From Coq Require Import Reals List.
Require Import TensorIndex C02Spec C02_g0_n1_p0 C02_g0_n2_p0 C02_g0_n3_p0 C02_g0_n3_p1.

Import ListNotations.
Local Open Scope R_scope.

Theorem C02_t_mul : forall a b : nat -> R,
  (t_mul_1 a b = flat_t 1%nat (spec_t_mul 1%nat (full_t 1%nat a) (full_t 1%nat b))) /\
  (t_mul_2 a b = flat_t 2%nat (spec_t_mul 2%nat (full_t 2%nat a) (full_t 2%nat b))) /\
  (t_mul_3 a b = flat_t 3%nat (spec_t_mul 3%nat (full_t 3%nat a) (full_t 3%nat b))).
Proof. intros a b; exact (conj (t_mul_1_ok a b) (conj (t_mul_2_ok a b) (t_mul_3_ok a b))). Qed.
Print Assumptions C02_t_mul.

Theorem C02_t_expr : forall a b c : nat -> R,
  (t_expr_1 a b c = flat_t 1%nat (spec_t_expr 1%nat (full_t 1%nat a) (full_t 1%nat b) (full_x 1%nat c))) /\
  (t_expr_2 a b c = flat_t 2%nat (spec_t_expr 2%nat (full_t 2%nat a) (full_t 2%nat b) (full_x 2%nat c))) /\
  (t_expr_3 a b c = flat_t 3%nat (spec_t_expr 3%nat (full_t 3%nat a) (full_t 3%nat b) (full_x 3%nat c))).
Proof. intros a b c; exact (conj (t_expr_1_ok a b c) (conj (t_expr_2_ok a b c) (t_expr_3_ok a b c))). Qed.
Print Assumptions C02_t_expr.

Theorem C02_t_transpose : forall a : nat -> R,
  (t_transpose_1 a = flat_t 1%nat (spec_t_transpose 1%nat (full_t 1%nat a))) /\
  (t_transpose_2 a = flat_t 2%nat (spec_t_transpose 2%nat (full_t 2%nat a))) /\
  (t_transpose_3 a = flat_t 3%nat (spec_t_transpose 3%nat (full_t 3%nat a))).
Proof. intros a; exact (conj (t_transpose_1_ok a) (conj (t_transpose_2_ok a) (t_transpose_3_ok a))). Qed.
Print Assumptions C02_t_transpose.

Theorem C02_t_trace : forall a : nat -> R,
  (t_trace_1 a = flat_x 1%nat (spec_t_trace 1%nat (full_t 1%nat a))) /\
  (t_trace_2 a = flat_x 2%nat (spec_t_trace 2%nat (full_t 2%nat a))) /\
  (t_trace_3 a = flat_x 3%nat (spec_t_trace 3%nat (full_t 3%nat a))).
Proof. intros a; exact (conj (t_trace_1_ok a) (conj (t_trace_2_ok a) (t_trace_3_ok a))). Qed.
Print Assumptions C02_t_trace.

Theorem C02_t_det : forall a : nat -> R,
  (t_det_1 a = flat_x 1%nat (spec_t_det 1%nat (full_t 1%nat a))) /\
  (t_det_2 a = flat_x 2%nat (spec_t_det 2%nat (full_t 2%nat a))) /\
  (t_det_3 a = flat_x 3%nat (spec_t_det 3%nat (full_t 3%nat a))).
Proof. intros a; exact (conj (t_det_1_ok a) (conj (t_det_2_ok a) (t_det_3_ok a))). Qed.
Print Assumptions C02_t_det.

Theorem C02_t_invert : forall a : nat -> R,
  (det2 (full_t 1%nat a) <> 0 -> t_invert_1 a = flat_t 1%nat (spec_t_invert 1%nat (full_t 1%nat a))) /\
  (det2 (full_t 2%nat a) <> 0 -> t_invert_2 a = flat_t 2%nat (spec_t_invert 2%nat (full_t 2%nat a))) /\
  (det2 (full_t 3%nat a) <> 0 -> t_invert_3 a = flat_t 3%nat (spec_t_invert 3%nat (full_t 3%nat a))).
Proof. intros a; exact (conj (t_invert_1_ok a) (conj (t_invert_2_ok a) (t_invert_3_ok a))). Qed.
Print Assumptions C02_t_invert.

Theorem C02_t_ddet : forall a : nat -> R,
  (t_ddet_1 a = flat_t 1%nat (spec_t_ddet 1%nat (full_t 1%nat a))) /\
  (t_ddet_2 a = flat_t 2%nat (spec_t_ddet 2%nat (full_t 2%nat a))) /\
  (t_ddet_3 a = flat_t 3%nat (spec_t_ddet 3%nat (full_t 3%nat a))).
Proof. intros a; exact (conj (t_ddet_1_ok a) (conj (t_ddet_2_ok a) (t_ddet_3_ok a))). Qed.
Print Assumptions C02_t_ddet.

Theorem C02_t_change_basis : forall a b : nat -> R,
  (t_change_basis_1 a b = flat_t 1%nat (spec_t_change_basis 1%nat (full_t 1%nat a) (full_r 1%nat b))) /\
  (t_change_basis_2 a b = flat_t 2%nat (spec_t_change_basis 2%nat (full_t 2%nat a) (full_r 2%nat b))) /\
  (t_change_basis_3 a b = flat_t 3%nat (spec_t_change_basis 3%nat (full_t 3%nat a) (full_r 3%nat b))).
Proof. intros a b; exact (conj (t_change_basis_1_ok a b) (conj (t_change_basis_2_ok a b) (t_change_basis_3_ok a b))). Qed.
Print Assumptions C02_t_change_basis.

Theorem C02_t_syme : forall a : nat -> R,
  (t_syme_1 a = flat_s 1%nat (spec_t_syme 1%nat (full_t 1%nat a))) /\
  (t_syme_2 a = flat_s 2%nat (spec_t_syme 2%nat (full_t 2%nat a))) /\
  (t_syme_3 a = flat_s 3%nat (spec_t_syme 3%nat (full_t 3%nat a))).
Proof. intros a; exact (conj (t_syme_1_ok a) (conj (t_syme_2_ok a) (t_syme_3_ok a))). Qed.
Print Assumptions C02_t_syme.

Theorem C02_t_unsyme : forall a : nat -> R,
  (t_unsyme_1 a = flat_t 1%nat (spec_t_unsyme 1%nat (full_s 1%nat a))) /\
  (t_unsyme_2 a = flat_t 2%nat (spec_t_unsyme 2%nat (full_s 2%nat a))) /\
  (t_unsyme_3 a = flat_t 3%nat (spec_t_unsyme 3%nat (full_s 3%nat a))).
Proof. intros a; exact (conj (t_unsyme_1_ok a) (conj (t_unsyme_2_ok a) (t_unsyme_3_ok a))). Qed.
Print Assumptions C02_t_unsyme.

Theorem C02_t_Id : (t_Id_1 = flat_t 1%nat (spec_t_Id 1%nat)) /\
  (t_Id_2 = flat_t 2%nat (spec_t_Id 2%nat)) /\
  (t_Id_3 = flat_t 3%nat (spec_t_Id 3%nat)).
Proof. exact (conj (t_Id_1_ok) (conj (t_Id_2_ok) (t_Id_3_ok))). Qed.
Print Assumptions C02_t_Id.

Theorem C02_t_rcg : forall a : nat -> R,
  (t_rcg_1 a = flat_s 1%nat (spec_t_rcg 1%nat (full_t 1%nat a))) /\
  (t_rcg_2 a = flat_s 2%nat (spec_t_rcg 2%nat (full_t 2%nat a))) /\
  (t_rcg_3 a = flat_s 3%nat (spec_t_rcg 3%nat (full_t 3%nat a))).
Proof. intros a; exact (conj (t_rcg_1_ok a) (conj (t_rcg_2_ok a) (t_rcg_3_ok a))). Qed.
Print Assumptions C02_t_rcg.

Theorem C02_t_lcg : forall a : nat -> R,
  (t_lcg_1 a = flat_s 1%nat (spec_t_lcg 1%nat (full_t 1%nat a))) /\
  (t_lcg_2 a = flat_s 2%nat (spec_t_lcg 2%nat (full_t 2%nat a))) /\
  (t_lcg_3 a = flat_s 3%nat (spec_t_lcg 3%nat (full_t 3%nat a))).
Proof. intros a; exact (conj (t_lcg_1_ok a) (conj (t_lcg_2_ok a) (t_lcg_3_ok a))). Qed.
Print Assumptions C02_t_lcg.

Theorem C02_t_gl : forall a : nat -> R,
  (t_gl_1 a = flat_s 1%nat (spec_t_gl 1%nat (full_t 1%nat a))) /\
  (t_gl_2 a = flat_s 2%nat (spec_t_gl 2%nat (full_t 2%nat a))) /\
  (t_gl_3 a = flat_s 3%nat (spec_t_gl 3%nat (full_t 3%nat a))).
Proof. intros a; exact (conj (t_gl_1_ok a) (conj (t_gl_2_ok a) (t_gl_3_ok a))). Qed.
Print Assumptions C02_t_gl.

Theorem C02_s_push_forward : forall a b : nat -> R,
  (s_push_forward_1 a b = flat_s 1%nat (spec_s_push_forward 1%nat (full_s 1%nat a) (full_t 1%nat b))) /\
  (s_push_forward_2 a b = flat_s 2%nat (spec_s_push_forward 2%nat (full_s 2%nat a) (full_t 2%nat b))) /\
  (s_push_forward_3 a b = flat_s 3%nat (spec_s_push_forward 3%nat (full_s 3%nat a) (full_t 3%nat b))).
Proof. intros a b; exact (conj (s_push_forward_1_ok a b) (conj (s_push_forward_2_ok a b) (s_push_forward_3_ok a b))). Qed.
Print Assumptions C02_s_push_forward.

Theorem C02_t_matrix_view : forall a : nat -> R,
  (t_matrix_view_1 a = flat_r 1%nat (spec_t_matrix_view 1%nat (full_t 1%nat a))) /\
  (t_matrix_view_2 a = flat_r 2%nat (spec_t_matrix_view 2%nat (full_t 2%nat a))) /\
  (t_matrix_view_3 a = flat_r 3%nat (spec_t_matrix_view 3%nat (full_t 3%nat a))).
Proof. intros a; exact (conj (t_matrix_view_1_ok a) (conj (t_matrix_view_2_ok a) (t_matrix_view_3_ok a))). Qed.
Print Assumptions C02_t_matrix_view.

Theorem C02_t_dot : forall a b : nat -> R,
  (t_dot_1 a b = flat_x 1%nat (spec_t_dot 1%nat (full_t 1%nat a) (full_t 1%nat b))) /\
  (t_dot_2 a b = flat_x 2%nat (spec_t_dot 2%nat (full_t 2%nat a) (full_t 2%nat b))) /\
  (t_dot_3 a b = flat_x 3%nat (spec_t_dot 3%nat (full_t 3%nat a) (full_t 3%nat b))).
Proof. intros a b; exact (conj (t_dot_1_ok a b) (conj (t_dot_2_ok a b) (t_dot_3_ok a b))). Qed.
Print Assumptions C02_t_dot.

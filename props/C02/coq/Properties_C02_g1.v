(* C02 -- tensor algebra = index notation, core set (quick and thorough tiers), group 1 of trace.cxx (statements only; every proof is `exact` of lemmas generated and proved per component).
   Regenerate with mkprops.py when the operation registry of trace.cxx changes. *)
From Coq Require Import Reals List.
Require Import TensorIndex C02Spec C02_g1_n1_p0 C02_g1_n2_p0 C02_g1_n2_p1 C02_g1_n3_p0 C02_g1_n3_p1 C02_g1_n3_p2 C02_g1_n3_p3 C02_g1_n3_p4.

Import ListNotations.
Local Open Scope R_scope.

Theorem C02_A_mul : forall a b : nat -> R,
  (A_mul_1 a b = flat_A 1%nat (spec_A_mul 1%nat (full_A 1%nat a) (full_A 1%nat b))) /\
  (A_mul_2 a b = flat_A 2%nat (spec_A_mul 2%nat (full_A 2%nat a) (full_A 2%nat b))).
Proof. intros a b; exact (conj (A_mul_1_ok a b) (A_mul_2_ok a b)). Qed.
Print Assumptions C02_A_mul.

Theorem C02_A_expr : forall a b c : nat -> R,
  (A_expr_1 a b c = flat_A 1%nat (spec_A_expr 1%nat (full_A 1%nat a) (full_A 1%nat b) (full_x 1%nat c))) /\
  (A_expr_2 a b c = flat_A 2%nat (spec_A_expr 2%nat (full_A 2%nat a) (full_A 2%nat b) (full_x 2%nat c))).
Proof. intros a b c; exact (conj (A_expr_1_ok a b c) (A_expr_2_ok a b c)). Qed.
Print Assumptions C02_A_expr.

Theorem C02_A_apply : forall a b : nat -> R,
  (A_apply_1 a b = flat_s 1%nat (spec_A_apply 1%nat (full_A 1%nat a) (full_s 1%nat b))) /\
  (A_apply_2 a b = flat_s 2%nat (spec_A_apply 2%nat (full_A 2%nat a) (full_s 2%nat b))) /\
  (A_apply_3 a b = flat_s 3%nat (spec_A_apply 3%nat (full_A 3%nat a) (full_s 3%nat b))).
Proof. intros a b; exact (conj (A_apply_1_ok a b) (conj (A_apply_2_ok a b) (A_apply_3_ok a b))). Qed.
Print Assumptions C02_A_apply.

Theorem C02_A_lapply : forall a b : nat -> R,
  (A_lapply_1 a b = flat_s 1%nat (spec_A_lapply 1%nat (full_s 1%nat a) (full_A 1%nat b))) /\
  (A_lapply_2 a b = flat_s 2%nat (spec_A_lapply 2%nat (full_s 2%nat a) (full_A 2%nat b))) /\
  (A_lapply_3 a b = flat_s 3%nat (spec_A_lapply 3%nat (full_s 3%nat a) (full_A 3%nat b))).
Proof. intros a b; exact (conj (A_lapply_1_ok a b) (conj (A_lapply_2_ok a b) (A_lapply_3_ok a b))). Qed.
Print Assumptions C02_A_lapply.

Theorem C02_s_otimes : forall a b : nat -> R,
  (s_otimes_1 a b = flat_A 1%nat (spec_s_otimes 1%nat (full_s 1%nat a) (full_s 1%nat b))) /\
  (s_otimes_2 a b = flat_A 2%nat (spec_s_otimes 2%nat (full_s 2%nat a) (full_s 2%nat b))).
Proof. intros a b; exact (conj (s_otimes_1_ok a b) (s_otimes_2_ok a b)). Qed.
Print Assumptions C02_s_otimes.

Theorem C02_A_transpose : forall a : nat -> R,
  (A_transpose_1 a = flat_A 1%nat (spec_A_transpose 1%nat (full_A 1%nat a))) /\
  (A_transpose_2 a = flat_A 2%nat (spec_A_transpose 2%nat (full_A 2%nat a))).
Proof. intros a; exact (conj (A_transpose_1_ok a) (A_transpose_2_ok a)). Qed.
Print Assumptions C02_A_transpose.

Theorem C02_A_change_basis : forall a b : nat -> R,
  (A_change_basis_1 a b = flat_A 1%nat (spec_A_change_basis 1%nat (full_A 1%nat a) (full_r 1%nat b))) /\
  (A_change_basis_2 a b = flat_A 2%nat (spec_A_change_basis 2%nat (full_A 2%nat a) (full_r 2%nat b))).
Proof. intros a b; exact (conj (A_change_basis_1_ok a b) (A_change_basis_2_ok a b)). Qed.
Print Assumptions C02_A_change_basis.

Theorem C02_A_push_forward : forall a b : nat -> R,
  (A_push_forward_1 a b = flat_A 1%nat (spec_A_push_forward 1%nat (full_A 1%nat a) (full_t 1%nat b))) /\
  (A_push_forward_2 a b = flat_A 2%nat (spec_A_push_forward 2%nat (full_A 2%nat a) (full_t 2%nat b))).
Proof. intros a b; exact (conj (A_push_forward_1_ok a b) (A_push_forward_2_ok a b)). Qed.
Print Assumptions C02_A_push_forward.

Theorem C02_A_fromRotationMatrix : forall a : nat -> R,
  (A_fromRotationMatrix_1 a = flat_A 1%nat (spec_A_fromRotationMatrix 1%nat (full_r 1%nat a))) /\
  (A_fromRotationMatrix_2 a = flat_A 2%nat (spec_A_fromRotationMatrix 2%nat (full_r 2%nat a))).
Proof. intros a; exact (conj (A_fromRotationMatrix_1_ok a) (A_fromRotationMatrix_2_ok a)). Qed.
Print Assumptions C02_A_fromRotationMatrix.

Theorem C02_A_Id : (A_Id_1 = flat_A 1%nat (spec_A_Id 1%nat)) /\
  (A_Id_2 = flat_A 2%nat (spec_A_Id 2%nat)) /\
  (A_Id_3 = flat_A 3%nat (spec_A_Id 3%nat)).
Proof. exact (conj (A_Id_1_ok) (conj (A_Id_2_ok) (A_Id_3_ok))). Qed.
Print Assumptions C02_A_Id.

Theorem C02_A_IxI : (A_IxI_1 = flat_A 1%nat (spec_A_IxI 1%nat)) /\
  (A_IxI_2 = flat_A 2%nat (spec_A_IxI 2%nat)) /\
  (A_IxI_3 = flat_A 3%nat (spec_A_IxI 3%nat)).
Proof. exact (conj (A_IxI_1_ok) (conj (A_IxI_2_ok) (A_IxI_3_ok))). Qed.
Print Assumptions C02_A_IxI.

Theorem C02_A_J : (A_J_1 = flat_A 1%nat (spec_A_J 1%nat)) /\
  (A_J_2 = flat_A 2%nat (spec_A_J 2%nat)) /\
  (A_J_3 = flat_A 3%nat (spec_A_J 3%nat)).
Proof. exact (conj (A_J_1_ok) (conj (A_J_2_ok) (A_J_3_ok))). Qed.
Print Assumptions C02_A_J.

Theorem C02_A_K : (A_K_1 = flat_A 1%nat (spec_A_K 1%nat)) /\
  (A_K_2 = flat_A 2%nat (spec_A_K 2%nat)) /\
  (A_K_3 = flat_A 3%nat (spec_A_K 3%nat)).
Proof. exact (conj (A_K_1_ok) (conj (A_K_2_ok) (A_K_3_ok))). Qed.
Print Assumptions C02_A_K.

Theorem C02_A_M : (A_M_1 = flat_A 1%nat (spec_A_M 1%nat)) /\
  (A_M_2 = flat_A 2%nat (spec_A_M 2%nat)) /\
  (A_M_3 = flat_A 3%nat (spec_A_M 3%nat)).
Proof. exact (conj (A_M_1_ok) (conj (A_M_2_ok) (A_M_3_ok))). Qed.
Print Assumptions C02_A_M.

Theorem C02_A_getComponent : forall a : nat -> R,
  (A_getComponent_1 a = flat_A 1%nat (spec_A_getComponent 1%nat (full_A 1%nat a))) /\
  (A_getComponent_2 a = flat_A 2%nat (spec_A_getComponent 2%nat (full_A 2%nat a))).
Proof. intros a; exact (conj (A_getComponent_1_ok a) (A_getComponent_2_ok a)). Qed.
Print Assumptions C02_A_getComponent.

Theorem C02_A_dsquare : forall a : nat -> R,
  (A_dsquare_1 a = flat_A 1%nat (spec_A_dsquare 1%nat (full_s 1%nat a))) /\
  (A_dsquare_2 a = flat_A 2%nat (spec_A_dsquare 2%nat (full_s 2%nat a))).
Proof. intros a; exact (conj (A_dsquare_1_ok a) (A_dsquare_2_ok a)). Qed.
Print Assumptions C02_A_dsquare.

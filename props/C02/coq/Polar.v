(* C02 -- polar decomposition F = R U: the algebra AFTER the eigen-solve.
   polar_decomposition(R,U,F) (Tensor/TensorConcept.ixx) asks the eigen-solver for the eigenvalues vp of C = F^T F only
   (no eigenvector) and evaluates the closed form of Hoger and Carlson with u_k = sqrt vp_k and the invariants i1 i2 i3
   of U:   U = (-C^2 + (i1^2 - i2) C + i1 i3 I)/(i1 i2 - i3),  U^-1 = (C - i1 U + i2 I)/i3,  R = F U^-1.
   The generated obligations (engine S) prove that the traced code IS these formulas (spec_t_polar_U/R of C02Spec.v).
   This file proves, independently of the code, that the formulas do give a polar decomposition as soon as vp are the
   eigenvalues of C counted with multiplicity (the characteristic polynomial of C is (x-vp0)(x-vp1)(x-vp2)):
     U symmetric, U U = F^T F, R^T R = I, R U = F
   (Cayley-Hamilton: P(C)^2 - D^2 C = (C - i1^2 I) chi(C) and P(C) Q(C) - D^2 i3 I = (-i1 C + b I) chi(C), written as explicit
   certificates so that `field` alone checks them), and the abstract statement of DESIGN.md: for ANY U, V with V symmetric,
   U U = F^T F, U V = V U = I, the tensor R = F V is orthogonal and R U = F. *)
From Coq Require Import Reals List Lra Lia.
From VLib Require Import RealExtra.
Require Import TensorIndex C02Spec.
Local Open Scope R_scope.

(* equality of the 3x3 blocks (the index-notation operators only read indices 0..2) *)
Definition meq (a b : M2) : Prop := forall i j, (i < 3)%nat -> (j < 3)%nat -> a i j = b i j.
(* second invariant *)
Definition I2m (a : M2) : R := (trace2 a * trace2 a - trace2 (mul2 a a)) / 2.
(* l0 l1 l2 are the eigenvalues of c counted with multiplicity: its characteristic polynomial is (x-l0)(x-l1)(x-l2) *)
Definition eigenvalues3 (c : M2) (l0 l1 l2 : R) : Prop :=
  trace2 c = l0 + l1 + l2 /\ I2m c = l0 * l1 + l0 * l2 + l1 * l2 /\ det2 c = l0 * l1 * l2.

Ltac c3 i := destruct i as [|[|[|i]]]; [ | | | exfalso; lia].
Ltac redr := lazy -[Rplus Rmult Rminus Ropp Rdiv Rinv IZR sqrt].

Lemma meq_refl a : meq a a.
Proof. intros i j _ _; reflexivity. Qed.
Lemma meq_sym a b : meq a b -> meq b a.
Proof. intros H i j Hi Hj; symmetry; apply H; assumption. Qed.
Lemma meq_trans a b c : meq a b -> meq b c -> meq a c.
Proof. intros H1 H2 i j Hi Hj; rewrite H1, H2 by assumption; reflexivity. Qed.
Lemma mul2_compat a a' b b' : meq a a' -> meq b b' -> meq (mul2 a b) (mul2 a' b').
Proof.
  intros Ha Hb i j Hi Hj. unfold mul2, sum3.
  rewrite (Ha i 0%nat), (Ha i 1%nat), (Ha i 2%nat), (Hb 0%nat j), (Hb 1%nat j), (Hb 2%nat j) by lia. reflexivity.
Qed.
Lemma mul2_Id_r a : meq (mul2 a Id2) a.
Proof. intros i j Hi Hj. c3 j; unfold mul2, sum3, Id2, delta; simpl; ring. Qed.

(* ---- the statement of DESIGN.md section 5 (C02): any symmetric square root of F^T F with a two-sided inverse V *)
Lemma polar_from_sqrt (F U V : M2) :
  meq (tr2 V) V -> meq (mul2 U U) (mul2 (tr2 F) F) -> meq (mul2 U V) Id2 -> meq (mul2 V U) Id2 ->
  meq (mul2 (tr2 (mul2 F V)) (mul2 F V)) Id2 /\ meq (mul2 (mul2 F V) U) F.
Proof.
  intros Hs HUU HUV HVU. split.
  - apply meq_trans with (mul2 (tr2 V) (mul2 (mul2 (tr2 F) F) V)).
    { intros i j _ _. unfold mul2, tr2, sum3. ring. }
    apply meq_trans with (mul2 V (mul2 (mul2 U U) V)).
    { apply mul2_compat; [exact Hs | apply mul2_compat; [apply meq_sym; exact HUU | apply meq_refl]]. }
    apply meq_trans with (mul2 (mul2 V U) (mul2 U V)).
    { intros i j _ _. unfold mul2, sum3. ring. }
    apply meq_trans with (mul2 Id2 Id2).
    { apply mul2_compat; assumption. }
    apply mul2_Id_r.
  - apply meq_trans with (mul2 F (mul2 V U)).
    { intros i j _ _. unfold mul2, sum3. ring. }
    apply meq_trans with (mul2 F Id2).
    { apply mul2_compat; [apply meq_refl | assumption]. }
    apply mul2_Id_r.
Qed.

(* ---- the closed form evaluated by the code *)
Section HogerCarlson.
  Variable C : M2.
  Hypothesis Csym : forall i j, C i j = C j i.
  Variables i1 i2 i3 : R.
  (* the invariants of C are those of the square of a tensor of invariants i1 i2 i3 *)
  Hypothesis H1 : trace2 C = i1 * i1 - 2 * i2.
  Hypothesis H2 : I2m C = i2 * i2 - 2 * i1 * i3.
  Hypothesis H3 : det2 C = i3 * i3.
  Hypothesis HD : i1 * i2 - i3 <> 0.
  Hypothesis Hi3 : i3 <> 0.

  Let D := i1 * i2 - i3.
  Let P := polarP C i1 i2 i3.
  Let Q : M2 := fun i j => D * C i j - i1 * P i j + i2 * D * delta i j.
  Let h1 := trace2 C - (i1 * i1 - 2 * i2).
  Let h2 := (i2 * i2 - 2 * i1 * i3) - I2m C.
  Let h3 := det2 C - i3 * i3.

  Ltac canon := rewrite ?(Csym 1%nat 0%nat), ?(Csym 2%nat 0%nat), ?(Csym 2%nat 1%nat).

  Lemma h_zero : h1 = 0 /\ h2 = 0 /\ h3 = 0.
  Proof. unfold h1, h2, h3. rewrite H1, H2, H3. repeat split; ring. Qed.

  (* P(C)^2 - D^2 C = (C - i1^2 I) (h1 C^2 + h2 C + h3 I)   (the Cayley-Hamilton part vanishes identically) *)
  Lemma PP_cert i j : (i < 3)%nat -> (j < 3)%nat ->
    mul2 P P i j - D * D * C i j =
    h1 * mul2 (fun i j => C i j - i1 * i1 * delta i j) (mul2 C C) i j
    + h2 * mul2 (fun i j => C i j - i1 * i1 * delta i j) C i j
    + h3 * (C i j - i1 * i1 * delta i j).
  Proof.
    intros Hi Hj. unfold h1, h2, h3, P, D, I2m, polarP.
    c3 i; c3 j; redr; canon; field.
  Qed.
  Lemma PP i j : (i < 3)%nat -> (j < 3)%nat -> mul2 P P i j = D * D * C i j.
  Proof.
    intros Hi Hj. apply Rminus_diag_uniq. rewrite (PP_cert i j Hi Hj).
    destruct h_zero as (-> & -> & ->). ring.
  Qed.

  (* P(C) Q(C) - D^2 i3 I = (-i1 C + (i1^3 - i1 i2 + i3) I) (h1 C^2 + h2 C + h3 I) *)
  Lemma PQ_cert i j : (i < 3)%nat -> (j < 3)%nat ->
    mul2 P Q i j - D * D * i3 * delta i j =
    h1 * mul2 (fun i j => - i1 * C i j + (i1 * i1 * i1 - i1 * i2 + i3) * delta i j) (mul2 C C) i j
    + h2 * mul2 (fun i j => - i1 * C i j + (i1 * i1 * i1 - i1 * i2 + i3) * delta i j) C i j
    + h3 * (- i1 * C i j + (i1 * i1 * i1 - i1 * i2 + i3) * delta i j).
  Proof.
    intros Hi Hj. unfold h1, h2, h3, Q, P, D, I2m, polarP.
    c3 i; c3 j; redr; canon; field.
  Qed.
  Lemma PQ i j : (i < 3)%nat -> (j < 3)%nat -> mul2 P Q i j = D * D * i3 * delta i j.
  Proof.
    intros Hi Hj. apply Rminus_diag_uniq. rewrite (PQ_cert i j Hi Hj).
    destruct h_zero as (-> & -> & ->). ring.
  Qed.
  (* polynomials of the same tensor commute *)
  Lemma QP i j : (i < 3)%nat -> (j < 3)%nat -> mul2 Q P i j = mul2 P Q i j.
  Proof. intros Hi Hj. unfold Q, P, D, polarP. c3 i; c3 j; redr; canon; ring. Qed.
  Lemma P_sym i j : (i < 3)%nat -> (j < 3)%nat -> P j i = P i j.
  Proof. intros Hi Hj. unfold P, polarP. c3 i; c3 j; redr; canon; ring. Qed.

  Let U := polarU C i1 i2 i3.
  Let V := polarU1 C i1 i2 i3.

  Lemma U_is i j : U i j = P i j / D.
  Proof. reflexivity. Qed.
  Lemma V_is i j : V i j = Q i j / (D * i3).
  Proof. unfold V, polarU1, Q. fold U. rewrite U_is. fold D. field. split; assumption. Qed.

  Lemma HC_U_sym : meq (tr2 U) U.
  Proof. intros i j Hi Hj. unfold tr2. rewrite !U_is, (P_sym i j Hi Hj). reflexivity. Qed.
  Lemma HC_UU : meq (mul2 U U) C.
  Proof.
    intros i j Hi Hj.
    replace (mul2 U U i j) with (mul2 P P i j / (D * D)) by (unfold mul2, sum3; rewrite !U_is; field; exact HD).
    rewrite (PP i j Hi Hj). field. exact HD.
  Qed.
  Lemma HC_UV : meq (mul2 U V) Id2.
  Proof.
    intros i j Hi Hj.
    replace (mul2 U V i j) with (mul2 P Q i j / (D * D * i3)) by (unfold mul2, sum3; rewrite !U_is, !V_is; field; split; assumption).
    rewrite (PQ i j Hi Hj). unfold Id2. field. split; assumption.
  Qed.
  Lemma HC_VU : meq (mul2 V U) Id2.
  Proof.
    intros i j Hi Hj.
    replace (mul2 V U i j) with (mul2 Q P i j / (D * D * i3)) by (unfold mul2, sum3; rewrite !U_is, !V_is; field; split; assumption).
    rewrite (QP i j Hi Hj), (PQ i j Hi Hj). unfold Id2. field. split; assumption.
  Qed.
  Lemma HC_V_sym : meq (tr2 V) V.
  Proof.
    intros i j Hi Hj. unfold tr2. rewrite !V_is. unfold Q. rewrite (P_sym i j Hi Hj), (Csym j i).
    replace (delta j i) with (delta i j) by (unfold delta; rewrite Nat.eqb_sym; reflexivity). reflexivity.
  Qed.
End HogerCarlson.

(* ---- what the formulas of C02Spec.v (= the traced code, by the generated obligations) give for a deformation gradient *)
Definition is_polar_decomposition (F R U : M2) : Prop :=
  meq (tr2 U) U /\ meq (mul2 U U) (mul2 (tr2 F) F) /\ meq (mul2 (tr2 R) R) Id2 /\ meq (mul2 R U) F.

Lemma rcg_sym (F : M2) i j : mul2 (tr2 F) F i j = mul2 (tr2 F) F j i.
Proof. unfold mul2, tr2, sum3. ring. Qed.

Lemma polar_formulas_23 (N : nat) (F : M2) (v : nat -> R) :
  (N = 2 \/ N = 3)%nat ->
  0 <= v 0%nat -> 0 <= v 1%nat -> 0 <= v 2%nat ->
  eigenvalues3 (mul2 (tr2 F) F) (v 0%nat) (v 1%nat) (v 2%nat) ->
  polar_den N (full_v N v) <> 0 ->
  is_polar_decomposition F (spec_t_polar_R N F (full_v N v)) (spec_t_polar_U N F (full_v N v)).
Proof.
  intros HN P0 P1 P2 (E1 & E2 & E3) Hden.
  assert (S0 := sqrt_sqrt _ P0). assert (S1 := sqrt_sqrt _ P1). assert (S2 := sqrt_sqrt _ P2).
  set (C := mul2 (tr2 F) F) in *.
  set (i1 := polar_i1 v). set (i2 := polar_i2 v). set (i3 := polar_i3 v).
  assert (Hd : (i1 * i2 - i3) * i3 <> 0) by (destruct HN as [-> | ->]; exact Hden).
  assert (HD : i1 * i2 - i3 <> 0) by (intro E; apply Hd; rewrite E; ring).
  assert (Hi3 : i3 <> 0) by (intro E; apply Hd; rewrite E; ring).
  assert (H1 : trace2 C = i1 * i1 - 2 * i2).
  { rewrite E1, <- S0, <- S1, <- S2. unfold i1, i2, polar_i1, polar_i2. ring. }
  assert (H2 : I2m C = i2 * i2 - 2 * i1 * i3).
  { rewrite E2, <- S0, <- S1, <- S2. unfold i1, i2, i3, polar_i1, polar_i2, polar_i3. ring. }
  assert (H3 : det2 C = i3 * i3).
  { rewrite E3, <- S0, <- S1, <- S2. unfold i3, polar_i3. ring. }
  assert (Csym : forall i j, C i j = C j i) by (intros; apply rcg_sym).
  assert (EU : spec_t_polar_U N F (full_v N v) = polarU C i1 i2 i3) by (destruct HN as [-> | ->]; reflexivity).
  assert (ER : spec_t_polar_R N F (full_v N v) = mul2 F (polarU1 C i1 i2 i3)) by (destruct HN as [-> | ->]; reflexivity).
  rewrite EU, ER.
  destruct (polar_from_sqrt F (polarU C i1 i2 i3) (polarU1 C i1 i2 i3)
              (HC_V_sym C Csym i1 i2 i3 HD Hi3)
              (HC_UU C Csym i1 i2 i3 H1 H2 H3 HD)
              (HC_UV C Csym i1 i2 i3 H1 H2 H3 HD Hi3)
              (HC_VU C Csym i1 i2 i3 H1 H2 H3 HD Hi3)) as (HR & HRU).
  repeat split; [exact (HC_U_sym C Csym i1 i2 i3) | exact (HC_UU C Csym i1 i2 i3 H1 H2 H3 HD) | exact HR | exact HRU].
Qed.

(* 1D: F is diagonal, the code returns U = F and R = I (a polar decomposition with U positive when the F_ii are) *)
Lemma polar_formulas_1 (a : nat -> R) (v : nat -> R) :
  is_polar_decomposition (full_t 1%nat a) (spec_t_polar_R 1%nat (full_t 1%nat a) (full_v 1%nat v))
                         (spec_t_polar_U 1%nat (full_t 1%nat a) (full_v 1%nat v)).
Proof.
  unfold is_polar_decomposition, spec_t_polar_R, spec_t_polar_U.
  repeat split; intros i j Hi Hj; c3 i; c3 j; redr; ring.
Qed.

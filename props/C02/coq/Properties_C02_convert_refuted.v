(* C02 -- finding F22 (used only while this run observes the defect on a concrete input):
   st2tost2<N,T>::convert(t2tost2) of the pinned tree multiplies the shear-shear block by sqrt 2 instead of 1/sqrt 2,
   so it is NOT the restriction of the linear map to symmetric arguments.  Witness: the t2tost2 whose only non-zero
   entry is C(3,3) = 1. *)
From Coq Require Import Reals List Lra Psatz.
From VLib Require Import RealExtra.
Require Import TensorIndex TensorTactics C02Spec C02_g1_n2_p1 C02_g1_n3_p0.
Import ListNotations.
Local Open Scope R_scope.

Theorem C02_A_convert_3_refuted :
  exists a : nat -> R, A_convert_3 a <> flat_A 3%nat (spec_A_convert 3%nat (full_C 3%nat a)).
Proof.
  exists (fun k => if Nat.eqb k 30 then 1 else 0). intro H.
  apply (f_equal (fun l => nth 21 l 0)) in H.
  lazy -[Rplus Rmult Rminus Ropp Rdiv Rinv IZR sqrt] in H.
  pose proof sqrt2_sq as Hs. pose proof sqrt2_pos as Hp. nra.
Qed.
Print Assumptions C02_A_convert_3_refuted.

Theorem C02_A_convert_2_refuted :
  exists a : nat -> R, A_convert_2 a <> flat_A 2%nat (spec_A_convert 2%nat (full_C 2%nat a)).
Proof.
  exists (fun k => if Nat.eqb k 18 then 1 else 0). intro H.
  apply (f_equal (fun l => nth 15 l 0)) in H.
  lazy -[Rplus Rmult Rminus Ropp Rdiv Rinv IZR sqrt] in H.
  pose proof sqrt2_sq as Hs. pose proof sqrt2_pos as Hp. nra.
Qed.
Print Assumptions C02_A_convert_2_refuted.

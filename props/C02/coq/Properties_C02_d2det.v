(* C02 -- computeDeterminantSecondDerivative(tensor) (thorough tier, used when the finding shared with C06 is absent) (statements only; every proof is `exact` of lemmas generated and proved per component).
   Regenerate with mkprops.py when the operation registry of trace.cxx changes. *)
From Coq Require Import Reals List.
Require Import TensorIndex C02Spec C02_g2_n1_p0 C02_g2_n2_p0 C02_g2_n2_p1 C02_g2_n3_p0 C02_g2_n3_p1 C02_g2_n3_p2 C02_g2_n3_p3.

Import ListNotations.
Local Open Scope R_scope.

Theorem C02_B_d2det_full : forall a : nat -> R,
  (B_d2det_1 a = flat_B 1%nat (spec_B_d2det 1%nat (full_t 1%nat a))) /\
  (B_d2det_2 a = flat_B 2%nat (spec_B_d2det 2%nat (full_t 2%nat a))) /\
  (B_d2det_3 a = flat_B 3%nat (spec_B_d2det 3%nat (full_t 3%nat a))).
Proof. intros a; exact (conj (B_d2det_1_ok a) (conj (B_d2det_2_ok a) (B_d2det_3_ok a))). Qed.
Print Assumptions C02_B_d2det_full.

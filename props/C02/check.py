"""C02 -- tensor and fourth-order tensor algebra matches index notation (engine S).
Every operation of the registry in trace.cxx is traced from /repo's headers with symv::Sym for N=1,2,3, printed as
Coq definitions, and proved equal -- component by component, for all real inputs -- to its index-notation
definition (coq/TensorIndex.v, coq/C02Spec.v).  The real double code is run on seeded inputs against the evaluated
trace and against the independent numerical specification (specnum.py)."""
import os, sys
sys.path.insert(0, os.path.dirname(os.path.abspath(__file__)))
from vlib import guarded_main
import specnum, ttcheck, invertcheck

# groups: 0 tensor, 1 st2tost2, 2 t2tot2, 3 t2tost2 / st2tot2 / mixed products, 4 extensions (polar decomposition, remaining products)
PARTS = {(0, 3): 2, (1, 3): 5, (2, 3): 4, (3, 3): 3, (1, 2): 2, (2, 2): 2, (4, 3): 3, (4, 2): 2}
GROUPS = [0, 1, 2, 3, 4]
EXTRA_SUPPORT = ["src/Math/LUException.cxx"]  # invert / det of fourth-order tensors (LU)
MODS = [ttcheck.module_name("C02", g, N, p) for g in GROUPS for N in (1, 2, 3) for p in range(PARTS.get((g, N), 1))]


def main(c):
    ttcheck.run(c, "C02", groups=GROUPS, parts=PARTS, spec=specnum,
                spec_files=["TensorIndex.v", "NsatzTac.v", "TensorTactics.v", "C02Spec.v", "Polar.v"],
                extra_support=EXTRA_SUPPORT,
                prop_files_quick=["Properties_C02_g%d.v" % g for g in GROUPS] + ["Properties_C02_polar.v"],
                prop_files_thorough=["Properties_C02_full_g%d.v" % g for g in GROUPS] + ["Properties_C02_polar3.v"],
                conditional={"A_convert": ("Properties_C02_convert.v", "Properties_C02_convert_refuted.v"),
                             # computeDeterminantSecondDerivative(tensor<N>): finding shared with C06 (thorough tier only)
                             "B_d2det": ("Properties_C02_d2det.v", "Properties_C02_d2det_refuted.v", 1)})
    invertcheck.run(c)
    c.coverage["rule"] = ("every operation of the registry (props/C02/trace.cxx) x N=1,2,3 (quick: all but the most expensive 3D instances); "
                          "seeded inputs per operation: generic reals in [-2,2], small integers incl. zeros and ties, one magnitude 1e-3..1e3 per input; "
                          "invertible tensors = identity + perturbation (det > 0)")
    c.assumptions.append("real arithmetic: the theorems are over R; rounding of the double code is only checked on the seeded inputs")


guarded_main("C02", main)

"""C11 -- linear and cubic-spline interpolation reproduce and extend data.
Engine H: Gallina models (generic over the scalar; executed on Q, theorems on R) of computeLinearInterpolation(AndDerivative) /
findIndex and of CubicSpline (buildInterpolation + Thomas solve, interval search, local cubic, computeIntegral, computeMeanValue).
Tie: the REAL headers + src/Math/CubicSpline.cxx compiled from the tree are run on seeded dyadic tables of 1..40 nodes; every
output is compared (a) with the model evaluated exactly over Q by Coq (vm_compute), (b) with an independent statement of the
property evaluated in Python over exact rationals (natural spline in the second-derivative 'moment' formulation, which shares
nothing with the code's first-derivative formulation), (c) with properties of the real outputs alone (node reproduction, C0/C1/C2
continuity across nodes, natural ends, additivity / antisymmetry of the integral, mean value, extrapolation policy)."""
import hashlib, math, re
from fractions import Fraction as Fr
from vlib import guarded_main

SUPPORT = ["src/Math/CubicSpline.cxx", "src/Math/MathException.cxx", "src/Exception/TFELException.cxx",
           "src/Exception/ContractViolation.cxx"]
RTOL = Fr(1, 10 ** 10)
TINY = Fr(1, 10 ** 300)


def q(x):
    f = Fr(x)
    n, d = f.numerator, f.denominator
    return "((%d) # %d)" % (n, d) if n < 0 else "(%d # %d)" % (n, d)


def fh(s):
    return float.fromhex(s)


def hx(l):
    return " ".join(float(v).hex() for v in l)


def tkey(xs, ys):
    return "n%d-%s" % (len(xs), hashlib.sha1((hx(xs) + "|" + hx(ys)).encode()).hexdigest()[:10])


HEADER = """From Coq Require Import QArith List Bool ZArith.
From C11 Require Import C11Model.
Import ListNotations.
Local Open Scope Q_scope.
Definition eq (x : Q) : list Z := let r := Qred x in [Qnum r; Zpos (Qden r)].
Definition e2 (o : option (Q * Q)) : list Z := match o with Some (a, b) => eq a ++ eq b | None => [] end.
Definition e3 (o : option (Q * Q * Q)) : list Z := match o with Some (a, b, c) => eq a ++ eq b ++ eq c | None => [] end.
Definition eo (o : option Q) : list Z := match o with Some a => eq a | None => [] end.
Definition elin (tab : list (Q * Q)) (qs : list Q) : list Z :=
  flat_map (fun a => e2 (lin_Q false tab a) ++ e2 (lin_Q true tab a) ++ [Z.of_nat (fidx_Q a 0 (tl (map fst tab)))]) qs.
Definition espl (tab : list (Q * Q)) (qs : list Q) (ab : list (Q * Q)) : list Z :=
  let pts := build_Q tab in
  flat_map (fun p => eq (snd p)) pts ++
  flat_map (fun x => e3 (spl_bs_Q true pts x) ++ e3 (spl_bs_Q false pts x)) qs ++
  flat_map (fun p => eo (integ_Q pts (fst p) (snd p)) ++ eo (mean_Q pts (fst p) (snd p))) ab.
"""


# ------------------------------------------------------------------ generators
def gen_table(rng, n, kind):
    den = rng.choice([1, 2, 4, 8]) if kind != "fine" else 64
    x = Fr(rng.randint(-40, 40), den)
    xs = [x]
    for _ in range(n - 1):
        if kind == "pow2":
            x += Fr(rng.choice([1, 2, 4, 8]), 4)
        elif kind == "uneven":
            x += rng.choice([Fr(1, 64), Fr(1, 8), Fr(3, 2), Fr(25)])
        else:
            x += Fr(rng.randint(1, 24), den)
        xs.append(x)
    if kind == "const":
        ys = [Fr(rng.randint(-9, 9), 2)] * n
    elif kind == "affine":
        a, b = Fr(rng.randint(-9, 9), 2), Fr(rng.randint(-9, 9), 4)
        ys = [a * v + b for v in xs]
    elif kind == "big":
        ys = [Fr(rng.randint(-10 ** 6, 10 ** 6), 4) for _ in range(n)]
    else:
        ys = [Fr(rng.randint(-96, 96), 16) for _ in range(n)]
    return [float(v) for v in xs], [float(v) for v in ys]


def queries(rng, xs, full):
    """query points: nodes, just after nodes, midpoints, outside"""
    n = len(xs)
    qs = []
    idx = list(range(n)) if full or n <= 8 else sorted(set([0, 1, n - 2, n - 1] + rng.sample(range(n), 5)))
    for i in idx:
        qs.append(xs[i])
        qs.append(math.nextafter(xs[i], math.inf))
        if i + 1 < n:
            qs.append((xs[i] + xs[i + 1]) / 2)
            qs.append(xs[i] + (xs[i + 1] - xs[i]) * rng.choice([0.125, 0.25, 0.75, 0.875]))
    qs += [xs[0] - 1.5, xs[0] - 0.03125, xs[0] - 77.0, xs[-1] + 0.015625, xs[-1] + 2.25, xs[-1] + 51.0, math.nextafter(xs[0], -math.inf)]
    return qs


def int_pairs(rng, xs):
    n = len(xs)
    cand = [xs[0] - 1.5, xs[0] - 0.75, xs[0] - 13.0, xs[-1] + 1.25, xs[-1] + 0.5, xs[-1] + 9.0, xs[0], xs[-1]]
    for i in range(n - 1):
        cand += [(xs[i] + xs[i + 1]) / 2, xs[i] + (xs[i + 1] - xs[i]) * 0.125, xs[i + 1]]
    triples = [(xs[0] - 1.5, (xs[0] + xs[min(1, n - 1)]) / 2 if n > 1 else xs[0] + 1.0, xs[-1] + 1.25),   # straddles both ends
               (xs[0] - 0.75, xs[0] - 0.25, xs[0] + 0.0625),                                               # left part then straddle
               (xs[-1] - 0.0625, xs[-1] + 0.25, xs[-1] + 3.0)]
    for _ in range(5 if n <= 12 else 3):
        triples.append(tuple(rng.choice(cand) for _ in range(3)))
    pairs = []
    for a, b, c_ in triples:
        pairs += [(a, b), (b, c_), (a, c_), (b, a)]
    pairs.append((xs[0], xs[0]))
    return pairs, len(triples)


# ------------------------------------------------------------------ independent statement of the property (exact rationals)
def lin_spec(xs, ys, a, extrap):
    """value and the set of admissible derivatives of the piecewise-linear interpolant (clamped or prolonged outside)"""
    n = len(xs)
    if n == 1:
        return ys[0], [Fr(0)]
    sl = [(ys[i + 1] - ys[i]) / (xs[i + 1] - xs[i]) for i in range(n - 1)]
    if a <= xs[0]:
        return (ys[0] + sl[0] * (a - xs[0]), [sl[0]]) if extrap else (ys[0], [Fr(0)])
    if a >= xs[-1]:
        return (ys[-1] + sl[-1] * (a - xs[-1]), [sl[-1]]) if extrap else (ys[-1], [Fr(0)])
    i = max(j for j in range(n - 1) if xs[j] < a)
    ds = [sl[i]] + ([sl[i + 1]] if a == xs[i + 1] and i + 2 < n else [])   # at a node: either one-sided derivative
    return ys[i] + sl[i] * (a - xs[i]), ds


class NaturalSpline:
    """the C2 piecewise cubic through the data with zero second derivative at both ends, prolonged by its end tangents;
    second-derivative formulation: unknowns M_i = S''(x_i), (h_{i-1}/6) M_{i-1} + ((h_{i-1}+h_i)/3) M_i + (h_i/6) M_{i+1} = slope_i - slope_{i-1}"""

    def __init__(self, xs, ys):
        self.x, self.y, n = xs, ys, len(xs)
        self.n = n
        self.h = [xs[i + 1] - xs[i] for i in range(n - 1)]
        M = [Fr(0)] * n
        if n > 2:
            m = n - 2
            A = [[Fr(0)] * (m + 1) for _ in range(m)]
            for r in range(m):
                i = r + 1
                if r > 0:
                    A[r][r - 1] = self.h[i - 1] / 6
                A[r][r] = (self.h[i - 1] + self.h[i]) / 3
                if r + 1 < m:
                    A[r][r + 1] = self.h[i] / 6
                A[r][m] = (ys[i + 1] - ys[i]) / self.h[i] - (ys[i] - ys[i - 1]) / self.h[i - 1]
            for r in range(m):                     # Gauss-Jordan with row search (no assumption on the structure)
                p = next(t for t in range(r, m) if A[t][r] != 0)
                A[r], A[p] = A[p], A[r]
                piv = A[r][r]
                A[r] = [v / piv for v in A[r]]
                for t in range(m):
                    if t != r and A[t][r] != 0:
                        f = A[t][r]
                        A[t] = [vt - f * vr for vt, vr in zip(A[t], A[r])]
            for r in range(m):
                M[r + 1] = A[r][m]
        self.M = M
        if n == 1:
            self.d0 = self.dl = Fr(0)
        else:
            self.d0 = self.piece(0, xs[0])[1]
            self.dl = self.piece(n - 2, xs[-1])[1]
        self.cum = [Fr(0)]
        for i in range(n - 1):
            self.cum.append(self.cum[-1] + self.pint(i, xs[i + 1]))

    def piece(self, i, x):
        h, M0, M1, y0, y1 = self.h[i], self.M[i], self.M[i + 1], self.y[i], self.y[i + 1]
        A, B = self.x[i + 1] - x, x - self.x[i]
        c0, c1 = y0 / h - M0 * h / 6, y1 / h - M1 * h / 6
        return (M0 * A ** 3 / (6 * h) + M1 * B ** 3 / (6 * h) + c0 * A + c1 * B,
                -M0 * A ** 2 / (2 * h) + M1 * B ** 2 / (2 * h) - c0 + c1,
                (M0 * A + M1 * B) / h)

    def pint(self, i, t):
        """integral of piece i from x_i to t"""
        h, M0, M1, y0, y1 = self.h[i], self.M[i], self.M[i + 1], self.y[i], self.y[i + 1]
        A, B = self.x[i + 1] - t, t - self.x[i]
        c0, c1 = y0 / h - M0 * h / 6, y1 / h - M1 * h / 6
        return -M0 * (A ** 4 - h ** 4) / (24 * h) + M1 * B ** 4 / (24 * h) - c0 * (A ** 2 - h ** 2) / 2 + c1 * B ** 2 / 2

    def where(self, x):
        if self.n == 1 or x <= self.x[0]:
            return -1
        if x > self.x[-1]:
            return self.n - 1
        return max(j for j in range(self.n - 1) if self.x[j] < x)

    def eval(self, x, extrap=True):
        """(value, derivative, second derivative); at a node: of the piece to the left of it"""
        i = self.where(x)
        if self.n == 1:
            return self.y[0], Fr(0), Fr(0)
        if i == -1:
            return (self.y[0] + self.d0 * (x - self.x[0]), self.d0, Fr(0)) if extrap else (self.y[0], Fr(0), Fr(0))
        if i == self.n - 1:
            return (self.y[-1] + self.dl * (x - self.x[-1]), self.dl, Fr(0)) if extrap else (self.y[-1], Fr(0), Fr(0))
        return self.piece(i, x)

    def prim(self, x):
        """antiderivative vanishing at x_0"""
        if self.n == 1:
            return self.y[0] * (x - self.x[0])
        i = self.where(x)
        if i == -1:
            return self.y[0] * (x - self.x[0]) + self.d0 * (x - self.x[0]) ** 2 / 2
        if i == self.n - 1:
            return self.cum[-1] + self.y[-1] * (x - self.x[-1]) + self.dl * (x - self.x[-1]) ** 2 / 2
        return self.cum[i] + self.pint(i, x)


def main(c):
    exe = c.cxx("driver", ["driver.cxx"], SUPPORT, flags=["-ffp-contract=off"])
    c.trusted("driver props/C11/driver.cxx (parses hexadecimal floats, calls the real templates / class, prints hexadecimal floats)",
              "g++ -O1 -ffp-contract=off, binary64 arithmetic of the host",
              "Python fractions.Fraction arithmetic for the independent statement; Coq vm_compute for the evaluation of the model over Q",
              "the real code is compared with the exact results within 1e-10 relative to the magnitude of the data (it rounds)")
    rng = c.rng
    nrep = [0]
    perkind = {}

    def report(key, what, replay):
        kind = key.split(":")[0]
        perkind[kind] = perkind.get(kind, 0) + 1
        if perkind[kind] <= 2:          # at most two failing inputs per kind of failure
            c.report(key, what, replay, True)
        else:
            nrep[0] += 1

    # ---------------------------------------------------------------- inputs
    sizes_model = [(1, "plain"), (2, "plain"), (2, "affine"), (3, "plain"), (3, "uneven"), (4, "pow2"), (5, "const"), (6, "big"), (7, "fine"),
                   (8, "plain"), (10, "uneven"), (13, "plain"), (16, "pow2"), (24, "plain"), (40, "pow2")]
    kinds = ["plain", "pow2", "plain", "uneven", "const", "affine", "big", "fine"]
    if not c.quick():
        sizes_model += [(n, kinds[n % 8]) for n in range(1, 41)] + [(40, "plain"), (33, "uneven")]
    tabs = [([0.0, 1.0, 2.0, 4.0], [1.0, 3.0, 2.0, -1.0], "corpus"), ([1.0], [5.0], "corpus"), ([-2.0, 3.0], [4.0, -1.5], "corpus"),
            ([0.0, 1.0, 2.0, 3.0, 4.0], [0.0, 1.0, 8.0, 27.0, 64.0], "corpus")]
    for n, kind in sizes_model:
        tabs.append(gen_table(rng, n, kind) + ("model",))
    n_model = len(tabs)                                    # these tables are also run through the Gallina model
    for i in range(c.pick(150, 1500)):                     # compared with the independent statement only
        tabs.append(gen_table(rng, rng.randint(1, 40), rng.choice(kinds)) + ("spec",))
    cases = []
    lines = []
    for ti, (xs, ys, src) in enumerate(tabs):
        qs = queries(rng, xs, full=(ti >= n_model or len(xs) <= 12))
        pairs, ntr = int_pairs(rng, xs)
        cases.append((xs, ys, qs, pairs, ntr))
        lines.append("LIN %d %s %s %d %s" % (len(xs), hx(xs), hx(ys), len(qs), hx(qs)))
        lines.append("SPL %d %s %s %d %s %d %s" % (len(xs), hx(xs), hx(ys), len(qs), hx(qs), len(pairs), " ".join(hx(p) for p in pairs)))
    # the library refuses unordered / repeated abscissae
    bad = ["SPL 3 %s %s 0 0" % (hx([0.0, 2.0, 1.0]), hx([1.0, 2.0, 3.0])), "SPL 2 %s %s 0 0" % (hx([1.0, 1.0]), hx([1.0, 2.0]))]
    c.log("driver built; %d tables" % len(tabs))
    rc, out, err = c.run([exe], input="\n".join(lines + bad) + "\n", timeout=600)
    c.log("real code run")
    res = [l for l in out.splitlines() if l[:2] in ("L ", "S ", "X ", "E ")]
    if rc != 0 or len(res) != len(lines) + len(bad):
        c.report("driver", "driver failed (rc=%d, %d answers for %d commands): %s" % (rc, len(res), len(lines) + len(bad), err[-400:]),
                 {"stderr": err[-3000:]}, False)
        return
    for l, cmd in zip(res[len(lines):], bad):
        if not l.startswith("X "):
            report("unordered:" + cmd[:40], "setCollocationPoints accepts a table whose abscissae are not strictly increasing: " + l[:100], {"cmd": cmd})

    # ---------------------------------------------------------------- the Gallina model on the first n_model tables
    v = [HEADER]
    msub = []
    for ti in range(n_model):
        xs, ys, qs, pairs, ntr = cases[ti]
        ok = [i for i in range(len(qs)) if Fr(qs[i]).denominator < 2 ** 70]      # no denormal (next double after 0) in the exact model
        if len(xs) > 8:           # big rationals: a subset of the queries for the (slow) exact model
            qi = sorted(rng.sample([i for i in ok if i < len(qs) - 7], 8)) + [i for i in ok if i >= len(qs) - 7]
            pi = list(range(8)) + sorted(rng.sample(range(8, len(pairs)), 3))
        else:
            qi, pi = ok, list(range(len(pairs)))
        msub.append((qi, pi))
        tab = "[%s]" % "; ".join("(%s, %s)" % (q(a), q(b)) for a, b in zip(xs, ys))
        v.append("Eval vm_compute in elin %s [%s]." % (tab, "; ".join(q(qs[i]) for i in qi)))
        v.append("Eval vm_compute in espl %s [%s] [%s]." % (tab, "; ".join(q(qs[i]) for i in qi),
                                                            "; ".join("(%s, %s)" % (q(pairs[i][0]), q(pairs[i][1])) for i in pi)))
    rc, mout, merr = c.coq_eval(["C11Model.v"], "\n".join(v) + "\n", timeout=1500)
    if rc != 0 and not merr.strip():          # coqc killed from outside (shared machine): once more
        rc, mout, merr = c.coq_eval(["C11Model.v"], "\n".join(v) + "\n", timeout=1500)
    c.log("model evaluated over Q")
    if rc != 0:
        c.report("model-eval", "model evaluation failed: " + merr[-500:], {"stderr": merr[-3000:]}, False)
        return
    model = [[int(t) for t in re.findall(r"-?\d+", m)] for m in re.findall(r"=\s*\[([^\]]*)\]", mout.replace("%Z", ""))]
    if len(model) != 2 * n_model:
        c.report("model-eval", "model returned %d results for %d cases" % (len(model), 2 * n_model), {"stdout": mout[-2000:]}, False)
        return

    def fracs(l):
        return [Fr(l[i], l[i + 1]) for i in range(0, len(l), 2)]

    # ---------------------------------------------------------------- comparison
    nq = nint = nmodel = 0
    for ti, ((xs, ys, qs, pairs, ntr), src) in enumerate(zip(cases, [t[2] for t in tabs])):
        n = len(xs)
        X, Y = [Fr(a) for a in xs], [Fr(b) for b in ys]
        tk = tkey(xs, ys)
        rep = {"abscissae": xs, "values": ys}
        span = X[-1] - X[0]
        ymax = max(abs(b) for b in Y)
        mindx = min([X[i + 1] - X[i] for i in range(n - 1)] or [Fr(1)])
        smax = max([abs((Y[i + 1] - Y[i]) / (X[i + 1] - X[i])) for i in range(n - 1)] or [Fr(0)])
        # ------------------------------------------------ linear interpolation
        L = res[2 * ti].split()[1:]
        if res[2 * ti][0] != "L" or len(L) != 7 * len(qs):
            report("lin:%s:driver" % tk, "computeLinearInterpolation failed on the table: " + res[2 * ti][:200], rep)
            continue
        mlin = None
        if ti < n_model:
            ml = model[2 * ti]
            qi = msub[ti][0]
            mlin = {}
            # per query: (value, derivative) of lin_Q false, of lin_Q true (4 fractions = 8 integers), then the index
            if len(ml) != 9 * len(qi):
                report("lin:%s:model" % tk, "model of computeLinearInterpolation returned no value", rep)
                mlin = None
            else:
                for k_, i in enumerate(qi):
                    mlin[i] = (fracs(ml[9 * k_:9 * k_ + 8]), ml[9 * k_ + 8])
        for j, a in enumerate(qs):
            A = Fr(a)
            v0, v1, w0, d0, w1, d1 = [fh(t) for t in L[7 * j:7 * j + 6]]
            idx = int(L[7 * j + 6])
            nq += 1
            c.count(1, ("lin", tk, a), n > 1)
            dist = max(X[0] - A, A - X[-1], 0)
            vtol = RTOL * (ymax + smax * (span + dist)) + TINY
            dtol = RTOL * smax + TINY
            key = "lin:%s:%s" % (tk, a.hex())
            for e, (val, val2, der) in enumerate([(v0, w0, d0), (v1, w1, d1)]):
                sv, sds = lin_spec(X, Y, A, bool(e))
                what = None
                if not (math.isfinite(val) and math.isfinite(val2) and math.isfinite(der)):
                    what = "non-finite result"
                elif abs(Fr(val) - sv) > vtol or abs(Fr(val2) - sv) > vtol:
                    what = "value %r / %r, the piecewise-linear interpolant gives %r" % (val, val2, float(sv))
                elif min(abs(Fr(der) - s) for s in sds) > dtol:
                    what = "returned derivative %r, derivative of the interpolant %s" % (der, [float(s) for s in sds])
                if what:
                    report(key + ":e%d" % e, "computeLinearInterpolation(AndDerivative)<%s> on %d nodes x=%r y=%r at a=%r: %s" % (
                        "true" if e else "false", n, xs, ys, a, what), dict(rep, a=a, extrapolate=bool(e)))
            if mlin is not None and j in mlin:
                nmodel += 1
                f = mlin[j][0]
                for e, (mv, md, val, der) in enumerate([(f[0], f[1], w0, d0), (f[2], f[3], w1, d1)]):
                    sv, sds = lin_spec(X, Y, A, bool(e))
                    if mv != sv or md not in sds:
                        report("model-" + key + ":e%d" % e, "the model lin_Q gives (%s, %s) at a=%r where the specification gives (%s, %s) on x=%r y=%r" % (
                            mv, md, a, sv, sds, xs, ys), dict(rep, a=a))
                    if abs(Fr(val) - mv) > vtol or abs(Fr(der) - md) > dtol:
                        report("tie-" + key + ":e%d" % e, "computeLinearInterpolationAndDerivative<%s> = (%r, %r) but the model gives (%r, %r) at a=%r on x=%r y=%r" % (
                            "true" if e else "false", val, der, float(mv), float(md), a, xs, ys), dict(rep, a=a))
                if idx != mlin[j][1]:
                    report("tie-findIndex:%s:%s" % (tk, a.hex()), "findIndex(x=%r, a=%r) = %d, model %d" % (xs, a, idx, mlin[j][1]), dict(rep, a=a))
            # interval search, stated independently
            if n > 1 and X[0] < A < X[-1] and not (X[idx] < A <= X[idx + 1] if idx + 1 < n else False):
                report("findIndex:%s:%s" % (tk, a.hex()), "findIndex(x=%r, a=%r) = %d: a is not in (x[i], x[i+1]]" % (xs, a, idx), dict(rep, a=a))

        # ------------------------------------------------ cubic spline
        S = res[2 * ti + 1].split()
        if S[0] != "S" or len(S) != 2 + n + 10 * len(qs) + 2 * len(pairs):
            report("spl:%s:driver" % tk, "CubicSpline failed on a strictly increasing table of %d nodes x=%r y=%r: %s" % (n, xs, ys, res[2 * ti + 1][:200]), rep)
            continue
        dd = [fh(t) for t in S[2:2 + n]]
        QV = [[fh(t) for t in S[2 + n + 10 * j:2 + n + 10 * j + 10]] for j in range(len(qs))]
        o = 2 + n + 10 * len(qs)
        IV = [(fh(S[o + 2 * j]), fh(S[o + 2 * j + 1])) for j in range(len(pairs))]
        ns = NaturalSpline(X, Y)
        dex = [ns.eval(a)[1] for a in X]
        dmax = max([abs(d) for d in dex] + [smax])
        d2s = dmax / mindx
        dtol = RTOL * dmax + TINY
        # nodal derivatives
        for i in range(n):
            if not (math.isfinite(dd[i]) and abs(Fr(dd[i]) - dex[i]) <= dtol):
                report("spl:%s:d%d" % (tk, i), "CubicSpline on x=%r y=%r: nodal derivative d[%d] = %r, the natural spline has %r" % (xs, ys, i, dd[i], float(dex[i])), rep)
        mq = mi = None
        if ti < n_model:
            ms = model[2 * ti + 1]
            qi, pi = msub[ti]
            if len(ms) < 2 * n:
                report("spl:%s:model" % tk, "model of CubicSpline returned no value", rep)
            else:
                md_ = fracs(ms[:2 * n])
                if md_ != dex:
                    report("model-spl:%s:derivs" % tk, "the nodal derivatives of the model (Thomas solve over Q) %s are not those of the natural spline %s on x=%r y=%r" % (
                        md_[:4], dex[:4], xs, ys), rep)
                for i in range(n):
                    if abs(Fr(dd[i]) - md_[i]) > dtol:
                        report("tie-spl:%s:d%d" % (tk, i), "buildInterpolation: d[%d] = %r, model %r on x=%r y=%r" % (i, dd[i], float(md_[i]), xs, ys), rep)
                body = ms[2 * n:]
                # the number of integers per item is not fixed only through None (never for n >= 1): 12 per query, 4 per pair
                if len(body) == 12 * len(qi) + 4 * len(pi):
                    mq = {i: fracs(body[12 * k_:12 * k_ + 12]) for k_, i in enumerate(qi)}
                    ob = 12 * len(qi)
                    mi = {i: fracs(body[ob + 4 * k_:ob + 4 * k_ + 4]) for k_, i in enumerate(pi)}
                else:
                    report("spl:%s:model" % tk, "model of CubicSpline returned %d integers for %d queries and %d pairs" % (len(body), len(qi), len(pi)), rep)
        for j, a in enumerate(qs):
            A = Fr(a)
            gv, ov, f2, df2, f3, df3, d2f3, vc, fc, dfc = QV[j]
            nq += 1
            c.count(1, ("spl", tk, a), n > 2)
            dist = max(X[0] - A, A - X[-1], 0)
            vtol = RTOL * (ymax + dmax * (span + dist)) + TINY
            d2tol = RTOL * 100 * d2s + TINY
            key = "spl:%s:%s" % (tk, a.hex())
            ev, ed, ed2 = ns.eval(A, True)
            cv, cd, _ = ns.eval(A, False)
            what = None
            if not all(math.isfinite(t) for t in QV[j]):
                what = "non-finite result %r" % (QV[j],)
            elif max(abs(Fr(t) - ev) for t in (gv, ov, f2, f3)) > vtol:
                what = "getValue / operator() / getValues give %r %r %r %r, the natural spline (prolonged by its end tangents) has %r" % (gv, ov, f2, f3, float(ev))
            elif max(abs(Fr(t) - ed) for t in (df2, df3)) > dtol:
                what = "getValues derivative %r %r, derivative of the natural spline %r" % (df2, df3, float(ed))
            elif abs(Fr(d2f3) - ed2) > d2tol:
                what = "getValues second derivative %r, the natural spline has %r" % (d2f3, float(ed2))
            elif max(abs(Fr(t) - cv) for t in (vc, fc)) > vtol or abs(Fr(dfc) - cd) > dtol:
                what = "computeCubicSplineInterpolation(AndDerivative)<false> = %r (%r, %r), clamped natural spline (%r, %r)" % (vc, fc, dfc, float(cv), float(cd))
            if what:
                report(key, "CubicSpline on %d nodes x=%r y=%r at x=%r: %s" % (n, xs, ys, a, what), dict(rep, x=a))
            if mq is not None and j in mq:
                nmodel += 1
                m_ = mq[j]
                if (m_[0], m_[1], m_[2]) != (ev, ed, ed2) or (m_[3], m_[4]) != (cv, cd):
                    report("model-" + key, "the model spl_Q gives %s at x=%r where the natural spline has %s / clamped %s on x=%r y=%r" % (
                        [float(t) for t in m_], a, [float(ev), float(ed), float(ed2)], [float(cv), float(cd)], xs, ys), dict(rep, x=a))
                if (max(abs(Fr(t) - m_[0]) for t in (gv, ov, f2, f3)) > vtol or max(abs(Fr(t) - m_[1]) for t in (df2, df3)) > dtol
                        or abs(Fr(d2f3) - m_[2]) > d2tol or max(abs(Fr(t) - m_[3]) for t in (vc, fc)) > vtol or abs(Fr(dfc) - m_[4]) > dtol):
                    report("tie-" + key, "CubicSpline on x=%r y=%r at x=%r returns %r but the model gives %r" % (xs, ys, a, QV[j], [float(t) for t in m_]), dict(rep, x=a))
        # properties of the real outputs alone: node reproduction, continuity of value / first / second derivative across
        # nodes (the node itself belongs to the piece on its left, the next double to the piece on its right), natural ends
        at = {a: QV[j] for j, a in enumerate(qs)}
        for i in range(n):
            a, b = xs[i], math.nextafter(xs[i], math.inf)
            if a not in at or b not in at:
                continue
            vt = RTOL * (ymax + dmax * span) + TINY
            la, lb = at[a], at[b]
            what = None
            if abs(Fr(la[0]) - Y[i]) > vt:
                what = "getValue(x[%d]) = %r is not the tabulated value %r" % (i, la[0], ys[i])
            elif abs(Fr(la[4]) - Fr(lb[4])) > vt:
                what = "value jumps at node %d: %r | %r" % (i, la[4], lb[4])
            elif abs(Fr(la[5]) - Fr(lb[5])) > dtol * 100:
                what = "first derivative jumps at node %d: %r | %r" % (i, la[5], lb[5])
            elif n > 1 and abs(Fr(la[6]) - Fr(lb[6])) > RTOL * 1000 * d2s + TINY:
                what = "second derivative jumps at node %d: %r | %r (left end: must vanish)" % (i, la[6], lb[6])
            elif i == n - 1 and abs(Fr(la[6])) > RTOL * 1000 * d2s + TINY:
                what = "second derivative %r at the last node (natural end condition)" % la[6]
            if what:
                report("spl:%s:node%d" % (tk, i), "CubicSpline on x=%r y=%r: %s" % (xs, ys, what), rep)
        # integrals
        for j, (a, b) in enumerate(pairs):
            A, B = Fr(a), Fr(b)
            iv, mv = IV[j]
            nint += 1
            c.count(1, ("int", tk, a, b), n > 1 and a != b)
            da, db = max(X[0] - A, A - X[-1], 0), max(X[0] - B, B - X[-1], 0)
            ext = span + da + db
            itol = RTOL * (ymax + dmax * ext) * ext + TINY
            ex = ns.prim(B) - ns.prim(A)
            key = "int:%s:%s:%s" % (tk, a.hex(), b.hex())
            what = None
            if not math.isfinite(iv):
                what = "non-finite integral"
            elif abs(Fr(iv) - ex) > itol:
                what = "computeIntegral = %r, the integral of the interpolant (extrapolated parts included) is %r" % (iv, float(ex))
            elif a != b and (not math.isfinite(mv) or abs(Fr(mv) - ex / (B - A)) > itol / abs(B - A)):
                what = "computeMeanValue = %r, integral / length = %r" % (mv, float(ex / (B - A)))
            if what:
                report(key, "CubicSpline on %d nodes x=%r y=%r, bounds %r, %r: %s" % (n, xs, ys, a, b, what), dict(rep, xa=a, xb=b))
            if mi is not None and j in mi:
                nmodel += 1
                m_ = mi[j]
                if m_[0] != ex or (a != b and m_[1] != ex / (B - A)):
                    report("model-" + key, "the model integ_Q gives %r on [%r, %r] where the antiderivative difference is %r (x=%r y=%r)" % (
                        float(m_[0]), a, b, float(ex), xs, ys), dict(rep, xa=a, xb=b))
                if abs(Fr(iv) - m_[0]) > itol or (a != b and abs(Fr(mv) - m_[1]) > itol / abs(B - A)):
                    report("tie-" + key, "computeIntegral / computeMeanValue = %r / %r on [%r, %r], model %r / %r (x=%r y=%r)" % (
                        iv, mv, a, b, float(m_[0]), float(m_[1]), xs, ys), dict(rep, xa=a, xb=b))
        # additivity and antisymmetry on the real outputs alone
        for t in range(ntr):
            (a, b), (_, c_) = pairs[4 * t], pairs[4 * t + 1]
            iab, ibc, iac, iba = IV[4 * t][0], IV[4 * t + 1][0], IV[4 * t + 2][0], IV[4 * t + 3][0]
            lo, hi = min(a, b, c_), max(a, b, c_)
            ext = span + max(X[0] - Fr(lo), 0) + max(Fr(hi) - X[-1], 0)
            itol = 3 * RTOL * (ymax + dmax * ext) * ext + TINY
            if not all(math.isfinite(t_) for t_ in (iab, ibc, iac, iba)):
                continue
            if abs(Fr(iab) + Fr(ibc) - Fr(iac)) > itol:
                report("add:%s:%s:%s:%s" % (tk, a.hex(), b.hex(), c_.hex()),
                       "CubicSpline::computeIntegral is not additive on x=%r y=%r: I(%r,%r) + I(%r,%r) = %r + %r but I(%r,%r) = %r" % (
                           xs, ys, a, b, b, c_, iab, ibc, a, c_, iac), dict(rep, a=a, b=b, c=c_))
            if abs(Fr(iab) + Fr(iba)) > itol:
                report("antisym:%s:%s:%s" % (tk, a.hex(), b.hex()), "CubicSpline::computeIntegral(%r,%r) = %r but computeIntegral(%r,%r) = %r on x=%r y=%r" % (
                    a, b, iab, b, a, iba, xs, ys), dict(rep, a=a, b=b))
        if ti in (0, 3, 9, n_model - 1):
            c.sample({"abscissae": xs[:6], "values": ys[:6], "nodes": n, "query": qs[2], "real_spline(value,op(),f,df,f,df,d2f,clamped v,f,df)": QV[2],
                      "bounds": pairs[0], "real_integral_mean": IV[0]})
    c.log("comparison done")
    if nrep[0]:
        c.notes.append("%d further failing inputs not reported" % nrep[0])
    c.coverage["rule"] = ("seeded (VERIF_SEED) + 4 corpus tables: %d strictly increasing dyadic tables of 1..40 nodes (uniform / powers of two / very uneven "
                          "steps; generic, constant, affine, large values); query points: nodes, the next double after each node, midpoints and "
                          "quarter points, 7 points outside; integration bounds: triples straddling the first / last abscissa and random among "
                          "nodes / interior / outside points, each as (a,b),(b,c),(a,c),(b,a). %d query evaluations and %d integrals of the real "
                          "code compared with the independent exact statement; the first %d tables (every size class up to 40) also with the Gallina "
                          "model over Q (%d outputs compared exactly with the specification and within 1e-10 with the real code). non-trivial = "
                          "more than one node (linear), more than two (spline), distinct bounds (integral)" % (len(tabs), nq, nint, n_model, nmodel))
    c.coverage["traces_validated_against_impl"] = nmodel

    r = c.coq(["C11Model.v", "C11Spec.v", "C11Proofs.v", "C11Spline.v", "Properties_C11.v"], timeout=1500)
    if not r.ok:
        c.coq_failures(r)


guarded_main("C11", main)

(* C11 -- proofs about the models of C11Model.v over the real instance. *)
From Coquelicot Require Import Coquelicot.
From Coq Require Import Reals List Lra Lia.
From C11 Require Import C11Model C11Spec.
Import ListNotations.
Local Open Scope R_scope.

Lemma Rleb_true a b : Rleb a b = true <-> a <= b.
Proof. unfold Rleb. destruct (Rle_dec a b); split; intros; try lra; try discriminate; reflexivity. Qed.
Lemma Rleb_false a b : Rleb a b = false <-> b < a.
Proof. unfold Rleb. destruct (Rle_dec a b); split; intros; try lra; try discriminate; reflexivity. Qed.

Lemma lt_all_app x l1 l2 : lt_all x (l1 ++ l2) <-> lt_all x l1 /\ lt_all x l2.
Proof. induction l1; simpl; tauto. Qed.
Lemma increasing_app l1 l2 : increasing (l1 ++ l2) -> increasing l1 /\ increasing l2.
Proof. induction l1 as [|p l1 IH]; simpl; [tauto|]. rewrite lt_all_app. tauto. Qed.
Lemma lt_all_trans x y l : x <= y -> lt_all y l -> lt_all x l.
Proof. induction l; simpl; [tauto|]. intros H [H1 H2]. split; [lra|auto]. Qed.
Lemma adjacent_increasing_iff l : adjacent_increasing l <-> increasing l.
Proof.
  induction l as [|p [|q r] IH]; simpl in *; try tauto.
  split.
  - intros [H1 H2]. apply IH in H2. destruct H2 as [H2 H3]. repeat split; try assumption.
    apply lt_all_trans with (fst q); [lra|assumption].
  - intros [[H1 H2] H3]. split; [assumption|]. apply IH. exact H3.
Qed.

Definition interp2_R := interp2 R Rplus Rminus Rmult Rdiv.
Definition seg_R := seg R Rleb.
Definition last2_R := last2 R.

Lemma interp2_chord a (p0 p1 : pt) : interp2_R a p0 p1 = (chord p0 p1 a, slope p0 p1).
Proof. reflexivity. Qed.

Lemma last_cons (q : pt) l d : last (q :: l) d = last l q.
Proof.
  revert q d. induction l as [|r l IH]; intros q d; [reflexivity|].
  change (last (q :: r :: l) d) with (last (r :: l) d). rewrite (IH r d), (IH r q). reflexivity.
Qed.

(* the interval search: when every abscissa of the prefix l1 is below a and a <= fst p1, the search returns
   (element before p1, p1) *)
Lemma seg_spec a (p1 : pt) (l2 : list pt) : forall (l1 : list pt) (p0 : pt), (forall p, In p l1 -> fst p < a) -> a <= fst p1 ->
  seg_R a p0 (l1 ++ p1 :: l2) = (last l1 p0, p1).
Proof.
  induction l1 as [|q l1 IH]; intros p0 Hlt Hle.
  - simpl. apply Rleb_true in Hle. rewrite Hle. reflexivity.
  - assert (Hq : Rleb a (fst q) = false) by (apply Rleb_false, Hlt; left; reflexivity).
    rewrite last_cons, <- app_comm_cons. unfold seg_R. cbn [seg]. rewrite Hq.
    apply IH; [intros p Hp; apply Hlt; right; exact Hp|exact Hle].
Qed.

Lemma last2_spec (q : pt) : forall (l1 : list pt) (p0 : pt), last2_R p0 (l1 ++ [q]) = (last l1 p0, q).
Proof.
  induction l1 as [|r l1 IH]; intros p0; [reflexivity|].
  rewrite last_cons, <- app_comm_cons. unfold last2_R in *. cbn [last2].
  pose proof (IH r) as IHr. destruct (l1 ++ [q]) eqn:E; [destruct l1; discriminate|]. exact IHr.
Qed.

Lemma increasing_prefix_le p0 l1 rest : increasing (p0 :: l1 ++ rest) ->
  forall p, In p (p0 :: l1) -> fst p <= fst (last l1 p0).
Proof.
  revert p0. induction l1 as [|q l1 IH]; intros p0 H p Hp.
  - destruct Hp as [<-|[]]. simpl. lra.
  - rewrite last_cons. destruct H as [Hlt Hinc]. destruct Hp as [<-|Hp].
    + assert (fst q <= fst (last l1 q)) by (apply (IH q Hinc); left; reflexivity).
      simpl in Hlt. lra.
    + apply (IH q Hinc p Hp).
Qed.

Lemma increasing_last_lt p0 l1 pb l2 : increasing (p0 :: l1 ++ pb :: l2) -> fst (last l1 p0) < fst pb.
Proof.
  revert p0. induction l1 as [|q l1 IH]; intros p0 H.
  - simpl in *. tauto.
  - rewrite last_cons. apply IH. exact (proj2 H).
Qed.

Lemma increasing_before_last pb l2 z : increasing (pb :: l2 ++ [z]) -> fst pb < fst z.
Proof. intros [H _]. apply lt_all_app in H. simpl in H. tauto. Qed.

Lemma chord_right p0 p1 : fst p0 <> fst p1 -> chord p0 p1 (fst p1) = snd p1.
Proof. intros H. unfold chord, slope. field. lra. Qed.
Lemma chord_left p0 p1 : chord p0 p1 (fst p0) = snd p0.
Proof. unfold chord. ring. Qed.

Lemma tab_shape (p0 pb : pt) (l1 l2 : list pt) :
  exists p1 r, p0 :: l1 ++ pb :: l2 = p0 :: p1 :: r /\ p1 :: r = l1 ++ pb :: l2.
Proof. destruct l1 as [|q l]; simpl; eexists; eexists; split; reflexivity. Qed.

(* the last interval of the table and its right end *)
Lemma last2_tab (p0 pb : pt) (l1 l2 : list pt) : increasing (p0 :: l1 ++ pb :: l2) ->
  (l2 = [] /\ last2_R p0 (l1 ++ pb :: l2) = (last l1 p0, pb)) \/
  (exists q0 z, last2_R p0 (l1 ++ pb :: l2) = (q0, z) /\ fst pb < fst z).
Proof.
  intros Hinc. destruct l2 as [|y l2'] eqn:E.
  - left. split; [reflexivity|]. apply last2_spec.
  - right. destruct (@exists_last _ (y :: l2') ltac:(discriminate)) as [l' [z Ez]].
    rewrite Ez in *. exists (last (l1 ++ pb :: l') p0), z. split.
    + replace (l1 ++ pb :: l' ++ [z]) with ((l1 ++ pb :: l') ++ [z]) by (rewrite <- app_assoc; reflexivity).
      apply last2_spec.
    + destruct (increasing_app (p0 :: l1) (pb :: l' ++ [z]) Hinc) as [_ H2].
      apply (increasing_before_last pb l' z H2).
Qed.

(* ---- the linear interpolant on a strictly increasing table *)
Theorem lin_single e p a : lin_R e [p] a = Some (snd p, 0).
Proof. reflexivity. Qed.

Theorem lin_left e p0 p1 r a : a <= fst p0 ->
  lin_R e (p0 :: p1 :: r) a = if e then Some (chord p0 p1 a, slope p0 p1) else Some (snd p0, 0).
Proof. intros H. unfold lin_R, lin. apply Rleb_true in H. rewrite H. destruct e; reflexivity. Qed.

(* on the interval (pa, pb] (pa the point before pb in the table) the value is the chord through pa and pb;
   the returned derivative is its slope unless the clamped right end is hit *)
Theorem lin_interval e p0 l1 pb l2 a : increasing (p0 :: l1 ++ pb :: l2) ->
  fst (last l1 p0) < a -> a <= fst pb ->
  exists v d, lin_R e (p0 :: l1 ++ pb :: l2) a = Some (v, d) /\ v = chord (last l1 p0) pb a /\
              (a < fst pb -> d = slope (last l1 p0) pb).
Proof.
  intros Hinc Hlo Hhi.
  assert (Hp0 : fst p0 <= fst (last l1 p0)) by (apply (increasing_prefix_le p0 l1 (pb :: l2) Hinc); left; reflexivity).
  assert (Hpre : forall p, In p l1 -> fst p < a).
  { intros p Hp. assert (fst p <= fst (last l1 p0)) by (apply (increasing_prefix_le p0 l1 (pb :: l2) Hinc); right; exact Hp). lra. }
  assert (Hab : fst (last l1 p0) < fst pb) by (apply (increasing_last_lt p0 l1 pb l2 Hinc)).
  assert (Hlin : lin_R e (p0 :: l1 ++ pb :: l2) a =
                 if Rleb (fst (snd (last2_R p0 (l1 ++ pb :: l2)))) a
                 then (if e then Some (interp2_R a (fst (last2_R p0 (l1 ++ pb :: l2))) (snd (last2_R p0 (l1 ++ pb :: l2))))
                       else Some (snd (snd (last2_R p0 (l1 ++ pb :: l2))), 0))
                 else Some (interp2_R a (fst (seg_R a p0 (l1 ++ pb :: l2))) (snd (seg_R a p0 (l1 ++ pb :: l2))))).
  { destruct (tab_shape p0 pb l1 l2) as [p1 [r [Et Er]]]. rewrite Et, <- Er. unfold lin_R, lin.
    assert (H0 : Rleb a (fst p0) = false) by (apply Rleb_false; lra). rewrite H0. reflexivity. }
  rewrite (seg_spec a pb l2 l1 p0 Hpre Hhi) in Hlin. cbn [fst snd] in Hlin.
  destruct (last2_tab p0 pb l1 l2 Hinc) as [[El2 Hl]|[q0 [z [Hl Hz]]]]; rewrite Hl in Hlin; cbn [fst snd] in Hlin.
  - destruct (Rle_dec (fst pb) a) as [Hge|Hlt].
    + assert (Ea : a = fst pb) by lra. assert (Hb : Rleb (fst pb) a = true) by (apply Rleb_true; lra). rewrite Hb in Hlin.
      destruct e; rewrite Hlin.
      * rewrite interp2_chord. eexists; eexists; split; [reflexivity|]. split; [reflexivity|lra].
      * eexists; eexists; split; [reflexivity|]. split; [|lra]. rewrite Ea. symmetry. apply chord_right. lra.
    + assert (Hb : Rleb (fst pb) a = false) by (apply Rleb_false; lra). rewrite Hb, interp2_chord in Hlin. rewrite Hlin.
      eexists; eexists; split; [reflexivity|]. split; reflexivity.
  - assert (Hb : Rleb (fst z) a = false) by (apply Rleb_false; lra). rewrite Hb, interp2_chord in Hlin. rewrite Hlin.
    eexists; eexists; split; [reflexivity|]. split; reflexivity.
Qed.

(* TODO (not done): lin_right -- to the right of the table the model clamps or prolongs the last chord. *)

(* node reproduction, every node of every increasing table, extrapolation on or off *)
Corollary lin_first_node e p0 p1 r : exists d, lin_R e (p0 :: p1 :: r) (fst p0) = Some (snd p0, d).
Proof.
  rewrite lin_left by lra. destruct e; eexists; [|reflexivity]. rewrite chord_left. reflexivity.
Qed.
Corollary lin_other_node e p0 l1 pb l2 : increasing (p0 :: l1 ++ pb :: l2) ->
  exists d, lin_R e (p0 :: l1 ++ pb :: l2) (fst pb) = Some (snd pb, d).
Proof.
  intros Hinc. assert (Hab : fst (last l1 p0) < fst pb) by (apply (increasing_last_lt p0 l1 pb l2 Hinc)).
  destruct (lin_interval e p0 l1 pb l2 (fst pb) Hinc Hab ltac:(lra)) as [v [d [H [Hv _]]]].
  exists d. rewrite H, Hv, chord_right by lra. reflexivity.
Qed.
(* continuity: the chords of two consecutive intervals agree at the shared node (the interpolant is piecewise affine) *)
Corollary chords_meet pa pb pc : fst pa <> fst pb -> chord pa pb (fst pb) = chord pb pc (fst pb).
Proof. intros H. rewrite chord_right, chord_left by assumption. reflexivity. Qed.
(* the slope returned is the derivative of the chord *)
Lemma chord_derive pa pb a : is_derive (chord pa pb) a (slope pa pb).
Proof. unfold chord. auto_derive; [exact I|]. ring. Qed.

(* ---- cubic spline: local formulas *)
Section Hermite.
  Variables xa ya da xb yb db : R.
  Hypothesis Hx : xa <> xb.
  Let S x := fst (fst (cubic_R xa ya da xb yb db x)).
  Let S1 x := snd (fst (cubic_R xa ya da xb yb db x)).
  Let S2 x := snd (cubic_R xa ya da xb yb db x).

  (* value and first derivative at both ends: node reproduction and C1 continuity whatever the nodal derivatives *)
  Lemma spline_hermite : hermite_ok S S1 xa ya da xb yb db.
  Proof.
    unfold hermite_ok, S, S1, cubic_R, cubic, coeffs, k; cbn [fst snd].
    repeat split; field; lra.
  Qed.
  (* the returned derivatives are the derivatives *)
  Lemma spline_derive x : is_derive S x (S1 x) /\ is_derive S1 x (S2 x).
  Proof.
    unfold S, S1, S2, cubic_R, cubic, coeffs, k; cbn [fst snd].
    split; auto_derive; try exact I; field; lra.
  Qed.
  (* the local integral is the difference of an antiderivative *)
  Definition prim x := let c := coeffs_R xa ya da xb yb db in let u := x - xa in
                       (3 * snd c * u ^ 4 + 4 * fst c * u ^ 3 + 6 * da * u ^ 2 + 12 * ya * u) / 12.
  Lemma spline_prim_derive x : is_derive prim x (S x).
  Proof.
    unfold prim, S, cubic_R, coeffs_R, cubic, coeffs, k; cbn [fst snd].
    auto_derive; try exact I. field. lra.
  Qed.
  Lemma spline_local_integral x0 x1 : local_int_R xa ya da xb yb db x0 x1 = prim x1 - prim x0.
  Proof. unfold local_int_R, local_int, prim, coeffs_R, coeffs, k; cbn [fst snd]. field. lra. Qed.
  Lemma spline_local_integral_is_RInt x0 x1 : is_RInt S x0 x1 (local_int_R xa ya da xb yb db x0 x1).
  Proof.
    rewrite spline_local_integral. apply (is_RInt_derive prim S).
    - intros x _. apply spline_prim_derive.
    - intros x _. apply (ex_derive_continuous S). eexists. apply (proj1 (spline_derive x)).
  Qed.
End Hermite.

(* TODO (not done): the equations assembled by buildInterpolation are the C2 / natural end conditions; Thomas algorithm. *)

Lemma lin_nodes e p0 l1 pb l2 : increasing (p0 :: l1 ++ pb :: l2) ->
  (exists d, lin_R e (p0 :: l1 ++ pb :: l2) (fst p0) = Some (snd p0, d)) /\
  (exists d, lin_R e (p0 :: l1 ++ pb :: l2) (fst pb) = Some (snd pb, d)).
Proof.
  intros H. split; [|apply lin_other_node; exact H].
  destruct (tab_shape p0 pb l1 l2) as [p1 [r [Et _]]]. rewrite Et. apply lin_first_node.
Qed.

(* right of the table (and at the last node): clamp, or the last chord prolonged *)
Theorem lin_right e p0 l1 pb a : increasing (p0 :: l1 ++ [pb]) -> fst pb <= a ->
  lin_R e (p0 :: l1 ++ [pb]) a = if e then Some (chord (last l1 p0) pb a, slope (last l1 p0) pb) else Some (snd pb, 0).
Proof.
  intros Hinc Ha.
  assert (H0 : fst p0 < fst pb) by (apply (increasing_before_last p0 l1 pb Hinc)).
  assert (Hlin : lin_R e (p0 :: l1 ++ [pb]) a =
                 if Rleb (fst (snd (last2_R p0 (l1 ++ [pb])))) a
                 then (if e then Some (interp2_R a (fst (last2_R p0 (l1 ++ [pb]))) (snd (last2_R p0 (l1 ++ [pb]))))
                       else Some (snd (snd (last2_R p0 (l1 ++ [pb]))), 0))
                 else Some (interp2_R a (fst (seg_R a p0 (l1 ++ [pb]))) (snd (seg_R a p0 (l1 ++ [pb]))))).
  { destruct (tab_shape p0 pb l1 []) as [p1 [r [Et Er]]]. rewrite Et, <- Er. unfold lin_R, lin.
    assert (E0 : Rleb a (fst p0) = false) by (apply Rleb_false; lra). rewrite E0. reflexivity. }
  rewrite Hlin, last2_spec. cbn [fst snd].
  assert (E1 : Rleb (fst pb) a = true) by (apply Rleb_true; lra). rewrite E1.
  destruct e; [rewrite interp2_chord|]; reflexivity.
Qed.

(* C11 -- property theorems (statements only; proofs in C11Proofs.v; models in C11Model.v; spec in C11Spec.v). *)
From Coquelicot Require Import Coquelicot.
From Coq Require Import Reals List.
From C11 Require Import C11Model C11Spec C11Proofs.
Import ListNotations.
Local Open Scope R_scope.

(* ---- linear interpolation, every strictly increasing table of any length, extrapolation on or off *)
Theorem C11_lin_single_point : forall e p a, lin_R e [p] a = Some (snd p, 0).
Proof. exact lin_single. Qed.
Print Assumptions C11_lin_single_point.

(* on (x_i, x_i+1] the value is the chord through the two neighbouring points and the derivative its slope *)
Theorem C11_lin_chord_on_each_interval : forall e p0 l1 pb l2 a, increasing (p0 :: l1 ++ pb :: l2) ->
  fst (last l1 p0) < a -> a <= fst pb ->
  exists v d, lin_R e (p0 :: l1 ++ pb :: l2) a = Some (v, d) /\ v = chord (last l1 p0) pb a /\
              (a < fst pb -> d = slope (last l1 p0) pb).
Proof. exact lin_interval. Qed.
Print Assumptions C11_lin_chord_on_each_interval.

(* left of the table: clamp, or the first chord prolonged *)
Theorem C11_lin_left_of_table : forall e p0 p1 r a, a <= fst p0 ->
  lin_R e (p0 :: p1 :: r) a = if e then Some (chord p0 p1 a, slope p0 p1) else Some (snd p0, 0).
Proof. exact lin_left. Qed.
Print Assumptions C11_lin_left_of_table.

Theorem C11_lin_node_reproduction : forall e p0 l1 pb l2, increasing (p0 :: l1 ++ pb :: l2) ->
  (exists d, lin_R e (p0 :: l1 ++ pb :: l2) (fst p0) = Some (snd p0, d)) /\
  (exists d, lin_R e (p0 :: l1 ++ pb :: l2) (fst pb) = Some (snd pb, d)).
Proof. exact lin_nodes. Qed.
Print Assumptions C11_lin_node_reproduction.

Theorem C11_lin_continuous_at_nodes : forall pa pb pc, fst pa <> fst pb -> chord pa pb (fst pb) = chord pb pc (fst pb).
Proof. exact chords_meet. Qed.
Print Assumptions C11_lin_continuous_at_nodes.

Theorem C11_lin_slope_is_derivative : forall pa pb a, is_derive (chord pa pb) a (slope pa pb).
Proof. exact chord_derive. Qed.
Print Assumptions C11_lin_slope_is_derivative.

(* ---- cubic spline, local formulas: whatever the nodal derivatives, the local cubic takes the tabulated values and the
   nodal derivatives at both ends (node reproduction, C1 continuity) *)
Theorem C11_spline_hermite : forall xa ya da xb yb db, xa <> xb ->
  hermite_ok (fun x => fst (fst (cubic_R xa ya da xb yb db x))) (fun x => snd (fst (cubic_R xa ya da xb yb db x))) xa ya da xb yb db.
Proof. exact spline_hermite. Qed.
Print Assumptions C11_spline_hermite.

Theorem C11_spline_returned_derivatives : forall xa ya da xb yb db, xa <> xb -> forall x,
  is_derive (fun x => fst (fst (cubic_R xa ya da xb yb db x))) x (snd (fst (cubic_R xa ya da xb yb db x))) /\
  is_derive (fun x => snd (fst (cubic_R xa ya da xb yb db x))) x (snd (cubic_R xa ya da xb yb db x)).
Proof. exact spline_derive. Qed.
Print Assumptions C11_spline_returned_derivatives.

Theorem C11_spline_local_integral : forall xa ya da xb yb db, xa <> xb -> forall x0 x1,
  is_RInt (fun x => fst (fst (cubic_R xa ya da xb yb db x))) x0 x1 (local_int_R xa ya da xb yb db x0 x1).
Proof. exact spline_local_integral_is_RInt. Qed.
Print Assumptions C11_spline_local_integral.

(* C11 -- property theorems (statements only; proofs in C11Proofs.v; models in C11Model.v; spec in C11Spec.v). *)
From Coquelicot Require Import Coquelicot.
From Coq Require Import Reals List.
From C11 Require Import C11Model C11Spec C11Proofs C11Spline.
Import ListNotations.
Local Open Scope R_scope.

(* ---- linear interpolation, every strictly increasing table of any length, extrapolation on or off *)
Theorem C11_lin_single_point : forall e p a, lin_R e [p] a = Some (snd p, 0).
Proof. exact lin_single. Qed.
Print Assumptions C11_lin_single_point.

(* on (x_i, x_i+1] the value is the chord through the two neighbouring points and the derivative its slope *)
Theorem C11_lin_chord_on_each_interval : forall e p0 l1 pb l2 a, increasing (p0 :: l1 ++ pb :: l2) ->
  fst (last l1 p0) < a -> a <= fst pb ->
  exists v d, lin_R e (p0 :: l1 ++ pb :: l2) a = Some (v, d) /\ v = chord (last l1 p0) pb a /\
              (a < fst pb -> d = slope (last l1 p0) pb).
Proof. exact lin_interval. Qed.
Print Assumptions C11_lin_chord_on_each_interval.

(* left of the table: clamp, or the first chord prolonged *)
Theorem C11_lin_left_of_table : forall e p0 p1 r a, a <= fst p0 ->
  lin_R e (p0 :: p1 :: r) a = if e then Some (chord p0 p1 a, slope p0 p1) else Some (snd p0, 0).
Proof. exact lin_left. Qed.
Print Assumptions C11_lin_left_of_table.

Theorem C11_lin_node_reproduction : forall e p0 l1 pb l2, increasing (p0 :: l1 ++ pb :: l2) ->
  (exists d, lin_R e (p0 :: l1 ++ pb :: l2) (fst p0) = Some (snd p0, d)) /\
  (exists d, lin_R e (p0 :: l1 ++ pb :: l2) (fst pb) = Some (snd pb, d)).
Proof. exact lin_nodes. Qed.
Print Assumptions C11_lin_node_reproduction.

Theorem C11_lin_continuous_at_nodes : forall pa pb pc, fst pa <> fst pb -> chord pa pb (fst pb) = chord pb pc (fst pb).
Proof. exact chords_meet. Qed.
Print Assumptions C11_lin_continuous_at_nodes.

Theorem C11_lin_slope_is_derivative : forall pa pb a, is_derive (chord pa pb) a (slope pa pb).
Proof. exact chord_derive. Qed.
Print Assumptions C11_lin_slope_is_derivative.

(* ---- cubic spline, local formulas: whatever the nodal derivatives, the local cubic takes the tabulated values and the
   nodal derivatives at both ends (node reproduction, C1 continuity) *)
Theorem C11_spline_hermite : forall xa ya da xb yb db, xa <> xb ->
  hermite_ok (fun x => fst (fst (cubic_R xa ya da xb yb db x))) (fun x => snd (fst (cubic_R xa ya da xb yb db x))) xa ya da xb yb db.
Proof. exact spline_hermite. Qed.
Print Assumptions C11_spline_hermite.

Theorem C11_spline_returned_derivatives : forall xa ya da xb yb db, xa <> xb -> forall x,
  is_derive (fun x => fst (fst (cubic_R xa ya da xb yb db x))) x (snd (fst (cubic_R xa ya da xb yb db x))) /\
  is_derive (fun x => snd (fst (cubic_R xa ya da xb yb db x))) x (snd (cubic_R xa ya da xb yb db x)).
Proof. exact spline_derive. Qed.
Print Assumptions C11_spline_returned_derivatives.

Theorem C11_spline_local_integral : forall xa ya da xb yb db, xa <> xb -> forall x0 x1,
  is_RInt (fun x => fst (fst (cubic_R xa ya da xb yb db x))) x0 x1 (local_int_R xa ya da xb yb db x0 x1).
Proof. exact spline_local_integral_is_RInt. Qed.
Print Assumptions C11_spline_local_integral.

(* right of the table and at the last node: clamp, or the last chord prolonged *)
Theorem C11_lin_right_of_table : forall e p0 l1 pb a, increasing (p0 :: l1 ++ [pb]) -> fst pb <= a ->
  lin_R e (p0 :: l1 ++ [pb]) a = if e then Some (chord (last l1 p0) pb a, slope (last l1 p0) pb) else Some (snd pb, 0).
Proof. exact lin_right. Qed.
Print Assumptions C11_lin_right_of_table.

(* ---- cubic spline, whole table.  solveTridiagonalLinearSystem (Thomas): when no pivot vanishes the result solves the
   symmetric tridiagonal system (first row b d0 + c d1 = r, then lo d_{i-1} + b_i d_i + c_i d_{i+1} = r_i) *)
Theorem C11_thomas_solves_the_system : forall rest b r c, piv b c rest ->
  exists d0 tl, sweep_R b r c rest = d0 :: tl /\ b * d0 + c * hd 0 tl = r /\ rowsys c d0 rest tl.
Proof. exact sweep_ok. Qed.
Print Assumptions C11_thomas_solves_the_system.

(* on a strictly increasing table no pivot of the system assembled by buildInterpolation vanishes (every eliminated pivot
   stays above its row's upper-diagonal entry), so CubicSplineNullPivot cannot be raised in exact arithmetic *)
Theorem C11_no_null_pivot : forall (rest : list pt) (ho uo x0 y0 b' : R), increasing ((x0, y0) :: rest) -> 0 <= ho -> (rest = [] -> 0 < ho) ->
  match rows_R ho uo x0 y0 rest with
  | r0 :: rs => b' >= fst (fst r0) - ho -> piv b' (snd (fst r0)) rs
  | [] => False
  end.
Proof. exact rows_piv. Qed.
Print Assumptions C11_no_null_pivot.

(* setCollocationPoints on any strictly increasing table: abscissae and values are kept and the nodal derivatives make the
   second derivative of the local cubics continuous at every inner node and zero at both ends (natural spline) *)
Theorem C11_spline_is_C2_and_natural : forall tab : list pt, increasing tab ->
  map fst (build_R tab) = tab /\ natural_c2 (build_R tab).
Proof. exact build_natural. Qed.
Print Assumptions C11_spline_is_C2_and_natural.

(* evaluation: on (x_p, x_q] the local cubic of the piece [p, q]; extrapolation policy on both sides *)
Theorem C11_spline_piece_selection : forall e p0 l1 q l2 x, (forall r, In r (p0 :: l1) -> X r < x) -> x <= X q ->
  spl_R e (p0 :: l1 ++ q :: l2) x = Some (cub (last l1 p0) q x).
Proof. exact spl_piece. Qed.
Print Assumptions C11_spline_piece_selection.

Theorem C11_spline_left_of_table : forall e p0 p1 rest x, x <= X p0 ->
  spl_R e (p0 :: p1 :: rest) x = Some (if e then (Tan p0 x, D p0, 0) else (Y p0, 0, 0)).
Proof. exact spl_left. Qed.
Print Assumptions C11_spline_left_of_table.

Theorem C11_spline_right_of_table : forall e p0 p1 rest x, (forall r, In r (p0 :: p1 :: rest) -> X r < x) ->
  spl_R e (p0 :: p1 :: rest) x = Some (if e then (Tan (last (p1 :: rest) p0) x, D (last (p1 :: rest) p0), 0)
                                        else (Y (last (p1 :: rest) p0), 0, 0)).
Proof. exact spl_right. Qed.
Print Assumptions C11_spline_right_of_table.

(* node reproduction at every node, value and first derivative; the piece to the right of a node starts with the same value
   and derivative (C1) *)
Theorem C11_spline_node_reproduction : forall e p0 l1 q l2, (forall r, In r (p0 :: l1) -> X r < X q) ->
  (exists s2, spl_R e (p0 :: l1 ++ q :: l2) (X q) = Some (Y q, D q, s2)) /\
  spl_R true (p0 :: l1 ++ q :: l2) (X p0) = Some (Y p0, D p0, 0) /\ spl_R false (p0 :: l1 ++ q :: l2) (X p0) = Some (Y p0, 0, 0).
Proof.
  intros e p0 l1 q l2 H. split; [apply spl_other_node; exact H|].
  destruct l1; apply spl_first_node.
Qed.
Print Assumptions C11_spline_node_reproduction.

Theorem C11_spline_C1_at_nodes : forall q r, X q <> X r ->
  fst (fst (cub q r (X q))) = Y q /\ snd (fst (cub q r (X q))) = D q.
Proof. exact spl_right_piece_starts_at_node. Qed.
Print Assumptions C11_spline_C1_at_nodes.

(* ---- computeIntegral: difference of one function of the bound (any bounds, any order) ... *)
Theorem C11_integral_is_a_difference : forall p0 p1 rest a b,
  integ_R (p0 :: p1 :: rest) a b = Some (Fglob (p0 :: p1 :: rest) b - Fglob (p0 :: p1 :: rest) a).
Proof. exact integ_F. Qed.
Print Assumptions C11_integral_is_a_difference.

Theorem C11_integral_additive : forall pts a b c, pts <> [] -> oplus (integ_R pts a b) (integ_R pts b c) = integ_R pts a c.
Proof. exact integ_additive. Qed.
Print Assumptions C11_integral_additive.

Theorem C11_integral_antisymmetric : forall pts a b, pts <> [] -> oplus (integ_R pts a b) (integ_R pts b a) = Some 0.
Proof. exact integ_antisym. Qed.
Print Assumptions C11_integral_antisymmetric.

Theorem C11_mean_value : forall pts a b,
  mean_R pts a b = match integ_R pts a b with Some v => Some (v / (b - a)) | None => None end.
Proof. exact mean_is_integral_over_length. Qed.
Print Assumptions C11_mean_value.

(* ... which is the Riemann integral of what is evaluated there when both bounds lie in one piece / left / right of the table *)
Theorem C11_integral_within_a_piece : forall p0 l1 q l2 a b, (forall r, In r (p0 :: l1) -> X r < a) -> a <= b -> b <= X q ->
  X (last l1 p0) <> X q ->
  exists v, integ_R (p0 :: l1 ++ q :: l2) a b = Some v /\ is_RInt (Sloc (last l1 p0) q) a b v.
Proof. exact integ_same_piece. Qed.
Print Assumptions C11_integral_within_a_piece.

Theorem C11_integral_left_of_table : forall p0 p1 rest a b, a <= b -> b <= X p0 ->
  exists v, integ_R (p0 :: p1 :: rest) a b = Some v /\ is_RInt (Tan p0) a b v.
Proof. exact integ_left_of_table. Qed.
Print Assumptions C11_integral_left_of_table.

Theorem C11_integral_right_of_table : forall p0 p1 rest a b, (forall r, In r (p0 :: p1 :: rest) -> X r < a) -> a <= b ->
  exists v, integ_R (p0 :: p1 :: rest) a b = Some v /\ is_RInt (Tan (last (p1 :: rest) p0)) a b v.
Proof. exact integ_right_of_table. Qed.
Print Assumptions C11_integral_right_of_table.

(* computeIntegral(a, b), bounds in any order and anywhere, is the Riemann integral over [a, b] of the function computed by
   getValue (spline inside the table, end tangents outside), for every table of collocation points with strictly
   increasing abscissae, in particular (second theorem) for the points built by setCollocationPoints *)
Theorem C11_integral_is_the_integral_of_the_interpolant : forall p0 p1 rest a b, sorted3 (p0 :: p1 :: rest) ->
  exists v, integ_R (p0 :: p1 :: rest) a b = Some v /\ is_RInt (Sfun (p0 :: p1 :: rest)) a b v.
Proof. exact integ_is_RInt. Qed.
Print Assumptions C11_integral_is_the_integral_of_the_interpolant.

Theorem C11_integral_end_to_end : forall (t : list pt) a b, increasing t -> t <> [] ->
  exists v, integ_R (build_R t) a b = Some v /\ is_RInt (Sfun (build_R t)) a b v.
Proof. exact integ_build_is_RInt. Qed.
Print Assumptions C11_integral_end_to_end.

(* ---- the piece search as written in the C++ (bisection internals::lower_bound): on sorted abscissae it returns the number
   of abscissae below x ... *)
Theorem C11_lower_bound_bisection : forall xs x, sortedx xs ->
  (lower_bound_R xs x <= length xs)%nat /\
  (forall j, (j < lower_bound_R xs x)%nat -> nth j xs 0 < x) /\
  (forall j, (lower_bound_R xs x <= j < length xs)%nat -> x <= nth j xs 0).
Proof. exact lower_bound_spec. Qed.
Print Assumptions C11_lower_bound_bisection.

(* ... so that the evaluation written through that index (the executed model, spl_bs) is the evaluation by linear scan
   (spl) of the theorems above *)
Theorem C11_spline_eval_through_bisection : forall e pts x, sorted3 pts -> spl_bs_R e pts x = spl_R e pts x.
Proof. exact spl_bs_eq. Qed.
Print Assumptions C11_spline_eval_through_bisection.

(* C11 -- specification, independent of the code.  A table is a list of (abscissa, value) with strictly increasing
   abscissae; the linear interpolant is, on each interval [x_i, x_i+1], the chord through the two end points. *)
From Coq Require Import Reals List Lra.
Import ListNotations.
Local Open Scope R_scope.

Definition pt := (R * R)%type.
Fixpoint lt_all (x : R) (l : list pt) : Prop :=
  match l with [] => True | p :: r => x < fst p /\ lt_all x r end.
(* strictly increasing abscissae (every abscissa is below all the later ones) *)
Fixpoint increasing (l : list pt) : Prop :=
  match l with [] => True | p :: r => lt_all (fst p) r /\ increasing r end.
(* the usual adjacent formulation is equivalent (proved in C11Proofs.v) *)
Fixpoint adjacent_increasing (l : list pt) : Prop :=
  match l with
  | [] => True
  | p :: r => match r with [] => True | q :: _ => fst p < fst q /\ adjacent_increasing r end
  end.

Definition slope (p0 p1 : pt) : R := (snd p1 - snd p0) / (fst p1 - fst p0).
Definition chord (p0 p1 : pt) (a : R) : R := snd p0 + slope p0 p1 * (a - fst p0).

(* natural cubic spline through (x_i, y_i) with nodal derivatives d_i: on [x_i, x_i+1] the cubic Hermite interpolant.
   Hermite conditions at the two ends of an interval: *)
Definition hermite_ok (S S' : R -> R) (xa ya da xb yb db : R) : Prop :=
  S xa = ya /\ S xb = yb /\ S' xa = da /\ S' xb = db.

(* C11 -- proofs about the cubic-spline model on whole tables (C11Model.v, real instance), in five parts:
   1. Thomas: solveTridiagonalLinearSystem solves the system, no pivot vanishes, the system is the natural-spline system;
   2. Integral: computeIntegral is a difference F(b) - F(a); pieces and extrapolated parts are Riemann integrals;
   3. Eval: which piece is evaluated, extrapolation policy, node reproduction, C1 at the nodes;
   4. Global: computeIntegral a b is the Riemann integral over [a, b] of the function computed by getValue;
   5. Bisect: internals::lower_bound (bisection) meets its specification; evaluation through its index = linear scan. *)
From Coquelicot Require Import Coquelicot.
From Coq Require Import Reals List Lra Lia Arith.
From C11 Require Import C11Model C11Spec C11Proofs.
Import ListNotations.
Local Open Scope R_scope.


(* ======================================================================== part: Thomas *)
(* C11 -- the tridiagonal solve of CubicSpline::buildInterpolation: Thomas algorithm is correct when no pivot vanishes, no
   pivot vanishes on a strictly increasing table, and the system is the natural-spline system (C2 + zero end curvature). *)

Definition row := (R * R * R)%type.     (* main diagonal, upper diagonal, right-hand side *)

(* pivots met by the forward elimination *)
Fixpoint piv (b c : R) (rest : list row) : Prop :=
  b <> 0 /\ match rest with
            | [] => True
            | r1 :: rest' => piv (fst (fst r1) - c / b * c) (snd (fst r1)) rest'
            end.
(* rows below the current one of a symmetric tridiagonal system: lo * dprev + b1 * d1 + c1 * d2 = r1, ... *)
Fixpoint rowsys (lo dprev : R) (rws : list row) (d : list R) : Prop :=
  match rws, d with
  | [], [] => True
  | r1 :: rws', d1 :: tl => lo * dprev + fst (fst r1) * d1 + snd (fst r1) * hd 0 tl = snd r1 /\ rowsys (snd (fst r1)) d1 rws' tl
  | _, _ => False
  end.

Lemma sweep_ok : forall rest b r c, piv b c rest ->
  exists d0 tl, sweep_R b r c rest = d0 :: tl /\ b * d0 + c * hd 0 tl = r /\ rowsys c d0 rest tl.
Proof.
  induction rest as [|[[b1 c1] r1] rest IH]; intros b r c Hp.
  - exists (r / b), []. destruct Hp as [Hb _]. repeat split; simpl; field; exact Hb.
  - destruct Hp as [Hb Hp]. cbn [fst snd] in Hp.
    destruct (IH (b1 - c / b * c) (r1 - c / b * r) c1 Hp) as [d1 [tl [Es [E1 Hs]]]].
    exists ((r - c * d1) / b), (d1 :: tl).
    assert (Esw : sweep_R b r c ((b1, c1, r1) :: rest) = (r - c * d1) / b :: d1 :: tl).
    { unfold sweep_R in *. cbn [sweep fst snd]. rewrite Es. reflexivity. }
    split; [exact Esw|]. cbn [hd rowsys fst snd].
    assert (E0 : b * ((r - c * d1) / b) = r - c * d1) by (field; exact Hb).
    split; [lra|]. split; [|exact Hs].
    replace (c * ((r - c * d1) / b)) with (c / b * (b * ((r - c * d1) / b))) by (field; exact Hb).
    rewrite E0. set (m := c / b) in *. nra.
Qed.

(* ---- the rows assembled by buildInterpolation on a strictly increasing table: no pivot vanishes (diagonal dominance) *)
Lemma rows_R_nil ho uo x0 y0 : rows_R ho uo x0 y0 [] = [(2 * ho, 0, uo)].
Proof. reflexivity. Qed.
Lemma rows_R_cons ho uo x0 y0 x1 y1 rest : rows_R ho uo x0 y0 ((x1, y1) :: rest) =
  (2 * (1 / (x1 - x0) + ho), 1 / (x1 - x0), 3 * (1 / (x1 - x0)) * (1 / (x1 - x0)) * (y1 - y0) + uo)
    :: rows_R (1 / (x1 - x0)) (3 * (1 / (x1 - x0)) * (1 / (x1 - x0)) * (y1 - y0)) x1 y1 rest.
Proof. reflexivity. Qed.

Lemma rows_piv : forall (rest : list pt) (ho uo x0 y0 b' : R), increasing ((x0, y0) :: rest) -> 0 <= ho -> (rest = [] -> 0 < ho) ->
  match rows_R ho uo x0 y0 rest with
  | r0 :: rs => b' >= fst (fst r0) - ho -> piv b' (snd (fst r0)) rs
  | [] => False
  end.
Proof.
  induction rest as [|[x1 y1] rest IH]; intros ho uo x0 y0 b' Hinc Hho Hne.
  - rewrite rows_R_nil. cbn [fst snd]. intros Hb. specialize (Hne eq_refl). cbn [piv]. split; [lra|exact I].
  - rewrite rows_R_cons. cbn [fst snd]. intros Hb.
    destruct Hinc as [[Hx _] Hinc]. cbn [fst] in Hx.
    set (hn := 1 / (x1 - x0)) in *.
    assert (Hhn : 0 < hn) by (unfold hn; apply Rdiv_lt_0_compat; lra).
    assert (Hb' : b' >= 2 * hn + ho) by lra.
    set (un := 3 * hn * hn * (y1 - y0)).
    assert (Hm : hn / b' * hn <= hn).
    { unfold Rdiv. rewrite Rmult_assoc. rewrite <- (Rmult_1_r hn) at 3. apply Rmult_le_compat_l; [lra|].
      apply Rmult_le_reg_l with b'; [lra|]. field_simplify; lra. }
    pose proof (fun b'' => IH hn un x1 y1 b'' Hinc ltac:(lra) ltac:(intros _; exact Hhn)) as IH'.
    destruct (rows_R hn un x1 y1 rest) as [|r1 rs] eqn:E; [destruct (IH' 0)|].
    cbn [piv]. split; [lra|]. apply IH'. lra.
Qed.

(* ---- the system is the natural-spline system: continuity of the second derivative of the local cubics at the inner
   nodes, zero second derivative at both ends *)
Notation pt3R := (pt3 R).
Definition X (p : pt3R) : R := fst (fst p).
(* second derivative returned by the local cubic on the piece [pa, pb] (CubicSpline::getValues) *)
Definition d2 (pa pb : pt3R) (x : R) : R :=
  snd (cubic_R (fst (fst pa)) (snd (fst pa)) (snd pa) (fst (fst pb)) (snd (fst pb)) (snd pb) x).
Fixpoint c2_chain (pa pb : pt3R) (rest : list pt3R) : Prop :=
  match rest with
  | [] => d2 pa pb (X pb) = 0
  | pc :: rest' => d2 pa pb (X pb) = d2 pb pc (X pb) /\ c2_chain pb pc rest'
  end.
Definition natural_c2 (pts : list pt3R) : Prop :=
  match pts with
  | pa :: pb :: rest => d2 pa pb (X pa) = 0 /\ c2_chain pa pb rest
  | _ => True
  end.

Lemma d2_left xa ya da xb yb db : xa <> xb ->
  d2 (xa, ya, da) (xb, yb, db) xa =
  2 * (3 * (1 / (xb - xa)) * (1 / (xb - xa)) * (yb - ya) - 1 / (xb - xa) * db - 2 * (1 / (xb - xa)) * da).
Proof. intros H. unfold d2, cubic_R, cubic, coeffs, k; cbn [fst snd]. field. lra. Qed.
Lemma d2_right xa ya da xb yb db : xa <> xb ->
  d2 (xa, ya, da) (xb, yb, db) xb =
  - 2 * (3 * (1 / (xb - xa)) * (1 / (xb - xa)) * (yb - ya)) + 4 * (1 / (xb - xa)) * db + 2 * (1 / (xb - xa)) * da.
Proof. intros H. unfold d2, cubic_R, cubic, coeffs, k; cbn [fst snd]. field. lra. Qed.

Lemma rowsys_length : forall rws lo dp d, rowsys lo dp rws d -> length d = length rws.
Proof.
  induction rws as [|r1 rws IH]; intros lo dp [|d1 tl] H; simpl in H; try tauto.
  destruct H as [_ H]. simpl. f_equal. exact (IH _ _ _ H).
Qed.
Lemma rows_R_length : forall rest ho uo x0 y0, length (rows_R ho uo x0 y0 rest) = S (length rest).
Proof.
  induction rest as [|[x1 y1] rest IH]; intros; [reflexivity|]. rewrite rows_R_cons. simpl. f_equal. apply IH.
Qed.

Lemma rowsys_rows_nil lo dp ho uo x0 y0 (rest : list pt) : rowsys lo dp (rows_R ho uo x0 y0 rest) [] -> False.
Proof. destruct rest as [|[x1 y1] rest]; [rewrite rows_R_nil|rewrite rows_R_cons]; simpl; tauto. Qed.

Lemma rows_c2 : forall (rest : list pt) xm ym dm x0 y0 d0 dl, xm < x0 -> increasing ((x0, y0) :: rest) ->
  rowsys (1 / (x0 - xm)) dm (rows_R (1 / (x0 - xm)) (3 * (1 / (x0 - xm)) * (1 / (x0 - xm)) * (y0 - ym)) x0 y0 rest) (d0 :: dl) ->
  c2_chain (xm, ym, dm) (x0, y0, d0) (combine rest dl).
Proof.
  induction rest as [|[x1 y1] rest IH]; intros xm ym dm x0 y0 d0 dl Hx Hinc Hs.
  - rewrite rows_R_nil in Hs. destruct dl; [|simpl in Hs; tauto]. simpl in Hs. destruct Hs as [Hs _].
    simpl. unfold X. cbn [fst snd]. rewrite d2_right by lra. lra.
  - rewrite rows_R_cons in Hs. destruct Hinc as [[Hx1 _] Hinc]. cbn [fst] in Hx1.
    destruct dl as [|d1 dl]; [cbn [rowsys] in Hs; destruct Hs as [_ Hs]; destruct (rowsys_rows_nil _ _ _ _ _ _ _ Hs)|].
    cbn [rowsys fst snd hd] in Hs. destruct Hs as [Hs Hrest].
    cbn [combine c2_chain]. split.
    + unfold X. cbn [fst snd]. rewrite d2_right, d2_left by lra. lra.
    + apply IH; [lra|exact Hinc|exact Hrest].
Qed.

(* setCollocationPoints on a strictly increasing table: one collocation point per tabulated point, same abscissae and values,
   nodal derivatives such that the piecewise cubic has a continuous second derivative that vanishes at both ends *)
Theorem build_natural (tab : list pt) : increasing tab ->
  map fst (build_R tab) = tab /\ natural_c2 (build_R tab).
Proof.
  intros Hinc. destruct tab as [|[x0 y0] [|[x1 y1] rest]]; [split; reflexivity|split; reflexivity|].
  unfold build_R, build. change (derivs R Rplus Rminus Rmult Rdiv IZR ((x0, y0) :: (x1, y1) :: rest))
    with (match rows_R 0 0 x0 y0 ((x1, y1) :: rest) with
          | row0 :: rs => sweep_R (fst (fst row0)) (snd row0) (snd (fst row0)) rs
          | [] => [] end).
  pose proof (rows_piv ((x1, y1) :: rest) 0 0 x0 y0) as Hp.
  rewrite rows_R_cons in *. cbn [fst snd] in *.
  pose proof Hinc as Hinc0.
  destruct Hinc as [[Hx _] Hinc]. cbn [fst] in Hx.
  specialize (Hp (2 * (1 / (x1 - x0) + 0)) Hinc0 ltac:(lra) ltac:(discriminate) ltac:(lra)).
  destruct (sweep_ok _ _ (3 * (1 / (x1 - x0)) * (1 / (x1 - x0)) * (y1 - y0) + 0) _ Hp) as [d0 [tl [Es [E0 Hs]]]].
  rewrite Es.
  destruct tl as [|d1 dl]; [destruct (rowsys_rows_nil _ _ _ _ _ _ _ Hs)|].
  cbn [hd] in E0.
  assert (Hlen : length (d1 :: dl) = S (length rest)) by (rewrite (rowsys_length _ _ _ _ Hs); apply rows_R_length).
  split.
  - cbn [combine map fst]. f_equal. f_equal. simpl in Hlen. injection Hlen as Hlen. clear - Hlen.
    revert dl Hlen. induction rest as [|p rest IH]; intros [|d dl] Hl; simpl in *; try discriminate; [reflexivity|].
    f_equal. apply IH. lia.
  - cbn [combine natural_c2]. split.
    + unfold X. cbn [fst snd]. rewrite d2_left by lra. lra.
    + apply (rows_c2 rest x0 y0 d0 x1 y1 d1 dl Hx Hinc). exact Hs.
Qed.


(* ======================================================================== part: Integral *)
(* C11 -- CubicSpline::computeIntegral is the difference of one global antiderivative-like function F (hence additive and
   antisymmetric); on each piece F increases by the Riemann integral of the local cubic, outside the table by the
   integral of the end tangent. *)

Definition Y (p : pt3R) : R := snd (fst p).
Definition D (p : pt3R) : R := snd p.
(* F: 0 at the first abscissa; to the left of it the primitive of the tangent at the first point; then piece after piece *)
Definition Fglob (pts : list pt3R) (x : R) : R :=
  match pts with
  | [] => 0
  | p0 :: rest => if Rleb x (X p0) then Y p0 * (x - X p0) + / 2 * D p0 * ((x - X p0) * (x - X p0))
                  else tailsum_R x p0 rest
  end.

Lemma half_R : half R Rdiv IZR = / 2.
Proof. unfold half. lra. Qed.

Lemma lint_split pa pb a b c : lint_R pa pb a b + lint_R pa pb b c = lint_R pa pb a c.
Proof.
  unfold lint_R, lint, local_int. generalize (coeffs R Rplus Rminus Rmult Rdiv IZR (px R pa) (py R pa) (pd R pa) (px R pb) (py R pb) (pd R pb)).
  intros cf. unfold k. field.
Qed.
Lemma lint_same pa pb a : lint_R pa pb a a = 0.
Proof.
  unfold lint_R, lint, local_int. generalize (coeffs R Rplus Rminus Rmult Rdiv IZR (px R pa) (py R pa) (pd R pa) (px R pb) (py R pb) (pd R pb)).
  intros cf. unfold k. field.
Qed.

Lemma tailsum_R_nil x p : tailsum_R x p [] = Y p * (x - X p) + / 2 * D p * ((x - X p) * (x - X p)).
Proof. unfold tailsum_R. cbn [tailsum]. rewrite half_R. reflexivity. Qed.
Lemma tailsum_R_cons x p q rest : tailsum_R x p (q :: rest) =
  if Rleb x (X q) then lint_R p q (X p) x else lint_R p q (X p) (X q) + tailsum_R x q rest.
Proof. reflexivity. Qed.
Lemma walk_R_nil a b p : walk_R a b p [] = Y p * (b - a) + / 2 * D p * ((b - X p) * (b - X p) - (a - X p) * (a - X p)).
Proof. unfold walk_R. cbn [walk]. unfold extint. rewrite half_R. reflexivity. Qed.
Lemma walk_R_cons a b p q rest : walk_R a b p (q :: rest) =
  if Rleb a (X q) then (if Rleb b (X q) then lint_R p q a b else lint_R p q a (X q) + tailsum_R b q rest)
  else walk_R a b q rest.
Proof. reflexivity. Qed.

(* the walk from xa is the difference of the sums from the node p *)
Lemma walk_tailsum : forall rest p a b, a <= b -> walk_R a b p rest = tailsum_R b p rest - tailsum_R a p rest.
Proof.
  induction rest as [|q rest IH]; intros p a b Hab.
  - rewrite walk_R_nil, !tailsum_R_nil. field.
  - rewrite walk_R_cons, !tailsum_R_cons.
    destruct (Rleb a (X q)) eqn:Ea.
    + destruct (Rleb b (X q)) eqn:Eb.
      * rewrite <- (lint_split p q (X p) a b). ring.
      * rewrite <- (lint_split p q (X p) a (X q)). ring.
    + apply Rleb_false in Ea. assert (Eb : Rleb b (X q) = false) by (apply Rleb_false; lra).
      rewrite Eb, (IH q a b Hab). ring.
Qed.

Lemma integ0_F pts a b : a <= b -> integ0_R pts a b = Fglob pts b - Fglob pts a.
Proof.
  intros Hab. destruct pts as [|p0 rest]; [simpl; unfold integ0_R; simpl; lra|].
  unfold integ0_R, Fglob. cbn [integ0].
  change (px R p0) with (X p0). change (py R p0) with (Y p0). change (pd R p0) with (D p0).
  change (tailsum R Rplus Rminus Rmult Rdiv Rleb IZR b p0 rest) with (tailsum_R b p0 rest).
  change (walk R Rplus Rminus Rmult Rdiv Rleb IZR a b p0 rest) with (walk_R a b p0 rest).
  destruct (Rleb a (X p0)) eqn:Ea.
  - destruct (Rleb b (X p0)) eqn:Eb.
    + unfold extint. rewrite half_R. change (px R p0) with (X p0). change (py R p0) with (Y p0). change (pd R p0) with (D p0). field.
    + rewrite half_R. field.
  - apply Rleb_false in Ea. assert (Eb : Rleb b (X p0) = false) by (apply Rleb_false; lra).
    rewrite Eb. apply walk_tailsum. exact Hab.
Qed.

(* computeIntegral on a table of at least two points, any bounds in any order *)
Theorem integ_F p0 p1 rest a b : integ_R (p0 :: p1 :: rest) a b = Some (Fglob (p0 :: p1 :: rest) b - Fglob (p0 :: p1 :: rest) a).
Proof.
  unfold integ_R. cbn [integ]. f_equal.
  change (integ0 R Rplus Rminus Rmult Rdiv Rleb IZR) with integ0_R.
  destruct (Rleb a b) eqn:E.
  - apply Rleb_true in E. apply integ0_F. exact E.
  - apply Rleb_false in E. rewrite integ0_F by lra. unfold k. ring.
Qed.
Theorem integ_single p a b : integ_R [p] a b = Some (Y p * (b - a)).
Proof. reflexivity. Qed.

Definition oplus (u v : option R) : option R := match u, v with Some x, Some y => Some (x + y) | _, _ => None end.
Theorem integ_additive pts a b c : pts <> [] -> oplus (integ_R pts a b) (integ_R pts b c) = integ_R pts a c.
Proof.
  intros Hne. destruct pts as [|p0 [|p1 rest]]; [tauto| |].
  - rewrite !integ_single. simpl. f_equal. ring.
  - rewrite !integ_F. simpl. f_equal. ring.
Qed.
Theorem integ_antisym pts a b : pts <> [] -> oplus (integ_R pts a b) (integ_R pts b a) = Some 0.
Proof.
  intros Hne. destruct pts as [|p0 [|p1 rest]]; [tauto| |].
  - rewrite !integ_single. simpl. f_equal. ring.
  - rewrite !integ_F. simpl. f_equal. ring.
Qed.
Theorem mean_is_integral_over_length pts a b : mean_R pts a b = match integ_R pts a b with Some v => Some (v / (b - a)) | None => None end.
Proof. reflexivity. Qed.

(* what the difference of F is, piece by piece *)
(* ... both bounds in the same piece (x_p, x_q] (p the point before q): the Riemann integral of the local cubic ... *)
Lemma last_cons' {A} (q : A) l d : last (q :: l) d = last l q.
Proof.
  revert q d. induction l as [|r l IH]; intros q d; [reflexivity|].
  change (last (q :: r :: l) d) with (last (r :: l) d). rewrite (IH r d), (IH r q). reflexivity.
Qed.
Lemma walk_piece a b (q : pt3R) l2 : forall l1 p0, (forall r, In r l1 -> X r < a) -> a <= X q -> b <= X q ->
  walk_R a b p0 (l1 ++ q :: l2) = lint_R (last l1 p0) q a b.
Proof.
  induction l1 as [|r l1 IH]; intros p0 Hlt Ha Hb.
  - cbn [app last]. rewrite walk_R_cons. apply Rleb_true in Ha, Hb. rewrite Ha, Hb. reflexivity.
  - rewrite <- app_comm_cons, walk_R_cons, last_cons'.
    assert (E : Rleb a (X r) = false) by (apply Rleb_false, Hlt; left; reflexivity). rewrite E.
    apply IH; [intros r' Hr'; apply Hlt; right; exact Hr'|exact Ha|exact Hb].
Qed.
Lemma walk_end a b : forall l p0, (forall r, In r l -> X r < a) -> walk_R a b p0 l = extint_R (last l p0) a b.
Proof.
  induction l as [|r l IH]; intros p0 Hlt; [reflexivity|].
  rewrite walk_R_cons, last_cons'.
  assert (E : Rleb a (X r) = false) by (apply Rleb_false, Hlt; left; reflexivity). rewrite E.
  apply IH. intros r' Hr'. apply Hlt. right. exact Hr'.
Qed.

Definition Sloc (pa pb : pt3R) (x : R) : R := fst (fst (cubic_R (X pa) (Y pa) (D pa) (X pb) (Y pb) (D pb) x)).
Definition Tan (p : pt3R) (x : R) : R := Y p + (x - X p) * D p.

Lemma extint_RInt p a b : is_RInt (Tan p) a b (extint_R p a b).
Proof.
  replace (extint_R p a b) with ((fun t => Y p * (t - X p) + / 2 * D p * ((t - X p) * (t - X p))) b -
                                 (fun t => Y p * (t - X p) + / 2 * D p * ((t - X p) * (t - X p))) a).
  2:{ unfold extint_R, extint. rewrite half_R. change (px R p) with (X p). change (py R p) with (Y p). change (pd R p) with (D p). field. }
  apply (is_RInt_derive (fun t => Y p * (t - X p) + / 2 * D p * ((t - X p) * (t - X p))) (Tan p)).
  - intros x _. unfold Tan. auto_derive; [exact I|field].
  - intros x _. unfold Tan. apply (ex_derive_continuous (fun x => Y p + (x - X p) * D p)). auto_derive. exact I.
Qed.

Theorem integ_same_piece p0 l1 q l2 a b : (forall r, In r (p0 :: l1) -> X r < a) -> a <= b -> b <= X q -> X (last l1 p0) <> X q ->
  exists v, integ_R (p0 :: l1 ++ q :: l2) a b = Some v /\ is_RInt (Sloc (last l1 p0) q) a b v.
Proof.
  intros Hlt Hab Hb Hne. exists (lint_R (last l1 p0) q a b). split.
  - destruct (l1 ++ q :: l2) as [|p1 r] eqn:El; [destruct l1; discriminate|].
    unfold integ_R. cbn [integ]. f_equal.
    assert (E : Rleb a b = true) by (apply Rleb_true; exact Hab). rewrite E.
    cbn [integ0]. change (px R p0) with (X p0).
    assert (E0 : Rleb a (X p0) = false) by (apply Rleb_false, Hlt; left; reflexivity). rewrite E0.
    change (walk R Rplus Rminus Rmult Rdiv Rleb IZR a b p0 (p1 :: r)) with (walk_R a b p0 (p1 :: r)).
    rewrite <- El. apply walk_piece; [intros r' Hr'; apply Hlt; right; exact Hr'|lra|exact Hb].
  - unfold lint_R, lint, Sloc. apply (spline_local_integral_is_RInt _ _ _ _ _ _ Hne).
Qed.
Theorem integ_left_of_table p0 p1 rest a b : a <= b -> b <= X p0 ->
  exists v, integ_R (p0 :: p1 :: rest) a b = Some v /\ is_RInt (Tan p0) a b v.
Proof.
  intros Hab Hb. exists (extint_R p0 a b). split; [|apply extint_RInt].
  unfold integ_R. cbn [integ integ0]. f_equal. change (px R p0) with (X p0).
  assert (E : Rleb a b = true) by (apply Rleb_true; exact Hab).
  assert (E0 : Rleb a (X p0) = true) by (apply Rleb_true; lra).
  assert (E1 : Rleb b (X p0) = true) by (apply Rleb_true; lra). rewrite E, E0, E1. reflexivity.
Qed.
Theorem integ_right_of_table p0 p1 rest a b : (forall r, In r (p0 :: p1 :: rest) -> X r < a) -> a <= b ->
  exists v, integ_R (p0 :: p1 :: rest) a b = Some v /\ is_RInt (Tan (last (p1 :: rest) p0)) a b v.
Proof.
  intros Hlt Hab. exists (extint_R (last (p1 :: rest) p0) a b). split; [|apply extint_RInt].
  unfold integ_R. cbn [integ integ0]. f_equal. change (px R p0) with (X p0).
  assert (E : Rleb a b = true) by (apply Rleb_true; exact Hab).
  assert (E0 : Rleb a (X p0) = false) by (apply Rleb_false, Hlt; left; reflexivity). rewrite E, E0.
  change (walk R Rplus Rminus Rmult Rdiv Rleb IZR a b p0 (p1 :: rest)) with (walk_R a b p0 (p1 :: rest)).
  apply walk_end. intros r Hr. apply Hlt. right. exact Hr.
Qed.


(* ======================================================================== part: SplineEval *)
(* C11 -- evaluation of the spline on a whole table: which piece is used, extrapolation policy, node reproduction and
   continuity of value and first derivative at every node. *)

Definition cub (pa pb : pt3R) (x : R) : R * R * R := cubic_R (X pa) (Y pa) (D pa) (X pb) (Y pb) (D pb) x.

Lemma sfind_spec x (q : pt3R) l2 : forall l1 p0, (forall r, In r l1 -> X r < x) -> x <= X q ->
  sfind_R x p0 (l1 ++ q :: l2) = (last l1 p0, Some q).
Proof.
  induction l1 as [|r l1 IH]; intros p0 Hlt Hq.
  - unfold sfind_R. cbn [app sfind last]. change (px R q) with (X q). apply Rleb_true in Hq. rewrite Hq. reflexivity.
  - rewrite <- app_comm_cons, last_cons'. unfold sfind_R in *. cbn [sfind]. change (px R r) with (X r).
    assert (E : Rleb x (X r) = false) by (apply Rleb_false, Hlt; left; reflexivity). rewrite E.
    apply IH; [intros r' Hr'; apply Hlt; right; exact Hr'|exact Hq].
Qed.
Lemma sfind_end x : forall l p0, (forall r, In r l -> X r < x) -> sfind_R x p0 l = (last l p0, None).
Proof.
  induction l as [|r l IH]; intros p0 Hlt; [reflexivity|].
  rewrite last_cons'. unfold sfind_R in *. cbn [sfind]. change (px R r) with (X r).
  assert (E : Rleb x (X r) = false) by (apply Rleb_false, Hlt; left; reflexivity). rewrite E.
  apply IH. intros r' Hr'. apply Hlt. right. exact Hr'.
Qed.

(* on (x_p, x_q] (p the point before q) the local cubic of that piece: value, first and second derivative *)
Theorem spl_piece e p0 l1 q l2 x : (forall r, In r (p0 :: l1) -> X r < x) -> x <= X q ->
  spl_R e (p0 :: l1 ++ q :: l2) x = Some (cub (last l1 p0) q x).
Proof.
  intros Hlt Hq. destruct (l1 ++ q :: l2) as [|p1 r] eqn:El; [destruct l1; discriminate|].
  unfold spl_R. cbn [spl]. change (px R p0) with (X p0).
  assert (E0 : Rleb x (X p0) = false) by (apply Rleb_false, Hlt; left; reflexivity). rewrite E0.
  change (sfind R Rleb x p0 (p1 :: r)) with (sfind_R x p0 (p1 :: r)). rewrite <- El.
  rewrite sfind_spec by (try exact Hq; intros r' Hr'; apply Hlt; right; exact Hr'). reflexivity.
Qed.
(* left of the table and at the first node: the tangent at the first point, or the first value *)
Theorem spl_left e p0 p1 rest x : x <= X p0 ->
  spl_R e (p0 :: p1 :: rest) x = Some (if e then (Tan p0 x, D p0, 0) else (Y p0, 0, 0)).
Proof.
  intros H. unfold spl_R. cbn [spl]. change (px R p0) with (X p0). apply Rleb_true in H. rewrite H.
  destruct e; reflexivity.
Qed.
(* right of the table: the tangent at the last point, or the last value *)
Theorem spl_right e p0 p1 rest x : (forall r, In r (p0 :: p1 :: rest) -> X r < x) ->
  spl_R e (p0 :: p1 :: rest) x = Some (if e then (Tan (last (p1 :: rest) p0) x, D (last (p1 :: rest) p0), 0)
                                        else (Y (last (p1 :: rest) p0), 0, 0)).
Proof.
  intros Hlt. unfold spl_R. cbn [spl]. change (px R p0) with (X p0).
  assert (E0 : Rleb x (X p0) = false) by (apply Rleb_false, Hlt; left; reflexivity). rewrite E0.
  change (sfind R Rleb x p0 (p1 :: rest)) with (sfind_R x p0 (p1 :: rest)).
  rewrite sfind_end by (intros r Hr; apply Hlt; right; exact Hr).
  destruct e; reflexivity.
Qed.
Theorem spl_single e p x : spl_R e [p] x = Some (Y p, 0, 0).
Proof. reflexivity. Qed.

(* node reproduction on the whole table, whatever the nodal derivatives: value and derivative at the first node ... *)
Theorem spl_first_node p0 p1 rest : spl_R true (p0 :: p1 :: rest) (X p0) = Some (Y p0, D p0, 0) /\
                                    spl_R false (p0 :: p1 :: rest) (X p0) = Some (Y p0, 0, 0).
Proof.
  split; rewrite spl_left by lra; [|reflexivity]. unfold Tan. f_equal. f_equal. f_equal. ring.
Qed.
(* ... and at any later node q, reached from the piece on its left; the piece on its right starts with the same value and
   derivative (C1 continuity at q) *)
Theorem spl_other_node e p0 l1 q l2 : (forall r, In r (p0 :: l1) -> X r < X q) ->
  exists s2, spl_R e (p0 :: l1 ++ q :: l2) (X q) = Some (Y q, D q, s2).
Proof.
  intros Hlt. rewrite spl_piece by (try lra; exact Hlt).
  assert (Hne : X (last l1 p0) <> X q).
  { assert (X (last l1 p0) < X q); [|lra]. destruct (@exists_last _ (p0 :: l1) ltac:(discriminate)) as [l' [z Ez]].
    assert (last l1 p0 = z).
    { rewrite <- (last_cons' p0 l1 p0), Ez. apply last_last. }
    subst z. apply Hlt. rewrite Ez. apply in_or_app. right. left. reflexivity. }
  destruct (spline_hermite (X (last l1 p0)) (Y (last l1 p0)) (D (last l1 p0)) (X q) (Y q) (D q) Hne) as [_ [Hv [_ Hd]]].
  unfold cub. destruct (cubic_R _ _ _ _ _ _ (X q)) as [[v d] s2]. cbn [fst snd] in Hv, Hd. subst. eexists. reflexivity.
Qed.
Theorem spl_right_piece_starts_at_node q r : X q <> X r ->
  fst (fst (cub q r (X q))) = Y q /\ snd (fst (cub q r (X q))) = D q.
Proof.
  intros Hne. destruct (spline_hermite (X q) (Y q) (D q) (X r) (Y r) (D r) Hne) as [Hv [_ [Hd _]]]. split; assumption.
Qed.


(* ======================================================================== part: IntegralGlobal *)
(* C11 -- computeIntegral a b is the Riemann integral over [a, b] (any order) of the function evaluated by
   getValue (spline inside, end tangents outside), on every table with strictly increasing abscissae. *)

(* the function computed by CubicSpline::getValue / operator() *)
Definition Sfun (pts : list pt3R) (x : R) : R :=
  match spl_R true pts x with Some v => fst (fst v) | None => 0 end.
(* strictly increasing abscissae *)
Definition sorted3 (pts : list pt3R) : Prop := increasing (map fst pts).

Lemma lt_all_in x l s : lt_all x l -> In s l -> x < fst s.
Proof. induction l as [|p l IH]; simpl; [tauto|]. intros [H1 H2] [<-|Hs]; [exact H1|auto]. Qed.
Lemma increasing_app_lt l1 : forall l2 r s, increasing (l1 ++ l2) -> In r l1 -> In s l2 -> fst r < fst s.
Proof.
  induction l1 as [|p l1 IH]; intros l2 r s H Hr Hs; [destruct Hr|].
  simpl in H. destruct H as [Hlt Hinc]. destruct Hr as [<-|Hr].
  - apply (lt_all_in _ _ _ Hlt). apply in_or_app. right. exact Hs.
  - apply (IH l2 r s Hinc Hr Hs).
Qed.
Lemma sorted3_lt pre post r s : sorted3 (pre ++ post) -> In r pre -> In s post -> X r < X s.
Proof.
  unfold sorted3. rewrite map_app. intros H Hr Hs.
  apply (increasing_app_lt (map fst pre) (map fst post) (fst r) (fst s) H); apply in_map; assumption.
Qed.

(* evaluation in "context" form *)
Lemma spl_piece' e pre p q l2 x : (forall r, In r (pre ++ [p]) -> X r < x) -> x <= X q ->
  spl_R e (pre ++ p :: q :: l2) x = Some (cub p q x).
Proof.
  intros Hlt Hq. destruct pre as [|p0 pre'].
  - apply (spl_piece e p [] q l2 x); [exact Hlt|exact Hq].
  - replace ((p0 :: pre') ++ p :: q :: l2) with (p0 :: (pre' ++ [p]) ++ q :: l2) by (simpl; rewrite <- app_assoc; reflexivity).
    rewrite (spl_piece e p0 (pre' ++ [p]) q l2 x); [rewrite last_last; reflexivity|exact Hlt|exact Hq].
Qed.
Lemma spl_after_last pre p x : (forall r, In r (pre ++ [p]) -> X r < x) -> (length (pre ++ [p]) >= 2)%nat ->
  spl_R true (pre ++ [p]) x = Some (Tan p x, D p, 0).
Proof.
  intros Hlt Hlen. destruct pre as [|p0 [|p1 pre']]; [simpl in Hlen; lia| |].
  - cbn [app] in *. rewrite (spl_right true p0 p [] x Hlt). reflexivity.
  - replace ((p0 :: p1 :: pre') ++ [p]) with (p0 :: p1 :: (pre' ++ [p])) in * by reflexivity.
    rewrite (spl_right true p0 p1 (pre' ++ [p]) x Hlt).
    replace (last (p1 :: pre' ++ [p]) p0) with p; [reflexivity|].
    change (p1 :: pre' ++ [p]) with ((p1 :: pre') ++ [p]). rewrite last_last. reflexivity.
Qed.

Section Global.
  Variable tab : list pt3R.
  Hypothesis Hs : sorted3 tab.
  Hypothesis Hlen : (length tab >= 2)%nat.

  (* from a node p up to x > x_p: the sum computed by tailsum is the Riemann integral of Sfun *)
  Lemma tailsum_RInt : forall rest pre p x, tab = pre ++ p :: rest -> X p <= x ->
    is_RInt (Sfun tab) (X p) x (tailsum_R x p rest).
  Proof.
    induction rest as [|q rest IH]; intros pre p x Et Hx.
    - rewrite tailsum_R_nil.
      replace (Y p * (x - X p) + / 2 * D p * ((x - X p) * (x - X p))) with (extint_R p (X p) x).
      2:{ unfold extint_R, extint. rewrite half_R. change (px R p) with (X p). change (py R p) with (Y p). change (pd R p) with (D p). field. }
      apply (is_RInt_ext (Tan p)); [|apply extint_RInt].
      intros t Ht. rewrite Rmin_left, Rmax_right in Ht by lra.
      unfold Sfun. rewrite Et, spl_after_last; [reflexivity| |rewrite <- Et; exact Hlen].
      intros r Hr. apply in_app_or in Hr. destruct Hr as [Hr|[<-|[]]]; [|lra].
      assert (X r < X p); [|lra]. rewrite Et in Hs. apply (sorted3_lt pre [p] r p Hs Hr). left. reflexivity.
    - rewrite tailsum_R_cons.
      assert (Hpq : X p < X q).
      { rewrite Et in Hs. replace (pre ++ p :: q :: rest) with ((pre ++ [p]) ++ q :: rest) in Hs by (rewrite <- app_assoc; reflexivity).
        apply (sorted3_lt (pre ++ [p]) (q :: rest) p q Hs); [apply in_or_app; right; left; reflexivity|left; reflexivity]. }
      assert (Hpiece : forall u, X p <= u -> u <= X q -> is_RInt (Sfun tab) (X p) u (lint_R p q (X p) u)).
      { intros u Hu1 Hu2. apply (is_RInt_ext (Sloc p q)).
        - intros t Ht. rewrite Rmin_left, Rmax_right in Ht by lra.
          unfold Sfun. rewrite Et, (spl_piece' true pre p q rest t); [reflexivity| |lra].
          intros r Hr. apply in_app_or in Hr. destruct Hr as [Hr|[<-|[]]]; [|lra].
          assert (X r < X p); [|lra]. rewrite Et in Hs.
          apply (sorted3_lt pre (p :: q :: rest) r p Hs Hr). left. reflexivity.
        - unfold lint_R, lint, Sloc. apply spline_local_integral_is_RInt. apply Rlt_not_eq. exact Hpq. }
      destruct (Rleb x (X q)) eqn:E.
      + apply Rleb_true in E. apply Hpiece; assumption.
      + apply Rleb_false in E.
        apply (is_RInt_Chasles (Sfun tab) (X p) (X q) x).
        * apply Hpiece; lra.
        * apply (IH (pre ++ [p]) q x); [rewrite <- app_assoc; exact Et|lra].
  Qed.
End Global.

(* F(x) is the integral of Sfun from the first abscissa to x, on either side *)
Lemma F_RInt p0 p1 rest x : sorted3 (p0 :: p1 :: rest) ->
  is_RInt (Sfun (p0 :: p1 :: rest)) (X p0) x (Fglob (p0 :: p1 :: rest) x).
Proof.
  intros Hs. unfold Fglob. destruct (Rleb x (X p0)) eqn:E.
  - apply Rleb_true in E.
    replace (Y p0 * (x - X p0) + / 2 * D p0 * ((x - X p0) * (x - X p0))) with (extint_R p0 (X p0) x).
    2:{ unfold extint_R, extint. rewrite half_R. change (px R p0) with (X p0). change (py R p0) with (Y p0). change (pd R p0) with (D p0). field. }
    apply (is_RInt_ext (Tan p0)); [|apply extint_RInt].
    intros t Ht. rewrite Rmin_right, Rmax_left in Ht by lra.
    unfold Sfun. rewrite spl_left by lra. reflexivity.
  - apply Rleb_false in E. apply (tailsum_RInt (p0 :: p1 :: rest) Hs ltac:(simpl; lia) (p1 :: rest) [] p0 x eq_refl). lra.
Qed.

(* computeIntegral(a, b), any order of the bounds, is the Riemann integral of the function computed by getValue *)
Theorem integ_is_RInt p0 p1 rest a b : sorted3 (p0 :: p1 :: rest) ->
  exists v, integ_R (p0 :: p1 :: rest) a b = Some v /\ is_RInt (Sfun (p0 :: p1 :: rest)) a b v.
Proof.
  intros Hs. rewrite integ_F. eexists; split; [reflexivity|].
  pose proof (is_RInt_swap _ _ _ _ (F_RInt p0 p1 rest a Hs)) as H1.
  pose proof (F_RInt p0 p1 rest b Hs) as H2.
  pose proof (is_RInt_Chasles _ _ _ _ _ _ H1 H2) as H3.
  assert (E : Fglob (p0 :: p1 :: rest) b - Fglob (p0 :: p1 :: rest) a =
              - Fglob (p0 :: p1 :: rest) a + Fglob (p0 :: p1 :: rest) b) by ring.
  change (is_RInt (Sfun (p0 :: p1 :: rest)) a b (Fglob (p0 :: p1 :: rest) b - Fglob (p0 :: p1 :: rest) a)).
  rewrite E. exact H3.
Qed.
(* a single point: the constant function *)
Theorem integ_is_RInt_single p a b : exists v, integ_R [p] a b = Some v /\ is_RInt (Sfun [p]) a b v.
Proof.
  exists (Y p * (b - a)). split; [reflexivity|].
  apply (is_RInt_ext (fun _ => Y p)); [intros; reflexivity|].
  replace (Y p * (b - a)) with (scal (b - a) (Y p)) by (unfold scal; simpl; unfold mult; simpl; ring).
  apply (@is_RInt_const R_CompleteNormedModule).
Qed.
(* the tables produced by setCollocationPoints from a strictly increasing table are sorted *)
Lemma build_sorted (t : list pt) : increasing t -> sorted3 (build_R t).
Proof. intros H. unfold sorted3. rewrite (proj1 (build_natural t H)). exact H. Qed.

(* end to end: setCollocationPoints on a strictly increasing table, then computeIntegral with any bounds *)
Theorem integ_build_is_RInt (t : list pt) a b : increasing t -> t <> [] ->
  exists v, integ_R (build_R t) a b = Some v /\ is_RInt (Sfun (build_R t)) a b v.
Proof.
  intros H Hne. pose proof (build_sorted t H) as Hs. pose proof (proj1 (build_natural t H)) as Em.
  destruct (build_R t) as [|q0 [|q1 r]] eqn:E.
  - exfalso. apply Hne. symmetry. exact Em.
  - apply integ_is_RInt_single.
  - apply integ_is_RInt. exact Hs.
Qed.


(* ======================================================================== part: Bisect *)
(* C11 -- the bisection internals::lower_bound meets its specification on sorted abscissae, hence the evaluation written
   with the returned index (as in the C++) is the evaluation by linear scan used in the other theorems. *)

Definition sortedx (xs : list R) : Prop := forall i j, (i < j < length xs)%nat -> nth i xs 0 < nth j xs 0.

Lemma lbound_spec : forall fuel xs x first len, sortedx xs -> (len < fuel)%nat -> (first + len <= length xs)%nat ->
  (forall j, (j < first)%nat -> nth j xs 0 < x) -> (forall j, (first + len <= j < length xs)%nat -> x <= nth j xs 0) ->
  (lbound_R fuel xs x first len <= length xs)%nat /\
  (forall j, (j < lbound_R fuel xs x first len)%nat -> nth j xs 0 < x) /\
  (forall j, (lbound_R fuel xs x first len <= j < length xs)%nat -> x <= nth j xs 0).
Proof.
  induction fuel as [|f IH]; intros xs x first len Hs Hf Hlen Hlo Hhi; [lia|].
  unfold lbound_R in *. cbn [lbound]. destruct len as [|l'].
  - repeat split; [lia|exact Hlo|intros j Hj; apply Hhi; lia].
  - set (len := S l') in *. set (half := Nat.div2 len).
    assert (Hh : (half < len)%nat) by (apply Nat.lt_div2; unfold len; lia).
    change (IZR 0) with 0.
    destruct (Rleb x (nth (first + half) xs 0)) eqn:E.
    + apply Rleb_true in E. apply IH; try assumption; try lia.
      intros j Hj. destruct (Nat.eq_dec j (first + half)) as [->|Hne]; [exact E|].
      destruct (Nat.lt_ge_cases j (first + len)) as [Hlt|Hge]; [|apply Hhi; lia].
      assert (nth (first + half) xs 0 < nth j xs 0) by (apply Hs; lia). lra.
    + apply Rleb_false in E. apply IH; try assumption; try lia.
      * intros j Hj. destruct (Nat.eq_dec j (first + half)) as [->|Hne]; [exact E|].
        destruct (Nat.lt_ge_cases j first) as [Hlt|Hge]; [apply Hlo; exact Hlt|].
        assert (nth j xs 0 < nth (first + half) xs 0) by (apply Hs; lia). lra.
      * intros j Hj. apply Hhi. lia.
Qed.

Lemma lower_bound_spec xs x : sortedx xs ->
  (lower_bound_R xs x <= length xs)%nat /\
  (forall j, (j < lower_bound_R xs x)%nat -> nth j xs 0 < x) /\
  (forall j, (lower_bound_R xs x <= j < length xs)%nat -> x <= nth j xs 0).
Proof.
  intros Hs. unfold lower_bound_R, lower_bound. apply (lbound_spec (S (length xs)) xs x 0 (length xs) Hs); try lia; intros j Hj; lia.
Qed.

(* ---- from the index to the list walk *)
Definition d000 : pt3R := (0, 0, 0).
Lemma sorted3_nth : forall pts i j, sorted3 pts -> (i < j < length pts)%nat -> X (nth i pts d000) < X (nth j pts d000).
Proof.
  induction pts as [|p pts IH]; intros i j Hs Hij; [simpl in Hij; lia|].
  unfold sorted3 in Hs. cbn [map increasing] in Hs. destruct Hs as [Hlt Hinc].
  destruct j as [|j]; [lia|]. destruct i as [|i].
  - cbn [nth]. apply (lt_all_in _ _ (fst (nth j pts d000)) Hlt). apply in_map. apply nth_In. simpl in Hij. lia.
  - cbn [nth]. apply IH; [exact Hinc|simpl in Hij; lia].
Qed.
Lemma map_X_nth pts j : nth j (map (px R) pts) 0 = X (nth j pts d000).
Proof. change 0 with (px R d000) at 1. rewrite map_nth. reflexivity. Qed.
Lemma sorted3_sortedx pts : sorted3 pts -> sortedx (map (px R) pts).
Proof. intros Hs i j Hij. rewrite map_length in Hij. rewrite !map_X_nth. apply sorted3_nth; assumption. Qed.

Lemma In_firstn_nth {A} (d : A) : forall l r e, In e (firstn r l) -> exists j, (j < r)%nat /\ (j < length l)%nat /\ nth j l d = e.
Proof.
  induction l as [|a l IH]; intros [|r] e H; simpl in H; try tauto.
  destruct H as [<-|H].
  - exists 0%nat. simpl. repeat split; lia.
  - destruct (IH r e H) as [j [H1 [H2 H3]]]. exists (S j). simpl. repeat split; try lia. exact H3.
Qed.
Lemma nth_split' {A} (d : A) : forall l i, (i < length l)%nat -> l = firstn i l ++ nth i l d :: skipn (S i) l.
Proof.
  induction l as [|a l IH]; intros i Hi; [simpl in Hi; lia|].
  destruct i as [|i]; [reflexivity|]. cbn [firstn nth skipn app]. f_equal. apply IH. simpl in Hi. lia.
Qed.
Lemma last_firstn {A} (d : A) : forall l r, (0 < r <= length l)%nat -> last (firstn r l) d = nth (r - 1) l d.
Proof.
  induction l as [|a l IH]; intros r Hr; [simpl in Hr; lia|].
  destruct r as [|[|r]]; [lia|reflexivity|].
  change (firstn (S (S r)) (a :: l)) with (a :: firstn (S r) l). rewrite last_cons'.
  assert (E : last (firstn (S r) l) a = last (firstn (S r) l) d).
  { destruct l as [|b l]; [simpl in Hr; lia|]. cbn [firstn]. rewrite !last_cons'. reflexivity. }
  rewrite E, IH by (simpl in Hr; lia). simpl. rewrite Nat.sub_0_r. reflexivity.
Qed.

Lemma spl_bs_unfold e (p0 p1 : pt3R) (rest : list pt3R) x : let tab : list pt3R := p0 :: p1 :: rest in
  let i := lower_bound_R (map (px R) tab) x in
  spl_bs_R e tab x =
  if Nat.eqb i 0 then Some (if e then ext R Rplus Rminus Rmult IZR p0 x else clamp R IZR p0)
  else if Nat.eqb i (length tab)
       then Some (if e then ext R Rplus Rminus Rmult IZR (nth (i - 1) tab d000) x else clamp R IZR (nth (i - 1) tab d000))
       else Some (cub (nth (i - 1) tab d000) (nth i tab d000) x).
Proof. reflexivity. Qed.

(* the evaluation through the bisection index is the evaluation by linear scan *)
Theorem spl_bs_eq e pts x : sorted3 pts -> spl_bs_R e pts x = spl_R e pts x.
Proof.
  intros Hs. destruct pts as [|p0 [|p1 rest]]; [reflexivity|reflexivity|].
  pose proof (spl_bs_unfold e p0 p1 rest x) as Hu. cbv zeta in Hu. rewrite Hu. clear Hu.
  set (tab := p0 :: p1 :: rest) in *.
  destruct (lower_bound_spec (map (px R) tab) x (sorted3_sortedx tab Hs)) as [Hle [Hlo Hhi]].
  rewrite map_length in Hle, Hhi.
  set (i := lower_bound_R (map (px R) tab) x) in *.
  destruct (Nat.eqb i 0) eqn:E0.
  - apply Nat.eqb_eq in E0. unfold tab. rewrite spl_left; [destruct e; reflexivity|].
    specialize (Hhi 0%nat ltac:(simpl; lia)). rewrite map_X_nth in Hhi. exact Hhi.
  - apply Nat.eqb_neq in E0. destruct (Nat.eqb i (length tab)) eqn:E1.
    + apply Nat.eqb_eq in E1. unfold tab at 3. rewrite spl_right.
      * replace (last (p1 :: rest) p0) with (nth (i - 1) tab d000); [destruct e; reflexivity|].
        rewrite <- (last_firstn d000 tab i) by lia.
        rewrite E1, firstn_all. unfold tab. rewrite last_cons'. reflexivity.
      * intros r Hr. destruct (In_nth _ _ d000 Hr) as [j [Hj Ej]]. rewrite <- Ej, <- map_X_nth. apply Hlo. rewrite E1. exact Hj.
    + apply Nat.eqb_neq in E1.
      assert (Hi : (0 < i < length tab)%nat) by lia.
      assert (Esplit : tab = firstn i tab ++ nth i tab d000 :: skipn (S i) tab).
      { apply nth_split'. lia. }
      destruct (firstn i tab) as [|q0 l1] eqn:Ef.
      { exfalso. assert (length (firstn i tab) = i) by (apply firstn_length_le; lia). rewrite Ef in H. simpl in H. lia. }
      assert (Eq0 : q0 = p0).
      { unfold tab in Ef. destruct i; [lia|]. cbn [firstn] in Ef. congruence. }
      subst q0.
      assert (Elast : last l1 p0 = nth (i - 1) tab d000).
      { rewrite <- (last_firstn d000 tab i) by lia. rewrite Ef, last_cons'. reflexivity. }
      transitivity (spl_R e (p0 :: l1 ++ nth i tab d000 :: skipn (S i) tab) x); [|rewrite Esplit at 3; reflexivity].
      rewrite spl_piece.
      * rewrite Elast. reflexivity.
      * intros r Hr. rewrite <- Ef in Hr. destruct (In_firstn_nth d000 tab i r Hr) as [j [Hj [_ Ej]]].
        rewrite <- Ej, <- map_X_nth. apply Hlo. exact Hj.
      * rewrite <- map_X_nth. apply Hhi. lia.
Qed.

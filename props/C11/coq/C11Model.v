(* C11 -- hand-written executable models (engine H).  Definitions only.
   Linear interpolation: the whole of computeLinearInterpolation(AndDerivative)<extrapolate> on tables given as lists of
   (abscissa, value), written once over an abstract scalar and instantiated with Q (execution) and R (theorems).
   Cubic spline: the local formulas (computeCubicSplineLocalCoefficients, the local cubic with its two derivatives,
   computeCubicSplineLocalIntegral, the equations assembled by buildInterpolation). *)
From Coq Require Import List Reals QArith Bool.
Import ListNotations.

Section Linear.
  Variable T : Type.
  Variables (add sub mul div : T -> T -> T) (leb : T -> T -> bool) (zero : T).
  Definition pt := (T * T)%type.

  (* interpolate(i): value and slope on the interval [p0, p1] *)
  Definition interp2 (a : T) (p0 p1 : pt) : T * T :=
    let d := div (sub (snd p1) (snd p0)) (sub (fst p1) (fst p0)) in
    (add (snd p0) (mul d (sub a (fst p0))), d).

  (* findIndex: i = 0; while (i + 1 != s) { if (a <= x[i+1]) break; ++i; }  -- returns the interval (p_i, p_i+1);
     running off the end (i = s - 1) is an out-of-bounds access in the C++, modelled as the degenerate pair *)
  Fixpoint seg (a : T) (p0 : pt) (rest : list pt) : pt * pt :=
    match rest with
    | [] => (p0, p0)
    | p1 :: rest' => if leb a (fst p1) then (p0, p1) else seg a p1 rest'
    end.
  (* the last interval (abscissae.size() - 2) *)
  Fixpoint last2 (p0 : pt) (rest : list pt) : pt * pt :=
    match rest with
    | [] => (p0, p0)
    | p1 :: rest' => match rest' with [] => (p0, p1) | _ => last2 p1 rest' end
    end.

  Definition lin (extrap : bool) (tab : list pt) (a : T) : option (T * T) :=
    match tab with
    | [] => None                                   (* contract violation *)
    | [p] => Some (snd p, zero)
    | p0 :: p1 :: r =>
        if leb a (fst p0) then (if extrap then Some (interp2 a p0 p1) else Some (snd p0, zero))
        else let q := last2 p0 (p1 :: r) in
             if leb (fst (snd q)) a then (if extrap then Some (interp2 a (fst q) (snd q)) else Some (snd (snd q), zero))
             else let s := seg a p0 (p1 :: r) in Some (interp2 a (fst s) (snd s))
    end.
End Linear.

Definition Qleb (a b : Q) : bool := match Qcompare a b with Gt => false | _ => true end.
Definition lin_Q := lin Q (fun a b => Qred (a + b)) (fun a b => Qred (a - b)) (fun a b => Qred (a * b))
                        (fun a b => Qred (a / b)) Qleb 0%Q.
Definition Rleb (a b : R) : bool := if Rle_dec a b then true else false.
Definition lin_R := lin R Rplus Rminus Rmult Rdiv Rleb 0%R.

(* ---- cubic spline, local formulas (collocation point = abscissa x, value y, derivative d) *)
Section Spline.
  Variable T : Type.
  Variables (add sub mul div : T -> T -> T) (ofZ : Z -> T).
  Local Notation "a + b" := (add a b). Local Notation "a - b" := (sub a b).
  Local Notation "a * b" := (mul a b). Local Notation "a / b" := (div a b).
  Definition k (n : Z) := ofZ n.
  (* computeCubicSplineLocalCoefficients(pa, pb) *)
  Definition coeffs (xa ya da xb yb db : T) : T * T :=
    let usL := k 1 / (xb - xa) in
    let Dy := (yb - ya) * usL in
    ((k 3 * Dy - db - k 2 * da) * usL, (k (-2) * Dy + db + da) * usL * usL).
  (* value, first and second derivative of the local cubic at x (CubicSpline::getValues) *)
  Definition cubic (xa ya da xb yb db x : T) : T * T * T :=
    let c := coeffs xa ya da xb yb db in
    let x2 := x - xa in
    (ya + x2 * (da + x2 * (fst c + x2 * snd c)),
     da + x2 * (k 2 * fst c + x2 * k 3 * snd c),
     k 2 * fst c + x2 * k 6 * snd c).
  (* computeCubicSplineLocalIntegral(x0, x1, pa, pb) *)
  Definition local_int (xa ya da xb yb db x0' x1' : T) : T :=
    let c := coeffs xa ya da xb yb db in
    let x0 := x0' - xa in let x1 := x1' - xa in
    (k 3 * snd c * (x1 * x1 * x1 * x1 - x0 * x0 * x0 * x0) + k 4 * fst c * (x1 * x1 * x1 - x0 * x0 * x0) +
     k 6 * da * (x1 * x1 - x0 * x0) + k 12 * ya * (x1 - x0)) / k 12.
End Spline.
Definition cubic_Q := cubic Q Qplus Qminus Qmult Qdiv inject_Z.
Definition local_int_Q := local_int Q Qplus Qminus Qmult Qdiv inject_Z.
Definition cubic_R := cubic R Rplus Rminus Rmult Rdiv IZR.
Definition coeffs_R := coeffs R Rplus Rminus Rmult Rdiv IZR.
Definition local_int_R := local_int R Rplus Rminus Rmult Rdiv IZR.

(* ---- cubic spline on a whole table: buildInterpolation + solveTridiagonalLinearSystem (Thomas), evaluation with
   the interval search, computeIntegral, computeMeanValue.  A collocation point is (x, y, d). *)
Section SplineTable.
  Variable T : Type.
  Variables (add sub mul div : T -> T -> T) (leb : T -> T -> bool) (ofZ : Z -> T).
  Local Notation "a + b" := (add a b). Local Notation "a - b" := (sub a b).
  Local Notation "a * b" := (mul a b). Local Notation "a / b" := (div a b).
  Local Notation k := ofZ.
  Definition pt3 := (T * T * T)%type.
  Definition px (p : pt3) : T := fst (fst p).
  Definition py (p : pt3) : T := snd (fst p).
  Definition pd (p : pt3) : T := snd p.

  (* buildInterpolation: the loop that assembles the rows (main diagonal md[i], upper diagonal mu[i], right-hand side
     points[i].d) of the symmetric tridiagonal system; ho, uo are the loop-carried variables; the last row is
     md[s] = 2 ho, rhs uo (its upper diagonal entry does not exist: 0) *)
  Fixpoint rows (ho uo x0 y0 : T) (rest : list (T * T)) : list (T * T * T) :=
    match rest with
    | [] => [(k 2 * ho, k 0, uo)]
    | p1 :: rest' =>
        let hn := k 1 / (fst p1 - x0) in
        let un := k 3 * hn * hn * (snd p1 - y0) in
        (k 2 * (hn + ho), hn, un + uo) :: rows hn un (fst p1) (snd p1) rest'
    end.
  (* solveTridiagonalLinearSystem: forward elimination (m = c[i-1]/b[i-1]; b[i] -= m c[i-1]; d[i] -= m d[i-1]) then
     back substitution (d[n-1] /= b[n-1]; d[i] = (d[i] - c[i] d[i+1]) / b[i]).  b, r: the already eliminated pivot and
     right-hand side of the current row, c its upper-diagonal entry, rest the rows below. *)
  Fixpoint sweep (b r c : T) (rest : list (T * T * T)) : list T :=
    match rest with
    | [] => [r / b]
    | row1 :: rest' =>
        let m := c / b in
        let tail := sweep (fst (fst row1) - m * c) (snd row1 - m * r) (snd (fst row1)) rest' in
        (r - c * hd (k 0) tail) / b :: tail
    end.
  Definition derivs (tab : list (T * T)) : list T :=
    match tab with
    | [] => []
    | [p] => [k 0]
    | p0 :: rest => match rows (k 0) (k 0) (fst p0) (snd p0) rest with
                    | row0 :: rs => sweep (fst (fst row0)) (snd row0) (snd (fst row0)) rs
                    | [] => []
                    end
    end.
  (* setCollocationPoints *)
  Definition build (tab : list (T * T)) : list pt3 := combine tab (derivs tab).

  (* linear extension through a collocation point *)
  Definition ext (p : pt3) (x : T) : T * T * T := (py p + (x - px p) * pd p, pd p, k 0).
  Definition clamp (p : pt3) : T * T * T := (py p, k 0, k 0).
  (* internals::lower_bound with p.x < x: the first point q with x <= q.x (and the point before it) *)
  Fixpoint sfind (x : T) (p : pt3) (rest : list pt3) : pt3 * option pt3 :=
    match rest with
    | [] => (p, None)
    | q :: rest' => if leb x (px q) then (p, Some q) else sfind x q rest'
    end.
  (* computeCubicSplineInterpolation(AndDerivative)<extrap> and CubicSpline::getValues: value, derivative, second derivative *)
  Definition spl (extrap : bool) (pts : list pt3) (x : T) : option (T * T * T) :=
    match pts with
    | [] => None
    | [p] => Some (clamp p)
    | p0 :: rest =>
        if leb x (px p0) then Some (if extrap then ext p0 x else clamp p0)
        else match sfind x p0 rest with
             | (pa, Some pb) => Some (cubic T add sub mul div ofZ (px pa) (py pa) (pd pa) (px pb) (py pb) (pd pb) x)
             | (pl, None) => Some (if extrap then ext pl x else clamp pl)
             end
    end.

  (* computeIntegral *)
  Definition half : T := k 1 / k 2.
  Definition lint (pa pb : pt3) (x0 x1 : T) : T :=
    local_int T add sub mul div ofZ (px pa) (py pa) (pd pa) (px pb) (py pb) (pd pb) x0 x1.
  (* both bounds in the same extrapolated part *)
  Definition extint (p : pt3) (xa xb : T) : T :=
    py p * (xb - xa) + half * pd p * ((xb - px p) * (xb - px p) - (xa - px p) * (xa - px p)).
  (* from the node p up to xb (xb beyond p): whole pieces, then the piece containing xb or the right extrapolated part *)
  Fixpoint tailsum (xb : T) (p : pt3) (rest : list pt3) : T :=
    match rest with
    | [] => py p * (xb - px p) + half * pd p * ((xb - px p) * (xb - px p))
    | q :: rest' => if leb xb (px q) then lint p q (px p) xb else lint p q (px p) (px q) + tailsum xb q rest'
    end.
  (* xa beyond p: look for the piece containing xa *)
  Fixpoint walk (xa xb : T) (p : pt3) (rest : list pt3) : T :=
    match rest with
    | [] => extint p xa xb
    | q :: rest' => if leb xa (px q)
                    then (if leb xb (px q) then lint p q xa xb else lint p q xa (px q) + tailsum xb q rest')
                    else walk xa xb q rest'
    end.
  Definition integ0 (pts : list pt3) (xa xb : T) : T :=
    match pts with
    | [] => k 0
    | p0 :: rest =>
        if leb xa (px p0)
        then (if leb xb (px p0) then extint p0 xa xb
              else (py p0 * (px p0 - xa) - half * pd p0 * ((xa - px p0) * (xa - px p0))) + tailsum xb p0 rest)
        else walk xa xb p0 rest
    end.
  Definition integ (pts : list pt3) (xa xb : T) : option T :=
    match pts with
    | [] => None
    | [p] => Some (py p * (xb - xa))
    | _ => Some (if leb xa xb then integ0 pts xa xb else k 0 - integ0 pts xb xa)
    end.
  Definition mean (pts : list pt3) (xa xb : T) : option T :=
    match integ pts xa xb with Some v => Some (v / (xb - xa)) | None => None end.

  (* findIndex as an index (the C++ returns the index, `seg` above returns the two points) *)
  Fixpoint fidx (a : T) (i : nat) (rest : list T) : nat :=
    match rest with
    | [] => i
    | x1 :: rest' => if leb a x1 then i else fidx a (S i) rest'
    end.
End SplineTable.

Definition Qadd' (a b : Q) := Qred (a + b).
Definition Qsub' (a b : Q) := Qred (a - b).
Definition Qmul' (a b : Q) := Qred (a * b).
Definition Qdiv' (a b : Q) := Qred (a / b).
Definition build_Q := build Q Qadd' Qsub' Qmul' Qdiv' inject_Z.
Definition spl_Q := spl Q Qadd' Qsub' Qmul' Qdiv' Qleb inject_Z.
Definition integ_Q := integ Q Qadd' Qsub' Qmul' Qdiv' Qleb inject_Z.
Definition mean_Q := mean Q Qadd' Qsub' Qmul' Qdiv' Qleb inject_Z.
Definition fidx_Q := fidx Q Qleb.

Definition rows_R := rows R Rplus Rminus Rmult Rdiv IZR.
Definition sweep_R := sweep R Rminus Rmult Rdiv IZR.
Definition derivs_R := derivs R Rplus Rminus Rmult Rdiv IZR.
Definition build_R := build R Rplus Rminus Rmult Rdiv IZR.
Definition spl_R := spl R Rplus Rminus Rmult Rdiv Rleb IZR.
Definition lint_R := lint R Rplus Rminus Rmult Rdiv IZR.
Definition extint_R := extint R Rplus Rminus Rmult Rdiv IZR.
Definition tailsum_R := tailsum R Rplus Rminus Rmult Rdiv Rleb IZR.
Definition walk_R := walk R Rplus Rminus Rmult Rdiv Rleb IZR.
Definition integ0_R := integ0 R Rplus Rminus Rmult Rdiv Rleb IZR.
Definition integ_R := integ R Rplus Rminus Rmult Rdiv Rleb IZR.
Definition mean_R := mean R Rplus Rminus Rmult Rdiv Rleb IZR.
Definition sfind_R := sfind R Rleb.

(* ---- internals::lower_bound as written (bisection on [first, first + len)), on the list of abscissae, and the spline
   evaluation through the index it returns (computeCubicSplineInterpolation(AndDerivative), CubicSpline::getValues) *)
Section Bisect.
  Variable T : Type.
  Variables (add sub mul div : T -> T -> T) (leb : T -> T -> bool) (ofZ : Z -> T).
  Fixpoint lbound (fuel : nat) (xs : list T) (x : T) (first len : nat) : nat :=
    match fuel with
    | O => first
    | S f => match len with
             | O => first
             | S _ => let half := Nat.div2 len in
                      (* comp( *middle, val) is middle->x < val, i.e. not (val <= middle->x) *)
                      if leb x (nth (first + half) xs (ofZ 0)) then lbound f xs x first half
                      else lbound f xs x (first + half + 1) (len - half - 1)
             end
    end.
  Definition lower_bound (xs : list T) (x : T) : nat := lbound (S (length xs)) xs x 0 (length xs).
  Definition p000 : pt3 T := (ofZ 0, ofZ 0, ofZ 0).
  Definition spl_bs (extrap : bool) (pts : list (pt3 T)) (x : T) : option (T * T * T) :=
    match pts with
    | [] => None
    | [p] => Some (clamp T ofZ p)
    | p0 :: _ =>
        let i := lower_bound (map (px T) pts) x in
        if Nat.eqb i 0 then Some (if extrap then ext T add sub mul ofZ p0 x else clamp T ofZ p0)
        else let ip := nth (i - 1) pts p000 in
             if Nat.eqb i (length pts) then Some (if extrap then ext T add sub mul ofZ ip x else clamp T ofZ ip)
             else let p := nth i pts p000 in
                  Some (cubic T add sub mul div ofZ (px T ip) (py T ip) (pd T ip) (px T p) (py T p) (pd T p) x)
    end.
End Bisect.
Definition spl_bs_Q := spl_bs Q Qadd' Qsub' Qmul' Qdiv' Qleb inject_Z.
Definition spl_bs_R := spl_bs R Rplus Rminus Rmult Rdiv Rleb IZR.
Definition lower_bound_R := lower_bound R Rleb IZR.
Definition lbound_R := lbound R Rleb IZR.

(* C11 -- hand-written executable models (engine H).  Definitions only.
   Linear interpolation: the whole of computeLinearInterpolation(AndDerivative)<extrapolate> on tables given as lists of
   (abscissa, value), written once over an abstract scalar and instantiated with Q (execution) and R (theorems).
   Cubic spline: the local formulas (computeCubicSplineLocalCoefficients, the local cubic with its two derivatives,
   computeCubicSplineLocalIntegral, the equations assembled by buildInterpolation). *)
From Coq Require Import List Reals QArith Bool.
Import ListNotations.

Section Linear.
  Variable T : Type.
  Variables (add sub mul div : T -> T -> T) (leb : T -> T -> bool) (zero : T).
  Definition pt := (T * T)%type.

  (* interpolate(i): value and slope on the interval [p0, p1] *)
  Definition interp2 (a : T) (p0 p1 : pt) : T * T :=
    let d := div (sub (snd p1) (snd p0)) (sub (fst p1) (fst p0)) in
    (add (snd p0) (mul d (sub a (fst p0))), d).

  (* findIndex: i = 0; while (i + 1 != s) { if (a <= x[i+1]) break; ++i; }  -- returns the interval (p_i, p_i+1);
     running off the end (i = s - 1) is an out-of-bounds access in the C++, modelled as the degenerate pair *)
  Fixpoint seg (a : T) (p0 : pt) (rest : list pt) : pt * pt :=
    match rest with
    | [] => (p0, p0)
    | p1 :: rest' => if leb a (fst p1) then (p0, p1) else seg a p1 rest'
    end.
  (* the last interval (abscissae.size() - 2) *)
  Fixpoint last2 (p0 : pt) (rest : list pt) : pt * pt :=
    match rest with
    | [] => (p0, p0)
    | p1 :: rest' => match rest' with [] => (p0, p1) | _ => last2 p1 rest' end
    end.

  Definition lin (extrap : bool) (tab : list pt) (a : T) : option (T * T) :=
    match tab with
    | [] => None                                   (* contract violation *)
    | [p] => Some (snd p, zero)
    | p0 :: p1 :: r =>
        if leb a (fst p0) then (if extrap then Some (interp2 a p0 p1) else Some (snd p0, zero))
        else let q := last2 p0 (p1 :: r) in
             if leb (fst (snd q)) a then (if extrap then Some (interp2 a (fst q) (snd q)) else Some (snd (snd q), zero))
             else let s := seg a p0 (p1 :: r) in Some (interp2 a (fst s) (snd s))
    end.
End Linear.

Definition Qleb (a b : Q) : bool := match Qcompare a b with Gt => false | _ => true end.
Definition lin_Q := lin Q (fun a b => Qred (a + b)) (fun a b => Qred (a - b)) (fun a b => Qred (a * b))
                        (fun a b => Qred (a / b)) Qleb 0%Q.
Definition Rleb (a b : R) : bool := if Rle_dec a b then true else false.
Definition lin_R := lin R Rplus Rminus Rmult Rdiv Rleb 0%R.

(* ---- cubic spline, local formulas (collocation point = abscissa x, value y, derivative d) *)
Section Spline.
  Variable T : Type.
  Variables (add sub mul div : T -> T -> T) (ofZ : Z -> T).
  Local Notation "a + b" := (add a b). Local Notation "a - b" := (sub a b).
  Local Notation "a * b" := (mul a b). Local Notation "a / b" := (div a b).
  Definition k (n : Z) := ofZ n.
  (* computeCubicSplineLocalCoefficients(pa, pb) *)
  Definition coeffs (xa ya da xb yb db : T) : T * T :=
    let usL := k 1 / (xb - xa) in
    let Dy := (yb - ya) * usL in
    ((k 3 * Dy - db - k 2 * da) * usL, (k (-2) * Dy + db + da) * usL * usL).
  (* value, first and second derivative of the local cubic at x (CubicSpline::getValues) *)
  Definition cubic (xa ya da xb yb db x : T) : T * T * T :=
    let c := coeffs xa ya da xb yb db in
    let x2 := x - xa in
    (ya + x2 * (da + x2 * (fst c + x2 * snd c)),
     da + x2 * (k 2 * fst c + x2 * k 3 * snd c),
     k 2 * fst c + x2 * k 6 * snd c).
  (* computeCubicSplineLocalIntegral(x0, x1, pa, pb) *)
  Definition local_int (xa ya da xb yb db x0' x1' : T) : T :=
    let c := coeffs xa ya da xb yb db in
    let x0 := x0' - xa in let x1 := x1' - xa in
    (k 3 * snd c * (x1 * x1 * x1 * x1 - x0 * x0 * x0 * x0) + k 4 * fst c * (x1 * x1 * x1 - x0 * x0 * x0) +
     k 6 * da * (x1 * x1 - x0 * x0) + k 12 * ya * (x1 - x0)) / k 12.
End Spline.
Definition cubic_Q := cubic Q Qplus Qminus Qmult Qdiv inject_Z.
Definition local_int_Q := local_int Q Qplus Qminus Qmult Qdiv inject_Z.
Definition cubic_R := cubic R Rplus Rminus Rmult Rdiv IZR.
Definition coeffs_R := coeffs R Rplus Rminus Rmult Rdiv IZR.
Definition local_int_R := local_int R Rplus Rminus Rmult Rdiv IZR.

// C11 driver: runs the REAL computeLinearInterpolation(AndDerivative)<extrapolate>, linear_interpolation_internals::findIndex
// (include/TFEL/Math/LinearInterpolation.ixx) and the REAL tfel::math::CubicSpline (CubicSpline.hxx/.ixx, src/Math/CubicSpline.cxx).
// One command per line, numbers as hexadecimal floats:
//   LIN <n> x1..xn y1..yn <m> q1..qm
//     -> L  (per query: v0 v1 w0 d0 w1 d1 idx) : v_e = computeLinearInterpolation<e>, (w_e, d_e) = ...AndDerivative<e>, idx = findIndex
//   SPL <n> x1..xn y1..yn <m> q1..qm <k> a1 b1 .. ak bk
//     -> S <n> d1..dn  (per query: getValue operator() f2 df2 f3 df3 d2f3 vc fc dfc)  (per pair: computeIntegral computeMeanValue)
//        f2,df2 = getValues(f,df,x); f3.. = getValues(f,df,d2f,x); vc = computeCubicSplineInterpolation<false>(points,x);
//        (fc,dfc) = computeCubicSplineInterpolationAndDerivative<false>(points,x)
//     -> X <what()>  when the library throws
#include <cstdio>
#include <cstdlib>
#include <string>
#include <vector>
#include <sstream>
#include <iostream>
#include <exception>
#include "TFEL/Math/LinearInterpolation.hxx"
#include "TFEL/Math/CubicSpline.hxx"

static double rd(std::istream& is) {
  std::string s;
  is >> s;
  return std::strtod(s.c_str(), nullptr);
}
static std::string buf;
static void pr(const double v) {
  char b[64];
  std::snprintf(b, sizeof(b), " %a", v);
  buf += b;
}

int main() {
  std::string line;
  while (std::getline(std::cin, line)) {
    std::istringstream is(line);
    buf.clear();
    std::string cmd;
    is >> cmd;
    try {
      if (cmd == "LIN") {
        std::size_t n, m;
        is >> n;
        std::vector<double> x(n), y(n);
        for (auto& v : x) v = rd(is);
        for (auto& v : y) v = rd(is);
        is >> m;
        buf += "L";
        for (std::size_t j = 0; j != m; ++j) {
          const double a = rd(is);
          pr(tfel::math::computeLinearInterpolation<false>(x, y, a));
          pr(tfel::math::computeLinearInterpolation<true>(x, y, a));
          const auto r0 = tfel::math::computeLinearInterpolationAndDerivative<false>(x, y, a);
          pr(r0.first);
          pr(r0.second);
          const auto r1 = tfel::math::computeLinearInterpolationAndDerivative<true>(x, y, a);
          pr(r1.first);
          pr(r1.second);
          buf += " " + std::to_string(static_cast<std::size_t>(tfel::math::linear_interpolation_internals::findIndex(x, a)));
        }
        std::printf("%s\n", buf.c_str());
      } else if (cmd == "SPL") {
        std::size_t n, m, k;
        is >> n;
        std::vector<double> x(n), y(n);
        for (auto& v : x) v = rd(is);
        for (auto& v : y) v = rd(is);
        tfel::math::CubicSpline<double, double> s;
        s.setCollocationPoints(x, y);
        const auto& pts = s.getCollocationPoints();
        buf += "S " + std::to_string(pts.size());
        for (const auto& p : pts) pr(p.d);
        is >> m;
        for (std::size_t j = 0; j != m; ++j) {
          const double a = rd(is);
          pr(s.getValue(a));
          pr(s(a));
          double f, df, d2f;
          s.getValues(f, df, a);
          pr(f);
          pr(df);
          s.getValues(f, df, d2f, a);
          pr(f);
          pr(df);
          pr(d2f);
          pr(tfel::math::computeCubicSplineInterpolation<false>(pts, a));
          const auto r = tfel::math::computeCubicSplineInterpolationAndDerivative<false>(pts, a);
          pr(r.first);
          pr(r.second);
        }
        is >> k;
        for (std::size_t j = 0; j != k; ++j) {
          const double a = rd(is);
          const double b = rd(is);
          pr(s.computeIntegral(a, b));
          pr(s.computeMeanValue(a, b));
        }
        std::printf("%s\n", buf.c_str());
      } else {
        std::printf("E unknown command\n");
      }
    } catch (std::exception& e) {
      std::printf("X %s\n", e.what());
    }
  }
  return 0;
}

"""C48, execution stage: generated .mtest problems run by the REAL mtest binary and by the mtest compiled from the working tree; the
result and residual files are checked against the property stated here in Python (mirror of C48Spec.v / the theorems' conclusions)
and, for the bisection mode on dyadic time grids, against the Gallina model of the time loop (acceptor, exact)."""
import math, os
from fractions import Fraction
import mtlib

DEFAULT_EEPS, DEFAULT_SEPS = 1e-12, 1e-3
MPA = float(2 ** 20)
EUNIT = 2.0 ** -13


def gen_points(rng, t0, t1, unit, amp, force_tail):
    """piecewise linear evolution on a dyadic grid; the first point may come after t0, the last before t1 (values are then held);
    force_tail: the last point is strictly before the last time and the last segment is not flat"""
    n = rng.randint(2, 5)
    lo = t0 if rng.random() < 0.6 else t0 + rng.choice([0.25, 0.5])
    hi = t1 if (rng.random() < 0.5 and not force_tail) else t1 - rng.choice([0.25, 0.5, 0.75])
    if hi <= lo:
        lo, hi = t0, t1 - 0.25
    ts = sorted(set([lo, hi] + [lo + rng.randint(1, 15) / 16.0 * (hi - lo) for _ in range(n - 2)]))
    vs = [rng.randint(-amp, amp) * unit for _ in ts]
    if vs[-1] == vs[-2]:
        vs[-1] += unit * rng.choice([-3, 2, 5])
    if rng.random() < 0.5:
        vs[0] = 0.0
    pts = list(zip(ts, vs))
    if rng.random() < 0.15:          # a duplicated abscissa: the first value wins (std::map::insert)
        k = rng.randrange(len(pts))
        pts.insert(k + 1, (pts[k][0], pts[k][1] + unit))
    return pts


def gen_problem(rng, idx):
    beh = "VNorton" if rng.random() < 0.6 else "VElas"
    hyp = rng.choice(sorted(mtlib.HYPS) if beh == "VNorton" else mtlib.ELASTIC_HYPS)
    en, sn, undriven = mtlib.HYPS[hyp]
    nt = rng.randint(2, 5)
    times = [0.0]
    for _ in range(nt):
        times.append(times[-1] + rng.choice([0.25, 0.5, 1.0, 1.0, 2.0]))
    if rng.random() < 0.2:
        shift = rng.choice([0.5, 1.0, -1.0])
        times = [t + shift for t in times]
    comps = [k for k in range(len(en)) if k not in undriven]
    rng.shuffle(comps)
    imposed = []
    for j, k in enumerate(comps[:rng.randint(1, len(comps))]):
        kind = rng.choice("ES")
        tail = (j == 0)            # at least one evolution per problem ends before the last time with a non flat last segment
        if rng.random() < 0.12 and not tail:
            pts = [(None, (rng.randint(-8, 8) * EUNIT) if kind == "E" else rng.randint(-80, 80) * MPA)]
        else:
            pts = gen_points(rng, times[0], times[-1], EUNIT if kind == "E" else MPA, 12 if kind == "E" else 120, tail)
        imposed.append((kind, k, pts))
    pb = dict(name="p%03d" % idx, hyp=hyp, beh=beh, young=float(rng.choice([2 ** 37, 150e9, 70e9])), nu=rng.choice([0.25, 0.3, 0.3125]),
              imposed=imposed, times=times)
    u = rng.random()
    if u < 0.35:      # integration failures: the behaviour refuses time steps larger than MaximalTimeStep(t)
        pb["dtmax"] = [(None, rng.choice([0.3, 0.2, 0.6, 0.13]))] if rng.random() < 0.6 else \
            [(times[0], rng.choice([0.3, 0.6, 4.0])), (times[-1], rng.choice([0.3, 0.15, 4.0]))]
        pb["msub"] = rng.choice([3, 4, 5, 6, 10])
    elif u < 0.6 and beh == "VNorton":    # non-convergence of the Newton loop within a small number of iterations
        pb["itmax"] = rng.choice([3, 4, 5])
        pb["msub"] = rng.choice([3, 5, 8, 10])
    elif u < 0.8 and beh == "VNorton":    # the behaviour asks for smaller / larger steps
        pb["dyn"] = dict(min_dt=rng.choice([2.0 ** -20, 2.0 ** -10, 2.0 ** -6]), max_dt=rng.choice([0.5, 1.0, 4.0]), min_sf=rng.choice([0.125, 0.25, 0.5]),
                         max_sf=rng.choice([1.25, 1.5, 2.0]))
        pb["dpmax"] = rng.choice([2.0 ** -12, 2.0 ** -10, 2.0 ** -9])
        pb["msub"] = rng.choice([6, 10, 20])
    if rng.random() < 0.3:
        pb["eeps"] = rng.choice([1e-10, 1e-11, 1e-9])
    if rng.random() < 0.3:
        pb["seps"] = rng.choice([1.0, 1e-2, 10.0])
    return pb


def gen_fun(rng, kind, times, aux):
    """an imposed strain / stress given by a formula of t (and possibly of an LPI evolution that ends before the last time): unit * f"""
    import fevo
    unit, bound = (EUNIT, 12.0) if kind == "E" else (MPA, 100.0)
    leaves = [("t",), ("t",)] + [("v", n) for n in aux]
    grid = [times[0] + (times[-1] - times[0]) * k / 64.0 for k in range(65)]
    while True:
        inner = fevo.gen(rng, rng.choice([1, 2, 3]), leaves)
        if not (fevo.uses_t(inner) or fevo.names(inner)):
            continue
        f = mtlib.FunEvo(("*", ("c", unit), inner), aux, times)
        vals = [fevo.value(inner, f.env(), t) for t in grid]
        if all(v is not None and abs(v[0]) <= bound and v[1] < 1e-9 for v in vals) and max(abs(v[0]) for v in vals) >= 0.25:
            return f


def gen_problem_fun(rng, idx):
    """problems whose imposed strains / stresses are functions of t (FunctionEvolution), mixed with LPI evolutions; the formulas may use an LPI
    evolution whose last point comes before the last time (the value must be held)"""
    pb = gen_problem(rng, idx)
    pb["name"] = "f%03d" % idx
    pb.pop("dyn", None)
    pb.pop("dpmax", None)
    times = pb["times"]
    aux = {}
    if rng.random() < 0.6:
        aux["p"] = gen_points(rng, times[0], times[-1], 1.0, 4, True)
    pb["evolutions"] = sorted(aux.items())
    imposed = []
    for j, (kind, comp, pts) in enumerate(pb["imposed"]):
        if j == 0 or rng.random() < 0.5:
            pts = gen_fun(rng, kind, times, aux)
        imposed.append((kind, comp, pts))
    pb["imposed"] = imposed
    return pb


def gen_problem_nl(rng, idx):
    """problems with a @NonLinearConstraint (normalisation Strain or Stress) on the first normal components, one driven component"""
    import fevo
    beh = rng.choice(["VElas", "VNorton"])
    hyp = rng.choice(["Tridimensional", "Axisymmetrical", "GeneralisedPlaneStrain"])
    en, sn, _ = mtlib.HYPS[hyp]
    times = [0.0]
    for _ in range(rng.randint(2, 4)):
        times.append(times[-1] + rng.choice([0.25, 0.5, 1.0]))
    E, S = [("v", x) for x in en], [("v", x) for x in sn]
    aux = {}
    kind = rng.choice(["iso", "ratio", "square", "pressure", "evs", "sq_stress" if beh == "VElas" else "iso"])
    drive = ("E", 0, gen_points(rng, times[0], times[-1], EUNIT, 8, rng.random() < 0.5))
    if kind == "iso":
        nl = ("Strain", ("+", ("+", E[0], E[1]), E[2]))
    elif kind == "ratio":
        nl = ("Stress", ("-", S[1], ("*", ("c", rng.choice([0.5, 0.25, 2.0])), S[0])))
    elif kind == "square":
        nl = ("Strain", ("-", E[1], ("*", ("c", rng.choice([1.0, 8.0])), ("*", E[0], E[0]))))
    elif kind == "pressure":
        aux["p"] = gen_points(rng, times[0], times[-1], MPA, 60, True)
        nl = ("Stress", ("-", ("+", ("+", S[0], S[1]), S[2]), ("*", ("c", 3.0), ("v", "p"))))
    elif kind == "evs":
        aux["p"] = gen_points(rng, times[0], times[-1], MPA, 60, True)
        drive = None
        nl = ("Stress", ("-", S[0], ("v", "p")))
    else:
        nl = ("Stress", ("-", S[1], ("/", ("*", S[0], S[0]), ("c", float(2 ** 28)))))
    pb = dict(name="n%03d" % idx, hyp=hyp, beh=beh, young=float(rng.choice([2 ** 37, 150e9])), nu=rng.choice([0.25, 0.3]),
              imposed=[drive] if drive else [], times=times, evolutions=sorted(aux.items()), nl=[nl], nl_kind=kind)
    if rng.random() < 0.3:
        pb["eeps"] = rng.choice([1e-10, 1e-11])
    if rng.random() < 0.3:
        pb["seps"] = rng.choice([1.0, 1e-2])
    return pb


def gen_problem_evt(rng, idx):
    """problems with @Event and constraints switched on / off by events (options active, activating_events, desactivating_events); the events
    are placed at requested times; every problem also has an event that concerns no constraint"""
    beh = rng.choice(["VElas", "VNorton"])
    hyp = rng.choice(mtlib.ELASTIC_HYPS)
    en, sn, undriven = mtlib.HYPS[hyp]
    times = [0.0]
    for _ in range(rng.randint(4, 6)):
        times.append(times[-1] + rng.choice([0.5, 1.0]))
    comps = [k for k in range(len(en)) if k not in undriven]
    rng.shuffle(comps)
    imposed = []
    for k in comps[:rng.randint(1, 2)]:
        kind = rng.choice("ES")
        imposed.append((kind, k, gen_points(rng, times[0], times[-1], EUNIT if kind == "E" else MPA, 12 if kind == "E" else 120, False)))
    inner = sorted(rng.sample(times[1:-1], min(3, len(times) - 2)))
    mode = rng.choice(["off", "off-on", "late"])
    if mode == "off" or len(inner) < 3 and mode == "off-on":      # switched off by its event, then an event that is not its own
        events = [("stop", inner[0]), ("other", inner[1])]
        a = dict(active=True, act=[], deact=["stop"])
    elif mode == "off-on":
        events = [("stop", inner[0]), ("other", inner[1]), ("go", inner[2])]
        a = dict(active=True, act=["go"], deact=["stop"])
    else:                                                          # declared inactive, an unrelated event comes before its activating event
        events = [("other", inner[0]), ("go", inner[1])]
        a = dict(active=False, act=["go"], deact=[])
    return dict(name="e%03d" % idx, hyp=hyp, beh=beh, young=float(rng.choice([2 ** 37, 150e9])), nu=rng.choice([0.25, 0.3]), imposed=imposed, times=times,
                events=events, activity={0: a}, evt_mode=mode)


def check_nl(pb, rows):
    """the @NonLinearConstraint of the problem on the rows of the result file: |c(strains, stresses, evolutions at the output time)| within the
    tolerance of its normalisation policy (eeps for Strain, seps for Stress); c evaluated in exact arithmetic on the printed values (17 digits),
    the bound of the rounding error of a binary64 evaluation of the formula is added to the tolerance"""
    import fevo
    bad, n = [], 0
    en, sn, _ = mtlib.HYPS[pb["hyp"]]
    ndv = len(en)
    eeps, seps = pb.get("eeps") or DEFAULT_EEPS, pb.get("seps") or DEFAULT_SEPS
    aux = dict(pb.get("evolutions", []))
    for policy, expr in pb.get("nl", []):
        eps = eeps if policy == "Strain" else seps
        for r in rows[1:]:
            t = r[0]
            if len(r) < 1 + 2 * ndv or not all(math.isfinite(x) for x in r[:1 + 2 * ndv]):
                break
            env = {}
            for k in range(ndv):
                env[en[k]] = (lambda x: lambda _t: (fevo.MPF(x), fevo.MPF(0)))(r[1 + k])
                env[sn[k]] = (lambda x: lambda _t: (fevo.MPF(x), fevo.MPF(0)))(r[1 + ndv + k])
            for nm, pts in aux.items():
                env[nm] = (lambda d: lambda t_: fevo.frac(mtlib.lpi_spec(d, t_), 1e-13 * max(abs(v) for _, v in d)))(pts)
            v = fevo.value(expr, env, t)
            n += 1
            if v is None or not abs(v[0]) <= fevo.MPF(eps) + 4 * v[1]:
                bad.append(("nl:%s:%s" % (fevo.text(expr), t.hex()), "at output time %r the constraint @NonLinearConstraint<%s> '%s' has the value %s on the printed state (strains %r, stresses %r%s), "
                            "criterion %r" % (t, policy, fevo.text(expr), None if v is None else fevo.nstr(v[0], 12), r[1:1 + ndv], r[1 + ndv:1 + 2 * ndv],
                                              "".join(", %s = %r" % (nm, float(mtlib.lpi_spec(p, t))) for nm, p in aux.items()), eps)))
                break
    return bad, n


def model_case(pb, k, script, q):
    """Gallina term: the time loop of the model on step k of the problem with the scripted outcomes of the attempts"""
    ti, te = pb["times"][k], pb["times"][k + 1]
    return "eres (execute 5000 (mkOpts false %d (-1 # 1) (-1 # 1) (-1 # 1) (-1 # 1)) (script [%s]) %s %s)" % (
        pb.get("msub") or 10, "; ".join("(%s, 1 # 1)" % ("true" if ok else "false") for ok in script), q(ti), q(te))


def check_run(pb, rc, out, rows, attempts, who):
    """-> (list of (key suffix, message), statistics dict, list of (step index, [accepted flags of the attempts of that step]))
    The property, stated on the files written by MTest."""
    bad = []
    en, sn, undriven = mtlib.HYPS[pb["hyp"]]
    ndv = len(en)
    eeps, seps = pb.get("eeps") or DEFAULT_EEPS, pb.get("seps") or DEFAULT_SEPS
    msub, itmax = pb.get("msub") or 10, pb.get("itmax") or 100
    times = pb["times"]
    periods, iterations, substeps, success = mtlib.summary(out)
    st = dict(completed=bool(success and rc == 0), rows=0, rejected=0, tail_rows=0, attempts=0)
    if rows is None or not rows:
        bad.append(("no-result", "no result file was written (rc=%d): %s" % (rc, out[-300:])))
        return bad, st, []
    if not st["completed"]:
        # a problem that does not complete is outside the statement, provided it stops for a documented reason
        if "maximum number of sub stepping reached" not in out and "time step is below its minimal value" not in out:
            bad.append(("abnormal-end", "run ended abnormally (rc=%d): %s" % (rc, out[-400:])))
        requested = [t for t in times if t <= rows[-1][0]]
    else:
        requested = list(times)
    st["rows"] = len(rows)
    T = [r[0] for r in rows]
    # ---- every requested time is reached exactly once, in order; the other output times are strictly inside a requested step
    if any(not (a < b) for a, b in zip(T, T[1:])):
        bad.append(("times-not-increasing", "output times are not strictly increasing: %r" % T))
    pos = []
    for t in requested:
        n = T.count(t)
        if n != 1:
            bad.append(("requested-time", "requested time %r appears %d times in the result file (output times %r)" % (t, n, T)))
            return bad, st, []
        pos.append(T.index(t))
    if pos != sorted(pos) or pos[0] != 0 or (st["completed"] and pos[-1] != len(T) - 1):
        bad.append(("requested-order", "requested times %r are not reached in order from the first to the last row (rows %r)" % (requested, T)))
    if st["completed"] and periods is not None and periods != len(rows) - 1:
        bad.append(("period-count", "%d accepted steps reported, %d rows after the initial one" % (periods, len(rows) - 1)))
    # ---- at every output time after the first: imposed components equal their evolution, free components carry no force
    free = [k for k in range(ndv) if k not in undriven and all(c != k for _, c, _ in pb["imposed"])]
    if pb.get("nl"):
        # a non linear constraint adds lambda * dc/de_i (and lambda * dc/ds_j * K_ji, for every i) to the equation of component i: a
        # component whose strain enters a constraint is not force-free, and none is when a stress enters a constraint
        import fevo
        used = set().union(*[fevo.names(e) for _, e in pb["nl"]])
        free = [] if used & set(sn) else [k for k in free if en[k] not in used]
        nbad, nrows = check_nl(pb, rows)
        bad.extend(nbad)
        st["nl_rows"] = nrows
    for r in rows[1:]:
        t = r[0]
        if len(r) < 1 + 2 * ndv or not all(math.isfinite(x) for x in r):
            bad.append(("not-finite", "row at time %r of a %s run contains non finite or missing values: %r" % (t, "completed" if st["completed"] else "stopped", r[:1 + 2 * ndv])))
            break
        on, off = mtlib.imposed_at(pb, t)
        # does the activity of the constraints, as the code found in the pinned tree computes it, differ from the documented one on this step?
        evt = bool(pb.get("activity")) and mtlib.imposed_at(pb, t, mtlib.treat_event_found) != (on, off)
        for kind, comp, pts in on:
            exp = mtlib.lpi_spec(pts, t)
            got = r[1 + comp] if kind == "E" else r[1 + ndv + comp]
            scale = max([abs(v) for _, v in pts] + [abs(float(exp))])
            tol = (eeps if kind == "E" else seps) + 64 * 2.0 ** -52 * scale
            last = max(a for a, _ in pts) if pts[0][0] is not None else None
            if last is not None and t > last:
                st["tail_rows"] += 1
            if not abs(Fraction(got) - exp) <= Fraction(tol):
                nm = (en if kind == "E" else sn)[comp]
                bad.append(("event-activity" if evt else "imposed:%s:%s" % (nm, t.hex()), "at output time %r the imposed %s %s is %r but its evolution %s gives %r (difference %.3g, tolerance %.3g)%s" % (
                    t, "strain" if kind == "E" else "stress", nm, got, mtlib.evo_text(pts), float(exp), abs(got - float(exp)), tol,
                    "; the time is after the last point of the evolution, whose last value must be held" if last is not None and t > last else "")))
                break
        for k in free + off:
            if not abs(r[1 + ndv + k]) <= seps * (1 + 1e-9):
                bad.append(("event-activity" if evt else "free:%s:%s" % (sn[k], t.hex()), "at output time %r the stress %s conjugated to the free strain component is %r (criterion %r)%s" % (
                    t, sn[k], r[1 + ndv + k], seps, "; the constraint on that component is switched off during this step (events %r, options %r)" % (
                        pb.get("events"), pb.get("activity")) if k in off else "")))
                break
        if pb.get("activity"):
            st["evt_rows"] = st.get("evt_rows", 0) + 1
            st["evt_off_rows"] = st.get("evt_off_rows", 0) + int(bool(off))
    # ---- attempts (residual file): chain of accepted steps inside each requested step, sub-step budget, norm test at acceptance
    steps = []
    if attempts is not None:
        st["attempts"] = len(attempts)
        k, cur, tcur = 0, [], times[0]
        accepted = []
        for i, (a, b, its) in enumerate(attempts):
            nxt = attempts[i + 1][0] if i + 1 < len(attempts) else (times[-1] if st["completed"] else None)
            ok = (nxt is not None and nxt != a)
            accepted.append(ok)
        # group the attempts by requested step
        k, grp = 0, {}
        for (a, b, its), ok in zip(attempts, accepted):
            while k + 1 < len(times) - 1 and a >= times[k + 1]:
                k += 1
            grp.setdefault(k, []).append((a, b, its, ok))
        for k in sorted(grp):
            ti, te = times[k], times[k + 1]
            t, nrej = ti, 0
            for a, b, its, ok in grp[k]:
                if a != t:
                    bad.append(("chain:%d" % k, "step %d [%r, %r]: an attempt starts at %r whereas the accepted steps end at %r" % (k, ti, te, a, t)))
                    break
                if not (a < b <= te + (te - ti) * 100 * 2.0 ** -52):
                    bad.append(("overshoot:%d" % k, "step %d [%r, %r]: attempt [%r, %r] leaves the step" % (k, ti, te, a, b)))
                    break
                if ok:
                    t = b
                    if its:
                        n, ne, nr, u1 = its[-1]
                        why = None
                        if not (ne <= eeps and nr <= seps):
                            why = "norms %r / %r exceed the criteria %r / %r" % (ne, nr, eeps, seps)
                        elif n < 2 and not pb.get("prediction"):
                            why = "accepted at the first iteration without prediction"
                        elif n > itmax:
                            why = "%d iterations with a maximum of %d" % (n, itmax)
                        else:
                            for kind, comp, pts in mtlib.imposed_at(pb, b)[0]:
                                if kind == "E" and len(u1) > comp:
                                    exp = float(mtlib.lpi_spec(pts, b))
                                    if not abs(u1[comp] - exp) < eeps + 64 * 2.0 ** -52 * max(abs(exp), max(abs(v) for _, v in pts)):
                                        why = "imposed strain %s is %r at the accepted iterate, evolution %r" % (en[comp], u1[comp], exp)
                        if why:
                            bad.append(("accepted-iterate:%d:%s" % (k, a.hex()), "step %d: attempt [%r, %r] was accepted although %s" % (k, a, b, why)))
                            break
                else:
                    nrej += 1
                    if its and its[-1][0] > itmax:
                        bad.append(("itermax:%d" % k, "step %d: attempt [%r, %r] ran %d iterations with a maximum of %d" % (k, a, b, its[-1][0], itmax)))
            st["rejected"] += nrej
            done = (t == te) or abs(te - t) < (te - ti) * 100 * 2.0 ** -52
            if st["completed"] or k < max(grp):
                if not done:
                    bad.append(("final-time:%d" % k, "step %d [%r, %r]: the accepted steps end at %r" % (k, ti, te, t)))
                if nrej >= msub:
                    bad.append(("budget:%d" % k, "step %d: %d rejected attempts with @MaximumNumberOfSubSteps %d" % (k, nrej, msub)))
            elif "maximum number of sub stepping reached" in out and nrej != msub:
                bad.append(("budget-raise:%d" % k, "step %d: 'maximum number of sub stepping reached' after %d rejected attempts (maximum %d)" % (k, nrej, msub)))
            steps.append((k, [ok for _, _, _, ok in grp[k]], [(a, b - a) for a, b, _, ok in grp[k] if ok], done))
        if st["completed"] and substeps is not None and substeps != st["rejected"]:
            bad.append(("substeps-count", "%d sub-steps reported, %d rejected attempts in the residual file" % (substeps, st["rejected"])))
        # the intermediate output times are the ends of the accepted sub-steps
        ends = [a + d for _, _, acc, _ in steps for a, d in acc]
        inter = [x for x in T[1:] if x not in times]
        ends_i = [x for x in ends if x not in times]
        if st["completed"] and not pb.get("dyn") and inter != ends_i:
            bad.append(("outputs", "intermediate output times %r are not the ends of the accepted sub-steps %r" % (inter, ends_i)))
    return bad, st, steps

"""C48, execution stage: generated .mtest problems run by the REAL mtest binary and by the mtest compiled from the working tree; the
result and residual files are checked against the property stated here in Python (mirror of C48Spec.v / the theorems' conclusions)
and, for the bisection mode on dyadic time grids, against the Gallina model of the time loop (acceptor, exact)."""
import math, os
from fractions import Fraction
import mtlib

DEFAULT_EEPS, DEFAULT_SEPS = 1e-12, 1e-3
MPA = float(2 ** 20)
EUNIT = 2.0 ** -13


def gen_points(rng, t0, t1, unit, amp, force_tail):
    """piecewise linear evolution on a dyadic grid; the first point may come after t0, the last before t1 (values are then held);
    force_tail: the last point is strictly before the last time and the last segment is not flat"""
    n = rng.randint(2, 5)
    lo = t0 if rng.random() < 0.6 else t0 + rng.choice([0.25, 0.5])
    hi = t1 if (rng.random() < 0.5 and not force_tail) else t1 - rng.choice([0.25, 0.5, 0.75])
    if hi <= lo:
        lo, hi = t0, t1 - 0.25
    ts = sorted(set([lo, hi] + [lo + rng.randint(1, 15) / 16.0 * (hi - lo) for _ in range(n - 2)]))
    vs = [rng.randint(-amp, amp) * unit for _ in ts]
    if vs[-1] == vs[-2]:
        vs[-1] += unit * rng.choice([-3, 2, 5])
    if rng.random() < 0.5:
        vs[0] = 0.0
    pts = list(zip(ts, vs))
    if rng.random() < 0.15:          # a duplicated abscissa: the first value wins (std::map::insert)
        k = rng.randrange(len(pts))
        pts.insert(k + 1, (pts[k][0], pts[k][1] + unit))
    return pts


def gen_problem(rng, idx):
    beh = "VNorton" if rng.random() < 0.6 else "VElas"
    hyp = rng.choice(sorted(mtlib.HYPS) if beh == "VNorton" else mtlib.ELASTIC_HYPS)
    en, sn, undriven = mtlib.HYPS[hyp]
    nt = rng.randint(2, 5)
    times = [0.0]
    for _ in range(nt):
        times.append(times[-1] + rng.choice([0.25, 0.5, 1.0, 1.0, 2.0]))
    if rng.random() < 0.2:
        shift = rng.choice([0.5, 1.0, -1.0])
        times = [t + shift for t in times]
    comps = [k for k in range(len(en)) if k not in undriven]
    rng.shuffle(comps)
    imposed = []
    for j, k in enumerate(comps[:rng.randint(1, len(comps))]):
        kind = rng.choice("ES")
        tail = (j == 0)            # at least one evolution per problem ends before the last time with a non flat last segment
        if rng.random() < 0.12 and not tail:
            pts = [(None, (rng.randint(-8, 8) * EUNIT) if kind == "E" else rng.randint(-80, 80) * MPA)]
        else:
            pts = gen_points(rng, times[0], times[-1], EUNIT if kind == "E" else MPA, 12 if kind == "E" else 120, tail)
        imposed.append((kind, k, pts))
    pb = dict(name="p%03d" % idx, hyp=hyp, beh=beh, young=float(rng.choice([2 ** 37, 150e9, 70e9])), nu=rng.choice([0.25, 0.3, 0.3125]),
              imposed=imposed, times=times)
    u = rng.random()
    if u < 0.35:      # integration failures: the behaviour refuses time steps larger than MaximalTimeStep(t)
        pb["dtmax"] = [(None, rng.choice([0.3, 0.2, 0.6, 0.13]))] if rng.random() < 0.6 else \
            [(times[0], rng.choice([0.3, 0.6, 4.0])), (times[-1], rng.choice([0.3, 0.15, 4.0]))]
        pb["msub"] = rng.choice([3, 4, 5, 6, 10])
    elif u < 0.6 and beh == "VNorton":    # non-convergence of the Newton loop within a small number of iterations
        pb["itmax"] = rng.choice([3, 4, 5])
        pb["msub"] = rng.choice([3, 5, 8, 10])
    elif u < 0.8 and beh == "VNorton":    # the behaviour asks for smaller / larger steps
        pb["dyn"] = dict(min_dt=rng.choice([2.0 ** -20, 2.0 ** -10, 2.0 ** -6]), max_dt=rng.choice([0.5, 1.0, 4.0]), min_sf=rng.choice([0.125, 0.25, 0.5]),
                         max_sf=rng.choice([1.25, 1.5, 2.0]))
        pb["dpmax"] = rng.choice([2.0 ** -12, 2.0 ** -10, 2.0 ** -9])
        pb["msub"] = rng.choice([6, 10, 20])
    if rng.random() < 0.3:
        pb["eeps"] = rng.choice([1e-10, 1e-11, 1e-9])
    if rng.random() < 0.3:
        pb["seps"] = rng.choice([1.0, 1e-2, 10.0])
    return pb


def model_case(pb, k, script, q):
    """Gallina term: the time loop of the model on step k of the problem with the scripted outcomes of the attempts"""
    ti, te = pb["times"][k], pb["times"][k + 1]
    return "eres (execute 5000 (mkOpts false %d (-1 # 1) (-1 # 1) (-1 # 1) (-1 # 1)) (script [%s]) %s %s)" % (
        pb.get("msub") or 10, "; ".join("(%s, 1 # 1)" % ("true" if ok else "false") for ok in script), q(ti), q(te))


def check_run(pb, rc, out, rows, attempts, who):
    """-> (list of (key suffix, message), statistics dict, list of (step index, [accepted flags of the attempts of that step]))
    The property, stated on the files written by MTest."""
    bad = []
    en, sn, undriven = mtlib.HYPS[pb["hyp"]]
    ndv = len(en)
    eeps, seps = pb.get("eeps") or DEFAULT_EEPS, pb.get("seps") or DEFAULT_SEPS
    msub, itmax = pb.get("msub") or 10, pb.get("itmax") or 100
    times = pb["times"]
    periods, iterations, substeps, success = mtlib.summary(out)
    st = dict(completed=bool(success and rc == 0), rows=0, rejected=0, tail_rows=0, attempts=0)
    if rows is None or not rows:
        bad.append(("no-result", "no result file was written (rc=%d): %s" % (rc, out[-300:])))
        return bad, st, []
    if not st["completed"]:
        # a problem that does not complete is outside the statement, provided it stops for a documented reason
        if "maximum number of sub stepping reached" not in out and "time step is below its minimal value" not in out:
            bad.append(("abnormal-end", "run ended abnormally (rc=%d): %s" % (rc, out[-400:])))
        requested = [t for t in times if t <= rows[-1][0]]
    else:
        requested = list(times)
    st["rows"] = len(rows)
    T = [r[0] for r in rows]
    # ---- every requested time is reached exactly once, in order; the other output times are strictly inside a requested step
    if any(not (a < b) for a, b in zip(T, T[1:])):
        bad.append(("times-not-increasing", "output times are not strictly increasing: %r" % T))
    pos = []
    for t in requested:
        n = T.count(t)
        if n != 1:
            bad.append(("requested-time", "requested time %r appears %d times in the result file (output times %r)" % (t, n, T)))
            return bad, st, []
        pos.append(T.index(t))
    if pos != sorted(pos) or pos[0] != 0 or (st["completed"] and pos[-1] != len(T) - 1):
        bad.append(("requested-order", "requested times %r are not reached in order from the first to the last row (rows %r)" % (requested, T)))
    if st["completed"] and periods is not None and periods != len(rows) - 1:
        bad.append(("period-count", "%d accepted steps reported, %d rows after the initial one" % (periods, len(rows) - 1)))
    # ---- at every output time after the first: imposed components equal their evolution, free components carry no force
    free = [k for k in range(ndv) if k not in undriven and all(c != k for _, c, _ in pb["imposed"])]
    for r in rows[1:]:
        t = r[0]
        if len(r) < 1 + 2 * ndv or not all(math.isfinite(x) for x in r):
            bad.append(("not-finite", "row at time %r of a %s run contains non finite or missing values: %r" % (t, "completed" if st["completed"] else "stopped", r[:1 + 2 * ndv])))
            break
        for kind, comp, pts in mtlib.all_imposed(pb):
            exp = mtlib.lpi_spec(pts, t)
            got = r[1 + comp] if kind == "E" else r[1 + ndv + comp]
            scale = max([abs(v) for _, v in pts] + [abs(float(exp))])
            tol = (eeps if kind == "E" else seps) + 64 * 2.0 ** -52 * scale
            last = max(a for a, _ in pts) if pts[0][0] is not None else None
            if last is not None and t > last:
                st["tail_rows"] += 1
            if not abs(Fraction(got) - exp) <= Fraction(tol):
                nm = (en if kind == "E" else sn)[comp]
                bad.append(("imposed:%s:%s" % (nm, t.hex()), "at output time %r the imposed %s %s is %r but its evolution %s gives %r (difference %.3g, tolerance %.3g)%s" % (
                    t, "strain" if kind == "E" else "stress", nm, got, mtlib.evo_text(pts), float(exp), abs(got - float(exp)), tol,
                    "; the time is after the last point of the evolution, whose last value must be held" if last is not None and t > last else "")))
                break
        for k in free:
            if not abs(r[1 + ndv + k]) <= seps * (1 + 1e-9):
                bad.append(("free:%s:%s" % (sn[k], t.hex()), "at output time %r the stress %s conjugated to the free strain component is %r (criterion %r)" % (t, sn[k], r[1 + ndv + k], seps)))
                break
    # ---- attempts (residual file): chain of accepted steps inside each requested step, sub-step budget, norm test at acceptance
    steps = []
    if attempts is not None:
        st["attempts"] = len(attempts)
        k, cur, tcur = 0, [], times[0]
        accepted = []
        for i, (a, b, its) in enumerate(attempts):
            nxt = attempts[i + 1][0] if i + 1 < len(attempts) else (times[-1] if st["completed"] else None)
            ok = (nxt is not None and nxt != a)
            accepted.append(ok)
        # group the attempts by requested step
        k, grp = 0, {}
        for (a, b, its), ok in zip(attempts, accepted):
            while k + 1 < len(times) - 1 and a >= times[k + 1]:
                k += 1
            grp.setdefault(k, []).append((a, b, its, ok))
        for k in sorted(grp):
            ti, te = times[k], times[k + 1]
            t, nrej = ti, 0
            for a, b, its, ok in grp[k]:
                if a != t:
                    bad.append(("chain:%d" % k, "step %d [%r, %r]: an attempt starts at %r whereas the accepted steps end at %r" % (k, ti, te, a, t)))
                    break
                if not (a < b <= te + (te - ti) * 100 * 2.0 ** -52):
                    bad.append(("overshoot:%d" % k, "step %d [%r, %r]: attempt [%r, %r] leaves the step" % (k, ti, te, a, b)))
                    break
                if ok:
                    t = b
                    if its:
                        n, ne, nr, u1 = its[-1]
                        why = None
                        if not (ne <= eeps and nr <= seps):
                            why = "norms %r / %r exceed the criteria %r / %r" % (ne, nr, eeps, seps)
                        elif n < 2 and not pb.get("prediction"):
                            why = "accepted at the first iteration without prediction"
                        elif n > itmax:
                            why = "%d iterations with a maximum of %d" % (n, itmax)
                        else:
                            for kind, comp, pts in mtlib.all_imposed(pb):
                                if kind == "E" and len(u1) > comp:
                                    exp = float(mtlib.lpi_spec(pts, b))
                                    if not abs(u1[comp] - exp) < eeps + 64 * 2.0 ** -52 * max(abs(exp), max(abs(v) for _, v in pts)):
                                        why = "imposed strain %s is %r at the accepted iterate, evolution %r" % (en[comp], u1[comp], exp)
                        if why:
                            bad.append(("accepted-iterate:%d:%s" % (k, a.hex()), "step %d: attempt [%r, %r] was accepted although %s" % (k, a, b, why)))
                            break
                else:
                    nrej += 1
                    if its and its[-1][0] > itmax:
                        bad.append(("itermax:%d" % k, "step %d: attempt [%r, %r] ran %d iterations with a maximum of %d" % (k, a, b, its[-1][0], itmax)))
            st["rejected"] += nrej
            done = (t == te) or abs(te - t) < (te - ti) * 100 * 2.0 ** -52
            if st["completed"] or k < max(grp):
                if not done:
                    bad.append(("final-time:%d" % k, "step %d [%r, %r]: the accepted steps end at %r" % (k, ti, te, t)))
                if nrej >= msub:
                    bad.append(("budget:%d" % k, "step %d: %d rejected attempts with @MaximumNumberOfSubSteps %d" % (k, nrej, msub)))
            elif "maximum number of sub stepping reached" in out and nrej != msub:
                bad.append(("budget-raise:%d" % k, "step %d: 'maximum number of sub stepping reached' after %d rejected attempts (maximum %d)" % (k, nrej, msub)))
            steps.append((k, [ok for _, _, _, ok in grp[k]], [(a, b - a) for a, b, _, ok in grp[k] if ok], done))
        if st["completed"] and substeps is not None and substeps != st["rejected"]:
            bad.append(("substeps-count", "%d sub-steps reported, %d rejected attempts in the residual file" % (substeps, st["rejected"])))
        # the intermediate output times are the ends of the accepted sub-steps
        ends = [a + d for _, _, acc, _ in steps for a, d in acc]
        inter = [x for x in T[1:] if x not in times]
        ends_i = [x for x in ends if x not in times]
        if st["completed"] and not pb.get("dyn") and inter != ends_i:
            bad.append(("outputs", "intermediate output times %r are not the ends of the accepted sub-steps %r" % (inter, ends_i)))
    return bad, st, steps

(* C48 -- model (definitions only) of FunctionEvolution (mtest/src/FunctionEvolution.cxx) for formulas of the rational fragment.
   FunctionEvolution::operator()(t): every variable of the formula named `t` receives t, every other variable receives the value AT THE
   SAME TIME t of the evolution of that name in the evolution manager (constant evolutions have been replaced by their value when the
   formula was parsed); the formula is then evaluated.  isConstant(): no variable `t` and every evolution named is constant. *)
From Coq Require Import QArith List Bool.
From C48 Require Import C48Model.
Import ListNotations.
Local Open Scope Q_scope.

Inductive fexpr :=
| FConst (q : Q) | FT | FVar (i : nat)
| FAdd (a b : fexpr) | FSub (a b : fexpr) | FMul (a b : fexpr) | FDiv (a b : fexpr).

(* an evolution of the manager: a table (LPIEvolution; a constant evolution is a table of one point) or another formula *)
Inductive evo := ELpi (tb : table) | EFun (e : fexpr).

Fixpoint feval (e : fexpr) (env : list (Q -> Q)) (t : Q) : Q :=
  match e with
  | FConst q => q
  | FT => t
  | FVar i => nth i env (fun _ => 0) t
  | FAdd a b => feval a env t + feval b env t
  | FSub a b => feval a env t - feval b env t
  | FMul a b => feval a env t * feval b env t
  | FDiv a b => feval a env t / feval b env t
  end.

Definition lpi_evo (tb : table) : Q -> Q := fun t => match lpi tb t with Some v => v | None => 0 end.

(* the formula does not name `t` *)
Fixpoint no_t (e : fexpr) : bool :=
  match e with
  | FConst _ | FVar _ => true
  | FT => false
  | FAdd a b | FSub a b | FMul a b | FDiv a b => no_t a && no_t b
  end.

(* C48 -- norm part of MTest::checkConvergence in presence of NaN, REPAIRED MTest_getErrorNorm (selected by check.py when the real
   MTest::checkConvergence refuses an increment containing a NaN) *)
From Coq Require Import QArith List.
From C48 Require Import C48Model C48Spec C48Proofs C48Newton.
Import ListNotations.
Local Open Scope Q_scope.

(* accepted => every component of the increment and of the residual is finite and within the tolerance *)
Theorem C48_norm_test_sound : forall eeps seps du r, accept_norms norm_fixed eeps seps du r = true ->
  Forall (finite_le eeps) du /\ Forall (finite_le seps) r.
Proof. exact accept_fixed_sound. Qed.
Print Assumptions C48_norm_test_sound.

Theorem C48_norm_test_refuses_nan : forall eeps seps du r, In None du \/ In None r -> accept_norms norm_fixed eeps seps du r = false.
Proof. exact accept_fixed_refuses_nan. Qed.
Print Assumptions C48_norm_test_refuses_nan.

(* C48 -- property theorems about @NonLinearConstraint (statements only; proofs in C48NLProofs.v; model in C48NLModel.v). *)
From Coq Require Import QArith List.
From C48 Require Import C48Model C48Spec C48Proofs C48Newton C48NLModel C48NLProofs.
Import ListNotations.
Local Open Scope Q_scope.

(* converged => the loadings are enforced as before AND every active non linear constraint has |c(u1, s1, t+dt)| < (hence <=) the
   tolerance of its normalisation policy *)
Theorem C48_converged_enforces_nonlinear_constraints : forall eeps seps du r u1 s1 igrad iforce nls tdt,
  converged_nl eeps seps du r u1 s1 igrad iforce nls tdt = true ->
  (norm_inf du <= eeps /\ norm_inf r <= seps /\
   (forall c v, In (c, v) igrad -> Qabs' (nth c u1 0 - v) < eeps) /\
   (forall c v, In (c, v) iforce -> Qabs' (nth c s1 0 - v) < seps)) /\
  (forall c, In c nls -> nl_active c = true ->
     Qabs' (nl_fun c u1 s1 tdt) < nl_tol eeps seps (nl_pol c) /\ Qabs' (nl_fun c u1 s1 tdt) <= nl_tol eeps seps (nl_pol c)).
Proof. exact converged_nl_sound. Qed.
Print Assumptions C48_converged_enforces_nonlinear_constraints.

(* <Strain> constraints are held within eeps, <Stress> constraints within seps *)
Theorem C48_nonlinear_constraint_tolerance_by_policy : forall eeps seps du r u1 s1 igrad iforce nls tdt,
  converged_nl eeps seps du r u1 s1 igrad iforce nls tdt = true ->
  forall c, In c nls -> nl_active c = true ->
    (nl_pol c = StrainPolicy -> Qabs' (nl_fun c u1 s1 tdt) <= eeps) /\
    (nl_pol c = StressPolicy -> Qabs' (nl_fun c u1 s1 tdt) <= seps).
Proof. exact converged_nl_by_policy. Qed.
Print Assumptions C48_nonlinear_constraint_tolerance_by_policy.

(* the comparison is strict: a residual equal to the tolerance is refused *)
Theorem C48_nonlinear_constraint_test_is_strict : forall eeps seps u1 s1 tdt c,
  Qabs' (nl_fun c u1 s1 tdt) == nl_tol eeps seps (nl_pol c) -> nl_ok eeps seps u1 s1 tdt c = false.
Proof. exact nl_ok_strict. Qed.
Print Assumptions C48_nonlinear_constraint_test_is_strict.

(* inactive constraints (switched off by an event) do not take part in the convergence test *)
Theorem C48_inactive_constraints_are_not_tested : forall eeps seps du r u1 s1 igrad iforce nls tdt,
  (forall c, In c nls -> nl_active c = false) ->
  converged_nl eeps seps du r u1 s1 igrad iforce nls tdt = converged eeps seps du r u1 s1 igrad iforce.
Proof. exact converged_nl_inactive. Qed.
Print Assumptions C48_inactive_constraints_are_not_tested.

(* through the Newton loop `iterate`: an accepted attempt leaves every active non linear constraint within its tolerance *)
Theorem C48_newton_success_enforces_nonlinear_constraints :
  forall itmax nopred orc u sf v1 v10 ni eeps seps igrad iforce nls tdt (res s1 : nat -> list Q), (0 < itmax)%nat ->
  (forall k, a_chk (orc k) = true ->
     converged_nl eeps seps (a_du (orc k)) (res k) (u_after orc (S k) u) (s1 k) igrad iforce nls tdt = true) ->
  iterate itmax nopred orc u = ItOk sf v1 v10 ni ->
  exists k, ni = S k /\ norm_inf (a_du (orc k)) <= eeps /\ norm_inf (res k) <= seps /\
    (forall c v, In (c, v) igrad -> Qabs' (nth c v1 0 - v) < eeps) /\
    (forall c v, In (c, v) iforce -> Qabs' (nth c (s1 k) 0 - v) < seps) /\
    (forall c, In c nls -> nl_active c = true -> Qabs' (nl_fun c v1 (s1 k) tdt) <= nl_tol eeps seps (nl_pol c)).
Proof. exact iterate_ok_nl. Qed.
Print Assumptions C48_newton_success_enforces_nonlinear_constraints.

(* C48 -- property theorems about FunctionEvolution (statements only; proofs in C48FunProofs.v; model in C48FunModel.v). *)
From Coq Require Import QArith List.
From C48 Require Import C48Model C48Spec C48Proofs C48FunModel C48FunProofs.
Import ListNotations.
Local Open Scope Q_scope.

(* the value at t depends only on t and on the values, at the same time t, of the evolutions named by the formula *)
Theorem C48_function_evolution_is_pointwise : forall e env env' t,
  (forall i, nth i env (fun _ => 0) t == nth i env' (fun _ => 0) t) -> feval e env t == feval e env' t.
Proof. exact feval_agree. Qed.
Print Assumptions C48_function_evolution_is_pointwise.

(* mixed LPI / function evolutions: after the last point of every table it names, a formula that does not name t keeps its value *)
Theorem C48_function_of_lpi_held_after_last_point : forall tbs e t t', no_t e = true ->
  (forall tb, In tb tbs -> after_last tb t /\ after_last tb t') ->
  feval e (map lpi_evo tbs) t == feval e (map lpi_evo tbs) t'.
Proof. exact fun_of_lpi_held. Qed.
Print Assumptions C48_function_of_lpi_held_after_last_point.

(* isConstant: no `t`, constant evolutions only => one value *)
Theorem C48_function_evolution_constant : forall e env t t', no_t e = true ->
  (forall i a b, nth i env (fun _ => 0) a == nth i env (fun _ => 0) b) -> feval e env t == feval e env t'.
Proof. exact fun_constant. Qed.
Print Assumptions C48_function_evolution_constant.

(* C48 -- events: compiled while the real ConstraintBase::treatEvent is observed to switch a constraint on at an event that is not one of
   its own (this->active = contains(activating_events); this->active = !contains(desactivating_events);) *)
From Coq Require Import List Bool Arith.
From C48 Require Import C48EvtModel C48EvtProofs.
Import ListNotations.

(* the property is false for the code as found: an event that concerns the constraint in no way changes its activity *)
Theorem C48_unrelated_events_leave_constraints_alone_refuted : exists act deact active e,
  contains e act = false /\ contains e deact = false /\ treat_found act deact active e <> active.
Proof. exact found_refuted. Qed.
Print Assumptions C48_unrelated_events_leave_constraints_alone_refuted.

(* witness on a run: desactivated by its own event, switched on again by the next unrelated one; not so once repaired *)
Theorem C48_desactivated_constraint_stays_off_refuted :
  run_events treat_found [] [1] true [1; 2] = true /\ run_events treat_spec [] [1] true [1; 2] = false.
Proof. exact found_reactivated. Qed.
Print Assumptions C48_desactivated_constraint_stays_off_refuted.

(* what the code as found does: every event but a desactivating one switches the constraint on *)
Theorem C48_found_any_event_activates : forall act deact active e, contains e deact = false -> treat_found act deact active e = true.
Proof. exact found_any_event_activates. Qed.
Print Assumptions C48_found_any_event_activates.

(* once repaired (the specification) *)
Theorem C48_unrelated_events_leave_constraints_alone_once_repaired : forall act deact es active,
  (forall e, In e es -> contains e act = false /\ contains e deact = false) -> run_events treat_spec act deact active es = active.
Proof. intros; now apply spec_unrelated_run. Qed.
Print Assumptions C48_unrelated_events_leave_constraints_alone_once_repaired.

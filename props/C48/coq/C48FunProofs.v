From Coq Require Import QArith List Bool Lia Lqa.
From C48 Require Import C48Model C48Spec C48Proofs C48FunModel.
Import ListNotations.
Local Open Scope Q_scope.

(* the value at t depends only on t and on the values at t of the evolutions of the manager *)
Lemma feval_agree e : forall env env' t, (forall i, nth i env (fun _ => 0) t == nth i env' (fun _ => 0) t) ->
  feval e env t == feval e env' t.
Proof.
  induction e; intros env env' t H; simpl; try reflexivity; try apply H;
    rewrite (IHe1 env env' t H), (IHe2 env env' t H); reflexivity.
Qed.

(* a formula that names t only through other evolutions has the same value at two times where those evolutions agree *)
Lemma feval_no_t e : forall env t t', no_t e = true -> (forall i, nth i env (fun _ => 0) t == nth i env (fun _ => 0) t') ->
  feval e env t == feval e env t'.
Proof.
  induction e; intros env t t' N H; simpl in *; try reflexivity; try discriminate; try apply H;
    apply andb_true_iff in N; destruct N as (N1 & N2);
    rewrite (IHe1 env t t' N1 H), (IHe2 env t t' N2 H); reflexivity.
Qed.

Definition after_last (tb : table) (t : Q) : Prop := tb <> [] /\ forall p, In p tb -> fst p < t.

Lemma lpi_evo_after tb t t' : after_last tb t -> after_last tb t' -> lpi_evo tb t = lpi_evo tb t'.
Proof.
  intros (Hn & H) (_ & H'). destruct (exists_last Hn) as (l & (xl, yl) & ->).
  unfold lpi_evo. now rewrite (lpi_after l xl yl t H), (lpi_after l xl yl t' H').
Qed.

(* mixed LPI / function evolution: after the last point of every table it depends on, a formula without `t` keeps its value *)
Lemma fun_of_lpi_held tbs e t t' : no_t e = true -> (forall tb, In tb tbs -> after_last tb t /\ after_last tb t') ->
  feval e (map lpi_evo tbs) t == feval e (map lpi_evo tbs) t'.
Proof.
  intros N H. apply feval_no_t; [exact N|]. intros i.
  change (fun _ : Q => 0) with (lpi_evo []). rewrite !map_nth.
  destruct (Nat.lt_ge_cases i (length tbs)) as [L|L].
  - destruct (H (nth i tbs [])) as (A & B); [now apply nth_In|].
    rewrite (lpi_evo_after _ t t' A B). reflexivity.
  - rewrite nth_overflow by exact L. reflexivity.
Qed.

(* FunctionEvolution::isConstant: no `t` and only constant evolutions => the same value at all times *)
Lemma fun_constant e env t t' : no_t e = true -> (forall i a b, nth i env (fun _ => 0) a == nth i env (fun _ => 0) b) ->
  feval e env t == feval e env t'.
Proof. intros N H. apply feval_no_t; [exact N|]. intros i. apply H. Qed.

(* C48 -- events: compiled when the real ConstraintBase::treatEvent leaves a constraint alone on an event that is not one of its own *)
From Coq Require Import List Bool Arith.
From C48 Require Import C48EvtModel C48EvtProofs.
Import ListNotations.

Theorem C48_unrelated_events_leave_constraints_alone : forall act deact es active,
  (forall e, In e es -> contains e act = false /\ contains e deact = false) -> run_events treat_spec act deact active es = active.
Proof. intros; now apply spec_unrelated_run. Qed.
Print Assumptions C48_unrelated_events_leave_constraints_alone.

Theorem C48_desactivated_constraint_stays_off : forall act deact e es,
  contains e deact = true -> (forall x, In x es -> contains x act = false) -> run_events treat_spec act deact true (e :: es) = false.
Proof. exact spec_stays_off. Qed.
Print Assumptions C48_desactivated_constraint_stays_off.

Theorem C48_activating_event_switches_on : forall act deact active e,
  contains e act = true -> contains e deact = false -> treat_spec act deact active e = true.
Proof. exact spec_activating. Qed.
Print Assumptions C48_activating_event_switches_on.

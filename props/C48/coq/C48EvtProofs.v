From Coq Require Import List Bool Arith.
From C48 Require Import C48EvtModel.
Import ListNotations.

Lemma spec_unrelated act deact active e : contains e act = false -> contains e deact = false -> treat_spec act deact active e = active.
Proof. intros A D. unfold treat_spec. now rewrite D, A. Qed.

Lemma spec_activating act deact active e : contains e act = true -> contains e deact = false -> treat_spec act deact active e = true.
Proof. intros A D. unfold treat_spec. now rewrite D, A. Qed.

Lemma spec_desactivating act deact active e : contains e deact = true -> treat_spec act deact active e = false.
Proof. intros D. unfold treat_spec. now rewrite D. Qed.

(* a sequence of events none of which concerns the constraint leaves its activity unchanged *)
Lemma spec_unrelated_run act deact es : forall active,
  (forall e, In e es -> contains e act = false /\ contains e deact = false) -> run_events treat_spec act deact active es = active.
Proof.
  unfold run_events. induction es as [|e es IH]; intros active H; [reflexivity|]. simpl.
  destruct (H e (or_introl eq_refl)) as (A & D). rewrite (spec_unrelated _ _ _ _ A D). apply IH. intros x Hx. apply H. now right.
Qed.

(* once desactivated, a constraint stays off until one of ITS activating events *)
Lemma spec_stays_off act deact e es :
  contains e deact = true -> (forall x, In x es -> contains x act = false) -> run_events treat_spec act deact true (e :: es) = false.
Proof.
  intros D H. unfold run_events. simpl. rewrite (spec_desactivating _ _ _ _ D).
  induction es as [|x es IH]; [reflexivity|]. simpl.
  assert (E : treat_spec act deact false x = false).
  { unfold treat_spec. destruct (contains x deact); [reflexivity|]. now rewrite (H x (or_introl eq_refl)). }
  rewrite E. apply IH. intros y Hy. apply H. now right.
Qed.

(* the code as found: an event that is not a desactivating event switches the constraint ON, whatever it is *)
Lemma found_any_event_activates act deact active e : contains e deact = false -> treat_found act deact active e = true.
Proof. intros D. unfold treat_found. now rewrite D. Qed.

Lemma found_refuted : exists act deact active e,
  contains e act = false /\ contains e deact = false /\ treat_found act deact active e <> active.
Proof. exists [], [1], false, 2. repeat split; discriminate. Qed.

(* desactivated by its event 1, then the unrelated event 2: on again *)
Lemma found_reactivated : run_events treat_found [] [1] true [1; 2] = true /\ run_events treat_spec [] [1] true [1; 2] = false.
Proof. split; reflexivity. Qed.

(* the two agree exactly on the events that desactivate, and on the others when the constraint ends up active under the specification *)
Lemma found_vs_spec act deact active e : treat_found act deact active e = treat_spec act deact active e \/
  (contains e deact = false /\ contains e act = false /\ active = false).
Proof.
  unfold treat_found, treat_spec. destruct (contains e deact); [now left|]. destruct (contains e act); [now left|].
  destruct active; [now left|right; auto].
Qed.

(* C48 -- lemmas about the Newton loop `iterate` and about the max norm in presence of NaN *)
From Coq Require Import QArith List Bool Lia Lqa Arith.
From C48 Require Import C48Model C48Spec C48Proofs.
Import ListNotations.
Local Open Scope Q_scope.

(* ------------------------------------------------------------------ iterate *)
(* u1 after the first k corrections *)
Fixpoint u_after (orc : it_oracle) (k : nat) (u : list Q) : list Q :=
  match k with
  | O => u
  | S k' => vsub (u_after orc k' u) (a_du (orc k'))
  end.

(* what a successful attempt went through: it stopped at pass k (0-based) *)
Definition success_trace (itmax : nat) (nopred : bool) (orc : it_oracle) (k : nat) : Prop :=
  (k < itmax)%nat /\ a_ok (orc k) = true /\ a_chk (orc k) = true /\ (nopred = true -> (1 <= k)%nat) /\
  forall j, (j < k)%nat -> a_ok (orc j) = true /\ ((nopred = true /\ j = O) \/ a_chk (orc j) = false).

Lemma it_loop_ok n nopred orc : forall iter u1 u10 sf v1 v10 ni u,
  (0 < n)%nat -> u1 = u_after orc iter u -> (0 < iter -> u10 = u1)%nat ->
  (forall j, (j < iter)%nat -> a_ok (orc j) = true /\ ((nopred = true /\ j = O) \/ a_chk (orc j) = false)) ->
  it_loop n nopred orc iter u1 u10 = ItOk sf v1 v10 ni ->
  exists k, ni = S k /\ (iter <= k)%nat /\ success_trace (iter + n) nopred orc k /\ sf = a_sf (orc k) /\
            v1 = u_after orc (S k) u /\ (0 < k -> v10 = u_after orc k u)%nat /\ (k = O -> v10 = u10).
Proof.
  induction n as [|n IH]; intros iter u1 u10 sf v1 v10 ni u Hn Hu Hu10 Hprev H; [lia|].
  cbn [it_loop] in H.
  destruct (a_ok (orc iter)) eqn:Eok; cbn [negb] in H; [|discriminate].
  destruct ((if nopred then (1 <? S iter)%nat else true) && a_chk (orc iter)) eqn:Ec.
  - injection H as <- <- <- <-. apply andb_true_iff in Ec. destruct Ec as (E1 & E2).
    exists iter. repeat split; auto; try lia.
    + intros ->. apply Nat.ltb_lt in E1. lia.
    + apply Hprev; auto.
    + apply Hprev; auto.
    + cbn [u_after]. now rewrite Hu.
    + intros Hi. rewrite Hu10 by exact Hi. exact Hu.
  - destruct n as [|n']; [discriminate|].
    assert (Hnc : (nopred = true /\ iter = O) \/ a_chk (orc iter) = false).
    { apply andb_false_iff in Ec. destruct Ec as [E|E]; [|now right].
      left. destruct nopred; [|discriminate]. split; auto. apply Nat.ltb_ge in E. lia. }
    apply (IH (S iter) _ _ sf v1 v10 ni u) in H; try lia.
    + destruct H as (k & -> & Hk & T & Hsf & Hv1 & Hv10 & Hk0). destruct T as (T1 & T2 & T3 & T4 & T5).
      exists k. split; [reflexivity|]. split; [lia|]. split; [|split; [exact Hsf|split; [exact Hv1|split; [exact Hv10|intros ->; lia]]]].
      split; [lia|]. split; [exact T2|]. split; [exact T3|]. split; [exact T4|exact T5].
    + cbn [u_after]. now rewrite Hu.
    + reflexivity.
    + intros j Hj. destruct (Nat.eq_dec j iter) as [->|Hne]; [split; auto|apply Hprev; lia].
Qed.

(* a successful attempt ended on a pass whose checkConvergence answered true (and which is not the first pass when there is no
   prediction); every earlier pass was refused; at most iterMax passes; u1 is the start value minus all corrections; u10 is
   the iterate before the last correction *)
Lemma iterate_ok itmax nopred orc u sf v1 v10 ni : (0 < itmax)%nat ->
  iterate itmax nopred orc u = ItOk sf v1 v10 ni ->
  exists k, ni = S k /\ success_trace itmax nopred orc k /\ sf = a_sf (orc k) /\ v1 = u_after orc (S k) u /\ v10 = u_after orc k u.
Proof.
  intros Hm H. unfold iterate in H.
  apply (it_loop_ok itmax nopred orc 0%nat u u sf v1 v10 ni u) in H; auto; try lia.
  destruct H as (k & -> & _ & T & Hsf & Hv1 & Hv10 & Hk0). exists k.
  split; [reflexivity|]. split; [exact T|]. split; [exact Hsf|]. split; [exact Hv1|].
  destruct k; [cbn [u_after]; now apply Hk0|apply Hv10; lia].
Qed.

Lemma it_loop_niter n nopred orc : forall iter u1 u10,
  (0 < n)%nat -> match it_loop n nopred orc iter u1 u10 with ItOk _ _ _ ni | ItFail _ _ _ ni => (iter < ni <= iter + n)%nat end.
Proof.
  induction n as [|n IH]; intros iter u1 u10 Hn; [lia|]. cbn [it_loop].
  destruct (negb (a_ok (orc iter))); [lia|].
  destruct ((if nopred then (1 <? S iter)%nat else true) && a_chk (orc iter)); [lia|].
  destruct n as [|n']; [lia|]. specialize (IH (S iter) (vsub u1 (a_du (orc iter))) (vsub u1 (a_du (orc iter)))).
  destruct (it_loop (S n') nopred orc (S iter) _ _); lia.
Qed.

Lemma iterate_niter itmax nopred orc u : (0 < itmax)%nat ->
  match iterate itmax nopred orc u with ItOk _ _ _ ni | ItFail _ _ _ ni => (1 <= ni <= itmax)%nat end.
Proof. intros H. unfold iterate. pose proof (it_loop_niter itmax nopred orc 0%nat u u H). destruct (it_loop _ _ _ _ _ _); lia. Qed.

(* if the answers of checkConvergence are those of the convergence predicate evaluated on the corrected unknowns, a successful
   attempt leaves every imposed gradient within eeps of its value and every imposed force within seps *)
Lemma iterate_ok_loadings itmax nopred orc u sf v1 v10 ni eeps seps igrad iforce (res s1 : nat -> list Q) : (0 < itmax)%nat ->
  (forall k, a_chk (orc k) = true -> converged eeps seps (a_du (orc k)) (res k) (u_after orc (S k) u) (s1 k) igrad iforce = true) ->
  iterate itmax nopred orc u = ItOk sf v1 v10 ni ->
  exists k, ni = S k /\ norm_inf (a_du (orc k)) <= eeps /\ norm_inf (res k) <= seps /\
    (forall c v, In (c, v) igrad -> Qabs' (nth c v1 0 - v) < eeps) /\
    (forall c v, In (c, v) iforce -> Qabs' (nth c (s1 k) 0 - v) < seps).
Proof.
  intros Hm Hc H. destruct (iterate_ok _ _ _ _ _ _ _ _ Hm H) as (k & -> & T & _ & -> & _).
  destruct T as (_ & _ & Tc & _). apply Hc in Tc. apply converged_sound in Tc. exists k. tauto.
Qed.

(* ------------------------------------------------------------------ max norm and NaN *)
Lemma flt_some a b : flt (Some a) (Some b) = Qltb a b. Proof. reflexivity. Qed.

(* without NaN both variants are the exact max norm *)
Lemma norms_without_nan v : norm_found (map Some v) = Some (norm_inf v) /\ norm_fixed (map Some v) = Some (norm_inf v).
Proof.
  unfold norm_found, norm_fixed, norm_inf. split.
  - generalize 0. induction v as [|a l IH]; intros n; [reflexivity|]. cbn [map fold_left].
    replace (std_max (Some n) (fabs (Some a))) with (Some (smax n (Qabs' a))); [apply IH|].
    unfold std_max, smax. cbn [fabs option_map flt]. now destruct (Qltb n (Qabs' a)).
  - assert (E : forall n a, (if flt (Some n) (fabs (Some a)) || isnan (fabs (Some a)) then fabs (Some a) else Some n) = Some (smax n (Qabs' a))).
    { intros n a. unfold smax. cbn [fabs option_map flt isnan]. rewrite orb_false_r. now destruct (Qltb n (Qabs' a)). }
    generalize 0. induction v as [|a l IH]; intros n; [reflexivity|]. cbn [map fold_left]. rewrite E. apply IH.
Qed.

Definition finite_le (eps : Q) (x : fval) : Prop := exists q, x = Some q /\ Qabs' q <= eps.

Lemma norm_fixed_spec : forall v n0,
  match fold_left (fun n x => if flt n (fabs x) || isnan (fabs x) then fabs x else n) v n0 with
  | None => True
  | Some m => (exists q0, n0 = Some q0 /\ q0 <= m) /\ Forall (finite_le m) v
  end.
Proof.
  induction v as [|x v IH]; intros n0; cbn [fold_left].
  - destruct n0; auto. split; [eexists; split; [reflexivity|lra]|constructor].
  - specialize (IH (if flt n0 (fabs x) || isnan (fabs x) then fabs x else n0)).
    destruct (fold_left _ v _) as [m|]; auto. destruct IH as ((q0 & E & Hq) & F).
    destruct x as [qx|]; cbn [fabs option_map isnan] in E.
    + rewrite orb_false_r in E. destruct n0 as [qn|]; cbn [flt] in E.
      * destruct (Qltb qn (Qabs' qx)) eqn:L; injection E as <-.
        -- apply Qltb_lt in L. split; [eexists; split; [reflexivity|lra]|]. constructor; auto. exists qx; split; auto.
        -- apply Qltb_ge in L. split; [eexists; split; [reflexivity|lra]|]. constructor; auto. exists qx; split; auto. lra.
      * discriminate.
    + rewrite orb_true_r in E. discriminate.
Qed.

(* repaired norm: an accepted increment / residual has only finite components, each within the tolerance *)
Lemma accept_fixed_sound eeps seps du r : accept_norms norm_fixed eeps seps du r = true ->
  Forall (finite_le eeps) du /\ Forall (finite_le seps) r.
Proof.
  unfold accept_norms, norm_fixed. intros H.
  pose proof (norm_fixed_spec du (Some 0)) as Hd. pose proof (norm_fixed_spec r (Some 0)) as Hr.
  set (fd := fold_left (fun n x => if flt n (fabs x) || isnan (fabs x) then fabs x else n) du (Some 0)) in *.
  set (fr := fold_left (fun n x => if flt n (fabs x) || isnan (fabs x) then fabs x else n) r (Some 0)) in *.
  destruct fd as [ne|]; [|discriminate]. destruct fr as [nr|]; [|discriminate].
  apply andb_true_iff in H. destruct H as (H1 & H2). apply negb_true_iff in H1, H2. apply Qltb_ge in H1, H2.
  destruct Hd as (_ & Fd). destruct Hr as (_ & Fr). split.
  - eapply Forall_impl; [|exact Fd]. intros x (q & -> & Hq). exists q; split; auto. lra.
  - eapply Forall_impl; [|exact Fr]. intros x (q & -> & Hq). exists q; split; auto. lra.
Qed.

(* norm as found: a NaN increment is accepted *)
Lemma accept_found_unsound : exists eeps seps du r, accept_norms norm_found eeps seps du r = true /\ In None du.
Proof. exists 1, 1, [None; Some 0], [None]. split; [reflexivity|simpl; auto]. Qed.

(* ... whereas the repaired norm refuses any increment or residual containing a NaN *)
Lemma accept_fixed_refuses_nan eeps seps du r : In None du \/ In None r -> accept_norms norm_fixed eeps seps du r = false.
Proof.
  intros H. destruct (accept_norms norm_fixed eeps seps du r) eqn:E; auto.
  apply accept_fixed_sound in E. destruct E as (Fd & Fr). rewrite Forall_forall in Fd, Fr.
  destruct H as [H|H]; [destruct (Fd _ H) as (q & Hq & _)|destruct (Fr _ H) as (q & Hq & _)]; discriminate.
Qed.

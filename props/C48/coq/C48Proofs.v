From Coq Require Import QArith List Bool Lia Lqa.
From C48 Require Import C48Model C48Spec.
Import ListNotations.
Local Open Scope Q_scope.

Lemma Qltb_lt a b : Qltb a b = true <-> a < b.
Proof. unfold Qltb. rewrite negb_true_iff. split; intros H.
  - apply Qnot_le_lt. intros L. apply Qle_bool_iff in L. congruence.
  - destruct (Qle_bool b a) eqn:E; auto. apply Qle_bool_iff in E. lra. Qed.
Lemma Qltb_ge a b : Qltb a b = false <-> b <= a.
Proof. unfold Qltb. rewrite negb_false_iff. apply Qle_bool_iff. Qed.
Lemma Qleb_gt a b : Qle_bool a b = false <-> b < a.
Proof. split; intros H.
  - apply Qnot_le_lt. intros L. apply Qle_bool_iff in L. congruence.
  - destruct (Qle_bool a b) eqn:E; auto. apply Qle_bool_iff in E. lra. Qed.

(* ------------------------------------------------------------------ LPI *)
Lemma last_indep {A} (p : A) l d d' : last (p :: l) d = last (p :: l) d'.
Proof. revert p. induction l as [|a l IH]; intros p; [reflexivity|]. change (last (a :: l) d = last (a :: l) d'). apply IH. Qed.

Lemma lpi_go_skip t pre : forall prev rest, (forall p, In p pre -> fst p < t) ->
  lpi_go prev (pre ++ rest) t = lpi_go (last pre prev) rest t.
Proof.
  induction pre as [|[x y] pre IH]; intros prev rest H; [reflexivity|].
  assert (Hx : x < t) by (apply (H (x, y)); simpl; auto).
  apply Qleb_gt in Hx. change (((x, y) :: pre) ++ rest) with ((x, y) :: (pre ++ rest)). cbn [lpi_go]. rewrite Hx.
  rewrite IH by (intros; apply H; simpl; auto).
  destruct pre as [|p pre]; [reflexivity|]. f_equal.
  change (last ((x, y) :: p :: pre) prev) with (last (p :: pre) prev). apply last_indep.
Qed.

Lemma increasing_app_inv l1 l2 : increasing (l1 ++ l2) ->
  increasing l2 /\ (forall p q, In p l1 -> In q l2 -> fst p < fst q).
Proof.
  induction l1 as [|a l1 IH]; simpl; intros H.
  - split; auto. intros ? ? [].
  - destruct H as (H1 & H2). destruct (IH H2) as (I1 & I2). split; auto.
    intros p q [<-|Hp] Hq; [apply H1, in_or_app; auto | now apply I2].
Qed.

(* linear between two consecutive nodes *)
Lemma lpi_between pre x0 y0 x1 y1 post t :
  increasing (pre ++ (x0, y0) :: (x1, y1) :: post) -> x0 < t -> t <= x1 ->
  exists v, lpi (pre ++ (x0, y0) :: (x1, y1) :: post) t = Some v /\ v == on_segment x0 y0 x1 y1 t.
Proof.
  intros Hi H0 H1. destruct (increasing_app_inv _ _ Hi) as (I2 & I1).
  assert (Hx : x0 < x1) by (simpl in I2; destruct I2 as (I2 & _); apply (I2 (x1, y1)); simpl; auto).
  assert (V : (y1 - y0) / (x1 - x0) * (t - x0) + y0 == on_segment x0 y0 x1 y1 t) by (unfold on_segment; field; lra).
  apply Qle_bool_iff in H1.
  destruct pre as [|[px py] pre].
  - simpl. apply Qleb_gt in H0. rewrite H0. simpl. rewrite H1. eexists; split; [reflexivity|exact V].
  - simpl. assert (Hp : px < t).
    { assert (px < x0) by (apply (I1 (px, py) (x0, y0)); simpl; auto). lra. }
    apply Qleb_gt in Hp. rewrite Hp.
    replace (pre ++ (x0, y0) :: (x1, y1) :: post) with ((pre ++ [(x0, y0)]) ++ (x1, y1) :: post) by (now rewrite <- app_assoc).
    rewrite lpi_go_skip.
    + rewrite last_last. simpl. rewrite H1. eexists; split; [reflexivity|exact V].
    + intros p Hin. apply in_app_or in Hin. destruct Hin as [Hin|[<-|[]]]; [|exact H0].
      assert (fst p < x0) by (apply (I1 p (x0, y0)); simpl; auto). lra.
Qed.

(* constant before the first node *)
Lemma lpi_before x0 y0 r t : t <= x0 -> lpi ((x0, y0) :: r) t = Some y0.
Proof. intros H. simpl. apply Qle_bool_iff in H. now rewrite H. Qed.

(* constant after the last node *)
Lemma lpi_after tb xl yl t : (forall p, In p (tb ++ [(xl, yl)]) -> fst p < t) -> lpi (tb ++ [(xl, yl)]) t = Some yl.
Proof.
  intros H. destruct tb as [|[x y] tb]; simpl.
  - assert (X : xl < t) by (apply (H (xl, yl)); simpl; auto). apply Qleb_gt in X. now rewrite X.
  - assert (X : x < t) by (apply (H (x, y)); simpl; auto). apply Qleb_gt in X. rewrite X.
    rewrite <- (app_nil_r (tb ++ [(xl, yl)])). rewrite lpi_go_skip.
    + now rewrite last_last.
    + intros p Hp. apply H. simpl. auto.
Qed.

(* value at a node *)
Lemma lpi_node tb x y : increasing tb -> In (x, y) tb -> exists v, lpi tb x = Some v /\ v == y.
Proof.
  intros Hi Hin. apply in_split in Hin. destruct Hin as (l1 & l2 & ->).
  destruct l1 as [|a l1] using rev_ind.
  - simpl. exists y. rewrite (proj2 (Qle_bool_iff x x)) by lra. split; [reflexivity|lra].
  - clear IHl1. destruct a as [x0 y0]. rewrite <- app_assoc in *. simpl in *.
    destruct (increasing_app_inv _ _ Hi) as (I2 & _). simpl in I2. destruct I2 as (I2 & _).
    assert (Hx : x0 < x) by (apply (I2 (x, y)); simpl; auto).
    destruct (lpi_between l1 x0 y0 x y l2 x Hi Hx) as (v & E & V); [lra|].
    exists v. split; auto. rewrite V. unfold on_segment. field. lra.
Qed.

(* the table built by the constructor is increasing *)
Lemma ins_in x y tb p : In p (ins x y tb) -> p = (x, y) \/ In p tb.
Proof.
  induction tb as [|[x0 y0] r IH]; simpl.
  - intros [<-|[]]; auto.
  - destruct (Qltb x x0). { intros [<-|H]; auto. }
    destruct (Qeq_bool x x0). { auto. }
    intros [<-|H]; auto. destruct (IH H); auto.
Qed.

Lemma ins_increasing x y tb : increasing tb -> increasing (ins x y tb).
Proof.
  induction tb as [|[x0 y0] r IH]; simpl; intros H.
  - split; auto. intros ? [].
  - destruct H as (H1 & H2). destruct (Qltb x x0) eqn:E1.
    + apply Qltb_lt in E1. simpl. split; [|split; auto].
      intros q [<-|Hq]; simpl; auto. specialize (H1 q Hq). simpl in H1. lra.
    + apply Qltb_ge in E1. destruct (Qeq_bool x x0) eqn:E2.
      * simpl. split; auto.
      * simpl. split; [|now apply IH].
        intros q Hq. destruct (ins_in _ _ _ _ Hq) as [->|Hq']; [|now apply H1].
        simpl. assert (~ x == x0) by (intros Q; apply Qeq_bool_iff in Q; congruence). lra.
Qed.

Lemma build_increasing ts vs : increasing (build ts vs).
Proof.
  unfold build. assert (G : forall l tb, increasing tb -> increasing (fold_left (fun tb p => ins (fst p) (snd p) tb) l tb)).
  { induction l; simpl; auto. intros tb H. apply IHl. now apply ins_increasing. }
  apply G. exact I.
Qed.

(* ------------------------------------------------------------------ time loop *)
Definition exit_cond (te teps tend : Q) : Prop := Qabs' (te - tend) < teps \/ te < tend.
Definition step_ok (o : opts) (s : Q * Q) : Prop := 0 <= snd s /\ min_dt o <= snd s.

Lemma loop_done fuel o orc te teps : forall k t dt sub acc steps tend nf,
  loop fuel o orc te teps k t dt sub acc = Done steps tend nf ->
  exists news, steps = rev acc ++ news /\ chain t news tend /\ exit_cond te teps tend /\
               (sub <= nf)%nat /\ ((sub < msub o)%nat -> (nf < msub o)%nat) /\
               (forall s, In s news -> s = (t, dt) \/ step_ok o s).
Proof.
  induction fuel as [|f IH]; intros k t dt sub acc steps tend nf H; [discriminate|].
  cbn [loop] in H. destruct (orc k t dt) as [ok r].
  destruct (if dyn o then ok && Qle_bool aone r else ok).
  - (* accepted *)
    destruct (Qltb (Qabs' (te - (t + dt))) teps || Qltb te (t + dt)) eqn:E.
    + inversion H; subst. exists [(t, dt)]. simpl.
      repeat split; auto.
      * apply orb_true_iff in E. destruct E as [E|E]; apply Qltb_lt in E; [left|right]; auto.
      * intros s [<-|[]]; auto.
    + destruct (Qltb _ 0) eqn:N; [discriminate|]. destruct (Qltb _ (min_dt o)) eqn:M; [discriminate|].
      apply IH in H. destruct H as (news & -> & C & X & L1 & L2 & S).
      exists ((t, dt) :: news). simpl. rewrite <- app_assoc. simpl. repeat split; auto.
      intros s [<-|Hs]; auto. right. destruct (S s Hs) as [->|Ok]; auto.
      apply Qltb_ge in N. apply Qltb_ge in M. split; simpl; auto.
  - (* rejected *)
    destruct (Nat.eqb (S sub) (msub o)) eqn:Eq; [discriminate|].
    destruct (Qltb _ 0) eqn:N; [discriminate|]. destruct (Qltb _ (min_dt o)) eqn:M; [discriminate|].
    apply IH in H. destruct H as (news & -> & C & X & L1 & L2 & S).
    exists news. apply Nat.eqb_neq in Eq. repeat split; auto; try lia.
    intros s Hs. right. destruct (S s Hs) as [->|Ok]; auto.
    apply Qltb_ge in N. apply Qltb_ge in M. split; simpl; auto.
Qed.

(* a run that raises "maximum number of sub stepping reached" has rejected exactly mSubSteps attempts *)
Lemma loop_maxsub fuel o orc te teps : forall k t dt sub acc steps nf,
  (sub < msub o)%nat ->
  loop fuel o orc te teps k t dt sub acc = Raised MaxSubSteps steps nf -> nf = msub o.
Proof.
  induction fuel as [|f IH]; intros k t dt sub acc steps nf Hs H; [discriminate|].
  cbn [loop] in H. destruct (orc k t dt) as [ok r].
  destruct (if dyn o then ok && Qle_bool aone r else ok).
  - destruct (_ || _); [discriminate|].
    destruct (Qltb _ 0); [discriminate|]. destruct (Qltb _ (min_dt o)); [discriminate|]. eapply IH; [|exact H]. exact Hs.
  - destruct (Nat.eqb (S sub) (msub o)) eqn:Eq.
    + inversion H; subst. now apply Nat.eqb_eq in Eq.
    + destruct (Qltb _ 0); [discriminate|]. destruct (Qltb _ (min_dt o)); [discriminate|].
      apply Nat.eqb_neq in Eq. eapply IH; [|exact H]. lia.
Qed.

(* no overshoot, dynamic time step scaling: dt <= te - t at every attempt *)
Lemma adjust_dyn_le o te t d : dyn o = true -> 0 <= min_dt o -> adjust o te t d <= te - t.
Proof.
  intros D Hm. unfold adjust. rewrite D.
  destruct (Qltb (te - t - min_dt o) _) eqn:E; [lra|]. apply Qltb_ge in E. lra.
Qed.

Lemma loop_no_overshoot_dyn fuel o orc te teps : dyn o = true -> 0 <= min_dt o ->
  forall k t dt sub acc steps tend nf, dt <= te - t ->
  loop fuel o orc te teps k t dt sub acc = Done steps tend nf -> tend <= te.
Proof.
  intros D Hm. induction fuel as [|f IH]; intros k t dt sub acc steps tend nf Hd H; [discriminate|].
  cbn [loop] in H. destruct (orc k t dt) as [ok r].
  destruct (if dyn o then ok && Qle_bool aone r else ok).
  - destruct (_ || _).
    + inversion H; subst. lra.
    + destruct (Qltb _ 0); [discriminate|]. destruct (Qltb _ (min_dt o)); [discriminate|].
      eapply IH; [|exact H]. now apply adjust_dyn_le.
  - destruct (Nat.eqb (S sub) (msub o)); [discriminate|].
    destruct (Qltb _ 0); [discriminate|]. destruct (Qltb _ (min_dt o)); [discriminate|].
    eapply IH; [|exact H]. now apply adjust_dyn_le.
Qed.

(* no overshoot, plain bisection: te - t stays a positive integer multiple of dt *)
Lemma inject_pred m : m <> 1%positive -> inject_Z (Zpos (Pos.pred m)) == inject_Z (Zpos m) - 1.
Proof.
  intros H. rewrite Pos2Z.inj_pred by exact H. rewrite <- Z.sub_1_r.
  unfold Z.sub. rewrite inject_Z_plus, inject_Z_opp. reflexivity.
Qed.
Lemma inject_double m : inject_Z (Zpos (m~0)) == 2 * inject_Z (Zpos m).
Proof. rewrite Pos2Z.inj_xO, inject_Z_mult. reflexivity. Qed.
Lemma inject_pos_ge1 m : 1 <= inject_Z (Zpos m).
Proof. change 1 with (inject_Z 1). rewrite <- Zle_Qle. lia. Qed.

Lemma loop_no_overshoot_static fuel o orc te teps : dyn o = false -> 0 < teps ->
  forall k t dt sub acc steps tend nf (m : positive), 0 < dt -> te - t == inject_Z (Zpos m) * dt ->
  loop fuel o orc te teps k t dt sub acc = Done steps tend nf -> tend <= te.
Proof.
  intros D Ht. induction fuel as [|f IH]; intros k t dt sub acc steps tend nf m Hd Hm H; [discriminate|].
  cbn [loop] in H. destruct (orc k t dt) as [ok r]. rewrite D in H. unfold adjust in H. rewrite D in H.
  pose proof (inject_pos_ge1 m) as M1.
  destruct ok.
  - destruct (_ || _) eqn:E.
    + inversion H; subst. clear H. nra.
    + destruct (Qltb dt 0); [discriminate|]. destruct (Qltb dt (min_dt o)); [discriminate|].
      destruct (Pos.eq_dec m 1) as [->|Hne].
      * exfalso. change (inject_Z 1) with 1 in Hm. apply orb_false_iff in E. destruct E as (E & _).
        apply Qltb_ge in E. unfold Qabs' in E.
        destruct (Qltb (te - (t + dt)) 0) eqn:S; [apply Qltb_lt in S; lra|lra].
      * apply (IH _ _ _ _ _ _ _ _ (Pos.pred m)) in H; auto.
        rewrite (inject_pred _ Hne). nra.
  - destruct (Nat.eqb (S sub) (msub o)); [discriminate|].
    destruct (Qltb _ 0); [discriminate|]. destruct (Qltb _ (min_dt o)); [discriminate|].
    apply (IH _ _ _ _ _ _ _ _ (m~0)%positive) in H; auto; [lra|].
    rewrite inject_double. nra.
Qed.

(* ------------------------------------------------------------------ execute *)
Definition t_eps (ti te : Q) : Q := (te - ti) * 100 * dbl_eps.

Lemma execute_done fuel o orc ti te steps tend nf :
  execute fuel o orc ti te = Done steps tend nf ->
  chain ti steps tend /\ exit_cond te (t_eps ti te) tend /\ (nf < msub o)%nat /\
  (forall s, In s steps -> s = (ti, te - ti) \/ step_ok o s).
Proof.
  unfold execute. destruct (Qltb (te - ti) 0); [discriminate|].
  destruct (Nat.eqb 0 (msub o)) eqn:E; [discriminate|]. apply Nat.eqb_neq in E.
  intros H. apply loop_done in H. destruct H as (news & -> & C & X & _ & L & S).
  simpl. repeat split; auto. apply L. lia.
Qed.

Lemma execute_maxsub fuel o orc ti te steps nf :
  execute fuel o orc ti te = Raised MaxSubSteps steps nf -> nf = msub o.
Proof.
  unfold execute. destruct (Qltb (te - ti) 0); [discriminate|].
  destruct (Nat.eqb 0 (msub o)) eqn:E; [discriminate|]. apply Nat.eqb_neq in E.
  apply loop_maxsub. lia.
Qed.

Lemma execute_reaches_te fuel o orc ti te steps tend nf : ti < te ->
  (dyn o = true -> 0 <= min_dt o) ->
  execute fuel o orc ti te = Done steps tend nf -> tend <= te /\ te - tend < t_eps ti te.
Proof.
  intros Hlt Hm H. pose proof (execute_done _ _ _ _ _ _ _ _ H) as (_ & X & _).
  assert (Hte : 0 < t_eps ti te). { unfold t_eps, dbl_eps. apply Qmult_lt_0_compat; [|reflexivity]. lra. }
  assert (L : tend <= te).
  { unfold execute in H. destruct (Qltb (te - ti) 0); [discriminate|].
    destruct (Nat.eqb 0 (msub o)); [discriminate|].
    destruct (dyn o) eqn:D.
    - eapply loop_no_overshoot_dyn; eauto. lra.
    - eapply (loop_no_overshoot_static _ _ _ _ _ D Hte _ _ _ _ _ _ _ _ 1%positive); [| |exact H].
      + lra.
      + change (inject_Z 1) with 1. lra. }
  split; auto. destruct X as [X|X]; [|lra].
  unfold Qabs' in X. destruct (Qltb (te - tend) 0) eqn:S; [apply Qltb_lt in S; lra|exact X].
Qed.

(* ------------------------------------------------------------------ convergence predicate *)
Lemma converged_sound eeps seps du r u1 s1 igrad iforce :
  converged eeps seps du r u1 s1 igrad iforce = true ->
  norm_inf du <= eeps /\ norm_inf r <= seps /\
  (forall c v, In (c, v) igrad -> Qabs' (nth c u1 0 - v) < eeps) /\
  (forall c v, In (c, v) iforce -> Qabs' (nth c s1 0 - v) < seps).
Proof.
  unfold converged. rewrite !andb_true_iff, !negb_true_iff, !forallb_forall.
  intros (((A & B) & C) & D). repeat split.
  - now apply Qltb_ge.
  - now apply Qltb_ge.
  - intros c v H. apply Qltb_lt. apply (C (c, v) H).
  - intros c v H. apply Qltb_lt. apply (D (c, v) H).
Qed.

(* norm_inf bounds every component *)
Lemma norm_inf_bound v : forall x, In x v -> Qabs' x <= norm_inf v.
Proof.
  unfold norm_inf.
  assert (G : forall l n, n <= fold_left (fun n x => smax n (Qabs' x)) l n /\
                          forall x, In x l -> Qabs' x <= fold_left (fun n x => smax n (Qabs' x)) l n).
  { induction l as [|a l IH]; intros n; simpl.
    - split; [lra|intros ? []].
    - destruct (IH (smax n (Qabs' a))) as (I1 & I2).
      assert (n <= smax n (Qabs' a) /\ Qabs' a <= smax n (Qabs' a)).
      { unfold smax. destruct (Qltb n (Qabs' a)) eqn:E; [apply Qltb_lt in E|apply Qltb_ge in E]; lra. }
      split; [lra|]. intros x [<-|Hx]; [lra|now apply I2]. }
  intros x Hx. now apply (proj2 (G v 0)).
Qed.

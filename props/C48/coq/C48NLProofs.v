From Coq Require Import QArith List Bool Lia Lqa.
From C48 Require Import C48Model C48Spec C48Proofs C48Newton C48NLModel.
Import ListNotations.
Local Open Scope Q_scope.

Lemma converged_nl_sound eeps seps du r u1 s1 igrad iforce nls tdt :
  converged_nl eeps seps du r u1 s1 igrad iforce nls tdt = true ->
  (norm_inf du <= eeps /\ norm_inf r <= seps /\
   (forall c v, In (c, v) igrad -> Qabs' (nth c u1 0 - v) < eeps) /\
   (forall c v, In (c, v) iforce -> Qabs' (nth c s1 0 - v) < seps)) /\
  (forall c, In c nls -> nl_active c = true ->
     Qabs' (nl_fun c u1 s1 tdt) < nl_tol eeps seps (nl_pol c) /\ Qabs' (nl_fun c u1 s1 tdt) <= nl_tol eeps seps (nl_pol c)).
Proof.
  unfold converged_nl. rewrite andb_true_iff, forallb_forall. intros (A & B). split.
  - now apply converged_sound.
  - intros c Hc Ha. specialize (B c Hc). rewrite Ha in B. cbn in B. unfold nl_ok in B. apply Qltb_lt in B. split; [exact B|lra].
Qed.

(* the residual of a <Strain> constraint is within eeps, of a <Stress> constraint within seps *)
Lemma converged_nl_by_policy eeps seps du r u1 s1 igrad iforce nls tdt :
  converged_nl eeps seps du r u1 s1 igrad iforce nls tdt = true ->
  forall c, In c nls -> nl_active c = true ->
    (nl_pol c = StrainPolicy -> Qabs' (nl_fun c u1 s1 tdt) <= eeps) /\
    (nl_pol c = StressPolicy -> Qabs' (nl_fun c u1 s1 tdt) <= seps).
Proof.
  intros H c Hc Ha. destruct (proj2 (converged_nl_sound _ _ _ _ _ _ _ _ _ _ H) c Hc Ha) as (_ & L).
  split; intros E; rewrite E in L; exact L.
Qed.

(* the tolerance is sharp: a residual equal to the tolerance is refused (strict comparison) *)
Lemma nl_ok_strict eeps seps u1 s1 tdt c :
  Qabs' (nl_fun c u1 s1 tdt) == nl_tol eeps seps (nl_pol c) -> nl_ok eeps seps u1 s1 tdt c = false.
Proof.
  intros E. unfold nl_ok. destruct (Qltb _ _) eqn:L; [|reflexivity]. apply Qltb_lt in L. lra.
Qed.

(* an inactive constraint does not take part in the test *)
Lemma converged_nl_inactive eeps seps du r u1 s1 igrad iforce nls tdt :
  (forall c, In c nls -> nl_active c = false) ->
  converged_nl eeps seps du r u1 s1 igrad iforce nls tdt = converged eeps seps du r u1 s1 igrad iforce.
Proof.
  intros H. unfold converged_nl. replace (forallb _ nls) with true; [apply andb_true_r|].
  symmetry. apply forallb_forall. intros c Hc. now rewrite (H c Hc).
Qed.

(* through the Newton loop: if checkConvergence answers as the predicate on the corrected unknowns, an accepted attempt leaves
   every active non linear constraint within its tolerance on (u1 as stored, forces of the last integration, t + dt) *)
Lemma iterate_ok_nl itmax nopred orc u sf v1 v10 ni eeps seps igrad iforce nls tdt (res s1 : nat -> list Q) : (0 < itmax)%nat ->
  (forall k, a_chk (orc k) = true ->
     converged_nl eeps seps (a_du (orc k)) (res k) (u_after orc (S k) u) (s1 k) igrad iforce nls tdt = true) ->
  iterate itmax nopred orc u = ItOk sf v1 v10 ni ->
  exists k, ni = S k /\ norm_inf (a_du (orc k)) <= eeps /\ norm_inf (res k) <= seps /\
    (forall c v, In (c, v) igrad -> Qabs' (nth c v1 0 - v) < eeps) /\
    (forall c v, In (c, v) iforce -> Qabs' (nth c (s1 k) 0 - v) < seps) /\
    (forall c, In c nls -> nl_active c = true -> Qabs' (nl_fun c v1 (s1 k) tdt) <= nl_tol eeps seps (nl_pol c)).
Proof.
  intros Hm Hc H. destruct (iterate_ok _ _ _ _ _ _ _ _ Hm H) as (k & -> & T & _ & -> & _).
  destruct T as (_ & _ & Tc & _). apply Hc in Tc. apply converged_nl_sound in Tc. exists k.
  destruct Tc as ((A & B & C & D) & E). repeat split; auto. intros c Hin Ha. exact (proj2 (E c Hin Ha)).
Qed.

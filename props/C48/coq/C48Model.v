(* C48 -- executable models (definitions only), exact rational arithmetic:
   * LPIEvolution (mtest/src/Evolution.cxx): table = std::map built by insert (first value of a key wins), interpolate;
   * the time-stepping loop of GenericSolver::execute (mtest/src/GenericSolver.cxx) over a step oracle;
   * the convergence predicate of MTest::checkConvergence + ImposedGradient / ImposedThermodynamicForce ::checkConvergence. *)
From Coq Require Import QArith List Bool.
Import ListNotations.
Local Open Scope Q_scope.

(* ------------------------------------------------------------------ LPIEvolution *)
Definition table := list (Q * Q).

Definition Qltb (a b : Q) : bool := negb (Qle_bool b a).

(* std::map<real,real>::insert({x,y}) on a sorted association list *)
Fixpoint ins (x y : Q) (tb : table) : table :=
  match tb with
  | [] => [(x, y)]
  | (x0, y0) :: r => if Qltb x x0 then (x, y) :: tb
                     else if Qeq_bool x x0 then tb else (x0, y0) :: ins x y r
  end.

Definition build (ts vs : list Q) : table :=
  fold_left (fun tb p => ins (fst p) (snd p) tb) (combine ts vs) [].

(* after lower_bound: walk to the first key >= t, remembering the previous node *)
Fixpoint lpi_go (prev : Q * Q) (tb : table) (t : Q) : Q :=
  match tb with
  | [] => snd prev
  | (x1, y1) :: r => if Qle_bool t x1
                     then (y1 - snd prev) / (x1 - fst prev) * (t - fst prev) + snd prev
                     else lpi_go (x1, y1) r t
  end.

(* LPIEvolution::interpolate; None = "no values specified" *)
Definition lpi (tb : table) (t : Q) : option Q :=
  match tb with
  | [] => None
  | (x0, y0) :: r => Some (if Qle_bool t x0 then y0 else lpi_go (x0, y0) r t)
  end.

(* ------------------------------------------------------------------ GenericSolver::execute, time loop *)
Record opts := mkOpts { dyn : bool; msub : nat; min_dt : Q; max_dt : Q; min_sf : Q; max_sf : Q }.

Definition dbl_eps : Q := 1 # (2 ^ 52).
Definition aone : Q := 1 - 10 * dbl_eps.
(* std::max(a,b) = (a < b) ? b : a ; std::min(a,b) = (b < a) ? b : a *)
Definition smax (a b : Q) : Q := if Qltb a b then b else a.
Definition smin (a b : Q) : Q := if Qltb b a then b else a.
Definition Qabs' (x : Q) : Q := if Qltb x 0 then - x else x.

Inductive stop := MaxSubSteps | NegativeDt | BelowMin.
Inductive res :=
| Done (steps : list (Q * Q)) (tend : Q) (nfail : nat)      (* accepted (t, dt), final time, rejected attempts *)
| Raised (why : stop) (steps : list (Q * Q)) (nfail : nat)
| NoOp                                                        (* mSubSteps = 0: the loop body never runs *)
| Fuel.

(* step oracle: attempt number, t, dt -> (success, time step scaling factor proposed) *)
Definition oracle := nat -> Q -> Q -> bool * Q.

(* the block `if (!end) { ... }` closing every pass of the loop *)
Definition adjust (o : opts) (te t dt : Q) : Q :=
  if dyn o then
    let d := if Qltb 0 (max_dt o) then smin dt (max_dt o) else dt in
    if Qltb (te - t - min_dt o) d then te - t else d
  else dt.

Fixpoint loop (fuel : nat) (o : opts) (orc : oracle) (te teps : Q) (k : nat) (t dt : Q) (sub : nat)
         (acc : list (Q * Q)) : res :=
  match fuel with
  | O => Fuel
  | S f =>
      let (ok, r) := orc k t dt in
      let conv := if dyn o then ok && Qle_bool aone r else ok in
      if conv then
        let t' := t + dt in
        let ended := Qltb (Qabs' (te - t')) teps || Qltb te t' in
        let dt1 := if dyn o then dt * smax (smin (max_sf o) r) 1 else dt in
        if ended then Done (rev ((t, dt) :: acc)) t' sub
        else
          let dt2 := adjust o te t' dt1 in
          if Qltb dt2 0 then Raised NegativeDt (rev ((t, dt) :: acc)) sub
          else if Qltb dt2 (min_dt o) then Raised BelowMin (rev ((t, dt) :: acc)) sub
          else loop f o orc te teps (S k) t' dt2 sub ((t, dt) :: acc)
      else
        let sub' := S sub in
        if Nat.eqb sub' (msub o) then Raised MaxSubSteps (rev acc) sub'
        else
          let dt1 := if dyn o
                     then dt * (if ok then smax r (min_sf o) else smax (smin (1 # 2) r) (min_sf o))
                     else dt * (1 # 2) in
          let dt2 := adjust o te t dt1 in
          if Qltb dt2 0 then Raised NegativeDt (rev acc) sub'
          else if Qltb dt2 (min_dt o) then Raised BelowMin (rev acc) sub'
          else loop f o orc te teps (S k) t dt2 sub' acc
  end.

Definition execute (fuel : nat) (o : opts) (orc : oracle) (ti te : Q) : res :=
  let teps := (te - ti) * 100 * dbl_eps in
  let dt := te - ti in
  if Qltb dt 0 then Raised NegativeDt [] 0
  else if Nat.eqb 0 (msub o) then NoOp
  else loop fuel o orc te teps 0 ti dt 0 [].

(* ------------------------------------------------------------------ convergence predicate *)
Definition norm_inf (v : list Q) : Q := fold_left (fun n x => smax n (Qabs' x)) v 0.

(* imposed gradients / forces: (component, value of the evolution at t+dt) *)
Definition converged (eeps seps : Q) (du r u1 s1 : list Q) (igrad iforce : list (nat * Q)) : bool :=
  negb (Qltb eeps (norm_inf du)) && negb (Qltb seps (norm_inf r)) &&
  forallb (fun c => Qltb (Qabs' (nth (fst c) u1 0 - snd c)) eeps) igrad &&
  forallb (fun c => Qltb (Qabs' (nth (fst c) s1 0 - snd c)) seps) iforce.

(* ------------------------------------------------------------------ GenericSolver.cxx `iterate` (Newton branch: u1 not empty) *)
(* One attempt of the Newton loop, without acceleration algorithm.  What the Study answers at the k-th pass of the while loop
   (k = 0, 1, ...): success and time step scaling factor of computeStiffnessMatrixAndResidual, the correction du obtained
   by LUSolve (for a stiffness equal to the identity du is the residual itself), the answer of checkConvergence. *)
Record it_ans := mkAns { a_ok : bool; a_sf : Q; a_du : list Q; a_chk : bool }.
Definition it_oracle := nat -> it_ans.

(* result, time step scaling factor, u1, u10, number of passes (scs.iterations has been incremented that many times) *)
Inductive it_res :=
| ItOk (sf : Q) (u1 u10 : list Q) (niter : nat)
| ItFail (sf : Q) (u1 u10 : list Q) (niter : nat).

(* u - du; a correction shorter than u leaves the remaining unknowns unchanged (the default answer has an empty correction) *)
Fixpoint vsub (a b : list Q) : list Q :=
  match a, b with
  | x :: a', y :: b' => (x - y) :: vsub a' b'
  | _, [] => a
  | [], _ => []
  end.

(* n = iterMax - iter passes are still allowed.  nopred: the prediction policy is NOPREDICTION (convergence is then refused at
   the first pass). *)
Fixpoint it_loop (n : nat) (nopred : bool) (orc : it_oracle) (iter : nat) (u1 u10 : list Q) : it_res :=
  match n with
  | O => ItOk 0 u1 u10 iter          (* iterMax = 0: the while loop is never entered (excluded by SchemeBase's setter) *)
  | S n' =>
      let a := orc iter in
      let iter' := S iter in
      if negb (a_ok a) then ItFail (a_sf a) u1 u10 iter'
      else
        let u1' := vsub u1 (a_du a) in
        if (if nopred then Nat.ltb 1 iter' else true) && a_chk a then ItOk (a_sf a) u1' u10 iter'
        else match n' with
             | O => ItFail (a_sf a) u1' u10 iter'
             | S _ => it_loop n' nopred orc iter' u1' u1'
             end
  end.

Definition iterate (itmax : nat) (nopred : bool) (orc : it_oracle) (u : list Q) : it_res := it_loop itmax nopred orc 0 u u.

(* the step oracle of the time loop obtained from per-attempt scripts of the Newton loop *)
Definition nth_ans (l : list it_ans) : it_oracle := fun k => nth k l (mkAns true 1 [] true).
Definition newton_oracle (itmax : nat) (nopred : bool) (scripts : list (list it_ans)) : oracle :=
  fun k _ _ => match iterate itmax nopred (nth_ans (nth k scripts [])) [] with
               | ItOk sf _ _ _ => (true, sf)
               | ItFail sf _ _ _ => (false, sf)
               end.

(* ------------------------------------------------------------------ MTest_getErrorNorm / the norm part of checkConvergence with NaN *)
(* a binary64 value as far as the max norm is concerned: a finite number or NaN (None); infinities are left to execution *)
Definition fval := option Q.
Definition fabs (x : fval) : fval := option_map Qabs' x.
(* every ordered comparison with a NaN is false *)
Definition flt (a b : fval) : bool := match a, b with Some x, Some y => Qltb x y | _, _ => false end.
Definition isnan (a : fval) : bool := match a with None => true | Some _ => false end.
(* std::max(a, b) = (a < b) ? b : a *)
Definition std_max (a b : fval) : fval := if flt a b then b else a.
(* as found in mtest/src/MTest.cxx: n = std::max(n, std::abs(v(i))) *)
Definition norm_found (v : list fval) : fval := fold_left (fun n x => std_max n (fabs x)) v (Some 0).
(* as repaired (PipeTest.cxx already reads so): a = |v(i)|; if ((a > n) || (a != a)) n = a; *)
Definition norm_fixed (v : list fval) : fval :=
  fold_left (fun n x => if flt n (fabs x) || isnan (fabs x) then fabs x else n) v (Some 0).
(* MTest::checkConvergence: `if (!isfinite(ne) || !isfinite(nr)) return false; if ((ne > eeps) || (nr > seps)) return false;` *)
Definition accept_norms (norm : list fval -> fval) (eeps seps : Q) (du r : list fval) : bool :=
  match norm du, norm r with
  | Some ne, Some nr => negb (Qltb eeps ne) && negb (Qltb seps nr)
  | _, _ => false
  end.

(* C48 -- executable models (definitions only), exact rational arithmetic:
   * LPIEvolution (mtest/src/Evolution.cxx): table = std::map built by insert (first value of a key wins), interpolate;
   * the time-stepping loop of GenericSolver::execute (mtest/src/GenericSolver.cxx) over a step oracle;
   * the convergence predicate of MTest::checkConvergence + ImposedGradient / ImposedThermodynamicForce ::checkConvergence. *)
From Coq Require Import QArith List Bool.
Import ListNotations.
Local Open Scope Q_scope.

(* ------------------------------------------------------------------ LPIEvolution *)
Definition table := list (Q * Q).

Definition Qltb (a b : Q) : bool := negb (Qle_bool b a).

(* std::map<real,real>::insert({x,y}) on a sorted association list *)
Fixpoint ins (x y : Q) (tb : table) : table :=
  match tb with
  | [] => [(x, y)]
  | (x0, y0) :: r => if Qltb x x0 then (x, y) :: tb
                     else if Qeq_bool x x0 then tb else (x0, y0) :: ins x y r
  end.

Definition build (ts vs : list Q) : table :=
  fold_left (fun tb p => ins (fst p) (snd p) tb) (combine ts vs) [].

(* after lower_bound: walk to the first key >= t, remembering the previous node *)
Fixpoint lpi_go (prev : Q * Q) (tb : table) (t : Q) : Q :=
  match tb with
  | [] => snd prev
  | (x1, y1) :: r => if Qle_bool t x1
                     then (y1 - snd prev) / (x1 - fst prev) * (t - fst prev) + snd prev
                     else lpi_go (x1, y1) r t
  end.

(* LPIEvolution::interpolate; None = "no values specified" *)
Definition lpi (tb : table) (t : Q) : option Q :=
  match tb with
  | [] => None
  | (x0, y0) :: r => Some (if Qle_bool t x0 then y0 else lpi_go (x0, y0) r t)
  end.

(* ------------------------------------------------------------------ GenericSolver::execute, time loop *)
Record opts := mkOpts { dyn : bool; msub : nat; min_dt : Q; max_dt : Q; min_sf : Q; max_sf : Q }.

Definition dbl_eps : Q := 1 # (2 ^ 52).
Definition aone : Q := 1 - 10 * dbl_eps.
(* std::max(a,b) = (a < b) ? b : a ; std::min(a,b) = (b < a) ? b : a *)
Definition smax (a b : Q) : Q := if Qltb a b then b else a.
Definition smin (a b : Q) : Q := if Qltb b a then b else a.
Definition Qabs' (x : Q) : Q := if Qltb x 0 then - x else x.

Inductive stop := MaxSubSteps | NegativeDt | BelowMin.
Inductive res :=
| Done (steps : list (Q * Q)) (tend : Q) (nfail : nat)      (* accepted (t, dt), final time, rejected attempts *)
| Raised (why : stop) (steps : list (Q * Q)) (nfail : nat)
| NoOp                                                        (* mSubSteps = 0: the loop body never runs *)
| Fuel.

(* step oracle: attempt number, t, dt -> (success, time step scaling factor proposed) *)
Definition oracle := nat -> Q -> Q -> bool * Q.

(* the block `if (!end) { ... }` closing every pass of the loop *)
Definition adjust (o : opts) (te t dt : Q) : Q :=
  if dyn o then
    let d := if Qltb 0 (max_dt o) then smin dt (max_dt o) else dt in
    if Qltb (te - t - min_dt o) d then te - t else d
  else dt.

Fixpoint loop (fuel : nat) (o : opts) (orc : oracle) (te teps : Q) (k : nat) (t dt : Q) (sub : nat)
         (acc : list (Q * Q)) : res :=
  match fuel with
  | O => Fuel
  | S f =>
      let (ok, r) := orc k t dt in
      let conv := if dyn o then ok && Qle_bool aone r else ok in
      if conv then
        let t' := t + dt in
        let ended := Qltb (Qabs' (te - t')) teps || Qltb te t' in
        let dt1 := if dyn o then dt * smax (smin (max_sf o) r) 1 else dt in
        if ended then Done (rev ((t, dt) :: acc)) t' sub
        else
          let dt2 := adjust o te t' dt1 in
          if Qltb dt2 0 then Raised NegativeDt (rev ((t, dt) :: acc)) sub
          else if Qltb dt2 (min_dt o) then Raised BelowMin (rev ((t, dt) :: acc)) sub
          else loop f o orc te teps (S k) t' dt2 sub ((t, dt) :: acc)
      else
        let sub' := S sub in
        if Nat.eqb sub' (msub o) then Raised MaxSubSteps (rev acc) sub'
        else
          let dt1 := if dyn o
                     then dt * (if ok then smax r (min_sf o) else smax (smin (1 # 2) r) (min_sf o))
                     else dt * (1 # 2) in
          let dt2 := adjust o te t dt1 in
          if Qltb dt2 0 then Raised NegativeDt (rev acc) sub'
          else if Qltb dt2 (min_dt o) then Raised BelowMin (rev acc) sub'
          else loop f o orc te teps (S k) t dt2 sub' acc
  end.

Definition execute (fuel : nat) (o : opts) (orc : oracle) (ti te : Q) : res :=
  let teps := (te - ti) * 100 * dbl_eps in
  let dt := te - ti in
  if Qltb dt 0 then Raised NegativeDt [] 0
  else if Nat.eqb 0 (msub o) then NoOp
  else loop fuel o orc te teps 0 ti dt 0 [].

(* ------------------------------------------------------------------ convergence predicate *)
Definition norm_inf (v : list Q) : Q := fold_left (fun n x => smax n (Qabs' x)) v 0.

(* imposed gradients / forces: (component, value of the evolution at t+dt) *)
Definition converged (eeps seps : Q) (du r u1 s1 : list Q) (igrad iforce : list (nat * Q)) : bool :=
  negb (Qltb eeps (norm_inf du)) && negb (Qltb seps (norm_inf r)) &&
  forallb (fun c => Qltb (Qabs' (nth (fst c) u1 0 - snd c)) eeps) igrad &&
  forallb (fun c => Qltb (Qabs' (nth (fst c) s1 0 - snd c)) seps) iforce.

(* C48 -- model (definitions only) of the convergence test applied to a @NonLinearConstraint.
   mtest/src/MTest.cxx, MTest::checkConvergence: after the norm tests (ne <= eeps, nr <= seps on the ndv first components of du and r;
   the Lagrange multiplier slots are ignored),
       for (const auto& c : this->constraints) if (c->isActive()) if (!c->checkConvergence(state.u1, s.s1, o.eeps, o.seps, t, dt)) return false;
   mtest/src/NonLinearConstraint.cxx, NonLinearConstraint::checkConvergence(e, s, eeps, seps, t, dt):
       cv = eval(c, e, s, t, dt)      -- the formula on the CORRECTED unknowns u1, the forces s1 of the last integration and the value at
                                         t + dt of every other evolution it names
       return |cv| < eeps   when the normalisation policy is DRIVINGVARIABLECONSTRAINT  (<Strain>, <Gradient>, ...)
              |cv| < seps   when it is THERMODYNAMICFORCECONSTRAINT                       (<Stress>, <ThermodynamicForce>, ...)
   The comparison is strict; an inactive constraint (events) is not tested. *)
From Coq Require Import QArith List Bool.
From C48 Require Import C48Model.
Import ListNotations.
Local Open Scope Q_scope.

Inductive policy := StrainPolicy | StressPolicy.

(* the formula of a constraint over the fragment + - * / (constants, driving variables, thermodynamic forces, other evolutions) *)
Inductive cexpr :=
| CConst (q : Q) | CE (i : nat) | CS (i : nat) | CV (i : nat)
| CAdd (a b : cexpr) | CSub (a b : cexpr) | CMul (a b : cexpr) | CDiv (a b : cexpr).

Fixpoint ceval (e : cexpr) (u s ev : list Q) : Q :=
  match e with
  | CConst q => q
  | CE i => nth i u 0
  | CS i => nth i s 0
  | CV i => nth i ev 0
  | CAdd a b => ceval a u s ev + ceval b u s ev
  | CSub a b => ceval a u s ev - ceval b u s ev
  | CMul a b => ceval a u s ev * ceval b u s ev
  | CDiv a b => ceval a u s ev / ceval b u s ev
  end.

(* a constraint: normalisation policy, active?, value of the formula on (u1, s1, t + dt) *)
Record nlc := mkNL { nl_pol : policy; nl_active : bool; nl_fun : list Q -> list Q -> Q -> Q }.

Definition nl_tol (eeps seps : Q) (p : policy) : Q := match p with StrainPolicy => eeps | StressPolicy => seps end.

(* NonLinearConstraint::checkConvergence *)
Definition nl_ok (eeps seps : Q) (u1 s1 : list Q) (tdt : Q) (c : nlc) : bool :=
  Qltb (Qabs' (nl_fun c u1 s1 tdt)) (nl_tol eeps seps (nl_pol c)).

(* MTest::checkConvergence with imposed gradients / forces and non linear constraints *)
Definition converged_nl (eeps seps : Q) (du r u1 s1 : list Q) (igrad iforce : list (nat * Q)) (nls : list nlc) (tdt : Q) : bool :=
  converged eeps seps du r u1 s1 igrad iforce && forallb (fun c => negb (nl_active c) || nl_ok eeps seps u1 s1 tdt c) nls.

(* a constraint given by a formula; evs: values at t + dt of the evolutions it names *)
Definition nl_of (p : policy) (e : cexpr) (evs : Q -> list Q) : nlc := mkNL p true (fun u s tdt => ceval e u s (evs tdt)).

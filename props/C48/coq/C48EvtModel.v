(* C48 -- model (definitions only) of ConstraintBase::treatEvent (mtest/src/ConstraintBase.cxx): the activity of a constraint
   (imposed gradient / force, non linear constraint) under the events of MTest::execute.  Events are numbers (names). *)
From Coq Require Import List Bool Arith.
Import ListNotations.

Definition contains (e : nat) (l : list nat) : bool := existsb (Nat.eqb e) l.

(* as documented: an activating event switches the constraint on, a desactivating event switches it off, any other event leaves it
   as it is (this is also the code once repaired: two `if`s) *)
Definition treat_spec (act deact : list nat) (active : bool) (e : nat) : bool :=
  if contains e deact then false else if contains e act then true else active.

(* as found in the pinned tree:   this->active = contains(activating_events);  this->active = !contains(desactivating_events); *)
Definition treat_found (act deact : list nat) (active : bool) (e : nat) : bool :=
  let a1 := contains e act in negb (contains e deact).

(* the activity after a sequence of events *)
Definition run_events (treat : list nat -> list nat -> bool -> nat -> bool) (act deact : list nat) (active : bool) (es : list nat) : bool :=
  fold_left (treat act deact) es active.

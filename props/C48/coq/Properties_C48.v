(* C48 -- property theorems (statements only; proofs in C48Proofs.v; models in C48Model.v; spec in C48Spec.v).
   Exact rational arithmetic: floating-point rounding of the real code is checked by execution only. *)
From Coq Require Import QArith List.
From C48 Require Import C48Model C48Spec C48Proofs C48Newton.
Import ListNotations.
Local Open Scope Q_scope.

(* LPIEvolution, any table: the table built by the constructor has strictly increasing abscissas *)
Theorem C48_lpi_table_increasing : forall ts vs, increasing (build ts vs).
Proof. exact build_increasing. Qed.
Print Assumptions C48_lpi_table_increasing.

Theorem C48_lpi_value_at_nodes : forall tb x y, increasing tb -> In (x, y) tb ->
  exists v, lpi tb x = Some v /\ v == y.
Proof. exact lpi_node. Qed.
Print Assumptions C48_lpi_value_at_nodes.

Theorem C48_lpi_linear_between_nodes : forall pre x0 y0 x1 y1 post t,
  increasing (pre ++ (x0, y0) :: (x1, y1) :: post) -> x0 < t -> t <= x1 ->
  exists v, lpi (pre ++ (x0, y0) :: (x1, y1) :: post) t = Some v /\ v == on_segment x0 y0 x1 y1 t.
Proof. exact lpi_between. Qed.
Print Assumptions C48_lpi_linear_between_nodes.

Theorem C48_lpi_constant_outside : forall x0 y0 r tb xl yl t,
  (t <= x0 -> lpi ((x0, y0) :: r) t = Some y0) /\
  ((forall p, In p (tb ++ [(xl, yl)]) -> fst p < t) -> lpi (tb ++ [(xl, yl)]) t = Some yl).
Proof. intros; split; [apply lpi_before | apply lpi_after]. Qed.
Print Assumptions C48_lpi_constant_outside.

(* time loop of GenericSolver::execute, any step oracle, any options *)
Theorem C48_accepted_steps_partition : forall fuel o orc ti te steps tend nf,
  execute fuel o orc ti te = Done steps tend nf ->
  chain ti steps tend /\ exit_cond te (t_eps ti te) tend /\ (nf < msub o)%nat /\
  (forall s, In s steps -> s = (ti, te - ti) \/ step_ok o s).
Proof. exact execute_done. Qed.
Print Assumptions C48_accepted_steps_partition.

Theorem C48_requested_time_reached : forall fuel o orc ti te steps tend nf, ti < te ->
  (dyn o = true -> 0 <= min_dt o) ->
  execute fuel o orc ti te = Done steps tend nf -> tend <= te /\ te - tend < t_eps ti te.
Proof. exact execute_reaches_te. Qed.
Print Assumptions C48_requested_time_reached.

Theorem C48_substep_budget : forall fuel o orc ti te steps nf,
  execute fuel o orc ti te = Raised MaxSubSteps steps nf -> nf = msub o.
Proof. exact execute_maxsub. Qed.
Print Assumptions C48_substep_budget.

(* convergence predicate: accepted => imposed gradients within eeps, imposed forces within seps *)
Theorem C48_convergence_enforces_loadings : forall eeps seps du r u1 s1 igrad iforce,
  converged eeps seps du r u1 s1 igrad iforce = true ->
  norm_inf du <= eeps /\ norm_inf r <= seps /\
  (forall c v, In (c, v) igrad -> Qabs' (nth c u1 0 - v) < eeps) /\
  (forall c v, In (c, v) iforce -> Qabs' (nth c s1 0 - v) < seps).
Proof. exact converged_sound. Qed.
Print Assumptions C48_convergence_enforces_loadings.

(* Newton loop `iterate` of GenericSolver.cxx (branch taken when u1 is not empty), any answers of the Study, 1 <= iterMax:
   a successful attempt stopped on a pass k < iterMax whose integration succeeded and whose checkConvergence answered true
   (not the first pass without prediction), every earlier pass was refused; the time step scaling factor returned is the one of
   that pass; u1 = start - all corrections, u10 = iterate before the last correction *)
Theorem C48_newton_success_is_a_checked_pass : forall itmax nopred orc u sf v1 v10 ni, (0 < itmax)%nat ->
  iterate itmax nopred orc u = ItOk sf v1 v10 ni ->
  exists k, ni = S k /\ success_trace itmax nopred orc k /\ sf = a_sf (orc k) /\ v1 = u_after orc (S k) u /\ v10 = u_after orc k u.
Proof. exact iterate_ok. Qed.
Print Assumptions C48_newton_success_is_a_checked_pass.

Theorem C48_newton_iterations_bounded : forall itmax nopred orc u, (0 < itmax)%nat ->
  match iterate itmax nopred orc u with ItOk _ _ _ ni | ItFail _ _ _ ni => (1 <= ni <= itmax)%nat end.
Proof. exact iterate_niter. Qed.
Print Assumptions C48_newton_iterations_bounded.

(* with checkConvergence = the convergence predicate on the corrected unknowns: an accepted attempt leaves every imposed
   gradient within eeps (on u1 as stored) and every imposed force within seps (on the forces of the last integration) *)
Theorem C48_newton_success_enforces_loadings : forall itmax nopred orc u sf v1 v10 ni eeps seps igrad iforce (res s1 : nat -> list Q),
  (0 < itmax)%nat ->
  (forall k, a_chk (orc k) = true -> converged eeps seps (a_du (orc k)) (res k) (u_after orc (S k) u) (s1 k) igrad iforce = true) ->
  iterate itmax nopred orc u = ItOk sf v1 v10 ni ->
  exists k, ni = S k /\ norm_inf (a_du (orc k)) <= eeps /\ norm_inf (res k) <= seps /\
    (forall c v, In (c, v) igrad -> Qabs' (nth c v1 0 - v) < eeps) /\
    (forall c v, In (c, v) iforce -> Qabs' (nth c (s1 k) 0 - v) < seps).
Proof. exact iterate_ok_loadings. Qed.
Print Assumptions C48_newton_success_enforces_loadings.

(* MTest_getErrorNorm, as found (std::max) and as repaired: on vectors without NaN both are the exact max norm of the model *)
Theorem C48_error_norm_without_nan : forall v, norm_found (map Some v) = Some (norm_inf v) /\ norm_fixed (map Some v) = Some (norm_inf v).
Proof. exact norms_without_nan. Qed.
Print Assumptions C48_error_norm_without_nan.

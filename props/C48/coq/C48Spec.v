(* C48 -- specification, independent of the models. *)
From Coq Require Import QArith List.
Import ListNotations.
Local Open Scope Q_scope.

(* abscissas strictly increasing *)
Fixpoint increasing (tb : list (Q * Q)) : Prop :=
  match tb with
  | [] => True
  | p :: r => (forall q, In q r -> fst p < fst q) /\ increasing r
  end.

(* value on the segment [(x0,y0),(x1,y1)] *)
Definition on_segment (x0 y0 x1 y1 t : Q) : Q := y0 + (y1 - y0) * (t - x0) / (x1 - x0).

(* accepted steps (t, dt) form a chain from t0 to tend *)
Fixpoint chain (t0 : Q) (steps : list (Q * Q)) (tend : Q) : Prop :=
  match steps with
  | [] => tend = t0
  | (t, dt) :: r => t = t0 /\ chain (t + dt) r tend
  end.

Definition Qabs_ (x : Q) : Q := if Qlt_le_dec x 0 then - x else x.

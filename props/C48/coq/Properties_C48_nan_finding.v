(* C48 -- norm part of MTest::checkConvergence in presence of NaN, MTest_getErrorNorm AS FOUND (n = std::max(n, |v(i)|)), selected by
   check.py when the real MTest::checkConvergence accepts an increment containing a NaN *)
From Coq Require Import QArith List.
From C48 Require Import C48Model C48Spec C48Proofs C48Newton.
Import ListNotations.
Local Open Scope Q_scope.

(* the soundness of the norm test is false for the code as found: std::max(n, NaN) = n drops the NaN, the `isfinite` guard of
   checkConvergence never fires *)
Theorem C48_norm_test_sound_refuted : exists eeps seps du r, accept_norms norm_found eeps seps du r = true /\ In None du.
Proof. exact accept_found_unsound. Qed.
Print Assumptions C48_norm_test_sound_refuted.

(* it holds once the norm keeps NaN (props/C48/fix_nan_norm.diff) *)
Theorem C48_norm_test_sound_once_repaired : forall eeps seps du r, accept_norms norm_fixed eeps seps du r = true ->
  Forall (finite_le eeps) du /\ Forall (finite_le seps) r.
Proof. exact accept_fixed_sound. Qed.
Print Assumptions C48_norm_test_sound_once_repaired.

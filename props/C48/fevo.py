"""C48: formulas of the fragment  + - * / sin cos exp, constants, `t` and names of other evolutions, as trees:
   ("c", float) | ("t",) | ("v", name) | (op, a, b) for op in + - * / | (fn, a) for fn in sin cos exp
* text(e): the formula as given to MTest (fully parenthesised, no blank);
* value(e, env, t): the value stated independently: 60-digit decimal arithmetic (python's decimal; sin / cos by argument reduction
  and Taylor series) on the binary64 inputs, together with
  a bound of the error of a binary64 evaluation of the same tree (one rounding per operation, libm within 1 ulp, error of the
  inputs propagated); None when a divisor cannot be separated from 0;
* fvalue(e, env, t): the same tree in binary64 (python floats)."""
import math
from decimal import Decimal, getcontext

getcontext().prec = 60
MPF = Decimal
U = Decimal(2) ** -53
PI = Decimal("3.14159265358979323846264338327950288419716939937510582097494459230781640628620899862803")


def frac(x, err=0.0):
    """(60-digit value of the Fraction x, error bound)"""
    return Decimal(x.numerator) / Decimal(x.denominator), Decimal(err)


def _reduce(x):
    k = (x / (2 * PI)).to_integral_value()
    return x - k * 2 * PI


def dsin(x):
    x = _reduce(x)
    term, s, n = x, x, 1
    while abs(term) > Decimal("1e-66"):
        term = -term * x * x / ((n + 1) * (n + 2))
        s += term
        n += 2
    return s


def dcos(x):
    x = _reduce(x)
    term, s, n = Decimal(1), Decimal(1), 0
    while abs(term) > Decimal("1e-66"):
        term = -term * x * x / ((n + 1) * (n + 2))
        s += term
        n += 2
    return s


def nstr(v, n=20):
    return "%.*e" % (n, v)


def text(e):
    k = e[0]
    if k == "c":
        return repr(e[1]) if e[1] != int(e[1]) or abs(e[1]) >= 1e15 else "%d" % int(e[1])
    if k == "t":
        return "t"
    if k == "v":
        return e[1]
    if k in "+-*/":
        return "(" + text(e[1]) + k + text(e[2]) + ")"
    return k + "(" + text(e[1]) + ")"


def names(e):
    if e[0] == "v":
        return {e[1]}
    if e[0] in ("c", "t"):
        return set()
    return set().union(*[names(x) for x in e[1:]])


def uses_t(e):
    if e[0] == "t":
        return True
    if e[0] in ("c", "v"):
        return False
    return any(uses_t(x) for x in e[1:])


def value(e, env, t):
    """env: name -> function t -> (mpf value, error bound of the binary64 value); -> (mpf, bound) or None"""
    k = e[0]
    if k == "c":
        return MPF(e[1]), MPF(0)
    if k == "t":
        return MPF(t), MPF(0)
    if k == "v":
        return env[e[1]](t)
    a = value(e[1], env, t)
    if a is None:
        return None
    if k in ("sin", "cos"):
        return (dsin(a[0]) if k == "sin" else dcos(a[0])), a[1] + 2 * U
    if k == "exp":
        if a[0] > 600 or a[1] > 1:
            return None
        v = a[0].exp()
        return v, v * (a[1].exp() - 1) + 2 * U * v * (1 + a[1])
    b = value(e[2], env, t)
    if b is None:
        return None
    if k in "+-":
        v = a[0] + b[0] if k == "+" else a[0] - b[0]
        er = a[1] + b[1]
    elif k == "*":
        v = a[0] * b[0]
        er = abs(a[0]) * b[1] + abs(b[0]) * a[1] + a[1] * b[1]
    else:
        if not abs(b[0]) - b[1] > abs(b[0]) / 2 or b[0] == 0:
            return None
        v = a[0] / b[0]
        er = (a[1] + abs(v) * b[1]) / (abs(b[0]) - b[1])
    return v, er + U * (abs(v) + er)


def fvalue(e, fenv, t):
    k = e[0]
    if k == "c":
        return e[1]
    if k == "t":
        return t
    if k == "v":
        return fenv[e[1]](t)
    a = fvalue(e[1], fenv, t)
    if k == "sin":
        return math.sin(a)
    if k == "cos":
        return math.cos(a)
    if k == "exp":
        return math.exp(a)
    b = fvalue(e[2], fenv, t)
    return a + b if k == "+" else a - b if k == "-" else a * b if k == "*" else a / b


CONSTS = [0.5, 1.0, 2.0, 3.0, 0.25, 1.5, 10.0, 0.125, 7.0]


def rational(e):
    """only + - * / (the fragment of the Gallina model feval)"""
    return e[0] in ("c", "t", "v") or (e[0] in "+-*/" and len(e[0]) == 1 and rational(e[1]) and rational(e[2]))


def gen(rng, depth, leaves, funcs=True):
    """leaves: list of leaf trees to draw from (("t",), ("v", name) ...); funcs=False: no sin / cos / exp, constant divisors"""
    if depth == 0 or rng.random() < 0.2:
        return rng.choice(leaves) if rng.random() < 0.65 else ("c", rng.choice(CONSTS))
    r = rng.random()
    if not funcs:
        if r < 0.8:
            return (rng.choice("+-*"), gen(rng, depth - 1, leaves, False), gen(rng, depth - 1, leaves, False))
        return ("/", gen(rng, depth - 1, leaves, False), ("c", rng.choice(CONSTS)))
    if r < 0.5:
        return (rng.choice("+-*"), gen(rng, depth - 1, leaves), gen(rng, depth - 1, leaves))
    if r < 0.62:    # a divisor that stays away from 0
        d = rng.choice([("c", rng.choice(CONSTS)), ("+", ("c", rng.choice([2.0, 3.0])), (rng.choice(["sin", "cos"]), gen(rng, depth - 1, leaves))),
                        ("exp", (rng.choice(["sin", "cos"]), gen(rng, depth - 1, leaves)))])
        return ("/", gen(rng, depth - 1, leaves), d)
    if r < 0.9:
        return (rng.choice(["sin", "cos"]), gen(rng, depth - 1, leaves))
    return ("exp", ("/", gen(rng, depth - 1, leaves), ("c", rng.choice([8.0, 16.0, 64.0]))))

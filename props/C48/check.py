"""C48 -- MTest enforces imposed loadings and reaches every requested time.
Engine H: Gallina models (exact rationals) of LPIEvolution, of the time loop of GenericSolver::execute over a step
oracle and of the convergence predicate; Coq theorems; tie: the REAL Evolution.cxx, GenericSolver.cxx (+ the real
StudyCurrentState update/revert), ImposedGradient.cxx / ImposedThermodynamicForce.cxx compiled from /repo and run
against the models (exactly, on dyadic data where binary64 arithmetic is exact) and against the property stated in
Python (any data)."""
import math, re
from fractions import Fraction
from vlib import guarded_main

REPO_SRC = ["mtest/src/GenericSolver.cxx", "mtest/src/Solver.cxx", "mtest/src/StudyCurrentState.cxx",
            "mtest/src/StructureCurrentState.cxx", "mtest/src/CurrentState.cxx", "mtest/src/Evolution.cxx", "mtest/src/Study.cxx",
            "mtest/src/SolverOptions.cxx", "mtest/src/ImposedGradient.cxx", "mtest/src/ImposedThermodynamicForce.cxx",
            "mtest/src/ConstraintBase.cxx", "mtest/src/Constraint.cxx"]
LIBS = ["-lTFELMTest", "-lTFELMathParser", "-lTFELMathKriging", "-lTFELMath", "-lTFELUtilities", "-lTFELException",
        "-lTFELTests", "-lTFELSystem", "-lMFrontLogStream"]
EPS = 2.0 ** -52


def q(x):
    f = Fraction(x)
    n, d = f.numerator, f.denominator
    return "((%d) # %d)" % (n, d) if n < 0 else "(%d # %d)" % (n, d)


def fh(s):
    return float.fromhex(s)


HEADER = """From Coq Require Import QArith List Bool ZArith.
From C48 Require Import C48Model.
Import ListNotations.
Local Open Scope Q_scope.
Definition eq (x : Q) : list Z := let r := Qred x in [Qnum r; Zpos (Qden r)].
Definition esteps (l : list (Q * Q)) : list Z := flat_map (fun s => eq (fst s) ++ eq (snd s)) l.
Definition eres (r : res) : list Z :=
  match r with
  | Done steps tend nf => [0%Z; Z.of_nat nf; Z.of_nat (length steps)] ++ esteps steps ++ eq tend
  | Raised why steps nf => [match why with MaxSubSteps => 1 | NegativeDt => 2 | BelowMin => 3 end%Z; Z.of_nat nf; Z.of_nat (length steps)] ++ esteps steps
  | NoOp => [9%Z]
  | Fuel => [99%Z]
  end.
Definition script (l : list (bool * Q)) : oracle := fun k _ _ => nth k l (true, 1).
Definition eopt (o : option Q) : list Z := match o with Some v => 1%Z :: eq v | None => [0%Z] end.
"""


def gen_table(rng):
    n = rng.randint(1, 6)
    ts = [float(rng.randint(-8, 8)) / rng.choice([1, 2, 4]) for _ in range(n)]       # duplicates and disorder on purpose
    vs = [rng.choice([float(rng.randint(-20, 20)), rng.uniform(-1e3, 1e3), rng.uniform(-1, 1) * 1e-5]) for _ in range(n)]
    qs = [rng.choice(ts) for _ in range(3)] + [min(ts) - rng.choice([0.0, 0.5, 100.0]), max(ts) + rng.choice([0.0, 0.5, 100.0])]
    qs += [rng.uniform(min(ts) - 1, max(ts) + 1) for _ in range(4)]
    return ts, vs, qs


def gen_exec(rng, dyadic):
    dyn = rng.random() < 0.5
    msub = rng.choice([1, 2, 3, 5, 8, 10]) if rng.random() < 0.9 else 0
    ti = float(rng.randint(-4, 4)) / rng.choice([1, 2])
    te = ti + (rng.choice([0.5, 1.0, 2.0, 3.0, 8.0]) if dyadic else rng.uniform(0.1, 10))
    if rng.random() < 0.03:
        te = ti - 1.0
    if dyn:
        min_dt = rng.choice([0.0, 0.0, 0.015625, 0.125, 0.5]) if dyadic else rng.choice([0.0, 1e-3, 0.07, 0.3])
        max_dt = rng.choice([-1.0, 0.0, 0.25, 1.0, 4.0]) if dyadic else rng.choice([-1.0, 0.3, 1.7])
        min_sf = rng.choice([0.125, 0.25, 0.5]) if dyadic else rng.choice([0.1, 0.3])
        max_sf = rng.choice([1.0, 1.5, 2.0, 4.0]) if dyadic else rng.choice([1.2, 1.7, 3.0])
    else:
        min_dt, max_dt, min_sf, max_sf = rng.choice([0.0, -1.0, 0.125 if dyadic else 0.11]), -1.0, -1.0, -1.0
    n = rng.randint(0, 12)
    pfail = rng.choice([0.1, 0.3, 0.6])
    script = []
    for _ in range(n):
        ok = rng.random() > pfail
        r = rng.choice([0.125, 0.25, 0.5, 0.75, 1.0, 1.0, 1.5, 2.0, 8.0]) if dyadic else rng.choice([0.05, 0.3, 0.7, 0.999, 1.0, 1.0, 1.3, 2.6])
        script.append((ok, r))
    return (dyn, msub, min_dt, max_dt, min_sf, max_sf, ti, te, script)


CORPUS_EXEC = [(False, 10, 0.0, -1.0, -1.0, -1.0, 0.0, 1.0, [(False, 1.0), (False, 1.0)]),
               (False, 2, 0.0, -1.0, -1.0, -1.0, 0.0, 1.0, [(False, 1.0), (False, 1.0), (False, 1.0)]),
               (True, 10, 0.015625, 0.5, 0.125, 2.0, 0.0, 1.0, [(False, 0.25), (True, 2.0)]),
               (False, 10, 0.0, -1.0, -1.0, -1.0, 0.0, 1.0, []),
               (False, 0, 0.0, -1.0, -1.0, -1.0, 0.0, 1.0, []),
               (False, 10, 0.0, -1.0, -1.0, -1.0, 1.0, 0.0, []),
               (False, 10, 0.0, -1.0, -1.0, -1.0, 0.0, 1.0, [(True, 1.0), (False, 1.0)]),
               (True, 10, 0.5, -1.0, 0.125, 2.0, 0.0, 1.0, [(False, 0.25)])]


def gen_conv(rng):
    n = rng.randint(1, 4)
    eeps, seps = rng.choice([0.0, 0.125, 0.5, 2.0 ** -20]), rng.choice([0.0, 0.25, 1.0, 2.0 ** -10])
    u = [float(rng.randint(-16, 16)) / 8 for _ in range(n)]
    s = [float(rng.randint(-16, 16)) / 4 for _ in range(n)]
    g = [(rng.randrange(n), 0.0) for _ in range(rng.randint(0, 2))]
    f = [(rng.randrange(n), 0.0) for _ in range(rng.randint(0, 2))]
    g = [(c, u[c] + rng.choice([0.0, 1.0, -1.0, 0.5]) * rng.choice([eeps, eeps / 2, 2 * eeps, 0.0])) for c, _ in g]
    f = [(c, s[c] + rng.choice([0.0, 1.0, -1.0, 0.5]) * rng.choice([seps, seps / 2, 2 * seps, 0.0])) for c, _ in f]
    return (eeps, seps, u, s, g, f)


def main(c):
    exe = c.cxx("driver", ["driver.cxx"], REPO_SRC, flags=["-ffp-contract=off"], libs=LIBS, link_repo_libs=True)
    c.trusted("driver props/C48/driver.cxx: scripted Study (step oracle) around the real GenericSolver::execute (branch taken when u1 is "
              "empty: prepare / computeStiffnessMatrixAndResidual / postConvergence), real LPIEvolution, real Imposed*::checkConvergence",
              "files not listed in the driver's repo_sources come from the libraries built in /repo/_build",
              "binary64 arithmetic is exact on the dyadic data used for the exact comparison with the rational model (g++ -ffp-contract=off)",
              "MTest::checkConvergence (norm tests) and the Newton iteration are not executed by this check")
    rng = c.rng
    tables = [([0.0, 1.0, 2.0], [1.0, 3.0, 2.0], [-1.0, 0.0, 0.5, 1.0, 1.5, 2.0, 3.0]), ([1.0], [5.0], [0.0, 1.0, 2.0]),
              ([2.0, 0.0, 2.0, 1.0], [7.0, 1.0, 9.0, 3.0], [0.0, 0.5, 1.0, 1.75, 2.0, 5.0])]
    tables += [gen_table(rng) for _ in range(c.pick(150, 500))]
    ex_dy = list(CORPUS_EXEC) + [gen_exec(rng, True) for _ in range(c.pick(400, 1200))]
    ex_any = [gen_exec(rng, False) for _ in range(c.pick(300, 3000))]
    convs = [gen_conv(rng) for _ in range(c.pick(200, 600))]

    lines = []
    for ts, vs, qs in tables:
        lines.append("LPI %d %s %d %s" % (len(ts), " ".join("%s %s" % (a.hex(), b.hex()) for a, b in zip(ts, vs)), len(qs), " ".join(x.hex() for x in qs)))
    for e in ex_dy + ex_any:
        dyn, msub, mn, mx, msf, xsf, ti, te, script = e
        lines.append("EXEC %d %d %s %s %s %s %s %s %d %s" % (dyn, msub, mn.hex(), mx.hex(), msf.hex(), xsf.hex(), ti.hex(), te.hex(), len(script),
                                                            " ".join("%d %s" % (ok, r.hex()) for ok, r in script)))
    for eeps, seps, u, s, g, f in convs:
        lines.append("CONV %s %s %d %s %s %d %s %d %s" % (eeps.hex(), seps.hex(), len(u), " ".join(x.hex() for x in u), " ".join(x.hex() for x in s),
                                                        len(g), " ".join("%d %s" % (k, v.hex()) for k, v in g), len(f), " ".join("%d %s" % (k, v.hex()) for k, v in f)))
    rc, out, err = c.run([exe], input="\n".join(lines) + "\n", timeout=600)
    res = [l for l in out.splitlines() if l[:2] in ("V ", "R ", "C ", "X ", "E ") or l == "V"]
    if rc != 0 or len(res) != len(lines):
        c.report("driver", "driver failed (rc=%d, %d answers for %d commands): %s" % (rc, len(res), len(lines), err[-400:]), {"stderr": err[-3000:]}, False)
        return
    r_lpi, r_dy = res[:len(tables)], res[len(tables):len(tables) + len(ex_dy)]
    r_any = res[len(tables) + len(ex_dy):len(tables) + len(ex_dy) + len(ex_any)]
    r_conv = res[len(tables) + len(ex_dy) + len(ex_any):]

    # ---------------------------------------------------------------- model
    v = [HEADER]
    for ts, vs, qs in tables:
        v.append("Eval vm_compute in (let tb := build [%s] [%s] in flat_map (fun t => eopt (lpi tb t)) [%s])." % (
            "; ".join(map(q, ts)), "; ".join(map(q, vs)), "; ".join(map(q, qs))))
    for e in ex_dy:
        dyn, msub, mn, mx, msf, xsf, ti, te, script = e
        v.append("Eval vm_compute in eres (execute 5000 (mkOpts %s %d %s %s %s %s) (script [%s]) %s %s)." % (
            "true" if dyn else "false", msub, q(mn), q(mx), q(msf), q(xsf), "; ".join("(%s, %s)" % ("true" if ok else "false", q(r)) for ok, r in script), q(ti), q(te)))
    for eeps, seps, u, s, g, f in convs:
        v.append("Eval vm_compute in [if converged %s %s [] [] [%s] [%s] [%s] [%s] then 1%%Z else 0%%Z]." % (
            q(eeps), q(seps), "; ".join(map(q, u)), "; ".join(map(q, s)), "; ".join("(%d%%nat, %s)" % (k, q(x)) for k, x in g),
            "; ".join("(%d%%nat, %s)" % (k, q(x)) for k, x in f)))
    rc, mout, merr = c.coq_eval(["C48Model.v"], "\n".join(v) + "\n", timeout=1500)
    if rc != 0:
        c.report("model-eval", "model evaluation failed: " + merr[-500:], {"stderr": merr[-3000:]}, False)
        return
    model = [[int(x) for x in re.findall(r"-?\d+", m)] for m in re.findall(r"=\s*\[([^\]]*)\]", mout.replace("%Z", ""))]
    if len(model) != len(tables) + len(ex_dy) + len(convs):
        c.report("model-eval", "model returned %d results for %d cases" % (len(model), len(tables) + len(ex_dy) + len(convs)), {"stdout": mout[-2000:]}, False)
        return
    m_lpi, m_dy, m_conv = model[:len(tables)], model[len(tables):len(tables) + len(ex_dy)], model[len(tables) + len(ex_dy):]

    # ---------------------------------------------------------------- LPI: model (exact) vs real, and the property itself
    for (ts, vs, qs), line, mm in zip(tables, r_lpi, m_lpi):
        c.count(1, ("lpi", tuple(ts), tuple(vs)), len(set(ts)) > 1)
        real = [fh(x) for x in line.split()[1:]]
        tb = {}
        for a, b in zip(ts, vs):
            tb.setdefault(a, b)
        keys = sorted(tb)
        mvals, i = [], 0
        while i < len(mm):
            if mm[i] == 1:
                mvals.append(Fraction(mm[i + 1], mm[i + 2])); i += 3
            else:
                mvals.append(None); i += 1
        for t, rv, mv in zip(qs, real, mvals):
            # independent statement: nodes, constant outside, linear in between
            if t <= keys[0]:
                exp, tol = Fraction(tb[keys[0]]), 0
            elif t > keys[-1]:
                exp, tol = Fraction(tb[keys[-1]]), 0
            else:
                j = next(k for k in range(1, len(keys)) if t <= keys[k])
                x0, x1 = keys[j - 1], keys[j]
                y0, y1 = Fraction(tb[x0]), Fraction(tb[x1])
                exp = y0 + (y1 - y0) * (Fraction(t) - Fraction(x0)) / (Fraction(x1) - Fraction(x0))
                tol = Fraction(1e-13) * (abs(y0) + abs(y1)) + Fraction(5e-324)
            key = "lpi:%s:%s:%s" % (",".join(x.hex() for x in ts), ",".join(x.hex() for x in vs), t.hex())
            if mv is None or abs(mv - exp) != 0:
                c.report("model-" + key, "model of LPIEvolution on table %r/%r at %r gives %s, specification %s" % (ts, vs, t, mv, exp), {"ts": ts, "vs": vs, "t": t}, True)
            if not (math.isfinite(rv) and abs(Fraction(rv) - exp) <= tol):
                c.report(key, "LPIEvolution(%r, %r)(%r) = %r but the piecewise linear interpolant gives %r" % (ts, vs, t, rv, float(exp)),
                         {"times": ts, "values": vs, "t": t, "real": rv, "expected": float(exp)}, True)
    c.sample({"lpi_table": tables[3][:2], "queries": tables[3][2], "real": r_lpi[3]})

    # ---------------------------------------------------------------- time loop
    def parse_exec(line):
        t = line.split()
        status, period, substeps = t[1], int(t[2]), int(t[3])
        na = int(t[5])
        att = [(fh(t[6 + 4 * i]), fh(t[7 + 4 * i]), t[8 + 4 * i] == "1", int(t[9 + 4 * i])) for i in range(na)]
        io = 6 + 4 * na
        outs = [fh(x) for x in t[io + 2:]]
        acc = []
        for i, a in enumerate(att):
            nxt = att[i + 1][3] if i + 1 < na else period
            if nxt > a[3]:
                acc.append((a[0], a[1]))
        return status, period, substeps, att, acc, outs

    def check_prop(e, line, tag):
        dyn, msub, mn, mx, msf, xsf, ti, te, script = e
        status, period, substeps, att, acc, outs = parse_exec(line)
        key = "exec:%s:%d:%d:%s:%s:%s:%s:%s:%s:%s" % (tag, dyn, msub, mn.hex(), mx.hex(), msf.hex(), xsf.hex(), ti.hex(), te.hex(), ",".join("%d/%s" % (ok, r.hex()) for ok, r in script))
        bad = []
        if status == "done" and msub != 0 and te >= ti:
            teps = (te - ti) * 100 * EPS
            if not acc or acc[0][0] != ti:
                bad.append("first accepted step does not start at ti")
            for (t0, d0), (t1, _) in zip(acc, acc[1:]):
                if t0 + d0 != t1:
                    bad.append("accepted steps not contiguous: %r + %r != %r" % (t0, d0, t1))
            tend = acc[-1][0] + acc[-1][1] if acc else ti
            if not (abs(te - tend) < teps or te < tend):
                bad.append("loop exit condition does not hold at the final time %r" % tend)
            if te > ti and not (abs(te - tend) <= max(teps, 4 * EPS * abs(te))):
                bad.append("final time %r is not the requested time %r" % (tend, te))
            if substeps >= msub:
                bad.append("%d rejected attempts with mSubSteps=%d" % (substeps, msub))
            for (t0, d0) in acc[1:]:
                if d0 < mn or d0 < 0:
                    bad.append("accepted time step %r below the minimal time step %r" % (d0, mn))
            if outs != [a[0] + a[1] for a in acc[:-1]]:
                bad.append("intermediate outputs %r are not the ends of the accepted sub-steps" % outs)
        if status == "raise-maxsub" and substeps != msub:
            bad.append("maximum number of sub-steps raised after %d rejections (mSubSteps=%d)" % (substeps, msub))
        for b in bad[:1] if len(c.violations) < 5 else []:
            c.report(key, "GenericSolver::execute(ti=%r, te=%r, dyn=%s, mSubSteps=%d, min_dt=%r, max_dt=%r, scaling in [%r,%r], oracle %r): %s; attempts (t,dt,ok,period)=%r status=%s" % (
                ti, te, dyn, msub, mn, mx, msf, xsf, script, b, att, status),
                {"options": {"dyn": dyn, "mSubSteps": msub, "min_dt": mn, "max_dt": mx, "min_sf": msf, "max_sf": xsf}, "ti": ti, "te": te, "oracle": script, "real": line}, True)
        return status, substeps, acc, key

    nacc = 0
    for idx, (e, line, mm) in enumerate(zip(ex_dy, r_dy, m_dy)):
        status, substeps, acc, key = check_prop(e, line, "dy")
        nontrivial = any(not ok for ok, _ in e[8]) or e[0]
        c.count(1, key, nontrivial)
        nacc += len(acc)
        # exact comparison with the rational model
        code = {"done": 0, "raise-maxsub": 1, "raise-negative": 2, "raise-belowmin": 3}.get(status, -1)
        if mm[0] == 9:
            ok = status == "done" and not acc
        elif mm[0] == 99:
            ok = True
            c.notes.append("model out of fuel on one case")
        else:
            msteps = [(Fraction(mm[3 + 4 * i], mm[4 + 4 * i]), Fraction(mm[5 + 4 * i], mm[6 + 4 * i])) for i in range(mm[2])]
            ok = code == mm[0] and substeps == mm[1] and [(Fraction(a), Fraction(b)) for a, b in acc] == msteps
        if not ok:
            c.report("tie:" + key, "GenericSolver::execute and the model disagree: real '%s' / model %r (code,nfail,nsteps,steps as num den ...)" % (line[:400], mm[:40]),
                     {"case": repr(e), "real": line, "model": mm}, True)
        if idx % 97 == 0:
            c.sample({"exec": repr(e), "real": line[:300]})
    for e, line in zip(ex_any, r_any):
        status, substeps, acc, key = check_prop(e, line, "any")
        c.count(1, key, any(not ok for ok, _ in e[8]) or e[0])
    # ---------------------------------------------------------------- constraints' convergence tests
    for (eeps, seps, u, s, g, f), line, mm in zip(convs, r_conv, m_conv):
        c.count(1, ("conv", eeps, seps, tuple(u), tuple(s), tuple(g), tuple(f)), bool(g or f))
        real = int(line.split()[1])
        spec = all(abs(Fraction(u[k]) - Fraction(x)) < Fraction(eeps) for k, x in g) and all(abs(Fraction(s[k]) - Fraction(x)) < Fraction(seps) for k, x in f)
        if real != mm[0] or bool(real) != spec:
            c.report("conv:%r" % ((eeps, seps, u, s, g, f),), "Imposed{Gradient,ThermodynamicForce}::checkConvergence on u=%r s=%r eeps=%r seps=%r gradients=%r forces=%r "
                     "answers %d, model %d, specification %s" % (u, s, eeps, seps, g, f, real, mm[0], spec), {"real": line}, True)
    c.coverage["rule"] = ("seeded (VERIF_SEED) + corpus. LPI: %d tables of 1-6 points (duplicate and unordered abscissas) x 9-12 query times (nodes, outside, inside). "
                          "Time loop: %d option/oracle sets on dyadic data compared exactly with the rational model (both modes, mSubSteps 0..10, "
                          "oracles of 0..12 scripted failures/scaling factors, min/max time step) + %d on arbitrary doubles checked against the stated "
                          "property; %d accepted steps in total. Constraints: %d sets at/around the tolerance. non-trivial = at least one rejected "
                          "attempt or dynamic scaling / more than one abscissa / at least one constraint" % (len(tables), len(ex_dy), len(ex_any), nacc, len(convs)))
    c.coverage["traces_validated_against_impl"] = len(tables) + len(ex_dy) + len(convs)

    r = c.coq(["C48Model.v", "C48Spec.v", "C48Proofs.v", "Properties_C48.v"], timeout=1500)
    if not r.ok:
        c.coq_failures(r)


guarded_main("C48", main)

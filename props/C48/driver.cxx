// C48 driver: the REAL LPIEvolution (mtest/src/Evolution.cxx) and the REAL GenericSolver::execute
// (mtest/src/GenericSolver.cxx, with the real StudyCurrentState::update/revert) driven by a scripted Study (step oracle).
//   LPI <n> t1 v1 ... tn vn <m> q1 ... qm                       -> V v1 ... vm   (hex floats)  | X message
//   EXEC <dyn> <msub> <min_dt> <max_dt> <min_sf> <max_sf> <ti> <te> <n> ok1 r1 ... okn rn
//        -> R <done|raise-*> <period> <subSteps> A <nattempts> (t dt ok period)* O <nout> t*
//   CONV <eeps> <seps> <n> u1.. s1.. <ng> (c v)* <nf> (c v)*   -> C <0|1>  (real ImposedGradient/ImposedThermodynamicForce::checkConvergence)
//   EXECN <dyn> <msub> <min_dt> <max_dt> <min_sf> <max_sf> <ti> <te> <itmax> <nopred> <n> u_1.. <nattempts> (<ncalls> (ok sf r_1..r_n chk)*)*
//        the Newton branch (`iterate`, u1 non empty) of the REAL GenericSolver::execute around a scripted Study with K = identity
//        -> N <status> <period> <subSteps> <iterations> A <nattempts> (t dt period ncalls)* U u_1.. u0.. u1.. u10..
//   MCONV <file.mtest> <eeps> <seps> <iter> <t> <dt> <nu> u1.. <ns> s1.. <n> du.. <n> r..
//        the REAL MTest::checkConvergence (norm part + active constraints) of the MTest object read from <file.mtest>  -> M <0|1>
//   EVT <active> <na> a1.. <nd> d1.. <ne> e1..   the REAL ConstraintBase::treatEvent (through an ImposedGradient) with the given initial
//        activity, activating and desactivating events, on the sequence of events e1..   -> T (<active after the event> <returned value>)*
//   FEV <nev> (<name> C <v> | <name> L <n> t1 v1 ... | <name> F <formula>)* <formula> <m> q1 ... qm
//        the REAL FunctionEvolution (mtest/src/FunctionEvolution.cxx) built on an EvolutionManager holding constant, LPI and function
//        evolutions (formulas without blanks)   -> V v1 ... vm K <isConstant>
#include <cstdio>
#include <cstdlib>
#include <string>
#include <vector>
#include <sstream>
#include <iostream>
#include <memory>
#include "MTest/Evolution.hxx"
#include "MTest/FunctionEvolution.hxx"
#include "MTest/Study.hxx"
#include "MTest/StudyCurrentState.hxx"
#include "MTest/StructureCurrentState.hxx"
#include "MTest/CurrentState.hxx"
#include "MTest/SolverWorkSpace.hxx"
#include "MTest/SolverOptions.hxx"
#include "MTest/GenericSolver.hxx"
#include "MTest/ImposedGradient.hxx"
#include "MTest/ImposedThermodynamicForce.hxx"
#include "MTest/MTest.hxx"
#include "MFront/MFrontLogStream.hxx"
#include <map>

using mtest::real;

static double rd(std::istream& is) {
  std::string s;
  is >> s;
  return std::strtod(s.c_str(), nullptr);
}

struct ScriptedStudy final : mtest::Study {
  std::vector<std::pair<bool, real>> script;
  mutable std::vector<std::tuple<real, real, bool, unsigned int>> attempts;
  mutable std::vector<real> outputs;
  size_type getNumberOfUnknowns() const override { return 0; }
  void initializeCurrentState(mtest::StudyCurrentState&) const override {}
  void initializeWorkSpace(mtest::SolverWorkSpace&) const override {}
  std::pair<bool, real> prepare(mtest::StudyCurrentState&, const real, const real) const override { return {true, 1}; }
  void makeLinearPrediction(mtest::StudyCurrentState&, const real) const override {}
  bool doPackagingStep(mtest::StudyCurrentState&) const override { return true; }
  std::pair<bool, real> computePredictionStiffnessAndResidual(mtest::StudyCurrentState&, tfel::math::matrix<real>&,
                                                               tfel::math::vector<real>&, const real&, const real&,
                                                               const mtest::StiffnessMatrixType) const override {
    return {true, 1};
  }
  std::pair<bool, real> computeStiffnessMatrixAndResidual(mtest::StudyCurrentState& scs, tfel::math::matrix<real>&,
                                                           tfel::math::vector<real>&, const real t, const real dt,
                                                           const mtest::StiffnessMatrixType) const override {
    const auto k = this->attempts.size();
    const auto r = k < this->script.size() ? this->script[k] : std::pair<bool, real>{true, 1};
    this->attempts.push_back({t, dt, r.first, scs.period});
    return r;
  }
  real getErrorNorm(const tfel::math::vector<real>&) const override { return 0; }
  bool checkConvergence(mtest::StudyCurrentState&, const tfel::math::vector<real>&, const tfel::math::vector<real>&,
                        const mtest::SolverOptions&, const unsigned int, const real, const real) const override {
    return true;
  }
  std::vector<std::string> getFailedCriteriaDiagnostic(const mtest::StudyCurrentState&, const tfel::math::vector<real>&,
                                                       const tfel::math::vector<real>&, const mtest::SolverOptions&,
                                                       const real, const real) const override {
    return {};
  }
  void computeLoadingCorrection(mtest::StudyCurrentState&, mtest::SolverWorkSpace&, const mtest::SolverOptions&, const real,
                                const real) const override {}
  bool postConvergence(mtest::StudyCurrentState&, const real, const real, const unsigned int) const override { return true; }
  void setModellingHypothesis(const std::string&) override {}
  void printOutput(const real t, const mtest::StudyCurrentState&, const bool) const override { this->outputs.push_back(t); }
  void setDefaultModellingHypothesis() override {}

 protected:
  void setGaussPointPositionForEvolutionsEvaluation(const mtest::CurrentState&) const override {}
};

// ---- scripted Study for the Newton branch: K = identity (LUSolve gives du = r exactly), r / success / scaling factor / answer of
// checkConvergence come from the script, per attempt (an attempt begins with `prepare`) and per call
struct NewtonScriptedStudy final : mtest::Study {
  struct Call {
    bool ok;
    real sf;
    std::vector<real> r;
    bool chk;
  };
  std::size_t n = 0;
  std::vector<std::vector<Call>> script;
  mutable std::vector<std::tuple<real, real, unsigned int, unsigned int>> attempts;  // t, dt, period, calls
  mutable std::size_t cur = 0;
  const Call* call() const {
    const auto a = this->attempts.size() - 1;
    if (a >= this->script.size()) return nullptr;
    const auto k = std::get<3>(this->attempts.back());
    if ((k == 0) || (k > this->script[a].size())) return nullptr;
    return &(this->script[a][k - 1]);
  }
  size_type getNumberOfUnknowns() const override { return this->n; }
  void initializeCurrentState(mtest::StudyCurrentState&) const override {}
  void initializeWorkSpace(mtest::SolverWorkSpace&) const override {}
  std::pair<bool, real> prepare(mtest::StudyCurrentState& scs, const real t, const real dt) const override {
    this->attempts.push_back({t, dt, scs.period, 0u});
    return {true, 1};
  }
  void makeLinearPrediction(mtest::StudyCurrentState&, const real) const override {}
  bool doPackagingStep(mtest::StudyCurrentState&) const override { return true; }
  std::pair<bool, real> computePredictionStiffnessAndResidual(mtest::StudyCurrentState&, tfel::math::matrix<real>&,
                                                               tfel::math::vector<real>&, const real&, const real&,
                                                               const mtest::StiffnessMatrixType) const override {
    return {true, 1};
  }
  std::pair<bool, real> computeStiffnessMatrixAndResidual(mtest::StudyCurrentState&, tfel::math::matrix<real>& K,
                                                           tfel::math::vector<real>& r, const real, const real,
                                                           const mtest::StiffnessMatrixType) const override {
    ++std::get<3>(this->attempts.back());
    for (std::size_t i = 0; i != this->n; ++i) {
      for (std::size_t j = 0; j != this->n; ++j) K(i, j) = (i == j) ? 1 : 0;
    }
    const auto* c = this->call();
    for (std::size_t i = 0; i != this->n; ++i) r(i) = (c == nullptr) ? 0 : c->r[i];
    return (c == nullptr) ? std::pair<bool, real>{true, 1} : std::pair<bool, real>{c->ok, c->sf};
  }
  real getErrorNorm(const tfel::math::vector<real>&) const override { return 0; }
  bool checkConvergence(mtest::StudyCurrentState&, const tfel::math::vector<real>&, const tfel::math::vector<real>&,
                        const mtest::SolverOptions&, const unsigned int, const real, const real) const override {
    const auto* c = this->call();
    return (c == nullptr) ? true : c->chk;
  }
  std::vector<std::string> getFailedCriteriaDiagnostic(const mtest::StudyCurrentState&, const tfel::math::vector<real>&,
                                                       const tfel::math::vector<real>&, const mtest::SolverOptions&,
                                                       const real, const real) const override {
    return {};
  }
  void computeLoadingCorrection(mtest::StudyCurrentState&, mtest::SolverWorkSpace&, const mtest::SolverOptions&, const real,
                                const real) const override {}
  bool postConvergence(mtest::StudyCurrentState&, const real, const real, const unsigned int) const override { return true; }
  void setModellingHypothesis(const std::string&) override {}
  void printOutput(const real, const mtest::StudyCurrentState&, const bool) const override {}
  void setDefaultModellingHypothesis() override {}

 protected:
  void setGaussPointPositionForEvolutionsEvaluation(const mtest::CurrentState&) const override {}
};

struct LoadedMTest {
  std::shared_ptr<mtest::MTest> t;
  mtest::StudyCurrentState state;
};

int main() {
  mfront::setVerboseMode(mfront::VERBOSE_QUIET);
  std::map<std::string, LoadedMTest> mtests;
  std::string line;
  while (std::getline(std::cin, line)) {
    std::istringstream is(line);
    std::string cmd;
    is >> cmd;
    if (cmd.empty()) continue;
    try {
      if (cmd == "LPI") {
        std::size_t n, m;
        is >> n;
        std::vector<real> t(n), v(n);
        for (std::size_t i = 0; i != n; ++i) {
          t[i] = rd(is);
          v[i] = rd(is);
        }
        mtest::LPIEvolution e(t, v);
        is >> m;
        std::printf("V");
        for (std::size_t i = 0; i != m; ++i) {
          std::printf(" %a", e(rd(is)));
        }
        std::printf("\n");
      } else if (cmd == "EXEC") {
        mtest::SolverOptions o;
        int dyn;
        is >> dyn >> o.mSubSteps;
        o.dynamic_time_step_scaling = dyn != 0;
        o.minimal_time_step = rd(is);
        o.maximal_time_step = rd(is);
        o.minimal_time_step_scaling_factor = rd(is);
        o.maximal_time_step_scaling_factor = rd(is);
        const real ti = rd(is), te = rd(is);
        std::size_t n;
        is >> n;
        ScriptedStudy s;
        for (std::size_t i = 0; i != n; ++i) {
          int ok;
          is >> ok;
          const real r = rd(is);
          s.script.push_back({ok != 0, r});
        }
        mtest::StudyCurrentState scs;  // u1 empty: GenericSolver uses its `iterate2` branch
        mtest::SolverWorkSpace wk;
        std::string status = "done";
        try {
          mtest::GenericSolver().execute(scs, wk, s, o, ti, te);
        } catch (std::exception& e) {
          const std::string m = e.what();
          status = m.find("maximum number of sub stepping") != std::string::npos ? "raise-maxsub"
                   : m.find("negative time step") != std::string::npos        ? "raise-negative"
                   : m.find("below its minimal value") != std::string::npos   ? "raise-belowmin"
                                                                                : "raise-other";
        }
        std::printf("R %s %u %u A %zu", status.c_str(), scs.period, scs.subSteps, s.attempts.size());
        for (const auto& a : s.attempts) {
          std::printf(" %a %a %d %u", std::get<0>(a), std::get<1>(a), std::get<2>(a) ? 1 : 0, std::get<3>(a));
        }
        std::printf(" O %zu", s.outputs.size());
        for (const auto& t : s.outputs) std::printf(" %a", t);
        std::printf("\n");
      } else if (cmd == "CONV") {
        // CONV <eeps> <seps> <n> u1.. s1.. <ng> (c v)* <nf> (c v)*
        const real eeps = rd(is), seps = rd(is);
        std::size_t n, ng, nf;
        is >> n;
        tfel::math::vector<real> u(n), sg(n);
        for (auto& x : u) x = rd(is);
        for (auto& x : sg) x = rd(is);
        bool ok = true;
        is >> ng;
        for (std::size_t i = 0; i != ng; ++i) {
          unsigned short c;
          is >> c;
          const real v = rd(is);
          mtest::ImposedGradient g(c, mtest::make_evolution(v));
          ok = g.checkConvergence(u, sg, eeps, seps, 0., 1.) && ok;
        }
        is >> nf;
        for (std::size_t i = 0; i != nf; ++i) {
          unsigned short c;
          is >> c;
          const real v = rd(is);
          mtest::ImposedThermodynamicForce f(c, mtest::make_evolution(v));
          ok = f.checkConvergence(u, sg, eeps, seps, 0., 1.) && ok;
        }
        std::printf("C %d\n", ok ? 1 : 0);
      } else if (cmd == "EXECN") {
        mtest::SolverOptions o;
        int dyn, nopred;
        is >> dyn >> o.mSubSteps;
        o.dynamic_time_step_scaling = dyn != 0;
        o.minimal_time_step = rd(is);
        o.maximal_time_step = rd(is);
        o.minimal_time_step_scaling_factor = rd(is);
        o.maximal_time_step_scaling_factor = rd(is);
        const real ti = rd(is), te = rd(is);
        is >> o.iterMax >> nopred;
        o.ppolicy = nopred ? mtest::PredictionPolicy::NOPREDICTION : mtest::PredictionPolicy::LINEARPREDICTION;
        o.ktype = mtest::StiffnessMatrixType::CONSISTENTTANGENTOPERATOR;
        NewtonScriptedStudy s;
        is >> s.n;
        mtest::StudyCurrentState scs;
        scs.initialize(s.n);
        for (std::size_t i = 0; i != s.n; ++i) {
          scs.u_1[i] = rd(is);
          scs.u0[i] = scs.u1[i] = scs.u10[i] = scs.u_1[i];
        }
        std::size_t na;
        is >> na;
        s.script.resize(na);
        for (auto& a : s.script) {
          std::size_t nc;
          is >> nc;
          a.resize(nc);
          for (auto& c : a) {
            int ok, chk;
            is >> ok;
            c.ok = ok != 0;
            c.sf = rd(is);
            c.r.resize(s.n);
            for (auto& x : c.r) x = rd(is);
            is >> chk;
            c.chk = chk != 0;
          }
        }
        mtest::SolverWorkSpace wk;
        wk.K.resize(s.n, s.n);
        wk.p_lu.resize(s.n);
        wk.x.resize(s.n);
        wk.r.resize(s.n, 0.);
        wk.du.resize(s.n, 0.);
        std::string status = "done";
        try {
          mtest::GenericSolver().execute(scs, wk, s, o, ti, te);
        } catch (std::exception& e) {
          const std::string m = e.what();
          status = m.find("maximum number of sub stepping") != std::string::npos ? "raise-maxsub"
                   : m.find("negative time step") != std::string::npos        ? "raise-negative"
                   : m.find("below its minimal value") != std::string::npos   ? "raise-belowmin"
                                                                                : "raise-other";
        }
        std::printf("N %s %u %u %u A %zu", status.c_str(), scs.period, scs.subSteps, scs.iterations, s.attempts.size());
        for (const auto& a : s.attempts) {
          std::printf(" %a %a %u %u", std::get<0>(a), std::get<1>(a), std::get<2>(a), std::get<3>(a));
        }
        std::printf(" U");
        for (const auto* v : {&scs.u_1, &scs.u0, &scs.u1, &scs.u10}) {
          for (std::size_t i = 0; i != s.n; ++i) std::printf(" %a", (*v)[i]);
        }
        std::printf("\n");
      } else if (cmd == "MCONV") {
        std::string f;
        is >> f;
        auto p = mtests.find(f);
        if (p == mtests.end()) {
          LoadedMTest l;
          l.t = std::make_shared<mtest::MTest>();
          l.t->readInputFile(f, {}, {});
          l.t->completeInitialisation();
          l.t->initializeCurrentState(l.state);
          p = mtests.insert({f, l}).first;
        }
        auto& l = p->second;
        mtest::SolverOptions o;
        o.eeps = rd(is);
        o.seps = rd(is);
        unsigned int iter;
        is >> iter;
        const real t = rd(is), dt = rd(is);
        std::size_t nu, ns, n1, n2;
        is >> nu;
        if (nu != l.state.u1.size()) throw std::runtime_error("MCONV: invalid number of unknowns");
        for (std::size_t i = 0; i != nu; ++i) l.state.u1[i] = rd(is);
        auto& cs = l.state.getStructureCurrentState("").istates[0];
        is >> ns;
        if (ns != cs.s1.size()) throw std::runtime_error("MCONV: invalid number of thermodynamic forces");
        for (std::size_t i = 0; i != ns; ++i) cs.s1[i] = rd(is);
        is >> n1;
        tfel::math::vector<real> du(n1);
        for (auto& x : du) x = rd(is);
        is >> n2;
        tfel::math::vector<real> r(n2);
        for (auto& x : r) x = rd(is);
        std::printf("M %d\n", l.t->checkConvergence(l.state, du, r, o, iter, t, dt) ? 1 : 0);
      } else if (cmd == "EVT") {
        int act;
        std::size_t na, nd, ne;
        is >> act >> na;
        std::vector<std::string> a(na);
        for (auto& x : a) is >> x;
        is >> nd;
        std::vector<std::string> d(nd);
        for (auto& x : d) is >> x;
        mtest::ImposedGradient g(0, mtest::make_evolution(0.));
        g.setActive(act != 0);
        if (!a.empty()) g.setActivatingEvents(a);
        if (!d.empty()) g.setDesactivatingEvents(d);
        is >> ne;
        std::printf("T");
        for (std::size_t i = 0; i != ne; ++i) {
          std::string e;
          is >> e;
          const auto r = g.treatEvent(e);
          std::printf(" %d %d", g.isActive() ? 1 : 0, r ? 1 : 0);
        }
        std::printf("\n");
      } else if (cmd == "FEV") {
        std::size_t nev, m;
        is >> nev;
        mtest::EvolutionManager evm;  // outlives the FunctionEvolutions, which keep a reference to it
        for (std::size_t i = 0; i != nev; ++i) {
          std::string name, kind;
          is >> name >> kind;
          if (kind == "C") {
            evm[name] = mtest::make_evolution(rd(is));
          } else if (kind == "L") {
            std::size_t n;
            is >> n;
            std::vector<real> t(n), v(n);
            for (std::size_t j = 0; j != n; ++j) {
              t[j] = rd(is);
              v[j] = rd(is);
            }
            evm[name] = std::make_shared<mtest::LPIEvolution>(t, v);
          } else {
            std::string f;
            is >> f;
            evm[name] = std::make_shared<mtest::FunctionEvolution>(f, evm);
          }
        }
        std::string f;
        is >> f;
        mtest::FunctionEvolution e(f, evm);
        is >> m;
        std::printf("V");
        for (std::size_t i = 0; i != m; ++i) {
          std::printf(" %a", e(rd(is)));
        }
        std::printf(" K %d\n", e.isConstant() ? 1 : 0);
      } else {
        std::printf("E unknown\n");
      }
    } catch (std::exception& e) {
      std::string m = e.what();
      for (auto& ch : m)
        if (ch == '\n') ch = ' ';
      std::printf("X %s\n", m.c_str());
    }
    std::fflush(stdout);
  }
  return 0;
}

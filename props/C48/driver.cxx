// C48 driver: the REAL LPIEvolution (mtest/src/Evolution.cxx) and the REAL GenericSolver::execute
// (mtest/src/GenericSolver.cxx, with the real StudyCurrentState::update/revert) driven by a scripted Study (step oracle).
//   LPI <n> t1 v1 ... tn vn <m> q1 ... qm                       -> V v1 ... vm   (hex floats)  | X message
//   EXEC <dyn> <msub> <min_dt> <max_dt> <min_sf> <max_sf> <ti> <te> <n> ok1 r1 ... okn rn
//        -> R <done|raise-*> <period> <subSteps> A <nattempts> (t dt ok period)* O <nout> t*
//   CONV <eeps> <seps> <n> u1.. s1.. <ng> (c v)* <nf> (c v)*   -> C <0|1>  (real ImposedGradient/ImposedThermodynamicForce::checkConvergence)
#include <cstdio>
#include <cstdlib>
#include <string>
#include <vector>
#include <sstream>
#include <iostream>
#include <memory>
#include "MTest/Evolution.hxx"
#include "MTest/Study.hxx"
#include "MTest/StudyCurrentState.hxx"
#include "MTest/StructureCurrentState.hxx"
#include "MTest/CurrentState.hxx"
#include "MTest/SolverWorkSpace.hxx"
#include "MTest/SolverOptions.hxx"
#include "MTest/GenericSolver.hxx"
#include "MTest/ImposedGradient.hxx"
#include "MTest/ImposedThermodynamicForce.hxx"

using mtest::real;

static double rd(std::istream& is) {
  std::string s;
  is >> s;
  return std::strtod(s.c_str(), nullptr);
}

struct ScriptedStudy final : mtest::Study {
  std::vector<std::pair<bool, real>> script;
  mutable std::vector<std::tuple<real, real, bool, unsigned int>> attempts;
  mutable std::vector<real> outputs;
  size_type getNumberOfUnknowns() const override { return 0; }
  void initializeCurrentState(mtest::StudyCurrentState&) const override {}
  void initializeWorkSpace(mtest::SolverWorkSpace&) const override {}
  std::pair<bool, real> prepare(mtest::StudyCurrentState&, const real, const real) const override { return {true, 1}; }
  void makeLinearPrediction(mtest::StudyCurrentState&, const real) const override {}
  bool doPackagingStep(mtest::StudyCurrentState&) const override { return true; }
  std::pair<bool, real> computePredictionStiffnessAndResidual(mtest::StudyCurrentState&, tfel::math::matrix<real>&,
                                                               tfel::math::vector<real>&, const real&, const real&,
                                                               const mtest::StiffnessMatrixType) const override {
    return {true, 1};
  }
  std::pair<bool, real> computeStiffnessMatrixAndResidual(mtest::StudyCurrentState& scs, tfel::math::matrix<real>&,
                                                           tfel::math::vector<real>&, const real t, const real dt,
                                                           const mtest::StiffnessMatrixType) const override {
    const auto k = this->attempts.size();
    const auto r = k < this->script.size() ? this->script[k] : std::pair<bool, real>{true, 1};
    this->attempts.push_back({t, dt, r.first, scs.period});
    return r;
  }
  real getErrorNorm(const tfel::math::vector<real>&) const override { return 0; }
  bool checkConvergence(mtest::StudyCurrentState&, const tfel::math::vector<real>&, const tfel::math::vector<real>&,
                        const mtest::SolverOptions&, const unsigned int, const real, const real) const override {
    return true;
  }
  std::vector<std::string> getFailedCriteriaDiagnostic(const mtest::StudyCurrentState&, const tfel::math::vector<real>&,
                                                       const tfel::math::vector<real>&, const mtest::SolverOptions&,
                                                       const real, const real) const override {
    return {};
  }
  void computeLoadingCorrection(mtest::StudyCurrentState&, mtest::SolverWorkSpace&, const mtest::SolverOptions&, const real,
                                const real) const override {}
  bool postConvergence(mtest::StudyCurrentState&, const real, const real, const unsigned int) const override { return true; }
  void setModellingHypothesis(const std::string&) override {}
  void printOutput(const real t, const mtest::StudyCurrentState&, const bool) const override { this->outputs.push_back(t); }
  void setDefaultModellingHypothesis() override {}

 protected:
  void setGaussPointPositionForEvolutionsEvaluation(const mtest::CurrentState&) const override {}
};

int main() {
  std::string line;
  while (std::getline(std::cin, line)) {
    std::istringstream is(line);
    std::string cmd;
    is >> cmd;
    if (cmd.empty()) continue;
    try {
      if (cmd == "LPI") {
        std::size_t n, m;
        is >> n;
        std::vector<real> t(n), v(n);
        for (std::size_t i = 0; i != n; ++i) {
          t[i] = rd(is);
          v[i] = rd(is);
        }
        mtest::LPIEvolution e(t, v);
        is >> m;
        std::printf("V");
        for (std::size_t i = 0; i != m; ++i) {
          std::printf(" %a", e(rd(is)));
        }
        std::printf("\n");
      } else if (cmd == "EXEC") {
        mtest::SolverOptions o;
        int dyn;
        is >> dyn >> o.mSubSteps;
        o.dynamic_time_step_scaling = dyn != 0;
        o.minimal_time_step = rd(is);
        o.maximal_time_step = rd(is);
        o.minimal_time_step_scaling_factor = rd(is);
        o.maximal_time_step_scaling_factor = rd(is);
        const real ti = rd(is), te = rd(is);
        std::size_t n;
        is >> n;
        ScriptedStudy s;
        for (std::size_t i = 0; i != n; ++i) {
          int ok;
          is >> ok;
          const real r = rd(is);
          s.script.push_back({ok != 0, r});
        }
        mtest::StudyCurrentState scs;  // u1 empty: GenericSolver uses its `iterate2` branch
        mtest::SolverWorkSpace wk;
        std::string status = "done";
        try {
          mtest::GenericSolver().execute(scs, wk, s, o, ti, te);
        } catch (std::exception& e) {
          const std::string m = e.what();
          status = m.find("maximum number of sub stepping") != std::string::npos ? "raise-maxsub"
                   : m.find("negative time step") != std::string::npos        ? "raise-negative"
                   : m.find("below its minimal value") != std::string::npos   ? "raise-belowmin"
                                                                                : "raise-other";
        }
        std::printf("R %s %u %u A %zu", status.c_str(), scs.period, scs.subSteps, s.attempts.size());
        for (const auto& a : s.attempts) {
          std::printf(" %a %a %d %u", std::get<0>(a), std::get<1>(a), std::get<2>(a) ? 1 : 0, std::get<3>(a));
        }
        std::printf(" O %zu", s.outputs.size());
        for (const auto& t : s.outputs) std::printf(" %a", t);
        std::printf("\n");
      } else if (cmd == "CONV") {
        // CONV <eeps> <seps> <n> u1.. s1.. <ng> (c v)* <nf> (c v)*
        const real eeps = rd(is), seps = rd(is);
        std::size_t n, ng, nf;
        is >> n;
        tfel::math::vector<real> u(n), sg(n);
        for (auto& x : u) x = rd(is);
        for (auto& x : sg) x = rd(is);
        bool ok = true;
        is >> ng;
        for (std::size_t i = 0; i != ng; ++i) {
          unsigned short c;
          is >> c;
          const real v = rd(is);
          mtest::ImposedGradient g(c, mtest::make_evolution(v));
          ok = g.checkConvergence(u, sg, eeps, seps, 0., 1.) && ok;
        }
        is >> nf;
        for (std::size_t i = 0; i != nf; ++i) {
          unsigned short c;
          is >> c;
          const real v = rd(is);
          mtest::ImposedThermodynamicForce f(c, mtest::make_evolution(v));
          ok = f.checkConvergence(u, sg, eeps, seps, 0., 1.) && ok;
        }
        std::printf("C %d\n", ok ? 1 : 0);
      } else {
        std::printf("E unknown\n");
      }
    } catch (std::exception& e) {
      std::string m = e.what();
      for (auto& ch : m)
        if (ch == '\n') ch = ' ';
      std::printf("X %s\n", m.c_str());
    }
    std::fflush(stdout);
  }
  return 0;
}

"""C08 -- fixed-size nonlinear solvers never claim false convergence.
Engine H: Gallina model of TinyNonLinearSolverBase::solveNonLinearSystem/2 with every Child hook as an oracle;
theorems for every oracle / iterMax / criterion; tie = the REAL template run (i) with a mock CRTP child whose hook
outcomes are scripted (all scripts up to a length, random beyond) and (ii) inside the six real solvers on residual
families with injected failures / NaN / inf, the complete hook-call trace and final state compared with the model
(model fed, for (ii), with the outcomes read off the observed trace: an acceptor)."""
import itertools, math, os, re, struct
from vlib import guarded_main

NAN, INF = float("nan"), float("inf")
SOLVERS = ["NewtonRaphson", "Broyden", "Broyden2", "LevenbergMarquardt", "PowellDogLegNewtonRaphson", "PowellDogLegBroyden"]


def bits(x):
    return "nan" if x != x else struct.pack(">d", x).hex()


def hx(x):
    if x != x:
        return "nan"
    if math.isinf(x):
        return "inf" if x > 0 else "-inf"
    return x.hex()


def cq(x):
    if x != x:
        return "nan"
    if math.isinf(x):
        return "infinity" if x > 0 else "neg_infinity"
    if x == 0:
        return "(-0)" if math.copysign(1, x) < 0 else "0"
    h = x.hex()
    return "(%s)" % h if h.startswith("-") else h


def cql(v):
    return "[" + "; ".join(cq(x) for x in v) + "]"


def fh(s):
    return NAN if s == "nan" else float.fromhex(s)


# ---------------------------------------------------------------- scripted outcomes for the mock child
def symbol(ch, j):
    """(ok, err, corr) ; corr = None | (zo or None, d)"""
    if ch == "F":
        return (False, 0.0, None)
    if ch == "N":
        return (True, NAN, None)
    if ch == "I":
        return (True, INF, None)
    if ch == "C":
        return (True, 0.5, None)
    if ch == "K":
        return (True, 2.0, None)
    if ch == "S":
        return (True, 2.0, (None, [float(j + 1), -(j + 1) / 2.0]))
    if ch == "Q":
        return (True, 1.0, ([float(j), j + 0.25], [0.5, 0.25]))
    raise ValueError(ch)


class Case:
    def __init__(self, cid, kind, im, crit, eps, z0, script=None, solver=None, prob=None):
        self.id, self.kind, self.im, self.crit, self.eps, self.z0 = cid, kind, im, crit, eps, z0
        self.script, self.solver, self.prob = script, solver, prob

    def line(self):
        if self.kind == "M":
            t = ["M", self.id, str(self.im), str(self.crit), hx(self.eps), hx(self.z0[0]), hx(self.z0[1]), str(len(self.script))]
            for (ok, e, c) in self.script:
                t += ["1" if ok else "0", hx(e)]
                if c is None:
                    t.append("0")
                elif c[0] is None:
                    t += ["1", hx(c[1][0]), hx(c[1][1])]
                else:
                    t += ["2", hx(c[1][0]), hx(c[1][1]), hx(c[0][0]), hx(c[0][1])]
            return " ".join(t)
        A, b, cc, jac, inj = self.prob
        t = ["S", self.id, str(self.solver), str(self.im), hx(self.eps), hx(self.z0[0]), hx(self.z0[1])]
        t += [hx(x) for x in A] + [hx(x) for x in b] + [hx(x) for x in cc] + [str(jac), str(len(inj))]
        for (k, w) in inj:
            t += [str(k), str(w)]
        return " ".join(t)

    def json(self):
        d = {"id": self.id, "kind": "mock child with scripted hook outcomes" if self.kind == "M" else "real solver " + SOLVERS[self.solver],
             "iterMax": self.im, "epsilon": hx(self.eps), "zeros0": [hx(x) for x in self.z0], "driver_line": self.line(),
             "how": "props/C08/driver.cxx <file containing driver_line>"}
        if self.kind == "M":
            d["criterion"] = "default e<epsilon" if self.crit == 0 else "child override !(e>=epsilon)"
            d["script(ok,norm,correction)"] = [[ok, hx(e), None if c is None else {"zeros_overwritten": c[0], "delta_zeros": c[1]}] for (ok, e, c) in self.script]
        else:
            A, b, cc, jac, inj = self.prob
            d["F_i(z)=sum_j A_ij z_j + b_i + c_i z_i^2"] = {"A": A, "b": b, "c": cc, "initial_jacobian": "exact" if jac else "identity",
                                                             "injected(evaluation index, 0=false 1=NaN 2=inf)": inj}
        return d


def coq_case(im, crit, eps, z0, script):
    def oc(o):
        ok, e, c = o
        cs = "None" if c is None else "Some (%s, %s)" % ("None" if c[0] is None else "Some " + cql(c[0]), cql(c[1]))
        return "(%s, %s, %s)" % ("true" if ok else "false", cq(e), cs)
    return "(%d%%nat, %d%%nat, %s, %s, [%s])" % (im, crit, cq(eps), cql(z0), "; ".join(oc(o) for o in script))


def mock_cases(c):
    cs = []
    alpha = "FNICKSQ"
    maxlen = c.pick(3, 4)
    n = 0
    for L in range(0, maxlen + 1):
        for w in itertools.product(alpha, repeat=L):
            for im in ([0, 1, 2, 3, 4, 6] if L <= 3 else [L, L + 1]):
                if im + 1 < L:
                    continue  # the tail of the script would never be consulted
                crit = n % 2
                n += 1
                cs.append(Case("m%s.%d.%d" % ("".join(w) or "-", im, crit), "M", im, crit, 1.0, [1.0, 2.0],
                               [symbol(ch, j) for j, ch in enumerate(w)]))
    if not c.quick():  # length 5, one budget
        for w in itertools.product(alpha, repeat=5):
            crit = n % 2
            n += 1
            cs.append(Case("m%s.5.%d" % ("".join(w), crit), "M", 5, crit, 1.0, [1.0, 2.0], [symbol(ch, j) for j, ch in enumerate(w)]))
    rng = c.rng
    for t in range(c.pick(300, 4000)):
        L = rng.randint(4, 14)
        sc = []
        for j in range(L):
            ch = rng.choice("FNICKSSSSQQ")
            o = symbol(ch, j)
            if ch in "SQ" and rng.random() < 0.7:
                d = [rng.randint(-64, 64) / 16.0, rng.randint(-64, 64) / 8.0]
                o = (o[0], rng.choice([1.0, 2.0, 1.5, 2.0 ** 500, 2.0 ** 600]), (o[2][0], d))
            sc.append(o)
        cs.append(Case("mr%d" % t, "M", rng.choice([1, 2, 3, 5, 8, 12, 16]), rng.randint(0, 1), 1.0,
                       [rng.randint(-8, 8) / 4.0, rng.randint(-8, 8) / 2.0], sc))
    return cs


def real_cases(c):
    rng = c.rng
    cs = []
    for t in range(c.pick(600, 6000)):
        solver = t % 6
        r = rng.random()
        if r < 0.15:
            A = [1.0, 2.0, 2.0, 4.0]  # singular Jacobian when c = 0
            cc = [0.0, 0.0] if rng.random() < 0.7 else [rng.uniform(-0.2, 0.2), 0.0]
        else:
            A = [rng.uniform(2, 4), rng.uniform(-1, 1), rng.uniform(-1, 1), rng.uniform(2, 4)]
            cc = [rng.uniform(-0.3, 0.3), rng.uniform(-0.3, 0.3)]
        b = [rng.uniform(-3, 3), rng.uniform(-3, 3)]
        ninj = rng.choice([0, 0, 1, 1, 2, 3])
        inj = sorted(set((rng.randint(0, 7), rng.randint(0, 2)) for _ in range(ninj)))
        inj = list({k: w for (k, w) in inj}.items())
        cs.append(Case("s%d" % t, "S", rng.choice([1, 2, 3, 5, 10, 30]), 0, rng.choice([1e-10, 1e-6, 1e-14, 0.0, 1e3]),
                       [rng.uniform(-2, 2), rng.uniform(-2, 2)], None, solver, (A, b, cc, rng.randint(0, 1), inj)))
    return cs


def parse_driver(out):
    res = {}
    for l in out.splitlines():
        t = l.split()
        if not t or t[0] != "R":
            continue
        cid, r, it = t[1], int(t[2]), int(t[3])
        z = [fh(t[4]), fh(t[5])]
        n = int(t[6])
        p = 7
        evs = []
        for _ in range(n):
            code, m = int(t[p]), int(t[p + 1])
            evs.append((code, [fh(u) for u in t[p + 2:p + 2 + m]]))
            p += 2 + m
        res[cid] = (r, it, z, evs)
    return res


def derive_script(evs):
    """outcomes of the successive residual evaluations, read off an observed trace"""
    sc = []
    for (code, pl) in evs:
        if code in (4, 5):
            sc.append([code == 5, 0.0, None])
        elif code == 6 and sc:
            sc[-1][1] = pl[0]
        elif code == 13 and sc:
            sc[-1][2] = (pl[2:4] if len(pl) == 4 else None, pl[0:2])
    return [tuple(o) for o in sc]


def spec_check(case, obs):
    """independent statement of the property on the observed hook calls of the real code"""
    r, it, z, evs = obs
    bad = []
    codes = [e[0] for e in evs]
    nres = sum(1 for k in codes if k in (4, 5))
    if r == 3 or it > case.im or nres > case.im:
        bad.append(("budget:" + case.id, "iterMax=%d but iter=%d and %d residual evaluations%s" % (case.im, it, nres, " (run aborted by the driver's guard)" if r == 3 else "")))
        return bad
    if r in (1, 2):
        ok = len(evs) >= 5 and codes[-5:] == [5, 6, 9, 11, 16]
        if ok:
            zr, e = evs[-5][1], evs[-4][1][0]
            crit_ok = (e < case.eps) if case.crit == 0 else (not (e >= case.eps))
            ok = [bits(x) for x in zr] == [bits(x) for x in z] and math.isfinite(e) and crit_ok and bits(evs[-3][1][0]) == bits(e)
        if not ok or r == 2:
            bad.append(("sound:" + case.id, "success returned but the run does not end with a successful residual evaluation at the returned unknowns "
                        "with a finite norm accepted by the criterion%s; last events %s, zeros %s" % (
                            " (fzeros is not the residual at the returned zeros)" if r == 2 else "", evs[-6:], z)))
    else:
        if not codes or codes[-1] != 17 or 16 in codes:
            bad.append(("verdict:" + case.id, "failure returned but the last report is not reportFailure: %s" % codes[-4:]))
    # a failed / non finite evaluation is rejected on the spot
    for i, (code, pl) in enumerate(evs):
        if code == 4 or (code == 6 and not math.isfinite(pl[0])):
            if codes[i + 1:i + 3] != [7, 8]:
                bad.append(("reject:" + case.id, "failed or non-finite residual evaluation (event %d) not followed by rejectCurrentCorrection/reportInvalidResidualEvaluation: %s" % (i, codes[i:i + 5])))
                break
    return bad


def parse_term(txt):
    toks = re.findall(r"[\[\]();,]|[^\s\[\]();,]+", txt)
    pos = [0]

    def term():
        t = toks[pos[0]]
        pos[0] += 1
        if t == "[" or t == "(":
            close = "]" if t == "[" else ")"
            items = []
            while toks[pos[0]] != close:
                items.append(term())
                if toks[pos[0]] in (";", ","):
                    pos[0] += 1
            pos[0] += 1
            return items if t == "[" else tuple(items)
        return t
    return term()


def parse_coq(out):
    def fl(s):
        return {"nan": NAN, "infinity": INF, "neg_infinity": -INF}[s] if s in ("nan", "infinity", "neg_infinity") else float(s)
    res = []
    for m in re.finditer(r"^\s+= (.*?)^\s+: ", out, flags=re.S | re.M):
        for t in parse_term(m.group(1)):
            try:
                res.append((t[0] == "true", int(t[1].replace("%Z", "")), [fl(u) for u in t[2]],
                            [int(e.replace("%Z", "")) for e in t[3]], [fl(u) for u in t[4]]))
            except (KeyError, ValueError, IndexError, TypeError):
                res.append(None)
    return res


MODEL = ["C08Model.v", "C08Float.v"]


def main(c):
    exe = c.cxx("driver", ["driver.cxx"], ["src/Exception/ContractViolation.cxx"], flags=["-ffp-contract=off"])
    cases = mock_cases(c) + real_cases(c)
    inp = os.path.join(c.work, "cases.txt")
    with open(inp, "w") as f:
        f.write("\n".join(cs.line() for cs in cases) + "\n")
    rc, out, err = c.run([exe, inp], timeout=900)
    if rc != 0:
        c.report("run", "driver failed (rc=%d): %s" % (rc, err[-500:]), {"stderr": err[-3000:]}, False)
        return
    obs = parse_driver(out)
    if len(obs) != len(cases):
        c.report("run", "driver printed %d results for %d cases" % (len(obs), len(cases)), {}, False)
        return
    c.log("driver ran %d cases (%d mock, %d real solvers)" % (len(cases), sum(1 for x in cases if x.kind == "M"), sum(1 for x in cases if x.kind == "S")))
    nsucc = 0
    nbad = {}
    for cs in cases:
        o = obs[cs.id]
        nsucc += o[0] in (1, 2)
        c.count(1, cs.id, len(o[3]) > 5)
        for (key, what) in spec_check(cs, o):
            cat = key.split(":")[0]
            nbad[cat] = nbad.get(cat, 0) + 1
            if nbad[cat] <= 5:  # the first failing inputs of each kind (cases are ordered by size)
                c.report(key, what, cs.json(), True)
    if nbad:
        c.notes.append("property failures observed on the real code, by kind: %s (first 5 of each reported)" % nbad)
    # ---- correspondence: complete trace + final state, model vs real code
    mism = []
    nmodel = 0
    chunk = 4000
    for k0 in range(0, len(cases), chunk):
        sub = cases[k0:k0 + chunk]
        items = []
        for cs in sub:
            sc = derive_script(obs[cs.id][3])
            if cs.kind == "M":
                # scripted outcomes; the norm is the value computeResidualNorm really returned for the scripted fzeros
                sc = [(o[0], sc[k][1] if k < len(sc) and o[0] else o[1], o[2]) for k, o in enumerate(cs.script)]
            items.append(coq_case(cs.im, cs.crit, cs.eps, cs.z0, sc))
        txt = ("From Coq Require Import Floats List ZArith.\nFrom C08 Require Import C08Model C08Float.\nImport ListNotations.\n"
               "Open Scope float_scope.\n" + "".join("Eval vm_compute in map run1 [\n%s].\n" % ";\n".join(items[j:j + 400])
                                                     for j in range(0, len(items), 400)))
        rc, out, err = c.coq_eval(MODEL, txt, timeout=900)
        if rc != 0:
            c.report("model-run", "model evaluation failed: " + err[-600:], {"stderr": err[-3000:]}, False)
            return
        mres = parse_coq(out)
        if len(mres) != len(sub):
            c.report("model-run", "model printed %d results for %d cases" % (len(mres), len(sub)), {"stdout": out[-2000:]}, False)
            return
        c.log("model evaluated on %d cases" % len(sub))
        for cs, m in zip(sub, mres):
            r, it, z, evs = obs[cs.id]
            nmodel += 1
            same = m is not None and m[0] == (r in (1, 2)) and m[1] == it and [bits(x) for x in m[2]] == [bits(x) for x in z]
            if same:
                # payloads compared for residual (zeros), norm and standard-iteration events; the payload printed by the
                # driver with computeNewCorrection (delta_zeros, overwritten zeros) is an input of the model, not an output
                same = (m[3] == [k for (k, _pl) in evs] and
                        [bits(x) for x in m[4]] == [bits(x) for (k, pl) in evs if k != 13 for x in pl])
            if not same:
                mism.append((cs, m, obs[cs.id]))
            elif nmodel % 997 == 5:
                c.sample({"case": cs.id, "kind": cs.json()["kind"], "result": r, "iter": it, "zeros": [hx(x) for x in z], "hook_calls": [k for (k, _p) in evs][:40]})
    c.coverage["traces_validated_against_impl"] = nmodel
    c.coverage["rule"] = ("mock child: every script over 7 outcome classes (residual fails, NaN norm, inf norm, converged, correction fails, step, "
                          "boundary norm==epsilon with step overwriting zeros) of length <= %d for several iterMax (%s), both criteria "
                          "(default e<eps, override !(e>=eps)), plus seeded random scripts of length 4..14; real solvers: %d seeded systems over "
                          "NewtonRaphson/Broyden/Broyden2/LevenbergMarquardt/PowellDogLeg(NR,Broyden), N=2, singular Jacobians included, failures/NaN/inf "
                          "injected at up to 3 evaluation indices; %d of all runs succeeded. non-trivial = more than 5 hook calls"
                          % (c.pick(3, 4), "0,1,2,3,4,6" if c.quick() else "0,1,2,3,4,6; length 4 at iterMax 4,5; length 5 at iterMax 5", c.pick(600, 6000), nsucc))
    c.trusted("hand-written Gallina model coq/C08Model.v (tied to /repo by differential execution of complete hook-call traces only)",
              "driver props/C08/driver.cxx: logging mixin, mock child, residual family; for the real solvers the model is fed with the outcomes read off the observed trace (acceptor)",
              "g++ -O1 -ffp-contract=off doubles = IEEE binary64 = Coq primitive floats (zeros updates compared bit for bit)",
              "Python differ / parsers")
    if mism:
        cs, m, o = mism[0]
        c.report("corr:" + cs.id, "model and real code disagree on %d/%d cases, first: %s model=%s code=%s" % (
            len(mism), nmodel, cs.id, None if m is None else (m[0], m[1], m[2], m[3]), (o[0], o[1], o[2], [k for (k, _p) in o[3]])),
            cs.json(), False)
    res = c.coq(["C08Model.v", "C08Spec.v", "C08Proofs.v", "Properties_C08.v"], timeout=600)
    if not res.ok:
        c.coq_failures(res)
    c.assumptions.append("every Child hook is an arbitrary function of the run history (oracle indexed by the residual-evaluation count); "
                         "iter/iterMax modelled as nat (unsigned short wrap-around not modelled, iterMax <= 65535)")


guarded_main("C08", main)

"""C08 -- fixed-size nonlinear solvers never claim false convergence.
Engine H: Gallina model of TinyNonLinearSolverBase::solveNonLinearSystem/2 with every Child hook as an oracle;
theorems for every oracle / iterMax / criterion; tie = the REAL template run (i) with a mock CRTP child whose hook
outcomes are scripted (all scripts up to a length, random beyond) and (ii) inside the six real solvers on residual
families (affine, quadratic, products with known roots, rational, N = 1 cubic with an admissibility constraint) with
injected failures / NaN / inf, the complete hook-call trace and final state compared with the model (model fed, for
(ii), with the outcomes read off the observed trace: an acceptor).
Engine S: ONE computeNewCorrection of each solver is traced from /repo (trace.cxx, N = 1..3 Newton, N = 2/3 Broyden,
N = 2 Levenberg-Marquardt and dog-leg) and Coq proves, on the regenerated terms: Newton equation and exactness on
affine residuals, secant / inverse secant equations, damped normal equations and the accept/reject rule of mu,
dog-leg geometry; a run model of successive LM corrections sits on top of the traced step."""
import itertools, math, os, re, struct
from concurrent.futures import ThreadPoolExecutor
from vlib import guarded_main

NAN, INF = float("nan"), float("inf")
SOLVERS = ["NewtonRaphson", "Broyden", "Broyden2", "LevenbergMarquardt", "PowellDogLegNewtonRaphson", "PowellDogLegBroyden"]


def bits(x):
    return "nan" if x != x else struct.pack(">d", x).hex()


def hx(x):
    if x != x:
        return "nan"
    if math.isinf(x):
        return "inf" if x > 0 else "-inf"
    return x.hex()


def cq(x):
    if x != x:
        return "nan"
    if math.isinf(x):
        return "infinity" if x > 0 else "neg_infinity"
    if x == 0:
        return "(-0)" if math.copysign(1, x) < 0 else "0"
    h = x.hex()
    return "(%s)" % h if h.startswith("-") else h


def cql(v):
    return "[" + "; ".join(cq(x) for x in v) + "]"


def fh(s):
    return NAN if s == "nan" else float.fromhex(s)


# ---------------------------------------------------------------- scripted outcomes for the mock child
def symbol(ch, j):
    """(ok, err, corr) ; corr = None | (zo or None, d)"""
    if ch == "F":
        return (False, 0.0, None)
    if ch == "N":
        return (True, NAN, None)
    if ch == "I":
        return (True, INF, None)
    if ch == "C":
        return (True, 0.5, None)
    if ch == "K":
        return (True, 2.0, None)
    if ch == "S":
        return (True, 2.0, (None, [float(j + 1), -(j + 1) / 2.0]))
    if ch == "Q":
        return (True, 1.0, ([float(j), j + 0.25], [0.5, 0.25]))
    raise ValueError(ch)


class Case:
    """kind M: mock child; S/Q/T: real solver (N = 2) on a residual family; K: real solver (N = 1) on x^3 - x"""
    FAMILY = {"S": "F_i(z)=sum_j A_ij z_j + b_i + c_i z_i^2", "Q": "F = A q(z), q_i = (z_i - b_i)(z_i - c_i)",
              "T": "F = A q(z), q_i = (z_i - b_i)/(1 + z_i^2)"}

    def __init__(self, cid, kind, im, crit, eps, z0, script=None, solver=None, prob=None, affine=False, xmin=None):
        self.id, self.kind, self.im, self.crit, self.eps, self.z0 = cid, kind, im, crit, eps, z0
        self.script, self.solver, self.prob, self.affine, self.xmin = script, solver, prob, affine, xmin

    def line(self):
        if self.kind == "M":
            t = ["M", self.id, str(self.im), str(self.crit), hx(self.eps), hx(self.z0[0]), hx(self.z0[1]), str(len(self.script))]
            for (ok, e, c) in self.script:
                t += ["1" if ok else "0", hx(e)]
                if c is None:
                    t.append("0")
                elif c[0] is None:
                    t += ["1", hx(c[1][0]), hx(c[1][1])]
                else:
                    t += ["2", hx(c[1][0]), hx(c[1][1]), hx(c[0][0]), hx(c[0][1])]
            return " ".join(t)
        if self.kind == "K":
            return " ".join(["K", self.id, str(self.solver), str(self.im), hx(self.eps), hx(self.z0[0]), hx(self.xmin)])
        A, b, cc, jac, inj = self.prob
        t = [self.kind, self.id, str(self.solver), str(self.im), hx(self.eps), hx(self.z0[0]), hx(self.z0[1])]
        t += [hx(x) for x in A] + [hx(x) for x in b] + [hx(x) for x in cc] + [str(jac), str(len(inj))]
        for (k, w) in inj:
            t += [str(k), str(w)]
        return " ".join(t)

    def json(self):
        d = {"id": self.id, "kind": "mock child with scripted hook outcomes" if self.kind == "M" else "real solver " + SOLVERS[self.solver],
             "iterMax": self.im, "epsilon": hx(self.eps), "zeros0": [hx(x) for x in self.z0], "zeros0_decimal": self.z0,
             "driver_line": self.line(), "how": "props/C08/driver.cxx <file containing driver_line>"}
        if self.kind == "M":
            d["criterion"] = "default e<epsilon" if self.crit == 0 else "child override !(e>=epsilon)"
            d["script(ok,norm,correction)"] = [[ok, hx(e), None if c is None else {"zeros_overwritten": c[0], "delta_zeros": c[1]}] for (ok, e, c) in self.script]
        elif self.kind == "K":
            d["residual"] = "N = 1, f(x) = x^3 - x; computeResidual fills fzeros (and the jacobian) and returns x > %r" % self.xmin
        else:
            A, b, cc, jac, inj = self.prob
            d[self.FAMILY[self.kind]] = {"A": A, "b": b, "c": cc, "initial_jacobian": "exact" if jac else "identity",
                                         "injected(evaluation index, 0=false 1=NaN 2=inf)": inj}
        return d

    def describe(self):
        if self.kind == "M":
            return "mock child, iterMax %d, script %s" % (self.im, self.id)
        if self.kind == "K":
            return "%s, N = 1, f(x) = x^3 - x admissible for x > %g, start x0 = %.17g, iterMax %d, epsilon %g" % (SOLVERS[self.solver], self.xmin, self.z0[0], self.im, self.eps)
        return "%s, N = 2, %s, start %s, iterMax %d, epsilon %g" % (SOLVERS[self.solver], self.FAMILY[self.kind], self.z0, self.im, self.eps)

    def residual(self, z):
        """independent evaluation of the residual at z (Python floats)"""
        if self.kind == "K":
            return [z[0] ** 3 - z[0]]
        A, b, cc, _jac, _inj = self.prob
        if self.kind == "S":
            return [A[2 * i] * z[0] + A[2 * i + 1] * z[1] + b[i] + cc[i] * z[i] * z[i] for i in range(2)]
        q = [(z[i] - b[i]) * (z[i] - cc[i]) if self.kind == "Q" else (z[i] - b[i]) / (1 + z[i] * z[i]) for i in range(2)]
        return [A[2 * i] * q[0] + A[2 * i + 1] * q[1] for i in range(2)]


def coq_case(im, crit, eps, z0, script):
    def oc(o):
        ok, e, c = o
        cs = "None" if c is None else "Some (%s, %s)" % ("None" if c[0] is None else "Some " + cql(c[0]), cql(c[1]))
        return "(%s, %s, %s)" % ("true" if ok else "false", cq(e), cs)
    return "(%d%%nat, %d%%nat, %s, %s, [%s])" % (im, crit, cq(eps), cql(z0), "; ".join(oc(o) for o in script))


def mock_cases(c):
    cs = []
    alpha = "FNICKSQ"
    maxlen = c.pick(3, 4)
    n = 0
    for L in range(0, maxlen + 1):
        for w in itertools.product(alpha, repeat=L):
            for im in ([0, 1, 2, 3, 4, 6] if L <= 3 else [L, L + 1]):
                if im + 1 < L:
                    continue  # the tail of the script would never be consulted
                crit = n % 2
                n += 1
                cs.append(Case("m%s.%d.%d" % ("".join(w) or "-", im, crit), "M", im, crit, 1.0, [1.0, 2.0],
                               [symbol(ch, j) for j, ch in enumerate(w)]))
    if not c.quick():  # length 5, one budget
        for w in itertools.product(alpha, repeat=5):
            crit = n % 2
            n += 1
            cs.append(Case("m%s.5.%d" % ("".join(w), crit), "M", 5, crit, 1.0, [1.0, 2.0], [symbol(ch, j) for j, ch in enumerate(w)]))
    rng = c.rng
    for t in range(c.pick(300, 4000)):
        L = rng.randint(4, 14)
        sc = []
        for j in range(L):
            ch = rng.choice("FNICKSSSSQQ")
            o = symbol(ch, j)
            if ch in "SQ" and rng.random() < 0.7:
                d = [rng.randint(-64, 64) / 16.0, rng.randint(-64, 64) / 8.0]
                o = (o[0], rng.choice([1.0, 2.0, 1.5, 2.0 ** 500, 2.0 ** 600]), (o[2][0], d))
            sc.append(o)
        cs.append(Case("mr%d" % t, "M", rng.choice([1, 2, 3, 5, 8, 12, 16]), rng.randint(0, 1), 1.0,
                       [rng.randint(-8, 8) / 4.0, rng.randint(-8, 8) / 2.0], sc))
    return cs


def real_cases(c):
    rng = c.rng
    cs = []
    for t in range(c.pick(600, 6000)):
        solver = t % 6
        r = rng.random()
        if r < 0.15:
            A = [1.0, 2.0, 2.0, 4.0]  # singular Jacobian when c = 0
            cc = [0.0, 0.0] if rng.random() < 0.7 else [rng.uniform(-0.2, 0.2), 0.0]
        else:
            A = [rng.uniform(2, 4), rng.uniform(-1, 1), rng.uniform(-1, 1), rng.uniform(2, 4)]
            cc = [rng.uniform(-0.3, 0.3), rng.uniform(-0.3, 0.3)]
        b = [rng.uniform(-3, 3), rng.uniform(-3, 3)]
        ninj = rng.choice([0, 0, 1, 1, 2, 3])
        inj = sorted(set((rng.randint(0, 7), rng.randint(0, 2)) for _ in range(ninj)))
        inj = list({k: w for (k, w) in inj}.items())
        cs.append(Case("s%d" % t, "S", rng.choice([1, 2, 3, 5, 10, 30]), 0, rng.choice([1e-10, 1e-6, 1e-14, 0.0, 1e3]),
                       [rng.uniform(-2, 2), rng.uniform(-2, 2)], None, solver, (A, b, cc, rng.randint(0, 1), inj)))
    return cs


def family_cases(c):
    """affine systems (one Newton step must be enough), systems with known roots, the N = 1 cubic with an inadmissible root"""
    rng = c.rng
    cs = []

    def wellcond():
        return [rng.uniform(2, 4), rng.uniform(-1, 1), rng.uniform(-1, 1), rng.uniform(2, 4)]
    for t in range(c.pick(120, 1200)):
        solver = t % 6
        cs.append(Case("a%d" % t, "S", rng.choice([2, 3, 10]), 0, rng.choice([1e-10, 1e-6, 1e-12]),
                       [rng.uniform(-2, 2), rng.uniform(-2, 2)], None, solver,
                       (wellcond(), [rng.uniform(-3, 3), rng.uniform(-3, 3)], [0.0, 0.0], 1 if t % 12 < 9 else 0, []), affine=True))
    for t in range(c.pick(180, 1800)):
        solver = t % 6
        kind = "Q" if t % 2 == 0 else "T"
        b = [rng.uniform(-2, 2), rng.uniform(-2, 2)]
        cc = [b[i] + rng.choice([-1, 1]) * rng.uniform(1, 3) for i in range(2)] if kind == "Q" else [0.0, 0.0]
        ninj = rng.choice([0, 0, 0, 1])
        inj = [(rng.randint(0, 5), rng.randint(0, 2))] if ninj else []
        z0 = [b[i] + rng.uniform(-0.4, 0.4) for i in range(2)] if t % 3 else [rng.uniform(-3, 3), rng.uniform(-3, 3)]
        cs.append(Case("%s%d" % (kind.lower(), t), kind, rng.choice([5, 10, 30, 60]), 0, rng.choice([1e-10, 1e-8, 1e-12]),
                       z0, None, solver, (wellcond(), b, cc, 1, inj)))
    # f = x^3 - x, admissible only for x > -0.5: every start of the sweep -0.45, -0.40, ... 2.55 for the six solvers
    for solver in range(6):
        for i in range(61):
            x0 = -0.45 + 0.05 * i
            cs.append(Case("k%d.%d" % (solver, i), "K", 50, 0, 1e-12, [x0], None, solver, None, xmin=-0.5))
    if not c.quick():
        for t in range(600):
            cs.append(Case("kr%d" % t, "K", rng.choice([5, 20, 50]), 0, rng.choice([1e-12, 1e-8]), [rng.uniform(-3, 3)], None, t % 6, None,
                           xmin=rng.choice([-0.5, 0.5, -2.0])))
    return cs


def dogleg_cases(c):
    """(id, solver, J, F, radius): one computeNewCorrection of the two dog-leg solvers; the first one is canonical"""
    rng = c.rng
    ds = [("canon", 5, [1.0, 0.0, 0.0, 2.0], [1.0, 1.0], 0.01), ("canon-nr", 4, [1.0, 0.0, 0.0, 2.0], [1.0, 1.0], 0.01)]
    for t in range(c.pick(60, 600)):
        J = [rng.uniform(2, 4) * rng.choice([-1, 1]), rng.uniform(-1, 1), rng.uniform(-1, 1), rng.uniform(2, 4)]
        ds.append(("g%d" % t, 4 + t % 2, J, [rng.uniform(-3, 3), rng.uniform(-3, 3)], rng.choice([4.0, 1.0, 0.25, 0.05, 0.01])))
    return ds


def mv(M, x):
    n = len(x)
    return [sum(M[n * i + j] * x[j] for j in range(n)) for i in range(n)]


def tmv(M, x):
    n = len(x)
    return [sum(M[n * i + j] * x[i] for i in range(n)) for j in range(n)]


def dogleg_apply(d, J, f, r):
    """independent statement of Powell's dog-leg as documented in TinyPowellDogLegAlgorithmBase.hxx (tests on the sum of
    absolute values against N * radius, Euclidean geometry) applied to a step d (N = 2)"""
    if abs(d[0]) + abs(d[1]) < 2 * r:
        return list(d), "step kept"
    g = tmv(J, f)
    Jg = mv(J, g)
    cst = (g[0] * g[0] + g[1] * g[1]) / (Jg[0] * Jg[0] + Jg[1] * Jg[1])
    gc = [cst * g[0], cst * g[1]]
    if abs(gc[0]) + abs(gc[1]) < 2 * r:
        c0, c1, c2, c3 = r * r, gc[0] ** 2 + gc[1] ** 2, -(d[0] * gc[0] + d[1] * gc[1]), d[0] ** 2 + d[1] ** 2
        c4 = (c2 - c0) ** 2 + (c3 - c0) * (c0 - c1)
        al = (c0 - c1) / (c2 - c1 + math.sqrt(max(c4, 0.0)))
        return [al * d[i] - (1 - al) * gc[i] for i in range(2)], "segment"
    n = math.hypot(gc[0], gc[1])
    return [-gc[i] * r / n for i in range(2)], "steepest descent"


def newton2(J, f):
    det = J[0] * J[3] - J[1] * J[2]
    return [-(J[3] * f[0] - J[1] * f[1]) / det, -(-J[2] * f[0] + J[0] * f[1]) / det]


def dogleg_ref(J, f, r):
    """the dog-leg applied to the Newton step of (J, f)"""
    return dogleg_apply(newton2(J, f), J, f, r)


def parse_driver(out, nz):
    """nz: case id -> number of unknowns"""
    res, dres = {}, {}
    for l in out.splitlines():
        t = l.split()
        if not t:
            continue
        if t[0] == "D":
            dres[t[1]] = (int(t[2]), [fh(t[3]), fh(t[4])])
            continue
        if t[0] != "R":
            continue
        cid, r, it = t[1], int(t[2]), int(t[3])
        k = nz[cid]
        z = [fh(u) for u in t[4:4 + k]]
        n = int(t[4 + k])
        p = 5 + k
        evs = []
        for _ in range(n):
            code, m = int(t[p]), int(t[p + 1])
            evs.append((code, [fh(u) for u in t[p + 2:p + 2 + m]]))
            p += 2 + m
        res[cid] = (r, it, z, evs)
    return res, dres


def derive_script(evs, nz=2):
    """outcomes of the successive residual evaluations, read off an observed trace"""
    sc = []
    for (code, pl) in evs:
        if code in (4, 5):
            sc.append([code == 5, 0.0, None])
        elif code == 6 and sc:
            sc[-1][1] = pl[0]
        elif code == 13 and sc:
            n = nz if len(pl) in (nz, 2 * nz) else len(pl)
            sc[-1][2] = (pl[n:2 * n] if len(pl) == 2 * n else None, pl[0:n])
    return [tuple(o) for o in sc]


def spec_check(case, obs):
    """independent statement of the property on the observed hook calls of the real code"""
    r, it, z, evs = obs
    bad = []
    codes = [e[0] for e in evs]
    nres = sum(1 for k in codes if k in (4, 5))
    if r == 3 or it > case.im or nres > case.im:
        bad.append(("budget:" + case.id, "iterMax=%d but iter=%d and %d residual evaluations%s" % (case.im, it, nres, " (run aborted by the driver's guard)" if r == 3 else "")))
        return bad
    if r in (1, 2):
        ok = len(evs) >= 5 and codes[-5:] == [5, 6, 9, 11, 16]
        if ok:
            zr, e = evs[-5][1], evs[-4][1][0]
            crit_ok = (e < case.eps) if case.crit == 0 else (not (e >= case.eps))
            ok = [bits(x) for x in zr] == [bits(x) for x in z] and math.isfinite(e) and crit_ok and bits(evs[-3][1][0]) == bits(e)
        if not ok or r == 2:
            bad.append(("sound:" + case.id, "success returned but the run does not end with a successful residual evaluation at the returned unknowns "
                        "with a finite norm accepted by the criterion%s; last events %s, zeros %s" % (
                            " (fzeros is not the residual at the returned zeros)" if r == 2 else "", evs[-6:], z)))
    else:
        if not codes or codes[-1] != 17 or 16 in codes:
            bad.append(("verdict:" + case.id, "failure returned but the last report is not reportFailure: %s" % codes[-4:]))
    if r in (1, 2) and case.kind in "SQTK" and not bad:
        # independent re-evaluation of the residual at the returned unknowns
        f = case.residual(z)
        nf = math.sqrt(sum(x * x for x in f))
        if not (nf < case.eps * (1 + 1e-6) + 1e-300):
            bad.append(("root:" + case.id, "success returned at zeros %s where the residual norm recomputed independently is %.3g >= epsilon %.3g" % (z, nf, case.eps)))
        if case.kind == "K":
            x = z[0]
            roots = [t for t in (-1.0, 0.0, 1.0) if t > case.xmin]
            if not (x > case.xmin and any(abs(x - t) <= 1e-5 for t in roots)):
                bad.append(("root:" + case.id, "success returned at x = %.17g, which is not an admissible root of x^3 - x (admissible: x > %g, roots %s)" % (x, case.xmin, roots)))
        elif case.kind == "Q":
            b, cc = case.prob[1], case.prob[2]
            if not all(min(abs(z[i] - b[i]), abs(z[i] - cc[i])) <= 1e-5 * (1 + abs(z[i])) for i in range(2)):
                bad.append(("root:" + case.id, "success returned at %s, not one of the roots {%s} x {%s}" % (z, (b[0], cc[0]), (b[1], cc[1]))))
        elif case.kind == "T":
            b = case.prob[1]
            if not all(abs(z[i] - b[i]) <= 1e-5 * (1 + abs(z[i])) or abs(z[i]) > 1e3 for i in range(2)):
                bad.append(("root:" + case.id, "success returned at %s, not the root %s" % (z, b)))
    if case.affine and (case.solver == 0 or (case.solver in (1, 2) and case.prob[3] == 1)):
        # one (quasi-)Newton step with the exact jacobian solves an affine system
        if not (r == 1 and it <= 1):
            bad.append(("affine:" + case.id, "%s on a well-conditioned affine system with the exact jacobian: result %d after %d iteration(s) (expected success after one correction)" % (SOLVERS[case.solver], r, it)))
    # a failed / non finite evaluation is rejected on the spot
    for i, (code, pl) in enumerate(evs):
        if code == 4 or (code == 6 and not math.isfinite(pl[0])):
            if codes[i + 1:i + 3] != [7, 8]:
                bad.append(("reject:" + case.id, "failed or non-finite residual evaluation (event %d) not followed by rejectCurrentCorrection/reportInvalidResidualEvaluation: %s" % (i, codes[i:i + 5])))
                break
    return bad


def parse_term(txt):
    toks = re.findall(r"[\[\]();,]|[^\s\[\]();,]+", txt)
    pos = [0]

    def term():
        t = toks[pos[0]]
        pos[0] += 1
        if t == "[" or t == "(":
            close = "]" if t == "[" else ")"
            items = []
            while toks[pos[0]] != close:
                items.append(term())
                if toks[pos[0]] in (";", ","):
                    pos[0] += 1
            pos[0] += 1
            return items if t == "[" else tuple(items)
        return t
    return term()


def parse_coq(out):
    def fl(s):
        return {"nan": NAN, "infinity": INF, "neg_infinity": -INF}[s] if s in ("nan", "infinity", "neg_infinity") else float(s)
    res = []
    for m in re.finditer(r"^\s+= (.*?)^\s+: ", out, flags=re.S | re.M):
        for t in parse_term(m.group(1)):
            try:
                res.append((t[0] == "true", int(t[1].replace("%Z", "")), [fl(u) for u in t[2]],
                            [int(e.replace("%Z", "")) for e in t[3]], [fl(u) for u in t[4]]))
            except (KeyError, ValueError, IndexError, TypeError):
                res.append(None)
    return res


MODEL = ["C08Model.v", "C08Float.v"]
KEY_PBR = "dogleg-broyden:residual"
PIECES = ["nr1", "nr2", "nr3", "bup2", "b2up2", "bup3", "b2up3", "bco2", "b2co2", "lmstep2", "lmfirst2", "lmnext2", "dogleg2", "pnr2", "pbr2"]


def piece_spec(name, x, out):
    """independent statement (Python floats) of what one traced piece must satisfy; x = inputs, out = outputs of the code
    instantiated with double (None: it returned false).  Returns None or a description of the failure."""
    n = int(name[-1])
    tol = 1e-8

    def small(v, scale):
        return all(abs(t) <= tol * max(1.0, scale) for t in v)

    def scl(*vs):
        return max([1.0] + [abs(t) for v in vs for t in v])
    if name.startswith("nr"):
        J, F = x[:n * n], x[n * n:]
        if out is None:
            return None  # tiny determinant: checked by the theorem only
        res = [a + b for a, b in zip(mv(J, out), F)]
        return None if small(res, scl(F, out) * scl(J)) else "J d + F = %s for d = %s" % (res, out)
    if name.startswith(("bup", "b2up", "bco", "b2co")):
        M, dz, F, G = x[:n * n], x[n * n:n * n + n], x[n * n + n:n * n + 2 * n], x[n * n + 2 * n:]
        dF = [a - b for a, b in zip(F, G)]
        inv = name.startswith("b2")
        if out is None:
            return None
        M2 = out[n:n + n * n] if "co" in name else out
        res = [a - b for a, b in zip(mv(M2, dF), dz)] if inv else [a - b for a, b in zip(mv(M2, dz), dF)]
        if not small(res, scl(M2) * scl(dz, dF)):
            return "%s equation violated by the updated matrix %s: residual %s" % ("inverse secant" if inv else "secant", M2, res)
        if "co" in name:
            d = out[:n]
            res = [a + b for a, b in zip(d, mv(M2, F))] if inv else [a + b for a, b in zip(mv(M2, d), F)]
            if not small(res, scl(M2) * scl(d, F)):
                return "correction %s does not solve the quasi-Newton system: residual %s" % (d, res)
            if out[n + n * n:] != F:
                return "fzeros_1 = %s is not fzeros = %s" % (out[n + n * n:], F)
        return None
    if name in ("lmstep2", "lmfirst2", "lmnext2"):
        def lm_res(J, F, mu, d):
            lam = mu * math.hypot(F[0], F[1])
            return [a + lam * b + c_ for a, b, c_ in zip(tmv(J, mv(J, d)), d, tmv(J, F))]
        if out is None:
            return None
        if name == "lmstep2":
            J, F, mu = x[:4], x[4:6], x[6]
            res = lm_res(J, F, mu, out)
            return None if small(res, scl(J) ** 2 * scl(out, F)) else "(J^T J + mu |F| I) d + J^T F = %s" % res
        if name == "lmfirst2":
            J, F, mu, z = x[:4], x[4:6], x[6], x[7:9]
            exp = [mu] + z + out[3:5] + F + J + [math.hypot(F[0], F[1])] + F + J
        else:
            mu, z, dz, F, J, e1, G, K = x[0], x[1:3], x[3:5], x[5:7], x[7:11], x[11], x[12:14], x[14:18]
            p0, p1, p2, m = x[18:22]
            lin = [a + b for a, b in zip(G, mv(K, dz))]
            den = lin[0] ** 2 + lin[1] ** 2 - e1 * e1
            r = (F[0] ** 2 + F[1] ** 2 - e1 * e1) / den if den != 0 else float("nan")
            if any(abs(r - p) < 1e-9 * max(1.0, abs(r)) for p in (p0, p1, p2)) or r != r or abs(mu / 4 - m) < 1e-12:
                return None  # decision within rounding noise
            if r < p0:
                mu2, z, F, J = 4 * mu, [z[0] - dz[0], z[1] - dz[1]], G, K
                exp = [mu2] + z + out[3:5] + G + K + [e1] + G + K
            else:
                mu2 = 4 * mu if r < p1 else (max(mu / 4, m) if r > p2 else mu)
                exp = [mu2] + z + out[3:5] + F + J + [math.hypot(F[0], F[1])] + F + J
            mu = mu2
        if len(out) != len(exp) or not all(abs(a - b) <= 1e-12 * max(1.0, abs(b)) for a, b in zip(out, exp)):
            return "state after the call %s, expected %s (mu, zeros, delta_zeros, fzeros, jacobian, error_1, fzeros_1, jacobian_1)" % (out, exp)
        res = lm_res(J, F, mu, out[3:5])
        return None if small(res, scl(J) ** 2 * scl(out[3:5], F) + abs(mu) * scl(F) ** 2) else "the correction is not the LM step of the current system: residual %s" % res
    if name in ("dogleg2", "pnr2"):
        if out is None:
            return None
        if name == "dogleg2":
            d, J, F, r = x[:2], x[2:6], x[6:8], x[8]
        else:
            J, F, r = x[:4], x[4:6], x[6]
            d = newton2(J, F)
        if abs(abs(d[0]) + abs(d[1]) - 2 * r) < 1e-9:
            return None
        ref, branch = dogleg_apply(d, J, F, r)
        return None if all(abs(a - b) <= 1e-7 * max(1.0, scl(ref)) for a, b in zip(out, ref)) else "returns %s, Powell's dog-leg gives %s (%s)" % (out, ref, branch)
    return None


def run_tracer(c):
    """engine S: trace one computeNewCorrection of each solver from /repo; returns the generated .v or None"""
    trc = c.cxx("trace", ["trace.cxx"], ["src/Exception/ContractViolation.cxx"], flags=["-fno-access-control", "-w"])
    cdir = os.path.join(c.work, "coq")
    os.makedirs(cdir, exist_ok=True)
    gen = os.path.join(cdir, "C08_gen.v")
    rc, out, err = c.run([trc, "gen", gen, str(c.seed)], timeout=300)
    seen, nag, nfail = {}, 0, 0
    lines = out.splitlines()
    for k, l in enumerate(lines):
        t = l.split()
        if not t:
            continue
        if t[0] == "PIECE":
            seen[t[1]] = (int(t[5]), int(t[7]))
        elif t[0] in ("AGREE", "AGREE-FAIL"):
            nag += 1
            c.count(1, ("agree", t[1], t[2]), True)
            if t[0] == "AGREE-FAIL":
                nfail += 1
                if nfail <= 5:
                    c.report("agree:%s:%s" % (t[1], t[2]), "traced term of %s and the same code instantiated with double disagree: %s" % (
                        t[1], " | ".join(x.strip() for x in lines[k + 1:k + 4])), {"piece": t[1], "lines": lines[k:k + 4]}, True)
    nspec = {}
    for l in lines:
        t = l.split()
        if not t or t[0] != "DBL":
            continue
        nin = int(t[3])
        x = [float.fromhex(u) for u in t[4:4 + nin]]
        o = None if t[4 + nin] == "false" else [float.fromhex(u) for u in t[5 + nin:]]
        why = piece_spec(t[1], x, o)
        c.count(1, ("piece", t[1], t[2]), o is not None)
        if why:
            nspec[t[1]] = nspec.get(t[1], 0) + 1
            if nspec[t[1]] <= 2:
                c.report("piece:%s:%s" % (t[1], t[2]), "one correction of the real code (double) violates its specification, piece %s, inputs %s: %s" % (t[1], x, why),
                         {"piece": t[1], "inputs (order of the parameters of the piece in props/C08/trace.cxx)": x, "outputs": o, "how": "props/C08/trace.cxx gen /dev/null <seed>"}, True)
    ok = rc == 0 and "TRACE-FAIL" not in out and all(p in seen for p in PIECES)
    if not ok:
        msg = [l for l in lines if l.startswith("TRACE-FAIL")] or [err[-400:]]
        c.report("trace", "the tracer could not trace one correction of every solver of /repo: %s" % msg, {"stdout": out[-2000:], "stderr": err[-2000:]}, False)
        return None
    c.coverage["traced_pieces(leaves, returning)"] = seen
    c.log("engine S: %d pieces traced, %d Sym-vs-double agreement runs, %d disagreements" % (len(seen), nag, nfail))
    c.trusted("engine S tracer (cxx/sym/sym.hxx: Sym arithmetic, path oracle, printer), props/C08/trace.cxx (opens the solver classes with -fno-access-control, "
              "specialises std::is_floating_point<Sym> to pass the static_assert of the solvers), g++ template instantiation with Sym",
              "agreement Sym trace vs double instantiation on %d seeded inputs (relative 1e-9, all branches of the LM rule and of the dog-leg visited)" % nag)
    return gen


def main(c):
    exe = c.cxx("driver", ["driver.cxx"], ["src/Exception/ContractViolation.cxx"], flags=["-ffp-contract=off"])
    cases = mock_cases(c) + real_cases(c) + family_cases(c)
    dcases = dogleg_cases(c)
    inp = os.path.join(c.work, "cases.txt")
    with open(inp, "w") as f:
        f.write("\n".join(cs.line() for cs in cases) + "\n")
        for (did, solver, J, F, r) in dcases:
            f.write(" ".join(["D", did, str(solver)] + [hx(x) for x in J + F + [r]]) + "\n")
    rc, out, err = c.run([exe, inp], timeout=900)
    if rc != 0:
        c.report("run", "driver failed (rc=%d): %s" % (rc, err[-500:]), {"stderr": err[-3000:]}, False)
        return
    obs, dobs = parse_driver(out, {cs.id: len(cs.z0) for cs in cases})
    if len(obs) != len(cases) or len(dobs) != len(dcases):
        c.report("run", "driver printed %d+%d results for %d+%d cases" % (len(obs), len(dobs), len(cases), len(dcases)), {}, False)
        return
    kinds = {}
    for cs in cases:
        kinds[cs.kind] = kinds.get(cs.kind, 0) + 1
    c.log("driver ran %d cases %s and %d single dog-leg corrections" % (len(cases), kinds, len(dcases)))
    nsucc = 0
    nbad = {}
    for cs in cases:
        o = obs[cs.id]
        nsucc += o[0] in (1, 2)
        c.count(1, cs.id, len(o[3]) > 5)
        for (key, what) in spec_check(cs, o):
            cat = key.split(":")[0] + ":" + ("mock" if cs.kind == "M" else ("N=1 cubic" if cs.kind == "K" else "real solvers N=2"))
            nbad[cat] = nbad.get(cat, 0) + 1
            if nbad[cat] <= (5 if cs.kind == "M" else 3):  # the first failing inputs of each kind (cases are ordered by size)
                c.report(key, what + " [case %s: %s]" % (cs.id, cs.describe()), cs.json(), True)
    if nbad:
        c.notes.append("property failures observed on the real code, by kind: %s (first 5 / 3 of each reported)" % nbad)
    # ---- the dog-leg solvers against the independent statement of the dog-leg
    pbr_pinned = False
    others = []
    for (did, solver, J, F, r) in dcases:
        ok, d = dobs[did]
        ref, branch = dogleg_ref(J, F, r)
        c.count(1, ("dogleg", did), branch != "newton")
        sc = max(1e-300, max(abs(x) for x in ref))
        good = ok == 1 and all(abs(d[i] - ref[i]) <= 1e-9 * sc for i in range(2))
        if good:
            continue
        what = ("%s::computeNewCorrection on jacobian %s, residual %s, trust region %g returns delta_zeros = %s; Powell's dog-leg of the "
                "(quasi-)Newton step gives %s (%s branch)" % ("TinyPowellDogLeg" + ("NewtonRaphson" if solver == 4 else "Broyden") + "Solver<2>", J, F, r, d, ref, branch))
        rep = {"solver": SOLVERS[solver], "jacobian": J, "fzeros": F, "radius": r, "delta_zeros": d, "expected": ref, "branch": branch,
               "how": "props/C08/driver.cxx, line `D %s %d ...`" % (did, solver)}
        if did == "canon":
            pbr_pinned = True
            # Not a violation of C08 (the step stays inside the trust region, no false convergence follows): an observation about
            # the numerical content of the correction, recorded in the evidence; the theorem file that states what the code does
            # (pinned variant) is selected below.
            c.notes.append("observation (outside the statement of C08): " + what + ": the dog-leg is called with tmp_fzeros, which "
                           "TinyMatrixSolve has overwritten with the solution J^-1 F, in place of the residual (suggested patch: "
                           "props/C08/fix_dogleg_broyden.diff)")
        else:
            others.append((did, solver, what, rep))
    nsame = 0
    for (did, solver, what, rep) in others:
        if solver == 5 and pbr_pinned:
            nsame += 1  # further manifestations of the same observation
        else:
            c.report("dogleg:%s" % did, what, rep, True)
    if nsame:
        c.notes.append("%d more seeded inputs show the same observation (%s)" % (nsame, KEY_PBR))
    c.coverage["dogleg_broyden_variant"] = "pinned (dog-leg fed with the solution of the linear system)" if pbr_pinned else "dog-leg of (jacobian, residual)"
    # ---- engine S
    gen = run_tracer(c)

    # ---- Coq: model run (correspondence) and proofs, at most 4 jobs at a time
    def coq(files):
        r = c.coq(files, timeout=900)
        if not r.ok:
            c.coq_failures(r)
        return r
    r0 = coq(MODEL)
    if not r0.ok:
        return
    wd = os.path.join(c.work, "coq")
    model_abs = [os.path.join(wd, m) for m in MODEL]

    def model_job():
        mism, nmodel = [], 0
        chunk = 4000
        for k0 in range(0, len(cases), chunk):
            sub = cases[k0:k0 + chunk]
            items = []
            for cs in sub:
                sc = derive_script(obs[cs.id][3], len(cs.z0))
                if cs.kind == "M":
                    # scripted outcomes; the norm is the value computeResidualNorm really returned for the scripted fzeros
                    sc = [(o[0], sc[k][1] if k < len(sc) and o[0] else o[1], o[2]) for k, o in enumerate(cs.script)]
                items.append(coq_case(cs.im, cs.crit, cs.eps, cs.z0, sc))
            txt = ("From Coq Require Import Floats List ZArith.\nFrom C08 Require Import C08Model C08Float.\nImport ListNotations.\n"
                   "Open Scope float_scope.\n" + "".join("Eval vm_compute in map run1 [\n%s].\n" % ";\n".join(items[j:j + 400])
                                                         for j in range(0, len(items), 400)))
            rc, mout, merr = c.coq_eval(model_abs, txt, timeout=900)
            if rc != 0:
                c.report("model-run", "model evaluation failed: " + merr[-600:], {"stderr": merr[-3000:]}, False)
                return None
            mres = parse_coq(mout)
            if len(mres) != len(sub):
                c.report("model-run", "model printed %d results for %d cases" % (len(mres), len(sub)), {"stdout": mout[-2000:]}, False)
                return None
            c.log("model evaluated on %d cases" % len(sub))
            for cs, m in zip(sub, mres):
                r, it, z, evs = obs[cs.id]
                nmodel += 1
                same = m is not None and m[0] == (r in (1, 2)) and m[1] == it and [bits(x) for x in m[2]] == [bits(x) for x in z]
                if same:
                    # payloads compared for residual (zeros), norm and standard-iteration events; the payload printed by the
                    # driver with computeNewCorrection (delta_zeros, overwritten zeros) is an input of the model, not an output
                    same = (m[3] == [k for (k, _pl) in evs] and
                            [bits(x) for x in m[4]] == [bits(x) for (k, pl) in evs if k != 13 for x in pl])
                if not same:
                    mism.append((cs, m, obs[cs.id]))
                elif nmodel % 997 == 5:
                    c.sample({"case": cs.id, "kind": cs.json()["kind"], "result": r, "iter": it, "zeros": [hx(x) for x in z], "hook_calls": [k for (k, _p) in evs][:40]})
        return mism, nmodel

    # the theorem about TinyPowellDogLegBroydenSolver that corresponds to the tree (decided by the execution above); the
    # refutation of "dog-leg of (jacobian, residual)" on the pinned tree (interval arithmetic, slow) is left to the thorough tier
    if pbr_pinned:
        pbr_files = [["C08NumProofsD_pinned.v", "Properties_C08Num_pbr_pinned.v"]]
        if not c.quick():
            pbr_files.append(["C08NumProofsD_refuted.v", "Properties_C08Num_pbr_refuted.v"])
    else:
        pbr_files = [["C08NumProofsD_fixed.v", "Properties_C08Num_pbr_fixed.v"]]
    with ThreadPoolExecutor(max_workers=4) as ex:
        fm = ex.submit(model_job)
        fo = ex.submit(coq, ["C08Spec.v", "C08Proofs.v", "Properties_C08.v"])
        fnum = []
        if gen is not None:
            rg = coq([gen, "C08NumSpec.v", "C08NumTactics.v"])
            if rg.ok:
                fa = ex.submit(coq, ["C08NumProofsA.v", "Properties_C08NumA.v"])
                fb = ex.submit(coq, ["C08NumProofsB.v", "Properties_C08NumB.v"])
                rc_ = coq(["C08NumProofsC.v"])
                fnum = [fa, fb]
                if rc_.ok:
                    fnum.append(ex.submit(coq, ["Properties_C08NumC.v"]))
                    fnum += [ex.submit(coq, fl) for fl in pbr_files]
        mrun = fm.result()
        fo.result()
        for f in fnum:
            f.result()
    c.log("Coq done")
    if mrun is None:
        return
    mism, nmodel = mrun
    c.coverage["traces_validated_against_impl"] = nmodel
    c.coverage["rule"] = ("mock child: every script over 7 outcome classes (residual fails, NaN norm, inf norm, converged, correction fails, step, "
                          "boundary norm==epsilon with step overwriting zeros) of length <= %d for several iterMax (%s), both criteria "
                          "(default e<eps, override !(e>=eps)), plus seeded random scripts of length 4..14; real solvers "
                          "NewtonRaphson/Broyden/Broyden2/LevenbergMarquardt/PowellDogLeg(NR,Broyden): %d seeded systems A z + b + c z^2 (N=2, singular "
                          "Jacobians included, failures/NaN/inf injected at up to 3 evaluation indices), %d affine systems (one correction must be enough "
                          "for Newton and for Broyden started from the exact jacobian), %d systems A q(z) with known roots (products of quadratics / "
                          "rational), the N=1 cubic x^3-x admissible for x > -0.5 from 61 starts per solver (%d runs); %d single dog-leg corrections "
                          "against an independent statement of the dog-leg; %d of all runs succeeded. non-trivial = more than 5 hook calls"
                          % (c.pick(3, 4), "0,1,2,3,4,6" if c.quick() else "0,1,2,3,4,6; length 4 at iterMax 4,5; length 5 at iterMax 5", c.pick(600, 6000),
                             sum(1 for x in cases if x.affine), kinds.get("Q", 0) + kinds.get("T", 0), kinds.get("K", 0), len(dcases), nsucc))
    c.trusted("hand-written Gallina model coq/C08Model.v (tied to /repo by differential execution of complete hook-call traces only)",
              "driver props/C08/driver.cxx: logging mixin, mock child, residual families; for the real solvers the model is fed with the outcomes read off the observed trace (acceptor)",
              "g++ -O1 -ffp-contract=off doubles = IEEE binary64 = Coq primitive floats (zeros updates compared bit for bit)",
              "Python differ / parsers, independent statements of the property (residual re-evaluation, known roots, dog-leg reference)")
    if mism:
        cs, m, o = mism[0]
        c.report("corr:" + cs.id, "model and real code disagree on %d/%d cases, first: %s model=%s code=%s" % (
            len(mism), nmodel, cs.id, None if m is None else (m[0], m[1], m[2], m[3]), (o[0], o[1], o[2], [k for (k, _p) in o[3]])),
            cs.json(), False)
    c.assumptions.append("every Child hook is an arbitrary function of the run history (oracle indexed by the residual-evaluation count); "
                         "iter/iterMax modelled as nat (unsigned short wrap-around not modelled, iterMax <= 65535)")
    c.assumptions.append("engine S theorems are over the reals (no rounding): the traced terms are the exact-arithmetic reading of the C++; "
                         "fpclassify(n) != FP_ZERO of the Broyden updates is traced as `always update` (theorems assume the divisor non null)")


guarded_main("C08", main)

// C08: tracer (engine S) of the numerical content of ONE computeNewCorrection of the six fixed-size solvers of /repo.
//   trace gen <out.v> <seed> : Coq definitions of the traced pieces (decision trees over the determinant / trust-region /
//   acceptance tests, result `option (list R)`, None where the code returned false) + AGREE lines (the same template
//   code instantiated with double on seeded inputs vs the traced terms evaluated in long double).
// Pieces (inputs are symbolic variables, the solver object is the unmodified class template of /repo with T = Sym):
//   nrN (N=1,2,3)   TinyNewtonRaphsonSolver<N>::computeNewCorrection            in: J, F                 out: delta_zeros
//   bupN (N=2,3)    TinyBroydenSolver<N>::updateOrCheckJacobian (iter = 1)      in: B, dz, F, F_1        out: B'
//   bcoN (N=2)      TinyBroydenSolver<N>::computeNewCorrection (iter = 1)       in: B, dz, F, F_1        out: delta, B', fzeros_1'
//   b2upN (N=2,3)   TinyBroyden2Solver<N>::updateOrCheckJacobian (iter = 1)     in: H, dz, F, F_1        out: H'
//   b2coN (N=2)     TinyBroyden2Solver<N>::computeNewCorrection (iter = 1)      in: H, dz, F, F_1        out: delta, H', fzeros_1'
//   lmstepN (N=2)   TinyLevenbergMarquardtSolver<N>::computeLevenbergMarquardtCorrection   in: J, F, mu  out: delta
//   lmfirst2        ...::computeNewCorrection with levmar_first = true          in: J, F, mu             out: state
//   lmnext2         ...::computeNewCorrection with levmar_first = false         in: full state           out: state
//   dogleg2         applyPowellDogLegAlgorithm<2>                               in: d, J, F, radius      out: d'
//   pnr2 / pbr2     TinyPowellDogLeg{NewtonRaphson,Broyden}Solver<2>::computeNewCorrection   in: J, (dz, F_1,) F, radius  out: delta
// Specialising std::is_floating_point for Sym is formally not allowed; the solvers static_assert on it.  It is part of the
// trusted base of engine S and is checked indirectly by the Sym-vs-double agreement.
#include <type_traits>
namespace symv {
  struct Sym;
}
namespace std {
  template <>
  struct is_floating_point<symv::Sym> : true_type {};
  template <>
  struct is_floating_point<const symv::Sym> : true_type {};
}  // namespace std
#include "symtfel.hxx"
#include "TFEL/Math/tvector.hxx"
#include "TFEL/Math/tmatrix.hxx"
#include "TFEL/Math/TinyNewtonRaphsonSolver.hxx"
#include "TFEL/Math/TinyBroydenSolver.hxx"
#include "TFEL/Math/TinyBroyden2Solver.hxx"
#include "TFEL/Math/TinyLevenbergMarquardtSolver.hxx"
// the two PowellDogLeg .ixx files reuse the include guards of the files above (see fix_include_guards.diff)
#undef LIB_TFEL_MATH_TINYNEWTONRAPHSONSOLVER_IXX
#undef LIB_TFEL_MATH_TINYBROYDENSOLVER_IXX
#include "TFEL/Math/TinyPowellDogLegNewtonRaphsonSolver.hxx"
#include "TFEL/Math/TinyPowellDogLegBroydenSolver.hxx"
#include <cmath>
#include <cstring>
#include <functional>
#include <iostream>
#include <stdexcept>

using namespace symv;
using tfel::math::tmatrix;
using tfel::math::tvector;

struct Failure : std::runtime_error {
  Failure() : std::runtime_error("false returned") {}
};
template <typename T>
using Vec = std::vector<T>;
template <typename T, unsigned short N>
static void getM(tmatrix<N, N, T>& m, const Vec<T>& in, size_t& k) {
  for (unsigned short i = 0; i < N; ++i)
    for (unsigned short j = 0; j < N; ++j) m(i, j) = in.at(k++);
}
template <typename T, unsigned short N>
static void getV(tvector<N, T>& v, const Vec<T>& in, size_t& k) {
  for (unsigned short i = 0; i < N; ++i) v(i) = in.at(k++);
}
template <typename T, unsigned short N>
static void putM(Vec<T>& r, const tmatrix<N, N, T>& m) {
  for (unsigned short i = 0; i < N; ++i)
    for (unsigned short j = 0; j < N; ++j) r.push_back(m(i, j));
}
template <typename T, unsigned short N>
static void putV(Vec<T>& r, const tvector<N, T>& v) {
  for (unsigned short i = 0; i < N; ++i) r.push_back(v(i));
}

// ------------------------------------------------------------------------------------------ the solvers, opened up
template <typename T, unsigned short N>
struct NRx : tfel::math::TinyNewtonRaphsonSolver<N, T, NRx<T, N>> {
  Vec<T> run(const Vec<T>& in) {
    size_t k = 0;
    getM(this->jacobian, in, k);
    getV(this->fzeros, in, k);
    if (!this->computeNewCorrection()) throw Failure();
    Vec<T> r;
    putV(r, this->delta_zeros);
    return r;
  }
};
template <typename T, unsigned short N>
struct BRx : tfel::math::TinyBroydenSolver<N, T, BRx<T, N>> {
  // what: 0 updateOrCheckJacobian only, 1 computeNewCorrection
  Vec<T> run(const int what, const Vec<T>& in) {
    size_t k = 0;
    getM(this->jacobian, in, k);
    getV(this->delta_zeros, in, k);
    getV(this->fzeros, in, k);
    getV(this->fzeros_1, in, k);
    this->iter = 1;
    Vec<T> r;
    if (what == 0) {
      this->updateOrCheckJacobian();
      putM(r, this->jacobian);
      return r;
    }
    if (!this->computeNewCorrection()) throw Failure();
    putV(r, this->delta_zeros);
    putM(r, this->jacobian);
    putV(r, this->fzeros_1);
    return r;
  }
};
template <typename T, unsigned short N>
struct BR2x : tfel::math::TinyBroyden2Solver<N, T, BR2x<T, N>> {
  Vec<T> run(const int what, const Vec<T>& in) {
    size_t k = 0;
    getM(this->inv_jacobian, in, k);
    getV(this->delta_zeros, in, k);
    getV(this->fzeros, in, k);
    getV(this->fzeros_1, in, k);
    this->iter = 1;
    Vec<T> r;
    if (what == 0) {
      this->updateOrCheckJacobian();
      putM(r, this->inv_jacobian);
      return r;
    }
    if (!this->computeNewCorrection()) throw Failure();
    putV(r, this->delta_zeros);
    putM(r, this->inv_jacobian);
    putV(r, this->fzeros_1);
    return r;
  }
};
template <typename T, unsigned short N>
struct LMx : tfel::math::TinyLevenbergMarquardtSolver<N, T, LMx<T, N>> {
  // the part of the state that computeNewCorrection reads and writes:
  // mu, zeros, delta_zeros, fzeros, jacobian, levmar_error_1, levmar_fzeros_1, levmar_jacobian_1
  void put_state(Vec<T>& r) {
    r.push_back(this->levmar_mu);
    putV(r, this->zeros);
    putV(r, this->delta_zeros);
    putV(r, this->fzeros);
    putM(r, this->jacobian);
    r.push_back(this->levmar_error_1);
    putV(r, this->levmar_fzeros_1);
    putM(r, this->levmar_jacobian_1);
  }
  // what: 0 computeLevenbergMarquardtCorrection (in: J, F, mu), 1 computeNewCorrection, first call (in: J, F, mu, zeros),
  // 2 computeNewCorrection, later call (in: mu, zeros, dz, F, J, e_1, F_1, J_1, p0, p1, p2, m)
  Vec<T> run(const int what, const Vec<T>& in) {
    size_t k = 0;
    Vec<T> r;
    if (what == 0 || what == 1) {
      getM(this->jacobian, in, k);
      getV(this->fzeros, in, k);
      this->levmar_mu = in.at(k++);
      if (what == 0) {
        if (!this->computeLevenbergMarquardtCorrection()) throw Failure();
        putV(r, this->delta_zeros);
        return r;
      }
      getV(this->zeros, in, k);
      this->levmar_first = true;
      if (!this->computeNewCorrection()) throw Failure();
      if (this->levmar_first) throw std::runtime_error("levmar_first still set");
      put_state(r);
      return r;
    }
    this->levmar_mu = in.at(k++);
    getV(this->zeros, in, k);
    getV(this->delta_zeros, in, k);
    getV(this->fzeros, in, k);
    getM(this->jacobian, in, k);
    this->levmar_error_1 = in.at(k++);
    getV(this->levmar_fzeros_1, in, k);
    getM(this->levmar_jacobian_1, in, k);
    this->levmar_p0 = in.at(k++);
    this->levmar_p1 = in.at(k++);
    this->levmar_p2 = in.at(k++);
    this->levmar_m = in.at(k++);
    this->levmar_first = false;
    if (!this->computeNewCorrection()) throw Failure();
    put_state(r);
    return r;
  }
};
template <typename T, unsigned short N>
struct PNRx : tfel::math::TinyPowellDogLegNewtonRaphsonSolver<N, T, PNRx<T, N>> {
  Vec<T> run(const Vec<T>& in) {  // J, F, radius
    size_t k = 0;
    getM(this->jacobian, in, k);
    getV(this->fzeros, in, k);
    this->powell_dogleg_trust_region_size = in.at(k++);
    if (!this->computeNewCorrection()) throw Failure();
    Vec<T> r;
    putV(r, this->delta_zeros);
    return r;
  }
};
template <typename T, unsigned short N>
struct PBRx : tfel::math::TinyPowellDogLegBroydenSolver<N, T, PBRx<T, N>> {
  Vec<T> run(const Vec<T>& in) {  // B, F, radius; iter = 0: the Broyden update (traced apart) is skipped
    size_t k = 0;
    getM(this->jacobian, in, k);
    getV(this->fzeros, in, k);
    this->powell_dogleg_trust_region_size = in.at(k++);
    this->iter = 0;
    if (!this->computeNewCorrection()) throw Failure();
    Vec<T> r;
    putV(r, this->delta_zeros);
    return r;
  }
};
template <typename T, unsigned short N>
static Vec<T> dogleg(const Vec<T>& in) {  // d, J, F, radius
  size_t k = 0;
  tvector<N, T> d, f;
  tmatrix<N, N, T> j;
  getV(d, in, k);
  getM(j, in, k);
  getV(f, in, k);
  const T radius = in.at(k++);
  tfel::math::applyPowellDogLegAlgorithm(d, j, f, radius);
  Vec<T> r;
  putV(r, d);
  return r;
}

// ------------------------------------------------------------------------------------------ pieces
template <typename T>
static Vec<T> piece(const std::string& nm, const Vec<T>& in) {
  if (nm == "nr1") return NRx<T, 1>().run(in);
  if (nm == "nr2") return NRx<T, 2>().run(in);
  if (nm == "nr3") return NRx<T, 3>().run(in);
  if (nm == "bup2") return BRx<T, 2>().run(0, in);
  if (nm == "bup3") return BRx<T, 3>().run(0, in);
  if (nm == "bco2") return BRx<T, 2>().run(1, in);
  if (nm == "b2up2") return BR2x<T, 2>().run(0, in);
  if (nm == "b2up3") return BR2x<T, 3>().run(0, in);
  if (nm == "b2co2") return BR2x<T, 2>().run(1, in);
  if (nm == "lmstep2") return LMx<T, 2>().run(0, in);
  if (nm == "lmfirst2") return LMx<T, 2>().run(1, in);
  if (nm == "lmnext2") return LMx<T, 2>().run(2, in);
  if (nm == "dogleg2") return dogleg<T, 2>(in);
  if (nm == "pnr2") return PNRx<T, 2>().run(in);
  if (nm == "pbr2") return PBRx<T, 2>().run(in);
  throw std::runtime_error("unknown piece " + nm);
}
static std::vector<std::string> mat(const std::string& p, int n) {
  std::vector<std::string> r;
  for (int i = 0; i < n; ++i)
    for (int j = 0; j < n; ++j) r.push_back(p + std::to_string(i) + std::to_string(j));
  return r;
}
static std::vector<std::string> vec(const std::string& p, int n) {
  std::vector<std::string> r;
  for (int i = 0; i < n; ++i) r.push_back(p + std::to_string(i));
  return r;
}
static std::vector<std::string> cat(std::initializer_list<std::vector<std::string>> l) {
  std::vector<std::string> r;
  for (auto& v : l) r.insert(r.end(), v.begin(), v.end());
  return r;
}
struct PieceDef {
  std::string name;
  std::vector<std::string> params;
  bool straight;  // no decision expected: printed as a plain list
  int positive;   // index of the first parameter that the agreement runs keep positive (-1: none)
};
static std::vector<PieceDef> pieces() {
  std::vector<PieceDef> p;
  for (int n = 1; n <= 3; ++n) p.push_back({"nr" + std::to_string(n), cat({mat("J", n), vec("F", n)}), false, -1});
  for (int n = 2; n <= 3; ++n) {
    p.push_back({"bup" + std::to_string(n), cat({mat("B", n), vec("dz", n), vec("F", n), vec("G", n)}), true, -1});
    p.push_back({"b2up" + std::to_string(n), cat({mat("H", n), vec("dz", n), vec("F", n), vec("G", n)}), true, -1});
  }
  p.push_back({"bco2", cat({mat("B", 2), vec("dz", 2), vec("F", 2), vec("G", 2)}), false, -1});
  p.push_back({"b2co2", cat({mat("H", 2), vec("dz", 2), vec("F", 2), vec("G", 2)}), true, -1});
  p.push_back({"lmstep2", cat({mat("J", 2), vec("F", 2), {"mu"}}), false, 6});
  p.push_back({"lmfirst2", cat({mat("J", 2), vec("F", 2), {"mu"}, vec("z", 2)}), false, 6});
  p.push_back({"lmnext2", cat({{"mu"}, vec("z", 2), vec("dz", 2), vec("F", 2), mat("J", 2), {"e1"}, vec("G", 2), mat("K", 2), {"p0", "p1", "p2", "m"}}), false, -1});
  p.push_back({"dogleg2", cat({vec("d", 2), mat("J", 2), vec("F", 2), {"r"}}), false, 8});
  p.push_back({"pnr2", cat({mat("J", 2), vec("F", 2), {"r"}}), false, 6});
  p.push_back({"pbr2", cat({mat("J", 2), vec("F", 2), {"r"}}), false, 6});
  return p;
}

int main(int argc, char** argv) {
  if (argc < 3 || std::strcmp(argv[1], "gen")) {
    std::fprintf(stderr, "usage: trace gen <out.v> [seed]\n");
    return 2;
  }
  const uint64_t seed = argc >= 4 ? std::strtoull(argv[3], nullptr, 10) : 1;
  Trace tr("C08_gen");
  Rng rng(seed);
  int rc = 0;
  for (const auto& pd : pieces()) {
    std::vector<Sym> ps;
    for (auto& n : pd.params) ps.push_back(var(n));
    std::vector<Leaf> leaves;
    try {
      leaves = tr.def_paths(pd.name, ps, [&] { return piece<Sym>(pd.name, ps); });
    } catch (std::exception& e) {
      std::printf("TRACE-FAIL %s %s\n", pd.name.c_str(), e.what());
      rc = 1;
      continue;
    }
    size_t nsome = 0;
    for (auto& L : leaves) nsome += L.error.empty();
    std::printf("PIECE %s params %zu leaves %zu returning %zu\n", pd.name.c_str(), pd.params.size(), leaves.size(), nsome);
    if (pd.name == "lmnext2") {
      // the gain ratio levmar_r is the left operand of the first test of the tree (levmar_r < levmar_p0)
      if (leaves.empty() || leaves[0].conds.empty() || leaves[0].conds[0].rel != LT) {
        std::printf("TRACE-FAIL lmnext2: first decision is not a `<` test\n");
        rc = 1;
      } else {
        tr.def1("lmratio2", ps, from_node(leaves[0].conds[0].a));
      }
    }
    // agreement Sym trace vs double instantiation
    const int nag = 60;
    for (int i = 0; i < nag; ++i) {
      Env env;
      Vec<double> in;
      for (size_t k = 0; k < pd.params.size(); ++k) {
        double v = rng.range(-2, 2);
        const std::string& n = pd.params[k];
        if (n[0] == 'J' || n[0] == 'B' || n[0] == 'K') {
          // diagonally dominant matrices in most runs, nearly singular / singular ones in some
          const bool diag = n.size() == 3 && n[1] == n[2];
          if (i % 10 == 7) v = diag ? 1.0 : 1.0;
          else if (diag) v = (v < 0 ? -1 : 1) * (2.5 + std::fabs(v));
        }
        if (n == "r") v = std::ldexp(1.0, -rng.below(7));  // 1 .. 1/64: all branches of the dog-leg are visited
        if (n == "mu" || n == "m" || n == "e1") v = std::fabs(v) * (n == "e1" ? 1 : 1e-3);
        if (n == "p0") v = 1e-4;
        if (n == "p1") v = 0.25;
        if (n == "p2") v = 0.75;
        in.push_back(v);
        env[n] = v;
      }
      if (pd.name == "lmnext2" && i % 3 == 0) {
        // a consistent state: (F_1, J_1) at the previous iterate, dz the step taken, F near F_1 + J_1 dz: all r-branches
        const double s = i % 6 == 0 ? 1.0 : (i % 9 == 3 ? -0.5 : 0.2);
        for (int a = 0; a < 2; ++a) {
          double lin = in[12 + a];
          for (int b = 0; b < 2; ++b) lin += in[14 + 2 * a + b] * in[3 + b];
          in[5 + a] = in[12 + a] + s * (lin - in[12 + a]) + 0.01 * in[5 + a];
          env[pd.params[5 + a]] = in[5 + a];
        }
        in[11] = std::sqrt(in[12] * in[12] + in[13] * in[13]);
        env["e1"] = in[11];
      }
      std::vector<long double> r;
      std::string err;
      const bool found = eval_leaves(leaves, env, r, &err);
      Vec<double> d;
      bool dfail = false;
      try {
        d = piece<double>(pd.name, in);
      } catch (Failure&) {
        dfail = true;
      }
      bool ok = found && (dfail == !err.empty());
      long double scale = 1;
      if (ok && !dfail) {
        ok = r.size() == d.size();
        for (size_t k = 0; ok && k < d.size(); ++k) scale = std::max<long double>(scale, std::fabs(static_cast<long double>(d[k])));
        for (size_t k = 0; ok && k < d.size(); ++k) ok = close(d[k], r[k], scale, 1e-9L);
      }
      std::printf("%s %s %d %s\n", ok ? "AGREE" : "AGREE-FAIL", pd.name.c_str(), i, dfail ? "false" : "value");
      // what the double instantiation computed, for the independent statements of check.py
      std::printf("DBL %s %d %zu", pd.name.c_str(), i, in.size());
      for (double v : in) std::printf(" %a", v);
      if (dfail) std::printf(" false\n");
      else {
        std::printf(" %zu", d.size());
        for (double v : d) std::printf(" %a", v);
        std::printf("\n");
      }
      if (!ok) {
        std::printf("  input:");
        for (double v : in) std::printf(" %.17g", v);
        std::printf("\n  double:");
        for (double v : d) std::printf(" %.17g", v);
        std::printf("\n  trace(%s):", found ? err.c_str() : "no leaf");
        for (long double v : r) std::printf(" %.17Lg", v);
        std::printf("\n");
      }
    }
  }
  tr.write(argv[2]);
  return rc;
}

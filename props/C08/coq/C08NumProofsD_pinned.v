(* C08 -- TinyPowellDogLegBroydenSolver::computeNewCorrection AS IT IS in the pinned tree: the dog-leg is fed with
   tmp_jacobian and tmp_fzeros AFTER TinyMatrixSolve has overwritten tmp_fzeros with the solution u = J^{-1} F (and, for
   N > 3, tmp_jacobian with its LU factors), so the "gradient" it uses is J^T u = - J^T d instead of J^T F.
   This file is compiled when the check observes that behaviour on the real code (finding dogleg-broyden:residual). *)
From Coq Require Import Reals List Lra.
From Interval Require Import Tactic.
From VLib Require Import RealExtra.
From C08 Require Import C08_gen C08NumSpec C08NumTactics C08NumProofsC.
Import ListNotations.
Local Open Scope R_scope.

Definition pbr2_pinned_ok := forall J00 J01 J10 J11 F0 F1 r out,
  pbr2 J00 J01 J10 J11 F0 F1 r = Some out ->
  exists d, newton_eq 2 [J00; J01; J10; J11] [F0; F1] d /\
    (norm2 (mvec 2 [J00; J01; J10; J11] (tmvec 2 [J00; J01; J10; J11] (vneg d))) <> 0 ->
     dogleg_spec2 d [J00; J01; J10; J11] (vneg d) r out).
Lemma pbr2_pinned : pbr2_pinned_ok.
Proof.
  intros J00 J01 J10 J11 F0 F1 r out H. unfold pbr2 in H. newton_then_dogleg H Hj.
Qed.


(* C08 -- numerical content of one correction, Powell dog-leg (statements only; proofs in C08NumProofsC.v over the terms
   regenerated from /repo: dogleg2, pnr2 of C08_gen.v). *)
From Coq Require Import Reals List.
From C08 Require Import C08_gen C08NumSpec C08NumProofsC.

(* applyPowellDogLegAlgorithm<2>: the step is kept when |d|_1 < 2 r; else, gc being minus the Cauchy step, when
   |gc|_1 < 2 r the result lies on the line through the Cauchy point and d, with Euclidean norm r (when the discriminant
   is >= 0 and the denominator of alpha is not null); else it is the steepest descent step cut at Euclidean norm r *)
Theorem C08_dogleg_step : dogleg2_ok. Proof. exact dogleg2_correct. Qed.
Print Assumptions C08_dogleg_step.
Theorem C08_dogleg_keeps_step_in_ball : dogleg2_keeps_step_in_ball_ok. Proof. exact dogleg2_keeps_step_in_ball. Qed.
Print Assumptions C08_dogleg_keeps_step_in_ball.
Theorem C08_dogleg_may_keep_steps_outside_ball : dogleg2_may_keep_steps_outside_ball_ok.
Proof. exact dogleg2_may_keep_steps_outside_ball. Qed.
Print Assumptions C08_dogleg_may_keep_steps_outside_ball.
(* TinyPowellDogLegNewtonRaphsonSolver::computeNewCorrection = dog-leg of (jacobian, fzeros) applied to the Newton step *)
Theorem C08_dogleg_newton_solver : pnr2_ok. Proof. exact pnr2_correct. Qed.
Print Assumptions C08_dogleg_newton_solver.

(* C08 -- TinyPowellDogLegBroydenSolver::computeNewCorrection once the dog-leg receives the jacobian and the residual
   saved before the linear solve (fix_dogleg_broyden.diff): same statement as for the Newton-Raphson variant. *)
From Coq Require Import Reals List Lra.
From VLib Require Import RealExtra.
From C08 Require Import C08_gen C08NumSpec C08NumTactics C08NumProofsC.
Import ListNotations.
Local Open Scope R_scope.

Definition pbr2_ok := forall J00 J01 J10 J11 F0 F1 r out,
  pbr2 J00 J01 J10 J11 F0 F1 r = Some out ->
  norm2 (mvec 2 [J00; J01; J10; J11] (tmvec 2 [J00; J01; J10; J11] [F0; F1])) <> 0 ->
  exists d, newton_eq 2 [J00; J01; J10; J11] [F0; F1] d /\ dogleg_spec2 d [J00; J01; J10; J11] [F0; F1] r out.
Lemma pbr2_correct : pbr2_ok.
Proof.
  intros J00 J01 J10 J11 F0 F1 r out H Hj. unfold pbr2 in H. newton_then_dogleg H Hj.
Qed.

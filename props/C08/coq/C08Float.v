(* C08 -- instance of the model on binary64 vectors (Coq primitive floats), with the default criterion
   e < epsilon, and an encoding of traces as numbers for the comparison with props/C08/driver.cxx.
   Definitions only. *)
From Coq Require Import Floats List ZArith Bool.
From C08 Require Import C08Model.
Import ListNotations.
Open Scope float_scope.

Definition vec := list float.
Fixpoint map2 (g : float -> float -> float) (a b : vec) : vec :=
  match a, b with x :: a', y :: b' => g x y :: map2 g a' b' | _, _ => [] end.
Definition fvadd := map2 PrimFloat.add.
Definition fvsub := map2 PrimFloat.sub.
Definition fvhalf (a : vec) : vec := map (fun x => x * 0.5) a.
Definition ffinite (x : float) : bool := negb (is_nan x || is_infinity x).

Definition enc (e : event vec float) : Z * list float :=
  match e with
  | EBegin => (0, []) | EInitRes => (1, []) | ENewEstimate => (2, []) | EInitCore => (3, [])
  | EResidual z false => (4, z) | EResidual z true => (5, z)
  | ENorm x => (6, [x]) | EReject => (7, []) | EInvalid => (8, []) | EStdIter x => (9, [x])
  | ECheck false => (10, []) | ECheck true => (11, [])
  | ECorr false => (12, []) | ECorr true => (13, [])
  | ECorrFail => (14, []) | EProcCorr => (15, []) | ESuccess => (16, []) | EFailure => (17, [])
  end%Z.

Definition script := list (bool * float * option (option vec * vec)).
Definition orc_of (sc : script) (k : nat) : outcome vec float :=
  match nth_error sc k with
  | Some (ok, e, c) => {| res_ok := ok; err := e; corr := c |}
  | None => {| res_ok := false; err := 0; corr := None |}
  end.

(* one case: iterMax, epsilon, initial unknowns, script  ->  result, iter, final unknowns, encoded trace *)
(* crit = 0: default criterion e < epsilon; otherwise a child override !(e >= epsilon) (accepts NaN) *)
Definition case := (nat * nat * float * vec * script)%type.
Definition run1 (cs : case) :=
  let '(im, crit, eps, z0, sc) := cs in
  let cv := match crit with O => (fun e => e <? eps) | _ => (fun e => negb (eps <=? e)) end in
  let r := solve vec float fvadd fvsub fvhalf ffinite cv (orc_of sc) im z0 [0; 0] in
  let tr := map enc (rev (trace (snd r))) in
  (* hook-call codes, and the values seen by the hooks, flattened (cheap to print) *)
  (fst r, Z.of_nat (iter (snd r)), zeros (snd r), map fst tr, flat_map snd tr).

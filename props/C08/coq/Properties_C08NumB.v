(* C08 -- numerical content of one correction, Levenberg-Marquardt (statements only; proofs in C08NumProofsB.v over the
   terms regenerated from /repo: lmstep2, lmfirst2, lmnext2, lmratio2 of C08_gen.v). *)
From Coq Require Import Reals List.
From C08 Require Import C08_gen C08NumSpec C08NumProofsB.

(* computeLevenbergMarquardtCorrection returned true => (J^T J + mu ||F|| I) delta_zeros = - J^T F *)
Theorem C08_lm_step_solves_damped_normal_equations : lmstep2_ok. Proof. exact lmstep2_solves. Qed.
Print Assumptions C08_lm_step_solves_damped_normal_equations.
(* first computeNewCorrection of a resolution *)
Theorem C08_lm_first_call : lmfirst2_ok. Proof. exact lmfirst2_correct. Qed.
Print Assumptions C08_lm_first_call.
(* the ratio tested by later calls is the gain ratio (||F||^2 - e1^2) / (||F_1 + J_1 dz||^2 - e1^2) *)
Theorem C08_lm_gain_ratio : lmratio2_ok. Proof. exact lmratio2_is_gain. Qed.
Print Assumptions C08_lm_gain_ratio.
(* acceptance rule: r < p0 rejects (mu * 4, zeros back to the previous iterate, saved residual/jacobian restored),
   otherwise accepts with mu * 4 / max(mu / 4, m) / mu; in both cases the correction is the LM step of the current system *)
Theorem C08_lm_acceptance_rule : lmnext2_rule_ok. Proof. exact lmnext2_rule. Qed.
Print Assumptions C08_lm_acceptance_rule.
(* mu never goes below min(mu, m): never negative, never null when mu0 > 0 and m > 0 *)
Theorem C08_lm_mu_lower_bound : lm_mu_lower_bound_ok. Proof. exact lm_mu_lower_bound. Qed.
Print Assumptions C08_lm_mu_lower_bound.
(* along any run (any residual function, any number of corrections): mu stays above its bound and the saved residual /
   jacobian are those of the previous iterate zeros - delta_zeros (a rejection really goes back to it) *)
Theorem C08_lm_run_invariants : forall res p0 p1 p2 m, lm_run_invariants_ok res p0 p1 p2 m.
Proof. exact lm_run_invariants. Qed.
Print Assumptions C08_lm_run_invariants.

(* C08 -- refutation, on the pinned tree, of "TinyPowellDogLegBroydenSolver applies the dog-leg to (jacobian, residual)".
   TinyPowellDogLegBroydenSolver::computeNewCorrection AS IT IS in the pinned tree: the dog-leg is fed with
   tmp_jacobian and tmp_fzeros AFTER TinyMatrixSolve has overwritten tmp_fzeros with the solution u = J^{-1} F (and, for
   N > 3, tmp_jacobian with its LU factors), so the "gradient" it uses is J^T u = - J^T d instead of J^T F.
   This file is compiled when the check observes that behaviour on the real code (finding dogleg-broyden:residual). *)
From Coq Require Import Reals List Lra.
From Interval Require Import Tactic.
From VLib Require Import RealExtra.
From C08 Require Import C08_gen C08NumSpec C08NumTactics C08NumProofsC.
Import ListNotations.
Local Open Scope R_scope.

(* hence it is NOT the dog-leg of (J, F): a concrete system on which the returned step is not parallel to the steepest
   descent direction J^T F although both trust-region tests fail (so the specification asks for -r g / |g|) *)
Definition pbr2_is_not_the_dogleg_of_the_residual_ok :=
  exists J00 J01 J10 J11 F0 F1 r out d,
    pbr2 J00 J01 J10 J11 F0 F1 r = Some out /\ newton_eq 2 [J00; J01; J10; J11] [F0; F1] d /\
    norm2 (mvec 2 [J00; J01; J10; J11] (tmvec 2 [J00; J01; J10; J11] [F0; F1])) <> 0 /\
    ~ dogleg_spec2 d [J00; J01; J10; J11] [F0; F1] r out.
(* decide every test of a tree evaluated on numbers *)
Ltac decide_tree :=
  repeat match goal with
  | |- context [if Rlt_dec ?a ?b then _ else _] =>
      let Hc := fresh "Hc" in
      destruct (Rlt_dec a b) as [Hc|Hc];
      [ try (exfalso; revert Hc; apply Rle_not_lt; interval) | try (exfalso; apply Hc; interval) ]
  end.
Lemma pbr2_is_not_the_dogleg_of_the_residual : pbr2_is_not_the_dogleg_of_the_residual_ok.
Proof.
  (* J = diag(1, 2), F = (1, 1), radius 1/100: J^T F = (1, 2) but the code descends along J^T J^{-1} F = (1, 1) *)
  exists 1, 0, 0, 2, 1, 1, (1 / 100).
  unfold pbr2. cbv zeta. decide_tree. eexists. exists [-1; - (1 / 2)]. split; [reflexivity|].
  split; [unfold newton_eq, mvec, vneg; cbn; repeat (apply f_equal2; [lra|]); reflexivity|].
  split; [cbn; lra|].
  match goal with |- ~ dogleg_spec2 _ _ _ _ [?o0; ?o1] =>
    assert (N1 : 0 < o1 - 2 * o0) by interval; set (t0 := o0) in *; set (t1 := o1) in *; clearbody t0 t1 end.
  intros [[Hl _] | [_ [gc [[c [Ec Egc]] [[Hl _] | [_ [Eout _]]]]]]].
  - cbn in Hl. revert Hl. apply Rle_not_lt. interval.
  - unfold norm2, mvec, tmvec, col, vscal in Ec, Egc. cbn in Ec, Egc. assert (c = 5 / 17) by lra. subst c gc.
    cbn in Hl. revert Hl. apply Rle_not_lt. interval.
  - unfold norm2, mvec, tmvec, col, vscal in Ec, Egc. cbn in Ec, Egc. assert (c = 5 / 17) by lra. subst c gc.
    unfold vscal in Eout. cbn in Eout. injection Eout as E0 E1.
    set (k := - (1 / 100 / _)) in *. clearbody k. lra.
Qed.

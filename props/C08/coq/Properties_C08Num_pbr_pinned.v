(* C08 -- TinyPowellDogLegBroydenSolver::computeNewCorrection as it is in the pinned tree (selected by check.py when the
   real code shows the behaviour of finding dogleg-broyden:residual): the dog-leg receives J^{-1} F in place of F. *)
From Coq Require Import Reals List.
From C08 Require Import C08_gen C08NumSpec C08NumProofsD_pinned.
Theorem C08_dogleg_broyden_solver_uses_the_solution_as_residual : pbr2_pinned_ok. Proof. exact pbr2_pinned. Qed.
Print Assumptions C08_dogleg_broyden_solver_uses_the_solution_as_residual.

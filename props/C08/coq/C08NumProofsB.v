(* C08 -- Levenberg-Marquardt: theorems over the terms traced from /repo (C08_gen.v is regenerated at every run), and a
   model of a run of successive corrections built on the traced step. *)
From Coq Require Import Reals List Lra.
From VLib Require Import RealExtra.
From C08 Require Import C08_gen C08NumSpec C08NumTactics.
Import ListNotations.
Local Open Scope R_scope.

(* the part of the solver state read and written by computeNewCorrection, in the order printed by the tracer:
   mu, zeros(2), delta_zeros(2), fzeros(2), jacobian(4), levmar_error_1, levmar_fzeros_1(2), levmar_jacobian_1(4) *)
Definition st_mu (o : list R) := nthR o 0.
Definition st_z (o : list R) := firstn 2 (skipn 1 o).
Definition st_d (o : list R) := firstn 2 (skipn 3 o).
Definition st_F (o : list R) := firstn 2 (skipn 5 o).
Definition st_J (o : list R) := firstn 4 (skipn 7 o).
Definition st_e1 (o : list R) := nthR o 11.
Definition st_G (o : list R) := firstn 2 (skipn 12 o).
Definition st_K (o : list R) := firstn 4 (skipn 14 o).
Ltac open_st := unfold st_mu, st_z, st_d, st_F, st_J, st_e1, st_G, st_K, nthR; cbn [nth firstn skipn].

(* computeLevenbergMarquardtCorrection: (J^T J + mu ||F|| I) d = - J^T F *)
Definition lmstep2_ok := forall J00 J01 J10 J11 F0 F1 mu d,
  lmstep2 J00 J01 J10 J11 F0 F1 mu = Some d -> lm_eq 2 [J00; J01; J10; J11] [F0; F1] (mu * norm [F0; F1]) d.
Lemma lmstep2_solves : lmstep2_ok.
Proof.
  intros J00 J01 J10 J11 F0 F1 mu d H. unfold lmstep2 in H. open_tree H. open_spec. sqrt_field.
Qed.

(* first call of computeNewCorrection in a resolution: mu, zeros untouched, the correction is the LM step, the residual,
   its norm and the jacobian are saved *)
Definition lmfirst2_ok := forall J00 J01 J10 J11 F0 F1 mu z0 z1 out,
  lmfirst2 J00 J01 J10 J11 F0 F1 mu z0 z1 = Some out ->
  st_mu out = mu /\ st_z out = [z0; z1] /\ st_F out = [F0; F1] /\ st_J out = [J00; J01; J10; J11] /\
  st_e1 out = norm [F0; F1] /\ st_G out = [F0; F1] /\ st_K out = [J00; J01; J10; J11] /\
  lm_eq 2 [J00; J01; J10; J11] [F0; F1] (mu * norm [F0; F1]) (st_d out).
Lemma lmfirst2_correct : lmfirst2_ok.
Proof.
  intros J00 J01 J10 J11 F0 F1 mu z0 z1 out H. unfold lmfirst2 in H. open_tree H. open_st.
  repeat split; try reflexivity.
  - unfold norm, norm2; cbn. f_equal; ring.
  - open_spec. sqrt_field.
Qed.

(* the gain ratio tested by the code is (||F||^2 - e1^2) / (||G + K dz||^2 - e1^2) *)
Definition lmratio2_ok := forall mu z0 z1 dz0 dz1 F0 F1 J00 J01 J10 J11 e1 G0 G1 K00 K01 K10 K11 p0 p1 p2 m,
  norm2 (vadd [G0; G1] (mvec 2 [K00; K01; K10; K11] [dz0; dz1])) - e1 * e1 <> 0 ->
  lmratio2 mu z0 z1 dz0 dz1 F0 F1 J00 J01 J10 J11 e1 G0 G1 K00 K01 K10 K11 p0 p1 p2 m =
  lm_gain 2 [F0; F1] [G0; G1] [K00; K01; K10; K11] [dz0; dz1] e1.
Lemma lmratio2_is_gain : lmratio2_ok.
Proof.
  intros mu z0 z1 dz0 dz1 F0 F1 J00 J01 J10 J11 e1 G0 G1 K00 K01 K10 K11 p0 p1 p2 m Hd.
  unfold lmratio2. cbv zeta. open_spec. unfold mvec in Hd. cbn in Hd. name_sqrts.
  field_simplify_eq;
  [ring_sq | repeat split; first [nz_side | (let Hz := fresh in intro Hz; apply Hd; etransitivity; [|exact Hz]; ring_sq)]].
Qed.

(* later calls of computeNewCorrection: the acceptance rule.  r is the traced gain ratio (lmratio2, the left operand of
   the first test of the traced tree).
   r < p0 : the trial is REJECTED: mu is multiplied by 4, zeros goes back to the previous iterate (zeros - delta_zeros),
            fzeros / jacobian / error are restored from the saved copies, and the new correction is the LM step of the
            restored system with the new mu;
   else   : the trial is ACCEPTED: mu is multiplied by 4 when r < p1, replaced by max(mu / 4, m) when r > p2, kept
            otherwise; zeros is untouched, residual / jacobian / norm are saved, the correction is the LM step. *)
Definition lmnext2_rule_ok :=
  forall mu z0 z1 dz0 dz1 F0 F1 J00 J01 J10 J11 e1 G0 G1 K00 K01 K10 K11 p0 p1 p2 m out,
  lmnext2 mu z0 z1 dz0 dz1 F0 F1 J00 J01 J10 J11 e1 G0 G1 K00 K01 K10 K11 p0 p1 p2 m = Some out ->
  let r := lmratio2 mu z0 z1 dz0 dz1 F0 F1 J00 J01 J10 J11 e1 G0 G1 K00 K01 K10 K11 p0 p1 p2 m in
  (r < p0 ->
     st_mu out = 4 * mu /\ st_z out = [z0 - dz0; z1 - dz1] /\ st_F out = [G0; G1] /\ st_J out = [K00; K01; K10; K11] /\
     st_e1 out = e1 /\ st_G out = [G0; G1] /\ st_K out = [K00; K01; K10; K11] /\
     lm_eq 2 [K00; K01; K10; K11] [G0; G1] (4 * mu * norm [G0; G1]) (st_d out)) /\
  (~ r < p0 ->
     st_mu out = lm_mu_accept mu r p1 p2 m /\ st_z out = [z0; z1] /\ st_F out = [F0; F1] /\ st_J out = [J00; J01; J10; J11] /\
     st_e1 out = norm [F0; F1] /\ st_G out = [F0; F1] /\ st_K out = [J00; J01; J10; J11] /\
     lm_eq 2 [J00; J01; J10; J11] [F0; F1] (st_mu out * norm [F0; F1]) (st_d out)).
Ltac mu_accept :=
  unfold lm_mu_accept, Rmax;
  repeat match goal with
  | |- context [if Rlt_dec ?a ?b then _ else _] => destruct (Rlt_dec a b); try lra
  | |- context [if Rle_dec ?a ?b then _ else _] => destruct (Rle_dec a b); try lra
  end.
Lemma lmnext2_rule : lmnext2_rule_ok.
Proof.
  intros mu z0 z1 dz0 dz1 F0 F1 J00 J01 J10 J11 e1 G0 G1 K00 K01 K10 K11 p0 p1 p2 m out H r.
  unfold lmnext2 in H. cbv zeta in H.
  let t := eval cbv beta zeta delta [lmratio2 r] in r in change r with t; set (q := t) in *.
  clearbody q. clear r.
  split_tree H; try discriminate H; injection H as <-; pose_nz; (split; [intro Hr | intro Hr]); try (exfalso; lra; fail);
  open_st; repeat split; try reflexivity;
  first [ lra | solve [mu_accept] | solve [unfold norm, norm2; cbn; f_equal; ring] | solve [open_spec; sqrt_field] ].
Qed.

(* mu never decreases below min(mu, m) in one call; in particular it never becomes negative (c = 0) and, when mu0 > 0
   and m > 0, the damping never vanishes *)
Definition lm_mu_lower_bound_ok :=
  forall mu z0 z1 dz0 dz1 F0 F1 J00 J01 J10 J11 e1 G0 G1 K00 K01 K10 K11 p0 p1 p2 m out c,
  lmnext2 mu z0 z1 dz0 dz1 F0 F1 J00 J01 J10 J11 e1 G0 G1 K00 K01 K10 K11 p0 p1 p2 m = Some out ->
  0 <= c -> c <= mu -> c <= m -> c <= st_mu out.
Lemma lm_mu_lower_bound : lm_mu_lower_bound_ok.
Proof.
  intros mu z0 z1 dz0 dz1 F0 F1 J00 J01 J10 J11 e1 G0 G1 K00 K01 K10 K11 p0 p1 p2 m out c H C0 C1 C2.
  unfold lmnext2 in H. cbv zeta in H. split_tree H; try discriminate H; injection H as <-; open_st; lra.
Qed.

(* ------------------------------------------------------------------ a run of successive corrections (engine H on top of
   the traced step).  The state is the one listed above; `res` stands for the child's computeResidual (zeros |-> fzeros,
   jacobian), an arbitrary function; between two calls of computeNewCorrection the core loop of TinyNonLinearSolverBase
   does zeros += delta_zeros and calls computeResidual. *)
Record lmstate := { s_mu : R; s_z0 : R; s_z1 : R; s_d0 : R; s_d1 : R; s_F0 : R; s_F1 : R;
                    s_J00 : R; s_J01 : R; s_J10 : R; s_J11 : R; s_e1 : R; s_G0 : R; s_G1 : R;
                    s_K00 : R; s_K01 : R; s_K10 : R; s_K11 : R }.
Definition of_list (o : list R) : lmstate :=
  {| s_mu := nthR o 0; s_z0 := nthR o 1; s_z1 := nthR o 2; s_d0 := nthR o 3; s_d1 := nthR o 4; s_F0 := nthR o 5;
     s_F1 := nthR o 6; s_J00 := nthR o 7; s_J01 := nthR o 8; s_J10 := nthR o 9; s_J11 := nthR o 10; s_e1 := nthR o 11;
     s_G0 := nthR o 12; s_G1 := nthR o 13; s_K00 := nthR o 14; s_K01 := nthR o 15; s_K10 := nthR o 16; s_K11 := nthR o 17 |}.
Section LMRun.
  Variable res : R -> R -> (R * R) * (R * R * R * R).
  Variables p0 p1 p2 m : R.
  Definition lm_call (s : lmstate) : option (list R) :=
    lmnext2 (s_mu s) (s_z0 s) (s_z1 s) (s_d0 s) (s_d1 s) (s_F0 s) (s_F1 s) (s_J00 s) (s_J01 s) (s_J10 s) (s_J11 s) (s_e1 s)
            (s_G0 s) (s_G1 s) (s_K00 s) (s_K01 s) (s_K10 s) (s_K11 s) p0 p1 p2 m.
  Definition lm_ratio (s : lmstate) : R :=
    lmratio2 (s_mu s) (s_z0 s) (s_z1 s) (s_d0 s) (s_d1 s) (s_F0 s) (s_F1 s) (s_J00 s) (s_J01 s) (s_J10 s) (s_J11 s) (s_e1 s)
             (s_G0 s) (s_G1 s) (s_K00 s) (s_K01 s) (s_K10 s) (s_K11 s) p0 p1 p2 m.
  (* zeros += delta_zeros; computeResidual *)
  Definition lm_advance (t : lmstate) : lmstate :=
    let '((f0, f1), (j00, j01, j10, j11)) := res (s_z0 t + s_d0 t) (s_z1 t + s_d1 t) in
    {| s_mu := s_mu t; s_z0 := s_z0 t + s_d0 t; s_z1 := s_z1 t + s_d1 t; s_d0 := s_d0 t; s_d1 := s_d1 t;
       s_F0 := f0; s_F1 := f1; s_J00 := j00; s_J01 := j01; s_J10 := j10; s_J11 := j11;
       s_e1 := s_e1 t; s_G0 := s_G0 t; s_G1 := s_G1 t; s_K00 := s_K00 t; s_K01 := s_K01 t; s_K10 := s_K10 t; s_K11 := s_K11 t |}.
  Definition lm_step (s : lmstate) : option lmstate := option_map (fun o => lm_advance (of_list o)) (lm_call s).
  Fixpoint lm_run (k : nat) (s : lmstate) : option lmstate :=
    match k with O => Some s | S k' => match lm_step s with Some s' => lm_run k' s' | None => None end end.

  (* the residual and jacobian held by the state are those of zeros; the saved ones are those of the previous iterate
     zeros - delta_zeros *)
  Definition consistent (s : lmstate) : Prop :=
    res (s_z0 s) (s_z1 s) = ((s_F0 s, s_F1 s), (s_J00 s, s_J01 s, s_J10 s, s_J11 s)) /\
    res (s_z0 s - s_d0 s) (s_z1 s - s_d1 s) = ((s_G0 s, s_G1 s), (s_K00 s, s_K01 s, s_K10 s, s_K11 s)).

  Lemma lm_step_rule : forall s s', lm_step s = Some s' ->
    (lm_ratio s < p0 ->      (* rejected: the next trial starts again from the previous iterate, with 4 mu *)
       s_mu s' = 4 * s_mu s /\ s_z0 s' - s_d0 s' = s_z0 s - s_d0 s /\ s_z1 s' - s_d1 s' = s_z1 s - s_d1 s /\
       (s_G0 s', s_G1 s', s_K00 s', s_K01 s', s_K10 s', s_K11 s', s_e1 s') =
       (s_G0 s, s_G1 s, s_K00 s, s_K01 s, s_K10 s, s_K11 s, s_e1 s)) /\
    (~ lm_ratio s < p0 ->    (* accepted: the trial becomes the previous iterate *)
       s_mu s' = lm_mu_accept (s_mu s) (lm_ratio s) p1 p2 m /\
       s_z0 s' - s_d0 s' = s_z0 s /\ s_z1 s' - s_d1 s' = s_z1 s /\
       (s_G0 s', s_G1 s', s_K00 s', s_K01 s', s_K10 s', s_K11 s') =
       (s_F0 s, s_F1 s, s_J00 s, s_J01 s, s_J10 s, s_J11 s) /\ s_e1 s' = norm [s_F0 s; s_F1 s]).
  Proof.
    intros s s' H. unfold lm_step, lm_call in H. unfold lm_ratio.
    destruct s as [mu z0 z1 d0 d1 F0 F1 J00 J01 J10 J11 e1 G0 G1 K00 K01 K10 K11]. cbn [s_mu s_z0 s_z1 s_d0 s_d1 s_F0 s_F1
      s_J00 s_J01 s_J10 s_J11 s_e1 s_G0 s_G1 s_K00 s_K01 s_K10 s_K11] in *.
    unfold lmnext2 in H. cbv zeta in H.
    match goal with |- context [lmratio2 ?a1 ?a2 ?a3 ?a4 ?a5 ?a6 ?a7 ?a8 ?a9 ?a10 ?a11 ?a12 ?a13 ?a14 ?a15 ?a16 ?a17 ?a18 ?a19 ?a20 ?a21 ?a22] =>
      let t := eval cbv beta zeta delta [lmratio2] in (lmratio2 a1 a2 a3 a4 a5 a6 a7 a8 a9 a10 a11 a12 a13 a14 a15 a16 a17 a18 a19 a20 a21 a22) in
      change (lmratio2 a1 a2 a3 a4 a5 a6 a7 a8 a9 a10 a11 a12 a13 a14 a15 a16 a17 a18 a19 a20 a21 a22) with t; set (q := t) in *
    end.
    clearbody q.
    split_tree H; try discriminate H; cbn [option_map] in H; injection H as <-;
    (* the correction itself plays no role here: forget its expression *)
    match goal with |- context [of_list (_ :: _ :: _ :: ?x :: ?y :: _)] => generalize x; generalize y; intros dy dx end;
    repeat match goal with Hn : ~ Rabs _ < _ |- _ => clear Hn end;
    unfold lm_advance, of_list, nthR; cbn [nth s_mu s_z0 s_z1 s_d0 s_d1 s_e1 s_G0 s_G1 s_K00 s_K01 s_K10 s_K11];
    match goal with |- context [res ?a ?b] => destruct (res a b) as [[f0 f1] [[[j00 j01] j10] j11]] end;
    cbn [s_mu s_z0 s_z1 s_d0 s_d1 s_e1 s_G0 s_G1 s_K00 s_K01 s_K10 s_K11];
    (split; intro Hr; try (exfalso; lra; fail));
    repeat split; try reflexivity; first [lra | solve [mu_accept] | solve [unfold norm, norm2; cbn; f_equal; ring] | ring].
  Qed.

  Lemma lm_step_consistent : forall s s', lm_step s = Some s' -> consistent s -> consistent s'.
  Proof.
    intros s s' H [C1 C2]. pose proof (lm_step_rule s s' H) as [R1 R2].
    assert (Hnew : res (s_z0 s') (s_z1 s') = ((s_F0 s', s_F1 s'), (s_J00 s', s_J01 s', s_J10 s', s_J11 s'))).
    { unfold lm_step in H. destruct (lm_call s) as [o|]; [|discriminate]. cbn in H. injection H as <-.
      unfold lm_advance. destruct (res (s_z0 (of_list o) + s_d0 (of_list o)) (s_z1 (of_list o) + s_d1 (of_list o)))
        as [[f0 f1] [[[j00 j01] j10] j11]] eqn:E. cbn. exact E. }
    split; [exact Hnew|].
    destruct (Rlt_dec (lm_ratio s) p0) as [Hr|Hr].
    - destruct (R1 Hr) as [_ [E0 [E1 E2]]]. rewrite E0, E1, C2. injection E2 as -> -> -> -> -> -> _. reflexivity.
    - destruct (R2 Hr) as [_ [E0 [E1 [E2 _]]]]. rewrite E0, E1, C1. injection E2 as -> -> -> -> -> ->. reflexivity.
  Qed.

  Lemma lm_step_mu : forall s s' c, lm_step s = Some s' -> 0 <= c -> c <= s_mu s -> c <= m -> c <= s_mu s'.
  Proof.
    intros s s' c H C0 C1 C2. unfold lm_step in H. destruct (lm_call s) as [o|] eqn:E; [|discriminate].
    cbn in H. injection H as <-. unfold lm_call in E.
    pose proof (lm_mu_lower_bound _ _ _ _ _ _ _ _ _ _ _ _ _ _ _ _ _ _ _ _ _ _ _ c E C0 C1 C2) as B.
    unfold lm_advance. destruct (res _ _) as [[f0 f1] [[[j00 j01] j10] j11]]. cbn. exact B.
  Qed.

  Definition lm_run_invariants_ok := forall k s s' c,
    lm_run k s = Some s' -> 0 <= c -> c <= s_mu s -> c <= m -> consistent s -> c <= s_mu s' /\ consistent s'.
  Lemma lm_run_invariants : lm_run_invariants_ok.
  Proof.
    red. induction k as [|k IH]; intros s s' c H C0 C1 C2 Cs; cbn in H.
    - injection H as <-. split; assumption.
    - destruct (lm_step s) as [s1|] eqn:E; [|discriminate].
      apply (IH s1 s' c H C0); [eapply lm_step_mu; eassumption | assumption | eapply lm_step_consistent; eassumption].
  Qed.
End LMRun.

(* C08 -- proofs about the model, for every oracle, every iterMax, every V, E, criterion *)
From Coq Require Import List Bool Arith Lia.
From C08 Require Import C08Model C08Spec.
Import ListNotations.

Section Proofs.
  Variables V E : Type.
  Variables (vadd vsub : V -> V -> V) (vhalf : V -> V).
  Variable efinite : E -> bool.
  Variable conv : E -> bool.
  Variable orc : nat -> outcome V E.
  Variable iterMax : nat.

  Notation core := (core V E vadd efinite conv orc iterMax).
  Notation outer := (outer V E vadd vsub vhalf efinite conv orc iterMax).
  Notation solve := (solve V E vadd vsub vhalf efinite conv orc iterMax).
  Notation cres := (count_res V E).

  (* what a pass of the core loop guarantees *)
  Definition good_end (s s' : state V E) (r : bool) : Prop :=
    iter s <= iter s' /\ iter s' <= iterMax /\
    cres (trace s') + nres s = cres (trace s) + nres s' /\
    ((r = false /\ iter s' = iterMax /\ nres s' + iter s = nres s + iter s') \/
     (iter s' < iterMax /\ nres s' + iter s = nres s + iter s' + 1)) /\
    (r = true -> exists e k tl,
        trace s' = ECheck true :: EStdIter e :: ENorm e :: EResidual (zeros s') true :: tl /\
        efinite e = true /\ conv e = true /\ res_ok (orc k) = true /\ err (orc k) = e /\ S k = nres s').

  Ltac ge_tac last :=
    unfold good_end; cbn;
    split; [lia | split; [lia | split; [lia | split;
      [first [left; split; [reflexivity | split; lia] | right; split; lia] | last ]]]].

  Lemma core_ok : forall fuel s, iter s + fuel = iterMax ->
    good_end s (snd (core fuel s)) (fst (core fuel s)).
  Proof.
    induction fuel as [|n IH]; intros s Hf.
    - cbn. ge_tac ltac:(intro H; discriminate).
    - cbn [C08Model.core].
      destruct (res_ok (orc (nres s))) eqn:Hok; cbn [negb].
      2:{ cbn. ge_tac ltac:(intro H; discriminate). }
      destruct (efinite (err (orc (nres s)))) eqn:Hfin; cbn [negb].
      2:{ cbn. ge_tac ltac:(intro H; discriminate). }
      destruct (conv (err (orc (nres s)))) eqn:Hc.
      { cbn. ge_tac ltac:(intros _; exists (err (orc (nres s))), (nres s), (trace s); repeat split; auto). }
      destruct (corr (orc (nres s))) as [[zo d]|].
      2:{ cbn. ge_tac ltac:(intro H; discriminate). }
      cbn [iter log].
      destruct (Nat.eqb (S (iter s)) iterMax) eqn:He.
      { apply Nat.eqb_eq in He. cbn. ge_tac ltac:(intro H; discriminate). }
      apply Nat.eqb_neq in He.
      match goal with |- good_end s (snd (core n ?t)) _ => set (s3 := t) end.
      assert (H3 : iter s3 + n = iterMax) by (subst s3; cbn; lia).
      specialize (IH s3 H3). unfold good_end in *.
      destruct IH as [I1 [I2 [I3 [I4 I5]]]].
      assert (E1 : iter s3 = S (iter s)) by reflexivity.
      assert (E2 : nres s3 = S (nres s)) by reflexivity.
      assert (E3 : cres (trace s3) = S (cres (trace s))) by reflexivity.
      split; [lia | split; [lia | split; [lia | split; [|exact I5]]]].
      destruct I4 as [[A [B C]]|[A B]]; [left; split; [exact A | split; lia] | right; split; lia].
  Qed.

  (* invariant at the head of the restart loop *)
  Definition head_inv (s : state V E) : Prop :=
    iter s <= iterMax /\ nres s <= iter s /\ cres (trace s) = nres s.

  Ltac fail_end :=
    unfold sound, within_budget, verdict_reported; cbn;
    split; [intro H; discriminate | split; [split; [lia | split; lia] | eexists; reflexivity]].

  Lemma outer_ok : forall fuel s, head_inv s ->
    let r := outer fuel s in
    sound V E efinite conv orc r /\ within_budget V E iterMax r /\ verdict_reported V E r.
  Proof.
    induction fuel as [|n IH]; intros s [H1 [H2 H3]].
    - cbn. fail_end.
    - cbn [C08Model.outer].
      destruct (Nat.eqb (iter s) iterMax) eqn:He.
      { cbn. fail_end. }
      apply Nat.eqb_neq in He.
      set (s0 := log V E [ENewEstimate; EInitCore] s).
      assert (Hf : iter s0 + (iterMax - iter s) = iterMax) by (subst s0; cbn; lia).
      pose proof (core_ok (iterMax - iter s) s0 Hf) as G.
      destruct (core (iterMax - iter s) s0) as [r s1]. cbn [fst snd] in G.
      destruct G as [G1 [G2 [G3 [G4 G5]]]].
      assert (E1 : iter s0 = iter s) by reflexivity.
      assert (E2 : nres s0 = nres s) by reflexivity.
      assert (E3 : cres (trace s0) = cres (trace s)) by reflexivity.
      destruct r.
      + (* success *)
        destruct G4 as [[A _]|[A B]]; [discriminate|].
        destruct (G5 eq_refl) as [e [k [tl [T [F1 [F2 [F3 [F4 F5]]]]]]]].
        assert (C1 : cres (trace (log V E [ESuccess] s1)) = cres (trace s1)) by reflexivity.
        unfold sound, within_budget, verdict_reported. cbn [fst snd].
        split; [|split; [|eexists; reflexivity]].
        * intros _. exists (rev tl), e, k. cbn. rewrite T. cbn. repeat rewrite <- app_assoc. cbn.
          repeat split; auto.
        * rewrite C1. cbn [iter nres log]. split; [lia | split; lia].
      + destruct (Nat.eqb (iter s1) iterMax) eqn:He1.
        * apply Nat.eqb_eq in He1.
          assert (C1 : cres (trace (log V E [EFailure] s1)) = cres (trace s1)) by reflexivity.
          unfold sound, within_budget, verdict_reported. cbn [fst snd].
          split; [intro H; discriminate | split; [|eexists; reflexivity]].
          rewrite C1. cbn [iter nres log].
          destruct G4 as [[_ [A B]]|[A B]]; split; try lia; split; lia.
        * apply Nat.eqb_neq in He1.
          apply IH. unfold head_inv, restart.
          destruct G4 as [[_ [A B]]|[A B]]; [lia|].
          destruct (defined s1); cbn; repeat split; lia.
  Qed.

  Theorem solve_ok : forall z0 d0,
    let r := solve z0 d0 in
    sound V E efinite conv orc r /\ within_budget V E iterMax r /\ verdict_reported V E r.
  Proof.
    intros. apply outer_ok. unfold head_inv; cbn. repeat split; lia.
  Qed.

  (* a run in which no residual evaluation is both successful and of finite, accepted norm cannot succeed *)
  Corollary no_success_without_good_evaluation : forall z0 d0,
    (forall k, res_ok (orc k) = false \/ efinite (err (orc k)) = false \/ conv (err (orc k)) = false) ->
    fst (solve z0 d0) = false.
  Proof.
    intros z0 d0 H. destruct (solve_ok z0 d0) as [S _].
    destruct (fst (solve z0 d0)) eqn:Er; [|reflexivity].
    destruct (S Er) as [pre [e [k [_ [F1 [F2 [F3 [F4 _]]]]]]]]. subst e.
    destruct (H k) as [A|[A|A]]; congruence.
  Qed.
End Proofs.

(* C08 -- refuted on the pinned tree: "TinyPowellDogLegBroydenSolver applies the dog-leg to (jacobian, residual)". *)
From Coq Require Import Reals List.
From C08 Require Import C08_gen C08NumSpec C08NumProofsD_refuted.
Theorem C08_dogleg_broyden_solver_refuted : pbr2_is_not_the_dogleg_of_the_residual_ok.
Proof. exact pbr2_is_not_the_dogleg_of_the_residual. Qed.
Print Assumptions C08_dogleg_broyden_solver_refuted.

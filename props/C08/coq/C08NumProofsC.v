(* C08 -- Powell dog-leg: theorems over the terms traced from /repo (C08_gen.v is regenerated at every run). *)
From Coq Require Import Reals List Lra.
From VLib Require Import RealExtra.
From C08 Require Import C08_gen C08NumSpec C08NumTactics.
Import ListNotations.
Local Open Scope R_scope.

Lemma nz_of_sq : forall s X, s * s = X -> X <> 0 -> s <> 0.
Proof. intros s X E H Hz. apply H. rewrite <- E, Hz. ring. Qed.

(* the scaled gradient gc is read off the second test of the path, |gc_0| + |gc_1| < 2 r, proved to be the Cauchy
   direction, and then treated as a pair of variables: the rest of the leaf is polynomial in (gc, d, r, square roots) *)
Ltac cauchy_witness Hj :=
  match goal with
  | Hc : Rabs ?a + Rabs ?b < _ |- exists gc, _ => exists [a; b]
  | Hc : ~ Rabs ?a + Rabs ?b < _ |- exists gc, _ => exists [a; b]
  end;
  split;
  [ match goal with |- cauchy 2 ?J ?f _ =>
      unfold cauchy; cbv zeta; exists (norm2 (tmvec 2 J f) / norm2 (mvec 2 J (tmvec 2 J f))) end;
    unfold norm2, mvec, tmvec, col, vscal in Hj |- *; cbn in Hj |- *;
    split; [field; nz_side | list_eq; field; nz_side]
  | match goal with
    | |- (l1 [?a; ?b] < _ /\ _) \/ _ => hide a; hide b
    end ].
Ltac close_leaf :=
  unfold collinear2, l1, norm, norm2, vadd, vneg, vscal; cbn;
  first
  [ (* segment leaf *)
    left; split; [lra|]; split; [ring|];
    let P4 := fresh "P4" in let HD := fresh "HD" in intros P4 HD;
    first [ exfalso; (* the path has c4 < 0 *)
            match goal with Hn : ?c < 0 |- _ => apply (Rlt_not_le _ _ Hn); apply (Rle_trans _ _ _ P4); right; ring end
          | unify_sqrts; name_sqrts;
            match goal with Es : ?s * ?s = _, Ps : 0 <= ?s |- _ =>
              let HD' := fresh in
              assert (HD' := HD s Ps); field_simplify_eq; [ring_sq | let Hz := fresh "Hz" in intro Hz; apply HD'; [rewrite Es; ring | etransitivity; [|exact Hz]; ring]]
            end ]
  | (* scaled steepest descent *)
    right; split; [lra|]; split;
    [ unify_sqrts; list_eq; ring
    | let Hg := fresh "Hg" in intro Hg; unify_sqrts; name_sqrts;
      match goal with Es : ?s * ?s = _ |- _ =>
        assert (s <> 0) by (apply (nz_of_sq _ _ Es); let Hz := fresh "Hz" in intro Hz; apply Hg; etransitivity; [|exact Hz]; ring);
        field_simplify_eq; [ring_sq | assumption]
      end ] ].

Definition dogleg2_ok := forall d0 d1 J00 J01 J10 J11 F0 F1 r out,
  dogleg2 d0 d1 J00 J01 J10 J11 F0 F1 r = Some out ->
  norm2 (mvec 2 [J00; J01; J10; J11] (tmvec 2 [J00; J01; J10; J11] [F0; F1])) <> 0 ->
  dogleg_spec2 [d0; d1] [J00; J01; J10; J11] [F0; F1] r out.
Lemma dogleg2_correct : dogleg2_ok.
Proof.
  intros d0 d1 J00 J01 J10 J11 F0 F1 r out H Hj. unfold dogleg2 in H. open_tree H; unfold dogleg_spec2.
  - left. split; [cbn; lra | reflexivity].
  - right. split; [cbn; lra|]. cauchy_witness Hj. close_leaf.
  - right. split; [cbn; lra|]. cauchy_witness Hj. close_leaf.
  - right. split; [cbn; lra|]. cauchy_witness Hj. close_leaf.
Qed.

(* a step inside the Euclidean ball of radius r is always kept (|d|_1 <= sqrt 2 |d|_2 < 2 r); the converse does not hold:
   the test |d|_1 < 2 r also keeps steps of Euclidean norm up to 2 r *)
Definition dogleg2_keeps_step_in_ball_ok := forall d0 d1 J00 J01 J10 J11 F0 F1 r,
  0 < r -> d0 * d0 + d1 * d1 <= r * r -> dogleg2 d0 d1 J00 J01 J10 J11 F0 F1 r = Some [d0; d1].
Lemma dogleg2_keeps_step_in_ball : dogleg2_keeps_step_in_ball_ok.
Proof.
  intros d0 d1 J00 J01 J10 J11 F0 F1 r Hr Hb. unfold dogleg2. cbv zeta.
  assert (Hl : Rabs d0 + Rabs d1 < 2 * r).
  { pose proof (Rabs_pos d0) as A0. pose proof (Rabs_pos d1) as A1.
    assert (E0 : Rabs d0 * Rabs d0 = d0 * d0) by (rewrite <- Rabs_mult; apply Rabs_pos_eq; nra).
    assert (E1 : Rabs d1 * Rabs d1 = d1 * d1) by (rewrite <- Rabs_mult; apply Rabs_pos_eq; nra).
    set (a := Rabs d0) in *. set (b := Rabs d1) in *.
    assert (Q : 0 <= (a - b) * (a - b)) by (apply Rle_0_sqr).
    assert (S2 : (a + b) * (a + b) <= 2 * (r * r)) by nra.
    destruct (Rlt_dec (a + b) (2 * r)) as [|Hge]; [assumption|exfalso].
    assert (2 * r <= a + b) by lra. assert (2 * r * (2 * r) <= (a + b) * (a + b)) by nra. nra. }
  match goal with |- context [if Rlt_dec ?a ?b then _ else _] =>
    destruct (Rlt_dec a b) as [Hk|Hk]; [reflexivity | exfalso; apply Hk; lra] end.
Qed.
Definition dogleg2_may_keep_steps_outside_ball_ok :=
  exists d0 d1 r, 0 < r /\ r * r < d0 * d0 + d1 * d1 /\ forall J00 J01 J10 J11 F0 F1, dogleg2 d0 d1 J00 J01 J10 J11 F0 F1 r = Some [d0; d1].
Lemma dogleg2_may_keep_steps_outside_ball : dogleg2_may_keep_steps_outside_ball_ok.
Proof.
  exists (3 / 2), 0, 1. split; [lra|]. split; [lra|]. intros. unfold dogleg2. cbv zeta.
  assert (Hl : Rabs (3 / 2) + Rabs 0 < 2 * 1) by (rewrite Rabs_R0, Rabs_pos_eq; lra).
  match goal with |- context [if Rlt_dec ?a ?b then _ else _] =>
    destruct (Rlt_dec a b) as [Hk|Hk]; [reflexivity | exfalso; apply Hk; lra] end.
Qed.

(* ------------------------------------------------------------------ the two solvers built on the dog-leg.
   The Newton step u = J^{-1} F is computed first (the step is d = -u); its expression is then forgotten. *)
Ltac strip_neg x k := lazymatch x with (- ?u) => k u | _ => k x end.
(* H : <tree> = Some out, unfolded.  The (quasi-)Newton step d is what the tree returns when the first trust-region test
   succeeds (`if Rlt_dec (|d0| + |d1|) _ then Some [d0; d1] else ...`); its two components are named before the tree is
   split (the terms are large once the sharing of the trace is expanded), d is shown to solve J d = -F, then its
   expression is forgotten *)
Ltac newton_then_dogleg H Hj :=
  cbv zeta in H;
  match type of H with context [if Rlt_dec (Rabs ?x + Rabs ?y) _ then Some [?x; ?y] else _] =>
    strip_neg x ltac:(fun u => let uu := fresh "uu" in set (uu := u) in * );
    strip_neg y ltac:(fun u => let vv := fresh "vv" in set (vv := u) in * ) end;
  match type of H with context [if Rlt_dec (Rabs ?x + Rabs ?y) _ then Some [?x; ?y] else _] =>
    let dx := fresh "dx" in let dy := fresh "dy" in pose (dx := x); pose (dy := y) end;
  split_tree H; try discriminate H; injection H as <-; pose_nz;
  match goal with dx := _, dy := _ |- _ => exists [dx; dy]; subst dx dy end;
  (split; [repeat match goal with uu := _ |- _ => subst uu end; open_spec; fin_field|]);
  try intro Hj;
  repeat match goal with uu := _ |- _ => clearbody uu end;
  unfold dogleg_spec2;
  first [ left; split; [cbn; lra | reflexivity]
        | right; (split; [cbn; lra|]); cauchy_witness Hj; close_leaf ].

(* TinyPowellDogLegNewtonRaphsonSolver::computeNewCorrection = dog-leg applied to the Newton step, with the jacobian
   and the residual saved before the linear solve *)
Definition pnr2_ok := forall J00 J01 J10 J11 F0 F1 r out,
  pnr2 J00 J01 J10 J11 F0 F1 r = Some out ->
  norm2 (mvec 2 [J00; J01; J10; J11] (tmvec 2 [J00; J01; J10; J11] [F0; F1])) <> 0 ->
  exists d, newton_eq 2 [J00; J01; J10; J11] [F0; F1] d /\ dogleg_spec2 d [J00; J01; J10; J11] [F0; F1] r out.
Lemma pnr2_correct : pnr2_ok.
Proof.
  intros J00 J01 J10 J11 F0 F1 r out H Hj. unfold pnr2 in H. newton_then_dogleg H Hj.
Qed.

(* C08 -- lemmas and tactics shared by the proofs over the decision trees regenerated from /repo (engine S).
   The scripts do not depend on the shape of the traced terms: every comparison of the tree is split, the leaves
   that returned false are discarded, denominators are shown non null from the determinant tests of the path
   (|det| < eps false, eps > 0), and what remains is a rational identity closed by `field` (square roots are named
   s with s * s = S first). *)
From Coq Require Import Reals List Lra.
From C08 Require Import C08NumSpec.
Import ListNotations.
Local Open Scope R_scope.

(* the default null-pivot threshold of TinyMatrixSolve: 100 * numeric_limits<double>::min(), as printed by the tracer *)
Lemma eps_pos : 0 < 22250738585072014 / 10 ^ 322.
Proof. apply Rdiv_lt_0_compat; [lra | apply pow_lt; lra]. Qed.

Lemma nz_of_not_small : forall q c, 0 < c -> ~ Rabs q < c -> q <> 0.
Proof. intros q c Hc Hn Hz. apply Hn. rewrite Hz, Rabs_R0. exact Hc. Qed.

Lemma sqrt_sq_nonneg : forall x, 0 <= x -> sqrt x * sqrt x = x.
Proof. intros. apply sqrt_sqrt. assumption. Qed.

Lemma sum_sq2_nonneg : forall a b, 0 <= a * a + b * b.
Proof. intros. nra. Qed.

Ltac split_tree H :=
  repeat match type of H with
  | context [if Rlt_dec ?a ?b then _ else _] => destruct (Rlt_dec a b)
  end.
Ltac pos_const := first [exact eps_pos | lra | (apply Rdiv_lt_0_compat; [lra | apply pow_lt; lra])].
Ltac pose_nz :=
  repeat match goal with
  | H : ~ Rabs ?q < ?c |- _ =>
      lazymatch goal with
      | _ : q <> 0 |- _ => fail
      | _ => assert (q <> 0) by (apply (nz_of_not_small q c); [pos_const | exact H])
      end
  end.
Ltac list_eq :=
  repeat match goal with
  | |- (_ :: _) = (_ :: _) => apply f_equal2
  | |- @nil _ = @nil _ => reflexivity
  end.
(* q' <> 0 from a hypothesis q <> 0 with q = +- q' as polynomials *)
Ltac nz_side :=
  match goal with
  | H : ?q <> 0 |- ?q' <> 0 => exact H
  | H : ?q <> 0 |- ?q' <> 0 => let Hz := fresh in intro Hz; apply H; replace q with q' by ring; exact Hz
  | H : ?q <> 0 |- ?q' <> 0 => let Hz := fresh in intro Hz; apply H; replace q with (- q') by ring; rewrite Hz; ring
  | H : ?q <> 0 |- ?q' <> 0 => let Hz := fresh in intro Hz; apply H; lra   (* q' = k q, k a numeral *)
  end.
(* forget the definition of a sub-term (the entries of an updated matrix): what follows holds for any value of it *)
Ltac hide t := let v := fresh "v" in set (v := t) in *; clearbody v.
Ltac fin_field := list_eq; field; repeat split; nz_side.
Ltac open_spec :=
  unfold newton_eq, affine, secant, inverse_secant, lm_eq, lm_gain, mvec, tmvec, col, vneg, vscal, norm, norm2; cbn.
(* H : tree args = Some out: split the tree, drop the leaves that returned false, substitute out *)
Ltac open_tree H := cbv zeta in H; split_tree H; try discriminate H; injection H as <-; pose_nz.
(* name every square root s := sqrt S of the goal and of the hypotheses, keeping s * s = S (S >= 0 by nra) and 0 <= s *)
Lemma sum_sq3_nonneg : forall a b c, 0 <= a * a + b * b + c * c.
Proof. intros. nra. Qed.
Ltac sq_nonneg := first [apply sum_sq2_nonneg | apply sum_sq3_nonneg | apply Rle_0_sqr | nra | lra].
Ltac name_sqrts :=
  repeat match goal with
  | |- context [sqrt ?S] =>
      let s := fresh "s" in let Es := fresh "Es" in let Ps := fresh "Ps" in
      assert (Es : sqrt S * sqrt S = S) by (apply sqrt_sqrt; sq_nonneg);
      assert (Ps : 0 <= sqrt S) by apply sqrt_pos;
      set (s := sqrt S) in *; clearbody s
  | H : context [sqrt ?S] |- _ =>
      let s := fresh "s" in let Es := fresh "Es" in let Ps := fresh "Ps" in
      assert (Es : sqrt S * sqrt S = S) by (apply sqrt_sqrt; sq_nonneg);
      assert (Ps : 0 <= sqrt S) by apply sqrt_pos;
      set (s := sqrt S) in *; clearbody s
  end.
(* square roots of the same quantity written in two ways (specification / traced term) are made syntactically equal *)
Ltac unify_sqrts :=
  repeat match goal with
  | |- context [sqrt ?a] =>
      match goal with
      | |- context [sqrt ?b] => lazymatch a with b => fail | _ => replace b with a in * by ring end
      | H : context [sqrt ?b] |- _ => lazymatch a with b => fail | _ => replace b with a in * by ring end
      end
  end.
Ltac sqrt_field := unify_sqrts; name_sqrts; fin_field.
(* ring modulo the equations s * s = S of the named square roots (up to three of them) *)
Ltac ring_sq :=
  match goal with
  | E1 : ?s * ?s = _, E2 : ?t * ?t = _, E3 : ?u * ?u = _ |- _ =>
      lazymatch s with t => fail | _ => lazymatch t with u => fail | _ => lazymatch s with u => fail | _ => ring [E1 E2 E3] end end end
  | E1 : ?s * ?s = _, E2 : ?t * ?t = _ |- _ => lazymatch s with t => fail | _ => ring [E1 E2] end
  | E1 : ?s * ?s = _ |- _ => ring [E1]
  | _ => ring
  end.

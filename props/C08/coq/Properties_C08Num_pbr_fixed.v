(* C08 -- TinyPowellDogLegBroydenSolver::computeNewCorrection = dog-leg of (jacobian, fzeros) applied to the quasi-Newton
   step (selected by check.py when the real code no longer shows finding dogleg-broyden:residual). *)
From Coq Require Import Reals List.
From C08 Require Import C08_gen C08NumSpec C08NumProofsD_fixed.
Theorem C08_dogleg_broyden_solver : pbr2_ok. Proof. exact pbr2_correct. Qed.
Print Assumptions C08_dogleg_broyden_solver.

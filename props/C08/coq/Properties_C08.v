(* C08 -- property theorems (statements only; proofs in C08Proofs.v).  They hold for every vector type V with any
   operations, every error type E with any finiteness test and any convergence criterion, every oracle `orc`
   (outcome of the k-th residual evaluation / norm / correction), every iterMax and every initial state. *)
From Coq Require Import List Bool Arith.
From C08 Require Import C08Model C08Spec C08Proofs.

(* no false convergence: success => the run ends with a successful residual evaluation AT THE RETURNED UNKNOWNS, whose
   norm is finite and accepted by the criterion, followed by reportSuccess *)
Theorem C08_no_false_convergence :
  forall V E vadd vsub vhalf efinite conv (orc : nat -> outcome V E) iterMax z0 d0,
    sound V E efinite conv orc (solve V E vadd vsub vhalf efinite conv orc iterMax z0 d0).
Proof. intros. apply solve_ok. Qed.
Print Assumptions C08_no_false_convergence.

(* the iteration counter never exceeds iterMax; at most iterMax residual evaluations; termination by construction *)
Theorem C08_budget :
  forall V E vadd vsub vhalf efinite conv (orc : nat -> outcome V E) iterMax z0 d0,
    within_budget V E iterMax (solve V E vadd vsub vhalf efinite conv orc iterMax z0 d0).
Proof. intros. apply solve_ok. Qed.
Print Assumptions C08_budget.

(* exactly one verdict (reportSuccess / reportFailure) is reported, last, and it agrees with the returned value *)
Theorem C08_verdict_reported :
  forall V E vadd vsub vhalf efinite conv (orc : nat -> outcome V E) iterMax z0 d0,
    verdict_reported V E (solve V E vadd vsub vhalf efinite conv orc iterMax z0 d0).
Proof. intros. apply solve_ok. Qed.
Print Assumptions C08_verdict_reported.

(* failed / non-finite / non-accepted evaluations only => the solver returns false *)
Theorem C08_bad_evaluations_never_succeed :
  forall V E vadd vsub vhalf efinite conv (orc : nat -> outcome V E) iterMax z0 d0,
    (forall k, res_ok (orc k) = false \/ efinite (err (orc k)) = false \/ conv (err (orc k)) = false) ->
    fst (solve V E vadd vsub vhalf efinite conv orc iterMax z0 d0) = false.
Proof. intros. apply no_success_without_good_evaluation; assumption. Qed.
Print Assumptions C08_bad_evaluations_never_succeed.

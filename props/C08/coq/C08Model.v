(* C08 -- hand-written executable model of the control skeleton of
   TinyNonLinearSolverBase::solveNonLinearSystem / solveNonLinearSystem2
   (include/TFEL/Math/NonLinearSolvers/TinyNonLinearSolverBase.ixx).  Definitions only.
   Everything the Child supplies (computeResidual, computeResidualNorm, checkConvergence, computeNewCorrection and
   what the latter does to zeros / delta_zeros) is an ORACLE: `orc k` is the outcome of the k-th residual
   evaluation of the run.  V (vectors) and E (error values) are abstract. *)
From Coq Require Import List Bool Arith.
Import ListNotations.

Section Model.
  Variables V E : Type.
  Variables (vadd vsub : V -> V -> V) (vhalf : V -> V).
  Variable efinite : E -> bool.           (* ieee754::isfinite(error) *)
  Variable conv : E -> bool.              (* child.checkConvergence(error) *)

  (* outcome of one pass of the core loop: did computeResidual succeed, the value returned by
     computeResidualNorm, and the result of computeNewCorrection: None = false, Some (zo, d) = true with
     delta_zeros := d and, if zo = Some z, zeros overwritten by z inside computeNewCorrection (Levenberg-Marquardt
     step rejection); the last two are only consulted when the code reaches the corresponding call *)
  Record outcome := { res_ok : bool; err : E; corr : option (option V * V) }.
  Variable orc : nat -> outcome.
  Variable iterMax : nat.

  Inductive event :=
  | EBegin | EInitRes | ENewEstimate | EInitCore
  | EResidual (z : V) (ok : bool)      (* computeResidual called with this->zeros = z, returned ok *)
  | ENorm (e : E)                      (* computeResidualNorm returned e *)
  | EReject | EInvalid                 (* rejectCurrentCorrection, reportInvalidResidualEvaluation *)
  | EStdIter (e : E)                   (* reportStandardIteration(e) *)
  | ECheck (b : bool)                  (* checkConvergence returned b *)
  | ECorr (ok : bool)                  (* computeNewCorrection returned ok *)
  | ECorrFail                          (* reportNewCorrectionComputationFailure *)
  | EProcCorr                          (* processNewCorrection *)
  | ESuccess | EFailure.

  Record state := { iter : nat; defined : bool; zeros : V; delta : V; nres : nat; trace : list event (* most recent first *) }.
  Definition log (l : list event) (s : state) : state :=
    {| iter := s.(iter); defined := s.(defined); zeros := s.(zeros); delta := s.(delta); nres := s.(nres);
       trace := rev l ++ s.(trace) |}.

  (* solveNonLinearSystem2 after executeInitialisationTaskBeforeBeginningOfCoreAlgorithm; fuel = iterMax - iter *)
  Fixpoint core (fuel : nat) (s : state) : bool * state :=
    match fuel with
    | O => (false, s)
    | S fuel' =>
      let oc := orc s.(nres) in
      let s1 := {| iter := s.(iter); defined := s.(defined); zeros := s.(zeros); delta := s.(delta);
                   nres := S s.(nres); trace := EResidual s.(zeros) oc.(res_ok) :: s.(trace) |} in
      if negb oc.(res_ok) then (false, log [EReject; EInvalid] s1)
      else if negb (efinite oc.(err)) then (false, log [ENorm oc.(err); EReject; EInvalid] s1)
      else if conv oc.(err) then (true, log [ENorm oc.(err); EStdIter oc.(err); ECheck true] s1)
      else
        let s2 := log [ENorm oc.(err); EStdIter oc.(err); ECheck false] s1 in
        match oc.(corr) with
        | None => (false, log [ECorr false; ECorrFail] s2)
        | Some (zo, d) =>
          let z := match zo with Some z' => z' | None => s2.(zeros) end in
          let s3 := {| iter := S s2.(iter); defined := true; zeros := vadd z d; delta := d; nres := s2.(nres);
                       trace := ENewEstimate :: EProcCorr :: ECorr true :: s2.(trace) |} in
          if Nat.eqb s3.(iter) iterMax then (false, s3) else core fuel' s3
        end
    end.

  (* one pass of the restart loop's tail: halve the last correction (or the unknowns) *)
  Definition restart (s : state) : state :=
    if s.(defined)
    then {| iter := S s.(iter); defined := true; zeros := vsub s.(zeros) (vhalf s.(delta)); delta := vhalf s.(delta);
            nres := s.(nres); trace := s.(trace) |}
    else {| iter := S s.(iter); defined := false; zeros := vhalf s.(zeros); delta := s.(delta);
            nres := s.(nres); trace := s.(trace) |}.

  (* while (iter != iterMax) { ... }; fuel = iterMax *)
  Fixpoint outer (fuel : nat) (s : state) : bool * state :=
    match fuel with
    | O => (false, log [EFailure] s)
    | S fuel' =>
      if Nat.eqb s.(iter) iterMax then (false, log [EFailure] s)
      else
        let '(r, s1) := core (iterMax - s.(iter)) (log [ENewEstimate; EInitCore] s) in
        if r then (true, log [ESuccess] s1)
        else if Nat.eqb s1.(iter) iterMax then (false, log [EFailure] s1)
        else outer fuel' (restart s1)
    end.

  Definition solve (z0 d0 : V) : bool * state :=
    outer iterMax {| iter := 0; defined := false; zeros := z0; delta := d0; nres := 0; trace := [EInitRes; EBegin] |}.
End Model.

Arguments res_ok {V E}. Arguments err {V E}. Arguments corr {V E}.
Arguments iter {V E}. Arguments defined {V E}. Arguments zeros {V E}. Arguments delta {V E}.
Arguments nres {V E}. Arguments trace {V E}.
Arguments EBegin {V E}. Arguments EInitRes {V E}. Arguments ENewEstimate {V E}. Arguments EInitCore {V E}.
Arguments EResidual {V E}. Arguments ENorm {V E}. Arguments EReject {V E}. Arguments EInvalid {V E}.
Arguments EStdIter {V E}. Arguments ECheck {V E}. Arguments ECorr {V E}. Arguments ECorrFail {V E}.
Arguments EProcCorr {V E}. Arguments ESuccess {V E}. Arguments EFailure {V E}.

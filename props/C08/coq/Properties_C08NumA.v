(* C08 -- numerical content of one correction, Newton-Raphson and Broyden (statements only; proofs in C08NumProofsA.v over
   the terms regenerated from /repo by props/C08/trace.cxx: nrN, bupN, bcoN, b2upN, b2coN of C08_gen.v). *)
From Coq Require Import Reals List.
From C08 Require Import C08_gen C08NumSpec C08NumProofsA.

(* TinyNewtonRaphsonSolver<N>::computeNewCorrection returned true => jacobian * delta_zeros = - fzeros (N = 1, 2, 3) *)
Theorem C08_newton_step_solves_N1 : nr1_solves_ok. Proof. exact nr1_solves. Qed.
Print Assumptions C08_newton_step_solves_N1.
Theorem C08_newton_step_solves_N2 : nr2_solves_ok. Proof. exact nr2_solves. Qed.
Print Assumptions C08_newton_step_solves_N2.
Theorem C08_newton_step_solves_N3 : nr3_solves_ok. Proof. exact nr3_solves. Qed.
Print Assumptions C08_newton_step_solves_N3.
(* it returns false exactly when |det jacobian| < 100 * DBL_MIN (N = 1, 2) *)
Theorem C08_newton_fails_only_on_small_determinant : nr_fails_only_on_small_det_ok. Proof. exact nr_fails_only_on_small_det. Qed.
Print Assumptions C08_newton_fails_only_on_small_determinant.
(* one Newton step is exact for affine residuals: F(z) = A z + b, jacobian A, residual taken at z0 => F(z0 + delta) = 0 *)
Theorem C08_newton_exact_on_affine_residuals : newton_affine_exact_ok. Proof. exact newton_affine_exact. Qed.
Print Assumptions C08_newton_exact_on_affine_residuals.
(* the same for every size, from the Newton equation J d = - F alone *)
Theorem C08_newton_exact_on_affine_residuals_any_size : newton_affine_exact_any_size_ok. Proof. exact newton_affine_exact_any_size. Qed.
Print Assumptions C08_newton_exact_on_affine_residuals_any_size.

(* TinyBroydenSolver::updateOrCheckJacobian: secant equation B' dz = F - F_1 and least change (B' w = B w for w _|_ dz) *)
Theorem C08_broyden_update_secant_N2 : bup2_secant_ok. Proof. exact bup2_secant. Qed.
Print Assumptions C08_broyden_update_secant_N2.
Theorem C08_broyden_update_secant_N3 : bup3_secant_ok. Proof. exact bup3_secant. Qed.
Print Assumptions C08_broyden_update_secant_N3.
(* TinyBroydenSolver::computeNewCorrection: B' d = - F with the updated matrix, fzeros_1 := fzeros *)
Theorem C08_broyden_correction_N2 : bco2_ok. Proof. exact bco2_correct. Qed.
Print Assumptions C08_broyden_correction_N2.
(* TinyBroyden2Solver::updateOrCheckJacobian: inverse secant equation H' (F - F_1) = dz *)
Theorem C08_broyden2_update_inverse_secant_N2 : b2up2_inverse_secant_ok. Proof. exact b2up2_inverse_secant. Qed.
Print Assumptions C08_broyden2_update_inverse_secant_N2.
Theorem C08_broyden2_update_inverse_secant_N3 : b2up3_inverse_secant_ok. Proof. exact b2up3_inverse_secant. Qed.
Print Assumptions C08_broyden2_update_inverse_secant_N3.
(* TinyBroyden2Solver::computeNewCorrection: d = - H' F, fzeros_1 := fzeros *)
Theorem C08_broyden2_correction_N2 : b2co2_ok. Proof. exact b2co2_correct. Qed.
Print Assumptions C08_broyden2_correction_N2.

(* C08 -- specification, on the observable trace of hook calls and the final state, independent of the way the
   solver loop is written. *)
From Coq Require Import List Bool Arith.
From C08 Require Import C08Model.
Import ListNotations.

Section Spec.
  Variables V E : Type.
  Variable efinite : E -> bool.
  Variable conv : E -> bool.
  Variable orc : nat -> outcome V E.

  Fixpoint count_res (tr : list (event V E)) : nat :=
    match tr with
    | [] => 0
    | EResidual _ _ :: t => S (count_res t)
    | _ :: t => count_res t
    end.

  (* (1) no false convergence: a successful return ends with  computeResidual (succeeding, at the returned
     unknowns) ; computeResidualNorm = e ; reportStandardIteration ; checkConvergence = true ; reportSuccess,
     with e finite and accepted by the criterion; it is the outcome of the last oracle consultation *)
  Definition sound (r : bool * state V E) : Prop :=
    fst r = true ->
    exists pre e k,
      rev (trace (snd r)) = pre ++ [EResidual (zeros (snd r)) true; ENorm e; EStdIter e; ECheck true; ESuccess] /\
      efinite e = true /\ conv e = true /\
      res_ok (orc k) = true /\ err (orc k) = e /\ S k = nres (snd r).

  (* (2) budget: the iteration counter never exceeds iterMax and there are at most iterMax residual evaluations *)
  Definition within_budget (iterMax : nat) (r : bool * state V E) : Prop :=
    iter (snd r) <= iterMax /\ count_res (trace (snd r)) <= iterMax /\ count_res (trace (snd r)) = nres (snd r).

  (* (3) a run reports exactly one of success / failure, as its last event *)
  Definition verdict_reported (r : bool * state V E) : Prop :=
    exists tl, trace (snd r) = (if fst r then ESuccess else EFailure) :: tl.
End Spec.

(* C08 -- specification of the numerical content of one correction of the six solvers, written independently of the
   code: small dense linear algebra on lists of reals (row-major matrices), Newton / secant / Levenberg-Marquardt /
   dog-leg equations.  Definitions only (plus evaluation lemmas on the helpers). *)
From Coq Require Import Reals List Lra.
Import ListNotations.
Local Open Scope R_scope.

Fixpoint dot (a b : list R) : R :=
  match a, b with x :: a', y :: b' => x * y + dot a' b' | _, _ => 0 end.
Fixpoint rows (n : nat) (m : list R) (k : nat) : list (list R) :=
  match k with O => [] | S k' => firstn n m :: rows n (skipn n m) k' end.
(* M x, M row-major n x n *)
Definition mvec (n : nat) (M x : list R) : list R := map (fun row => dot row x) (rows n M n).
Definition col (n : nat) (M : list R) (j : nat) : list R := map (fun row => nth j row 0) (rows n M n).
(* M^T x *)
Definition tmvec (n : nat) (M x : list R) : list R := map (fun j => dot (col n M j) x) (seq 0 n).
Fixpoint vadd (a b : list R) : list R := match a, b with x :: a', y :: b' => (x + y) :: vadd a' b' | _, _ => [] end.
Fixpoint vsub (a b : list R) : list R := match a, b with x :: a', y :: b' => (x - y) :: vsub a' b' | _, _ => [] end.
Definition vscal (c : R) (a : list R) : list R := map (Rmult c) a.
Definition vneg (a : list R) : list R := map Ropp a.
Definition zeros (n : nat) : list R := repeat 0 n.
Definition norm2 (a : list R) : R := dot a a.                       (* squared Euclidean norm *)
Definition norm (a : list R) : R := sqrt (norm2 a).
Fixpoint l1 (a : list R) : R := match a with [] => 0 | x :: a' => Rabs x + l1 a' end.

(* ---- Newton: the correction d solves J d = - F *)
Definition newton_eq (n : nat) (J F d : list R) : Prop := mvec n J d = vneg F.
(* an affine residual z |-> A z + b *)
Definition affine (n : nat) (A b z : list R) : list R := vadd (mvec n A z) b.

(* ---- Broyden (good): B' dz = F - G (secant equation), B' w = B w whenever dz . w = 0 (least change) *)
Definition secant (n : nat) (B' dz F G : list R) : Prop := mvec n B' dz = vsub F G.
(* ---- Broyden (bad, update of the inverse): H' (F - G) = dz *)
Definition inverse_secant (n : nat) (H' dz F G : list R) : Prop := mvec n H' (vsub F G) = dz.

(* ---- Levenberg-Marquardt: (J^T J + lambda I) d = - J^T F; the code uses lambda = mu * ||F||_2 *)
Definition lm_eq (n : nat) (J F : list R) (lambda : R) (d : list R) : Prop :=
  vadd (tmvec n J (mvec n J d)) (vscal lambda d) = vneg (tmvec n J F).
(* gain ratio used by the acceptance test: actual reduction over the reduction predicted by the linear model at the
   previous iterate, (||F||^2 - e1^2) / (||G + K dz||^2 - e1^2), e1 = ||G|| being the previous residual norm *)
Definition lm_gain (n : nat) (F G K dz : list R) (e1 : R) : R :=
  (norm2 F - e1 * e1) / (norm2 (vadd G (mvec n K dz)) - e1 * e1).
(* update of mu on an accepted step *)
Definition lm_mu_accept (mu r p1 p2 m : R) : R :=
  if Rlt_dec r p1 then 4 * mu else if Rlt_dec p2 r then Rmax (mu / 4) m else mu.

(* ---- Powell dog-leg as written in TinyPowellDogLegAlgorithmBase.hxx, in geometric terms (n = 2).
   g = J^T f (gradient of ||f||^2 / 2), gc = (|g|^2 / |J g|^2) g: minus the Cauchy step.  The trust-region tests
   compare the SUM OF ABSOLUTE VALUES of a step with n * radius, the geometry uses Euclidean norms. *)
Definition cauchy (n : nat) (J f gc : list R) : Prop :=
  let g := tmvec n J f in
  exists c, c * norm2 (mvec n J g) = norm2 g /\ gc = vscal c g.
(* u and v are parallel (plane) *)
Definition collinear2 (u v : list R) : Prop := nth 0 u 0 * nth 1 v 0 - nth 1 u 0 * nth 0 v 0 = 0.
Definition dogleg_spec2 (d J f : list R) (r : R) (out : list R) : Prop :=
  (l1 d < 2 * r /\ out = d)                                                 (* the step is kept *)
  \/ (~ l1 d < 2 * r /\ exists gc, cauchy 2 J f gc /\
      ( (l1 gc < 2 * r /\                                                    (* on the line Cauchy point -- d ... *)
         collinear2 (vadd out gc) (vadd d gc) /\
         let c0 := r * r in let c1 := norm2 gc in let c2 := dot (vneg d) gc in let c3 := norm2 d in
         let c4 := (c2 - c0) * (c2 - c0) + (c3 - c0) * (c0 - c1) in
         (0 <= c4 -> (forall s, 0 <= s -> s * s = c4 -> c2 - c1 + s <> 0) -> norm2 out = r * r))   (* ... at the radius *)
        \/ (~ l1 gc < 2 * r /\                                               (* steepest descent cut at the radius *)
            out = vscal (- (r / norm gc)) gc /\ (norm2 gc <> 0 -> norm2 out = r * r)) )).

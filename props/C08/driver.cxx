// C08 driver.  Runs the REAL TinyNonLinearSolverBase::solveNonLinearSystem
//  (M) with a mock CRTP child whose hook outcomes are scripted, and
//  (S/Q/T) inside the six real solvers (Newton-Raphson, Broyden, Broyden2, Levenberg-Marquardt, Powell dog-leg NR /
//      Broyden, N = 2) on residual families (affine + quadratic, products of quadratics / rational functions with known
//      roots) with injected failures / NaN / inf,
//  (K) the six solvers with N = 1 on f(x) = x^3 - x, admissible only for x > xmin (computeResidual fills fzeros and then
//      returns false outside),
//  (D) one computeNewCorrection of the two dog-leg solvers (N = 2) on a given jacobian / residual / radius,
// and prints every hook call in order (codes as in coq/C08Float.v `enc`) with the values it saw.
#include <cmath>
#include <cstdio>
#include <cstdlib>
#include <cstring>
#include <fstream>
#include <iostream>
#include <map>
#include <sstream>
#include <string>
#include <vector>
#include "TFEL/Config/TFELConfig.hxx"
#include "TFEL/Math/tvector.hxx"
#include "TFEL/Math/tmatrix.hxx"
#include "TFEL/Math/TinyNewtonRaphsonSolver.hxx"
#include "TFEL/Math/TinyBroydenSolver.hxx"
#include "TFEL/Math/TinyBroyden2Solver.hxx"
#include "TFEL/Math/TinyLevenbergMarquardtSolver.hxx"
// TinyPowellDogLeg{NewtonRaphson,Broyden}Solver.ixx reuse the include guards of Tiny{NewtonRaphson,Broyden}Solver.ixx:
// without these #undef the second pair of .ixx files is skipped and computeNewCorrection is undefined at link time
#undef LIB_TFEL_MATH_TINYNEWTONRAPHSONSOLVER_IXX
#undef LIB_TFEL_MATH_TINYBROYDENSOLVER_IXX
#include "TFEL/Math/TinyPowellDogLegNewtonRaphsonSolver.hxx"
#include "TFEL/Math/TinyPowellDogLegBroydenSolver.hxx"

using tfel::math::tmatrix;
using tfel::math::tvector;

static double rd(std::istream& is) {
  std::string s;
  is >> s;
  if (s == "nan") return std::nan("");
  if (s == "inf") return HUGE_VAL;
  if (s == "-inf") return -HUGE_VAL;
  return std::strtod(s.c_str(), nullptr);
}
static void pr(const double x) {
  if (std::isnan(x)) std::printf(" nan");
  else std::printf(" %a", x);
}
struct Ev {
  int code;
  std::vector<double> p;
};
static std::vector<Ev> events;
static void ev(int c, std::vector<double> p = {}) { events.push_back({c, p}); }
enum { BEGIN, INITRES, NEWEST, INITCORE, RESF, REST, NORM, REJECT, INVALID, STDITER, CHECKF, CHECKT, CORRF, CORRT,
       CORRFAIL, PROCCORR, SUCCESS, FAILURE };

// hooks that only log, shared by the mock and the real-solver children
template <typename Base>
struct Logged : Base {
  void reportBeginningOfResolution() { ev(BEGIN); }
  void executeInitialisationTaskBeforeResolution() {
    Base::executeInitialisationTaskBeforeResolution();
    ev(INITRES);
  }
  void executeInitialisationTaskBeforeBeginningOfCoreAlgorithm() {
    Base::executeInitialisationTaskBeforeBeginningOfCoreAlgorithm();
    ev(INITCORE);
  }
  void processNewEstimate() { ev(NEWEST); }
  void processNewCorrection() { ev(PROCCORR); }
  void rejectCurrentCorrection() { ev(REJECT); }
  void reportSuccess() { ev(SUCCESS); }
  void reportFailure() { ev(FAILURE); }
  void reportInvalidResidualEvaluation() { ev(INVALID); }
  void reportNewCorrectionComputationFailure() { ev(CORRFAIL); }
  void reportStandardIteration(const double e) { ev(STDITER, {e}); }
  double computeResidualNorm() {
    const auto e = Base::computeResidualNorm();
    ev(NORM, {e});
    return e;
  }
  bool checkConvergence(const double e) {
    const auto b = Base::checkConvergence(e);
    ev(b ? CHECKT : CHECKF);
    return b;
  }
};

struct Overrun {};
static int guard_max = 0;
struct Outcome {
  bool ok;
  double err;
  int kind;  // 0: computeNewCorrection fails, 1: step d, 2: step d and zeros overwritten by zo
  double d[2], zo[2];
};

struct Mock : Logged<tfel::math::TinyNonLinearSolverBase<2, double, Mock>> {
  std::vector<Outcome> script;
  int crit = 0;  // 0: default e < epsilon ; 1: child override !(e >= epsilon)
  bool checkConvergence(const double e) {
    if (crit == 0) return Logged::checkConvergence(e);
    const bool b = !(e >= this->epsilon);
    ev(b ? CHECKT : CHECKF);
    return b;
  }
  size_t k = 0;
  Outcome cur{};
  bool computeResidual() {
    cur = k < script.size() ? script[k] : Outcome{false, 0, 0, {0, 0}, {0, 0}};
    ++k;
    if (static_cast<int>(k) > guard_max) throw Overrun{};
    ev(cur.ok ? REST : RESF, {this->zeros[0], this->zeros[1]});
    this->fzeros[0] = cur.err;
    this->fzeros[1] = 0;
    return cur.ok;
  }
  bool computeNewCorrection() {
    if (cur.kind == 0) {
      ev(CORRF);
      return false;
    }
    if (cur.kind == 2) {
      this->zeros[0] = cur.zo[0];
      this->zeros[1] = cur.zo[1];
    }
    this->delta_zeros[0] = cur.d[0];
    this->delta_zeros[1] = cur.d[1];
    ev(CORRT, cur.kind == 2 ? std::vector<double>{cur.d[0], cur.d[1], cur.zo[0], cur.zo[1]}
                            : std::vector<double>{cur.d[0], cur.d[1]});
    return true;
  }
  bool run(const int im, const double eps, const double z0, const double z1) {
    this->iterMax = static_cast<unsigned short>(im);
    this->epsilon = eps;
    this->zeros[0] = z0;
    this->zeros[1] = z1;
    this->delta_zeros[0] = this->delta_zeros[1] = 0;
    return this->solveNonLinearSystem();
  }
  using TinyNonLinearSolverBase::iter;
  using TinyNonLinearSolverBase::zeros;
  using TinyNonLinearSolverBase::fzeros;
};

// residual families with injected failures
//   type 0: F_i(z) = sum_j A_ij z_j + b_i + c_i z_i^2
//   type 1: F = A q(z), q_i(z) = (z_i - b_i) (z_i - c_i)          roots: z_i in {b_i, c_i} (A non singular)
//   type 2: F = A q(z), q_i(z) = (z_i - b_i) / (1 + z_i^2)        root:  z = b
struct Problem {
  double A[2][2], b[2], c[2];
  int jacinit;
  std::map<int, int> inj;  // evaluation index -> 0: return false, 1: NaN residual, 2: inf residual
  int type = 0;
};

template <typename Base>
struct Real : Logged<Base> {
  Problem p;
  int k = 0;
  double q(int i, double x) const { return p.type == 1 ? (x - p.b[i]) * (x - p.c[i]) : (x - p.b[i]) / (1 + x * x); }
  double dq(int i, double x) const {
    return p.type == 1 ? 2 * x - p.b[i] - p.c[i] : (1 + x * x - 2 * x * (x - p.b[i])) / ((1 + x * x) * (1 + x * x));
  }
  void F(const tvector<2, double>& z, tvector<2, double>& f) const {
    for (unsigned short i = 0; i != 2; ++i) {
      if (p.type == 0) f[i] = p.A[i][0] * z[0] + p.A[i][1] * z[1] + p.b[i] + p.c[i] * z[i] * z[i];
      else f[i] = p.A[i][0] * q(0, z[0]) + p.A[i][1] * q(1, z[1]);
    }
  }
  template <typename M>
  void J(const tvector<2, double>& z, M& j) const {
    for (unsigned short i = 0; i != 2; ++i) {
      if (p.type == 0) {
        for (unsigned short l = 0; l != 2; ++l) j(i, l) = p.A[i][l];
        j(i, i) += 2 * p.c[i] * z[i];
      } else {
        for (unsigned short l = 0; l != 2; ++l) j(i, l) = p.A[i][l] * dq(l, z[l]);
      }
    }
  }
  static constexpr bool has_jacobian = requires(Base& s) { s.jacobian; };
  static constexpr bool is_quasi_newton = requires(Base& s) { s.fzeros_1; };
  bool computeResidual() {
    const auto it = p.inj.find(k);
    ++k;
    if (k > guard_max) throw Overrun{};
    F(this->zeros, this->fzeros);
    if constexpr (has_jacobian && !is_quasi_newton) {
      J(this->zeros, this->jacobian);
    }
    bool ok = true;
    if (it != p.inj.end()) {
      if (it->second == 0) ok = false;
      if (it->second == 1) this->fzeros[0] = std::nan("");
      if (it->second == 2) this->fzeros[1] = HUGE_VAL;
    }
    ev(ok ? REST : RESF, {this->zeros[0], this->zeros[1]});
    return ok;
  }
  bool computeNewCorrection() {
    const auto zb = this->zeros;
    const bool r = Base::computeNewCorrection();
    if (!r) {
      ev(CORRF);
      return false;
    }
    const bool same = std::memcmp(&zb[0], &this->zeros[0], 2 * sizeof(double)) == 0;
    ev(CORRT, same ? std::vector<double>{this->delta_zeros[0], this->delta_zeros[1]}
                   : std::vector<double>{this->delta_zeros[0], this->delta_zeros[1], this->zeros[0], this->zeros[1]});
    return true;
  }
  void setup(const int im, const double eps, const double z0, const double z1) {
    this->iterMax = static_cast<unsigned short>(im);
    this->epsilon = eps;
    this->zeros[0] = z0;
    this->zeros[1] = z1;
    this->delta_zeros[0] = this->delta_zeros[1] = 0;
    this->fzeros[0] = this->fzeros[1] = 0;
    if constexpr (is_quasi_newton) {
      if constexpr (has_jacobian) {
        if (p.jacinit == 1) J(this->zeros, this->jacobian);
        else this->jacobian = tmatrix<2, 2, double>::Id();
      } else {
        this->inv_jacobian = tmatrix<2, 2, double>::Id();
        if (p.jacinit == 1) {
          tmatrix<2, 2, double> j;
          J(this->zeros, j);
          const auto det = j(0, 0) * j(1, 1) - j(0, 1) * j(1, 0);
          if (det != 0) {
            this->inv_jacobian(0, 0) = j(1, 1) / det;
            this->inv_jacobian(0, 1) = -j(0, 1) / det;
            this->inv_jacobian(1, 0) = -j(1, 0) / det;
            this->inv_jacobian(1, 1) = j(0, 0) / det;
          }
        }
      }
    }
    if constexpr (requires(Base& s) { s.powell_dogleg_trust_region_size; }) {
      this->powell_dogleg_trust_region_size = 0.5;
    }
    if constexpr (requires(Base& s) { s.levmar_mu0; }) {
      this->levmar_mu0 = 1e-6;
      this->levmar_p0 = 1e-4;
      this->levmar_p1 = 0.25;
      this->levmar_p2 = 0.75;
      this->levmar_m = 1e-8;
    }
  }
  // returns: 0 failure, 1 success with fzeros == F(zeros) bit for bit, 2 success but fzeros is not F(zeros)
  int run() {
    const bool r = this->solveNonLinearSystem();
    if (!r) return 0;
    tvector<2, double> f;
    F(this->zeros, f);
    return std::memcmp(&f[0], &this->fzeros[0], 2 * sizeof(double)) == 0 ? 1 : 2;
  }
  int get_iter() const { return this->iter; }
  double z(int i) const { return this->zeros[i]; }
};
struct NR : Real<tfel::math::TinyNewtonRaphsonSolver<2, double, NR>> {};
struct BR : Real<tfel::math::TinyBroydenSolver<2, double, BR>> {};
struct BR2 : Real<tfel::math::TinyBroyden2Solver<2, double, BR2>> {};
struct LM : Real<tfel::math::TinyLevenbergMarquardtSolver<2, double, LM>> {};
struct PNR : Real<tfel::math::TinyPowellDogLegNewtonRaphsonSolver<2, double, PNR>> {};
struct PBR : Real<tfel::math::TinyPowellDogLegBroydenSolver<2, double, PBR>> {};

// N = 1: f(x) = x^3 - x, admissible only for x > xmin: computeResidual fills fzeros (and the jacobian) and THEN reports
// failure, as MFront behaviours do when an internal check rejects the state.  Roots: -1 (inadmissible for xmin = -0.5), 0, 1.
template <typename Base>
struct Cubic : Logged<Base> {
  double xmin = -0.5;
  int k = 0;
  static constexpr bool has_jacobian = requires(Base& s) { s.jacobian; };
  static constexpr bool is_quasi_newton = requires(Base& s) { s.fzeros_1; };
  bool computeResidual() {
    ++k;
    if (k > guard_max) throw Overrun{};
    const double x = this->zeros[0];
    this->fzeros[0] = x * x * x - x;
    if constexpr (has_jacobian && !is_quasi_newton) this->jacobian(0, 0) = 3 * x * x - 1;
    const bool ok = x > xmin;
    ev(ok ? REST : RESF, {x});
    return ok;
  }
  bool computeNewCorrection() {
    const double zb = this->zeros[0];
    const bool r = Base::computeNewCorrection();
    if (!r) {
      ev(CORRF);
      return false;
    }
    ev(CORRT, zb == this->zeros[0] ? std::vector<double>{this->delta_zeros[0]}
                                    : std::vector<double>{this->delta_zeros[0], this->zeros[0]});
    return true;
  }
  void setup(const int im, const double eps, const double x0) {
    this->iterMax = static_cast<unsigned short>(im);
    this->epsilon = eps;
    this->zeros[0] = x0;
    this->delta_zeros[0] = 0;
    this->fzeros[0] = 0;
    if constexpr (is_quasi_newton) {
      if constexpr (has_jacobian) this->jacobian(0, 0) = 3 * x0 * x0 - 1;
      else this->inv_jacobian(0, 0) = 1 / (3 * x0 * x0 - 1);
    }
    if constexpr (requires(Base& s) { s.powell_dogleg_trust_region_size; }) this->powell_dogleg_trust_region_size = 2.0;
    if constexpr (requires(Base& s) { s.levmar_mu0; }) {
      this->levmar_mu0 = 1e-6;
      this->levmar_p0 = 1e-4;
      this->levmar_p1 = 0.25;
      this->levmar_p2 = 0.75;
      this->levmar_m = 1e-8;
    }
  }
  int run() {
    const bool r = this->solveNonLinearSystem();
    if (!r) return 0;
    const double x = this->zeros[0];
    const double f = x * x * x - x;
    return std::memcmp(&f, &this->fzeros[0], sizeof(double)) == 0 ? 1 : 2;
  }
  int get_iter() const { return this->iter; }
  double z() const { return this->zeros[0]; }
};
struct NR1 : Cubic<tfel::math::TinyNewtonRaphsonSolver<1, double, NR1>> {};
struct BR1 : Cubic<tfel::math::TinyBroydenSolver<1, double, BR1>> {};
struct BR21 : Cubic<tfel::math::TinyBroyden2Solver<1, double, BR21>> {};
struct LM1 : Cubic<tfel::math::TinyLevenbergMarquardtSolver<1, double, LM1>> {};
struct PNR1 : Cubic<tfel::math::TinyPowellDogLegNewtonRaphsonSolver<1, double, PNR1>> {};
struct PBR1 : Cubic<tfel::math::TinyPowellDogLegBroydenSolver<1, double, PBR1>> {};

// one computeNewCorrection of the two dog-leg solvers on a given (jacobian, residual, radius); iter = 0
template <typename Base>
struct OneStep : Base {
  bool go(const double* j, const double* f, const double radius, double* d) {
    for (unsigned short i = 0; i != 2; ++i) {
      this->fzeros[i] = f[i];
      for (unsigned short l = 0; l != 2; ++l) this->jacobian(i, l) = j[2 * i + l];
    }
    this->powell_dogleg_trust_region_size = radius;
    this->iter = 0;
    this->delta_zeros[0] = this->delta_zeros[1] = 0;
    const bool r = Base::computeNewCorrection();
    d[0] = this->delta_zeros[0];
    d[1] = this->delta_zeros[1];
    return r;
  }
  bool computeResidual() { return true; }
};
struct PNRs : OneStep<tfel::math::TinyPowellDogLegNewtonRaphsonSolver<2, double, PNRs>> {};
struct PBRs : OneStep<tfel::math::TinyPowellDogLegBroydenSolver<2, double, PBRs>> {};

static void out1(const std::string& id, int res, int iter, double z0) {
  std::printf("R %s %d %d", id.c_str(), res, iter);
  pr(z0);
  std::printf(" %zu", events.size());
  for (const auto& e : events) {
    std::printf(" %d %zu", e.code, e.p.size());
    for (const auto x : e.p) pr(x);
  }
  std::printf("\n");
}
template <typename S>
static void run_cubic(const std::string& id, int im, double eps, double x0, double xmin) {
  S s;
  s.xmin = xmin;
  s.setup(im, eps, x0);
  guard_max = 4 * im + 8;
  try {
    const int r = s.run();
    out1(id, r, s.get_iter(), s.z());
  } catch (Overrun&) {
    out1(id, 3, s.get_iter(), s.z());
  }
}
static void out(const std::string& id, int res, int iter, double z0, double z1) {
  std::printf("R %s %d %d", id.c_str(), res, iter);
  pr(z0);
  pr(z1);
  std::printf(" %zu", events.size());
  for (const auto& e : events) {
    std::printf(" %d %zu", e.code, e.p.size());
    for (const auto x : e.p) pr(x);
  }
  std::printf("\n");
}
template <typename S>
static void run_real(const std::string& id, const Problem& p, int im, double eps, double z0, double z1) {
  S s;
  s.p = p;
  s.setup(im, eps, z0, z1);
  guard_max = 4 * im + 8;
  try {
    const int r = s.run();
    out(id, r, s.get_iter(), s.z(0), s.z(1));
  } catch (Overrun&) {
    out(id, 3, s.get_iter(), s.z(0), s.z(1));
  }
}

int main(int argc, char** argv) {
  if (argc < 2) return 2;
  std::ifstream in(argv[1]);
  std::string line;
  while (std::getline(in, line)) {
    if (line.empty()) continue;
    std::istringstream is(line);
    std::string kind, id;
    is >> kind >> id;
    events.clear();
    if (kind == "M") {
      int im, n;
      Mock m;
      is >> im >> m.crit;
      const double eps = rd(is), z0 = rd(is), z1 = rd(is);
      is >> n;
      guard_max = 4 * im + 8;
      for (int i = 0; i != n; ++i) {
        Outcome o{};
        int ok;
        is >> ok;
        o.ok = ok != 0;
        o.err = rd(is);
        is >> o.kind;
        if (o.kind >= 1) { o.d[0] = rd(is); o.d[1] = rd(is); }
        if (o.kind == 2) { o.zo[0] = rd(is); o.zo[1] = rd(is); }
        m.script.push_back(o);
      }
      try {
        const bool r = m.run(im, eps, z0, z1);
        out(id, r ? 1 : 0, m.iter, m.zeros[0], m.zeros[1]);
      } catch (Overrun&) {
        out(id, 3, m.iter, m.zeros[0], m.zeros[1]);
      }
    } else if (kind == "K") {
      int solver, im;
      is >> solver >> im;
      const double eps = rd(is), x0 = rd(is), xmin = rd(is);
      switch (solver) {
        case 0: run_cubic<NR1>(id, im, eps, x0, xmin); break;
        case 1: run_cubic<BR1>(id, im, eps, x0, xmin); break;
        case 2: run_cubic<BR21>(id, im, eps, x0, xmin); break;
        case 3: run_cubic<LM1>(id, im, eps, x0, xmin); break;
        case 4: run_cubic<PNR1>(id, im, eps, x0, xmin); break;
        default: run_cubic<PBR1>(id, im, eps, x0, xmin);
      }
    } else if (kind == "D") {
      int solver;
      is >> solver;
      double j[4], f[2], d[2];
      for (auto& x : j) x = rd(is);
      for (auto& x : f) x = rd(is);
      const double radius = rd(is);
      bool r;
      if (solver == 4) {
        PNRs s;
        r = s.go(j, f, radius, d);
      } else {
        PBRs s;
        r = s.go(j, f, radius, d);
      }
      std::printf("D %s %d", id.c_str(), int(r));
      pr(d[0]);
      pr(d[1]);
      std::printf("\n");
    } else {
      int solver, im, ninj;
      is >> solver >> im;
      const double eps = rd(is), z0 = rd(is), z1 = rd(is);
      Problem p;
      p.type = kind == "S" ? 0 : (kind == "Q" ? 1 : 2);
      for (auto& row : p.A) for (auto& x : row) x = rd(is);
      for (auto& x : p.b) x = rd(is);
      for (auto& x : p.c) x = rd(is);
      is >> p.jacinit >> ninj;
      for (int i = 0; i != ninj; ++i) {
        int k, what;
        is >> k >> what;
        p.inj[k] = what;
      }
      switch (solver) {
        case 0: run_real<NR>(id, p, im, eps, z0, z1); break;
        case 1: run_real<BR>(id, p, im, eps, z0, z1); break;
        case 2: run_real<BR2>(id, p, im, eps, z0, z1); break;
        case 3: run_real<LM>(id, p, im, eps, z0, z1); break;
        case 4: run_real<PNR>(id, p, im, eps, z0, z1); break;
        default: run_real<PBR>(id, p, im, eps, z0, z1);
      }
    }
  }
  return 0;
}

// C01: tracer (engine S, straight-line) and driver for the symmetric tensor algebra of /repo.
//   trace gen <out.v> <seed> <ncases> : prints the traced operations as Coq definitions over R and checks the
//                                       Sym-vs-double agreement on seeded inputs (lines AGREE / AGREE-FAIL)
//   trace run <seed> <ncases>         : runs the real code (double) on seeded inputs, one line per case:
//                                       RUN <op> <N> <kind> in <inputs...> out <outputs...>
#include "symtfel.hxx"
#include "TFEL/Math/stensor.hxx"
#include "TFEL/Math/tensor.hxx"
#include "TFEL/Math/tmatrix.hxx"
#include "TFEL/Math/tvector.hxx"
#include "TFEL/Math/Stensor/SymmetricStensorProduct.hxx"
#include <cstring>
#include <iostream>

using namespace symv;
using tfel::math::stensor;
using tfel::math::tensor;
using tfel::math::tmatrix;
using tfel::math::tvector;

// all possible inputs of an operation; an operation uses the groups named in its `uses` string:
//   s,t : symmetric tensors (n components)   m : 3x3 matrix, row major   u,v : vectors   p : external array (n)
//   l : three scalars (eigenvalues)          x : one scalar
template <typename T>
struct In {
  std::vector<T> s, t, m, u, v, p, l, x;
};

struct OpDesc {
  const char* name;
  const char* uses;
};
static const OpDesc ops[] = {
    {"trace", "s"},
    {"det", "s"},
    {"invert", "s"},
    {"square", "s"},
    {"symmetric_product", "st"},
    {"symmetric_product_aba", "st"},
    {"product", "st"},
    {"deviator", "s"},
    {"sigmaeq", "s"},
    {"contract", "st"},
    {"change_basis", "sm"},
    {"changeBasis_member", "sm"},
    {"buildFromMatrix", "m"},
    {"buildFromVectorDiadicProduct", "u"},
    {"buildFromVectorsSymmetricDiadicProduct", "uv"},
    {"buildFromEigenValuesAndVectors", "lm"},
    {"importTab", "p"},
    {"exportTab", "s"},
    {"importVoigt", "p"},
    {"import_write", "p"},
    {"exportTab_importTab", "p"},
    {"importTab_exportTab", "s"},
    {"getComponent", "s"},
    {"setComponent", "sx"},
    {"get_setComponent", "sx"},
    {"Id", ""},
    {"linear", "stx"},
    {"cauchy_to_pk2", "st"},
    {"pk2_to_cauchy", "st"},
    {"pk2_cauchy_roundtrip", "st"},
};
static const int nops = sizeof(ops) / sizeof(ops[0]);

template <typename T, unsigned short N>
stensor<N, T> mkst(const std::vector<T>& a) {
  stensor<N, T> s;
  for (unsigned short i = 0; i < s.size(); ++i) s[i] = a[i];
  return s;
}
template <typename T, typename S>
void push(std::vector<T>& r, const S& s) {
  for (unsigned short i = 0; i < s.size(); ++i) r.push_back(s[i]);
}
// index pairs meaningful in dimension N
static int npairs(int N) { return N == 1 ? 3 : (N == 2 ? 5 : 9); }
static const unsigned short PI_[9] = {0, 1, 2, 0, 1, 0, 2, 1, 2};
static const unsigned short PJ_[9] = {0, 1, 2, 1, 0, 2, 0, 2, 1};

template <typename T, unsigned short N>
std::vector<T> run_op(const std::string& op, const In<T>& in) {
  using namespace tfel::math;
  std::vector<T> r;
  const unsigned short n = stensor<N, T>().size();
  auto S = [&] { return mkst<T, N>(in.s); };
  auto Tt = [&] { return mkst<T, N>(in.t); };
  auto M = [&] {
    tmatrix<3u, 3u, T> m;
    for (unsigned short i = 0; i < 3; ++i)
      for (unsigned short j = 0; j < 3; ++j) m(i, j) = in.m[3 * i + j];
    return m;
  };
  auto U = [&] { return tvector<3u, T>{in.u[0], in.u[1], in.u[2]}; };
  auto V = [&] { return tvector<3u, T>{in.v[0], in.v[1], in.v[2]}; };
  if (op == "trace") {
    r.push_back(trace(S()));
  } else if (op == "det") {
    r.push_back(det(S()));
  } else if (op == "invert") {
    push(r, invert(S()));
  } else if (op == "square") {
    push(r, square(S()));
  } else if (op == "symmetric_product") {
    push(r, symmetric_product(S(), Tt()));
  } else if (op == "symmetric_product_aba") {
    push(r, symmetric_product_aba(S(), Tt()));
  } else if (op == "product") {
    const auto a = S();
    const auto b = Tt();
    const tensor<N, T> c = a * b;
    push(r, c);
  } else if (op == "deviator") {
    push(r, deviator(S()));
  } else if (op == "sigmaeq") {
    r.push_back(sigmaeq(S()));
  } else if (op == "contract") {
    const auto a = S();
    const auto b = Tt();
    r.push_back(a | b);
  } else if (op == "change_basis") {
    push(r, change_basis(S(), M()));
  } else if (op == "changeBasis_member") {
    auto a = S();
    a.changeBasis(M());
    push(r, a);
  } else if (op == "buildFromMatrix") {
    push(r, stensor<N, T>::buildFromMatrix(M()));
  } else if (op == "buildFromVectorDiadicProduct") {
    push(r, stensor<N, T>::buildFromVectorDiadicProduct(U()));
  } else if (op == "buildFromVectorsSymmetricDiadicProduct") {
    push(r, stensor<N, T>::buildFromVectorsSymmetricDiadicProduct(U(), V()));
  } else if (op == "buildFromEigenValuesAndVectors") {
    push(r, stensor<N, T>::buildFromEigenValuesAndVectors(in.l[0], in.l[1], in.l[2], M()));
  } else if (op == "importTab") {
    stensor<N, T> a;
    const T* p = in.p.data();
    a.importTab(p);
    push(r, a);
  } else if (op == "exportTab") {
    T buf[6];
    S().exportTab(buf);
    for (unsigned short i = 0; i < n; ++i) r.push_back(buf[i]);
  } else if (op == "importVoigt") {
    stensor<N, T> a;
    const T* p = in.p.data();
    a.importVoigt(p);
    push(r, a);
  } else if (op == "import_write") {
    stensor<N, T> a;
    const T* p = in.p.data();
    a.import(p);
    T buf[6];
    a.write(buf);
    for (unsigned short i = 0; i < n; ++i) r.push_back(buf[i]);
  } else if (op == "exportTab_importTab") {
    stensor<N, T> a;
    const T* p = in.p.data();
    a.importTab(p);
    T buf[6];
    a.exportTab(buf);
    for (unsigned short i = 0; i < n; ++i) r.push_back(buf[i]);
  } else if (op == "importTab_exportTab") {
    T buf[6];
    S().exportTab(buf);
    stensor<N, T> a;
    const T* p = buf;
    a.importTab(p);
    push(r, a);
  } else if (op == "getComponent") {  // every admissible (i,j), order PI_/PJ_
    const auto a = S();
    for (int k = 0; k < npairs(N); ++k) r.push_back(getComponent(a, PI_[k], PJ_[k]));
  } else if (op == "setComponent") {  // for every admissible (i,j): the tensor after setComponent(A,i,j,x)
    for (int k = 0; k < npairs(N); ++k) {
      auto a = S();
      setComponent<T>(a, PI_[k], PJ_[k], in.x[0]);
      push(r, a);
    }
  } else if (op == "get_setComponent") {
    for (int k = 0; k < npairs(N); ++k) {
      auto a = S();
      setComponent<T>(a, PI_[k], PJ_[k], in.x[0]);
      r.push_back(getComponent(a, PI_[k], PJ_[k]));
    }
  } else if (op == "Id") {
    push(r, stensor<N, T>::Id());
  } else if (op == "linear") {  // expression templates: x*s + t, s - t, -s, s/x ... in one go
    const auto a = S();
    const auto b = Tt();
    const stensor<N, T> c = in.x[0] * a + b;
    const stensor<N, T> d = a - b;
    const stensor<N, T> e = -a;
    const stensor<N, T> f = a / in.x[0];
    push(r, c);
    push(r, d);
    push(r, e);
    push(r, f);
  } else if (op == "cauchy_to_pk2") {  // s: stress, t: stretch U
    push(r, convertCorotationnalCauchyStressToSecondPiolaKirchhoffStress(S(), Tt()));
  } else if (op == "pk2_to_cauchy") {
    push(r, convertSecondPiolaKirchhoffStressToCorotationnalCauchyStress(S(), Tt()));
  } else if (op == "pk2_cauchy_roundtrip") {
    const auto Uu = Tt();
    const stensor<N, T> pk2 = convertCorotationnalCauchyStressToSecondPiolaKirchhoffStress(S(), Uu);
    push(r, convertSecondPiolaKirchhoffStressToCorotationnalCauchyStress(pk2, Uu));
  } else {
    throw std::runtime_error("unknown op " + op);
  }
  return r;
}

template <typename T>
std::vector<T> run_opN(int N, const std::string& op, const In<T>& in) {
  if (N == 1) return run_op<T, 1>(op, in);
  if (N == 2) return run_op<T, 2>(op, in);
  return run_op<T, 3>(op, in);
}

static int ncomp(int N) { return N == 1 ? 3 : (N == 2 ? 4 : 6); }

// seeded inputs. kind: 0 generic O(1); 1 scaled (one common scale 10^k, k in [-30,30]); 2 small integers with
// zeros and repeated entries; 3 rotation matrix (random quaternion, block form for N=2) and diagonal-dominant s,t
static In<double> make_input(Rng& g, int N, int kind) {
  In<double> in;
  const int n = ncomp(N);
  auto fill = [&](std::vector<double>& v, int k) {
    v.assign(k, 0.);
    for (auto& e : v) e = (kind == 2) ? double(g.below(5) - 2) : g.range(-2., 2.);
  };
  fill(in.s, 6);
  fill(in.t, 6);
  fill(in.m, 9);
  fill(in.u, 3);
  fill(in.v, 3);
  fill(in.p, 6);
  fill(in.l, 3);
  fill(in.x, 1);
  if (in.x[0] == 0) in.x[0] = 1.5;
  for (int i = n; i < 6; ++i) in.s[i] = in.t[i] = in.p[i] = 0;
  if (kind == 1) {
    const double sc = std::pow(10., g.below(61) - 30);
    for (auto* v : {&in.s, &in.t, &in.u, &in.v, &in.p, &in.l})
      for (auto& e : *v) e *= sc;
  }
  if (kind == 3) {
    double q[4];
    double nq = 0;
    for (auto& e : q) {
      e = g.range(-1., 1.);
      nq += e * e;
    }
    nq = std::sqrt(nq);
    if (nq < 1e-3) { q[0] = 1; q[1] = q[2] = q[3] = 0; nq = 1; }
    for (auto& e : q) e /= nq;
    if (N == 2) { q[1] = q[2] = 0; const double k = std::hypot(q[0], q[3]); if (k < 1e-6) { q[0] = 1; q[3] = 0; } else { q[0] /= k; q[3] /= k; } }
    if (N == 1) { q[0] = 1; q[1] = q[2] = q[3] = 0; }
    const double a = q[0], b = q[1], c = q[2], d = q[3];
    const double R[9] = {a * a + b * b - c * c - d * d, 2 * (b * c - a * d), 2 * (b * d + a * c),
                         2 * (b * c + a * d), a * a - b * b + c * c - d * d, 2 * (c * d - a * b),
                         2 * (b * d - a * c), 2 * (c * d + a * b), a * a - b * b - c * c + d * d};
    for (int i = 0; i < 9; ++i) in.m[i] = R[i];
    for (int i = 0; i < 3; ++i) { in.s[i] += 5; in.t[i] += 5; }
  }
  return in;
}

// Magnitude of the rounding error of a traced expression, in units of the machine epsilon (first-order running error
// bound): |leaf| for a variable, mag(a)+mag(b) for a sum or difference (the sum of the absolute values of the terms:
// this is what governs the accuracy of a sum that cancels, whatever the size of its result), |b| mag(a)+|a| mag(b)
// for a product, mag(a)/|b| + |a| mag(b)/b^2 for a quotient, mag(a)/(2 sqrt a) for a square root.  Always >= |value|.
// The Sym-vs-double agreement compares two evaluations (double / long double) of the SAME expression DAG, so their
// difference is bounded by a modest multiple of eps_double * mag, at every scale of the data.
struct ValMag {
  long double v, m;
};
static ValMag mag_node(int id, const Env& env, std::map<int, ValMag>& memo) {
  auto it = memo.find(id);
  if (it != memo.end()) return it->second;
  const Node n = Store::get().nodes[id];
  ValMag r{0, 0};
  auto A = [&] { return mag_node(n.a, env, memo); };
  auto B = [&] { return mag_node(n.b, env, memo); };
  switch (n.op) {
    case ADD: { const auto a = A(), b = B(); r = {a.v + b.v, a.m + b.m}; break; }
    case SUB: { const auto a = A(), b = B(); r = {a.v - b.v, a.m + b.m}; break; }
    case MUL: { const auto a = A(), b = B(); r = {a.v * b.v, std::fabs(b.v) * a.m + std::fabs(a.v) * b.m}; break; }
    case DIV: { const auto a = A(), b = B(); r = {a.v / b.v, a.m / std::fabs(b.v) + std::fabs(a.v) * b.m / (b.v * b.v)}; break; }
    case NEG: { const auto a = A(); r = {-a.v, a.m}; break; }
    case ABS: { const auto a = A(); r = {std::fabs(a.v), a.m}; break; }
    case SQRT: { const auto a = A(); const long double q = std::sqrt(a.v); r = {q, a.v > 0 ? a.m / (2 * q) : std::sqrt(a.m)}; break; }
    default: {  // leaves and anything else: its own size
      std::map<int, long double> m2;
      const long double v = eval_node(id, env, m2);
      r = {v, std::fabs(v)};
    }
  }
  if (!(r.m >= std::fabs(r.v))) r.m = std::fabs(r.v);  // also replaces a NaN magnitude
  memo[id] = r;
  return r;
}
static long double magnitude(const Sym& s, const Env& env) {
  std::map<int, ValMag> memo;
  return mag_node(node_of(s), env, memo).m;
}

static bool uses(const OpDesc& o, char c) { return std::strchr(o.uses, c) != nullptr; }

// operations whose matrix meaning needs the matrix to have the block form of the dimension (N=2: in-plane rotation,
// N=1: identity)
static bool needs_block_matrix(const std::string& op) {
  return op == "change_basis" || op == "changeBasis_member" || op == "buildFromEigenValuesAndVectors";
}
static void block_matrix(std::vector<double>& m, int N) {
  if (N == 2) { m[2] = m[5] = m[6] = m[7] = 0; m[8] = 1; }
  if (N == 1) { for (int i = 0; i < 9; ++i) m[i] = (i % 4 == 0) ? 1 : 0; }
}

static void print_vec(const char* tag, const std::vector<double>& v) {
  std::printf(" %s", tag);
  for (double x : v) std::printf(" %.17g", x);
}

int main(int argc, char** argv) {
  try {
    if (argc >= 5 && !std::strcmp(argv[1], "gen")) {
      const uint64_t seed = std::strtoull(argv[3], nullptr, 10);
      const int ncases = std::atoi(argv[4]);
      Trace tr("C01_gen");
      for (int N = 1; N <= 3; ++N) {
        const int n = ncomp(N);
        In<Sym> in;
        in.s = vars("s", n);
        in.t = vars("t", n);
        in.m = vars("m", 9);
        in.u = vars("u", 3);
        in.v = vars("v", 3);
        in.p = vars("p", n);
        in.l = vars("l", 3);
        in.x = vars("x", 1);
        for (int k = 0; k < nops; ++k) {
          const OpDesc& o = ops[k];
          std::vector<Sym> ps;
          for (const char* c = o.uses; *c; ++c) {
            const std::vector<Sym>& g = *c == 's' ? in.s : *c == 't' ? in.t : *c == 'm' ? in.m : *c == 'u' ? in.u : *c == 'v' ? in.v
                                        : *c == 'p' ? in.p : *c == 'l' ? in.l : in.x;
            ps.insert(ps.end(), g.begin(), g.end());
          }
          In<Sym> ins = in;
          ins.s.resize(6, Sym(0));
          ins.t.resize(6, Sym(0));
          ins.p.resize(6, Sym(0));
          auto out = run_opN<Sym>(N, o.name, ins);
          const std::string nm = std::string(o.name) + std::to_string(N);
          if (ps.empty()) {
            // constant: print as a definition without parameters
            Printer p;
            std::string s = "Definition " + nm + " : list R :=\n  [";
            for (size_t i = 0; i < out.size(); ++i) s += (i ? "; " : "") + p.expr(node_of(out[i]));
            tr.raw(s + "].\n\n");
          } else {
            tr.def(nm, ps, out);
          }
          // Sym-vs-double agreement
          Rng g(seed * 1000003ULL + 97 * k + N);
          int bad = 0, done = 0;
          for (int c = 0; c < ncases; ++c) {
            const int kind = c % 4;
            In<double> din = make_input(g, N, kind);
            if (needs_block_matrix(o.name) && kind != 3 && (c % 8) < 4) block_matrix(din.m, N);
            Env env;
            auto bind = [&](const char* pre, const std::vector<double>& v) {
              for (size_t i = 0; i < v.size(); ++i) env[pre + std::to_string(i)] = v[i];
            };
            bind("s", din.s); bind("t", din.t); bind("m", din.m); bind("u", din.u); bind("v", din.v);
            bind("p", din.p); bind("l", din.l); bind("x", din.x);
            auto dout = run_opN<double>(N, o.name, din);
            bool ok = dout.size() == out.size();
            // magnitude of the data entering the output (tolerance scale)
            long double scale = 0;
            std::vector<long double> ev;
            for (size_t i = 0; ok && i < out.size(); ++i) ev.push_back(eval(out[i], env));
            for (auto e : ev) if (std::isfinite(static_cast<double>(e))) scale = std::max(scale, std::fabs(e));
            bool finite = true;
            for (size_t i = 0; ok && i < out.size(); ++i) {
              if (!std::isfinite(static_cast<double>(ev[i])) || !std::isfinite(dout[i])) { finite = false; break; }
            }
            if (!finite) continue;  // division by an exactly singular input: nothing to compare
            // closed-form inverses lose accuracy with the conditioning: scale the tolerance by cond-like factor
            long double tol = 1e-11L;
            const std::string on = o.name;
            if (on == "invert" || on == "cauchy_to_pk2" || on == "pk2_to_cauchy" || on == "pk2_cauchy_roundtrip") {
              const auto& dd = (on == "invert") ? din.s : din.t;
              In<double> tmp = din;
              tmp.s = dd;
              const double dt = std::fabs(run_opN<double>(N, "det", tmp)[0]);
              double nr = 0;
              for (int i = 0; i < 6; ++i) nr = std::max(nr, std::fabs(dd[i]));
              const double cond = (dt > 0) ? nr * nr * nr / dt : 1e300;
              tol *= std::max(1., cond * cond);
              if (cond > 1e4) continue;
            }
            // per output: the larger of the size of the results (as before) and the magnitude of the terms that were
            // added up to form it (a cancelling sum of products ~1e54 cannot be compared relative to its result)
            for (size_t i = 0; ok && i < out.size(); ++i) {
              const long double mg = magnitude(out[i], env);
              ok = close(ev[i], dout[i], std::isfinite(static_cast<double>(mg)) ? std::max(scale, mg) : scale, tol);
            }
            ++done;
            if (!ok) {
              ++bad;
              if (bad <= 3) {
                std::printf("AGREE-FAIL %s N=%d case=%d kind=%d", o.name, N, c, kind);
                print_vec("s", din.s);
                print_vec("t", din.t);
                std::printf("\n");
              }
            }
          }
          std::printf("AGREE %s N=%d cases=%d bad=%d outputs=%zu\n", o.name, N, done, bad, out.size());
        }
      }
      tr.write(argv[2]);
      return 0;
    }
    if (argc >= 4 && !std::strcmp(argv[1], "run")) {
      const uint64_t seed = std::strtoull(argv[2], nullptr, 10);
      const int ncases = std::atoi(argv[3]);
      for (int N = 1; N <= 3; ++N)
        for (int k = 0; k < nops; ++k) {
          const OpDesc& o = ops[k];
          Rng g(seed * 7919ULL + 131 * k + N);
          for (int c = 0; c < ncases; ++c) {
            const int kind = c % 4;
            In<double> din = make_input(g, N, kind);
            if (needs_block_matrix(o.name)) {
              if (kind != 3) block_matrix(din.m, N);
            }
            auto dout = run_opN<double>(N, o.name, din);
            std::printf("RUN %s %d %d", o.name, N, kind);
            print_vec("s", din.s);
            print_vec("t", din.t);
            print_vec("m", din.m);
            print_vec("u", din.u);
            print_vec("v", din.v);
            print_vec("p", din.p);
            print_vec("l", din.l);
            print_vec("x", din.x);
            print_vec("out", dout);
            std::printf("\n");
          }
        }
      return 0;
    }
  } catch (std::exception& e) {
    std::fprintf(stderr, "trace: %s\n", e.what());
    return 3;
  }
  std::fprintf(stderr, "usage: trace gen <out.v> <seed> <ncases> | trace run <seed> <ncases>\n");
  return 2;
}

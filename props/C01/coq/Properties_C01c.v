(* C01 -- property theorems (statements are in C01Statements.v / C01Spec.v; proofs in C01ProofsC.v) *)
From Coq Require Import Reals List.
From VLib Require Import RealExtra.
From C01 Require Import C01Spec C01_gen C01Statements C01ProofsC.
Import ListNotations.
Local Open Scope R_scope.


(* convertSecondPiolaKirchhoffStressToCorotationnalCauchyStress(S,U) = U.S.U/det(U) *)
Theorem C01_pk2_to_cauchy : pk2_to_cauchy_stmt1 /\ pk2_to_cauchy_stmt2 /\ pk2_to_cauchy_stmt3.
Proof. exact (conj pk2_to_cauchy_ok1 (conj pk2_to_cauchy_ok2 pk2_to_cauchy_ok3)). Qed.
Print Assumptions C01_pk2_to_cauchy.

(* the two stress conversions are mutually inverse *)
Theorem C01_pk2_cauchy_roundtrip : pk2_cauchy_roundtrip_stmt1 /\ pk2_cauchy_roundtrip_stmt2 /\ pk2_cauchy_roundtrip_stmt3.
Proof. exact (conj pk2_cauchy_roundtrip_ok1 (conj pk2_cauchy_roundtrip_ok2 pk2_cauchy_roundtrip_ok3)). Qed.
Print Assumptions C01_pk2_cauchy_roundtrip.

(* C01 -- proofs; every proof is `unfold the traced definition; mat` (C01Tactics.v), nothing depends on the
   shape of the traced terms. *)
From Coq Require Import Reals List.
From VLib Require Import RealExtra.
From Coq Require Import Lra.
From C01 Require Import C01Spec C01_gen C01Tactics C01Statements.
Import ListNotations.
Local Open Scope R_scope.

Lemma cauchy_to_pk2_ok1 : cauchy_to_pk2_stmt1.
Proof. unfold cauchy_to_pk2_stmt1, cauchy_to_pk21. intros. mat. Qed.
Lemma cauchy_to_pk2_ok2 : cauchy_to_pk2_stmt2.
Proof. unfold cauchy_to_pk2_stmt2, cauchy_to_pk22. intros. mat. Qed.
Lemma cauchy_to_pk2_ok3 : cauchy_to_pk2_stmt3.
Proof. unfold cauchy_to_pk2_stmt3, cauchy_to_pk23. intros. mat. Qed.

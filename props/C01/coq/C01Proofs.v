(* C01 -- proofs; every proof is `unfold the traced definition; mat` (C01Tactics.v), nothing depends on the
   shape of the traced terms. *)
From Coq Require Import Reals List.
From VLib Require Import RealExtra.
From Coq Require Import Lra.
From C01 Require Import C01Spec C01_gen C01Tactics C01Statements.
Import ListNotations.
Local Open Scope R_scope.

Lemma trace_ok1 : trace_stmt1.
Proof. unfold trace_stmt1, trace1. intros. mat. Qed.
Lemma trace_ok2 : trace_stmt2.
Proof. unfold trace_stmt2, trace2. intros. mat. Qed.
Lemma trace_ok3 : trace_stmt3.
Proof. unfold trace_stmt3, trace3. intros. mat. Qed.
Lemma det_ok1 : det_stmt1.
Proof. unfold det_stmt1, det1. intros. mat. Qed.
Lemma det_ok2 : det_stmt2.
Proof. unfold det_stmt2, det2. intros. mat. Qed.
Lemma det_ok3 : det_stmt3.
Proof. unfold det_stmt3, det3. intros. mat. Qed.
Lemma invert_ok1 : invert_stmt1.
Proof. unfold invert_stmt1, invert1. intros. mat. Qed.
Lemma invert_ok2 : invert_stmt2.
Proof. unfold invert_stmt2, invert2. intros. mat. Qed.
Lemma invert_ok3 : invert_stmt3.
Proof. unfold invert_stmt3, invert3. intros. mat. Qed.
Lemma square_ok1 : square_stmt1.
Proof. unfold square_stmt1, square1. intros. mat. Qed.
Lemma square_ok2 : square_stmt2.
Proof. unfold square_stmt2, square2. intros. mat. Qed.
Lemma square_ok3 : square_stmt3.
Proof. unfold square_stmt3, square3. intros. mat. Qed.
Lemma symmetric_product_ok1 : symmetric_product_stmt1.
Proof. unfold symmetric_product_stmt1, symmetric_product1. intros. mat. Qed.
Lemma symmetric_product_ok2 : symmetric_product_stmt2.
Proof. unfold symmetric_product_stmt2, symmetric_product2. intros. mat. Qed.
Lemma symmetric_product_ok3 : symmetric_product_stmt3.
Proof. unfold symmetric_product_stmt3, symmetric_product3. intros. mat. Qed.
Lemma symmetric_product_aba_ok1 : symmetric_product_aba_stmt1.
Proof. unfold symmetric_product_aba_stmt1, symmetric_product_aba1. intros. mat. Qed.
Lemma symmetric_product_aba_ok2 : symmetric_product_aba_stmt2.
Proof. unfold symmetric_product_aba_stmt2, symmetric_product_aba2. intros. mat. Qed.
Lemma symmetric_product_aba_ok3 : symmetric_product_aba_stmt3.
Proof. unfold symmetric_product_aba_stmt3, symmetric_product_aba3. intros. mat. Qed.
Lemma product_ok1 : product_stmt1.
Proof. unfold product_stmt1, product1. intros. mat. Qed.
Lemma product_ok2 : product_stmt2.
Proof. unfold product_stmt2, product2. intros. mat. Qed.
Lemma product_ok3 : product_stmt3.
Proof. unfold product_stmt3, product3. intros. mat. Qed.
Lemma deviator_ok1 : deviator_stmt1.
Proof. unfold deviator_stmt1, deviator1. intros. mat. Qed.
Lemma deviator_ok2 : deviator_stmt2.
Proof. unfold deviator_stmt2, deviator2. intros. mat. Qed.
Lemma deviator_ok3 : deviator_stmt3.
Proof. unfold deviator_stmt3, deviator3. intros. mat. Qed.
Lemma sigmaeq_ok1 : sigmaeq_stmt1.
Proof. unfold sigmaeq_stmt1, sigmaeq1. intros. mat. Qed.
Lemma sigmaeq_ok2 : sigmaeq_stmt2.
Proof. unfold sigmaeq_stmt2, sigmaeq2. intros. mat. Qed.
Lemma sigmaeq_ok3 : sigmaeq_stmt3.
Proof. unfold sigmaeq_stmt3, sigmaeq3. intros. mat. Qed.
Lemma contract_ok1 : contract_stmt1.
Proof. unfold contract_stmt1, contract1. intros. mat. Qed.
Lemma contract_ok2 : contract_stmt2.
Proof. unfold contract_stmt2, contract2. intros. mat. Qed.
Lemma contract_ok3 : contract_stmt3.
Proof. unfold contract_stmt3, contract3. intros. mat. Qed.
Lemma change_basis_ok1 : change_basis_stmt1.
Proof. unfold change_basis_stmt1, change_basis1. intros. mat. Qed.
Lemma change_basis_ok2 : change_basis_stmt2.
Proof. unfold change_basis_stmt2, change_basis2. intros. mat. Qed.
Lemma change_basis_ok3 : change_basis_stmt3.
Proof. unfold change_basis_stmt3, change_basis3. intros. mat. Qed.
Lemma changeBasis_member_ok1 : changeBasis_member_stmt1.
Proof. unfold changeBasis_member_stmt1, changeBasis_member1. intros. mat. Qed.
Lemma changeBasis_member_ok2 : changeBasis_member_stmt2.
Proof. unfold changeBasis_member_stmt2, changeBasis_member2. intros. mat. Qed.
Lemma changeBasis_member_ok3 : changeBasis_member_stmt3.
Proof. unfold changeBasis_member_stmt3, changeBasis_member3. intros. mat. Qed.
Lemma buildFromMatrix_ok1 : buildFromMatrix_stmt1.
Proof. unfold buildFromMatrix_stmt1, buildFromMatrix1. intros. mat. Qed.
Lemma buildFromMatrix_ok2 : buildFromMatrix_stmt2.
Proof. unfold buildFromMatrix_stmt2, buildFromMatrix2. intros. mat. Qed.
Lemma buildFromMatrix_ok3 : buildFromMatrix_stmt3.
Proof. unfold buildFromMatrix_stmt3, buildFromMatrix3. intros. mat. Qed.
Lemma buildFromVectorDiadicProduct_ok1 : buildFromVectorDiadicProduct_stmt1.
Proof. unfold buildFromVectorDiadicProduct_stmt1, buildFromVectorDiadicProduct1. intros. mat. Qed.
Lemma buildFromVectorDiadicProduct_ok2 : buildFromVectorDiadicProduct_stmt2.
Proof. unfold buildFromVectorDiadicProduct_stmt2, buildFromVectorDiadicProduct2. intros. mat. Qed.
Lemma buildFromVectorDiadicProduct_ok3 : buildFromVectorDiadicProduct_stmt3.
Proof. unfold buildFromVectorDiadicProduct_stmt3, buildFromVectorDiadicProduct3. intros. mat. Qed.
Lemma buildFromVectorsSymmetricDiadicProduct_ok1 : buildFromVectorsSymmetricDiadicProduct_stmt1.
Proof. unfold buildFromVectorsSymmetricDiadicProduct_stmt1, buildFromVectorsSymmetricDiadicProduct1. intros. mat. Qed.
Lemma buildFromVectorsSymmetricDiadicProduct_ok2 : buildFromVectorsSymmetricDiadicProduct_stmt2.
Proof. unfold buildFromVectorsSymmetricDiadicProduct_stmt2, buildFromVectorsSymmetricDiadicProduct2. intros. mat. Qed.
Lemma buildFromVectorsSymmetricDiadicProduct_ok3 : buildFromVectorsSymmetricDiadicProduct_stmt3.
Proof. unfold buildFromVectorsSymmetricDiadicProduct_stmt3, buildFromVectorsSymmetricDiadicProduct3. intros. mat. Qed.
Lemma buildFromEigenValuesAndVectors_ok1 : buildFromEigenValuesAndVectors_stmt1.
Proof. unfold buildFromEigenValuesAndVectors_stmt1, buildFromEigenValuesAndVectors1. intros. mat. Qed.
Lemma buildFromEigenValuesAndVectors_ok2 : buildFromEigenValuesAndVectors_stmt2.
Proof. unfold buildFromEigenValuesAndVectors_stmt2, buildFromEigenValuesAndVectors2. intros. mat. Qed.
Lemma buildFromEigenValuesAndVectors_ok3 : buildFromEigenValuesAndVectors_stmt3.
Proof. unfold buildFromEigenValuesAndVectors_stmt3, buildFromEigenValuesAndVectors3. intros. mat. Qed.
Lemma importTab_ok1 : importTab_stmt1.
Proof. unfold importTab_stmt1, importTab1. intros. mat. Qed.
Lemma importTab_ok2 : importTab_stmt2.
Proof. unfold importTab_stmt2, importTab2. intros. mat. Qed.
Lemma importTab_ok3 : importTab_stmt3.
Proof. unfold importTab_stmt3, importTab3. intros. mat. Qed.
Lemma exportTab_ok1 : exportTab_stmt1.
Proof. unfold exportTab_stmt1, exportTab1. intros. mat. Qed.
Lemma exportTab_ok2 : exportTab_stmt2.
Proof. unfold exportTab_stmt2, exportTab2. intros. mat. Qed.
Lemma exportTab_ok3 : exportTab_stmt3.
Proof. unfold exportTab_stmt3, exportTab3. intros. mat. Qed.
Lemma importVoigt_ok1 : importVoigt_stmt1.
Proof. unfold importVoigt_stmt1, importVoigt1. intros. mat. Qed.
Lemma importVoigt_ok2 : importVoigt_stmt2.
Proof. unfold importVoigt_stmt2, importVoigt2. intros. mat. Qed.
Lemma importVoigt_ok3 : importVoigt_stmt3.
Proof. unfold importVoigt_stmt3, importVoigt3. intros. mat. Qed.
Lemma import_write_ok1 : import_write_stmt1.
Proof. unfold import_write_stmt1, import_write1. intros. mat. Qed.
Lemma import_write_ok2 : import_write_stmt2.
Proof. unfold import_write_stmt2, import_write2. intros. mat. Qed.
Lemma import_write_ok3 : import_write_stmt3.
Proof. unfold import_write_stmt3, import_write3. intros. mat. Qed.
Lemma exportTab_importTab_ok1 : exportTab_importTab_stmt1.
Proof. unfold exportTab_importTab_stmt1, exportTab_importTab1. intros. mat. Qed.
Lemma exportTab_importTab_ok2 : exportTab_importTab_stmt2.
Proof. unfold exportTab_importTab_stmt2, exportTab_importTab2. intros. mat. Qed.
Lemma exportTab_importTab_ok3 : exportTab_importTab_stmt3.
Proof. unfold exportTab_importTab_stmt3, exportTab_importTab3. intros. mat. Qed.
Lemma importTab_exportTab_ok1 : importTab_exportTab_stmt1.
Proof. unfold importTab_exportTab_stmt1, importTab_exportTab1. intros. mat. Qed.
Lemma importTab_exportTab_ok2 : importTab_exportTab_stmt2.
Proof. unfold importTab_exportTab_stmt2, importTab_exportTab2. intros. mat. Qed.
Lemma importTab_exportTab_ok3 : importTab_exportTab_stmt3.
Proof. unfold importTab_exportTab_stmt3, importTab_exportTab3. intros. mat. Qed.
Lemma getComponent_ok1 : getComponent_stmt1.
Proof. unfold getComponent_stmt1, getComponent1. intros. mat. Qed.
Lemma getComponent_ok2 : getComponent_stmt2.
Proof. unfold getComponent_stmt2, getComponent2. intros. mat. Qed.
Lemma getComponent_ok3 : getComponent_stmt3.
Proof. unfold getComponent_stmt3, getComponent3. intros. mat. Qed.
Lemma setComponent_ok1 : setComponent_stmt1.
Proof. unfold setComponent_stmt1, setComponent1. intros. mat. Qed.
Lemma setComponent_ok2 : setComponent_stmt2.
Proof. unfold setComponent_stmt2, setComponent2. intros. mat. Qed.
Lemma setComponent_ok3 : setComponent_stmt3.
Proof. unfold setComponent_stmt3, setComponent3. intros. mat. Qed.
Lemma get_setComponent_ok1 : get_setComponent_stmt1.
Proof. unfold get_setComponent_stmt1, get_setComponent1. intros. mat. Qed.
Lemma get_setComponent_ok2 : get_setComponent_stmt2.
Proof. unfold get_setComponent_stmt2, get_setComponent2. intros. mat. Qed.
Lemma get_setComponent_ok3 : get_setComponent_stmt3.
Proof. unfold get_setComponent_stmt3, get_setComponent3. intros. mat. Qed.
Lemma Id_ok1 : Id_stmt1.
Proof. unfold Id_stmt1, Id1. intros. mat. Qed.
Lemma Id_ok2 : Id_stmt2.
Proof. unfold Id_stmt2, Id2. intros. mat. Qed.
Lemma Id_ok3 : Id_stmt3.
Proof. unfold Id_stmt3, Id3. intros. mat. Qed.
Lemma linear_ok1 : linear_stmt1.
Proof. unfold linear_stmt1, linear1. intros. mat. Qed.
Lemma linear_ok2 : linear_stmt2.
Proof. unfold linear_stmt2, linear2. intros. mat. Qed.
Lemma linear_ok3 : linear_stmt3.
Proof. unfold linear_stmt3, linear3. intros. mat. Qed.

(* C01 -- the statements, one sentence per operation and space dimension (written by mkcoq.py, committed).
   <op>N is the definition regenerated from /repo's stensor<N,T> code by the tracer (C01_gen.v). *)
From Coq Require Import Reals List.
From VLib Require Import RealExtra.
From C01 Require Import C01Spec C01_gen.
Import ListNotations.
Local Open Scope R_scope.


(* trace(s) is the trace of the matrix *)
Definition trace_stmt1 : Prop :=
  forall s0 s1 s2 : R,
    nthR (trace1 s0 s1 s2) 0 = mtrace (Mandel [s0; s1; s2]).
Definition trace_stmt2 : Prop :=
  forall s0 s1 s2 s3 : R,
    nthR (trace2 s0 s1 s2 s3) 0 = mtrace (Mandel [s0; s1; s2; s3]).
Definition trace_stmt3 : Prop :=
  forall s0 s1 s2 s3 s4 s5 : R,
    nthR (trace3 s0 s1 s2 s3 s4 s5) 0 = mtrace (Mandel [s0; s1; s2; s3; s4; s5]).

(* det(s) is the determinant of the matrix *)
Definition det_stmt1 : Prop :=
  forall s0 s1 s2 : R,
    nthR (det1 s0 s1 s2) 0 = mdet (Mandel [s0; s1; s2]).
Definition det_stmt2 : Prop :=
  forall s0 s1 s2 s3 : R,
    nthR (det2 s0 s1 s2 s3) 0 = mdet (Mandel [s0; s1; s2; s3]).
Definition det_stmt3 : Prop :=
  forall s0 s1 s2 s3 s4 s5 : R,
    nthR (det3 s0 s1 s2 s3 s4 s5) 0 = mdet (Mandel [s0; s1; s2; s3; s4; s5]).

(* invert(s) is a two-sided inverse of the matrix whenever the matrix is invertible *)
Definition invert_stmt1 : Prop :=
  forall s0 s1 s2 : R,
    mdet (Mandel [s0; s1; s2]) <> 0 ->
    mmul (Mandel (invert1 s0 s1 s2)) (Mandel [s0; s1; s2]) = mI /\ mmul (Mandel [s0; s1; s2]) (Mandel (invert1 s0 s1 s2)) = mI.
Definition invert_stmt2 : Prop :=
  forall s0 s1 s2 s3 : R,
    mdet (Mandel [s0; s1; s2; s3]) <> 0 ->
    mmul (Mandel (invert2 s0 s1 s2 s3)) (Mandel [s0; s1; s2; s3]) = mI /\ mmul (Mandel [s0; s1; s2; s3]) (Mandel (invert2 s0 s1 s2 s3)) = mI.
Definition invert_stmt3 : Prop :=
  forall s0 s1 s2 s3 s4 s5 : R,
    mdet (Mandel [s0; s1; s2; s3; s4; s5]) <> 0 ->
    mmul (Mandel (invert3 s0 s1 s2 s3 s4 s5)) (Mandel [s0; s1; s2; s3; s4; s5]) = mI /\ mmul (Mandel [s0; s1; s2; s3; s4; s5]) (Mandel (invert3 s0 s1 s2 s3 s4 s5)) = mI.

(* square(s) is the matrix product s.s *)
Definition square_stmt1 : Prop :=
  forall s0 s1 s2 : R,
    Mandel (square1 s0 s1 s2) = mmul (Mandel [s0; s1; s2]) (Mandel [s0; s1; s2]).
Definition square_stmt2 : Prop :=
  forall s0 s1 s2 s3 : R,
    Mandel (square2 s0 s1 s2 s3) = mmul (Mandel [s0; s1; s2; s3]) (Mandel [s0; s1; s2; s3]).
Definition square_stmt3 : Prop :=
  forall s0 s1 s2 s3 s4 s5 : R,
    Mandel (square3 s0 s1 s2 s3 s4 s5) = mmul (Mandel [s0; s1; s2; s3; s4; s5]) (Mandel [s0; s1; s2; s3; s4; s5]).

(* symmetric_product(s,t) is (s.t + t.s)/2 *)
Definition symmetric_product_stmt1 : Prop :=
  forall s0 s1 s2 t0 t1 t2 : R,
    Mandel (symmetric_product1 s0 s1 s2 t0 t1 t2) = mscale (1 / 2) (madd (mmul (Mandel [s0; s1; s2]) (Mandel [t0; t1; t2])) (mmul (Mandel [t0; t1; t2]) (Mandel [s0; s1; s2]))).
Definition symmetric_product_stmt2 : Prop :=
  forall s0 s1 s2 s3 t0 t1 t2 t3 : R,
    Mandel (symmetric_product2 s0 s1 s2 s3 t0 t1 t2 t3) = mscale (1 / 2) (madd (mmul (Mandel [s0; s1; s2; s3]) (Mandel [t0; t1; t2; t3])) (mmul (Mandel [t0; t1; t2; t3]) (Mandel [s0; s1; s2; s3]))).
Definition symmetric_product_stmt3 : Prop :=
  forall s0 s1 s2 s3 s4 s5 t0 t1 t2 t3 t4 t5 : R,
    Mandel (symmetric_product3 s0 s1 s2 s3 s4 s5 t0 t1 t2 t3 t4 t5) = mscale (1 / 2) (madd (mmul (Mandel [s0; s1; s2; s3; s4; s5]) (Mandel [t0; t1; t2; t3; t4; t5])) (mmul (Mandel [t0; t1; t2; t3; t4; t5]) (Mandel [s0; s1; s2; s3; s4; s5]))).

(* symmetric_product_aba(s,t) is s.t.s *)
Definition symmetric_product_aba_stmt1 : Prop :=
  forall s0 s1 s2 t0 t1 t2 : R,
    Mandel (symmetric_product_aba1 s0 s1 s2 t0 t1 t2) = mmul (Mandel [s0; s1; s2]) (mmul (Mandel [t0; t1; t2]) (Mandel [s0; s1; s2])).
Definition symmetric_product_aba_stmt2 : Prop :=
  forall s0 s1 s2 s3 t0 t1 t2 t3 : R,
    Mandel (symmetric_product_aba2 s0 s1 s2 s3 t0 t1 t2 t3) = mmul (Mandel [s0; s1; s2; s3]) (mmul (Mandel [t0; t1; t2; t3]) (Mandel [s0; s1; s2; s3])).
Definition symmetric_product_aba_stmt3 : Prop :=
  forall s0 s1 s2 s3 s4 s5 t0 t1 t2 t3 t4 t5 : R,
    Mandel (symmetric_product_aba3 s0 s1 s2 s3 s4 s5 t0 t1 t2 t3 t4 t5) = mmul (Mandel [s0; s1; s2; s3; s4; s5]) (mmul (Mandel [t0; t1; t2; t3; t4; t5]) (Mandel [s0; s1; s2; s3; s4; s5])).

(* s*t (StensorProductExpr, an unsymmetric tensor) is the matrix product *)
Definition product_stmt1 : Prop :=
  forall s0 s1 s2 t0 t1 t2 : R,
    OfTensor (product1 s0 s1 s2 t0 t1 t2) = mmul (Mandel [s0; s1; s2]) (Mandel [t0; t1; t2]).
Definition product_stmt2 : Prop :=
  forall s0 s1 s2 s3 t0 t1 t2 t3 : R,
    OfTensor (product2 s0 s1 s2 s3 t0 t1 t2 t3) = mmul (Mandel [s0; s1; s2; s3]) (Mandel [t0; t1; t2; t3]).
Definition product_stmt3 : Prop :=
  forall s0 s1 s2 s3 s4 s5 t0 t1 t2 t3 t4 t5 : R,
    OfTensor (product3 s0 s1 s2 s3 s4 s5 t0 t1 t2 t3 t4 t5) = mmul (Mandel [s0; s1; s2; s3; s4; s5]) (Mandel [t0; t1; t2; t3; t4; t5]).

(* deviator(s) is s - tr(s)/3 I *)
Definition deviator_stmt1 : Prop :=
  forall s0 s1 s2 : R,
    Mandel (deviator1 s0 s1 s2) = mdev (Mandel [s0; s1; s2]).
Definition deviator_stmt2 : Prop :=
  forall s0 s1 s2 s3 : R,
    Mandel (deviator2 s0 s1 s2 s3) = mdev (Mandel [s0; s1; s2; s3]).
Definition deviator_stmt3 : Prop :=
  forall s0 s1 s2 s3 s4 s5 : R,
    Mandel (deviator3 s0 s1 s2 s3 s4 s5) = mdev (Mandel [s0; s1; s2; s3; s4; s5]).

(* sigmaeq(s) is sqrt(3/2 dev(s):dev(s)) *)
Definition sigmaeq_stmt1 : Prop :=
  forall s0 s1 s2 : R,
    nthR (sigmaeq1 s0 s1 s2) 0 = mvonmises (Mandel [s0; s1; s2]).
Definition sigmaeq_stmt2 : Prop :=
  forall s0 s1 s2 s3 : R,
    nthR (sigmaeq2 s0 s1 s2 s3) 0 = mvonmises (Mandel [s0; s1; s2; s3]).
Definition sigmaeq_stmt3 : Prop :=
  forall s0 s1 s2 s3 s4 s5 : R,
    nthR (sigmaeq3 s0 s1 s2 s3 s4 s5) 0 = mvonmises (Mandel [s0; s1; s2; s3; s4; s5]).

(* s|t is the Frobenius inner product sum_ij s_ij t_ij (Mandel scaling is consistent) *)
Definition contract_stmt1 : Prop :=
  forall s0 s1 s2 t0 t1 t2 : R,
    nthR (contract1 s0 s1 s2 t0 t1 t2) 0 = mfrob (Mandel [s0; s1; s2]) (Mandel [t0; t1; t2]).
Definition contract_stmt2 : Prop :=
  forall s0 s1 s2 s3 t0 t1 t2 t3 : R,
    nthR (contract2 s0 s1 s2 s3 t0 t1 t2 t3) 0 = mfrob (Mandel [s0; s1; s2; s3]) (Mandel [t0; t1; t2; t3]).
Definition contract_stmt3 : Prop :=
  forall s0 s1 s2 s3 s4 s5 t0 t1 t2 t3 t4 t5 : R,
    nthR (contract3 s0 s1 s2 s3 s4 s5 t0 t1 t2 t3 t4 t5) 0 = mfrob (Mandel [s0; s1; s2; s3; s4; s5]) (Mandel [t0; t1; t2; t3; t4; t5]).

(* change_basis(s,m) is m^T.s.m, for EVERY matrix m (3D), every in-plane m (2D), m = I (1D) *)
Definition change_basis_stmt1 : Prop :=
  forall s0 s1 s2 : R,
    Mandel (change_basis1 s0 s1 s2 1 0 0 0 1 0 0 0 1) = mmul (mtr [1; 0; 0; 0; 1; 0; 0; 0; 1]) (mmul (Mandel [s0; s1; s2]) [1; 0; 0; 0; 1; 0; 0; 0; 1]).
Definition change_basis_stmt2 : Prop :=
  forall s0 s1 s2 s3 m0 m1 m3 m4 : R,
    Mandel (change_basis2 s0 s1 s2 s3 m0 m1 0 m3 m4 0 0 0 1) = mmul (mtr [m0; m1; 0; m3; m4; 0; 0; 0; 1]) (mmul (Mandel [s0; s1; s2; s3]) [m0; m1; 0; m3; m4; 0; 0; 0; 1]).
Definition change_basis_stmt3 : Prop :=
  forall s0 s1 s2 s3 s4 s5 m0 m1 m2 m3 m4 m5 m6 m7 m8 : R,
    Mandel (change_basis3 s0 s1 s2 s3 s4 s5 m0 m1 m2 m3 m4 m5 m6 m7 m8) = mmul (mtr [m0; m1; m2; m3; m4; m5; m6; m7; m8]) (mmul (Mandel [s0; s1; s2; s3; s4; s5]) [m0; m1; m2; m3; m4; m5; m6; m7; m8]).

(* stensor::changeBasis(m), same statement *)
Definition changeBasis_member_stmt1 : Prop :=
  forall s0 s1 s2 : R,
    Mandel (changeBasis_member1 s0 s1 s2 1 0 0 0 1 0 0 0 1) = mmul (mtr [1; 0; 0; 0; 1; 0; 0; 0; 1]) (mmul (Mandel [s0; s1; s2]) [1; 0; 0; 0; 1; 0; 0; 0; 1]).
Definition changeBasis_member_stmt2 : Prop :=
  forall s0 s1 s2 s3 m0 m1 m3 m4 : R,
    Mandel (changeBasis_member2 s0 s1 s2 s3 m0 m1 0 m3 m4 0 0 0 1) = mmul (mtr [m0; m1; 0; m3; m4; 0; 0; 0; 1]) (mmul (Mandel [s0; s1; s2; s3]) [m0; m1; 0; m3; m4; 0; 0; 0; 1]).
Definition changeBasis_member_stmt3 : Prop :=
  forall s0 s1 s2 s3 s4 s5 m0 m1 m2 m3 m4 m5 m6 m7 m8 : R,
    Mandel (changeBasis_member3 s0 s1 s2 s3 s4 s5 m0 m1 m2 m3 m4 m5 m6 m7 m8) = mmul (mtr [m0; m1; m2; m3; m4; m5; m6; m7; m8]) (mmul (Mandel [s0; s1; s2; s3; s4; s5]) [m0; m1; m2; m3; m4; m5; m6; m7; m8]).

(* buildFromMatrix(m) is the symmetric part of m (entries that exist in dimension N) *)
Definition buildFromMatrix_stmt1 : Prop :=
  forall m0 m1 m2 m3 m4 m5 m6 m7 m8 : R,
    Mandel (buildFromMatrix1 m0 m1 m2 m3 m4 m5 m6 m7 m8) = proj 1 (msym [m0; m1; m2; m3; m4; m5; m6; m7; m8]).
Definition buildFromMatrix_stmt2 : Prop :=
  forall m0 m1 m2 m3 m4 m5 m6 m7 m8 : R,
    Mandel (buildFromMatrix2 m0 m1 m2 m3 m4 m5 m6 m7 m8) = proj 2 (msym [m0; m1; m2; m3; m4; m5; m6; m7; m8]).
Definition buildFromMatrix_stmt3 : Prop :=
  forall m0 m1 m2 m3 m4 m5 m6 m7 m8 : R,
    Mandel (buildFromMatrix3 m0 m1 m2 m3 m4 m5 m6 m7 m8) = proj 3 (msym [m0; m1; m2; m3; m4; m5; m6; m7; m8]).

(* buildFromVectorDiadicProduct(u) is u (x) u *)
Definition buildFromVectorDiadicProduct_stmt1 : Prop :=
  forall u0 u1 u2 : R,
    Mandel (buildFromVectorDiadicProduct1 u0 u1 u2) = proj 1 (mouter [u0; u1; u2] [u0; u1; u2]).
Definition buildFromVectorDiadicProduct_stmt2 : Prop :=
  forall u0 u1 u2 : R,
    Mandel (buildFromVectorDiadicProduct2 u0 u1 u2) = proj 2 (mouter [u0; u1; u2] [u0; u1; u2]).
Definition buildFromVectorDiadicProduct_stmt3 : Prop :=
  forall u0 u1 u2 : R,
    Mandel (buildFromVectorDiadicProduct3 u0 u1 u2) = proj 3 (mouter [u0; u1; u2] [u0; u1; u2]).

(* buildFromVectorsSymmetricDiadicProduct(u,v) is u (x) v + v (x) u *)
Definition buildFromVectorsSymmetricDiadicProduct_stmt1 : Prop :=
  forall u0 u1 u2 v0 v1 v2 : R,
    Mandel (buildFromVectorsSymmetricDiadicProduct1 u0 u1 u2 v0 v1 v2) = proj 1 (madd (mouter [u0; u1; u2] [v0; v1; v2]) (mouter [v0; v1; v2] [u0; u1; u2])).
Definition buildFromVectorsSymmetricDiadicProduct_stmt2 : Prop :=
  forall u0 u1 u2 v0 v1 v2 : R,
    Mandel (buildFromVectorsSymmetricDiadicProduct2 u0 u1 u2 v0 v1 v2) = proj 2 (madd (mouter [u0; u1; u2] [v0; v1; v2]) (mouter [v0; v1; v2] [u0; u1; u2])).
Definition buildFromVectorsSymmetricDiadicProduct_stmt3 : Prop :=
  forall u0 u1 u2 v0 v1 v2 : R,
    Mandel (buildFromVectorsSymmetricDiadicProduct3 u0 u1 u2 v0 v1 v2) = proj 3 (madd (mouter [u0; u1; u2] [v0; v1; v2]) (mouter [v0; v1; v2] [u0; u1; u2])).

(* buildFromEigenValuesAndVectors(l,m) is m.diag(l).m^T *)
Definition buildFromEigenValuesAndVectors_stmt1 : Prop :=
  forall l0 l1 l2 : R,
    Mandel (buildFromEigenValuesAndVectors1 l0 l1 l2 1 0 0 0 1 0 0 0 1) = mmul [1; 0; 0; 0; 1; 0; 0; 0; 1] (mmul (mdiag l0 l1 l2) (mtr [1; 0; 0; 0; 1; 0; 0; 0; 1])).
Definition buildFromEigenValuesAndVectors_stmt2 : Prop :=
  forall l0 l1 l2 m0 m1 m3 m4 : R,
    Mandel (buildFromEigenValuesAndVectors2 l0 l1 l2 m0 m1 0 m3 m4 0 0 0 1) = mmul [m0; m1; 0; m3; m4; 0; 0; 0; 1] (mmul (mdiag l0 l1 l2) (mtr [m0; m1; 0; m3; m4; 0; 0; 0; 1])).
Definition buildFromEigenValuesAndVectors_stmt3 : Prop :=
  forall l0 l1 l2 m0 m1 m2 m3 m4 m5 m6 m7 m8 : R,
    Mandel (buildFromEigenValuesAndVectors3 l0 l1 l2 m0 m1 m2 m3 m4 m5 m6 m7 m8) = mmul [m0; m1; m2; m3; m4; m5; m6; m7; m8] (mmul (mdiag l0 l1 l2) (mtr [m0; m1; m2; m3; m4; m5; m6; m7; m8])).

(* importTab reads (s00,s11,s22,s01,s02,s12) *)
Definition importTab_stmt1 : Prop :=
  forall p0 p1 p2 : R,
    Mandel (importTab1 p0 p1 p2) = OfTab [p0; p1; p2].
Definition importTab_stmt2 : Prop :=
  forall p0 p1 p2 p3 : R,
    Mandel (importTab2 p0 p1 p2 p3) = OfTab [p0; p1; p2; p3].
Definition importTab_stmt3 : Prop :=
  forall p0 p1 p2 p3 p4 p5 : R,
    Mandel (importTab3 p0 p1 p2 p3 p4 p5) = OfTab [p0; p1; p2; p3; p4; p5].

(* exportTab writes (s00,s11,s22,s01,s02,s12) *)
Definition exportTab_stmt1 : Prop :=
  forall s0 s1 s2 : R,
    OfTab (exportTab1 s0 s1 s2) = (Mandel [s0; s1; s2]).
Definition exportTab_stmt2 : Prop :=
  forall s0 s1 s2 s3 : R,
    OfTab (exportTab2 s0 s1 s2 s3) = (Mandel [s0; s1; s2; s3]).
Definition exportTab_stmt3 : Prop :=
  forall s0 s1 s2 s3 s4 s5 : R,
    OfTab (exportTab3 s0 s1 s2 s3 s4 s5) = (Mandel [s0; s1; s2; s3; s4; s5]).

(* importVoigt reads (e00,e11,e22,2e01,2e02,2e12) *)
Definition importVoigt_stmt1 : Prop :=
  forall p0 p1 p2 : R,
    Mandel (importVoigt1 p0 p1 p2) = OfVoigt [p0; p1; p2].
Definition importVoigt_stmt2 : Prop :=
  forall p0 p1 p2 p3 : R,
    Mandel (importVoigt2 p0 p1 p2 p3) = OfVoigt [p0; p1; p2; p3].
Definition importVoigt_stmt3 : Prop :=
  forall p0 p1 p2 p3 p4 p5 : R,
    Mandel (importVoigt3 p0 p1 p2 p3 p4 p5) = OfVoigt [p0; p1; p2; p3; p4; p5].

(* import followed by write is the identity *)
Definition import_write_stmt1 : Prop :=
  forall p0 p1 p2 : R,
    (import_write1 p0 p1 p2) = [p0; p1; p2].
Definition import_write_stmt2 : Prop :=
  forall p0 p1 p2 p3 : R,
    (import_write2 p0 p1 p2 p3) = [p0; p1; p2; p3].
Definition import_write_stmt3 : Prop :=
  forall p0 p1 p2 p3 p4 p5 : R,
    (import_write3 p0 p1 p2 p3 p4 p5) = [p0; p1; p2; p3; p4; p5].

(* exportTab after importTab is the identity *)
Definition exportTab_importTab_stmt1 : Prop :=
  forall p0 p1 p2 : R,
    (exportTab_importTab1 p0 p1 p2) = [p0; p1; p2].
Definition exportTab_importTab_stmt2 : Prop :=
  forall p0 p1 p2 p3 : R,
    (exportTab_importTab2 p0 p1 p2 p3) = [p0; p1; p2; p3].
Definition exportTab_importTab_stmt3 : Prop :=
  forall p0 p1 p2 p3 p4 p5 : R,
    (exportTab_importTab3 p0 p1 p2 p3 p4 p5) = [p0; p1; p2; p3; p4; p5].

(* importTab after exportTab is the identity *)
Definition importTab_exportTab_stmt1 : Prop :=
  forall s0 s1 s2 : R,
    (importTab_exportTab1 s0 s1 s2) = [s0; s1; s2].
Definition importTab_exportTab_stmt2 : Prop :=
  forall s0 s1 s2 s3 : R,
    (importTab_exportTab2 s0 s1 s2 s3) = [s0; s1; s2; s3].
Definition importTab_exportTab_stmt3 : Prop :=
  forall s0 s1 s2 s3 s4 s5 : R,
    (importTab_exportTab3 s0 s1 s2 s3 s4 s5) = [s0; s1; s2; s3; s4; s5].

(* getComponent(s,i,j) is the matrix entry (i,j), every admissible (i,j) *)
Definition getComponent_stmt1 : Prop :=
  forall s0 s1 s2 : R,
    (getComponent1 s0 s1 s2) = map (fun ij => ent (Mandel [s0; s1; s2]) (fst ij) (snd ij)) (firstn 3 pairs).
Definition getComponent_stmt2 : Prop :=
  forall s0 s1 s2 s3 : R,
    (getComponent2 s0 s1 s2 s3) = map (fun ij => ent (Mandel [s0; s1; s2; s3]) (fst ij) (snd ij)) (firstn 5 pairs).
Definition getComponent_stmt3 : Prop :=
  forall s0 s1 s2 s3 s4 s5 : R,
    (getComponent3 s0 s1 s2 s3 s4 s5) = map (fun ij => ent (Mandel [s0; s1; s2; s3; s4; s5]) (fst ij) (snd ij)) (firstn 9 pairs).

(* setComponent(s,i,j,x) sets entries (i,j) and (j,i) to x and nothing else, every admissible (i,j) *)
Definition setComponent_stmt1 : Prop :=
  forall s0 s1 s2 x0 : R,
    all_upto 3 (fun k => Mandel (block 3 k (setComponent1 s0 s1 s2 x0)) = mset (Mandel [s0; s1; s2]) (pair_i k) (pair_j k) x0).
Definition setComponent_stmt2 : Prop :=
  forall s0 s1 s2 s3 x0 : R,
    all_upto 5 (fun k => Mandel (block 4 k (setComponent2 s0 s1 s2 s3 x0)) = mset (Mandel [s0; s1; s2; s3]) (pair_i k) (pair_j k) x0).
Definition setComponent_stmt3 : Prop :=
  forall s0 s1 s2 s3 s4 s5 x0 : R,
    all_upto 9 (fun k => Mandel (block 6 k (setComponent3 s0 s1 s2 s3 s4 s5 x0)) = mset (Mandel [s0; s1; s2; s3; s4; s5]) (pair_i k) (pair_j k) x0).

(* getComponent after setComponent returns the value set *)
Definition get_setComponent_stmt1 : Prop :=
  forall s0 s1 s2 x0 : R,
    (get_setComponent1 s0 s1 s2 x0) = repeat x0 3.
Definition get_setComponent_stmt2 : Prop :=
  forall s0 s1 s2 s3 x0 : R,
    (get_setComponent2 s0 s1 s2 s3 x0) = repeat x0 5.
Definition get_setComponent_stmt3 : Prop :=
  forall s0 s1 s2 s3 s4 s5 x0 : R,
    (get_setComponent3 s0 s1 s2 s3 s4 s5 x0) = repeat x0 9.

(* Id() is the identity matrix *)
Definition Id_stmt1 : Prop :=
  Mandel Id1 = mI.
Definition Id_stmt2 : Prop :=
  Mandel Id2 = mI.
Definition Id_stmt3 : Prop :=
  Mandel Id3 = mI.

(* expression templates x*s+t, s-t, -s, s/x are the matrix operations *)
Definition linear_stmt1 : Prop :=
  forall s0 s1 s2 t0 t1 t2 x0 : R,
    Mandel (block 3 0 (linear1 s0 s1 s2 t0 t1 t2 x0)) = madd (mscale x0 (Mandel [s0; s1; s2])) (Mandel [t0; t1; t2]) /\
    Mandel (block 3 1 (linear1 s0 s1 s2 t0 t1 t2 x0)) = msub (Mandel [s0; s1; s2]) (Mandel [t0; t1; t2]) /\
    Mandel (block 3 2 (linear1 s0 s1 s2 t0 t1 t2 x0)) = mopp (Mandel [s0; s1; s2]) /\
    (x0 <> 0 -> Mandel (block 3 3 (linear1 s0 s1 s2 t0 t1 t2 x0)) = mscale (/ x0) (Mandel [s0; s1; s2])).
Definition linear_stmt2 : Prop :=
  forall s0 s1 s2 s3 t0 t1 t2 t3 x0 : R,
    Mandel (block 4 0 (linear2 s0 s1 s2 s3 t0 t1 t2 t3 x0)) = madd (mscale x0 (Mandel [s0; s1; s2; s3])) (Mandel [t0; t1; t2; t3]) /\
    Mandel (block 4 1 (linear2 s0 s1 s2 s3 t0 t1 t2 t3 x0)) = msub (Mandel [s0; s1; s2; s3]) (Mandel [t0; t1; t2; t3]) /\
    Mandel (block 4 2 (linear2 s0 s1 s2 s3 t0 t1 t2 t3 x0)) = mopp (Mandel [s0; s1; s2; s3]) /\
    (x0 <> 0 -> Mandel (block 4 3 (linear2 s0 s1 s2 s3 t0 t1 t2 t3 x0)) = mscale (/ x0) (Mandel [s0; s1; s2; s3])).
Definition linear_stmt3 : Prop :=
  forall s0 s1 s2 s3 s4 s5 t0 t1 t2 t3 t4 t5 x0 : R,
    Mandel (block 6 0 (linear3 s0 s1 s2 s3 s4 s5 t0 t1 t2 t3 t4 t5 x0)) = madd (mscale x0 (Mandel [s0; s1; s2; s3; s4; s5])) (Mandel [t0; t1; t2; t3; t4; t5]) /\
    Mandel (block 6 1 (linear3 s0 s1 s2 s3 s4 s5 t0 t1 t2 t3 t4 t5 x0)) = msub (Mandel [s0; s1; s2; s3; s4; s5]) (Mandel [t0; t1; t2; t3; t4; t5]) /\
    Mandel (block 6 2 (linear3 s0 s1 s2 s3 s4 s5 t0 t1 t2 t3 t4 t5 x0)) = mopp (Mandel [s0; s1; s2; s3; s4; s5]) /\
    (x0 <> 0 -> Mandel (block 6 3 (linear3 s0 s1 s2 s3 s4 s5 t0 t1 t2 t3 t4 t5 x0)) = mscale (/ x0) (Mandel [s0; s1; s2; s3; s4; s5])).

(* convertCorotationnalCauchyStressToSecondPiolaKirchhoffStress(s,U) = det(U) U^-1.s.U^-1 *)
Definition cauchy_to_pk2_stmt1 : Prop :=
  forall s0 s1 s2 t0 t1 t2 : R,
    mdet (Mandel [t0; t1; t2]) <> 0 ->
    mmul (Mandel [t0; t1; t2]) (mmul (Mandel (cauchy_to_pk21 s0 s1 s2 t0 t1 t2)) (Mandel [t0; t1; t2])) = mscale (mdet (Mandel [t0; t1; t2])) (Mandel [s0; s1; s2]).
Definition cauchy_to_pk2_stmt2 : Prop :=
  forall s0 s1 s2 s3 t0 t1 t2 t3 : R,
    mdet (Mandel [t0; t1; t2; t3]) <> 0 ->
    mmul (Mandel [t0; t1; t2; t3]) (mmul (Mandel (cauchy_to_pk22 s0 s1 s2 s3 t0 t1 t2 t3)) (Mandel [t0; t1; t2; t3])) = mscale (mdet (Mandel [t0; t1; t2; t3])) (Mandel [s0; s1; s2; s3]).
Definition cauchy_to_pk2_stmt3 : Prop :=
  forall s0 s1 s2 s3 s4 s5 t0 t1 t2 t3 t4 t5 : R,
    mdet (Mandel [t0; t1; t2; t3; t4; t5]) <> 0 ->
    mmul (Mandel [t0; t1; t2; t3; t4; t5]) (mmul (Mandel (cauchy_to_pk23 s0 s1 s2 s3 s4 s5 t0 t1 t2 t3 t4 t5)) (Mandel [t0; t1; t2; t3; t4; t5])) = mscale (mdet (Mandel [t0; t1; t2; t3; t4; t5])) (Mandel [s0; s1; s2; s3; s4; s5]).

(* convertSecondPiolaKirchhoffStressToCorotationnalCauchyStress(S,U) = U.S.U/det(U) *)
Definition pk2_to_cauchy_stmt1 : Prop :=
  forall s0 s1 s2 t0 t1 t2 : R,
    mdet (Mandel [t0; t1; t2]) <> 0 ->
    mscale (mdet (Mandel [t0; t1; t2])) (Mandel (pk2_to_cauchy1 s0 s1 s2 t0 t1 t2)) = mmul (Mandel [t0; t1; t2]) (mmul (Mandel [s0; s1; s2]) (Mandel [t0; t1; t2])).
Definition pk2_to_cauchy_stmt2 : Prop :=
  forall s0 s1 s2 s3 t0 t1 t2 t3 : R,
    mdet (Mandel [t0; t1; t2; t3]) <> 0 ->
    mscale (mdet (Mandel [t0; t1; t2; t3])) (Mandel (pk2_to_cauchy2 s0 s1 s2 s3 t0 t1 t2 t3)) = mmul (Mandel [t0; t1; t2; t3]) (mmul (Mandel [s0; s1; s2; s3]) (Mandel [t0; t1; t2; t3])).
Definition pk2_to_cauchy_stmt3 : Prop :=
  forall s0 s1 s2 s3 s4 s5 t0 t1 t2 t3 t4 t5 : R,
    mdet (Mandel [t0; t1; t2; t3; t4; t5]) <> 0 ->
    mscale (mdet (Mandel [t0; t1; t2; t3; t4; t5])) (Mandel (pk2_to_cauchy3 s0 s1 s2 s3 s4 s5 t0 t1 t2 t3 t4 t5)) = mmul (Mandel [t0; t1; t2; t3; t4; t5]) (mmul (Mandel [s0; s1; s2; s3; s4; s5]) (Mandel [t0; t1; t2; t3; t4; t5])).

(* the two stress conversions are mutually inverse *)
Definition pk2_cauchy_roundtrip_stmt1 : Prop :=
  forall s0 s1 s2 t0 t1 t2 : R,
    mdet (Mandel [t0; t1; t2]) <> 0 -> (pk2_cauchy_roundtrip1 s0 s1 s2 t0 t1 t2) = [s0; s1; s2].
Definition pk2_cauchy_roundtrip_stmt2 : Prop :=
  forall s0 s1 s2 s3 t0 t1 t2 t3 : R,
    mdet (Mandel [t0; t1; t2; t3]) <> 0 -> (pk2_cauchy_roundtrip2 s0 s1 s2 s3 t0 t1 t2 t3) = [s0; s1; s2; s3].
Definition pk2_cauchy_roundtrip_stmt3 : Prop :=
  forall s0 s1 s2 s3 s4 s5 t0 t1 t2 t3 t4 t5 : R,
    mdet (Mandel [t0; t1; t2; t3; t4; t5]) <> 0 -> (pk2_cauchy_roundtrip3 s0 s1 s2 s3 s4 s5 t0 t1 t2 t3 t4 t5) = [s0; s1; s2; s3; s4; s5].

(* C01 -- tactics, independent of the shape of the traced terms *)
From Coq Require Import Reals List Lra Nsatz.
From VLib Require Import RealExtra.
From C01 Require Import C01Spec.
Import ListNotations.
Local Open Scope R_scope.

(* unfold the specification down to arithmetic on the components *)
Ltac unf :=
  cbv [Mandel OfTab OfVoigt OfTensor comp ent mk3 mI mmul mtr madd msub mopp mscale mtrace mdet mfrob mdiag vcomp
       mouter msym mdev mvonmises mset proj exists_in block pairs pair_i pair_j all_upto fst snd
       List.nth List.firstn List.skipn List.map List.repeat Nat.mul Nat.add Nat.eqb Nat.ltb Nat.leb orb andb nthR].
Ltac list_eq := repeat (apply (f_equal2 (@cons R)); [ | ]); try reflexivity.

(* from E : e = 0 (e polynomial in the variables and sqrt 2) conclude that a rational expression vanishes:
   ideal membership modulo (sqrt 2)^2 = 2, found by nsatz *)
Ltac vanish E :=
  field_simplify_eq; [ | try exact sqrt2_neq0 .. ];
  revert E; generalize sqrt2_sq; generalize (sqrt 2);
  let q := fresh "q" in let Hq := fresh "Hq" in intros q Hq E; cbv [Rpow_def.pow] in *; timeout 120 nsatz.
(* side conditions of field: sqrt 2 <> 0, numerals, or a denominator that vanishes only if a hypothesis
   "<spec expression> <> 0" is violated *)
Ltac nz1 :=
  first [ exact sqrt2_neq0 | assumption | lra
        | match goal with H : _ <> 0 |- _ <> 0 => (let E := fresh "E" in intro E; apply H; unf; vanish E) end ].
Ltac nz := repeat split; nz1.
Ltac alg0 := timeout 300 (field_simplify_eq; [ ring [sqrt2_sq] | nz .. ]).
(* an identity between two values, or between the square roots of two values *)
Ltac alg := first [ reflexivity | alg0 | (match goal with |- sqrt _ = sqrt _ => apply (f_equal sqrt) end; alg0) ].
Ltac mat := unf; repeat split; intros; list_eq; alg.

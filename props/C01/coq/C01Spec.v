(* C01 -- specification, written independently of the code: the 3x3 matrix meaning of symmetric tensors
   (Mandel map) and ordinary 3x3 matrix operations. *)
From Coq Require Import Reals List.
Import ListNotations.
Local Open Scope R_scope.

(* 3x3 matrices: nine reals, row major *)
Definition M3 := list R.
Definition ent (A : M3) (i j : nat) : R := nth (3 * i + j) A 0.
Definition mk3 (f : nat -> nat -> R) : M3 :=
  [f 0 0; f 0 1; f 0 2; f 1 0; f 1 1; f 1 2; f 2 0; f 2 1; f 2 2]%nat.

Definition mI : M3 := [1; 0; 0; 0; 1; 0; 0; 0; 1].
Definition mmul (A B : M3) : M3 :=
  mk3 (fun i j => ent A i 0 * ent B 0 j + ent A i 1 * ent B 1 j + ent A i 2 * ent B 2 j).
Definition mtr (A : M3) : M3 := mk3 (fun i j => ent A j i).
Definition madd (A B : M3) : M3 := mk3 (fun i j => ent A i j + ent B i j).
Definition msub (A B : M3) : M3 := mk3 (fun i j => ent A i j - ent B i j).
Definition mopp (A : M3) : M3 := mk3 (fun i j => - ent A i j).
Definition mscale (k : R) (A : M3) : M3 := mk3 (fun i j => k * ent A i j).
Definition mtrace (A : M3) : R := ent A 0 0 + ent A 1 1 + ent A 2 2.
Definition mdet (A : M3) : R :=
    ent A 0 0 * (ent A 1 1 * ent A 2 2 - ent A 1 2 * ent A 2 1)
  - ent A 0 1 * (ent A 1 0 * ent A 2 2 - ent A 1 2 * ent A 2 0)
  + ent A 0 2 * (ent A 1 0 * ent A 2 1 - ent A 1 1 * ent A 2 0).
(* Frobenius inner product A : B = sum_ij A_ij B_ij *)
Definition mfrob (A B : M3) : R :=
    ent A 0 0 * ent B 0 0 + ent A 0 1 * ent B 0 1 + ent A 0 2 * ent B 0 2
  + ent A 1 0 * ent B 1 0 + ent A 1 1 * ent B 1 1 + ent A 1 2 * ent B 1 2
  + ent A 2 0 * ent B 2 0 + ent A 2 1 * ent B 2 1 + ent A 2 2 * ent B 2 2.
Definition mdiag (a b c : R) : M3 := [a; 0; 0; 0; b; 0; 0; 0; c].
(* u (x) v for column vectors given as lists of three reals *)
Definition vcomp (u : list R) (i : nat) : R := nth i u 0.
Definition mouter (u v : list R) : M3 := mk3 (fun i j => vcomp u i * vcomp v j).
Definition msym (A : M3) : M3 := mscale (1 / 2) (madd A (mtr A)).
Definition mdev (A : M3) : M3 := msub A (mscale (mtrace A / 3) mI).
(* von Mises norm of a matrix *)
Definition mvonmises (A : M3) : R := sqrt (3 / 2 * mfrob (mdev A) (mdev A)).
(* set entries (i,j) and (j,i) *)
Definition mset (A : M3) (i j : nat) (x : R) : M3 :=
  mk3 (fun a b => if orb (andb (Nat.eqb a i) (Nat.eqb b j)) (andb (Nat.eqb a j) (Nat.eqb b i)) then x else ent A a b).

(* The matrix a tensor of space dimension N can represent: in 1D only the diagonal, in 2D the in-plane block and
   the zz entry, in 3D everything.  proj N A is A with the entries that do not exist in dimension N set to 0. *)
Definition exists_in (N i j : nat) : bool :=
  match N with
  | 1%nat => Nat.eqb i j
  | 2%nat => orb (Nat.eqb i j) (andb (Nat.ltb i 2) (Nat.ltb j 2))
  | _ => true
  end.
Definition proj (N : nat) (A : M3) : M3 := mk3 (fun i j => if exists_in N i j then ent A i j else 0).

(* ---- the meaning of the storage formats ---- *)
Definition comp (s : list R) (k : nat) : R := nth k s 0.

(* Mandel: symmetric tensor components (s_00, s_11, s_22, sqrt2 s_01, sqrt2 s_02, sqrt2 s_12); tensors of dimension
   1 (3 components) and 2 (4 components) are the same with the missing components equal to zero *)
Definition Mandel (s : list R) : M3 :=
  [comp s 0;          comp s 3 / sqrt 2; comp s 4 / sqrt 2;
   comp s 3 / sqrt 2; comp s 1;          comp s 5 / sqrt 2;
   comp s 4 / sqrt 2; comp s 5 / sqrt 2; comp s 2].

(* "Tab" (stress Voigt) array: (s_00, s_11, s_22, s_01, s_02, s_12) *)
Definition OfTab (p : list R) : M3 :=
  [comp p 0; comp p 3; comp p 4;
   comp p 3; comp p 1; comp p 5;
   comp p 4; comp p 5; comp p 2].
(* strain Voigt array: (e_00, e_11, e_22, 2 e_01, 2 e_02, 2 e_12) *)
Definition OfVoigt (p : list R) : M3 :=
  [comp p 0;     comp p 3 / 2; comp p 4 / 2;
   comp p 3 / 2; comp p 1;     comp p 5 / 2;
   comp p 4 / 2; comp p 5 / 2; comp p 2].
(* unsymmetric tensor storage: (00, 11, 22, 01, 10, 02, 20, 12, 21) *)
Definition OfTensor (t : list R) : M3 :=
  [comp t 0; comp t 3; comp t 5;
   comp t 4; comp t 1; comp t 7;
   comp t 6; comp t 8; comp t 2].

(* k-th block of n entries of a concatenated output *)
Definition block (n k : nat) (l : list R) : list R := firstn n (skipn (k * n) l).


(* the (i,j) index pairs in the order of the unsymmetric tensor storage; dimension 1 uses the first 3, 2 the first 5 *)
Definition pairs : list (nat * nat) := [(0,0); (1,1); (2,2); (0,1); (1,0); (0,2); (2,0); (1,2); (2,1)]%nat.
Definition pair_i (k : nat) : nat := fst (nth k pairs (0, 0)%nat).
Definition pair_j (k : nat) : nat := snd (nth k pairs (0, 0)%nat).
Fixpoint all_upto (n : nat) (P : nat -> Prop) : Prop :=
  match n with O => True | S k => all_upto k P /\ P k end.

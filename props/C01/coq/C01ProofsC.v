(* C01 -- proofs; every proof is `unfold the traced definition; mat` (C01Tactics.v), nothing depends on the
   shape of the traced terms. *)
From Coq Require Import Reals List.
From VLib Require Import RealExtra.
From Coq Require Import Lra.
From C01 Require Import C01Spec C01_gen C01Tactics C01Statements.
Import ListNotations.
Local Open Scope R_scope.

Lemma pk2_to_cauchy_ok1 : pk2_to_cauchy_stmt1.
Proof. unfold pk2_to_cauchy_stmt1, pk2_to_cauchy1. intros. mat. Qed.
Lemma pk2_to_cauchy_ok2 : pk2_to_cauchy_stmt2.
Proof. unfold pk2_to_cauchy_stmt2, pk2_to_cauchy2. intros. mat. Qed.
Lemma pk2_to_cauchy_ok3 : pk2_to_cauchy_stmt3.
Proof. unfold pk2_to_cauchy_stmt3, pk2_to_cauchy3. intros. mat. Qed.
Lemma pk2_cauchy_roundtrip_ok1 : pk2_cauchy_roundtrip_stmt1.
Proof. unfold pk2_cauchy_roundtrip_stmt1, pk2_cauchy_roundtrip1. intros. mat. Qed.
Lemma pk2_cauchy_roundtrip_ok2 : pk2_cauchy_roundtrip_stmt2.
Proof. unfold pk2_cauchy_roundtrip_stmt2, pk2_cauchy_roundtrip2. intros. mat. Qed.
Lemma pk2_cauchy_roundtrip_ok3 : pk2_cauchy_roundtrip_stmt3.
Proof. unfold pk2_cauchy_roundtrip_stmt3, pk2_cauchy_roundtrip3. intros. mat. Qed.

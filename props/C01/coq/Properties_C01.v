(* C01 -- property theorems (statements are in C01Statements.v / C01Spec.v; proofs in C01Proofs.v) *)
From Coq Require Import Reals List.
From VLib Require Import RealExtra.
From C01 Require Import C01Spec C01_gen C01Statements C01Proofs.
Import ListNotations.
Local Open Scope R_scope.


(* trace(s) is the trace of the matrix *)
Theorem C01_trace : trace_stmt1 /\ trace_stmt2 /\ trace_stmt3.
Proof. exact (conj trace_ok1 (conj trace_ok2 trace_ok3)). Qed.
Print Assumptions C01_trace.

(* det(s) is the determinant of the matrix *)
Theorem C01_det : det_stmt1 /\ det_stmt2 /\ det_stmt3.
Proof. exact (conj det_ok1 (conj det_ok2 det_ok3)). Qed.
Print Assumptions C01_det.

(* invert(s) is a two-sided inverse of the matrix whenever the matrix is invertible *)
Theorem C01_invert : invert_stmt1 /\ invert_stmt2 /\ invert_stmt3.
Proof. exact (conj invert_ok1 (conj invert_ok2 invert_ok3)). Qed.
Print Assumptions C01_invert.

(* square(s) is the matrix product s.s *)
Theorem C01_square : square_stmt1 /\ square_stmt2 /\ square_stmt3.
Proof. exact (conj square_ok1 (conj square_ok2 square_ok3)). Qed.
Print Assumptions C01_square.

(* symmetric_product(s,t) is (s.t + t.s)/2 *)
Theorem C01_symmetric_product : symmetric_product_stmt1 /\ symmetric_product_stmt2 /\ symmetric_product_stmt3.
Proof. exact (conj symmetric_product_ok1 (conj symmetric_product_ok2 symmetric_product_ok3)). Qed.
Print Assumptions C01_symmetric_product.

(* symmetric_product_aba(s,t) is s.t.s *)
Theorem C01_symmetric_product_aba : symmetric_product_aba_stmt1 /\ symmetric_product_aba_stmt2 /\ symmetric_product_aba_stmt3.
Proof. exact (conj symmetric_product_aba_ok1 (conj symmetric_product_aba_ok2 symmetric_product_aba_ok3)). Qed.
Print Assumptions C01_symmetric_product_aba.

(* s*t (StensorProductExpr, an unsymmetric tensor) is the matrix product *)
Theorem C01_product : product_stmt1 /\ product_stmt2 /\ product_stmt3.
Proof. exact (conj product_ok1 (conj product_ok2 product_ok3)). Qed.
Print Assumptions C01_product.

(* deviator(s) is s - tr(s)/3 I *)
Theorem C01_deviator : deviator_stmt1 /\ deviator_stmt2 /\ deviator_stmt3.
Proof. exact (conj deviator_ok1 (conj deviator_ok2 deviator_ok3)). Qed.
Print Assumptions C01_deviator.

(* sigmaeq(s) is sqrt(3/2 dev(s):dev(s)) *)
Theorem C01_sigmaeq : sigmaeq_stmt1 /\ sigmaeq_stmt2 /\ sigmaeq_stmt3.
Proof. exact (conj sigmaeq_ok1 (conj sigmaeq_ok2 sigmaeq_ok3)). Qed.
Print Assumptions C01_sigmaeq.

(* s|t is the Frobenius inner product sum_ij s_ij t_ij (Mandel scaling is consistent) *)
Theorem C01_contract : contract_stmt1 /\ contract_stmt2 /\ contract_stmt3.
Proof. exact (conj contract_ok1 (conj contract_ok2 contract_ok3)). Qed.
Print Assumptions C01_contract.

(* change_basis(s,m) is m^T.s.m, for EVERY matrix m (3D), every in-plane m (2D), m = I (1D) *)
Theorem C01_change_basis : change_basis_stmt1 /\ change_basis_stmt2 /\ change_basis_stmt3.
Proof. exact (conj change_basis_ok1 (conj change_basis_ok2 change_basis_ok3)). Qed.
Print Assumptions C01_change_basis.

(* stensor::changeBasis(m), same statement *)
Theorem C01_changeBasis_member : changeBasis_member_stmt1 /\ changeBasis_member_stmt2 /\ changeBasis_member_stmt3.
Proof. exact (conj changeBasis_member_ok1 (conj changeBasis_member_ok2 changeBasis_member_ok3)). Qed.
Print Assumptions C01_changeBasis_member.

(* buildFromMatrix(m) is the symmetric part of m (entries that exist in dimension N) *)
Theorem C01_buildFromMatrix : buildFromMatrix_stmt1 /\ buildFromMatrix_stmt2 /\ buildFromMatrix_stmt3.
Proof. exact (conj buildFromMatrix_ok1 (conj buildFromMatrix_ok2 buildFromMatrix_ok3)). Qed.
Print Assumptions C01_buildFromMatrix.

(* buildFromVectorDiadicProduct(u) is u (x) u *)
Theorem C01_buildFromVectorDiadicProduct : buildFromVectorDiadicProduct_stmt1 /\ buildFromVectorDiadicProduct_stmt2 /\ buildFromVectorDiadicProduct_stmt3.
Proof. exact (conj buildFromVectorDiadicProduct_ok1 (conj buildFromVectorDiadicProduct_ok2 buildFromVectorDiadicProduct_ok3)). Qed.
Print Assumptions C01_buildFromVectorDiadicProduct.

(* buildFromVectorsSymmetricDiadicProduct(u,v) is u (x) v + v (x) u *)
Theorem C01_buildFromVectorsSymmetricDiadicProduct : buildFromVectorsSymmetricDiadicProduct_stmt1 /\ buildFromVectorsSymmetricDiadicProduct_stmt2 /\ buildFromVectorsSymmetricDiadicProduct_stmt3.
Proof. exact (conj buildFromVectorsSymmetricDiadicProduct_ok1 (conj buildFromVectorsSymmetricDiadicProduct_ok2 buildFromVectorsSymmetricDiadicProduct_ok3)). Qed.
Print Assumptions C01_buildFromVectorsSymmetricDiadicProduct.

(* buildFromEigenValuesAndVectors(l,m) is m.diag(l).m^T *)
Theorem C01_buildFromEigenValuesAndVectors : buildFromEigenValuesAndVectors_stmt1 /\ buildFromEigenValuesAndVectors_stmt2 /\ buildFromEigenValuesAndVectors_stmt3.
Proof. exact (conj buildFromEigenValuesAndVectors_ok1 (conj buildFromEigenValuesAndVectors_ok2 buildFromEigenValuesAndVectors_ok3)). Qed.
Print Assumptions C01_buildFromEigenValuesAndVectors.

(* importTab reads (s00,s11,s22,s01,s02,s12) *)
Theorem C01_importTab : importTab_stmt1 /\ importTab_stmt2 /\ importTab_stmt3.
Proof. exact (conj importTab_ok1 (conj importTab_ok2 importTab_ok3)). Qed.
Print Assumptions C01_importTab.

(* exportTab writes (s00,s11,s22,s01,s02,s12) *)
Theorem C01_exportTab : exportTab_stmt1 /\ exportTab_stmt2 /\ exportTab_stmt3.
Proof. exact (conj exportTab_ok1 (conj exportTab_ok2 exportTab_ok3)). Qed.
Print Assumptions C01_exportTab.

(* importVoigt reads (e00,e11,e22,2e01,2e02,2e12) *)
Theorem C01_importVoigt : importVoigt_stmt1 /\ importVoigt_stmt2 /\ importVoigt_stmt3.
Proof. exact (conj importVoigt_ok1 (conj importVoigt_ok2 importVoigt_ok3)). Qed.
Print Assumptions C01_importVoigt.

(* import followed by write is the identity *)
Theorem C01_import_write : import_write_stmt1 /\ import_write_stmt2 /\ import_write_stmt3.
Proof. exact (conj import_write_ok1 (conj import_write_ok2 import_write_ok3)). Qed.
Print Assumptions C01_import_write.

(* exportTab after importTab is the identity *)
Theorem C01_exportTab_importTab : exportTab_importTab_stmt1 /\ exportTab_importTab_stmt2 /\ exportTab_importTab_stmt3.
Proof. exact (conj exportTab_importTab_ok1 (conj exportTab_importTab_ok2 exportTab_importTab_ok3)). Qed.
Print Assumptions C01_exportTab_importTab.

(* importTab after exportTab is the identity *)
Theorem C01_importTab_exportTab : importTab_exportTab_stmt1 /\ importTab_exportTab_stmt2 /\ importTab_exportTab_stmt3.
Proof. exact (conj importTab_exportTab_ok1 (conj importTab_exportTab_ok2 importTab_exportTab_ok3)). Qed.
Print Assumptions C01_importTab_exportTab.

(* getComponent(s,i,j) is the matrix entry (i,j), every admissible (i,j) *)
Theorem C01_getComponent : getComponent_stmt1 /\ getComponent_stmt2 /\ getComponent_stmt3.
Proof. exact (conj getComponent_ok1 (conj getComponent_ok2 getComponent_ok3)). Qed.
Print Assumptions C01_getComponent.

(* setComponent(s,i,j,x) sets entries (i,j) and (j,i) to x and nothing else, every admissible (i,j) *)
Theorem C01_setComponent : setComponent_stmt1 /\ setComponent_stmt2 /\ setComponent_stmt3.
Proof. exact (conj setComponent_ok1 (conj setComponent_ok2 setComponent_ok3)). Qed.
Print Assumptions C01_setComponent.

(* getComponent after setComponent returns the value set *)
Theorem C01_get_setComponent : get_setComponent_stmt1 /\ get_setComponent_stmt2 /\ get_setComponent_stmt3.
Proof. exact (conj get_setComponent_ok1 (conj get_setComponent_ok2 get_setComponent_ok3)). Qed.
Print Assumptions C01_get_setComponent.

(* Id() is the identity matrix *)
Theorem C01_Id : Id_stmt1 /\ Id_stmt2 /\ Id_stmt3.
Proof. exact (conj Id_ok1 (conj Id_ok2 Id_ok3)). Qed.
Print Assumptions C01_Id.

(* expression templates x*s+t, s-t, -s, s/x are the matrix operations *)
Theorem C01_linear : linear_stmt1 /\ linear_stmt2 /\ linear_stmt3.
Proof. exact (conj linear_ok1 (conj linear_ok2 linear_ok3)). Qed.
Print Assumptions C01_linear.

(* C01 -- property theorems (statements are in C01Statements.v / C01Spec.v; proofs in C01ProofsB.v) *)
From Coq Require Import Reals List.
From VLib Require Import RealExtra.
From C01 Require Import C01Spec C01_gen C01Statements C01ProofsB.
Import ListNotations.
Local Open Scope R_scope.


(* convertCorotationnalCauchyStressToSecondPiolaKirchhoffStress(s,U) = det(U) U^-1.s.U^-1 *)
Theorem C01_cauchy_to_pk2 : cauchy_to_pk2_stmt1 /\ cauchy_to_pk2_stmt2 /\ cauchy_to_pk2_stmt3.
Proof. exact (conj cauchy_to_pk2_ok1 (conj cauchy_to_pk2_ok2 cauchy_to_pk2_ok3)). Qed.
Print Assumptions C01_cauchy_to_pk2.

#!/usr/bin/env python3
"""Development helper (not used by check.py): writes coq/C01Statements.v, coq/C01Proofs.v, coq/Properties_C01.v.
The statements are the same sentence for N = 1, 2, 3; this script only spares typing them three times.
Run it after editing, the outputs are committed."""
import os
here = os.path.dirname(os.path.abspath(__file__))
NC = {1: 3, 2: 4, 3: 6}
NP = {1: 3, 2: 5, 3: 9}


def vs(p, k):
    return ["%s%d" % (p, i) for i in range(k)]


def L(xs):
    return "[" + "; ".join(xs) + "]"


def blockm(N):
    """matrix arguments for operations whose matrix meaning needs the block form of dimension N"""
    if N == 3:
        return vs("m", 9)
    if N == 2:
        return ["m0", "m1", "0", "m3", "m4", "0", "0", "0", "1"]
    return ["1", "0", "0", "0", "1", "0", "0", "0", "1"]


# op -> (title, function N -> (binders, statement))
def stmts(N):
    n = NC[N]
    s, t, p = vs("s", n), vs("t", n), vs("p", n)
    m, u, v, l = vs("m", 9), vs("u", 3), vs("v", 3), vs("l", 3)
    S, T, P, M, U, V = L(s), L(t), L(p), L(m), L(u), L(v)
    A, B = "(Mandel %s)" % S, "(Mandel %s)" % T
    bm = blockm(N)
    BM = L(bm)
    bmv = [x for x in bm if x.startswith("m")]
    a = lambda *groups: " ".join(x for g in groups for x in g)
    call = lambda f, *groups: "(%s%d %s)" % (f, N, a(*groups))
    out = {}
    out["trace"] = (s, "nthR %s 0 = mtrace %s" % (call("trace", s), A))
    out["det"] = (s, "nthR %s 0 = mdet %s" % (call("det", s), A))
    out["invert"] = (s, "mdet %s <> 0 ->\n    mmul (Mandel %s) %s = mI /\\ mmul %s (Mandel %s) = mI" % (
        A, call("invert", s), A, A, call("invert", s)))
    out["square"] = (s, "Mandel %s = mmul %s %s" % (call("square", s), A, A))
    out["symmetric_product"] = (s + t, "Mandel %s = mscale (1 / 2) (madd (mmul %s %s) (mmul %s %s))" % (
        call("symmetric_product", s, t), A, B, B, A))
    out["symmetric_product_aba"] = (s + t, "Mandel %s = mmul %s (mmul %s %s)" % (call("symmetric_product_aba", s, t), A, B, A))
    out["product"] = (s + t, "OfTensor %s = mmul %s %s" % (call("product", s, t), A, B))
    out["deviator"] = (s, "Mandel %s = mdev %s" % (call("deviator", s), A))
    out["sigmaeq"] = (s, "nthR %s 0 = mvonmises %s" % (call("sigmaeq", s), A))
    out["contract"] = (s + t, "nthR %s 0 = mfrob %s %s" % (call("contract", s, t), A, B))
    for f in ("change_basis", "changeBasis_member"):
        out[f] = (s + bmv, "Mandel %s = mmul (mtr %s) (mmul %s %s)" % (call(f, s, bm), BM, A, BM))
    out["buildFromMatrix"] = (m, "Mandel %s = proj %d (msym %s)" % (call("buildFromMatrix", m), N, M))
    out["buildFromVectorDiadicProduct"] = (u, "Mandel %s = proj %d (mouter %s %s)" % (call("buildFromVectorDiadicProduct", u), N, U, U))
    out["buildFromVectorsSymmetricDiadicProduct"] = (u + v, "Mandel %s = proj %d (madd (mouter %s %s) (mouter %s %s))" % (
        call("buildFromVectorsSymmetricDiadicProduct", u, v), N, U, V, V, U))
    out["buildFromEigenValuesAndVectors"] = (l + bmv, "Mandel %s = mmul %s (mmul (mdiag l0 l1 l2) (mtr %s))" % (
        call("buildFromEigenValuesAndVectors", l, bm), BM, BM))
    out["importTab"] = (p, "Mandel %s = OfTab %s" % (call("importTab", p), P))
    out["exportTab"] = (s, "OfTab %s = %s" % (call("exportTab", s), A))
    out["importVoigt"] = (p, "Mandel %s = OfVoigt %s" % (call("importVoigt", p), P))
    out["import_write"] = (p, "%s = %s" % (call("import_write", p), P))
    out["exportTab_importTab"] = (p, "%s = %s" % (call("exportTab_importTab", p), P))
    out["importTab_exportTab"] = (s, "%s = %s" % (call("importTab_exportTab", s), S))
    out["getComponent"] = (s, "%s = map (fun ij => ent %s (fst ij) (snd ij)) (firstn %d pairs)" % (call("getComponent", s), A, NP[N]))
    out["setComponent"] = (s + ["x0"], "all_upto %d (fun k => Mandel (block %d k %s) = mset %s (pair_i k) (pair_j k) x0)" % (
        NP[N], n, call("setComponent", s, ["x0"]), A))
    out["get_setComponent"] = (s + ["x0"], "%s = repeat x0 %d" % (call("get_setComponent", s, ["x0"]), NP[N]))
    out["Id"] = ([], "Mandel Id%d = mI" % N)
    o = call("linear", s, t, ["x0"])
    out["linear"] = (s + t + ["x0"], ("Mandel (block %d 0 %s) = madd (mscale x0 %s) %s /\\\n    Mandel (block %d 1 %s) = msub %s %s /\\\n"
                                      "    Mandel (block %d 2 %s) = mopp %s /\\\n    (x0 <> 0 -> Mandel (block %d 3 %s) = mscale (/ x0) %s)") % (
        n, o, A, B, n, o, A, B, n, o, A, n, o, A))
    out["cauchy_to_pk2"] = (s + t, "mdet %s <> 0 ->\n    mmul %s (mmul (Mandel %s) %s) = mscale (mdet %s) %s" % (
        B, B, call("cauchy_to_pk2", s, t), B, B, A))
    out["pk2_to_cauchy"] = (s + t, "mdet %s <> 0 ->\n    mscale (mdet %s) (Mandel %s) = mmul %s (mmul %s %s)" % (
        B, B, call("pk2_to_cauchy", s, t), B, A, B))
    out["pk2_cauchy_roundtrip"] = (s + t, "mdet %s <> 0 -> %s = %s" % (B, call("pk2_cauchy_roundtrip", s, t), S))
    return out


TITLES = {
    "trace": "trace(s) is the trace of the matrix",
    "det": "det(s) is the determinant of the matrix",
    "invert": "invert(s) is a two-sided inverse of the matrix whenever the matrix is invertible",
    "square": "square(s) is the matrix product s.s",
    "symmetric_product": "symmetric_product(s,t) is (s.t + t.s)/2",
    "symmetric_product_aba": "symmetric_product_aba(s,t) is s.t.s",
    "product": "s*t (StensorProductExpr, an unsymmetric tensor) is the matrix product",
    "deviator": "deviator(s) is s - tr(s)/3 I",
    "sigmaeq": "sigmaeq(s) is sqrt(3/2 dev(s):dev(s))",
    "contract": "s|t is the Frobenius inner product sum_ij s_ij t_ij (Mandel scaling is consistent)",
    "change_basis": "change_basis(s,m) is m^T.s.m, for EVERY matrix m (3D), every in-plane m (2D), m = I (1D)",
    "changeBasis_member": "stensor::changeBasis(m), same statement",
    "buildFromMatrix": "buildFromMatrix(m) is the symmetric part of m (entries that exist in dimension N)",
    "buildFromVectorDiadicProduct": "buildFromVectorDiadicProduct(u) is u (x) u",
    "buildFromVectorsSymmetricDiadicProduct": "buildFromVectorsSymmetricDiadicProduct(u,v) is u (x) v + v (x) u",
    "buildFromEigenValuesAndVectors": "buildFromEigenValuesAndVectors(l,m) is m.diag(l).m^T",
    "importTab": "importTab reads (s00,s11,s22,s01,s02,s12)",
    "exportTab": "exportTab writes (s00,s11,s22,s01,s02,s12)",
    "importVoigt": "importVoigt reads (e00,e11,e22,2e01,2e02,2e12)",
    "import_write": "import followed by write is the identity",
    "exportTab_importTab": "exportTab after importTab is the identity",
    "importTab_exportTab": "importTab after exportTab is the identity",
    "getComponent": "getComponent(s,i,j) is the matrix entry (i,j), every admissible (i,j)",
    "setComponent": "setComponent(s,i,j,x) sets entries (i,j) and (j,i) to x and nothing else, every admissible (i,j)",
    "get_setComponent": "getComponent after setComponent returns the value set",
    "Id": "Id() is the identity matrix",
    "linear": "expression templates x*s+t, s-t, -s, s/x are the matrix operations",
    "cauchy_to_pk2": "convertCorotationnalCauchyStressToSecondPiolaKirchhoffStress(s,U) = det(U) U^-1.s.U^-1",
    "pk2_to_cauchy": "convertSecondPiolaKirchhoffStressToCorotationnalCauchyStress(S,U) = U.S.U/det(U)",
    "pk2_cauchy_roundtrip": "the two stress conversions are mutually inverse",
}
ORDER = list(TITLES.keys())

HDR = "From Coq Require Import Reals List.\nFrom VLib Require Import RealExtra.\n"


def main():
    st = ["(* C01 -- the statements, one sentence per operation and space dimension (written by mkcoq.py, committed).\n"
          "   <op>N is the definition regenerated from /repo's stensor<N,T> code by the tracer (C01_gen.v). *)\n" + HDR +
          "From C01 Require Import C01Spec C01_gen.\nImport ListNotations.\nLocal Open Scope R_scope.\n"]
    prh = ("(* C01 -- proofs; every proof is `unfold the traced definition; mat` (C01Tactics.v), nothing depends on the\n"
           "   shape of the traced terms. *)\n" + HDR +
           "From Coq Require Import Lra.\nFrom C01 Require Import C01Spec C01_gen C01Tactics C01Statements.\nImport ListNotations.\nLocal Open Scope R_scope.\n")
    pph = ("(* C01 -- property theorems (statements are in C01Statements.v / C01Spec.v; proofs in %s) *)\n" + HDR +
           "From C01 Require Import C01Spec C01_gen C01Statements %s.\nImport ListNotations.\nLocal Open Scope R_scope.\n")
    # three files compiled side by side (the stress conversions are the expensive field identities)
    GROUP = {"cauchy_to_pk2": "b", "pk2_to_cauchy": "c", "pk2_cauchy_roundtrip": "c"}
    pr = {"": [prh], "b": [prh], "c": [prh]}
    pp = {g: [pph % ("C01Proofs%s.v" % g.upper(), "C01Proofs%s" % g.upper())] for g in pr}
    all_ = {N: stmts(N) for N in (1, 2, 3)}
    for op in ORDER:
        g = GROUP.get(op, "")
        st.append("\n(* %s *)" % TITLES[op])
        for N in (1, 2, 3):
            b, s = all_[N][op]
            binder = ("forall %s : R,\n    " % " ".join(b)) if b else ""
            st.append("Definition %s_stmt%d : Prop :=\n  %s%s." % (op, N, binder, s))
            fn = "Id%d" % N if op == "Id" else "%s%d" % (op, N)
            pr[g].append("Lemma %s_ok%d : %s_stmt%d.\nProof. unfold %s_stmt%d, %s. intros. mat. Qed." % (op, N, op, N, op, N, fn))
        pp[g].append("\n(* %s *)\nTheorem C01_%s : %s_stmt1 /\\ %s_stmt2 /\\ %s_stmt3.\nProof. exact (conj %s_ok1 (conj %s_ok2 %s_ok3)). Qed.\nPrint Assumptions C01_%s." % (
            TITLES[op], op, op, op, op, op, op, op, op))
    files = [("C01Statements.v", st)]
    for g in pr:
        files.append(("C01Proofs%s.v" % g.upper(), pr[g]))
        files.append(("Properties_C01%s.v" % g, pp[g]))
    for name, txt in files:
        with open(os.path.join(here, "coq", name), "w") as f:
            f.write("\n".join(txt) + "\n")


main()

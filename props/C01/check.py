"""C01 -- symmetric tensor algebra matches its 3x3 matrix meaning.
Engine S: every operation of stensor<N,T> (N=1,2,3) listed in trace.cxx is instantiated with the symbolic scalar,
the resulting straight-line definitions are regenerated from /repo on every run and the Coq theorems
(Properties_C01*.v: traced operation = ordinary 3x3 matrix operation on the Mandel image, for all reals) are re-checked
against them.  Tie to the double instantiation: Sym-vs-double agreement on seeded inputs.  The real double code is also
run against an independent numerical statement of the matrix meaning (this file), which is what finds a concrete
failing input when a proof obligation breaks."""
import math, os
from concurrent.futures import ThreadPoolExecutor
from vlib import guarded_main

SUPPORT = ["src/Exception/ContractViolation.cxx"]
NC = {1: 3, 2: 4, 3: 6}
PAIRS = [(0, 0), (1, 1), (2, 2), (0, 1), (1, 0), (0, 2), (2, 0), (1, 2), (2, 1)]
NP = {1: 3, 2: 5, 3: 9}
R2 = math.sqrt(2.0)

# ---------------------------------------------------------------- independent 3x3 matrix arithmetic (plain Python)


def mandel(s):
    s = list(s) + [0.0] * (6 - len(s))
    return [[s[0], s[3] / R2, s[4] / R2], [s[3] / R2, s[1], s[5] / R2], [s[4] / R2, s[5] / R2, s[2]]]


def oftab(p):
    p = list(p) + [0.0] * (6 - len(p))
    return [[p[0], p[3], p[4]], [p[3], p[1], p[5]], [p[4], p[5], p[2]]]


def oftensor(t):
    t = list(t) + [0.0] * (9 - len(t))
    return [[t[0], t[3], t[5]], [t[4], t[1], t[7]], [t[6], t[8], t[2]]]


def mat(m):
    return [list(m[0:3]), list(m[3:6]), list(m[6:9])]


def mmul(A, B):
    return [[sum(A[i][k] * B[k][j] for k in range(3)) for j in range(3)] for i in range(3)]


def mtr(A):
    return [[A[j][i] for j in range(3)] for i in range(3)]


def mlin(a, A, b=0.0, B=None):
    return [[a * A[i][j] + (b * B[i][j] if B is not None else 0.0) for j in range(3)] for i in range(3)]


def mdet(A):
    return (A[0][0] * (A[1][1] * A[2][2] - A[1][2] * A[2][1]) - A[0][1] * (A[1][0] * A[2][2] - A[1][2] * A[2][0])
            + A[0][2] * (A[1][0] * A[2][1] - A[1][1] * A[2][0]))


def madj(A):
    """adjugate: A . adj(A) = det(A) I"""
    c = lambda i, j: (A[(i + 1) % 3][(j + 1) % 3] * A[(i + 2) % 3][(j + 2) % 3] - A[(i + 1) % 3][(j + 2) % 3] * A[(i + 2) % 3][(j + 1) % 3])
    return [[c(j, i) for j in range(3)] for i in range(3)]


def frob(A, B):
    return sum(A[i][j] * B[i][j] for i in range(3) for j in range(3))


def eye():
    return [[1.0, 0.0, 0.0], [0.0, 1.0, 0.0], [0.0, 0.0, 1.0]]


def proj(N, A):
    ok = lambda i, j: (N == 3) or (i == j) or (N == 2 and i < 2 and j < 2)
    return [[A[i][j] if ok(i, j) else 0.0 for j in range(3)] for i in range(3)]


def outer(u, v):
    return [[u[i] * v[j] for j in range(3)] for i in range(3)]


def flat(A):
    return [A[i][j] for i in range(3) for j in range(3)]


def amax(v):
    return max([abs(x) for x in v] + [0.0])


def expected(op, N, d):
    """returns (observed as list, expected as list, magnitude scale, tolerance factor) or None when the hypothesis of
    the statement (an invertible matrix, well-conditioned enough for a float comparison) does not hold"""
    n = NC[N]
    s, t, p, out = d["s"][:n], d["t"][:n], d["p"][:n], d["out"]
    A, B, M = mandel(s), mandel(t), mat(d["m"])
    u, v, l, x = d["u"], d["v"], d["l"], d["x"][0]
    ns, nt, nm = amax(s), amax(t), max(amax(d["m"]), 1.0)
    M_ = lambda o: flat(mandel(o))
    if op == "trace":
        return out, [A[0][0] + A[1][1] + A[2][2]], ns, 1
    if op == "det":
        return out, [mdet(A)], ns ** 3, 1
    if op in ("invert", "cauchy_to_pk2", "pk2_to_cauchy", "pk2_cauchy_roundtrip"):
        X = A if op == "invert" else B
        nx = amax(flat(X))
        dt = mdet(X)
        if dt == 0 or nx == 0 or not all(math.isfinite(y) for y in out):
            return None
        cond = nx ** 3 / abs(dt)
        if cond > 1e4:
            return None
        iX = mlin(1.0 / dt, madj(X))
        if op == "invert":
            return M_(out), flat(iX), nx * nx / abs(dt), cond
        if op == "cauchy_to_pk2":
            return M_(out), flat(mlin(dt, mmul(iX, mmul(A, iX)))), ns * nx ** 4 / abs(dt), cond
        if op == "pk2_to_cauchy":
            return M_(out), flat(mlin(1.0 / dt, mmul(B, mmul(A, B)))), ns * nx * nx / abs(dt), cond
        return out, s, ns, cond * cond
    if op == "square":
        return M_(out), flat(mmul(A, A)), ns * ns, 1
    if op == "symmetric_product":
        return M_(out), flat(mlin(0.5, mmul(A, B), 0.5, mmul(B, A))), ns * nt, 1
    if op == "symmetric_product_aba":
        return M_(out), flat(mmul(A, mmul(B, A))), ns * ns * nt, 1
    if op == "product":
        return flat(oftensor(out)), flat(mmul(A, B)), ns * nt, 1
    if op == "deviator":
        tr = (A[0][0] + A[1][1] + A[2][2]) / 3.0
        return M_(out), flat(mlin(1.0, A, -tr, eye())), ns, 1
    if op == "sigmaeq":
        tr = (A[0][0] + A[1][1] + A[2][2]) / 3.0
        D = mlin(1.0 / max(ns, 1e-300), mlin(1.0, A, -tr, eye()))  # normalised: no overflow in the reference
        return out, [max(ns, 1e-300) * math.sqrt(1.5 * frob(D, D))], ns, 1
    if op == "contract":
        return out, [frob(A, B)], ns * nt, 1
    if op in ("change_basis", "changeBasis_member"):
        return M_(out), flat(mmul(mtr(M), mmul(A, M))), nm * nm * ns, 1
    if op == "buildFromMatrix":
        return M_(out), flat(proj(N, mlin(0.5, M, 0.5, mtr(M)))), nm, 1
    if op == "buildFromVectorDiadicProduct":
        return M_(out), flat(proj(N, outer(u, u))), amax(u) ** 2, 1
    if op == "buildFromVectorsSymmetricDiadicProduct":
        return M_(out), flat(proj(N, mlin(1.0, outer(u, v), 1.0, outer(v, u)))), amax(u) * amax(v), 1
    if op == "buildFromEigenValuesAndVectors":
        Dg = [[l[0], 0.0, 0.0], [0.0, l[1], 0.0], [0.0, 0.0, l[2]]]
        return M_(out), flat(mmul(M, mmul(Dg, mtr(M)))), nm * nm * amax(l), 1
    if op == "importTab":
        return M_(out), flat(oftab(p)), amax(p), 1
    if op == "exportTab":
        return flat(oftab(out)), flat(A), ns, 1
    if op == "importVoigt":
        q = list(p) + [0.0] * (6 - n)
        return M_(out), flat(oftab(q[:3] + [y / 2.0 for y in q[3:]])), amax(p), 1
    if op in ("import_write", "exportTab_importTab"):
        return out, p, amax(p), 1
    if op == "importTab_exportTab":
        return out, s, ns, 1
    if op == "getComponent":
        return out, [A[i][j] for (i, j) in PAIRS[:NP[N]]], ns, 1
    if op == "setComponent":
        obs, exp = [], []
        for k, (i, j) in enumerate(PAIRS[:NP[N]]):
            obs += M_(out[k * n:(k + 1) * n])
            E = [row[:] for row in A]
            E[i][j] = x
            E[j][i] = x
            exp += flat(E)
        return obs, exp, max(ns, abs(x)), 1
    if op == "get_setComponent":
        return out, [x] * NP[N], abs(x), 1
    if op == "Id":
        return M_(out), flat(eye()), 1.0, 1
    if op == "linear":
        obs = M_(out[0:n]) + M_(out[n:2 * n]) + M_(out[2 * n:3 * n]) + M_(out[3 * n:4 * n])
        exp = flat(mlin(x, A, 1.0, B)) + flat(mlin(1.0, A, -1.0, B)) + flat(mlin(-1.0, A)) + flat(mlin(1.0 / x, A))
        return obs, exp, max(abs(x) * ns + nt, ns / abs(x)), 1
    raise KeyError(op)


USES = {"trace": "s", "det": "s", "invert": "s", "square": "s", "symmetric_product": "st", "symmetric_product_aba": "st",
        "product": "st", "deviator": "s", "sigmaeq": "s", "contract": "st", "change_basis": "sm", "changeBasis_member": "sm",
        "buildFromMatrix": "m", "buildFromVectorDiadicProduct": "u", "buildFromVectorsSymmetricDiadicProduct": "uv",
        "buildFromEigenValuesAndVectors": "lm", "importTab": "p", "exportTab": "s", "importVoigt": "p", "import_write": "p",
        "exportTab_importTab": "p", "importTab_exportTab": "s", "getComponent": "s", "setComponent": "sx",
        "get_setComponent": "sx", "Id": "", "linear": "stx", "cauchy_to_pk2": "st", "pk2_to_cauchy": "st",
        "pk2_cauchy_roundtrip": "st"}
GROUPS = [("s", 6), ("t", 6), ("m", 9), ("u", 3), ("v", 3), ("p", 6), ("l", 3), ("x", 1)]


def parse_run(line):
    t = line.split()
    op, N, kind = t[1], int(t[2]), int(t[3])
    d = {}
    i = 4
    for (g, k) in GROUPS:
        assert t[i] == g, line[:200]
        d[g] = [float(y) for y in t[i + 1:i + 1 + k]]
        i += 1 + k
    assert t[i] == "out"
    d["out"] = [float(y) for y in t[i + 1:]]
    return op, N, kind, d


def main(c):
    exe = c.cxx("trace", ["trace.cxx"], SUPPORT)
    gen = os.path.join(c.work, "coq", "C01_gen.v")
    os.makedirs(os.path.dirname(gen), exist_ok=True)
    nag = c.pick(300, 20000)
    rc, out, err = c.run([exe, "gen", gen, str(c.seed), str(nag)], timeout=1500)
    if rc != 0:
        c.report("trace", "tracer failed on /repo's stensor code: " + err[-500:], {"stderr": err[-3000:]}, False)
        return
    nagree = 0
    for l in out.splitlines():
        if l.startswith("AGREE-FAIL"):
            t = l.split()
            c.report("agree:%s:%s" % (t[1], t[2]), "traced DAG (long double evaluation) and double instantiation disagree: " + l[:600],
                     {"line": l}, True)
        elif l.startswith("AGREE "):
            nagree += int(l.split("cases=")[1].split()[0])
    c.count(nagree)
    c.coverage["traces_validated_against_impl"] = nagree
    c.trusted("engine S tracer (cxx/sym/sym.hxx: operator overloads, constant folding in Q[sqrt2], printer), the trait glue "
              "cxx/sym/symtfel.hxx and g++'s template instantiation of stensor<N,Sym>",
              "Sym-vs-double agreement of the 90 traced operations on %d seeded inputs (generic, scaled 1e-30..1e30, small "
              "integers with zeros/repeats, rotations); tolerance 1e-11 relative to the larger of the magnitude of the outputs and, per "
              "output, the first-order running error bound of the traced expression (sum of |terms| of every sum: cancelling "
              "sums of products ~1e54 are compared relative to their terms, not to their result)" % nagree)

    # ---- theorems, re-checked against the regenerated definitions (three coqc pipelines side by side)
    base = c.coq([gen, "C01Spec.v", "C01Tactics.v", "C01Statements.v"], timeout=600)
    results = [base]
    if base.ok:
        with ThreadPoolExecutor(max_workers=3) as ex:
            fs = [ex.submit(c.coq, ["C01Proofs%s.v" % g.upper(), "Properties_C01%s.v" % g], 900) for g in ("", "b", "c")]
            results += [f.result() for f in fs]

    # ---- the real double code against the independent numerical statement of the matrix meaning
    ncase = c.pick(120, 4000)
    rc, out, err = c.run([exe, "run", str(c.seed), str(ncase)], timeout=1500)
    if rc != 0:
        c.report("run", "driver failed: " + err[-500:], {"stderr": err[-3000:]}, False)
        return
    nrun = nskip = 0
    failed_ops = set()
    for line in out.splitlines():
        if not line.startswith("RUN "):
            continue
        op, N, kind, d = parse_run(line)
        e = expected(op, N, d)
        if e is None:
            nskip += 1
            continue
        obs, exp, scale, fac = e
        nrun += 1
        c.count(1, (op, N, kind), kind != 0)
        ok = len(obs) == len(exp)
        worst = 0.0
        if ok:
            mag = max([scale] + [abs(y) for y in exp])
            tol = 1e-11 * max(fac, 1.0) * mag
            for a, b in zip(obs, exp):
                if not (abs(a - b) <= tol):  # NaN fails too
                    ok = False
                    worst = max(worst, abs(a - b) / mag if mag > 0 and math.isfinite(a - b) else float("inf"))
        if nrun % 2500 == 1:
            c.sample({"op": op, "N": N, "input_kind": kind, "s": d["s"][:NC[N]], "observed": obs[:9], "matrix_meaning": exp[:9]})
        if not ok and (op, N) not in failed_ops:
            failed_ops.add((op, N))
            used = {g: (d[g][:NC[N]] if g in "stp" else d[g]) for g in USES[op]}
            c.report("run:%s:N%d" % (op, N),
                     "%s on stensor<%d,double>: result (as matrix entries) %s differs from its 3x3 matrix meaning %s (error %.3g relative to the magnitude of the data) for inputs %s" % (
                         op, N, ["%.6g" % y for y in obs[:9]], ["%.6g" % y for y in exp[:9]], worst, used),
                     {"op": op, "N": N, "inputs": used, "observed_as_matrix_entries": obs, "expected": exp,
                      "how": "props/C01/trace.cxx `run` mode calls the operation of /repo on doubles; expected = plain 3x3 matrix arithmetic on the Mandel image (props/C01/check.py)"},
                     True)
    c.coverage["rule"] = ("30 operations x N=1,2,3 x %d seeded inputs each: generic O(1), one common scale 10^k (k in -30..30), small integers "
                          "with zeros and repeated entries, rotation matrices from random quaternions; inputs whose matrix is singular or "
                          "has |A|^3/|det A| > 1e4 are skipped for the four operations that divide by det (%d skipped); non-trivial = not the generic kind") % (ncase, nskip)
    c.coverage["executions_against_numeric_spec"] = nrun

    import re
    for g, res in zip(("", "b", "c"), results[1:]):
        pf = "Properties_C01%s.v" % g
        if pf not in [f[0] for f in res.files]:  # the proofs file broke before the property file was reached
            txt = open(os.path.join(c.dir, "coq", pf)).read()
            c.coverage["obligations"] += len(re.findall(r"^Theorem ", txt, flags=re.M))
        for (f, line, thm, msg) in res.failed:
            if f.startswith("C01Proofs") and line:
                names = [(m.group(1), txt_l) for txt_l, m in ((i + 1, re.match(r"Lemma (\w+)", l)) for i, l in enumerate(
                    open(os.path.join(c.dir, "coq", f)).read().splitlines())) if m and txt_l <= line]
                if names:
                    c.notes.append("broken lemma: %s (%s line %d)" % (names[-1][0], f, line))
    if not base.ok:
        c.coverage["obligations"] += 30
    for res in results:
        if not res.ok:
            if any(v[3] for v in c.violations):
                c.notes.append("proof obligations failed: %s; concrete failing inputs reported" % [(f[0], f[2]) for f in res.failed])
            else:
                c.coq_failures(res, None)


guarded_main("C01", main)

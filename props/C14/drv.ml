(* C14 -- driver of the extracted Gallina model (C14Model.v: eval, deriv_gen) with OCaml floats.
   usage: c14_ml pinned|fixed  < cases
   One line per case: id \t s-expression of the formula \t mode \t values
     mode = V | D:<i> | DD:<i>:<j>
   Output: M id fval fval' dstat dval dval'
     dstat = OK | NONE (the model's rules refuse) ; primed values = same evaluation at slightly perturbed
     variable values (used by the checker to scale the tolerance with the conditioning of the formula). *)
open C14_model

let rec pos_of_int n = if n <= 1 then XH else if n land 1 = 0 then XO (pos_of_int (n / 2)) else XI (pos_of_int (n / 2))
let z_of_int n = if n = 0 then Z0 else if n > 0 then Zpos (pos_of_int n) else Zneg (pos_of_int (-n))
let rec nat_of_int n = if n <= 0 then O else S (nat_of_int (n - 1))
let rec int_of_nat = function O -> 0 | S n -> 1 + int_of_nat n
let rec float_of_pos = function XH -> 1. | XO p -> 2. *. float_of_pos p | XI p -> 2. *. float_of_pos p +. 1.
let float_of_z = function Z0 -> 0. | Zpos p -> float_of_pos p | Zneg p -> -. float_of_pos p

(* gamma function (Lanczos, g = 7): only feeds the positions of tgamma / lgamma, which the rules never differentiate *)
let lanczos = [| 0.99999999999980993; 676.5203681218851; -1259.1392167224028; 771.32342877765313;
                 -176.61502916214059; 12.507343278686905; -0.13857109526572012; 9.9843695780195716e-6;
                 1.5056327351493116e-7 |]
let rec gamma x =
  if x < 0.5 then Float.pi /. (sin (Float.pi *. x) *. gamma (1. -. x))
  else begin
    let x = x -. 1. in
    let a = ref lanczos.(0) in
    let t = x +. 7.5 in
    for i = 1 to 8 do a := !a +. lanczos.(i) /. (x +. float_of_int i) done;
    sqrt (2. *. Float.pi) *. (t ** (x +. 0.5)) *. exp (-. t) *. !a
  end

let fops : float numOps = {
  ofZ = float_of_z;
  add0 = ( +. ); sub0 = ( -. ); mul0 = ( *. ); div = ( /. ); opp0 = (fun a -> -. a);
  pow = ( ** );
  powz = (fun a n -> a ** float_of_z n);
  dfun = (fun f a -> match f with
    | Exp -> exp a | Sin -> sin a | Cos -> cos a | Tan -> tan a | Sqrt -> sqrt a | Log -> log a
    | Log10 -> log10 a | Asin -> asin a | Acos -> acos a | Atan -> atan a
    | Sinh -> sinh a | Cosh -> cosh a | Tanh -> tanh a);
  ufun = (fun f a -> match f with
    | Abs -> abs_float a | Exp2 -> Float.exp2 a | Expm1 -> expm1 a | Cbrt -> Float.cbrt a
    | Log2 -> Float.log2 a | Log1p -> log1p a
    | Acosh -> log (a +. sqrt (a *. a -. 1.)) | Asinh -> log (a +. sqrt (a *. a +. 1.))
    | Atanh -> 0.5 *. log ((1. +. a) /. (1. -. a))
    | Erf -> Float.erf a | Erfc -> Float.erfc a
    | Tgamma -> gamma a | Lgamma -> log (abs_float (gamma a))
    | Heav -> if a < 0. then 0. else 1.);
  bfun = (fun f a b -> match f with
    | Max -> if a < b then b else a      (* std::max(a, b) *)
    | Min -> if b < a then b else a      (* std::min(a, b) *)
    | Hypot -> Float.hypot a b | Atan2 -> Float.atan2 a b);
  ln10 = log 10.;
  ltb = (fun a b -> a < b); leb = (fun a b -> a <= b); eqb0 = (fun a b -> a -. b = 0.);
}

(* the same operations with a relative perturbation of 1e-12 on the results of the power and function calls: the
   second evaluation of every case uses them (and perturbed variable values) to measure how rounding differences
   between libm / tfel::math::power<N> / std::pow are amplified by the rest of the formula *)
let pert v = v *. (1. +. 1e-12)
let fops_p : float numOps = { fops with
  pow = (fun a b -> pert (fops.pow a b)); powz = (fun a n -> pert (fops.powz a n));
  dfun = (fun f a -> pert (fops.dfun f a)); ufun = (fun f a -> match f with Heav | Abs -> fops.ufun f a | _ -> pert (fops.ufun f a));
  bfun = (fun f a b -> match f with Max | Min -> fops.bfun f a b | _ -> pert (fops.bfun f a b)) }

(* ---- s-expressions ---- *)
type sx = A of string | L of sx list
let tokenize s =
  let toks = ref [] and cur = Buffer.create 16 in
  let flush () = if Buffer.length cur > 0 then (toks := Buffer.contents cur :: !toks; Buffer.clear cur) in
  String.iter (fun c -> match c with
    | '(' | ')' -> flush (); toks := String.make 1 c :: !toks
    | ' ' -> flush ()
    | c -> Buffer.add_char cur c) s;
  flush (); List.rev !toks
let rec parse_sx = function
  | "(" :: r -> let (l, r) = parse_list r in (L l, r)
  | a :: r -> (A a, r)
  | [] -> failwith "eof"
and parse_list = function
  | ")" :: r -> ([], r)
  | toks -> let (x, r) = parse_sx toks in let (l, r) = parse_list r in (x :: l, r)

exception Refused

let pinned = ref false

let dfn_of = function
  | "exp" -> Exp | "sin" -> Sin | "cos" -> Cos | "tan" -> Tan | "sqrt" -> Sqrt | "log" -> Log | "log10" -> Log10
  | "asin" -> Asin | "acos" -> Acos | "atan" -> Atan | "sinh" -> Sinh | "cosh" -> Cosh | "tanh" -> Tanh
  | s -> failwith ("dfn " ^ s)
let ufn_of = function
  | "abs" -> Abs | "exp2" -> Exp2 | "expm1" -> Expm1 | "cbrt" -> Cbrt | "log2" -> Log2 | "log1p" -> Log1p
  | "acosh" -> Acosh | "asinh" -> Asinh | "atanh" -> Atanh | "erf" -> Erf | "erfc" -> Erfc
  | "tgamma" -> Tgamma | "lgamma" -> Lgamma | "H" -> Heav
  | s -> failwith ("ufn " ^ s)
let bfn_of = function "max" -> Max | "min" -> Min | "hypot" -> Hypot | "atan2" -> Atan2 | s -> failwith ("bfn " ^ s)
let bop_of = function "plus" -> Plus | "minus" -> Minus | "mult" -> Mult | "div" -> Div | "pow" -> Pow
                      | s -> failwith ("bop " ^ s)
let cmp_of = function "eq" -> CEq | "gt" -> CGt | "ge" -> CGe | "lt" -> CLt | "le" -> CLe | s -> failwith ("cmp " ^ s)

let deriv e i = match deriv_gen !pinned e (nat_of_int i) with Some d -> d | None -> raise Refused

let rec expr_of = function
  | L [A "num"; A p; A q] -> Num { qnum = z_of_int (int_of_string p); qden = pos_of_int (int_of_string q) }
  | A "ln10" -> Ln10
  | L [A "var"; A i] -> Var (nat_of_int (int_of_string i))
  | L [A "neg"; a] -> Neg (expr_of a)
  | L [A "bin"; A o; a; b] -> Bin (bop_of o, expr_of a, expr_of b)
  | L [A "pown"; A n; a] -> PowN (z_of_int (int_of_string n), expr_of a)
  | L [A "fun"; A f; a] -> Fun (dfn_of f, expr_of a)
  | L [A "ufun"; A f; a] -> UFun (ufn_of f, expr_of a)
  | L [A "bfun"; A f; a; b] -> BFun (bfn_of f, expr_of a, expr_of b)
  | L [A "cond"; c; a; b] -> Cond (lexpr_of c, expr_of a, expr_of b)
  (* diff(F, v) in a formula: DifferentiatedFunctionExpr evaluates the derivative of F; elaborated with the
     model's own rules *)
  | L [A "diff"; a; A i] -> deriv (expr_of a) (int_of_string i)
  | _ -> failwith "bad expr"
and lexpr_of = function
  | L [A "cmp"; A o; a; b] -> LCmp (cmp_of o, expr_of a, expr_of b)
  | L [A "and"; a; b] -> LAnd (lexpr_of a, lexpr_of b)
  | L [A "or"; a; b] -> LOr (lexpr_of a, lexpr_of b)
  | L [A "not"; a] -> LNot (lexpr_of a)
  | _ -> failwith "bad lexpr"

let () =
  pinned := (Array.length Sys.argv > 1 && Sys.argv.(1) = "pinned");
  (try
    while true do
      let line = input_line stdin in
      match String.split_on_char '\t' line with
      | [id; sx; mode; vals] ->
        let vals = Array.of_list (List.map float_of_string (String.split_on_char ',' vals)) in
        let env k = fun n -> let i = int_of_nat n in
          if i < Array.length vals then vals.(i) *. (1. +. k *. float_of_int (i + 1) *. 1e-12) else 0. in
        (try
          let e = fst (parse_sx (tokenize sx)) |> expr_of in
          let fv = eval fops (env 0.) e and fv' = eval fops_p (env 1.) e in
          let dres =
            try
              let d = match String.split_on_char ':' mode with
                | ["D"; i] -> Some (deriv e (int_of_string i))
                | ["DD"; i; j] -> Some (deriv (deriv e (int_of_string i)) (int_of_string j))
                | _ -> None in
              (match d with
               | Some d -> Printf.sprintf "OK %.17g %.17g" (eval fops (env 0.) d) (eval fops_p (env 1.) d)
               | None -> "- nan nan")
            with Refused -> "NONE nan nan" in
          Printf.printf "M %s %.17g %.17g %s\n" id fv fv' dres
        with Refused -> Printf.printf "M %s nan nan NONE nan nan\n" id)
      | _ -> ()
    done
  with End_of_file -> ())

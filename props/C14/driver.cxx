// C14 -- driver running the REAL evaluator (sources compiled from /repo) on formulas given on stdin.
// One line per case:  id \t formula \t mode \t x,y,z values (comma separated)
//   mode = V            value only
//          D:<i>        value, differentiate(i)->getValue(), central finite difference of getValue in variable i
//          DD:<i>:<j>   value, differentiate(i)->differentiate(j)->getValue()
// Cases run in forked children (batches) so that a crash of the real code is observed, attributed to its case, and the run goes on.
// Output: R id fstat fval dstat dval fd      stat in {OK, UNIMPL, EXC, CRASH}
#include <cstdio>
#include <cstdlib>
#include <cstring>
#include <cmath>
#include <algorithm>
#include <iostream>
#include <sstream>
#include <string>
#include <vector>
#include <unistd.h>
#include <sys/wait.h>
#include "TFEL/Math/Evaluator.hxx"

static const std::vector<std::string> VARS = {"x", "y", "z"};

static std::vector<std::string> split(const std::string& s, char c) {
  std::vector<std::string> r;
  std::string cur;
  for (char ch : s) {
    if (ch == c) {
      r.push_back(cur);
      cur.clear();
    } else {
      cur += ch;
    }
  }
  r.push_back(cur);
  return r;
}

static const char* classify(const std::exception& e) {
  return std::strstr(e.what(), "unimplemented feature") != nullptr ? "UNIMPL" : "EXC";
}

static std::string run_case(const std::string& formula, const std::string& mode, const std::vector<double>& vals) {
  char buf[512];
  std::string fstat = "OK", dstat = "-";
  double fval = NAN, dval = NAN, fd = NAN;
  try {
    tfel::math::Evaluator ev(VARS, formula);
    for (std::size_t i = 0; i != VARS.size(); ++i) ev.setVariableValue(i, vals[i]);
    try {
      fval = ev.getValue();
    } catch (std::exception& e) {
      fstat = classify(e);
    }
    auto m = split(mode, ':');
    if (m[0] == "D" || m[0] == "DD") {
      const auto i = static_cast<std::size_t>(std::atoi(m[1].c_str()));
      try {
        auto d = ev.differentiate(i);
        if (m[0] == "DD") {
          const auto j = static_cast<std::size_t>(std::atoi(m[2].c_str()));
          d = d->differentiate(j);
        }
        for (std::size_t k = 0; k != VARS.size(); ++k) d->setVariableValue(k, vals[k]);
        dval = d->getValue();
        dstat = "OK";
      } catch (std::exception& e) {
        dstat = classify(e);
      }
      if (m[0] == "D") {
        try {
          const double h = 1e-6 * std::max(1., std::abs(vals[i]));
          ev.setVariableValue(i, vals[i] + h);
          const double fp = ev.getValue();
          ev.setVariableValue(i, vals[i] - h);
          const double fm = ev.getValue();
          fd = (fp - fm) / (2 * h);
        } catch (std::exception&) {
          fd = NAN;
        }
      }
    }
  } catch (std::exception& e) {
    fstat = std::string("PARSE");
    std::snprintf(buf, sizeof(buf), "PARSE nan - nan nan %s", e.what());
    std::string r(buf);
    for (auto& c : r)
      if (c == '\n' || c == '\t') c = ' ';
    return r;
  }
  std::snprintf(buf, sizeof(buf), "%s %.17g %s %.17g %.17g", fstat.c_str(), fval, dstat.c_str(), dval, fd);
  return buf;
}

int main() {
  // all cases are read first; children process batches and stream one result line per finished case, so that a
  // crash is attributed to the case that was running and the remaining cases of the batch are re-run
  std::vector<std::vector<std::string>> cases;
  std::string line;
  while (std::getline(std::cin, line)) {
    if (line.empty()) continue;
    auto t = split(line, '\t');
    if (t.size() < 4) {
      std::cout << "R " << t[0] << " BADLINE\n";
      continue;
    }
    cases.push_back(t);
  }
  const std::size_t batch = 64;
  std::size_t idx = 0;
  while (idx < cases.size()) {
    int fds[2];
    if (pipe(fds) != 0) return 2;
    std::cout.flush();
    const pid_t pid = fork();
    if (pid == 0) {
      close(fds[0]);
      if (freopen("/dev/null", "w", stderr) == nullptr) {  // silence glibc's abort message of the real code
      }
      for (std::size_t k = idx; k < std::min(cases.size(), idx + batch); ++k) {
        const auto& t = cases[k];
        std::vector<double> vals;
        for (const auto& s : split(t[3], ',')) vals.push_back(std::strtod(s.c_str(), nullptr));
        while (vals.size() < VARS.size()) vals.push_back(0.);
        const auto r = "R " + t[0] + " " + run_case(t[1], t[2], vals) + "\n";
        if (write(fds[1], r.c_str(), r.size()) < 0) _exit(3);
      }
      close(fds[1]);
      _exit(0);
    }
    close(fds[1]);
    std::string res;
    char b[4096];
    ssize_t n;
    while ((n = read(fds[0], b, sizeof(b))) > 0) res.append(b, static_cast<std::size_t>(n));
    close(fds[0]);
    int st = 0;
    waitpid(pid, &st, 0);
    // complete lines only
    std::size_t done = 0;
    std::size_t pos = 0;
    while (true) {
      const auto e = res.find('\n', pos);
      if (e == std::string::npos) break;
      std::cout << res.substr(pos, e - pos + 1);
      pos = e + 1;
      ++done;
    }
    idx += done;
    const bool finished = (idx >= cases.size()) || (done == batch);
    if (!finished || WIFSIGNALED(st)) {
      if (idx < cases.size() && !(done == batch)) {
        std::cout << "R " << cases[idx][0] << " CRASH nan CRASH nan nan ";
        if (WIFSIGNALED(st)) {
          std::cout << "signal=" << WTERMSIG(st) << "\n";
        } else {
          std::cout << "exit=" << WEXITSTATUS(st) << "\n";
        }
        ++idx;
      }
    }
  }
  return 0;
}

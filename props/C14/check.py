"""C14 -- evaluator symbolic differentiation yields the derivative.
Engine H: Gallina model of the parser::Expr node kinds, their evaluation and the differentiation rules
(coq/C14Model.v), theorem by induction with Coquelicot (coq/C14Proofs.v).  Tie to /repo: the evaluator sources are
compiled from the working tree and `Evaluator::differentiate(i)->getValue()` is compared with the extracted model
(`eval (deriv e i)` on OCaml floats) on a rule-by-rule unit suite and on grammar-generated formulas; "unimplemented
feature" <-> None; a crash of the real code is a violation; central finite differences of the real getValue are the
independent statement of the property used on the unit suite and to qualify mismatches."""
import math, os
from vlib import guarded_main

MATH = ["ExternalFunctionExpr.cxx", "ExternalFunctionExpr2.cxx", "DifferentiatedFunctionExpr.cxx", "Expr.cxx",
        "BinaryFunction.cxx", "BinaryOperator.cxx", "LogicalExpr.cxx", "ConditionalExpr.cxx", "ExternalFunction.cxx",
        "ConstantExternalFunction.cxx", "EvaluatorBase.cxx", "EvaluatorTExpr.cxx", "EvaluatorFunction.cxx",
        "Evaluator.cxx", "Function.cxx", "PowerFunction.cxx", "Negation.cxx", "Number.cxx", "Variable.cxx"]
REPO_SOURCES = ["src/Math/" + f for f in MATH] + ["src/UnicodeSupport/UnicodeSupport.cxx",
                                                  "src/Exception/TFELException.cxx",
                                                  "src/Exception/ContractViolation.cxx"]
VARS = ["x", "y", "z"]
DFN = ["exp", "sin", "cos", "tan", "sqrt", "log", "log10", "asin", "acos", "atan", "sinh", "cosh", "tanh"]
UFN = ["abs", "exp2", "expm1", "cbrt", "log2", "log1p", "acosh", "asinh", "atanh", "erf", "erfc", "tgamma", "lgamma", "H"]
BFN = ["max", "min", "hypot", "atan2"]
BOPS = {"plus": "+", "minus": "-", "mult": "*", "div": "/", "pow": "**"}
CMPS = {"eq": "==", "gt": ">", "ge": ">=", "lt": "<", "le": "<="}


# ------------------------------------------------------------------ formulas (AST -> C++ formula text, model s-expr)
def num(p, q=1):
    return ("num", p, q)


def var(i):
    return ("var", i)


def has_var(e):
    if e[0] == "var":
        return True
    return any(isinstance(a, tuple) and has_var(a) for a in e[1:])


def num_txt(p, q):
    if q == 1:
        return str(p)
    k = len(str(q)) - 1
    s = str(p).rjust(k + 1, "0")
    return s[:-k] + "." + s[-k:]


def cxx(e):
    k = e[0]
    if k == "num":
        return num_txt(e[1], e[2])
    if k == "var":
        return VARS[e[1]]
    if k == "neg":
        return "-(" + cxx(e[1]) + ")"
    if k == "bin":
        return "(" + cxx(e[2]) + ")" + BOPS[e[1]] + "(" + cxx(e[3]) + ")"
    if k == "pown":
        n = e[1]
        if e[3] == "op" and -16 <= n <= 16:
            return "(" + cxx(e[2]) + ")**" + (str(n) if n >= 0 else "(-%d)" % (-n))
        return "power<%d>(%s)" % (n, cxx(e[2]))
    if k in ("fun", "ufun"):
        return e[1] + "(" + cxx(e[2]) + ")"
    if k == "bfun":
        return e[1] + "(" + cxx(e[2]) + "," + cxx(e[3]) + ")"
    if k == "cond":
        if len(e) > 4:  # root of the formula
            return lcxx(e[1]) + " ? " + cxx(e[2]) + " : " + cxx(e[3])
        c = e[1]
        return "(" + cxx(c[2]) + CMPS[c[1]] + cxx(c[3]) + " ? " + cxx(e[2]) + " : " + cxx(e[3]) + ")"
    if k == "diff":
        n = e[3] if len(e) > 3 else 1
        return ("diff(%s,%s)" if n == 1 else "diff<" + str(n) + ">(%s,%s)") % (cxx(e[1]), VARS[e[2]])
    raise ValueError(e)


def lcxx(c):
    k = c[0]
    if k == "cmp":
        # the left operand is printed as 0+(...): the code strips an opening parenthesis at the start of a
        # logical expression together with the LAST token, so a comparison must not begin with '('
        return "0+(" + cxx(c[2]) + ")" + CMPS[c[1]] + "(" + cxx(c[3]) + ")"
    if k == "and":
        return "(" + lcxx(c[1]) + ")&&(" + lcxx(c[2]) + ")"
    if k == "or":
        return "(" + lcxx(c[1]) + ")||(" + lcxx(c[2]) + ")"
    if k == "not":
        return "!(" + lcxx(c[1]) + ")"
    raise ValueError(c)


def sx(e):
    k = e[0]
    if k == "num":
        return "(num %d %d)" % (e[1], e[2])
    if k == "var":
        return "(var %d)" % e[1]
    if k == "neg":
        return "(neg %s)" % sx(e[1])
    if k == "bin":
        return "(bin %s %s %s)" % (e[1], sx(e[2]), sx(e[3]))
    if k == "pown":
        return "(pown %d %s)" % (e[1], sx(e[2]))
    if k in ("fun", "ufun"):
        return "(%s %s %s)" % (k, e[1], sx(e[2]))
    if k == "bfun":
        return "(bfun %s %s %s)" % (e[1], sx(e[2]), sx(e[3]))
    if k == "cond":
        if len(e) > 4:
            return "(cond %s %s %s)" % (lsx(e[1]), sx(e[2]), sx(e[3]))
        c = e[1]
        return "(cond (cmp %s %s %s) %s %s)" % (c[1], sx(c[2]), sx(c[3]), sx(e[2]), sx(e[3]))
    if k == "diff":
        n = e[3] if len(e) > 3 else 1
        s = sx(e[1])
        for _ in range(n):
            s = "(diff %s %d)" % (s, e[2])
        return s
    raise ValueError(e)


def lsx(c):
    k = c[0]
    if k == "cmp":
        return "(cmp %s (bin plus (num 0 1) %s) %s)" % (c[1], sx(c[2]), sx(c[3]))
    if k in ("and", "or"):
        return "(%s %s %s)" % (k, lsx(c[1]), lsx(c[2]))
    return "(not %s)" % lsx(c[1])


X, Y, Z = var(0), var(1), var(2)


def B(o, a, b):
    return ("bin", o, a, b)


def unit_suite():
    """(formula AST, mode, point): every rule and every branch of every rule of the C++ differentiator"""
    u = []
    pts = [(2.0, 3.0, 0.5), (0.75, 1.25, 2.5)]
    small = [(0.4, 0.3, 0.6), (-0.35, 0.7, 0.2)]  # inside (-1,1) for asin/acos
    for f in DFN:
        P = small if f in ("asin", "acos") else pts
        if f in ("sqrt", "log", "log10"):
            P = pts
        for p in P[:2]:
            if f in ("sqrt", "log", "log10") and p[0] <= 0:
                continue
            u.append((("fun", f, X), "D:0", p))                              # chain with u' = 1
            u.append((("fun", f, B("mult", num(5, 10), X)), "D:0", p))       # chain with constant u' != 1
            u.append((("fun", f, B("mult", X, B("plus", Y, num(1, 10)))), "D:0", small[0] if f in ("asin", "acos") else p))
        u.append((("fun", f, B("mult", num(5, 10), Y)), "D:0", small[0]))    # argument does not depend on x
        u.append((("fun", f, B("mult", num(5, 10), X)), "DD:0:0", small[0] if f in ("asin", "acos") else pts[0]))
    A1 = B("plus", ("fun", "sin", X), Y)     # depends on x
    A2 = B("mult", X, X)
    C1 = B("plus", Y, num(15, 10))           # does not depend on x
    C2 = ("fun", "exp", Z)
    for o in BOPS:
        for (a, b) in [(A1, A2), (A1, C1), (C1, A2), (C1, C2), (A2, A1), (A2, C2), (C2, A1)]:
            if o == "pow":
                a = B("plus", a, num(3, 1))  # positive base
            for p in pts:
                u.append((B(o, a, b), "D:0", p))
            u.append((B(o, a, b), "DD:0:0", pts[1]))
            u.append((B(o, a, b), "DD:0:1", pts[1]))
    u.append((B("pow", X, num(25, 10)), "D:0", pts[0]))                       # constant non-integer exponent
    u.append((B("pow", X, num(17, 1)), "D:0", pts[1]))                        # integer exponent beyond the PowerFunction range
    u.append((B("pow", num(2, 1), X), "D:0", pts[0]))                         # ExponentDerivative
    u.append((B("pow", num(2, 1), X), "DD:0:0", pts[0]))
    u.append((B("pow", X, X), "D:0", pts[1]))
    u.append((B("pow", X, X), "DD:0:0", pts[1]))
    for n in list(range(-16, 17)) + [-18, -17, 17, 18, 20]:
        for st in ("op", "fn"):
            if abs(n) > 16 and st == "op":
                continue
            u.append((("pown", n, X, st), "D:0", pts[0] if abs(n) < 8 else pts[1]))
            u.append((("pown", n, B("plus", B("mult", X, Y), num(5, 10)), st), "D:0", pts[1]))
        u.append((("pown", n, X, "fn"), "DD:0:0", pts[1]))
        u.append((("pown", n, Y, "fn"), "D:0", pts[1]))
    u.append((("neg", A1), "D:0", pts[0]))
    u.append((("neg", C1), "D:0", pts[0]))
    u.append((X, "D:0", pts[0]))
    u.append((X, "D:1", pts[0]))
    u.append((num(3, 1), "D:0", pts[0]))
    cnd = ("cmp", "gt", X, num(1, 1))
    for p in pts:
        u.append((("cond", cnd, A2, A1, "root"), "D:0", p))
        u.append((("cond", cnd, C1, C2, "root"), "D:0", p))
        u.append((("cond", ("cmp", "lt", Y, num(2, 1)), A2, C1, "root"), "D:0", p))
        u.append((("cond", ("and", cnd, ("not", ("cmp", "le", Y, X))), A2, B("mult", A1, X), "root"), "D:0", p))
        u.append((("cond", ("or", ("cmp", "ge", X, Y), ("cmp", "eq", Z, num(5, 10))), A2, B("mult", A1, X), "root"), "D:0", p))
        u.append((B("mult", ("cond", ("cmp", "gt", X, num(1, 1)), X, A2), A1), "D:0", p))
    # refused: every function without a rule, directly, under an operator, and where it does not depend on x
    for f in UFN:
        arg = B("plus", X, num(15, 10))
        u.append((("ufun", f, arg), "D:0", pts[1]))
        u.append((B("mult", ("ufun", f, arg), X), "D:0", pts[1]))
        u.append((B("mult", ("ufun", f, B("plus", Y, num(15, 10))), X), "D:0", pts[1]))   # not differentiated: allowed
        u.append((("neg", ("ufun", f, B("plus", Y, num(15, 10)))), "D:0", pts[1]))         # differentiated anyway: refused
    for f in BFN:
        u.append((("bfun", f, X, Y), "D:0", pts[1]))
        u.append((B("plus", ("bfun", f, Z, Y), X), "D:0", pts[1]))
        u.append((("fun", "sin", ("bfun", f, X, Y)), "D:0", pts[1]))
    # diff(F, v) inside formulas (DifferentiatedFunctionExpr)
    F1 = B("mult", B("mult", X, X), Y)
    F2 = B("mult", ("fun", "sin", X), Y)
    u.append((("diff", F1, 0), "V", pts[0]))
    u.append((("diff", B("mult", B("mult", X, X), X), 0, 2), "V", pts[0]))
    u.append((("diff", F2, 0), "D:0", pts[0]))
    u.append((("diff", F2, 0), "D:1", pts[0]))
    u.append((B("plus", ("diff", F2, 0), X), "D:0", pts[0]))
    u.append((B("mult", X, ("diff", F2, 0)), "D:1", pts[0]))
    u.append((B("mult", ("diff", B("mult", X, Y), 0), X), "D:0", pts[0]))
    u.append((B("mult", X, ("diff", F2, 0)), "D:0", pts[0]))
    return u


class Gen:
    NUMS = [(1, 4), (1, 2), (3, 4), (1, 1), (3, 2), (2, 1), (3, 1), (1, 10), (5, 2), (7, 10), (12, 10)]

    def __init__(self, rng):
        self.r = rng

    def leaf(self):
        if self.r.random() < 0.6:
            return var(self.r.choice([0, 0, 1, 2]))
        p, q = self.r.choice(self.NUMS)
        q10 = {1: 1, 2: 10, 4: 100, 10: 10}[q]
        return num(p * q10 // q, q10)

    def expr(self, d, refused_ok=True):
        r = self.r
        if d <= 0 or r.random() < 0.12:
            return self.leaf()
        k = r.random()
        if k < 0.07:
            return ("neg", self.expr(d - 1, refused_ok))
        if k < 0.50:
            o = r.choice(["plus", "minus", "mult", "mult", "div", "pow"])
            a = self.expr(d - 1, refused_ok)
            if o == "pow":
                if r.random() < 0.5:
                    b = num(r.choice([5, 15, 25, 35, 170, 3]), 10)   # non-integer literal exponent (17.0 = beyond range)
                    if b == num(170, 10):
                        b = num(17, 1)
                else:
                    b = self.expr(d - 1, refused_ok)
                    if not has_var(b):
                        b = B("plus", b, var(r.choice([0, 1])))
                a = B("plus", ("pown", 2, a, "op"), num(r.choice([5, 12]), 10))   # positive base
                return B("pow", a, b)
            return B(o, a, self.expr(d - 1, refused_ok))
        if k < 0.60:
            n = r.choice([-3, -2, -1, 1, 2, 3, 4, 2, 3, r.choice([-17, 17, 18, 16, -16])])
            return ("pown", n, self.expr(d - 1, refused_ok), "op" if r.random() < 0.7 else "fn")
        if k < 0.88:
            return ("fun", r.choice(DFN), self.expr(d - 1, refused_ok))
        if k < 0.93:
            # a conditional inside a parenthesised group: the code finds '?' and ':' only before the first ')' of the
            # group, so condition and first alternative are written without parentheses (leaves)
            return ("cond", ("cmp", r.choice(list(CMPS)), self.leaf(), self.leaf()), self.leaf(), self.expr(d - 1, refused_ok))
        if not refused_ok:
            return ("fun", r.choice(DFN), self.expr(d - 1, refused_ok))
        if k < 0.98:
            return ("ufun", r.choice(UFN), self.expr(d - 1, refused_ok))
        return ("bfun", r.choice(BFN), self.expr(d - 1, refused_ok), self.expr(d - 1, refused_ok))

    def root(self, d, refused_ok=True):
        """at the root of a formula the three parts of a conditional may be any formula"""
        r = self.r
        if r.random() < 0.12:
            c = ("cmp", r.choice(list(CMPS)), self.expr(d - 2, refused_ok), self.expr(d - 2, refused_ok))
            if r.random() < 0.4:
                c2 = ("cmp", r.choice(list(CMPS)), self.expr(1, refused_ok), self.leaf())
                c = (r.choice(["and", "or"]), c, c2) if r.random() < 0.7 else ("not", c)
            return ("cond", c, self.expr(d - 1, refused_ok), self.expr(d - 1, refused_ok), "root")
        return self.expr(d, refused_ok)

    def point(self):
        r = self.r
        return tuple(round(r.uniform(0.3, 2.2) if r.random() < 0.8 else r.uniform(-1.5, -0.2), 3) for _ in VARS)


def fnum(s):
    try:
        return float(s)
    except ValueError:
        return float("nan")


def close(c, m, m2):
    """tolerance scaled by the magnitude and by the sensitivity of the model value to a 1e-12 perturbation of the point"""
    tol = 1e-9 * max(1.0, abs(m)) + 1e4 * abs(m2 - m)
    return abs(c - m) <= tol, tol


def main(c):
    exe = c.cxx("driver", ["driver.cxx"], REPO_SOURCES)
    c.log("driver built")
    ml = c.ocaml_extract("c14", ["C14Model.v"],
                         "From C14 Require Import C14Model.\nRequire Import ExtrOcamlBasic.\n"
                         'Extraction "c14_model.ml" eval evall deriv_gen depends supported.\n', "drv.ml")
    c.log("model extracted")
    # ---- cases
    cases = []  # (id, ast, mode, point, unit?)
    for (e, mode, p) in unit_suite():
        cases.append([len(cases), e, mode, p, True])
    nunit = len(cases)
    g = Gen(c.rng)
    nform = c.pick(1500, 12000)
    for k in range(nform):
        refused_ok = (k % 4 == 0)
        e = g.root(c.rng.choice([2, 3, 3, 4, 4, 5]) if c.quick() else c.rng.choice([2, 3, 4, 5, 6, 7, 8]), refused_ok)
        for _ in range(2):
            p = g.point()
            i = c.rng.choice([0, 0, 0, 1, 2])
            if (not refused_ok) and c.rng.random() < 0.2:
                mode = "DD:%d:%d" % (i, c.rng.choice([0, 1]))
            else:
                mode = "D:%d" % i
            cases.append([len(cases), e, mode, p, False])
    cin = "".join("%d\t%s\t%s\t%s\n" % (cs[0], cxx(cs[1]), cs[2], ",".join(repr(v) for v in cs[3])) for cs in cases)
    min_ = "".join("%d\t%s\t%s\t%s\n" % (cs[0], sx(cs[1]), cs[2], ",".join(repr(v) for v in cs[3])) for cs in cases)
    rc, out, err = c.run([exe], input=cin, timeout=1200)
    if rc != 0:
        c.report("driver", "the driver of the real evaluator failed (rc=%d): %s" % (rc, err[-400:]), {"stderr": err[-3000:]}, False)
        return
    R = {}
    for l in out.splitlines():
        t = l.split(None, 7)
        if len(t) >= 7 and t[0] == "R":
            R[int(t[1])] = t[2:]
    # ---- which log10 rule does the tree have?  (independent statement: finite differences / closed form at x = 2)
    probe = next(cs for cs in cases if cs[1] == ("fun", "log10", X) and cs[3][0] == 2.0 and cs[2] == "D:0")
    pr = R.get(probe[0])
    pinned = False
    true_d = 1.0 / (2.0 * math.log(10.0))
    if pr and pr[2] == "OK":
        d = fnum(pr[3])
        if abs(d - true_d) > 1e-6:
            c.report("deriv:log10(x):x=2", "differentiate of 'log10(x)' evaluates to %.6g at x=2, the derivative is 1/(x ln 10) = %.6g "
                     "(finite difference of getValue: %s)" % (d, true_d, pr[4]),
                     {"formula": "log10(x)", "variable": "x", "point": {"x": 2.0}, "observed": d, "expected": true_d,
                      "how": "tfel::math::Evaluator ev({\"x\",\"y\",\"z\"},\"log10(x)\"); ev.differentiate(0)->getValue() at x=2"}, True)
            pinned = abs(d - math.log(10.0) / 2.0) < 1e-9
    c.notes.append("log10 rule of the tree: %s" % ("ln10*u'/u (pinned, finding F21): model variant deriv_pinned used for the correspondence"
                                                    if pinned else "u'/(ln10*u): model variant deriv used"))
    rc, mout, merr = c.run([ml, "pinned" if pinned else "fixed"], input=min_, timeout=1200)
    if rc != 0:
        c.report("model-driver", "the model driver failed: " + merr[-400:], {"stderr": merr[-3000:]}, False)
        return
    c.log("real code and model executed on %d cases" % len(cases))
    M = {}
    for l in mout.splitlines():
        t = l.split()
        if len(t) == 7 and t[0] == "M":
            M[int(t[1])] = t[2:]
    # ---- compare
    stats = {"value_compared": 0, "deriv_compared": 0, "refused_both": 0, "skipped_domain": 0, "skipped_illcond": 0,
             "fd_checked": 0, "second_order": 0}
    rule_hits = {}
    nbad = [0]
    for cs in cases:
        cid, e, mode, p, unit = cs
        f = cxx(e)
        r, m = R.get(cid), M.get(cid)
        pt = dict(zip(VARS, p))
        vname = VARS[int(mode.split(":")[1])] if mode != "V" else "-"
        rep = {"formula": f, "mode": mode, "variable": vname, "point": pt, "model_sexpr": sx(e), "cxx": r, "model": m,
               "how": "props/C14/driver.cxx: Evaluator ev({x,y,z}, formula); ev.differentiate(i)->getValue()"}
        key = "%s:%s:%s" % (f, mode, ",".join("%g" % v for v in p))
        if r is None or m is None:
            c.report("lost:" + key, "no result for case %s" % f, rep, False)
            continue
        c.count(1, (f, mode), True)
        if len(c.coverage["samples"]) < 8 and cid % 211 == 7:
            c.sample({"formula": f, "mode": mode, "point": pt, "cxx": r[:4], "model": m})
        fstat, fval, dstat, dval, fd = r[0], fnum(r[1]), r[2], fnum(r[3]), fnum(r[4])
        mf, mf2, mdstat, md, md2 = fnum(m[0]), fnum(m[1]), m[2], fnum(m[3]), fnum(m[4])
        if fstat == "CRASH":
            c.report("crash:" + ("%s:%s" % (f, mode) if unit else key),
                     "the real evaluator crashed (%s) on formula '%s' (%s w.r.t. %s) at %s" % (r[-1], f, mode, vname, pt), rep, True)
            continue
        if fstat == "PARSE":
            c.report("parse:" + f, "well-formed formula '%s' rejected by the evaluator: %s" % (f, " ".join(r[5:])), rep, True)
            continue
        # value
        if fstat == "OK" and math.isfinite(fval) and math.isfinite(mf) and math.isfinite(mf2):
            ok, tol = close(fval, mf, mf2)
            if tol > 1e-4 * max(1.0, abs(mf)):
                stats["skipped_illcond"] += 1
            else:
                stats["value_compared"] += 1
                if not ok:
                    c.report("value:" + key, "getValue of '%s' at %s is %.15g, the model evaluates %.15g" % (f, pt, fval, mf), rep, True)
        if mode == "V":
            continue
        # refusal <-> None
        if (dstat == "UNIMPL") != (mdstat == "NONE"):
            c.report("refusal:" + ("%s:%s" % (f, mode) if unit else key),
                     "differentiate('%s', %s): the code %s, the model's rules %s" % (
                         f, vname, "throws 'unimplemented feature'" if dstat == "UNIMPL" else "answers (%s)" % dstat,
                         "refuse (None)" if mdstat == "NONE" else "answer"), rep, True)
            continue
        if dstat == "UNIMPL":
            stats["refused_both"] += 1
            continue
        in_dom = (fstat == "OK" and math.isfinite(fval))
        if dstat != "OK" or not in_dom or not (math.isfinite(md) and math.isfinite(md2)) or not math.isfinite(dval):
            if unit and not (dstat == "EXC" and not in_dom):
                c.report("unit:" + "%s:%s" % (f, mode), "unit case '%s' (%s) at %s could not be evaluated: code %s %s, model %s" % (
                    f, mode, pt, dstat, r[3], m[2:]), rep, True)
            stats["skipped_domain"] += 1
            continue
        ok, tol = close(dval, md, md2)
        if tol > 1e-4 * max(1.0, abs(md)):
            stats["skipped_illcond"] += 1
            if not unit:
                continue
        stats["deriv_compared"] += 1
        if mode.startswith("DD"):
            stats["second_order"] += 1
        for nm in _rules_of(e):
            rule_hits[nm] = rule_hits.get(nm, 0) + 1
        fdtxt = ""
        if mode.startswith("D:") and math.isfinite(fd):
            fdtxt = "; central finite difference of the real getValue: %.9g" % fd
        if not ok:
            nbad[0] += 1
            if nbad[0] > 12:
                continue
            c.report("deriv:" + key, "differentiate('%s', %s)%s evaluates to %.15g at %s, the model's rule gives %.15g (tolerance %.3g)%s" % (
                f, vname, " differentiated again (%s)" % mode if mode.startswith("DD") else "", dval, pt, md, tol, fdtxt), rep, True)
            continue
        # independent statement on the unit suite: the derivative returned by the code against finite differences of the code
        if unit and mode.startswith("D:") and math.isfinite(fd):
            stats["fd_checked"] += 1
            if abs(dval - fd) > 2e-5 * max(1.0, abs(fd), abs(dval)):
                if pinned and "log10" in f:
                    continue  # same root cause as the reported log10 finding
                c.report("fd:" + "%s:%s" % (f, mode), "differentiate('%s', %s) evaluates to %.12g at %s, finite differences of getValue give %.12g" % (
                    f, vname, dval, pt, fd), rep, True)
    if nbad[0] > 12:
        c.notes.append("%d derivative mismatches in all, the first 12 reported (unit suite first)" % nbad[0])
    c.log("correspondence done: %s" % stats)
    c.coverage.update({"comparisons": stats, "rule_hits": dict(sorted(rule_hits.items())),
                       "unit_cases": nunit, "generated_formulas": nform})
    c.coverage["rule"] = ("unit suite: every differentiateFunction specialisation (13) with u'=1, constant u', general u', independent u, second "
                          "order; every BinaryOperation rule (5) x every dependency pattern; PowerFunction<N> N=-16..16 both spellings, "
                          "GeneralPowerFunction +-17,18,20; Negation, Variable, Number, ConditionalExpr (and/or/not), ExponentDerivative, every "
                          "function without a rule (14+4) refused directly/under an operator and accepted where not differentiated, "
                          "diff(F,v) nodes; plus seeded grammar-generated trees (depth <= %d) x 2 points, first and second order. A case counts "
                          "when code and model are both finite and well conditioned." % c.pick(5, 8))
    c.trusted("props/C14/driver.cxx (calls Evaluator, differentiate, getValue of the sources compiled from the working tree; fork per case)",
              "props/C14/drv.ml: OCaml float operations record passed to the extracted eval (libm through OCaml; Lanczos gamma for tgamma/lgamma "
              "positions), s-expression reader, elaboration of diff(F,v) nodes by the model's deriv",
              "check.py printers of one AST to the C++ formula text and to the model s-expression (fully parenthesised)",
              "model abstractions (value-preserving): applyChainRule drops only the literal 1; Number(value(b)-1) modelled as b-1; "
              "PowerFunction<N>/GeneralPowerFunction merged into PowN")
    # ---- theorems
    props = "Properties_C14_finding.v" if pinned else "Properties_C14.v"
    res = c.coq(["C14Model.v", "C14Spec.v", "C14Proofs.v", props], timeout=900)
    if not res.ok:
        c.coq_failures(res)


def _rules_of(e, acc=None):
    acc = set() if acc is None else acc
    k = e[0]
    if k in ("fun", "ufun", "bfun"):
        acc.add(e[1])
    elif k == "bin":
        acc.add("op" + BOPS[e[1]])
    elif k in ("pown", "neg", "cond", "diff"):
        acc.add(k)
    for a in e[1:]:
        if isinstance(a, tuple) and a and isinstance(a[0], str) and a[0] in (
                "num", "var", "neg", "bin", "pown", "fun", "ufun", "bfun", "cond", "diff"):
            _rules_of(a, acc)
    return acc


guarded_main("C14", main)

(* C14 -- property theorems for the pinned tree, whose log10 rule is ln10*u'/u (finding F21).
   [deriv_pinned] mirrors the code as it is. *)
From Coq Require Import Reals ZArith QArith.
From Coquelicot Require Import Coquelicot.
From C14 Require Import C14Model C14Spec C14Proofs.
Local Open Scope R_scope.

(* every rule but log10: on formulas without log10 the code's answer is the partial derivative *)
Theorem C14_differentiate_is_derivative_except_log10 :
  forall uf bf e, no_log10 e = true -> deriv_correct_on uf bf deriv_pinned e.
Proof. exact (fun uf bf e H => deriv_sound uf bf true e (or_intror H)). Qed.
Print Assumptions C14_differentiate_is_derivative_except_log10.

(* the property is false of the pinned rule: d/dx log10(x) at x = 1 *)
Theorem C14_log10_refuted :
  exists e x d env, deriv_pinned e x = Some d /\ (forall uf bf, indom uf bf env x e) /\
    (forall uf bf, ~ is_derive (fun v => eval (Rops uf bf) (upd env x v) e) (env x) (eval (Rops uf bf) env d)).
Proof. exact log10_pinned_refuted. Qed.
Print Assumptions C14_log10_refuted.

(* with the rule u'/(ln10*u) instead, the property holds for every formula *)
Theorem C14_repaired_rules_correct : deriv_correct deriv.
Proof. exact (fun uf bf e => deriv_sound uf bf false e (or_introl eq_refl)). Qed.
Print Assumptions C14_repaired_rules_correct.

Theorem C14_elementary_rules : forall f u, dfn_dom f u -> is_derive (Rdfun f) u (Rdfun' f u).
Proof. exact dfn_derive. Qed.
Print Assumptions C14_elementary_rules.

Theorem C14_supported_total : forall e x, supported e = true -> exists d, deriv_pinned e x = Some d.
Proof. exact (supported_total true). Qed.
Print Assumptions C14_supported_total.

Theorem C14_unsupported_refused :
  (forall f e x, deriv_pinned (UFun f e) x = None) /\ (forall f a b x, deriv_pinned (BFun f a b) x = None).
Proof. split; reflexivity. Qed.
Print Assumptions C14_unsupported_refused.

(* C14 / C13 -- executable model of tfel::math::parser expression trees (include/TFEL/Math/Parser/*.hxx):
   the node kinds, their evaluation (getValue) over an abstract scalar, dependsOnVariable and the symbolic
   differentiation rules (differentiate), mirrored rule by rule from
     src/Math/Number.cxx, Variable.cxx, Negation.cxx, BinaryOperator.cxx, PowerFunction.cxx (+ PowerFunction.ixx),
     Function.cxx (+ Function.ixx), BinaryFunction.cxx, ConditionalExpr.cxx, Expr.cxx (applyChainRule).
   Definitions only.  [deriv_gen true] mirrors the log10 rule as it is written in the pinned tree
   (ln10 * u' / u); [deriv_gen false] has the rule u' / (ln10 * u). *)
From Coq Require Import ZArith QArith List Bool.
Import ListNotations.

(* functions of the table of Evaluator::FunctionGeneratorManager that have a differentiateFunction specialisation *)
Inductive dfn := Exp | Sin | Cos | Tan | Sqrt | Log | Log10 | Asin | Acos | Atan | Sinh | Cosh | Tanh.
(* functions of the table without one: differentiate throws "unimplemented feature" *)
Inductive ufn := Abs | Exp2 | Expm1 | Cbrt | Log2 | Log1p | Acosh | Asinh | Atanh | Erf | Erfc | Tgamma | Lgamma | Heav.
(* StandardBinaryFunction: differentiate throws "unimplemented feature" *)
Inductive bfn := Max | Min | Hypot | Atan2.
Inductive bop := Plus | Minus | Mult | Div | Pow.
Inductive cmp := CEq | CGt | CGe | CLt | CLe.

Inductive expr :=
| Num (q : Q)                      (* parser::Number *)
| Ln10                             (* the Number("log(10)", ln10) built by the log10 rule *)
| Var (i : nat)                    (* parser::Variable (position) *)
| Neg (e : expr)                   (* parser::Negation *)
| Bin (o : bop) (a b : expr)       (* parser::BinaryOperation<Op> *)
| PowN (n : Z) (e : expr)          (* parser::PowerFunction<N> / GeneralPowerFunction *)
| Fun (f : dfn) (e : expr)         (* parser::StandardFunction<f>, differentiable *)
| UFun (f : ufn) (e : expr)        (* parser::StandardFunction<f>, not differentiable *)
| BFun (f : bfn) (a b : expr)      (* parser::StandardBinaryFunction<f> *)
| Cond (c : lexpr) (a b : expr)    (* parser::ConditionalExpr *)
| ExpDeriv (a b d : expr)          (* BinaryOperator.cxx: ExponentDerivative (fields a, b, derivative) *)
with lexpr :=
| LCmp (o : cmp) (a b : expr)      (* parser::LogicalOperation<Op> *)
| LAnd (a b : lexpr)
| LOr (a b : lexpr)
| LNot (a : lexpr).

Definition zero := Num 0.
Definition one := Num 1.

(* scalar operations; instantiated with R for the theorems and with OCaml floats (by the driver) for execution *)
Record NumOps (T : Type) := {
  ofZ : Z -> T;
  add : T -> T -> T; sub : T -> T -> T; mul : T -> T -> T; div : T -> T -> T; opp : T -> T;
  pow : T -> T -> T;              (* std::pow(a, b) *)
  powz : T -> Z -> T;             (* tfel::math::power<N>(a), std::pow(a, int) *)
  dfun : dfn -> T -> T; ufun : ufn -> T -> T; bfun : bfn -> T -> T -> T;
  ln10 : T;
  ltb : T -> T -> bool; leb : T -> T -> bool; eqb : T -> T -> bool
}.
Arguments ofZ {T}. Arguments add {T}. Arguments sub {T}. Arguments mul {T}. Arguments div {T}. Arguments opp {T}.
Arguments pow {T}. Arguments powz {T}. Arguments dfun {T}. Arguments ufun {T}. Arguments bfun {T}. Arguments ln10 {T}.
Arguments ltb {T}. Arguments leb {T}. Arguments eqb {T}.

Section Eval.
  Context {T : Type} (ops : NumOps T).
  Definition ofQ (q : Q) : T := div ops (ofZ ops (Qnum q)) (ofZ ops (Zpos (Qden q))).

  (* getValue *)
  Fixpoint eval (env : nat -> T) (e : expr) : T :=
    match e with
    | Num q => ofQ q
    | Ln10 => ln10 ops
    | Var i => env i
    | Neg a => opp ops (eval env a)
    | Bin o a b =>
      let va := eval env a in let vb := eval env b in
      match o with
      | Plus => add ops va vb | Minus => sub ops va vb | Mult => mul ops va vb
      | Div => div ops va vb | Pow => pow ops va vb
      end
    | PowN n a => powz ops (eval env a) n
    | Fun f a => dfun ops f (eval env a)
    | UFun f a => ufun ops f (eval env a)
    | BFun f a b => bfun ops f (eval env a) (eval env b)
    | Cond c a b => if evall env c then eval env a else eval env b
    | ExpDeriv a b d =>
      (* ExponentDerivative::getValue *)
      if eqb ops (eval env a) (ofZ ops 0) && ltb ops (ofZ ops 0) (eval env b) then ofZ ops 0 else eval env d
    end
  with evall (env : nat -> T) (c : lexpr) : bool :=
    match c with
    | LCmp o a b =>
      let va := eval env a in let vb := eval env b in
      match o with
      | CEq => eqb ops va vb | CGt => ltb ops vb va | CGe => leb ops vb va
      | CLt => ltb ops va vb | CLe => leb ops va vb
      end
    | LAnd a b => evall env a && evall env b
    | LOr a b => evall env a || evall env b
    | LNot a => negb (evall env a)
    end.
End Eval.

(* dependsOnVariable *)
Fixpoint depends (e : expr) (x : nat) : bool :=
  match e with
  | Num _ | Ln10 => false
  | Var i => Nat.eqb i x
  | Neg a | PowN _ a | Fun _ a | UFun _ a => depends a x
  | Bin _ a b | BFun _ a b => depends a x || depends b x
  | Cond c a b => depends a x || depends b x || dependsl c x
  (* the code asks the field `derivative`, which the constructor builds from a, b, db: same answer on the nodes
     that differentiation builds *)
  | ExpDeriv a b d => depends a x || depends b x || depends d x
  end
with dependsl (c : lexpr) (x : nat) : bool :=
  match c with
  | LCmp _ a b => depends a x || depends b x
  | LAnd a b | LOr a b => dependsl a x || dependsl b x
  | LNot a => dependsl a x
  end.

(* Expr.cxx applyChainRule(d1, d2): d1 when d2 is a constant of value 1, d1*d2 otherwise.  The model recognises the
   literal 1 (what Variable::differentiate returns); on other constant expressions of value 1 the code drops a
   factor whose value is 1, which does not change the value of the result. *)
Definition chain (d1 d2 : expr) : expr :=
  match d2 with
  | Num q => if Qeq_bool q 1 then d1 else Bin Mult d1 d2
  | _ => Bin Mult d1 d2
  end.

Definition obind {A B} (o : option A) (f : A -> option B) : option B :=
  match o with Some a => f a | None => None end.

(* Function.cxx: differentiateFunction<f>(expr = u, de = u') -- the part after the dependsOnVariable test *)
Definition dfun_rule (buggy_log10 : bool) (f : dfn) (u du : expr) : expr :=
  match f with
  | Exp => chain (Fun Exp u) du
  | Sin => chain (Fun Cos u) du
  | Cos => chain (Neg (Fun Sin u)) du
  | Tan => chain (Bin Plus one (Bin Mult (Fun Tan u) (Fun Tan u))) du
  | Sqrt => chain (Bin Div (Num (1 # 2)) (Fun Sqrt u)) du
  | Log => Bin Div du u
  | Log10 => if buggy_log10 then Bin Div (Bin Mult Ln10 du) u          (* pinned tree *)
             else Bin Div du (Bin Mult Ln10 u)
  | Asin => Bin Div du (Fun Sqrt (Bin Minus one (Bin Mult u u)))
  | Acos => Bin Div (Bin Mult (Num (-1)) du) (Fun Sqrt (Bin Minus one (Bin Mult u u)))
  | Atan => Bin Div du (Bin Plus one (Bin Mult u u))
  | Sinh => chain (Fun Cosh u) du
  | Cosh => chain (Fun Sinh u) du
  | Tanh => Bin Div du (Bin Mult (Fun Cosh u) (Fun Cosh u))
  end.

Section Deriv.
  Variable buggy_log10 : bool.

  (* Expr::differentiate(pos, v); None = the code throws "unimplemented feature" *)
  Fixpoint deriv_gen (e : expr) (x : nat) : option expr :=
    match e with
    | Num _ | Ln10 => Some zero
    | Var i => Some (if Nat.eqb i x then one else zero)
    | Neg a => option_map Neg (deriv_gen a x)
    | Bin o a b =>
      let ba := depends a x in
      let bb := depends b x in
      if negb ba && negb bb then Some zero else
      match o with
      | Plus =>
        if ba && negb bb then deriv_gen a x
        else if negb ba && bb then deriv_gen b x
        else obind (deriv_gen a x) (fun da => obind (deriv_gen b x) (fun db => Some (Bin Plus da db)))
      | Minus =>
        if ba && negb bb then deriv_gen a x
        else if negb ba && bb then option_map Neg (deriv_gen b x)
        else obind (deriv_gen a x) (fun da => obind (deriv_gen b x) (fun db => Some (Bin Minus da db)))
      | Mult =>
        if ba && negb bb then option_map (fun da => Bin Mult da b) (deriv_gen a x)
        else if negb ba && bb then option_map (fun db => Bin Mult a db) (deriv_gen b x)
        else obind (deriv_gen a x) (fun da => obind (deriv_gen b x) (fun db =>
               Some (Bin Plus (Bin Mult da b) (Bin Mult a db))))
      | Div =>
        if ba && negb bb then option_map (fun da => Bin Div da b) (deriv_gen a x)
        else if negb ba && bb then
          option_map (fun db => Neg (Bin Div (Bin Mult a db) (Bin Mult b b))) (deriv_gen b x)
        else obind (deriv_gen a x) (fun da => obind (deriv_gen b x) (fun db =>
               Some (Bin Minus (Bin Div da b) (Bin Div (Bin Mult a db) (Bin Mult b b)))))
      | Pow =>
        (* exponent of the a-derivative: Number(value(b)-1) when b is constant, b-1 otherwise: same value *)
        let wrt_a := option_map (fun da => chain (Bin Mult b (Bin Pow a (Bin Minus b one))) da) (deriv_gen a x) in
        let wrt_b := option_map (fun db => ExpDeriv a b (chain (Bin Mult (Fun Log a) (Bin Pow a b)) db))
                                (deriv_gen b x) in
        if ba && negb bb then wrt_a
        else if negb ba && bb then wrt_b
        else obind wrt_a (fun d1 => obind wrt_b (fun d2 => Some (Bin Plus d1 d2)))
      end
    | PowN n a =>
      (* PowerFunction<N>::differentiate (N=0, N=1 special), GeneralPowerFunction::differentiate *)
      if Z.eqb n 0 then Some zero
      else if Z.eqb n 1 then deriv_gen a x
      else option_map (fun da => chain (Bin Mult (Num (inject_Z n)) (PowN (n - 1) a)) da) (deriv_gen a x)
    | Fun f u =>
      if negb (depends u x) then Some zero
      else option_map (fun du => dfun_rule buggy_log10 f u du) (deriv_gen u x)
    | UFun _ _ => None
    | BFun _ _ _ => None
    | Cond c a b =>
      if negb (depends a x) && negb (depends b x) then Some zero
      else obind (deriv_gen a x) (fun da => obind (deriv_gen b x) (fun db => Some (Cond c da db)))
    | ExpDeriv _ _ d => deriv_gen d x
    end.
End Deriv.

(* the rules as they should be / as they are in the pinned tree (log10) *)
Definition deriv := deriv_gen false.
Definition deriv_pinned := deriv_gen true.

(* no node whose differentiation is refused *)
Fixpoint supported (e : expr) : bool :=
  match e with
  | Num _ | Ln10 | Var _ => true
  | Neg a | PowN _ a | Fun _ a => supported a
  | UFun _ _ | BFun _ _ _ => false
  | Bin _ a b => supported a && supported b
  | Cond _ a b => supported a && supported b
  | ExpDeriv a b d => supported d
  end.

From Coq Require Import Reals ZArith QArith Qreals List Bool Lra Lia FunctionalExtensionality.
From Coquelicot Require Import Coquelicot.
From VLib Require Import RealExtra.
From C14 Require Import C14Model C14Spec.
Local Open Scope R_scope.

Section Rules.
  Variables (fa fb : R -> R) (x la lb : R).
  Hypothesis Ha : is_derive fa x la.
  Hypothesis Hb : is_derive fb x lb.
  Let Ea : Derive (fun v : R => fa v) x = la.
  Proof. apply is_derive_unique; exact Ha. Qed.
  Let Eb : Derive (fun v : R => fb v) x = lb.
  Proof. apply is_derive_unique; exact Hb. Qed.

  Lemma r_plus : is_derive (fun v => fa v + fb v) x (la + lb).
  Proof. auto_derive. repeat split; eexists; eassumption. rewrite Ea, Eb. ring. Qed.
  Lemma r_minus : is_derive (fun v => fa v - fb v) x (la - lb).
  Proof. auto_derive. repeat split; eexists; eassumption. rewrite Ea, Eb. ring. Qed.
  Lemma r_mult : is_derive (fun v => fa v * fb v) x (la * fb x + fa x * lb).
  Proof. auto_derive. repeat split; eexists; eassumption. rewrite Ea, Eb. ring. Qed.
  Lemma r_div : fb x <> 0 -> is_derive (fun v => fa v / fb v) x (la / fb x - fa x * lb / (fb x * fb x)).
  Proof. intros H. auto_derive. repeat split; try (eexists; eassumption); auto.
    rewrite Ea, Eb. field; auto. Qed.
  Lemma r_pow : 0 < fa x ->
    is_derive (fun v => Rpower (fa v) (fb v)) x
      (fb x * Rpower (fa x) (fb x - 1) * la + ln (fa x) * Rpower (fa x) (fb x) * lb).
  Proof. intros H. unfold Rpower. auto_derive. repeat split; try (eexists; eassumption); auto.
    rewrite Ea, Eb.
    replace ((fb x - 1) * ln (fa x)) with (fb x * ln (fa x) + - ln (fa x)) by ring.
    rewrite exp_plus, exp_Ropp, exp_ln by lra. field; lra. Qed.
  Lemma r_opp : is_derive (fun v => - fa v) x (- la).
  Proof. auto_derive. repeat split; eexists; eassumption. rewrite Ea. ring. Qed.
  (* composition with an elementary function *)
  Lemma r_comp (g : R -> R) (lg : R) : is_derive g (fa x) lg -> is_derive (fun v => g (fa v)) x (la * lg).
  Proof. intros Hg. apply (is_derive_comp g fa x lg la Hg Ha). Qed.
End Rules.

(* derivatives of the elementary functions on their open domains, in the shape of the outer factor that the
   rules of Function.cxx ought to build *)
Definition Rdfun' (f : dfn) (u : R) : R :=
  match f with
  | Exp => exp u | Sin => cos u | Cos => - sin u | Tan => 1 + tan u * tan u
  | Sqrt => (1 / 2) / sqrt u | Log => / u | Log10 => / (ln 10 * u)
  | Asin => / sqrt (1 - u * u) | Acos => - / sqrt (1 - u * u) | Atan => / (1 + u * u)
  | Sinh => cosh u | Cosh => sinh u | Tanh => / (cosh u * cosh u)
  end.

Lemma ln10_pos : 0 < ln 10.
Proof. rewrite <- ln_1. apply ln_increasing; lra. Qed.

Lemma cosh_pos u : 0 < cosh u.
Proof. unfold cosh. pose proof (exp_pos u); pose proof (exp_pos (- u)); lra. Qed.

Lemma dfn_derive f u : dfn_dom f u -> is_derive (Rdfun f) u (Rdfun' f u).
Proof.
  destruct f; cbn [Rdfun Rdfun' dfn_dom]; intros H.
  - auto_derive; [exact I|ring].
  - auto_derive; [exact I|ring].
  - auto_derive; [exact I|ring].
  - pose proof (is_derive_tan u H) as D. replace (1 + tan u * tan u) with (tan u ^ 2 + 1) by ring. exact D.
  - auto_derive; [exact H|]. field. apply Rgt_not_eq, sqrt_lt_R0, H.
  - auto_derive; [exact H|]. field. lra.
  - unfold Rlog10. auto_derive; [exact H|]. field. pose proof ln10_pos; split; lra.
  - apply is_derive_Reals. apply (derive_pt_eq_1 asin u _ (derivable_pt_asin u H)).
    rewrite derive_pt_asin. unfold Rsqr. field. apply Rgt_not_eq, sqrt_lt_R0. nra.
  - apply is_derive_Reals. apply (derive_pt_eq_1 acos u _ (derivable_pt_acos u H)).
    rewrite derive_pt_acos. unfold Rsqr. field. apply Rgt_not_eq, sqrt_lt_R0. nra.
  - pose proof (is_derive_atan u) as D. unfold Rsqr in D. exact D.
  - unfold sinh, cosh. auto_derive; [exact I|]. field.
  - unfold sinh, cosh. auto_derive; [exact I|]. field.
  - unfold tanh, sinh, cosh. pose proof (exp_pos u) as Ha.
    auto_derive; rewrite ?exp_Ropp; set (a := exp u) in *.
    + assert (0 < / a) by (apply Rinv_0_lt_compat; exact Ha). lra.
    + field. split; [lra|nra].
Qed.
Lemma is_derive_eq (f : R -> R) x l l' : is_derive f x l -> l = l' -> is_derive f x l'.
Proof. intros H <-. exact H. Qed.

Ltac fixeq := match goal with |- ?a = ?b => change (@eq R a b) end.

Lemma is_derive_powz n r0 : ((n < 0)%Z -> r0 <> 0) ->
  is_derive (fun r => powerRZ r n) r0 (IZR n * powerRZ r0 (n - 1)).
Proof.
  intros H. destruct n as [|p|p].
  - cbn [powerRZ]. eapply is_derive_eq. apply @is_derive_const. cbn. unfold zero; cbn. ring.
  - destruct (Pos2Nat.is_succ p) as [k Hk].
    assert (E : (Z.pos p - 1 = Z.of_nat k)%Z) by lia.
    rewrite E, <- pow_powerRZ. cbn [powerRZ]. rewrite Hk.
    eapply is_derive_eq. { auto_derive. exact I. reflexivity. }
    cbn [pred]. change (match k with | 0%nat => 1 | S _ => INR k + 1 end) with (INR (S k)).
    fixeq. replace (IZR (Z.pos p)) with (INR (S k)); [ring|].
    rewrite INR_IZR_INZ. f_equal. lia.
  - destruct (Pos2Nat.is_succ p) as [k Hk].
    assert (Hr : r0 <> 0) by (apply H; lia).
    assert (E : (Z.neg p - 1 = Z.neg (Pos.succ p))%Z) by lia.
    rewrite E. cbn [powerRZ]. rewrite Pos2Nat.inj_succ, Hk.
    assert (Hk' : r0 ^ k <> 0) by (apply pow_nonzero; exact Hr).
    eapply is_derive_eq. { auto_derive. cbn. apply Rmult_integral_contrapositive_currified; assumption. reflexivity. }
    cbn [pred]. change (match k with | 0%nat => 1 | S _ => INR k + 1 end) with (INR (S k)).
    fixeq. replace (IZR (Z.neg p)) with (- INR (S k)).
    2:{ rewrite INR_IZR_INZ, <- opp_IZR. f_equal. lia. }
    rewrite S_INR. change (r0 ^ S (S k)) with (r0 * (r0 * r0 ^ k)). field. split; assumption.
Qed.

Scheme expr_ind2 := Induction for expr Sort Prop
  with lexpr_ind2 := Induction for lexpr Sort Prop.
Combined Scheme expr_lexpr_ind from expr_ind2, lexpr_ind2.

Lemma upd_same env x : upd env x (env x) = env.
Proof. extensionality i. unfold upd. destruct (Nat.eqb_spec i x); subst; reflexivity. Qed.

Section Main.
  Variables (uf : ufn -> R -> R) (bf : bfn -> R -> R -> R).
  Notation ops := (Rops uf bf).
  Notation ev := (eval ops).
  Notation evl := (evall ops).

  Lemma eval_Cond env c a b : ev env (Cond c a b) = if evl env c then ev env a else ev env b.
  Proof. reflexivity. Qed.

  Lemma ev_zero env : ev env zero = 0.
  Proof. cbn. unfold ofQ; cbn. lra. Qed.
  Lemma ev_one env : ev env one = 1.
  Proof. cbn. unfold ofQ; cbn. lra. Qed.
  Lemma ev_numZ env n : ev env (Num (inject_Z n)) = IZR n.
  Proof. cbn. unfold ofQ; cbn. field. Qed.

  Lemma ofQ_one q : Qeq_bool q 1 = true -> ofQ ops q = 1.
  Proof.
    intros H. apply Qeq_bool_iff in H. unfold Qeq in H. cbn in H. unfold ofQ. cbn.
    assert (E : Qnum q = Z.pos (Qden q)) by lia. rewrite E. field.
    apply IZR_neq. lia.
  Qed.

  Lemma chain_eval env d1 d2 : ev env (chain d1 d2) = ev env d1 * ev env d2.
  Proof.
    destruct d2; try reflexivity. cbn [chain].
    destruct (Qeq_bool q 1) eqn:E; [|reflexivity].
    cbn [eval]. rewrite (ofQ_one _ E). ring.
  Qed.

  Lemma eval_nodep_mut :
    (forall e env x v, depends e x = false -> ev (upd env x v) e = ev env e) /\
    (forall c env x v, dependsl c x = false -> evl (upd env x v) c = evl env c).
  Proof.
    apply expr_lexpr_ind; intros; cbn [depends dependsl] in *;
      repeat match goal with
             | H : _ || _ = false |- _ => apply orb_false_elim in H; destruct H
             end;
      cbn [eval evall];
      repeat match goal with
             | IH : forall env x v, depends ?a x = false -> _, D : depends ?a ?x = false |- _ =>
               rewrite (IH _ _ _ D); clear IH
             | IH : forall env x v, dependsl ?a x = false -> _, D : dependsl ?a ?x = false |- _ =>
               rewrite (IH _ _ _ D); clear IH
             end; try reflexivity.
    all: try (unfold upd; rewrite H; reflexivity).
  Qed.
  Definition eval_nodep := proj1 eval_nodep_mut.
  Definition evall_nodep := proj2 eval_nodep_mut.

  Lemma nodep_is_derive e env x : depends e x = false -> is_derive (fun v => ev (upd env x v) e) (env x) 0.
  Proof.
    intros D. apply (is_derive_ext (fun _ => ev env e)).
    - intros t. symmetry. apply eval_nodep, D.
    - apply @is_derive_const.
  Qed.

  (* a formula that does not depend on x: whatever the rules answer evaluates to 0 *)
  Lemma nodep_deriv_zero b e : forall x d env, depends e x = false -> deriv_gen b e x = Some d -> ev env d = 0.
  Proof.
    induction e using expr_ind2 with (P0 := fun _ => True); try exact I; intros x d env D Hd;
      cbn [depends] in D; cbn [deriv_gen] in Hd.
    - injection Hd as <-. apply ev_zero.
    - injection Hd as <-. apply ev_zero.
    - rewrite D in Hd. injection Hd as <-. apply ev_zero.
    - destruct (deriv_gen b e x) eqn:E; [|discriminate]. injection Hd as <-. cbn. rewrite (IHe _ _ env D E). ring.
    - apply orb_false_elim in D. destruct D as [Da Db]. rewrite Da, Db in Hd. cbn in Hd. injection Hd as <-. apply ev_zero.
    - destruct (Z.eqb n 0); [injection Hd as <-; apply ev_zero|].
      destruct (Z.eqb n 1); [eapply IHe; eassumption|].
      destruct (deriv_gen b e x) eqn:E; [|discriminate]. injection Hd as <-.
      rewrite chain_eval, (IHe _ _ env D E). ring.
    - rewrite D in Hd. cbn in Hd. injection Hd as <-. apply ev_zero.
    - discriminate.
    - discriminate.
    - apply orb_false_elim in D. destruct D as [D Dc]. apply orb_false_elim in D. destruct D as [Da Db].
      rewrite Da, Db in Hd. cbn in Hd. injection Hd as <-. apply ev_zero.
    - apply orb_false_elim in D. destruct D as [_ D]. eapply IHe3; eassumption.
  Qed.

  Lemma nodep_case b e x d env :
    depends e x = false -> deriv_gen b e x = Some d -> is_derive (fun v => ev (upd env x v) e) (env x) (ev env d).
  Proof. intros D Hd. rewrite (nodep_deriv_zero b e x d env D Hd). apply nodep_is_derive, D. Qed.

  Lemma dfun_rule_eval b f u du env :
    (b = false \/ f <> Log10) -> dfn_dom f (ev env u) ->
    ev env (dfun_rule b f u du) = ev env du * Rdfun' f (ev env u).
  Proof.
    intros Hb H.
    destruct f; cbn [dfun_rule]; rewrite ?chain_eval; cbn [eval dfn_dom Rdfun'] in *;
      change (ofQ ops 1) with (ev env one); rewrite ?ev_one;
      cbn [add sub mul div opp dfun ln10 Rops Rdfun].
    - ring.
    - ring.
    - ring.
    - ring.
    - unfold ofQ; cbn. ring.
    - unfold Rdiv; ring.
    - destruct Hb as [-> | Hb]; [|congruence]. cbn [eval]. cbn [add sub mul div opp dfun ln10 Rops Rdfun].
      field. pose proof ln10_pos. split; lra.
    - unfold Rdiv; ring.
    - unfold ofQ; cbn. field. apply Rgt_not_eq, sqrt_lt_R0. nra.
    - unfold Rdiv; ring.
    - ring.
    - ring.
    - unfold Rdiv; ring.
  Qed.

  Ltac inv_opt H :=
    repeat match type of H with
           | context [deriv_gen ?b ?a ?x] =>
             let E := fresh "E" in destruct (deriv_gen b a x) eqn:E; cbn [option_map obind] in H; try discriminate H
           end;
    try (injection H as <-).

  Lemma reqb_false a : 0 < a -> Reqb a 0 = false.
  Proof. intros H. unfold Reqb. destruct (Req_EM_T a 0); [lra|reflexivity]. Qed.

  Theorem deriv_sound b e : (b = false \/ no_log10 e = true) -> deriv_correct_on uf bf (deriv_gen b) e.
  Proof.
    induction e using expr_ind2 with (P0 := fun _ => True); try exact I; intros Hb x d env Hd Hdom;
      (destruct (depends _ x) eqn:De in Hdom; [specialize (Hdom eq_refl) | apply (nodep_case b _ x d env De Hd)]);
      cbn [depends] in De; cbn [deriv_gen] in Hd; cbn [indom] in Hdom.
    - discriminate.
    - discriminate.
    - (* Var *) rewrite De in Hd. injection Hd as <-. rewrite ev_one.
      apply (is_derive_ext (fun v => v)).
      + intros t. cbn. unfold upd. rewrite De. reflexivity.
      + apply @is_derive_id.
    - (* Neg *) inv_opt Hd. cbn [eval opp Rops].
      apply r_opp. apply IHe; [destruct Hb; auto | exact E | exact Hdom].
    - (* Bin *)
      assert (Hba : b = false \/ no_log10 e1 = true).
      { destruct Hb as [Hb|Hb]; [auto|]. cbn in Hb. apply andb_prop in Hb. tauto. }
      assert (Hbb : b = false \/ no_log10 e2 = true).
      { destruct Hb as [Hb|Hb]; [auto|]. cbn in Hb. apply andb_prop in Hb. tauto. }
      destruct Hdom as (Sa & Sb & Hop).
      pose proof (fun da E => IHe1 Hba x da env E Sa) as Ha.
      pose proof (fun db E => IHe2 Hbb x db env E Sb) as Hb'.
      clear IHe1 IHe2 Sa Sb.
      pose proof (nodep_is_derive e1 env x) as Na. pose proof (nodep_is_derive e2 env x) as Nb.
      destruct (depends e1 x) eqn:Da, (depends e2 x) eqn:Db; try discriminate De;
        cbn [negb andb] in Hd; destruct o; inv_opt Hd;
        try specialize (Ha _ eq_refl); try specialize (Hb' _ eq_refl);
        try specialize (Na eq_refl); try specialize (Nb eq_refl);
        cbn [eval add sub mul div pow Rops]; rewrite ?chain_eval; cbn [eval add sub mul div pow opp dfun Rdfun Rops].
      all: try match goal with
               | |- is_derive (fun v => @?A v + @?B v) ?p _ => eapply is_derive_eq; [apply (r_plus A B p); eassumption|fixeq; ring]
               | |- is_derive (fun v => @?A v - @?B v) ?p _ => eapply is_derive_eq; [apply (r_minus A B p); eassumption|fixeq; ring]
               | |- is_derive (fun v => @?A v * @?B v) ?p _ =>
                 eapply is_derive_eq; [apply (r_mult A B p); eassumption|fixeq; cbv beta; rewrite ?upd_same; ring]
               | |- is_derive (fun v => @?A v / @?B v) ?p _ =>
                 eapply is_derive_eq; [apply (r_div A B p); [eassumption|eassumption|cbv beta; rewrite upd_same; exact Hop]
                                      |fixeq; cbv beta; rewrite ?upd_same; field; exact Hop]
               | |- is_derive (fun v => Rpower (@?A v) (@?B v)) ?p _ =>
                 eapply is_derive_eq; [apply (r_pow A B p); [eassumption|eassumption|cbv beta; rewrite upd_same; exact Hop]
                                      |fixeq; cbv beta; rewrite ?upd_same;
                                       change (ofQ ops 1) with (ev env one); rewrite ?ev_one;
                                       cbn [ofZ eqb ltb Rops]; rewrite ?(reqb_false _ Hop); cbn [andb];
                                       rewrite ?chain_eval; cbn [eval add sub mul div pow opp dfun Rdfun Rops]; ring]
               end.
    - (* PowN *)
      destruct Hdom as (Sa & Hn).
      assert (Hba : b = false \/ no_log10 e = true) by (destruct Hb; auto).
      cbn [eval powz Rops]. unfold Rpowz.
      destruct (Z.eqb_spec n 0) as [->|N0].
      { injection Hd as <-. rewrite ev_zero. cbn [powerRZ]. apply @is_derive_const. }
      destruct (Z.eqb_spec n 1) as [->|N1].
      { apply (is_derive_ext (fun v => ev (upd env x v) e)).
        - intros t. rewrite powerRZ_1. reflexivity.
        - apply IHe; assumption. }
      inv_opt Hd. rewrite chain_eval. cbn [eval mul powz Rops]. unfold Rpowz.
      change (ofQ ops (inject_Z n)) with (ev env (Num (inject_Z n))). rewrite ev_numZ.
      pose proof (IHe Hba x _ env E Sa) as Ha.
      eapply is_derive_eq.
      { apply (r_comp _ _ _ Ha (fun r => powerRZ r n)). apply is_derive_powz. cbv beta. rewrite upd_same. exact Hn. }
      fixeq. cbv beta. rewrite upd_same. ring.
    - (* Fun *)
      destruct Hdom as (Sa & Hf). rewrite De in Hd. cbn [negb] in Hd. inv_opt Hd.
      assert (Hba : b = false \/ no_log10 e = true).
      { destruct Hb as [Hb|Hb]; [auto|]. right. cbn in Hb. destruct f; auto; discriminate. }
      assert (Hbf : b = false \/ f <> Log10).
      { destruct Hb as [Hb|Hb]; [auto|]. right. intros ->. cbn in Hb. discriminate. }
      pose proof (IHe Hba x _ env E Sa) as Ha.
      rewrite (dfun_rule_eval b f e e0 env Hbf Hf). cbn [eval dfun Rops].
      eapply is_derive_eq.
      { apply (r_comp _ _ _ Ha (Rdfun f)). apply dfn_derive. cbv beta. rewrite upd_same. exact Hf. }
      fixeq. cbv beta. rewrite upd_same. reflexivity.
    - discriminate.
    - discriminate.
    - (* Cond *)
      destruct Hdom as (Hloc & Hta & Hfb).
      assert (Hba : b = false \/ no_log10 e1 = true).
      { destruct Hb as [Hb|Hb]; [auto|]. cbn in Hb. apply andb_prop in Hb. tauto. }
      assert (Hbb : b = false \/ no_log10 e2 = true).
      { destruct Hb as [Hb|Hb]; [auto|]. cbn in Hb. apply andb_prop in Hb. tauto. }
      destruct (negb (depends e1 x) && negb (depends e2 x)) eqn:Dab.
      + injection Hd as <-. rewrite ev_zero.
        apply andb_prop in Dab. destruct Dab as [Da Db].
        apply negb_true_iff in Da. apply negb_true_iff in Db.
        destruct (evl env c) eqn:Ec.
        * apply (is_derive_ext_loc (fun v => ev (upd env x v) e1)).
          { revert Hloc. apply filter_imp. intros t Ht. rewrite eval_Cond, Ht. reflexivity. }
          apply nodep_is_derive, Da.
        * apply (is_derive_ext_loc (fun v => ev (upd env x v) e2)).
          { revert Hloc. apply filter_imp. intros t Ht. rewrite eval_Cond, Ht. reflexivity. }
          apply nodep_is_derive, Db.
      + inv_opt Hd. rewrite (eval_Cond env).
        destruct (evl env c) eqn:Ec.
        * apply (is_derive_ext_loc (fun v => ev (upd env x v) e1)).
          { revert Hloc. apply filter_imp. intros t Ht. rewrite eval_Cond, Ht. reflexivity. }
          apply IHe2; auto.
        * apply (is_derive_ext_loc (fun v => ev (upd env x v) e2)).
          { revert Hloc. apply filter_imp. intros t Ht. rewrite eval_Cond, Ht. reflexivity. }
          apply IHe3; auto.
    - (* ExpDeriv *)
      destruct Hdom as (Hloc & Sd).
      assert (Hbd : b = false \/ no_log10 e3 = true) by (destruct Hb; auto).
      apply (is_derive_ext_loc (fun v => ev (upd env x v) e3)).
      { revert Hloc. apply filter_imp. intros t Ht. symmetry. exact Ht. }
      apply IHe3; auto.
  Qed.
End Main.

(* on formulas without refused nodes the rules always answer *)
Lemma supported_total b e : forall x, supported e = true -> exists d, deriv_gen b e x = Some d.
Proof.
  induction e using expr_ind2 with (P0 := fun _ => True); try exact I; intros x Hs;
    cbn [supported] in Hs; try discriminate Hs; try (apply andb_prop in Hs; destruct Hs as [Hs1 Hs2]);
    cbn [deriv_gen];
    repeat match goal with
           | IH : forall x, supported ?a = true -> _, H : supported ?a = true |- _ =>
             let d := fresh "d" in let E := fresh "E" in destruct (IH x H) as [d E]; rewrite ?E; clear IH
           end;
    try destruct o;
    repeat match goal with |- context [if ?c then _ else _] => destruct c end;
    cbn [option_map obind]; eauto.
Qed.

Lemma ln10_gt_1 : 1 < ln 10.
Proof.
  assert (H : exp 1 < 10) by (pose proof exp_le_3; lra).
  rewrite <- (ln_exp 1). apply ln_increasing; [apply exp_pos|exact H].
Qed.

(* the rule of the pinned tree for log10 is not the derivative: log10(x) at x = 1 *)
Lemma log10_pinned_refuted :
  exists (e : expr) (x : nat) (d : expr) (env : nat -> R),
    deriv_pinned e x = Some d /\
    (forall uf bf, indom uf bf env x e) /\
    (forall uf bf, ~ is_derive (fun v => eval (Rops uf bf) (upd env x v) e) (env x) (eval (Rops uf bf) env d)).
Proof.
  exists (Fun Log10 (Var 0)), 0%nat, (Bin Div (Bin Mult Ln10 one) (Var 0)), (fun _ => 1).
  split; [reflexivity|]. split.
  - intros uf bf. cbn. split; [intros _; exact I|lra].
  - intros uf bf H.
    assert (G : is_derive (fun v => eval (Rops uf bf) (upd (fun _ => 1) 0 v) (Fun Log10 (Var 0))) 1
                  (eval (Rops uf bf) (fun _ => 1) (Bin Div one (Bin Mult Ln10 (Var 0))))).
    { apply (deriv_sound uf bf false (Fun Log10 (Var 0)) (or_introl eq_refl) 0%nat _ (fun _ => 1)).
      - reflexivity.
      - intros _. cbn. split; [intros _; exact I|lra]. }
    apply is_derive_unique in H. apply is_derive_unique in G. rewrite H in G.
    cbn in G. unfold ofQ in G; cbn in G. pose proof ln10_gt_1 as L.
    unfold Rdiv in G. rewrite ?Rinv_1, ?Rmult_1_r, ?Rmult_1_l in G.
    assert (E : ln 10 * ln 10 = 1) by (rewrite G at 2; apply Rinv_r; lra).
    nra.
Qed.

(* C14 -- property theorems for a tree whose log10 rule is right (statements only; proofs in C14Proofs.v). *)
From Coq Require Import Reals ZArith QArith.
From Coquelicot Require Import Coquelicot.
From C14 Require Import C14Model C14Spec C14Proofs.
Local Open Scope R_scope.

(* Wherever the differentiation rules answer, and the formula is used inside the open domain of its
   functions, the answer evaluates to the partial derivative (every formula, variable, point, and every
   interpretation of the functions that are not differentiated). *)
Theorem C14_differentiate_is_derivative : deriv_correct deriv.
Proof. exact (fun uf bf e => deriv_sound uf bf false e (or_introl eq_refl)). Qed.
Print Assumptions C14_differentiate_is_derivative.

(* what the right outer factor of each function rule is *)
Theorem C14_elementary_rules : forall f u, dfn_dom f u -> is_derive (Rdfun f) u (Rdfun' f u).
Proof. exact dfn_derive. Qed.
Print Assumptions C14_elementary_rules.

(* the rules answer on every formula built from differentiable nodes ... *)
Theorem C14_supported_total : forall e x, supported e = true -> exists d, deriv e x = Some d.
Proof. exact (supported_total false). Qed.
Print Assumptions C14_supported_total.

(* ... and refuse (the code throws "unimplemented feature") the others *)
Theorem C14_unsupported_refused :
  (forall f e x, deriv (UFun f e) x = None) /\ (forall f a b x, deriv (BFun f a b) x = None).
Proof. split; reflexivity. Qed.
Print Assumptions C14_unsupported_refused.

(* the specification discriminates: ln10*u'/u is not the derivative of log10 *)
Theorem C14_spec_discriminates :
  exists e x d env, deriv_pinned e x = Some d /\ (forall uf bf, indom uf bf env x e) /\
    (forall uf bf, ~ is_derive (fun v => eval (Rops uf bf) (upd env x v) e) (env x) (eval (Rops uf bf) env d)).
Proof. exact log10_pinned_refuted. Qed.
Print Assumptions C14_spec_discriminates.

(* C14 -- specification: what "differentiate yields the derivative" means.
   Real semantics of formulas (the model's [eval] instantiated with R and the real functions), the open domain on
   which a formula is differentiable by the usual rules, and the property of a differentiator. *)
From Coq Require Import Reals ZArith QArith Qreals List Bool Lra.
From Coquelicot Require Import Coquelicot.
From VLib Require Import RealExtra.
From C14 Require Import C14Model.
Local Open Scope R_scope.

(* integer power, negative exponents included *)
Definition Rpowz (r : R) (n : Z) : R := powerRZ r n.

Definition Rdfun (f : dfn) : R -> R :=
  match f with
  | Exp => exp | Sin => sin | Cos => cos | Tan => tan | Sqrt => sqrt | Log => ln | Log10 => Rlog10
  | Asin => asin | Acos => acos | Atan => atan | Sinh => sinh | Cosh => cosh | Tanh => tanh
  end.

Definition Rltb (a b : R) : bool := if Rlt_dec a b then true else false.
Definition Rleb (a b : R) : bool := if Rle_dec a b then true else false.
Definition Reqb (a b : R) : bool := if Req_EM_T a b then true else false.

(* the functions that the code does not differentiate, and the two-argument ones, stay uninterpreted:
   every theorem holds for any interpretation [uf], [bf] *)
Definition Rops (uf : ufn -> R -> R) (bf : bfn -> R -> R -> R) : NumOps R :=
  {| ofZ := IZR; add := Rplus; sub := Rminus; mul := Rmult; div := Rdiv; opp := Ropp;
     pow := Rpower; powz := Rpowz; dfun := Rdfun; ufun := uf; bfun := bf; ln10 := ln 10;
     ltb := Rltb; leb := Rleb; eqb := Reqb |}.

Definition upd (env : nat -> R) (x : nat) (v : R) : nat -> R := fun i => if Nat.eqb i x then v else env i.

Section Domain.
  Variables (uf : ufn -> R -> R) (bf : bfn -> R -> R -> R).
  Let ev := eval (Rops uf bf).
  Let evl := evall (Rops uf bf).

  (* open domain of differentiability of the elementary functions *)
  Definition dfn_dom (f : dfn) (u : R) : Prop :=
    match f with
    | Exp | Sin | Cos | Atan | Sinh | Cosh | Tanh => True
    | Tan => cos u <> 0
    | Sqrt | Log | Log10 => 0 < u
    | Asin | Acos => -1 < u < 1
    end.

  (* [indom env x e]: at the point env, every node of e on which the derivative w.r.t. x depends is used inside the
     open domain where it is differentiable; sub-formulas that do not depend on x are unconstrained. *)
  Fixpoint indom (env : nat -> R) (x : nat) (e : expr) : Prop :=
    let sub a := depends a x = true -> indom env x a in
    match e with
    | Num _ | Ln10 | Var _ => True
    | Neg a => sub a
    | Bin o a b =>
      sub a /\ sub b /\
      match o with
      | Div => ev env b <> 0
      | Pow => 0 < ev env a
      | _ => True
      end
    | PowN n a => sub a /\ ((n < 0)%Z -> ev env a <> 0)
    | Fun f a => sub a /\ dfn_dom f (ev env a)
    | UFun _ _ | BFun _ _ _ => False
    | Cond c a b =>
      (* away from the switching points of the condition *)
      locally (env x) (fun v => evl (upd env x v) c = evl env c) /\
      (evl env c = true -> sub a) /\ (evl env c = false -> sub b)
    | ExpDeriv a b d =>
      (* away from the a = 0 special case of ExponentDerivative::getValue *)
      locally (env x) (fun v => ev (upd env x v) (ExpDeriv a b d) = ev (upd env x v) d) /\ sub d
    end.

  (* a differentiator is right when, wherever it answers, its answer evaluates to the partial derivative *)
  Definition deriv_correct_on (D : expr -> nat -> option expr) (e : expr) : Prop :=
    forall (x : nat) (d : expr) (env : nat -> R),
      D e x = Some d ->
      (depends e x = true -> indom env x e) ->
      is_derive (fun v => ev (upd env x v) e) (env x) (ev env d).
End Domain.

Definition deriv_correct (D : expr -> nat -> option expr) : Prop :=
  forall uf bf e, deriv_correct_on uf bf D e.

(* formulas in which log10 is never applied to something depending on the variable *)
Fixpoint no_log10 (e : expr) : bool :=
  match e with
  | Num _ | Ln10 | Var _ => true
  | Neg a | PowN _ a | UFun _ a => no_log10 a
  | Fun f a => match f with Log10 => false | _ => no_log10 a end
  | Bin _ a b | BFun _ a b => no_log10 a && no_log10 b
  | Cond _ a b => no_log10 a && no_log10 b
  | ExpDeriv a b d => no_log10 d
  end.

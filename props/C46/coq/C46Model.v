(* C46 -- executable model of mfront/src/MFrontLock.cxx (POSIX branch) and of the named semaphore it uses.
   Definitions only.  One atomic step = one system call of the real code (sem_open / return of sem_wait /
   sem_post / process end) or one marker of the driver (entering / leaving the protected section).

   MFrontLock::MFrontLock   : sem_open("/mfront-<euid>", O_CREAT, 0600, 1)   -> Open
   MFrontLock::lock         : sem_wait (blocks while the value is 0)          -> Wait   (its return; locked := true)
   MFrontLock::unlock       : sem_post                                        -> Post   (locked := false)
   process end through exit(): static destructors run, hence ~MFrontLock     -> Exit p posted
                              (posted = the destructor issued a sem_post; which value of [posted] is possible at a
                               control point is what distinguishes the three kinds of code, see [dtor_posts])
   process end with no user code run (_exit, SIGKILL)                         -> Kill p
   The semaphore is persistent: nobody ever unlinks it, its value survives the processes. *)
From Coq Require Import List Arith Bool.
From C46 Require Import C46Spec.
Import ListNotations.

(* what the code under test does in the static destructor of the lock object:
   DtorPosts   : always sem_post                      (pinned tree, defect F13)
   DtorQuiet   : never sem_post, only sem_close       (commit b861cfc5d)
   DtorRelease : sem_post iff the lock is still held  (commit 5298e03a9: `if (this->locked) this->unlock();`) *)
Inductive dtor_kind := DtorPosts | DtorQuiet | DtorRelease.

Inductive event :=
| Spawn                 (* a new process appears; its identifier is the number of processes so far *)
| Open (p : nat)
| Wait (p : nat)
| Enter (p : nat)
| Leave (p : nat)
| Post (p : nat)
| Exit (p : nat) (posted : bool)  (* process ends through exit() at any control point *)
| Kill (p : nat).                 (* process ends at any control point without running any of its code *)

(* lost = number of permits destroyed with a process killed while holding *)
Record state := mk { sem : option nat; procs : list pc; lost : nat }.

Definition init : state := mk None [] 0.

Fixpoint set_pc (l : list pc) (p : nat) (c : pc) : list pc :=
  match l, p with
  | [], _ => []
  | _ :: r, 0 => c :: r
  | x :: r, S q => x :: set_pc r q c
  end.

Definition opened (c : pc) : bool := match c with Idle | Holding | InCS => true | _ => false end.
Definition holding (c : pc) : bool := match c with Holding | InCS => true | _ => false end.
Definition alive (c : pc) : bool := match c with Done => false | _ => true end.

(* does the static destructor post when exit() is called at control point c?  (No lock object, no destructor.) *)
Definition dtor_posts (k : dtor_kind) (c : pc) : bool :=
  match k with
  | DtorPosts => opened c
  | DtorQuiet => false
  | DtorRelease => holding c
  end.

Definition bump (o : option nat) : option nat := match o with Some v => Some (S v) | None => None end.

(* the step relation *)
Inductive step (k : dtor_kind) : state -> event -> state -> Prop :=
| st_spawn : forall s, step k s Spawn (mk (sem s) (procs s ++ [NotOpen]) (lost s))
| st_open : forall s p,
    nth_error (procs s) p = Some NotOpen ->
    step k s (Open p) (mk (Some (match sem s with None => 1 | Some v => v end)) (set_pc (procs s) p Idle) (lost s))
| st_wait : forall s p v,
    nth_error (procs s) p = Some Idle -> sem s = Some (S v) ->
    step k s (Wait p) (mk (Some v) (set_pc (procs s) p Holding) (lost s))
| st_enter : forall s p,
    nth_error (procs s) p = Some Holding ->
    step k s (Enter p) (mk (sem s) (set_pc (procs s) p InCS) (lost s))
| st_leave : forall s p,
    nth_error (procs s) p = Some InCS ->
    step k s (Leave p) (mk (sem s) (set_pc (procs s) p Holding) (lost s))
| st_post : forall s p v,
    nth_error (procs s) p = Some Holding -> sem s = Some v ->
    step k s (Post p) (mk (Some (S v)) (set_pc (procs s) p Idle) (lost s))
| st_exit : forall s p c b,
    nth_error (procs s) p = Some c -> alive c = true -> b = dtor_posts k c ->
    step k s (Exit p b) (mk (if b then bump (sem s) else sem s) (set_pc (procs s) p Done) (lost s))
| st_kill : forall s p c,
    nth_error (procs s) p = Some c -> alive c = true ->
    step k s (Kill p) (mk (sem s) (set_pc (procs s) p Done) (hold c + lost s)).

Inductive steps (k : dtor_kind) : state -> list event -> state -> Prop :=
| steps_nil : forall s, steps k s [] s
| steps_cons : forall s e s1 tr s2, step k s e s1 -> steps k s1 tr s2 -> steps k s (e :: tr) s2.

Definition reachable (k : dtor_kind) (s : state) : Prop := exists tr, steps k init tr s.

(* executable acceptor *)
Definition pc_eqb (a b : pc) : bool :=
  match a, b with
  | NotOpen, NotOpen | Idle, Idle | Holding, Holding | InCS, InCS | Done, Done => true
  | _, _ => false
  end.

Definition at_pc (s : state) (p : nat) (c : pc) : bool :=
  match nth_error (procs s) p with Some x => pc_eqb x c | None => false end.

Definition step_fn (k : dtor_kind) (s : state) (e : event) : option state :=
  match e with
  | Spawn => Some (mk (sem s) (procs s ++ [NotOpen]) (lost s))
  | Open p => if at_pc s p NotOpen
              then Some (mk (Some (match sem s with None => 1 | Some v => v end)) (set_pc (procs s) p Idle) (lost s))
              else None
  | Wait p => if at_pc s p Idle
              then match sem s with
                   | Some (S v) => Some (mk (Some v) (set_pc (procs s) p Holding) (lost s))
                   | _ => None
                   end
              else None
  | Enter p => if at_pc s p Holding then Some (mk (sem s) (set_pc (procs s) p InCS) (lost s)) else None
  | Leave p => if at_pc s p InCS then Some (mk (sem s) (set_pc (procs s) p Holding) (lost s)) else None
  | Post p => if at_pc s p Holding
              then match sem s with
                   | Some v => Some (mk (Some (S v)) (set_pc (procs s) p Idle) (lost s))
                   | None => None
                   end
              else None
  | Exit p b => match nth_error (procs s) p with
                | Some c => if alive c && Bool.eqb b (dtor_posts k c)
                            then Some (mk (if b then bump (sem s) else sem s) (set_pc (procs s) p Done) (lost s))
                            else None
                | None => None
                end
  | Kill p => match nth_error (procs s) p with
              | Some c => if alive c then Some (mk (sem s) (set_pc (procs s) p Done) (hold c + lost s)) else None
              | None => None
              end
  end.

Fixpoint run (k : dtor_kind) (s : state) (tr : list event) : option state :=
  match tr with
  | [] => Some s
  | e :: r => match step_fn k s e with Some s1 => run k s1 r | None => None end
  end.

Definition accepts (k : dtor_kind) (tr : list event) : bool :=
  match run k init tr with Some _ => true | None => false end.

(* number of destructor posts in a trace *)
Fixpoint nexitpost (tr : list event) : nat :=
  match tr with
  | [] => 0
  | Exit _ true :: r => S (nexitpost r)
  | _ :: r => nexitpost r
  end.

(* number of processes killed in a trace *)
Fixpoint nkill (tr : list event) : nat :=
  match tr with
  | [] => 0
  | Kill _ :: r => S (nkill r)
  | _ :: r => nkill r
  end.

(* a complete, sequential run of process p that takes the lock once and exits normally on the pinned code *)
Definition full_run (p : nat) : list event := [Spawn; Open p; Wait p; Enter p; Leave p; Post p; Exit p true].
Fixpoint history (n first : nat) : list event :=
  match n with 0 => [] | S m => full_run first ++ history m (S first) end.

(* one process calls exit() inside its protected section; b = what the destructor of the code under test does *)
Definition exit_inside (b : bool) : list event := [Spawn; Open 0; Wait 0; Enter 0; Exit 0 b].

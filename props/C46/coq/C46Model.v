(* C46 -- executable model of mfront/src/MFrontLock.cxx (POSIX branch) and of the named semaphore it uses.
   Definitions only.  One atomic step = one system call of the real code (sem_open / return of sem_wait /
   sem_post / process end) or one marker of the driver (entering / leaving the protected section).

   MFrontLock::MFrontLock   : sem_open("/mfront-<euid>", O_CREAT, 0600, 1)   -> Open
   MFrontLock::lock         : sem_wait (blocks while the value is 0)          -> Wait   (its return)
   MFrontLock::unlock       : sem_post                                        -> Post
   MFrontLock::~MFrontLock  : what the static destructor does at process exit -> ExitPost (it posts) or
                              ExitQuiet (it leaves the value alone: sem_close, nothing, _exit, kill -9)
   The semaphore is persistent: nobody ever unlinks it, its value survives the processes. *)
From Coq Require Import List Arith Bool.
From C46 Require Import C46Spec.
Import ListNotations.

(* what the code under test does in the static destructor of the lock object *)
Inductive dtor_kind := DtorPosts | DtorQuiet.

Inductive event :=
| Spawn                 (* a new process appears; its identifier is the number of processes so far *)
| Open (p : nat)
| Wait (p : nat)
| Enter (p : nat)
| Leave (p : nat)
| Post (p : nat)
| ExitPost (p : nat)    (* process ends through exit(): the static destructor posts *)
| ExitQuiet (p : nat).  (* process ends without changing the value, at any point *)

Record state := mk { sem : option nat; procs : list pc }.

Definition init : state := mk None [].

Fixpoint set_pc (l : list pc) (p : nat) (c : pc) : list pc :=
  match l, p with
  | [], _ => []
  | _ :: r, 0 => c :: r
  | x :: r, S q => x :: set_pc r q c
  end.

Definition opened (c : pc) : bool := match c with Idle | Holding | InCS => true | _ => false end.
Definition alive (c : pc) : bool := match c with Done => false | _ => true end.

(* the step relation *)
Inductive step (k : dtor_kind) : state -> event -> state -> Prop :=
| st_spawn : forall s, step k s Spawn (mk (sem s) (procs s ++ [NotOpen]))
| st_open : forall s p,
    nth_error (procs s) p = Some NotOpen ->
    step k s (Open p) (mk (Some (match sem s with None => 1 | Some v => v end)) (set_pc (procs s) p Idle))
| st_wait : forall s p v,
    nth_error (procs s) p = Some Idle -> sem s = Some (S v) ->
    step k s (Wait p) (mk (Some v) (set_pc (procs s) p Holding))
| st_enter : forall s p,
    nth_error (procs s) p = Some Holding ->
    step k s (Enter p) (mk (sem s) (set_pc (procs s) p InCS))
| st_leave : forall s p,
    nth_error (procs s) p = Some InCS ->
    step k s (Leave p) (mk (sem s) (set_pc (procs s) p Holding))
| st_post : forall s p v,
    nth_error (procs s) p = Some Holding -> sem s = Some v ->
    step k s (Post p) (mk (Some (S v)) (set_pc (procs s) p Idle))
| st_exit_post : forall s p c v,
    k = DtorPosts -> nth_error (procs s) p = Some c -> opened c = true -> sem s = Some v ->
    step k s (ExitPost p) (mk (Some (S v)) (set_pc (procs s) p Done))
| st_exit_quiet : forall s p c,
    nth_error (procs s) p = Some c -> alive c = true ->
    step k s (ExitQuiet p) (mk (sem s) (set_pc (procs s) p Done)).

Inductive steps (k : dtor_kind) : state -> list event -> state -> Prop :=
| steps_nil : forall s, steps k s [] s
| steps_cons : forall s e s1 tr s2, step k s e s1 -> steps k s1 tr s2 -> steps k s (e :: tr) s2.

Definition reachable (k : dtor_kind) (s : state) : Prop := exists tr, steps k init tr s.

(* executable acceptor *)
Definition pc_eqb (a b : pc) : bool :=
  match a, b with
  | NotOpen, NotOpen | Idle, Idle | Holding, Holding | InCS, InCS | Done, Done => true
  | _, _ => false
  end.

Definition at_pc (s : state) (p : nat) (c : pc) : bool :=
  match nth_error (procs s) p with Some x => pc_eqb x c | None => false end.

Definition step_fn (k : dtor_kind) (s : state) (e : event) : option state :=
  match e with
  | Spawn => Some (mk (sem s) (procs s ++ [NotOpen]))
  | Open p => if at_pc s p NotOpen
              then Some (mk (Some (match sem s with None => 1 | Some v => v end)) (set_pc (procs s) p Idle))
              else None
  | Wait p => if at_pc s p Idle
              then match sem s with
                   | Some (S v) => Some (mk (Some v) (set_pc (procs s) p Holding))
                   | _ => None
                   end
              else None
  | Enter p => if at_pc s p Holding then Some (mk (sem s) (set_pc (procs s) p InCS)) else None
  | Leave p => if at_pc s p InCS then Some (mk (sem s) (set_pc (procs s) p Holding)) else None
  | Post p => if at_pc s p Holding
              then match sem s with
                   | Some v => Some (mk (Some (S v)) (set_pc (procs s) p Idle))
                   | None => None
                   end
              else None
  | ExitPost p => match k, nth_error (procs s) p, sem s with
                  | DtorPosts, Some c, Some v =>
                      if opened c then Some (mk (Some (S v)) (set_pc (procs s) p Done)) else None
                  | _, _, _ => None
                  end
  | ExitQuiet p => match nth_error (procs s) p with
                   | Some c => if alive c then Some (mk (sem s) (set_pc (procs s) p Done)) else None
                   | None => None
                   end
  end.

Fixpoint run (k : dtor_kind) (s : state) (tr : list event) : option state :=
  match tr with
  | [] => Some s
  | e :: r => match step_fn k s e with Some s1 => run k s1 r | None => None end
  end.

Definition accepts (k : dtor_kind) (tr : list event) : bool :=
  match run k init tr with Some _ => true | None => false end.

(* number of destructor posts in a trace *)
Fixpoint nexitpost (tr : list event) : nat :=
  match tr with
  | [] => 0
  | ExitPost _ :: r => S (nexitpost r)
  | _ :: r => nexitpost r
  end.

(* a complete, sequential run of process p that takes the lock once and exits normally on the pinned code *)
Definition full_run (p : nat) : list event := [Spawn; Open p; Wait p; Enter p; Leave p; Post p; ExitPost p].
Fixpoint history (n first : nat) : list event :=
  match n with 0 => [] | S m => full_run first ++ history m (S first) end.

(* C46 -- theorems about the model of the code whose ~MFrontLock never posts (commit b861cfc5d); selected by the
   check when the traces of the real code show an exit() inside a protected section with no destructor post. *)
From Coq Require Import List Arith.
From C46 Require Import C46Spec C46Model C46Proofs.
Import ListNotations.

(* conservation is false of that code: one process calls exit() inside its protected section (nobody is killed);
   every process has ended, yet the value is 0, and in every continuation -- any number of later processes, any
   interleaving -- it stays 0, nobody holds the lock and no sem_wait ever returns: the lock is lost. *)
Theorem C46_value_conserved_refuted : exists s, steps DtorQuiet init (exit_inside false) s /\
  all_done (procs s) /\ lost s = 0 /\ sem s = Some 0 /\
  forall tr' s', steps DtorQuiet s tr' s' ->
    sem s' = Some 0 /\ holders (procs s') = 0 /\ forall p, ~ In (Wait p) tr'.
Proof. exact quiet_leak. Qed.
Print Assumptions C46_value_conserved_refuted.

(* mutual exclusion itself still holds of that code *)
Theorem C46_quiet_mutual_exclusion : forall tr s, steps DtorQuiet init tr s ->
  mutual_exclusion (procs s) /\ never_more_than_created (sem s) (procs s) /\ inside (procs s) <= 1.
Proof. exact mutex_quiet. Qed.
Print Assumptions C46_quiet_mutual_exclusion.

(* C46 -- property theorems (statements only; proofs are in C46Proofs.v). *)
From Coq Require Import List Arith.
From C46 Require Import C46Spec C46Model C46Proofs.
Import ListNotations.

(* Code whose static destructor leaves the semaphore value alone (sem_close, nothing): in every reachable state of
   every history -- any number of processes, any interleaving of sem_open / sem_wait / sem_post, processes ending
   (exit, _exit, kill) at any point, the value persisting across runs -- at most one process holds the lock, the
   available permits plus the holders never exceed the one permit the semaphore was created with, and at most one
   process is inside a protected section. *)
Theorem C46_mutual_exclusion : forall tr s, steps DtorQuiet init tr s ->
  mutual_exclusion (procs s) /\ never_more_than_created (sem s) (procs s) /\ inside (procs s) <= 1.
Proof. exact mutex_quiet. Qed.
Print Assumptions C46_mutual_exclusion.

(* Either kind of code: holders (and permits + holders) are bounded by one plus the number of destructor posts. *)
Theorem C46_holders_bounded_by_destructor_posts : forall k tr s, steps k init tr s ->
  holders (procs s) <= 1 + nexitpost tr /\
  (forall v, sem s = Some v -> v + holders (procs s) <= 1 + nexitpost tr).
Proof. exact bound_any. Qed.
Print Assumptions C46_holders_bounded_by_destructor_posts.

(* The executable acceptor run on the traces of the real code is sound and complete for the step relation. *)
Theorem C46_acceptor_sound : forall k tr, accepts k tr = true -> exists s, steps k init tr s.
Proof. exact accepts_sound. Qed.
Print Assumptions C46_acceptor_sound.

Theorem C46_acceptor_complete : forall k tr s, steps k init tr s -> accepts k tr = true.
Proof. exact accepts_complete. Qed.
Print Assumptions C46_acceptor_complete.

Theorem C46_run_is_steps : forall k tr s s', run k s tr = Some s' <-> steps k s tr s'.
Proof. intros; split; [apply run_sound | apply run_complete]. Qed.
Print Assumptions C46_run_is_steps.

(* Every prefix of a trace accepted for quiet-destructor code is a state with mutual exclusion. *)
Theorem C46_accepted_trace_prefixes_exclusive : forall a b, accepts DtorQuiet (a ++ b) = true ->
  exists s, run DtorQuiet init a = Some s /\ mutual_exclusion (procs s) /\ inside (procs s) <= 1.
Proof. exact accepted_prefixes_mutex. Qed.
Print Assumptions C46_accepted_trace_prefixes_exclusive.

(* C46 -- property theorems for the current code: ~MFrontLock posts the semaphore if and only if the lock is still
   held (statements only; proofs are in C46Proofs.v).  Selected by the check when the traces of the real code show
   that behaviour (an exit() inside a protected section is followed by a destructor post, an exit() outside is not). *)
From Coq Require Import List Arith.
From C46 Require Import C46Spec C46Model C46Proofs.
Import ListNotations.

(* In every reachable state of every history -- any number of processes, any interleaving of sem_open / sem_wait /
   sem_post, processes calling exit() or being killed at any control point, inside a protected section included,
   the value persisting across runs -- at most one process holds the lock, at most one is inside a protected
   section, and the single permit is conserved: value + holders + (holders that were killed) = 1. *)
Theorem C46_mutual_exclusion : forall tr s, steps DtorRelease init tr s ->
  mutual_exclusion (procs s) /\ inside (procs s) <= 1 /\ conservation (sem s) (procs s) (lost s).
Proof. exact mutex_release. Qed.
Print Assumptions C46_mutual_exclusion.

(* No process killed (every process that ends does so through exit(), wherever it is): value + holders = 1 whenever
   the semaphore exists, and once every process has ended the value is exactly 1 -- no drift, no leak. *)
Theorem C46_value_conserved : forall tr s, steps DtorRelease init tr s -> nkill tr = 0 ->
  (forall v, sem s = Some v -> v + holders (procs s) = 1) /\
  (all_done (procs s) -> forall v, sem s = Some v -> v = 1).
Proof. exact release_final_nokill. Qed.
Print Assumptions C46_value_conserved.

(* The same with the weaker hypothesis that no process was killed while it held the lock. *)
Theorem C46_value_one_when_all_exited : forall tr s, steps DtorRelease init tr s -> lost s = 0 ->
  all_done (procs s) -> forall v, sem s = Some v -> v = 1.
Proof. exact release_final. Qed.
Print Assumptions C46_value_one_when_all_exited.

(* The quantification over "exit at any control point" is not vacuous: exit() (and a kill) is a possible step of
   every live process in every state. *)
Theorem C46_exit_possible_everywhere : forall k s p c, nth_error (procs s) p = Some c -> alive c = true ->
  (exists s', step k s (Exit p (dtor_posts k c)) s') /\ (exists s', step k s (Kill p) s').
Proof. intros k s p c N A; split; [exact (exit_enabled k s p c N A) | exact (kill_enabled k s p c N A)]. Qed.
Print Assumptions C46_exit_possible_everywhere.

(* exit() inside a protected section: the destructor gives the permit back. *)
Theorem C46_exit_inside_section_releases : exists s, steps DtorRelease init (exit_inside true) s /\
  all_done (procs s) /\ sem s = Some 1.
Proof. exact release_exit_inside. Qed.
Print Assumptions C46_exit_inside_section_releases.

(* Every prefix of a trace accepted for the current code is a state with mutual exclusion and conservation. *)
Theorem C46_accepted_trace_prefixes_exclusive : forall a b, accepts DtorRelease (a ++ b) = true ->
  exists s, run DtorRelease init a = Some s /\ mutual_exclusion (procs s) /\ inside (procs s) <= 1 /\
            conservation (sem s) (procs s) (lost s).
Proof. exact accepted_prefixes_mutex. Qed.
Print Assumptions C46_accepted_trace_prefixes_exclusive.

(* C46 -- theorems that hold for every kind of code (always compiled): the executable acceptor run on the traces of
   the real code is sound and complete for the step relation; generic bound of the holders. *)
From Coq Require Import List Arith.
From C46 Require Import C46Spec C46Model C46Proofs.
Import ListNotations.

Theorem C46_acceptor_sound : forall k tr, accepts k tr = true -> exists s, steps k init tr s.
Proof. exact accepts_sound. Qed.
Print Assumptions C46_acceptor_sound.

Theorem C46_acceptor_complete : forall k tr s, steps k init tr s -> accepts k tr = true.
Proof. exact accepts_complete. Qed.
Print Assumptions C46_acceptor_complete.

Theorem C46_run_is_steps : forall k tr s s', run k s tr = Some s' <-> steps k s tr s'.
Proof. intros; split; [apply run_sound | apply run_complete]. Qed.
Print Assumptions C46_run_is_steps.

(* Every kind of code: holders (and permits + holders) are bounded by one plus the number of destructor posts. *)
Theorem C46_holders_bounded_by_destructor_posts : forall k tr s, steps k init tr s ->
  holders (procs s) <= 1 + nexitpost tr /\
  (forall v, sem s = Some v -> v + holders (procs s) <= 1 + nexitpost tr).
Proof. exact bound_any. Qed.
Print Assumptions C46_holders_bounded_by_destructor_posts.

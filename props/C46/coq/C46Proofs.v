(* C46 -- lemmas: invariant by induction over every trace, soundness/completeness of the acceptor, value drift *)
From Coq Require Import List Arith Bool Lia.
From C46 Require Import C46Spec C46Model.
Import ListNotations.

Lemma holders_set_pc : forall l p old c,
  nth_error l p = Some old -> holders (set_pc l p c) + hold old = holders l + hold c.
Proof.
  induction l as [|x r IH]; intros [|q] old c H; simpl in *; try discriminate.
  - inversion H; subst; lia.
  - specialize (IH q old c H); lia.
Qed.

Lemma inside_le_holders : forall l, inside l <= holders l.
Proof. induction l as [|x r IH]; simpl; [lia|]. destruct x; simpl; lia. Qed.

Lemma holders_app : forall a b, holders (a ++ b) = holders a + holders b.
Proof. induction a; intros; simpl; [reflexivity|]. rewrite IHa; lia. Qed.

(* the invariant, with a budget n of destructor posts already seen *)
Definition inv (n : nat) (s : state) : Prop :=
  match sem s with
  | None => holders (procs s) = 0 /\ n = 0
  | Some v => v + holders (procs s) <= 1 + n
  end.

Lemma step_inv : forall k s e s' n, step k s e s' -> inv n s -> inv (nexitpost [e] + n) s'.
Proof.
  intros k s e s' n H; inversion H; subst; unfold inv; simpl; intro I.
  - rewrite holders_app; simpl. destruct (sem s); [lia| destruct I; split; lia].
  - pose proof (holders_set_pc _ _ _ Idle H0) as E; simpl in E.
    destruct (sem s); [lia | destruct I; lia].
  - pose proof (holders_set_pc _ _ _ Holding H0) as E; simpl in E. rewrite H1 in I. lia.
  - pose proof (holders_set_pc _ _ _ InCS H0) as E; simpl in E.
    destruct (sem s); [lia | destruct I; lia].
  - pose proof (holders_set_pc _ _ _ Holding H0) as E; simpl in E.
    destruct (sem s); [lia | destruct I; lia].
  - pose proof (holders_set_pc _ _ _ Idle H0) as E; simpl in E. rewrite H1 in I. lia.
  - pose proof (holders_set_pc _ _ _ Done H1) as E; simpl in E. rewrite H3 in I. lia.
  - pose proof (holders_set_pc _ _ _ Done H0) as E; simpl in E.
    destruct (sem s); [lia | destruct I; lia].
Qed.

Lemma nexitpost_cons : forall e tr, nexitpost (e :: tr) = nexitpost [e] + nexitpost tr.
Proof. intros [] tr; simpl; reflexivity. Qed.

Lemma steps_inv : forall k s tr s', steps k s tr s' -> forall n, inv n s -> inv (nexitpost tr + n) s'.
Proof.
  induction 1; intros n I; [exact I|].
  rewrite nexitpost_cons. apply (step_inv _ _ _ _ _ H) in I. apply IHsteps in I.
  replace (nexitpost [e] + nexitpost tr + n) with (nexitpost tr + (nexitpost [e] + n)) by lia. exact I.
Qed.

Lemma inv_init : inv 0 init.
Proof. unfold inv; simpl; split; reflexivity. Qed.

(* holders are bounded by one plus the number of destructor posts, for either kind of code *)
Lemma bound_any : forall k tr s, steps k init tr s ->
  holders (procs s) <= 1 + nexitpost tr /\
  (forall v, sem s = Some v -> v + holders (procs s) <= 1 + nexitpost tr).
Proof.
  intros k tr s H. pose proof (steps_inv _ _ _ _ H 0 inv_init) as I. unfold inv in I.
  rewrite Nat.add_0_r in I. destruct (sem s) as [v|].
  - split; [lia|]. intros w E; inversion E; subst; lia.
  - destruct I as [I _]; split; [lia| intros w E; discriminate].
Qed.

Lemma quiet_no_exitpost : forall s tr s', steps DtorQuiet s tr s' -> nexitpost tr = 0.
Proof.
  induction 1; [reflexivity|]. rewrite nexitpost_cons, IHsteps.
  inversion H; subst; simpl; try reflexivity. discriminate.
Qed.

Lemma mutex_quiet : forall tr s, steps DtorQuiet init tr s ->
  mutual_exclusion (procs s) /\ never_more_than_created (sem s) (procs s) /\ inside (procs s) <= 1.
Proof.
  intros tr s H. pose proof (steps_inv _ _ _ _ H 0 inv_init) as I.
  rewrite (quiet_no_exitpost _ _ _ H) in I. unfold inv in I; simpl in I.
  pose proof (inside_le_holders (procs s)) as L.
  unfold mutual_exclusion, never_more_than_created. destruct (sem s); [lia| destruct I; lia].
Qed.

(* ---- acceptor ---- *)
Lemma pc_eqb_eq : forall a b, pc_eqb a b = true <-> a = b.
Proof. intros [] []; simpl; split; intro H; try reflexivity; try discriminate. Qed.

Lemma at_pc_spec : forall s p c, at_pc s p c = true <-> nth_error (procs s) p = Some c.
Proof.
  intros s p c; unfold at_pc. destruct (nth_error (procs s) p) as [x|]; split; intro H; try discriminate.
  - apply pc_eqb_eq in H; subst; reflexivity.
  - inversion H; subst. apply pc_eqb_eq; reflexivity.
Qed.

Lemma step_fn_sound : forall k s e s', step_fn k s e = Some s' -> step k s e s'.
Proof.
  intros k s [|p|p|p|p|p|p|p] s' H; simpl in H.
  - inversion H; constructor.
  - destruct (at_pc s p NotOpen) eqn:A; [|discriminate]. apply at_pc_spec in A. inversion H; constructor; exact A.
  - destruct (at_pc s p Idle) eqn:A; [|discriminate]. apply at_pc_spec in A.
    destruct (sem s) as [[|v]|] eqn:E; try discriminate. inversion H. apply st_wait; assumption.
  - destruct (at_pc s p Holding) eqn:A; [|discriminate]. apply at_pc_spec in A. inversion H; constructor; exact A.
  - destruct (at_pc s p InCS) eqn:A; [|discriminate]. apply at_pc_spec in A. inversion H; constructor; exact A.
  - destruct (at_pc s p Holding) eqn:A; [|discriminate]. apply at_pc_spec in A.
    destruct (sem s) as [v|] eqn:E; try discriminate. inversion H. apply st_post; assumption.
  - destruct k; [|discriminate]. destruct (nth_error (procs s) p) as [c|] eqn:N; [|discriminate].
    destruct (sem s) as [v|] eqn:E; [|discriminate]. destruct (opened c) eqn:O; [|discriminate].
    inversion H. eapply st_exit_post; eauto.
  - destruct (nth_error (procs s) p) as [c|] eqn:N; [|discriminate].
    destruct (alive c) eqn:O; [|discriminate]. inversion H. eapply st_exit_quiet; eauto.
Qed.

Lemma step_fn_complete : forall k s e s', step k s e s' -> step_fn k s e = Some s'.
Proof.
  intros k s e s' H; inversion H; subst; simpl; try reflexivity.
  - apply at_pc_spec in H0; rewrite H0; reflexivity.
  - apply at_pc_spec in H0; rewrite H0, H1; reflexivity.
  - apply at_pc_spec in H0; rewrite H0; reflexivity.
  - apply at_pc_spec in H0; rewrite H0; reflexivity.
  - apply at_pc_spec in H0; rewrite H0, H1; reflexivity.
  - rewrite H1, H3, H2; reflexivity.
  - rewrite H0, H1; reflexivity.
Qed.

Lemma run_sound : forall k tr s s', run k s tr = Some s' -> steps k s tr s'.
Proof.
  induction tr as [|e r IH]; intros s s' H; simpl in H.
  - inversion H; constructor.
  - destruct (step_fn k s e) as [s1|] eqn:E; [|discriminate].
    econstructor; [apply step_fn_sound; exact E | apply IH; exact H].
Qed.

Lemma run_complete : forall k s tr s', steps k s tr s' -> run k s tr = Some s'.
Proof.
  induction 1; simpl; [reflexivity|]. rewrite (step_fn_complete _ _ _ _ H). exact IHsteps.
Qed.

Lemma accepts_sound : forall k tr, accepts k tr = true -> exists s, steps k init tr s.
Proof.
  intros k tr H; unfold accepts in H. destruct (run k init tr) as [s|] eqn:E; [|discriminate].
  exists s; apply run_sound; exact E.
Qed.

Lemma accepts_complete : forall k tr s, steps k init tr s -> accepts k tr = true.
Proof. intros k tr s H; unfold accepts; rewrite (run_complete _ _ _ _ H); reflexivity. Qed.

(* accepted traces of quiet-destructor code keep mutual exclusion at every prefix *)
Lemma run_app : forall k a b s, run k s (a ++ b) = match run k s a with Some s1 => run k s1 b | None => None end.
Proof. induction a as [|e r IH]; intros b s; simpl; [reflexivity|]. destruct (step_fn k s e); [apply IH|reflexivity]. Qed.

Lemma accepted_prefixes_mutex : forall a b, accepts DtorQuiet (a ++ b) = true ->
  exists s, run DtorQuiet init a = Some s /\ mutual_exclusion (procs s) /\ inside (procs s) <= 1.
Proof.
  intros a b H; unfold accepts in H; rewrite run_app in H.
  destruct (run DtorQuiet init a) as [s|] eqn:E; [|discriminate].
  exists s; split; [reflexivity|]. apply run_sound in E. destruct (mutex_quiet _ _ E) as [M [_ I]]; split; assumption.
Qed.

(* ---- pinned code: the destructor posts ---- *)
Lemma refuted_posts : exists tr s, steps DtorPosts init tr s /\ inside (procs s) = 2 /\ holders (procs s) = 2.
Proof.
  exists (history 1 0 ++ [Spawn; Spawn; Open 1; Open 2; Wait 1; Wait 2; Enter 1; Enter 2]).
  eexists; split; [apply run_sound; vm_compute; reflexivity|]. split; vm_compute; reflexivity.
Qed.

Lemma nth_error_app_last : forall (l : list pc) x, nth_error (l ++ [x]) (length l) = Some x.
Proof. induction l; intros; simpl; [reflexivity|apply IHl]. Qed.
Lemma set_pc_app_last : forall l x c, set_pc (l ++ [x]) (length l) c = l ++ [c].
Proof. induction l; intros; simpl; [reflexivity|rewrite IHl; reflexivity]. Qed.

Definition value_of (o : option nat) : nat := match o with None => 1 | Some v => v end.

Lemma at_last : forall sm l c, at_pc (mk sm (l ++ [c])) (length l) c = true.
Proof. intros; apply at_pc_spec; simpl; apply nth_error_app_last. Qed.

Lemma full_run_effect : forall s w, value_of (sem s) = S w ->
  run DtorPosts s (full_run (length (procs s))) = Some (mk (Some (S (S w))) (procs s ++ [Done])).
Proof.
  intros [sm l] w V; simpl in V. cbn [full_run run procs sem].
  cbn [step_fn procs sem]. rewrite at_last. cbn [procs sem]. rewrite set_pc_app_last.
  replace (match sm with Some v => v | None => 1 end) with (S w) by (destruct sm; simpl in V; congruence).
  cbn [step_fn procs sem]. rewrite at_last. cbn [procs sem]. rewrite set_pc_app_last.
  cbn [step_fn procs sem]. rewrite at_last. cbn [procs sem]. rewrite set_pc_app_last.
  cbn [step_fn procs sem]. rewrite at_last. cbn [procs sem]. rewrite set_pc_app_last.
  cbn [step_fn procs sem]. rewrite at_last. cbn [procs sem]. rewrite set_pc_app_last.
  cbn [step_fn procs sem]. rewrite nth_error_app_last. cbn [opened]. rewrite set_pc_app_last. reflexivity.
Qed.

(* n complete sequential runs on the pinned code leave the value at n + its value before *)
Lemma history_effect : forall n s w, value_of (sem s) = S w ->
  exists s', run DtorPosts s (history (S n) (length (procs s))) = Some s' /\
             sem s' = Some (S n + S w) /\ holders (procs s') = holders (procs s) /\
             length (procs s') = S n + length (procs s).
Proof.
  induction n as [|n IH]; intros s w V.
  - change (history 1 (length (procs s))) with (full_run (length (procs s)) ++ []).
    rewrite app_nil_r, (full_run_effect _ _ V). eexists; split; [reflexivity|]. simpl.
    rewrite holders_app, app_length; simpl. split; [f_equal; lia|split; lia].
  - change (history (S (S n)) (length (procs s))) with (full_run (length (procs s)) ++ history (S n) (S (length (procs s)))).
    rewrite run_app, (full_run_effect _ _ V).
    set (s1 := mk (Some (S (S w))) (procs s ++ [Done])).
    assert (L : S (length (procs s)) = length (procs s1)) by (simpl; rewrite app_length; simpl; lia).
    rewrite L. destruct (IH s1 (S w) eq_refl) as [s' [R [E [Hh Hl]]]].
    exists s'; split; [exact R|]. split; [rewrite E; f_equal; lia|].
    split; [rewrite Hh; simpl; rewrite holders_app; simpl; lia | rewrite Hl; simpl; rewrite app_length; simpl; lia].
Qed.

Lemma value_after_runs : forall n, exists s, steps DtorPosts init (history (S n) 0) s /\
  sem s = Some (S (S n)) /\ holders (procs s) = 0.
Proof.
  intro n. destruct (history_effect n init 0 eq_refl) as [s [R [E [H _]]]].
  exists s; split; [apply run_sound; exact R|]. split; [rewrite E; f_equal; lia | exact H].
Qed.

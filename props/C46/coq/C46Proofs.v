(* C46 -- lemmas: invariants by induction over every trace, soundness/completeness of the acceptor, value drift of
   the always-post code, lost lock of the never-post code *)
From Coq Require Import List Arith Bool Lia.
From C46 Require Import C46Spec C46Model.
Import ListNotations.

Lemma holders_set_pc : forall l p old c,
  nth_error l p = Some old -> holders (set_pc l p c) + hold old = holders l + hold c.
Proof.
  induction l as [|x r IH]; intros [|q] old c H; simpl in *; try discriminate.
  - inversion H; subst; lia.
  - specialize (IH q old c H); lia.
Qed.

Lemma inside_le_holders : forall l, inside l <= holders l.
Proof. induction l as [|x r IH]; simpl; [lia|]. destruct x; simpl; lia. Qed.

Lemma holders_app : forall a b, holders (a ++ b) = holders a + holders b.
Proof. induction a; intros; simpl; [reflexivity|]. rewrite IHa; lia. Qed.

Lemma holding_hold : forall c, hold c = if holding c then 1 else 0.
Proof. intros []; reflexivity. Qed.

Lemma all_done_holders : forall l, all_done l -> holders l = 0.
Proof.
  induction l as [|x r IH]; intro H; simpl; [reflexivity|].
  rewrite (H x (or_introl eq_refl)); simpl. apply IH. intros c Hc; apply H; right; exact Hc.
Qed.

(* ---- any kind of code: the invariant with a budget n of destructor posts already seen ---- *)
Definition inv (n : nat) (s : state) : Prop :=
  match sem s with
  | None => holders (procs s) = 0
  | Some v => v + holders (procs s) <= 1 + n
  end.

Lemma step_inv : forall k s e s' n, step k s e s' -> inv n s -> inv (nexitpost [e] + n) s'.
Proof.
  intros k s e s' n H; inversion H; subst; unfold inv; simpl; intro I.
  - rewrite holders_app; simpl. destruct (sem s); lia.
  - pose proof (holders_set_pc _ _ _ Idle H0) as E; simpl in E. destruct (sem s); lia.
  - pose proof (holders_set_pc _ _ _ Holding H0) as E; simpl in E. rewrite H1 in I. lia.
  - pose proof (holders_set_pc _ _ _ InCS H0) as E; simpl in E. destruct (sem s); lia.
  - pose proof (holders_set_pc _ _ _ Holding H0) as E; simpl in E. destruct (sem s); lia.
  - pose proof (holders_set_pc _ _ _ Idle H0) as E; simpl in E. rewrite H1 in I. lia.
  - pose proof (holders_set_pc _ _ _ Done H0) as E; simpl in E.
    destruct (dtor_posts k c); simpl; destruct (sem s); simpl; lia.
  - pose proof (holders_set_pc _ _ _ Done H0) as E; simpl in E. destruct (sem s); lia.
Qed.

Lemma nexitpost_cons : forall e tr, nexitpost (e :: tr) = nexitpost [e] + nexitpost tr.
Proof. intros [| | | | | |p []|] tr; simpl; reflexivity. Qed.

Lemma steps_inv : forall k s tr s', steps k s tr s' -> forall n, inv n s -> inv (nexitpost tr + n) s'.
Proof.
  induction 1; intros n I; [exact I|].
  rewrite nexitpost_cons. apply (step_inv _ _ _ _ _ H) in I. apply IHsteps in I.
  replace (nexitpost [e] + nexitpost tr + n) with (nexitpost tr + (nexitpost [e] + n)) by lia. exact I.
Qed.

Lemma inv_init : inv 0 init.
Proof. unfold inv; simpl; reflexivity. Qed.

(* holders are bounded by one plus the number of destructor posts, for every kind of code *)
Lemma bound_any : forall k tr s, steps k init tr s ->
  holders (procs s) <= 1 + nexitpost tr /\
  (forall v, sem s = Some v -> v + holders (procs s) <= 1 + nexitpost tr).
Proof.
  intros k tr s H. pose proof (steps_inv _ _ _ _ H 0 inv_init) as I. unfold inv in I.
  rewrite Nat.add_0_r in I. destruct (sem s) as [v|].
  - split; [lia|]. intros w E; inversion E; subst; lia.
  - split; [lia| intros w E; discriminate].
Qed.

(* ---- current code: the destructor posts iff the lock is held ---- *)
Definition cons (s : state) : Prop := conservation (sem s) (procs s) (lost s).

Lemma step_cons : forall s e s', step DtorRelease s e s' -> cons s -> cons s'.
Proof.
  intros s e s' H; inversion H; subst; unfold cons, conservation; simpl; intro I.
  - rewrite holders_app; simpl. destruct (sem s); lia.
  - pose proof (holders_set_pc _ _ _ Idle H0) as E; simpl in E. destruct (sem s); lia.
  - pose proof (holders_set_pc _ _ _ Holding H0) as E; simpl in E. rewrite H1 in I. lia.
  - pose proof (holders_set_pc _ _ _ InCS H0) as E; simpl in E. destruct (sem s); lia.
  - pose proof (holders_set_pc _ _ _ Holding H0) as E; simpl in E. destruct (sem s); lia.
  - pose proof (holders_set_pc _ _ _ Idle H0) as E; simpl in E. rewrite H1 in I. lia.
  - pose proof (holders_set_pc _ _ _ Done H0) as E; simpl in E. rewrite (holding_hold c) in E.
    destruct (holding c); simpl; destruct (sem s); simpl; lia.
  - pose proof (holders_set_pc _ _ _ Done H0) as E; simpl in E. destruct (sem s); lia.
Qed.

Lemma steps_cons_inv : forall s tr s', steps DtorRelease s tr s' -> cons s -> cons s'.
Proof. induction 1; intro I; [exact I|]. apply IHsteps. eapply step_cons; eauto. Qed.

Lemma cons_init : cons init.
Proof. unfold cons, conservation; simpl; split; reflexivity. Qed.

Lemma mutex_release : forall tr s, steps DtorRelease init tr s ->
  mutual_exclusion (procs s) /\ inside (procs s) <= 1 /\ conservation (sem s) (procs s) (lost s).
Proof.
  intros tr s H. pose proof (steps_cons_inv _ _ _ H cons_init) as I.
  pose proof (inside_le_holders (procs s)) as L.
  split; [|split; [|exact I]]; unfold cons, conservation, mutual_exclusion in *; destruct (sem s); lia.
Qed.

Lemma step_lost : forall k s e s', step k s e s' -> nkill [e] = 0 -> lost s' = lost s.
Proof. intros k s e s' H; inversion H; subst; simpl; intro N; try reflexivity; discriminate. Qed.

Lemma nkill_cons : forall e tr, nkill (e :: tr) = nkill [e] + nkill tr.
Proof. intros [] tr; simpl; reflexivity. Qed.

Lemma steps_lost : forall k s tr s', steps k s tr s' -> nkill tr = 0 -> lost s' = lost s.
Proof.
  induction 1; intro N; [reflexivity|]. rewrite nkill_cons in N.
  rewrite IHsteps by lia. apply (step_lost _ _ _ _ H); lia.
Qed.

(* no holder killed: the value plus the holders is exactly one; hence exactly one once nobody holds *)
Lemma release_value : forall tr s, steps DtorRelease init tr s -> lost s = 0 ->
  forall v, sem s = Some v -> v + holders (procs s) = 1.
Proof.
  intros tr s H L v E. destruct (mutex_release _ _ H) as [_ [_ C]].
  unfold conservation in C; rewrite E in C; lia.
Qed.

Lemma release_final : forall tr s, steps DtorRelease init tr s -> lost s = 0 -> all_done (procs s) ->
  forall v, sem s = Some v -> v = 1.
Proof.
  intros tr s H L D v E. pose proof (release_value _ _ H L v E) as V.
  rewrite (all_done_holders _ D) in V; lia.
Qed.

Lemma release_final_nokill : forall tr s, steps DtorRelease init tr s -> nkill tr = 0 ->
  (forall v, sem s = Some v -> v + holders (procs s) = 1) /\
  (all_done (procs s) -> forall v, sem s = Some v -> v = 1).
Proof.
  intros tr s H N. pose proof (steps_lost _ _ _ _ H N) as L; simpl in L.
  split; [exact (release_value _ _ H L) | exact (release_final _ _ H L)].
Qed.

(* exit() is possible at every control point of a live process, whatever the kind of code *)
Lemma exit_enabled : forall k s p c, nth_error (procs s) p = Some c -> alive c = true ->
  exists s', step k s (Exit p (dtor_posts k c)) s'.
Proof. intros k s p c N A. eexists. eapply st_exit; eauto. Qed.

Lemma kill_enabled : forall k s p c, nth_error (procs s) p = Some c -> alive c = true ->
  exists s', step k s (Kill p) s'.
Proof. intros k s p c N A. eexists. eapply st_kill; eauto. Qed.

(* ---- never-post code ---- *)
Lemma quiet_no_exitpost : forall s tr s', steps DtorQuiet s tr s' -> nexitpost tr = 0.
Proof.
  induction 1; [reflexivity|]. rewrite nexitpost_cons, IHsteps.
  inversion H; subst; simpl; reflexivity.
Qed.

Lemma mutex_quiet : forall tr s, steps DtorQuiet init tr s ->
  mutual_exclusion (procs s) /\ never_more_than_created (sem s) (procs s) /\ inside (procs s) <= 1.
Proof.
  intros tr s H. pose proof (steps_inv _ _ _ _ H 0 inv_init) as I.
  rewrite (quiet_no_exitpost _ _ _ H) in I. unfold inv in I; simpl in I.
  pose proof (inside_le_holders (procs s)) as L.
  unfold mutual_exclusion, never_more_than_created. destruct (sem s); lia.
Qed.

(* the lock is lost: value 0, nobody holds *)
Definition dead (s : state) : Prop := sem s = Some 0 /\ holders (procs s) = 0.

Lemma nth_hold_le : forall l p c, nth_error l p = Some c -> hold c <= holders l.
Proof.
  induction l as [|x r IH]; intros [|q] c H; simpl in *; try discriminate.
  - inversion H; subst; lia.
  - specialize (IH q c H); lia.
Qed.

Lemma step_dead : forall s e s', step DtorQuiet s e s' -> dead s -> dead s' /\ forall p, e <> Wait p.
Proof.
  intros s e s' H [V Hh]; inversion H; subst; unfold dead; simpl.
  - split; [|intros; discriminate]. rewrite holders_app; simpl; split; [assumption|lia].
  - split; [|intros; discriminate]. pose proof (holders_set_pc _ _ _ Idle H0) as E; simpl in E.
    rewrite V; split; [reflexivity|lia].
  - rewrite V in H1; discriminate.
  - apply nth_hold_le in H0; simpl in H0; lia.
  - apply nth_hold_le in H0; simpl in H0; lia.
  - apply nth_hold_le in H0; simpl in H0; lia.
  - split; [|intros; discriminate]. pose proof (holders_set_pc _ _ _ Done H0) as E; simpl in E.
    split; [assumption|lia].
  - split; [|intros; discriminate]. pose proof (holders_set_pc _ _ _ Done H0) as E; simpl in E.
    split; [assumption|lia].
Qed.

Lemma steps_dead : forall s tr s', steps DtorQuiet s tr s' -> dead s ->
  dead s' /\ forall p, ~ In (Wait p) tr.
Proof.
  induction 1; intro D; [split; [exact D| intros p []]|].
  destruct (step_dead _ _ _ H D) as [D1 NW]. destruct (IHsteps D1) as [D2 NI].
  split; [exact D2|]. intros p [E|I]; [exact (NW p E) | exact (NI p I)].
Qed.

(* ---- acceptor ---- *)
Lemma pc_eqb_eq : forall a b, pc_eqb a b = true <-> a = b.
Proof. intros [] []; simpl; split; intro H; try reflexivity; try discriminate. Qed.

Lemma at_pc_spec : forall s p c, at_pc s p c = true <-> nth_error (procs s) p = Some c.
Proof.
  intros s p c; unfold at_pc. destruct (nth_error (procs s) p) as [x|]; split; intro H; try discriminate.
  - apply pc_eqb_eq in H; subst; reflexivity.
  - inversion H; subst. apply pc_eqb_eq; reflexivity.
Qed.

Lemma step_fn_sound : forall k s e s', step_fn k s e = Some s' -> step k s e s'.
Proof.
  intros k s [|p|p|p|p|p|p b|p] s' H; simpl in H.
  - inversion H; constructor.
  - destruct (at_pc s p NotOpen) eqn:A; [|discriminate]. apply at_pc_spec in A. inversion H; constructor; exact A.
  - destruct (at_pc s p Idle) eqn:A; [|discriminate]. apply at_pc_spec in A.
    destruct (sem s) as [[|v]|] eqn:E; try discriminate. inversion H. apply st_wait; assumption.
  - destruct (at_pc s p Holding) eqn:A; [|discriminate]. apply at_pc_spec in A. inversion H; constructor; exact A.
  - destruct (at_pc s p InCS) eqn:A; [|discriminate]. apply at_pc_spec in A. inversion H; constructor; exact A.
  - destruct (at_pc s p Holding) eqn:A; [|discriminate]. apply at_pc_spec in A.
    destruct (sem s) as [v|] eqn:E; try discriminate. inversion H. apply st_post; assumption.
  - destruct (nth_error (procs s) p) as [c|] eqn:N; [|discriminate].
    destruct (alive c) eqn:O; [|discriminate]. simpl in H.
    destruct (Bool.eqb b (dtor_posts k c)) eqn:B; [|discriminate]. apply Bool.eqb_prop in B.
    inversion H. eapply st_exit; eauto.
  - destruct (nth_error (procs s) p) as [c|] eqn:N; [|discriminate].
    destruct (alive c) eqn:O; [|discriminate]. inversion H. eapply st_kill; eauto.
Qed.

Lemma step_fn_complete : forall k s e s', step k s e s' -> step_fn k s e = Some s'.
Proof.
  intros k s e s' H; inversion H; subst; simpl; try reflexivity.
  - apply at_pc_spec in H0; rewrite H0; reflexivity.
  - apply at_pc_spec in H0; rewrite H0, H1; reflexivity.
  - apply at_pc_spec in H0; rewrite H0; reflexivity.
  - apply at_pc_spec in H0; rewrite H0; reflexivity.
  - apply at_pc_spec in H0; rewrite H0, H1; reflexivity.
  - rewrite H0, H1, Bool.eqb_reflx; reflexivity.
  - rewrite H0, H1; reflexivity.
Qed.

Lemma run_sound : forall k tr s s', run k s tr = Some s' -> steps k s tr s'.
Proof.
  induction tr as [|e r IH]; intros s s' H; simpl in H.
  - inversion H; constructor.
  - destruct (step_fn k s e) as [s1|] eqn:E; [|discriminate].
    econstructor; [apply step_fn_sound; exact E | apply IH; exact H].
Qed.

Lemma run_complete : forall k s tr s', steps k s tr s' -> run k s tr = Some s'.
Proof.
  induction 1; simpl; [reflexivity|]. rewrite (step_fn_complete _ _ _ _ H). exact IHsteps.
Qed.

Lemma accepts_sound : forall k tr, accepts k tr = true -> exists s, steps k init tr s.
Proof.
  intros k tr H; unfold accepts in H. destruct (run k init tr) as [s|] eqn:E; [|discriminate].
  exists s; apply run_sound; exact E.
Qed.

Lemma accepts_complete : forall k tr s, steps k init tr s -> accepts k tr = true.
Proof. intros k tr s H; unfold accepts; rewrite (run_complete _ _ _ _ H); reflexivity. Qed.

Lemma run_app : forall k a b s, run k s (a ++ b) = match run k s a with Some s1 => run k s1 b | None => None end.
Proof. induction a as [|e r IH]; intros b s; simpl; [reflexivity|]. destruct (step_fn k s e); [apply IH|reflexivity]. Qed.

(* accepted traces of the current code keep mutual exclusion and conservation at every prefix *)
Lemma accepted_prefixes_mutex : forall a b, accepts DtorRelease (a ++ b) = true ->
  exists s, run DtorRelease init a = Some s /\ mutual_exclusion (procs s) /\ inside (procs s) <= 1 /\
            conservation (sem s) (procs s) (lost s).
Proof.
  intros a b H; unfold accepts in H; rewrite run_app in H.
  destruct (run DtorRelease init a) as [s|] eqn:E; [|discriminate].
  exists s; split; [reflexivity|]. apply run_sound in E. exact (mutex_release _ _ E).
Qed.

(* ---- never-post code: a holder that calls exit() loses the lock for ever ---- *)
Lemma quiet_leak : exists s, steps DtorQuiet init (exit_inside false) s /\
  all_done (procs s) /\ lost s = 0 /\ sem s = Some 0 /\
  forall tr' s', steps DtorQuiet s tr' s' ->
    sem s' = Some 0 /\ holders (procs s') = 0 /\ forall p, ~ In (Wait p) tr'.
Proof.
  eexists; split; [apply run_sound; vm_compute; reflexivity|]. simpl.
  split; [intros c [E|[]]; symmetry; exact E|]. split; [reflexivity|]. split; [reflexivity|].
  intros tr' s' H. assert (D : dead (mk (Some 0) [Done] 0)) by (split; reflexivity).
  destruct (steps_dead _ _ _ H D) as [[V Hh] NW]. split; [exact V|split; [exact Hh|exact NW]].
Qed.

(* the same history on the current code: the destructor releases, the value is back to 1 *)
Lemma release_exit_inside : exists s, steps DtorRelease init (exit_inside true) s /\
  all_done (procs s) /\ sem s = Some 1.
Proof.
  eexists; split; [apply run_sound; vm_compute; reflexivity|]. simpl.
  split; [intros c [E|[]]; symmetry; exact E|reflexivity].
Qed.

(* ---- always-post code (pinned tree) ---- *)
Lemma refuted_posts : exists tr s, steps DtorPosts init tr s /\ inside (procs s) = 2 /\ holders (procs s) = 2.
Proof.
  exists (history 1 0 ++ [Spawn; Spawn; Open 1; Open 2; Wait 1; Wait 2; Enter 1; Enter 2]).
  eexists; split; [apply run_sound; vm_compute; reflexivity|]. split; vm_compute; reflexivity.
Qed.

Lemma nth_error_app_last : forall (l : list pc) x, nth_error (l ++ [x]) (length l) = Some x.
Proof. induction l; intros; simpl; [reflexivity|apply IHl]. Qed.
Lemma set_pc_app_last : forall l x c, set_pc (l ++ [x]) (length l) c = l ++ [c].
Proof. induction l; intros; simpl; [reflexivity|rewrite IHl; reflexivity]. Qed.

Definition value_of (o : option nat) : nat := match o with None => 1 | Some v => v end.

Lemma at_last : forall sm l c lo, at_pc (mk sm (l ++ [c]) lo) (length l) c = true.
Proof. intros; apply at_pc_spec; simpl; apply nth_error_app_last. Qed.

Lemma full_run_effect : forall s w, value_of (sem s) = S w ->
  run DtorPosts s (full_run (length (procs s))) = Some (mk (Some (S (S w))) (procs s ++ [Done]) (lost s)).
Proof.
  intros [sm l lo] w V; simpl in V. cbn [full_run run procs sem lost].
  cbn [step_fn procs sem lost]. rewrite at_last. cbn [procs sem lost]. rewrite set_pc_app_last.
  replace (match sm with Some v => v | None => 1 end) with (S w) by (destruct sm; simpl in V; congruence).
  cbn [step_fn procs sem lost]. rewrite at_last. cbn [procs sem lost]. rewrite set_pc_app_last.
  cbn [step_fn procs sem lost]. rewrite at_last. cbn [procs sem lost]. rewrite set_pc_app_last.
  cbn [step_fn procs sem lost]. rewrite at_last. cbn [procs sem lost]. rewrite set_pc_app_last.
  cbn [step_fn procs sem lost]. rewrite at_last. cbn [procs sem lost]. rewrite set_pc_app_last.
  cbn [step_fn procs sem lost]. rewrite nth_error_app_last.
  cbn [alive opened dtor_posts Bool.eqb andb bump]. rewrite set_pc_app_last. reflexivity.
Qed.

(* n complete sequential runs on the pinned code leave the value at n + its value before *)
Lemma history_effect : forall n s w, value_of (sem s) = S w ->
  exists s', run DtorPosts s (history (S n) (length (procs s))) = Some s' /\
             sem s' = Some (S n + S w) /\ holders (procs s') = holders (procs s) /\
             length (procs s') = S n + length (procs s).
Proof.
  induction n as [|n IH]; intros s w V.
  - change (history 1 (length (procs s))) with (full_run (length (procs s)) ++ []).
    rewrite app_nil_r, (full_run_effect _ _ V). eexists; split; [reflexivity|]. simpl.
    rewrite holders_app, app_length; simpl. split; [f_equal; lia|split; lia].
  - change (history (S (S n)) (length (procs s))) with (full_run (length (procs s)) ++ history (S n) (S (length (procs s)))).
    rewrite run_app, (full_run_effect _ _ V).
    set (s1 := mk (Some (S (S w))) (procs s ++ [Done]) (lost s)).
    assert (L : S (length (procs s)) = length (procs s1)) by (simpl; rewrite app_length; simpl; lia).
    rewrite L. destruct (IH s1 (S w) eq_refl) as [s' [R [E [Hh Hl]]]].
    exists s'; split; [exact R|]. split; [rewrite E; f_equal; lia|].
    split; [rewrite Hh; simpl; rewrite holders_app; simpl; lia | rewrite Hl; simpl; rewrite app_length; simpl; lia].
Qed.

Lemma value_after_runs : forall n, exists s, steps DtorPosts init (history (S n) 0) s /\
  sem s = Some (S (S n)) /\ holders (procs s) = 0.
Proof.
  intro n. destruct (history_effect n init 0 eq_refl) as [s [R [E [H _]]]].
  exists s; split; [apply run_sound; exact R|]. split; [rewrite E; f_equal; lia | exact H].
Qed.

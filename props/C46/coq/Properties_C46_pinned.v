(* C46 -- theorems about the model of the code whose ~MFrontLock always posts (pinned tree, defect F13); selected by
   the check when the traces of the real code contain a destructor post by a process that does not hold the lock. *)
From Coq Require Import List Arith.
From C46 Require Import C46Spec C46Model C46Proofs.
Import ListNotations.

(* mutual exclusion is false of that code: one complete run, then two processes are inside together *)
Theorem C46_mutual_exclusion_refuted : exists tr s,
  steps DtorPosts init tr s /\ inside (procs s) = 2 /\ holders (procs s) = 2.
Proof. exact refuted_posts. Qed.
Print Assumptions C46_mutual_exclusion_refuted.

(* the value drifts by one per run: after n+1 sequential runs that took the lock it is n+2 *)
Theorem C46_value_after_runs_refuted : forall n, exists s, steps DtorPosts init (history (S n) 0) s /\
  sem s = Some (S (S n)) /\ holders (procs s) = 0.
Proof. exact value_after_runs. Qed.
Print Assumptions C46_value_after_runs_refuted.

(* C46 -- specification of "the mfront inter-process lock provides mutual exclusion".
   Written independently of the code: a system is a finite family of processes, each at a control point; the
   property speaks about the processes that are between the return of their acquisition and their release. *)
From Coq Require Import List Arith.
Import ListNotations.

(* control points of one mfront process with respect to the lock *)
Inductive pc :=
| NotOpen   (* has not touched the lock object yet *)
| Idle      (* semaphore opened, not holding *)
| Holding   (* acquisition returned, release not yet issued, outside the marked section *)
| InCS      (* inside the marked lock-protected section *)
| Done.     (* process has ended *)

Definition hold (c : pc) : nat := match c with Holding | InCS => 1 | _ => 0 end.
Definition incs (c : pc) : nat := match c with InCS => 1 | _ => 0 end.

Fixpoint holders (l : list pc) : nat :=
  match l with [] => 0 | c :: r => hold c + holders r end.
Fixpoint inside (l : list pc) : nat :=
  match l with [] => 0 | c :: r => incs c + inside r end.

(* the lock was created with one permit: at most one holder, and the permits still available plus the holders
   never exceed that one permit *)
Definition mutual_exclusion (l : list pc) : Prop := holders l <= 1.
Definition never_more_than_created (permits : option nat) (l : list pc) : Prop :=
  match permits with None => holders l = 0 | Some v => v + holders l <= 1 end.

(* conservation of the single permit: once the lock exists its one permit is always exactly somewhere --
   available (the value of the semaphore), in the hands of a live process, or destroyed together with a process
   that was killed (no user code ran) while it held the lock [lost].  No drift (never more than one), no leak
   (never fewer unless a holder was killed). *)
Definition conservation (permits : option nat) (l : list pc) (lost : nat) : Prop :=
  match permits with
  | None => holders l = 0 /\ lost = 0
  | Some v => v + holders l + lost = 1
  end.

Definition all_done (l : list pc) : Prop := forall c, In c l -> c = Done.

"""C46 -- the mfront inter-process lock provides mutual exclusion.
Engine H: Gallina transition system of the named semaphore and of the processes using MFrontLock (C46Model.v); the
invariants (holders <= 1; value + holders + killed holders = 1) are proved by induction over every trace (any number of
processes, any interleaving, exit()/kill at any control point, inside a protected section included).
Tie: the REAL mfront/src/MFrontLock.cxx is compiled into driver.cxx, its sem_* calls are logged by link-time wrappers
(no source hook), forked processes run seeded histories (ending by exit()/_exit()/uncaught exception, idle or inside a
section with the real MFrontLockGuard alive), and every logged trace is fed to the acceptor extracted from the model;
sem_getvalue after every phase must equal the model's value.  Independently of the model the raw log is checked for:
at most one holder at any time, and the value left behind = 1 (minus the holders killed by _exit).
The kind of code (destructor posts iff held = current; always = pinned, F13; never = b861cfc5d, lock lost) is read off
the traces and selects the theorem file."""
import os, threading
from concurrent.futures import ThreadPoolExecutor
from vlib import guarded_main

REPO_SOURCES = ["mfront/src/MFrontLock.cxx", "mfront/src/MFrontLogStream.cxx"]
WRAP = ["-Wl,--wrap=sem_open", "-Wl,--wrap=sem_wait", "-Wl,--wrap=sem_post", "-Wl,--wrap=sem_close",
        "-Wl,--wrap=geteuid"]
MODEL = ["C46Spec.v", "C46Model.v"]
EXTRACT = """From Coq Require Import ExtrOcamlBasic.
From C46 Require Import C46Spec C46Model.
Extraction "c46_model.ml" step_fn init holders inside.
"""
PROPS = {"release": "Properties_C46.v", "posts": "Properties_C46_pinned.v", "quiet": "Properties_C46_quiet.v"}
KIND_TEXT = {"release": "~MFrontLock posts iff the lock is still held (current code)",
             "posts": "~MFrontLock always posts (pinned code, defect F13)",
             "quiet": "~MFrontLock never posts (commit b861cfc5d: the lock is lost when exit() is called inside a section)"}
WATCHDOG_S = 10

CANON = [
    ("canon-1run", "phase\nchild 1 200 0 exit\n"),
    ("canon-1run-then-2", "phase\nchild 1 200 0 exit\nphase\nchild 2 20000 200 exit\nchild 2 20000 200 exit\n"),
    ("canon-8runs", "".join("phase\nchild 1 100 0 exit\n" for _ in range(8))),
    ("canon-nolock-runs", "phase\nchild 0 0 0 exit\nphase\nchild 0 0 0 quick\n"),
    ("canon-4concurrent", "phase\n" + "child 3 500 100 exit\n" * 4),
    ("canon-quick-then-3", "phase\nchild 2 100 0 quick\nphase\n" + "child 2 1000 0 exit\n" * 3),
    ("canon-exit-inside", "phase\nchild 1 100 0 exit\nchild 1 100 0 exit\nphase\nchild 2 100 0 exitcs\n"),
    ("canon-exit-inside-then-run", "phase\nchild 1 100 0 exitcs\nphase\nchild 1 100 0 exit\n"),
    ("canon-throw-inside-then-2", "phase\nchild 2 100 0 throwcs\nphase\nchild 2 1000 100 exit\nchild 2 1000 100 exit\n"),
    ("canon-exits-inside-concurrent", "phase\nchild 1 500 0 exitheld\nchild 2 500 100 exit\nchild 2 500 100 exitcs\n"
                                      "child 1 200 0 throwcs\nchild 3 200 100 quick\nphase\nchild 1 100 0 exit\n"),
    ("canon-crash-inside", "phase\nchild 1 100 0 quick\nchild 2 100 50 quick\nphase\nchild 1 100 0 crashcs\n"),
]
CANON_NAMES = set(n for n, _ in CANON)


def gen_scenario(rng, kmax, exits_anywhere):
    """exits_anywhere: processes may call exit() / throw inside a section in any phase (right for code that releases at
    exit; on code that does not, every later process would block until the watchdog: then such an end is only generated
    alone in a last phase).  _exit inside a section (no code can repair that) is always alone in a last phase."""
    ends = ["exit", "exit", "exit", "quick"] + (["exitcs", "throwcs", "exitheld"] if exits_anywhere else [])
    txt = ""
    for _ in range(rng.randint(1, 4)):
        txt += "phase\n"
        for _ in range(rng.randint(1, kmax)):
            txt += "child %d %d %d %s\n" % (rng.choice([0, 1, 1, 2, 3]), rng.choice([0, 100, 500, 2000]),
                                           rng.choice([0, 0, 100, 1000]), rng.choice(ends))
    if rng.random() < 0.3:  # a process ending inside its section, alone in a last phase (the lock may stay taken)
        txt += "phase\nchild %d %d 0 %s\n" % (rng.randint(1, 2), rng.choice([0, 200]),
                                              rng.choice(["exitcs", "throwcs", "crashcs"]))
    return txt


def translate(raw):
    """raw log of the driver -> (model event lines, facts for the classification and for the independent check)"""
    ev = []
    opened, holding, window, done = set(), set(), set(), set()
    exits = []            # one per process ended through exit(): {"p", "opened", "held", "posted"}
    surplus = leaked = killed_holding = 0
    max_holders, worst = 0, None
    probes, anomalies, hung = [], [], []
    for i, l in enumerate(raw):
        k, p, v = l.split()
        p, v = int(p), int(v)
        if k == "SPAWN":
            ev.append("S")
        elif k == "OPEN":
            ev.append("O %d" % p)
            opened.add(p)
        elif k == "WAIT":
            ev.append("W %d" % p)
            holding.add(p)
            if len(holding) > max_holders:
                max_holders, worst = len(holding), (i, sorted(holding))
            if len(holding) > 1:
                anomalies.append(("two-holders", len(holding) <= 1 + surplus,
                                  "log event %d: processes %s hold the lock together (sem_wait returned for each, none has posted)" % (i, sorted(holding))))
        elif k == "ENTER":
            ev.append("E %d" % p)
        elif k == "LEAVE":
            ev.append("L %d" % p)
        elif k == "POST":
            if p in window:  # issued by the static destructor
                ev.append("X %d 1" % p)
                if p in done:
                    pass  # second destructor post: the acceptor rejects it
                else:
                    held = p in holding
                    exits.append({"p": p, "opened": p in opened, "held": held, "posted": True})
                    if not held:
                        surplus += 1
                    done.add(p)
                holding.discard(p)
            else:
                ev.append("P %d" % p)
                holding.discard(p)
        elif k == "CLOSE":
            pass  # no effect on the value of the semaphore
        elif k == "EXIT_BEGIN":
            window.add(p)
        elif k == "EXIT_END":
            if p not in done:
                ev.append("X %d 0" % p)
                held = p in holding
                exits.append({"p": p, "opened": p in opened, "held": held, "posted": False})
                if held:
                    leaked += 1
                done.add(p)
            holding.discard(p)
        elif k in ("QUICK", "HUNG"):
            ev.append("K %d" % p)
            if p in holding:
                killed_holding += 1
            holding.discard(p)
            done.add(p)
            if k == "HUNG":
                hung.append(p)
        elif k == "PROBE":
            ev.append("Q %d" % v)
            probes.append(v)
            # independent statement: once every process of the phase has ended, the semaphore (if any process ever
            # opened it) is worth the one permit it was created with, minus the holders that were killed
            expect = (1 - killed_holding) if opened else -1
            if v != expect:
                what = "value-drift" if v > expect else "lock-lost"
                anomalies.append((what, v - expect == surplus - leaked,
                                  "log event %d: sem_getvalue = %d after every process of the phase has ended, expected %d "
                                  "(%d destructor posts by processes not holding, %d exit() while holding without post, %d holders killed by _exit)" % (
                                      i, v, expect, surplus, leaked, killed_holding)))
        else:
            ev.append("? " + l)
    return ev, {"exits": exits, "surplus": surplus, "leaked": leaked, "killed_holding": killed_holding,
                "max_holders": max_holders, "worst": worst, "probes": probes, "anomalies": anomalies, "hung": hung}


def classify(all_facts):
    ex = [e for f in all_facts for e in f["exits"]]
    seen = {"surplus": any(e["posted"] and not e["held"] for e in ex),
            "leak": any(e["held"] and not e["posted"] for e in ex),
            "release": any(e["held"] and e["posted"] for e in ex),
            "idle_quiet": any(e["opened"] and not e["held"] and not e["posted"] for e in ex)}
    if seen["surplus"] and not seen["leak"]:
        return "posts", seen
    if seen["leak"] and not seen["surplus"]:
        return "quiet", seen
    return "release", seen


def main(c):
    exe = c.cxx("driver", ["driver.cxx"], REPO_SOURCES, libs=WRAP)
    c.log("driver built")
    acc = c.ocaml_extract("c46", MODEL, EXTRACT, "acceptor.ml")
    c.log("acceptor extracted and built")
    c.trusted("link-time wrappers of sem_open/sem_wait/sem_post/sem_close/geteuid in props/C46/driver.cxx (log, then forward to libc); "
              "the log order argument stated at the top of driver.cxx",
              "POSIX named-semaphore semantics as written in C46Model.v (sem_open O_CREAT creates with 1 only if absent; "
              "sem_wait returns only by taking one permit; sem_post adds one; the value persists; sem_close leaves it)",
              "exit() runs the static destructors of the process and does not unwind the stack; _exit runs nothing (ISO C++ / POSIX)",
              "python translation of the raw log to model events (props/C46/check.py translate)")
    base_uid = 1000000000 + (os.getpid() % 100000) * 10000
    lock = threading.Lock()
    scen, results = [], {}

    def run_batch(batch):
        first = len(scen)
        scen.extend(batch)

        def run_one(ix):
            name, txt = scen[ix]
            uid = base_uid + ix
            try:
                rc, out, err = c.run([exe, str(uid), str(WATCHDOG_S)], input=txt, timeout=300)
            finally:
                try:
                    os.unlink("/dev/shm/sem.mfront-%d" % uid)
                except OSError:
                    pass
            with lock:
                results[ix] = (rc, out.split("\n") if out else [], err)

        with ThreadPoolExecutor(max_workers=4) as ex:
            list(ex.map(run_one, range(first, len(scen))))

    trans = {}

    def digest(first):
        for ix in range(first, len(scen)):
            rc, raw, err = results[ix]
            raw = [l for l in raw if l.strip()]
            if rc not in (0, 5, 7) or not raw:
                c.report("driver:" + scen[ix][0], "driver failed (rc=%d) on scenario %s: %s" % (rc, scen[ix][0], err[-300:]),
                         {"scenario_name": scen[ix][0], "scenario": scen[ix][1], "stderr": err[-2000:]}, False)
                continue
            ev, facts = translate(raw)
            trans[ix] = (ev, facts, rc, raw)

    # ---- the fixed histories first: they tell which kind of code this is
    run_batch(list(CANON))
    digest(0)
    kind0, _ = classify([t[1] for t in trans.values()])
    batch = []
    if c.replay:
        nm = c.replay["replay"].get("scenario_name", "replay")
        if nm not in CANON_NAMES:
            batch.append((nm, c.replay["replay"]["scenario"]))
    else:
        kmax = c.pick(5, 12)
        for i in range(c.pick(30, 400)):
            batch.append(("rnd-%d" % i, gen_scenario(c.rng, kmax, kind0 == "release")))
    n0 = len(scen)
    run_batch(batch)
    digest(n0)
    c.log("%d scenarios run on the real code" % len(scen))
    kind, seen = classify([t[1] for t in trans.values()])
    if kind == "release" and not (seen["release"] and seen["idle_quiet"]):
        c.report("tie:kind-not-observed", "the traces do not show both an exit() while holding followed by a destructor post and an "
                 "exit() while idle without one (observed: %s): the kind of code cannot be read off the traces" % seen, {"seen": seen}, False)
    # ---- run the acceptor
    text = ""
    for ix, (ev, facts, rc, raw) in trans.items():
        text += "T %d %s\n%s\nEND\n" % (ix, kind, "\n".join(ev))
    rc, out, err = c.run([acc], input=text, timeout=600)
    verdicts = {}
    for l in out.splitlines():
        t = l.split(" ", 2)
        if len(t) >= 2 and t[0] in ("ACCEPT", "REJECT"):
            verdicts[int(t[1])] = (t[0], t[2] if len(t) > 2 else "")
    accepted = final_one = exits_holding = exits_idle = kills_holding = 0
    seen_anom = {"two-holders": 0, "value-drift": 0, "lock-lost": 0, "hung": 0}
    extra_reports = 0
    for ix, (ev, facts, drc, raw) in trans.items():
        name, txt = scen[ix]
        conc = any(len([l for l in ph.split("\n") if l.startswith("child") and not l.startswith("child 0")]) >= 2
                   for ph in txt.split("phase\n"))
        c.count(1, txt, conc or txt.count("phase") >= 2)
        exits_holding += sum(1 for e in facts["exits"] if e["held"])
        exits_idle += sum(1 for e in facts["exits"] if e["opened"] and not e["held"])
        kills_holding += facts["killed_holding"]
        if facts["probes"] and facts["probes"][-1] == 1:
            final_one += 1
        v = verdicts.get(ix)
        if ix % 7 == 0:
            c.sample({"scenario": name, "text": txt, "events": len(ev), "model_events_head": ev[:24],
                      "probes": facts["probes"], "max_holders": facts["max_holders"],
                      "exits": facts["exits"][:6], "verdict": " ".join(v) if v else "?"})
        rep = {"scenario_name": name, "scenario": txt, "model_kind": kind, "raw_log": raw[:400], "model_events": ev[:400],
               "how": "props/C46/driver <private euid> < scenario ; log -> acceptor extracted from C46Model.v"}
        if v is None:
            c.report("acceptor:" + name, "acceptor gave no verdict on scenario %s: %s" % (name, err[-300:]), rep, False)
            continue
        if v[0] == "REJECT":
            c.report("reject:" + name, "trace of the real MFrontLock.cxx on scenario %s is not a run of the model (%s): %s" % (
                name, KIND_TEXT[kind], v[1]), rep, True)
        else:
            accepted += 1
        if facts["hung"]:
            seen_anom["hung"] += 1
            c.notes.append("scenario %s: processes %s still blocked after %d s were killed by the watchdog" % (name, facts["hung"], WATCHDOG_S))
        # ---- independent statement of the property on the raw log
        kinds_here = set()
        for (what, explained, msg) in facts["anomalies"]:
            if what in kinds_here:
                continue
            kinds_here.add(what)
            seen_anom[what] += 1
            if not explained:
                c.report("outcome:" + name, "scenario %s: %s (not explained by what the destructors were seen to do)" % (name, msg), rep, True)
            elif what == "value-drift" and name == "canon-1run":
                c.report("F13:value-drift", "after one complete run that took the lock once, sem_getvalue(/mfront-<euid>) = %s > 1 = value at creation: "
                         "MFrontLock::~MFrontLock calls sem_post although the lock is not held" % facts["probes"], rep, True)
            elif what == "two-holders" and name == "canon-1run-then-2":
                c.report("F13:two-holders", "after one complete run that took the lock, two processes hold the lock together "
                         "(log event %s, processes %s): ~MFrontLock posts the semaphore once more than it waited" % facts["worst"], rep, True)
            elif what == "lock-lost" and name == "canon-exit-inside":
                c.report("leak:exit-while-holding", "a process calls exit() inside a MFrontLockGuard-protected section (what mfront's terminate "
                         "handler does on an uncaught exception): ~MFrontLock does not release the lock, sem_getvalue(/mfront-<euid>) = %s "
                         "after every process has ended (expected 1): the lock is lost, every later mfront run blocks in sem_wait" % facts["probes"][-1], rep, True)
            elif name not in ("canon-8runs", "canon-exit-inside-then-run") and extra_reports < 3:
                extra_reports += 1
                c.report("%s:%s" % (what, name), "scenario %s: %s" % (name, msg), rep, True)
        if name == "canon-8runs" and "value-drift" in kinds_here:
            c.notes.append("semaphore values after 1..8 sequential runs: %s" % facts["probes"])
        if name == "canon-exit-inside-then-run" and facts["hung"] and facts["leaked"]:
            c.report("leak:later-run-blocked", "process 0 called exit() inside a protected section without the lock being released "
                     "(value %s afterwards); the next run (process %s) was still blocked in sem_wait after %d s" % (
                         facts["probes"][:1], facts["hung"], WATCHDOG_S), rep, True)
    c.coverage["traces_validated_against_impl"] = accepted
    c.coverage["rule"] = ("%d fixed histories + seeded random histories: 1-4 phases of 1..%d concurrent processes, each 0-3 lock/unlock rounds "
                          "with holds 0-2 ms, ending by exit() or _exit() when idle, or inside the section with the real MFrontLockGuard alive by "
                          "exit(), exit() before the section marker, an uncaught exception (terminate handler calling exit(), as mfront's) or "
                          "_exit(); after every phase sem_getvalue must be 1 minus the holders killed by _exit; non-trivial = at least two "
                          "lock-taking processes run concurrently or the history has at least two phases; distinct = distinct scenario text" % (
                              len(CANON), c.pick(5, 12)))
    c.notes.append("code classified as model kind '%s': %s; observed over all traces: %s" % (kind, KIND_TEXT[kind], seen))
    c.notes.append("processes that called exit() while holding the lock: %d, while idle (lock object alive): %d; holders killed by _exit: %d; "
                   "scenarios leaving sem_getvalue = 1 behind: %d of %d (on code that conserves the permit the others are: no lock object at all, or a holder killed by _exit)" % (
                       exits_holding, exits_idle, kills_holding, final_one, len(trans)))
    c.notes.append("scenarios with two holders: %d, with value drift: %d, with the lock lost: %d, with processes killed by the watchdog: %d" % (
        seen_anom["two-holders"], seen_anom["value-drift"], seen_anom["lock-lost"], seen_anom["hung"]))
    c.notes.append("no source hook needed: observation by link-time wrapping of the libc calls made by MFrontLock.cxx; private semaphore name through wrapped geteuid")
    c.log("traces judged: %d of %d accepted as '%s' code (%s)" % (accepted, len(trans), kind, KIND_TEXT[kind]))
    # ---- Coq
    files = MODEL + ["C46Proofs.v", "Properties_C46_acceptor.v", PROPS[kind]]
    res = c.coq(files, timeout=600)
    if not res.ok:
        c.coq_failures(res)


guarded_main("C46", main)

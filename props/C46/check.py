"""C46 -- the mfront inter-process lock provides mutual exclusion.
Engine H: Gallina transition system of the named semaphore and of the processes using MFrontLock (C46Model.v); the
invariant is proved by induction over every trace (any number of processes, any interleaving, exits at any point).
Tie: the REAL mfront/src/MFrontLock.cxx is compiled into driver.cxx, its sem_* calls are logged by link-time wrappers
(no source hook), forked processes run seeded histories, and every logged trace is fed to the acceptor extracted from
the model; sem_getvalue at quiescent points must equal the model's value; the outcome (at most one process inside,
value never above 1) is re-checked on the raw log independently of the model."""
import os, threading
from concurrent.futures import ThreadPoolExecutor
from vlib import guarded_main

REPO_SOURCES = ["mfront/src/MFrontLock.cxx", "mfront/src/MFrontLogStream.cxx"]
WRAP = ["-Wl,--wrap=sem_open", "-Wl,--wrap=sem_wait", "-Wl,--wrap=sem_post", "-Wl,--wrap=sem_close",
        "-Wl,--wrap=geteuid"]
MODEL = ["C46Spec.v", "C46Model.v"]
EXTRACT = """From Coq Require Import ExtrOcamlBasic.
From C46 Require Import C46Spec C46Model.
Extraction "c46_model.ml" step_fn init holders inside.
"""

CANON = [
    ("canon-1run", "phase\nchild 1 200 0 exit\n"),
    ("canon-1run-then-2", "phase\nchild 1 200 0 exit\nphase\nchild 2 20000 200 exit\nchild 2 20000 200 exit\n"),
    ("canon-8runs", "".join("phase\nchild 1 100 0 exit\n" for _ in range(8))),
    ("canon-nolock-runs", "phase\nchild 0 0 0 exit\nphase\nchild 0 0 0 quick\n"),
    ("canon-4concurrent", "phase\n" + "child 3 500 100 exit\n" * 4),
    ("canon-quick-then-3", "phase\nchild 2 100 0 quick\nphase\n" + "child 2 1000 0 exit\n" * 3),
    ("canon-exit-inside", "phase\nchild 1 100 0 exit\nchild 1 100 0 exit\nphase\nchild 2 100 0 exitcs\n"),
    ("canon-crash-inside", "phase\nchild 1 100 0 quick\nchild 2 100 50 quick\nphase\nchild 1 100 0 crashcs\n"),
]


def gen_scenario(rng, kmax):
    txt = ""
    for _ in range(rng.randint(1, 4)):
        txt += "phase\n"
        for _ in range(rng.randint(1, kmax)):
            txt += "child %d %d %d %s\n" % (rng.choice([0, 1, 1, 2, 3]), rng.choice([0, 100, 500, 2000]),
                                           rng.choice([0, 0, 100, 1000]), rng.choice(["exit", "exit", "exit", "quick"]))
    if rng.random() < 0.3:  # a process ending inside its section, alone in a last phase (the lock may stay taken)
        txt += "phase\nchild %d %d 0 %s\n" % (rng.randint(1, 2), rng.choice([0, 200]), rng.choice(["exitcs", "crashcs"]))
    return txt


def translate(raw):
    """raw log of the driver -> (model event lines, number of destructor posts, facts for the independent check)"""
    ev, window, exited = [], set(), set()
    inside, max_inside, worst = set(), 0, None
    nxp, probes, unexplained = 0, [], []
    for i, l in enumerate(raw):
        k, p, v = l.split()
        p, v = int(p), int(v)
        if k == "SPAWN":
            ev.append("S")
        elif k == "OPEN":
            ev.append("O %d" % p)
        elif k == "WAIT":
            ev.append("W %d" % p)
        elif k == "ENTER":
            ev.append("E %d" % p)
            inside.add(p)
            if len(inside) > max_inside:
                max_inside, worst = len(inside), (i, sorted(inside))
            if len(inside) > 1 + nxp:
                unexplained.append("event %d: processes %s inside together after %d destructor posts" % (i, sorted(inside), nxp))
        elif k == "LEAVE":
            ev.append("L %d" % p)
            inside.discard(p)
        elif k == "POST":
            if p in window:
                ev.append("XP %d" % p)
                exited.add(p)
                nxp += 1
            else:
                ev.append("P %d" % p)
        elif k == "CLOSE":
            pass  # no effect on the value of the semaphore
        elif k == "EXIT_BEGIN":
            window.add(p)
            inside.discard(p)
        elif k == "EXIT_END":
            if p not in exited:
                ev.append("XQ %d" % p)
                exited.add(p)
            inside.discard(p)
        elif k == "QUICK":
            ev.append("XQ %d" % p)
            exited.add(p)
            inside.discard(p)
        elif k == "PROBE":
            ev.append("Q %d" % v)
            probes.append(v)
            if v > 1 + nxp:
                unexplained.append("event %d: semaphore value %d after %d destructor posts" % (i, v, nxp))
        else:
            ev.append("? " + l)
    return ev, nxp, {"max_inside": max_inside, "worst": worst, "probes": probes, "unexplained": unexplained}


def main(c):
    exe = c.cxx("driver", ["driver.cxx"], REPO_SOURCES, libs=WRAP)
    c.log("driver built")
    acc = c.ocaml_extract("c46", MODEL, EXTRACT, "acceptor.ml")
    c.log("acceptor extracted and built")
    c.trusted("link-time wrappers of sem_open/sem_wait/sem_post/sem_close/geteuid in props/C46/driver.cxx (log, then forward to libc); "
              "the log order argument stated at the top of driver.cxx",
              "POSIX named-semaphore semantics as written in C46Model.v (sem_open O_CREAT creates with 1 only if absent; "
              "sem_wait returns only by taking one permit; sem_post adds one; the value persists; sem_close leaves it)",
              "python translation of the raw log to model events (props/C46/check.py translate)")
    # ---- scenarios
    if c.replay:
        scen = [(c.replay["replay"].get("scenario_name", "replay"), c.replay["replay"]["scenario"])]
    else:
        scen = list(CANON)
        n = c.pick(30, 400)
        kmax = c.pick(5, 12)
        for i in range(n):
            scen.append(("rnd-%d" % i, gen_scenario(c.rng, kmax)))
    base_uid = 1000000000 + (os.getpid() % 100000) * 10000
    lock = threading.Lock()
    results = {}

    def run_one(ix):
        name, txt = scen[ix]
        uid = base_uid + ix
        try:
            rc, out, err = c.run([exe, str(uid)], input=txt, timeout=300)
        finally:
            try:
                os.unlink("/dev/shm/sem.mfront-%d" % uid)
            except OSError:
                pass
        with lock:
            results[ix] = (rc, out.split("\n") if out else [], err)

    with ThreadPoolExecutor(max_workers=4) as ex:
        list(ex.map(run_one, range(len(scen))))
    c.log("%d scenarios run on the real code" % len(scen))
    # ---- translate, decide which model the code is, run the acceptor
    trans = {}
    any_xp = False
    for ix in range(len(scen)):
        rc, raw, err = results[ix]
        raw = [l for l in raw if l.strip()]
        if rc not in (0, 5, 7) or not raw:
            c.report("driver:" + scen[ix][0], "driver failed (rc=%d) on scenario %s: %s" % (rc, scen[ix][0], err[-300:]),
                     {"scenario_name": scen[ix][0], "scenario": scen[ix][1], "stderr": err[-2000:]}, False)
            continue
        ev, nxp, facts = translate(raw)
        trans[ix] = (ev, nxp, facts, rc, raw)
        any_xp = any_xp or nxp > 0
    kind = "posts" if any_xp else "quiet"
    text = ""
    for ix, (ev, nxp, facts, rc, raw) in trans.items():
        text += "T %d %s\n%s\nEND\n" % (ix, kind, "\n".join(ev))
    rc, out, err = c.run([acc], input=text, timeout=600)
    verdicts = {}
    for l in out.splitlines():
        t = l.split(" ", 2)
        if len(t) >= 2 and t[0] in ("ACCEPT", "REJECT"):
            verdicts[int(t[1])] = (t[0], t[2] if len(t) > 2 else "")
    accepted = 0
    drift_seen = two_seen = 0
    hung = 0
    for ix, (ev, nxp, facts, drc, raw) in trans.items():
        name, txt = scen[ix]
        nproc = sum(1 for e in ev if e == "S")
        conc = any(len([l for l in ph.split("\n") if l.startswith("child") and not l.startswith("child 0")]) >= 2
                   for ph in txt.split("phase\n"))
        c.count(1, txt, conc or txt.count("phase") >= 2)
        if ix % 9 == 1:
            c.sample({"scenario": name, "text": txt, "events": len(ev), "model_events_head": ev[:24],
                      "probes": facts["probes"], "max_inside": facts["max_inside"], "verdict": verdicts.get(ix, ("?",))[0]})
        v = verdicts.get(ix)
        rep = {"scenario_name": name, "scenario": txt, "model_kind": kind, "raw_log": raw[:400], "model_events": ev[:400],
               "how": "props/C46/driver <private euid> < scenario ; log -> acceptor extracted from C46Model.v"}
        if v is None:
            c.report("acceptor:" + name, "acceptor gave no verdict on scenario %s: %s" % (name, err[-300:]), rep, False)
            continue
        if v[0] == "REJECT":
            c.report("reject:" + name, "trace of the real MFrontLock.cxx on scenario %s is not a run of the model (%s code): %s" % (
                name, kind, v[1]), rep, True)
        else:
            accepted += 1
        if drc == 7:
            hung += 1
            c.notes.append("scenario %s: children still blocked after 20 s were killed by the watchdog (no verdict drawn from that)" % name)
        # independent statement of the property on the raw log
        for u in facts["unexplained"]:
            c.report("outcome:" + name, "scenario %s: %s (not explained by destructor posts)" % (name, u), rep, True)
            break
        if facts["max_inside"] > 1 and not facts["unexplained"]:
            two_seen += 1
            if name == "canon-1run-then-2":
                c.report("F13:two-holders", "after one complete run that took the lock, two processes are inside lock-protected sections "
                         "together (log event %s, processes %s): ~MFrontLock posts the semaphore once more than it waited" % facts["worst"], rep, True)
        if any(p > 1 for p in facts["probes"]) and not facts["unexplained"]:
            drift_seen += 1
            if name == "canon-1run":
                c.report("F13:value-drift", "after one complete run that took the lock once, sem_getvalue(/mfront-<euid>) = %s > 1 = value at creation: "
                         "~MFrontLock::~MFrontLock calls sem_post" % facts["probes"], rep, True)
            if name == "canon-8runs":
                c.notes.append("semaphore values after 1..8 sequential runs: %s" % facts["probes"])
    c.coverage["traces_validated_against_impl"] = accepted
    c.coverage["rule"] = ("8 fixed histories + seeded random histories: 1-4 phases of 1..%d concurrent processes, each 0-3 lock/unlock rounds "
                          "with holds 0-2 ms, ending by exit() / _exit() / exit() or _exit() inside the section; non-trivial = at least two "
                          "lock-taking processes run concurrently or the history has at least two phases; distinct = distinct scenario text" % c.pick(5, 12))
    c.notes.append("code classified as model kind '%s' (%s); scenarios with value drift: %d, with two processes inside: %d" % (
        kind, "a destructor post was logged" if any_xp else "no destructor post in any trace", drift_seen, two_seen))
    c.notes.append("no source hook needed: observation by link-time wrapping of the libc calls made by MFrontLock.cxx; private semaphore name through wrapped geteuid")
    c.log("traces judged: %d accepted as %s-destructor code" % (accepted, kind))
    # ---- Coq
    files = MODEL + ["C46Proofs.v", "Properties_C46.v"] + (["Properties_C46_pinned.v"] if any_xp else [])
    res = c.coq(files, timeout=600)
    if not res.ok:
        c.coq_failures(res)


guarded_main("C46", main)

// C46 -- runs the REAL mfront/src/MFrontLock.cxx (compiled from /repo's working tree into this driver) in forked
// processes and records every semaphore system call it makes, in a shared-memory event log.
//
// No source hook is needed: the calls of MFrontLock.cxx to sem_open / sem_wait / sem_post / sem_close / geteuid are
// redirected at link time (-Wl,--wrap=...) to the __wrap_* functions below, which log and forward to the real libc
// functions.  geteuid is wrapped so that the name built by the real code, "/mfront-<euid>", designates a private
// semaphore: the system-wide /dev/shm/sem.mfront-<uid> of the user is never touched.
//
// Log order versus real order (why a verdict drawn from the log is never a false alarm):
//   WAIT  is logged after  the real sem_wait returned,  ENTER after WAIT, LEAVE before POST,
//   POST  is logged before the real sem_post is issued.
// Hence the interval [ENTER, LEAVE] of the log lies inside the interval in which the process really holds the lock,
// and  1 + #POST logged - #WAIT logged >= real value >= 0  at any time: a log that shows two processes inside, or a
// WAIT at logged value 0, is a real breach.
//
// usage: driver <fake-euid> [watchdog seconds, default 20]   (scenario on stdin)
//   phase                         start a group of children released together, reaped before the next phase
//   child R H G END               R rounds of {guard; hold H us; } gap G us;  END in
//                                 exit     exit(0) when idle: static destructors run (with R = 0: no lock object)
//                                 quick    _exit when idle: nothing runs
//                                 exitcs   exit(0) inside the last section, the real MFrontLockGuard alive
//                                 exitheld exit(0) with the guard alive, before the section marker
//                                 throwcs  exception thrown inside the last section and never caught: the terminate
//                                          handler below (copy of mfront/src/main.cxx) calls ::exit(EXIT_FAILURE);
//                                          the stack is not unwound, the guard is never destroyed
//                                 crashcs  _exit inside the last section (a kill: no code of the process runs)
// after each phase the parent logs PROBE <value read by sem_getvalue | -1 if the semaphore does not exist>;
// the last PROBE is the value the scenario leaves behind.  Children still blocked when the watchdog expires are killed (HUNG).
#include <atomic>
#include <cstdarg>
#include <cstdio>
#include <cstdlib>
#include <cstring>
#include <exception>
#include <stdexcept>
#include <string>
#include <vector>
#include <iostream>
#include <sstream>
#include <fcntl.h>
#include <semaphore.h>
#include <sys/mman.h>
#include <sys/stat.h>
#include <sys/wait.h>
#include <signal.h>
#include <time.h>
#include <unistd.h>
#include "MFront/MFrontLock.hxx"

extern "C" {
sem_t* __real_sem_open(const char*, int, ...);
int __real_sem_wait(sem_t*);
int __real_sem_post(sem_t*);
int __real_sem_close(sem_t*);
}

enum Kind { SPAWN, OPEN, WAIT, ENTER, LEAVE, POST, CLOSE, EXIT_BEGIN, EXIT_END, QUICK, PROBE, WAITFAIL, HUNG };
static const char* const kind_names[] = {"SPAWN", "OPEN", "WAIT", "ENTER", "LEAVE", "POST",
                                         "CLOSE", "EXIT_BEGIN", "EXIT_END", "QUICK", "PROBE", "WAITFAIL", "HUNG"};
struct Event {
  int proc, kind, value;
};
struct Shared {
  std::atomic<int> n;
  std::atomic<int> go;
  std::atomic<int> inside;  // only used to let sections overlap in time when the lock lets them (never a verdict)
  Event ev[1 << 16];
};
static Shared* sh = nullptr;
static int me = -1;  // index of this process (-1: parent)
static unsigned fake_euid = 0;

static void logev(int kind, int value = 0) {
  const int i = sh->n.fetch_add(1);
  if (i < (1 << 16)) {
    sh->ev[i] = Event{me, kind, value};
  }
}

extern "C" {
uid_t __wrap_geteuid() { return static_cast<uid_t>(fake_euid); }
sem_t* __wrap_sem_open(const char* name, int oflag, ...) {
  sem_t* r;
  if (oflag & O_CREAT) {
    va_list ap;
    va_start(ap, oflag);
    const mode_t mode = static_cast<mode_t>(va_arg(ap, unsigned int));
    const unsigned int value = va_arg(ap, unsigned int);
    va_end(ap);
    r = __real_sem_open(name, oflag, mode, value);
    if (r != SEM_FAILED) logev(OPEN, static_cast<int>(value));
  } else {
    r = __real_sem_open(name, oflag);
    if (r != SEM_FAILED) logev(OPEN, -1);
  }
  return r;
}
int __wrap_sem_wait(sem_t* s) {
  const int r = __real_sem_wait(s);
  logev(r == 0 ? WAIT : WAITFAIL);
  return r;
}
int __wrap_sem_post(sem_t* s) {
  logev(POST);
  return __real_sem_post(s);
}
int __wrap_sem_close(sem_t* s) {
  logev(CLOSE);
  return __real_sem_close(s);
}
}

static void mark_exit_begin() { logev(EXIT_BEGIN); }
static void mark_exit_end() { logev(EXIT_END); }

static void sleep_us(long us) {
  if (us <= 0) return;
  timespec t{us / 1000000, (us % 1000000) * 1000};
  nanosleep(&t, nullptr);
}

struct ChildSpec {
  int rounds;
  long hold, gap;
  std::string end;
};

// what mfront does with an exception nobody catches (mfront/src/main.cxx, mfront_terminate_handler)
[[noreturn]] static void terminate_handler_like_mfront() {
  if (auto pe = std::current_exception()) {
    try {
      std::rethrow_exception(pe);
    } catch (const std::exception& e) {
      std::cerr << e.what() << std::endl;
    } catch (...) {
      std::cerr << "unknown exception thrown" << std::endl;
    }
  }
  ::exit(EXIT_FAILURE);
}

[[noreturn]] static void child_main(const ChildSpec& c) {
  std::atexit(mark_exit_end);  // registered first: runs after every static destructor
  std::set_terminate(terminate_handler_like_mfront);
  bool registered = false;
  while (sh->go.load() == 0) {
    sleep_us(200);
  }
  for (int r = 0; r != c.rounds; ++r) {
    {
      mfront::MFrontLockGuard guard;  // the real code: MFrontLock::getMFrontLock().lock()
      if (!registered) {
        // the lock object now exists: a handler registered here runs BEFORE its static destructor
        std::atexit(mark_exit_begin);
        registered = true;
      }
      if (r + 1 == c.rounds && c.end == "exitheld") {
        std::exit(0);
      }
      logev(ENTER);
      sh->inside.fetch_add(1);
      // stay inside for `hold` microseconds; leave early once a second process is seen inside
      for (long waited = 0; waited < c.hold && sh->inside.load() < 2; waited += 100) {
        sleep_us(100);
      }
      const bool last = (r + 1 == c.rounds);
      if (last && c.end == "exitcs") {
        sh->inside.fetch_sub(1);
        std::exit(0);
      }
      if (last && c.end == "throwcs") {
        sh->inside.fetch_sub(1);
        throw std::runtime_error("C46 driver: exception thrown inside a protected section, never caught");
      }
      if (last && c.end == "crashcs") {
        sh->inside.fetch_sub(1);
        logev(QUICK);
        _exit(0);
      }
      sh->inside.fetch_sub(1);
      logev(LEAVE);
    }  // ~MFrontLockGuard: the real unlock
    sleep_us(c.gap);
  }
  if (c.end == "quick") {
    logev(QUICK);
    _exit(0);
  }
  std::exit(0);
}

static void probe(const std::string& name) {
  sem_t* s = __real_sem_open(name.c_str(), 0);
  if (s == SEM_FAILED) {
    logev(PROBE, -1);
    return;
  }
  int v = -2;
  sem_getvalue(s, &v);
  __real_sem_close(s);
  logev(PROBE, v);
}

int main(int argc, char** argv) {
  if (argc < 2) {
    std::cerr << "usage: driver <fake-euid> < scenario\n";
    return 2;
  }
  fake_euid = static_cast<unsigned>(std::strtoul(argv[1], nullptr, 10));
  const long watchdog_us = (argc > 2 ? std::strtol(argv[2], nullptr, 10) : 20) * 1000000L;
  const std::string name = "/mfront-" + std::to_string(fake_euid);
  sem_unlink(name.c_str());  // private name: start from "the semaphore does not exist"
  sh = static_cast<Shared*>(mmap(nullptr, sizeof(Shared), PROT_READ | PROT_WRITE, MAP_SHARED | MAP_ANONYMOUS, -1, 0));
  if (sh == MAP_FAILED) return 3;
  new (&sh->n) std::atomic<int>(0);
  new (&sh->go) std::atomic<int>(0);
  new (&sh->inside) std::atomic<int>(0);
  std::vector<std::vector<ChildSpec>> phases;
  std::string line;
  while (std::getline(std::cin, line)) {
    std::istringstream is(line);
    std::string w;
    if (!(is >> w)) continue;
    if (w == "phase") {
      phases.emplace_back();
    } else if (w == "child") {
      ChildSpec c;
      is >> c.rounds >> c.hold >> c.gap >> c.end;
      if (phases.empty()) phases.emplace_back();
      phases.back().push_back(c);
    }
  }
  int next = 0;
  int rc = 0;
  for (const auto& ph : phases) {
    sh->go.store(0);
    sh->inside.store(0);
    std::vector<pid_t> pids;
    const int first = next;
    for (const auto& c : ph) {
      const int idx = next++;
      me = idx;
      logev(SPAWN);
      me = -1;
      const pid_t p = fork();
      if (p == 0) {
        me = idx;
        child_main(c);
      }
      if (p < 0) {
        rc = 4;
        break;
      }
      pids.push_back(p);
    }
    sh->go.store(1);
    // reap; a watchdog (never a verdict by itself) kills children that are still blocked when it expires so that the
    // log of a deadlocked mutant can still be printed and judged by the acceptor
    std::vector<bool> done(pids.size(), false);
    size_t left = pids.size();
    for (long waited = 0; left != 0; waited += 1000) {
      for (size_t i = 0; i != pids.size(); ++i) {
        if (done[i]) continue;
        int st = 0;
        const pid_t r = waitpid(pids[i], &st, WNOHANG);
        if (r == pids[i]) {
          done[i] = true;
          --left;
          const bool fine = WIFEXITED(st) && (WEXITSTATUS(st) == 0 || (ph[i].end == "throwcs" && WEXITSTATUS(st) == EXIT_FAILURE));
          if (!fine && rc == 0) rc = 5;
        }
      }
      if (left == 0) break;
      if (waited > watchdog_us) {
        for (size_t i = 0; i != pids.size(); ++i) {
          if (!done[i]) {
            kill(pids[i], SIGKILL);
            waitpid(pids[i], nullptr, 0);
            me = first + static_cast<int>(i);
            logev(HUNG);
            me = -1;
          }
        }
        rc = 7;
        break;
      }
      sleep_us(1000);
    }
    probe(name);
    if (rc == 7) break;
  }
  sem_unlink(name.c_str());
  const int n = sh->n.load();
  for (int i = 0; i < n && i < (1 << 16); ++i) {
    std::printf("%s %d %d\n", kind_names[sh->ev[i].kind], sh->ev[i].proc, sh->ev[i].value);
  }
  if (n >= (1 << 16)) rc = 6;
  return rc;
}

(* C46 -- line-protocol driver around the acceptor extracted from C46Model.v (step_fn / init / holders / inside).
   stdin:  T <name> <posts|quiet|release>   start of a trace, with the kind of code the trace is checked against
           S | O p | W p | E p | L p | P p       events
           X p <0|1>                             process p ended through exit(); 1: its static destructor posted
           K p                                   process p ended without running any code (_exit)
           Q v                          quiescent probe: sem_getvalue read v on the real semaphore (-1: absent)
           END
   stdout: ACCEPT <name> events=<n> maxholders=<h> maxinside=<i> final=<value|-1> lost=<l> holders=<h>
           REJECT <name> at=<index> line=<text> why=<step|probe model=<m> real=<v>> *)
open C46_model

let rec nat_of_int n = if n <= 0 then O else S (nat_of_int (n - 1))
let rec int_of_nat = function O -> 0 | S m -> 1 + int_of_nat m

let event_of_line l =
  match String.split_on_char ' ' (String.trim l) with
  | ["S"] -> Some Spawn
  | ["O"; p] -> Some (Open (nat_of_int (int_of_string p)))
  | ["W"; p] -> Some (Wait (nat_of_int (int_of_string p)))
  | ["E"; p] -> Some (Enter (nat_of_int (int_of_string p)))
  | ["L"; p] -> Some (Leave (nat_of_int (int_of_string p)))
  | ["P"; p] -> Some (Post (nat_of_int (int_of_string p)))
  | ["X"; p; "1"] -> Some (Exit (nat_of_int (int_of_string p), true))
  | ["X"; p; "0"] -> Some (Exit (nat_of_int (int_of_string p), false))
  | ["K"; p] -> Some (Kill (nat_of_int (int_of_string p)))
  | _ -> None

let value_of s = match s.sem with None -> -1 | Some x -> int_of_nat x

let () =
  let name = ref "" and kind = ref DtorRelease and st = ref (Some init) and idx = ref 0 in
  let maxh = ref 0 and maxi = ref 0 and verdict = ref "" in
  let finish () =
    if !name <> "" then begin
      match !verdict, !st with
      | "", Some s ->
          Printf.printf "ACCEPT %s events=%d maxholders=%d maxinside=%d final=%d lost=%d holders=%d\n" !name !idx !maxh !maxi
            (value_of s) (int_of_nat s.lost) (int_of_nat (holders s.procs))
      | v, _ -> Printf.printf "REJECT %s %s\n" !name v
    end in
  (try
    while true do
      let l = input_line stdin in
      let ws = String.split_on_char ' ' (String.trim l) in
      match ws with
      | "T" :: n :: k :: _ ->
          name := n;
          kind := (match k with "posts" -> DtorPosts | "quiet" -> DtorQuiet | _ -> DtorRelease);
          st := Some init; idx := 0; maxh := 0; maxi := 0; verdict := ""
      | ["END"] -> finish (); name := ""
      | ["Q"; v] ->
          (match !st with
           | Some s when !verdict = "" ->
               let m = value_of s in
               if m <> int_of_string v then
                 verdict := Printf.sprintf "at=%d line=%s why=probe model=%d real=%s" !idx (String.trim l) m v
           | _ -> ());
          incr idx
      | _ ->
          (match !st, event_of_line l with
           | Some s, Some e when !verdict = "" ->
               (match step_fn !kind s e with
                | Some s1 ->
                    st := Some s1;
                    maxh := max !maxh (int_of_nat (holders s1.procs));
                    maxi := max !maxi (int_of_nat (inside s1.procs))
                | None ->
                    verdict := Printf.sprintf "at=%d line=%s why=step" !idx (String.trim l); st := None)
           | _, None when !verdict = "" ->
               verdict := Printf.sprintf "at=%d line=%s why=unparsable" !idx (String.trim l)
           | _ -> ());
          incr idx
    done
  with End_of_file -> ());
  finish ()

(* C31 -- pinned code: the operator ->* are lexical elements of C++ that the tokenizer does not give back (computed witness);
   selected by check.py when the real code shows the pinned behaviour on the probe *)
From Coq Require Import Ascii List Bool.
From C31 Require Import C31Model C31Lang C31Variants.
Import ListNotations.

Theorem arrow_round_trip_refuted :
  forallb (line_ok (mkOpts false false false true)) w_arrow = true /\
  differs (lex (pinned false) (render_lines w_arrow)) (toks_lines 1 true w_arrow) = true /\
  (exists a b c d, lex (pinned false) (render_lines w_arrow) = Ok [a; b; c; d]).
Proof. exact arrow_witness. Qed.
Print Assumptions arrow_round_trip_refuted.

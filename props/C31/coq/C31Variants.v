(* C31 -- the three defects of the pinned parseNumber / parseStandardLine as statements about the round trip: with the
   element classes of the repaired code (hexadecimal / binary literals, exponent literals with a floating suffix, "->*")
   the pinned lexer does not give the elements back. *)
From Coq Require Import Ascii List Bool Arith NArith.
From C31 Require Import C31Model C31Lang.
Import ListNotations.
Local Open Scope char_scope.

Definition w_hex : list line := [ ([ ([], TNum None (NHex "x" ["f"; "f"] [] [])); ([], TOp [";"]) ], EBlank []) ].
Definition w_exp : list line :=
  [ ([ ([], TNum None (NDec (mkDec ["1"] None (Some ("e", Some "+", ["5"])) ["f"] []))) ], EBlank []) ].
Definition w_arrow : list line := [ ([ ([], TWord ["a"]); ([], TOp ["-"; ">"; "*"]); ([], TWord ["b"]) ], EBlank []) ].
Definition differs (r : result (list token)) (ts : list token) : bool :=
  match r with Ok l => negb (if list_eq_dec (fun a b : token => ltac:(decide equality; try apply Nat.eq_dec; try apply (list_eq_dec ascii_dec); decide equality)) l ts then true else false) | _ => true end.
Lemma hex_witness :
  forallb (line_ok (mkOpts false true false false)) w_hex = true /\
  lex (pinned false) (render_lines w_hex) = Err.
Proof. split; vm_compute; reflexivity. Qed.
Lemma exp_witness :
  forallb (line_ok (mkOpts false false true false)) w_exp = true /\
  differs (lex (pinned false) (render_lines w_exp)) (toks_lines 1 true w_exp) = true /\
  (exists a b, lex (pinned false) (render_lines w_exp) = Ok [a; b]).
Proof. split; [ vm_compute; reflexivity | split; [ vm_compute; reflexivity | eexists; eexists; vm_compute; reflexivity ] ]. Qed.
Lemma arrow_witness :
  forallb (line_ok (mkOpts false false false true)) w_arrow = true /\
  differs (lex (pinned false) (render_lines w_arrow)) (toks_lines 1 true w_arrow) = true /\
  (exists a b c d, lex (pinned false) (render_lines w_arrow) = Ok [a; b; c; d]).
Proof. split; [ vm_compute; reflexivity | split; [ vm_compute; reflexivity | do 4 eexists; vm_compute; reflexivity ] ]. Qed.
(* with the repairs the same elements are in the class of the round-trip theorem *)
Lemma hex_in_class : forall cas e a, forallb (line_ok (mkOpts cas true e a)) w_hex = true.
Proof. intros [|] [|] [|]; vm_compute; reflexivity. Qed.
Lemma exp_in_class : forall cas h a, forallb (line_ok (mkOpts cas h true a)) w_exp = true.
Proof. intros [|] [|] [|]; vm_compute; reflexivity. Qed.
Lemma arrow_in_class : forall cas h e, forallb (line_ok (mkOpts cas h e true)) w_arrow = true.
Proof. intros [|] [|] [|]; vm_compute; reflexivity. Qed.

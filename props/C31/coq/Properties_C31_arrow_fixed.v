(* C31 -- with props/C31/fix_*.diff: the operator ->* are in the class of the round-trip theorem and come back *)
From Coq Require Import Ascii List Bool.
From C31 Require Import C31Model C31Lang C31Round C31Classes C31Variants.
Import ListNotations.

Theorem arrow_in_round_trip_class : forall cas h e, forallb (line_ok (mkOpts cas h e true)) w_arrow = true.
Proof. exact arrow_in_class. Qed.
Print Assumptions arrow_in_round_trip_class.

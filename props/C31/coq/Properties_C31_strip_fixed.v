(* C31 -- stripComments with props/C31/fix_strip_backward.diff never steps before the token vector *)
From Coq Require Import Ascii List.
From C31 Require Import C31Model C31Proofs.

Theorem strip_comments_in_bounds : forall l, strip_comments true l <> None.
Proof. exact strip_comments_fixed_total. Qed.
Print Assumptions strip_comments_in_bounds.

(* C31 -- (2') whole multi-line inputs: the tokens returned for an accepted input can be cut along the lines; every line read
   with no comment open is covered by its own tokens (relation [covers] of C31Spec), a line that ends inside a C comment ends
   with "/*", delimiter characters and a text without "*/" starting at the offset of the last token, the following lines
   are appended to that token up to the first "*/", and the rest of the closing line is covered in the same way. *)
From Coq Require Import Ascii List Bool Arith Lia NArith.
From C31 Require Import C31Model C31Spec C31Proofs.
Import ListNotations.
Local Open Scope char_scope.

(* ------------------------------------------------------------------ an opened comment can only come from "/*" *)
Lemma find_star_slash_none : forall s, find_star_slash s = None -> forall j, ~ closes_at s j.
Proof.
  induction s as [|c s IH]; intros H j (a & b & E & L).
  - destruct a; discriminate E.
  - simpl in H. destruct ((c == "*") && hd_is (fun d => d == "/") s) eqn:T; [ discriminate H | ].
    destruct (find_star_slash s) eqn:F; [ discriminate H | ].
    destruct a as [|x a].
    + simpl in E. inversion E; subst. simpl in T. discriminate T.
    + simpl in E. inversion E; subst. apply (IH eq_refl (length a)). exists a, b. split; reflexivity.
Qed.
Lemma find_star_slash_first : forall s i, find_star_slash s = Some i -> forall j, j < i -> ~ closes_at s j.
Proof.
  induction s as [|c s IH]; intros i H j L (a & b & E & La); [ discriminate H | ].
  simpl in H. destruct ((c == "*") && hd_is (fun d => d == "/") s) eqn:T.
  - inversion H; subst. lia.
  - destruct (find_star_slash s) as [i'|] eqn:F; [ | discriminate H ]. inversion H; subst.
    destruct a as [|x a].
    + simpl in E. inversion E; subst. simpl in T. discriminate T.
    + simpl in E. inversion E; subst. simpl in L. apply (IH i' eq_refl (length a)); [ lia | ]. exists a, b. split; reflexivity.
Qed.

Definition opened_facts (tl : str) (extra len post : nat) (f : flag) : Prop :=
  exists t2, tl = "*" :: t2 /\ delims (firstn extra t2) /\ extra + len + post = length t2 /\
             is_comment_flag f = true /\ (forall j, ~ closes_at (skipn extra t2) j) /\
             blank (skipn (extra + len) t2).
Lemma scan_c_comment_opened : forall first t2 extra len post f,
    scan_c_comment first t2 = SComment extra len post f true -> opened_facts ("*" :: t2) extra len post f.
Proof.
  intros first t2 extra len post f H. pose proof (scan_c_comment_ok first t2) as OK. rewrite H in OK.
  destruct OK as (D1 & L & D2 & Hf & Hop). specialize (Hop eq_refl).
  unfold scan_c_comment in H. destruct (comment_kind first t2) as [x f0] eqn:K.
  set (body := skipn x t2) in *. set (sp := count_space body) in *. set (cs := skipn sp body) in *.
  destruct (find_star_slash cs) as [i|] eqn:F; [ discriminate H | ]. inversion H; subst extra len post f0. clear H.
  exists t2. repeat split; auto.
  - intros j. assert (E : skipn (x + sp) t2 = cs) by (unfold cs, body; rewrite skipn_skipn; f_equal; lia).
    rewrite E. apply find_star_slash_none; exact F.
  - assert (E : skipn (x + sp + rstrip_len cs) t2 = skipn (rstrip_len cs) cs)
      by (unfold cs, body; rewrite !skipn_skipn; f_equal; lia).
    rewrite E. apply rstrip_blank.
Qed.
Lemma scan_token_opened : forall cas first prevc c tl extra len post f,
    scan_token cas first prevc c tl = SComment extra len post f true -> c = "/" /\ opened_facts tl extra len post f.
Proof.
  intros cas first prevc c tl extra len post f H. unfold scan_token in H.
  repeat match type of H with
         | (if ?b then _ else _) = _ => destruct b eqn:?
         end;
    try discriminate H;
    try (unfold scan_number in H; destruct (parse_number _ _); discriminate H);
    try (unfold scan_string in H; destruct (find_close _ _ _); discriminate H);
    try (unfold join1 in H; discriminate H);
    try (unfold join2 in H; discriminate H);
    try (destruct tl as [|x1 [|x2 [|x3 t]]]; simpl in H; repeat match type of H with (if ?b then _ else _) = _ => destruct b end; discriminate H).
  - (* // *) unfold scan_cxx_comment in H. destruct (comment_kind first (List.tl tl)); discriminate H.
  - (* /* *)
    match goal with Hc : (c == "/") = true |- _ => apply eqb_true in Hc; subst c end.
    match goal with Hd : hd_is (fun d => d == "*") tl = true |- _ =>
                    apply hd_is_cons in Hd; destruct Hd as (d & t2 & -> & Hd); apply eqb_true in Hd; subst d end.
    split; [ reflexivity | ]. simpl in H. apply scan_c_comment_opened in H. exact H.
Qed.

(* ------------------------------------------------------------------ a line that ends inside a comment *)
Lemma ends_lift : forall o p r' t0, ends_in_open_comment (o + length p) r' t0 -> ends_in_open_comment o (p ++ r') t0.
Proof.
  intros o p r' t0 (a & d & v & w & E & D & O & V & W & N & F).
  exists (p ++ a), d, v, w. repeat split; auto.
  - rewrite E, <- app_assoc. reflexivity.
  - rewrite O, app_length. lia.
Qed.
Lemma firstn_len_le : forall (n : nat) (l : str), n <= length l -> length (firstn n l) = n.
Proof. intros; apply firstn_length_le; assumption. Qed.

Lemma std_loop_open : forall fuel cas ln first prevc o rest ts,
    std_loop fuel cas ln first prevc o rest = Ok (ts, true) ->
    exists ts' t0, ts = ts' ++ [t0] /\ ends_in_open_comment o rest t0.
Proof.
  induction fuel as [|fuel IH]; intros cas ln first prevc o rest ts H; [ discriminate | ].
  simpl in H.
  destruct (skipn (count_space rest) rest) as [|c tl] eqn:E; [ discriminate H | ].
  pose proof (count_space_le rest) as Lw.
  assert (R : rest = firstn (count_space rest) rest ++ c :: tl) by (rewrite <- E; symmetry; apply firstn_skipn).
  pose proof (scan_token_ok cas first (last_char (firstn (count_space rest) rest) prevc) c tl) as OK.
  destruct (scan_token cas first (last_char (firstn (count_space rest) rest) prevc) c tl)
    as [k f|extra len post f opened| | ] eqn:Sc; try discriminate; simpl in OK.
  - destruct OK as [Hk Hf].
    match type of H with context [std_loop fuel ?a ?b ?c0 ?d ?e ?g] =>
                         destruct (std_loop fuel a b c0 d e g) as [[ts' op']| | | ] eqn:Rr end; try discriminate.
    inversion H; subst; clear H. apply IH in Rr. destruct Rr as (ts0 & t0 & -> & En).
    exists (mkTok (match f with Number => filter_quote (c :: firstn k tl) | _ => c :: firstn k tl end) ln (o + count_space rest) [] f :: ts0), t0.
    split; [ reflexivity | ].
    rewrite R. replace (c :: tl) with ((c :: firstn k tl) ++ skipn k tl) by (simpl; rewrite firstn_skipn; reflexivity).
    rewrite app_assoc. apply ends_lift. rewrite app_length, firstn_len_le by exact Lw. simpl length. rewrite firstn_len_le by exact Hk.
    replace (o + (count_space rest + S k)) with (o + count_space rest + S k) by lia. exact En.
  - destruct opened.
    + inversion H; subst; clear H. destruct (scan_token_opened _ _ _ _ _ _ _ _ _ Sc) as (-> & t2 & -> & D1 & L & Hf & Nc & Bw).
      eexists [], _. split; [ reflexivity | ].
      exists (firstn (count_space rest) rest), (firstn extra t2), (firstn len (skipn extra t2)), (skipn (extra + len) t2).
      assert (Le : extra <= length t2) by lia.
      assert (S3 : t2 = firstn extra t2 ++ firstn len (skipn extra t2) ++ skipn (extra + len) t2).
      { rewrite <- (firstn_skipn extra t2) at 1. f_equal.
        rewrite <- (firstn_skipn len (skipn extra t2)) at 1. f_equal. rewrite skipn_skipn. f_equal. lia. }
      split; [ rewrite R at 1; do 3 f_equal; exact S3 | ].
      split; [ exact D1 | ].
      split; [ cbn [toffset]; rewrite !firstn_len_le by assumption; lia | ].
      split; [ reflexivity | ].
      split; [ exact Bw | ].
      split; [ | cbn [tflag]; apply comment_flag_of_bool; exact Hf ].
      intros j. rewrite <- (firstn_skipn len (skipn extra t2)) in Nc. rewrite skipn_skipn in Nc.
      replace (len + extra) with (extra + len) in Nc by lia. apply Nc.
    + destruct OK as (t2 & Ht & -> & D1 & L & D2 & Hf & Hop).
      match type of H with context [std_loop fuel ?a ?b ?c0 ?d ?e ?g] =>
                           destruct (std_loop fuel a b c0 d e g) as [[ts' op']| | | ] eqn:Rr end; try discriminate.
      inversion H; subst; clear H. apply IH in Rr. destruct Rr as (ts0 & t0 & -> & En).
      eexists (_ :: ts0), t0. split; [ reflexivity | ].
      set (n := 2 + extra + len + post) in *.
      assert (Ln : n <= length ("/" :: tl)) by (destruct Ht; subst tl; simpl; unfold n; lia).
      rewrite R. rewrite <- (firstn_skipn n ("/" :: tl)). rewrite app_assoc. apply ends_lift.
      rewrite app_length, !firstn_len_le by assumption.
      replace (o + (count_space rest + n)) with (o + count_space rest + n) by lia. exact En.
Qed.

Lemma line_body_open : forall cas ln first prevc o rest ts,
    line_body cas ln first prevc o rest = Ok (ts, true) ->
    exists ts' t0, ts = ts' ++ [t0] /\ ends_in_open_comment o rest t0.
Proof.
  intros cas ln first prevc o rest ts H; unfold line_body in H.
  destruct (skipn (count_space rest) rest) as [|c tl] eqn:E; [ eapply std_loop_open; eassumption | ].
  destruct (c == "#") eqn:Ec; [ | eapply std_loop_open; eassumption ].
  apply eqb_true in Ec; subst c.
  destruct (skipn (count_space tl) tl) as [|d r2] eqn:E2; [ discriminate | ].
  remember (take_while (fun d0 => negb (sep_or_space d0)) (d :: r2)) as key eqn:Ek.
  destruct key as [|k0 key']; [ discriminate | ].
  destruct (existsb (str_eqb (k0 :: key')) pp_keywords); [ | discriminate ].
  match type of H with context [std_loop ?f ?a ?b ?c ?d ?e ?g] =>
                       destruct (std_loop f a b c d e g) as [[ts' op']| | | ] eqn:R end; try discriminate.
  inversion H; subst ts op'; clear H. apply std_loop_open in R. destruct R as (ts0 & t0 & -> & En).
  exists (mkTok ["#"] ln (o + count_space rest) [] Preprocessor
          :: mkTok (k0 :: key') ln (o + count_space rest + 1 + count_space tl) [] Preprocessor :: ts0), t0.
  split; [ reflexivity | ].
  pose proof (count_space_le rest) as L1. pose proof (count_space_le tl) as L2.
  assert (Hk : d :: r2 = (k0 :: key') ++ skipn (length (k0 :: key')) (d :: r2)).
  { rewrite Ek at 1. rewrite <- take_while_firstn. rewrite <- Ek. symmetry; apply firstn_skipn. }
  assert (Rr : rest = (firstn (count_space rest) rest ++ "#" :: firstn (count_space tl) tl ++ (k0 :: key'))
                        ++ skipn (length (k0 :: key')) (d :: r2)).
  { rewrite <- (firstn_skipn (count_space rest) rest) at 1. rewrite E. rewrite <- app_assoc. f_equal. cbn [app]. f_equal.
    rewrite <- (firstn_skipn (count_space tl) tl) at 1. rewrite E2, Hk at 1. rewrite <- app_assoc. reflexivity. }
  rewrite Rr. apply ends_lift.
  rewrite app_length, firstn_len_le by assumption. cbn [length]. rewrite app_length, firstn_len_le by assumption.
  replace (o + (count_space rest + S (count_space tl + length (k0 :: key'))))
    with (o + count_space rest + 1 + count_space tl + length (k0 :: key')) by (simpl; lia).
  exact En.
Qed.

(* ------------------------------------------------------------------ one line, with the state it leaves *)
Lemma split_line_closed_full : forall cas ln acc line acc' op,
    split_line cas ln (acc, false) line = Ok (acc', op) ->
    exists ts, acc' = rev ts ++ acc /\ covers 0 line ts /\ Forall (fun t => tline t = ln) ts /\
               (op = true -> exists ts' t0, ts = ts' ++ [t0] /\ ends_in_open_comment 0 line t0).
Proof.
  intros cas ln acc line acc' op H; unfold split_line in H.
  destruct (line_body cas ln match acc with [] => true | _ => false end None 0 line) as [[ts o']| | | ] eqn:B;
    try discriminate.
  inversion H; subst; clear H. pose proof B as B'. apply line_body_covers in B'; destruct B' as [C F].
  exists ts; rewrite rev_append_rev. repeat split; auto. intros ->. eapply line_body_open; eassumption.
Qed.
Lemma split_line_opened_full : forall cas ln t0 acc line acc' op,
    split_line cas ln (t0 :: acc, true) line = Ok (acc', op) ->
    (find_star_slash line = None /\ acc' = append_value t0 line :: acc /\ op = true) \/
    (exists i ts, find_star_slash line = Some i /\
                  acc' = rev ts ++ append_value t0 (firstn i line) :: acc /\
                  covers (i + 2) (skipn (i + 2) line) ts /\ Forall (fun t => tline t = ln) ts /\
                  (op = true -> exists ts' t1, ts = ts' ++ [t1] /\ ends_in_open_comment (i + 2) (skipn (i + 2) line) t1)).
Proof.
  intros cas ln t0 acc line acc' op H; unfold split_line in H.
  destruct (negb (is_comment_flag (tflag t0))); [ discriminate | ].
  destruct (find_star_slash line) as [i|] eqn:F.
  - right.
    destruct (line_body cas ln false (Some "/") (i + 2) (skipn (i + 2) line)) as [[ts o']| | | ] eqn:B;
      try discriminate.
    inversion H; subst; clear H. pose proof B as B'. apply line_body_covers in B'; destruct B' as [C Fo].
    exists i, ts; rewrite rev_append_rev. repeat split; auto. intros ->. eapply line_body_open; eassumption.
  - left; inversion H; auto.
Qed.
Lemma extend_append : forall t s, extend t s = append_value t s.
Proof. reflexivity. Qed.
Lemma split_flag_needed : forall cas ln t0 acc line r,
    split_line cas ln (t0 :: acc, true) line = Ok r -> is_comment_flag (tflag t0) = true.
Proof.
  intros cas ln t0 acc line r H. unfold split_line in H. destruct (is_comment_flag (tflag t0)); [ reflexivity | discriminate H ].
Qed.

(* ------------------------------------------------------------------ all the lines *)
Lemma lex_lines_cov : forall cas lines,
    (forall ln acc toks, lex_lines cas ln (acc, false) lines = Ok toks ->
                         exists rest, toks = rev acc ++ rest /\ in_cov ln lines rest) /\
    (forall ln t0 acc toks, lex_lines cas ln (t0 :: acc, true) lines = Ok toks ->
                            exists tfin rest, toks = rev acc ++ tfin :: rest /\ open_cov ln t0 lines tfin rest).
Proof.
  intros cas. induction lines as [|l ls [IHc IHo]]; split.
  - intros ln acc toks H. simpl in H. inversion H; subst. exists []. rewrite app_nil_r. split; [ reflexivity | constructor ].
  - intros ln t0 acc toks H. simpl in H. inversion H; subst. exists t0, []. split; [ reflexivity | constructor ].
  - intros ln acc toks H. cbn [lex_lines] in H.
    destruct (split_line cas ln (acc, false) l) as [[acc' op]| | | ] eqn:S; try discriminate H.
    apply split_line_closed_full in S. destruct S as (ts & -> & C & F & Op).
    destruct op.
    + destruct (Op eq_refl) as (ts' & t0 & -> & En). rewrite rev_app_distr in H. cbn [rev app] in H.
      apply IHo in H. destruct H as (tfin & rest & -> & OC).
      exists (ts' ++ tfin :: rest). split; [ rewrite rev_app_distr, rev_involutive, <- app_assoc; reflexivity | ].
      eapply ic_opens; eassumption.
    + apply IHc in H. destruct H as (rest & -> & IC).
      exists (ts ++ rest). split; [ rewrite rev_app_distr, rev_involutive, <- app_assoc; reflexivity | ].
      apply ic_closed; assumption.
  - intros ln t0 acc toks H. cbn [lex_lines] in H.
    destruct (split_line cas ln (t0 :: acc, true) l) as [[acc' op]| | | ] eqn:S; try discriminate H.
    apply split_line_opened_full in S. destruct S as [(Fn & -> & ->)|(i & ts & Fs & -> & C & F & Op)].
    + apply IHo in H. destruct H as (tfin & rest & -> & OC).
      exists tfin, rest. split; [ reflexivity | ]. apply oc_mid; [ apply find_star_slash_none; exact Fn | ].
      rewrite extend_append. exact OC.
    + pose proof (find_star_slash_closes _ _ Fs) as Cl. pose proof (find_star_slash_first _ _ Fs) as Fi.
      destruct op.
      * destruct (Op eq_refl) as (ts' & t1 & -> & En). rewrite rev_app_distr in H. cbn [rev app] in H.
        apply IHo in H. destruct H as (tfin & rest & -> & OC).
        exists (extend t0 (firstn i l)), (ts' ++ tfin :: rest).
        split; [ rewrite rev_app_distr; cbn [rev]; rewrite rev_involutive, <- !app_assoc; reflexivity | ].
        eapply oc_close_opens; eassumption.
      * apply IHc in H. destruct H as (rest & -> & IC).
        exists (extend t0 (firstn i l)), (ts ++ rest).
        split; [ rewrite rev_app_distr; cbn [rev]; rewrite rev_involutive, <- !app_assoc; reflexivity | ].
        apply oc_close; assumption.
Qed.
Lemma split_nl_lines_of : forall s acc, split_nl acc s = lines_of acc s.
Proof. induction s as [|c s IH]; intros acc; simpl; [ reflexivity | ]. destruct (c == "010"); [ f_equal; apply IH | apply IH ]. Qed.
(* the tokens of an accepted input describe it, line after line *)
Theorem lex_input_reproduced : forall cas s ts, lex cas s = Ok ts -> in_cov 1 (lines_of [] s) ts.
Proof.
  intros cas s ts H. unfold lex in H. rewrite split_nl_lines_of in H.
  destruct (lex_lines_cov cas (lines_of [] s)) as [Hc _]. apply Hc in H. destruct H as (rest & -> & IC). exact IC.
Qed.

(* C31 -- with props/C31/fix_*.diff: hexadecimal / binary literals are in the class of the round-trip theorem and come back *)
From Coq Require Import Ascii List Bool.
From C31 Require Import C31Model C31Lang C31Round C31Classes C31Variants.
Import ListNotations.

Theorem hex_in_round_trip_class : forall cas e a, forallb (line_ok (mkOpts cas true e a)) w_hex = true.
Proof. exact hex_in_class. Qed.
Print Assumptions hex_in_round_trip_class.

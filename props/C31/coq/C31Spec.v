(* C31 -- specification, written from the statement of the property, not from the code: what it means for a list of
   token records to describe ("reproduce the lexical structure of") a line of text.  Only the types [token], [flag],
   [str] are taken from the model. *)
From Coq Require Import Ascii List Bool Arith.
From C31 Require Import C31Model.
Import ListNotations.
Local Open Scope char_scope.

(* white space of the "C" locale: space, \t, \n, \v, \f, \r *)
Definition ws_chars : str := [" "; "009"; "010"; "011"; "012"; "013"].
Definition blank (l : str) : Prop := Forall (fun c => In c ws_chars) l.

Definition comment_flag (f : flag) : Prop := f = Comment \/ f = DoxygenComment \/ f = DoxygenBackwardComment.

(* characters of the comment delimiters // /* /*! /*!< */ and white space *)
Definition delim_chars : str := ["/"; "*"; "!"; "<"] ++ ws_chars.
Definition delims (l : str) : Prop := Forall (fun c => In c delim_chars) l.

(* the value recorded for the source text [raw]: a number is stored without its C++14 digit separators *)
Definition value_of_raw (f : flag) (raw : str) : str :=
  match f with Number => filter (fun c => negb (Ascii.eqb c "'")) raw | _ => raw end.

(* [covers o l ts]: the text [l], which starts at offset [o] of its line, is exactly: for each token of [ts] in order,
   white space, (for a comment token only: delimiter characters), the source text of the token at the recorded offset,
   (for a comment token only: white space and the closing delimiter); and finally white space.  Hence no character of
   the text is lost or invented, tokens do not overlap and are in order, and between two non-comment tokens there is
   white space only. *)
Inductive covers : nat -> str -> list token -> Prop :=
| cov_end : forall o l, blank l -> covers o l []
| cov_tok : forall o ws pre raw post rest t ts,
    blank ws -> delims pre -> delims post ->
    (~ comment_flag (tflag t) -> pre = [] /\ post = [] /\ raw <> []) ->
    toffset t = o + length ws + length pre ->
    tvalue t = value_of_raw (tflag t) raw ->
    covers (o + length ws + length pre + length raw + length post) rest ts ->
    covers o (ws ++ pre ++ raw ++ post ++ rest) (t :: ts).

(* the tokens that stripComments must keep, and equality of tokens up to the attached documentation *)
Definition keeps (t : token) : bool :=
  match tflag t with Comment | DoxygenComment | DoxygenBackwardComment => false | _ => true end.
Definition core (t : token) : str * nat * nat * flag := (tvalue t, tline t, toffset t, tflag t).

(* [i] is the position of an occurrence of "*/" in [l] *)
Definition closes_at (l : str) (i : nat) : Prop := exists a b, l = a ++ "*" :: "/" :: b /\ length a = i.

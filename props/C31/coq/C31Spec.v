(* C31 -- specification, written from the statement of the property, not from the code: what it means for a list of
   token records to describe ("reproduce the lexical structure of") a line of text.  Only the types [token], [flag],
   [str] are taken from the model. *)
From Coq Require Import Ascii List Bool Arith.
From C31 Require Import C31Model.
Import ListNotations.
Local Open Scope char_scope.

(* white space of the "C" locale: space, \t, \n, \v, \f, \r *)
Definition ws_chars : str := [" "; "009"; "010"; "011"; "012"; "013"].
Definition blank (l : str) : Prop := Forall (fun c => In c ws_chars) l.

Definition comment_flag (f : flag) : Prop := f = Comment \/ f = DoxygenComment \/ f = DoxygenBackwardComment.

(* characters of the comment delimiters // /* /*! /*!< */ and white space *)
Definition delim_chars : str := ["/"; "*"; "!"; "<"] ++ ws_chars.
Definition delims (l : str) : Prop := Forall (fun c => In c delim_chars) l.

(* the value recorded for the source text [raw]: a number is stored without its C++14 digit separators *)
Definition value_of_raw (f : flag) (raw : str) : str :=
  match f with Number => filter (fun c => negb (Ascii.eqb c "'")) raw | _ => raw end.

(* [covers o l ts]: the text [l], which starts at offset [o] of its line, is exactly: for each token of [ts] in order,
   white space, (for a comment token only: delimiter characters), the source text of the token at the recorded offset,
   (for a comment token only: white space and the closing delimiter); and finally white space.  Hence no character of
   the text is lost or invented, tokens do not overlap and are in order, and between two non-comment tokens there is
   white space only. *)
Inductive covers : nat -> str -> list token -> Prop :=
| cov_end : forall o l, blank l -> covers o l []
| cov_tok : forall o ws pre raw post rest t ts,
    blank ws -> delims pre -> delims post ->
    (~ comment_flag (tflag t) -> pre = [] /\ post = [] /\ raw <> []) ->
    toffset t = o + length ws + length pre ->
    tvalue t = value_of_raw (tflag t) raw ->
    covers (o + length ws + length pre + length raw + length post) rest ts ->
    covers o (ws ++ pre ++ raw ++ post ++ rest) (t :: ts).

(* the tokens that stripComments must keep, and equality of tokens up to the attached documentation *)
Definition keeps (t : token) : bool :=
  match tflag t with Comment | DoxygenComment | DoxygenBackwardComment => false | _ => true end.
Definition core (t : token) : str * nat * nat * flag := (tvalue t, tline t, toffset t, tflag t).

(* [i] is the position of an occurrence of "*/" in [l] *)
Definition closes_at (l : str) (i : nat) : Prop := exists a b, l = a ++ "*" :: "/" :: b /\ length a = i.

(* ------------------------------------------------------------------ whole inputs (several lines) *)
(* a line added to a comment token that is still open *)
Definition extend (t : token) (s : str) : token :=
  mkTok (match tvalue t with [] => s | v => v ++ "010" :: s end) (tline t) (toffset t) (tcomment t) (tflag t).
(* the text [l], which begins at offset [o] of its line, ends inside a C comment whose token is [t0]: "/*", then delimiter
   characters, then from the offset of [t0] a text with no closing delimiter, which is the value of [t0] and white space *)
Definition ends_in_open_comment (o : nat) (l : str) (t0 : token) : Prop :=
  exists a d v w, l = a ++ "/" :: "*" :: d ++ v ++ w /\ delims d /\ toffset t0 = o + length a + 2 + length d /\
                  tvalue t0 = v /\ blank w /\ (forall j, ~ closes_at (v ++ w) j) /\ comment_flag (tflag t0).
(* [in_cov n ls ts]: the lines [ls], the first one being line [n] read with no comment open, are described by [ts];
   [open_cov n t0 ls tfin ts]: the same when a comment is open, [t0] being its token so far: [tfin] is its final token *)
Inductive in_cov : nat -> list str -> list token -> Prop :=
| ic_nil : forall n, in_cov n [] []
| ic_closed : forall n l ls ts rest,
    covers 0 l ts -> Forall (fun t => tline t = n) ts -> in_cov (S n) ls rest -> in_cov n (l :: ls) (ts ++ rest)
| ic_opens : forall n l ls ts t0 tfin rest,
    covers 0 l (ts ++ [t0]) -> Forall (fun t => tline t = n) (ts ++ [t0]) -> ends_in_open_comment 0 l t0 ->
    open_cov (S n) t0 ls tfin rest -> in_cov n (l :: ls) (ts ++ tfin :: rest)
with open_cov : nat -> token -> list str -> token -> list token -> Prop :=
| oc_end : forall n t0, open_cov n t0 [] t0 []
| oc_mid : forall n t0 l ls tfin rest,
    (forall j, ~ closes_at l j) -> open_cov (S n) (extend t0 l) ls tfin rest -> open_cov n t0 (l :: ls) tfin rest
| oc_close : forall n t0 l ls i ts rest,
    closes_at l i -> (forall j, j < i -> ~ closes_at l j) ->
    covers (i + 2) (skipn (i + 2) l) ts -> Forall (fun t => tline t = n) ts -> in_cov (S n) ls rest ->
    open_cov n t0 (l :: ls) (extend t0 (firstn i l)) (ts ++ rest)
| oc_close_opens : forall n t0 l ls i ts t1 tfin rest,
    closes_at l i -> (forall j, j < i -> ~ closes_at l j) ->
    covers (i + 2) (skipn (i + 2) l) (ts ++ [t1]) -> Forall (fun t => tline t = n) (ts ++ [t1]) ->
    ends_in_open_comment (i + 2) (skipn (i + 2) l) t1 ->
    open_cov (S n) t1 ls tfin rest ->
    open_cov n t0 (l :: ls) (extend t0 (firstn i l)) (ts ++ tfin :: rest).
(* the lines of a text *)
Fixpoint lines_of (cur_rev : str) (s : str) : list str :=
  match s with
  | [] => [rev cur_rev]
  | c :: tl => if Ascii.eqb c "010" then rev cur_rev :: lines_of [] tl else lines_of (c :: cur_rev) tl
  end.

(* C31 -- property statements (model of CxxTokenizer, see C31Model.v; specification C31Spec.v) *)
From Coq Require Import Ascii List Bool Arith.
From C31 Require Import C31Model C31Spec C31Proofs C31Whole C31Lang C31Round C31Classes.
Import ListNotations.
Local Open Scope char_scope.

(* (1) termination: the fuel used by lex (length of the line + 1) always suffices, more fuel changes nothing *)
Theorem lex_terminates : forall cas s, lex cas s <> OutOfFuel.
Proof. exact lex_total. Qed.
Print Assumptions lex_terminates.

Theorem loop_result_independent_of_extra_fuel : forall f1 f2 cas ln first prevc o rest,
    length rest < f1 -> length rest < f2 ->
    std_loop f1 cas ln first prevc o rest = std_loop f2 cas ln first prevc o rest.
Proof. exact std_loop_fuel. Qed.
Print Assumptions loop_result_independent_of_extra_fuel.

(* (2) the tokens of an accepted line reproduce the line: values in order at their offsets, white space (and comment
   delimiters around comment tokens) in between *)
Theorem line_reproduced : forall cas ln acc line acc' op,
    split_line cas ln (acc, false) line = Ok (acc', op) ->
    exists ts, acc' = rev ts ++ acc /\ covers 0 line ts /\ Forall (fun t => tline t = ln) ts.
Proof. exact split_line_closed. Qed.
Print Assumptions line_reproduced.

Theorem line_in_open_comment_reproduced : forall cas ln t0 acc line acc' op,
    split_line cas ln (t0 :: acc, true) line = Ok (acc', op) ->
    (find_star_slash line = None /\ acc' = append_value t0 line :: acc /\ op = true) \/
    (exists i ts, find_star_slash line = Some i /\ closes_at line i /\
                  acc' = rev ts ++ append_value t0 (firstn i line) :: acc /\
                  covers (i + 2) (skipn (i + 2) line) ts /\ Forall (fun t => tline t = ln) ts).
Proof. exact split_line_opened. Qed.
Print Assumptions line_in_open_comment_reproduced.

Theorem single_line_input_reproduced : forall cas s ts,
    ~ In "010" s -> lex cas s = Ok ts -> covers 0 s ts /\ Forall (fun t => tline t = 1) ts.
Proof. exact lex_single_line. Qed.
Print Assumptions single_line_input_reproduced.

(* (3) stripComments keeps exactly the non-comment tokens (value, line, offset, flag unchanged, order kept) *)
Theorem strip_comments_removes_exactly_comments : forall fx l out,
    strip_comments fx l = Some out -> map core out = map core (filter keeps l).
Proof. exact strip_comments_spec. Qed.
Print Assumptions strip_comments_removes_exactly_comments.

(* (2') whole inputs of several lines, multi-line comments included: the tokens describe the input line after line
   (relations in_cov / open_cov of C31Spec.v) *)
Theorem input_reproduced : forall cas s ts, lex cas s = Ok ts -> in_cov 1 (lines_of [] s) ts.
Proof. exact lex_input_reproduced. Qed.
Print Assumptions input_reproduced.

(* (4) round trip: lines made of the lexical elements of C31Lang.v -- identifiers, the whole operator / separator table
   with its multi-character operators, integer / floating-point (/ hexadecimal / binary, with the repair) literals with
   digit separators, exponents, suffixes and user-defined suffixes, optionally signed, string and character literals
   with escapes, C and C++ comments --, with any white space that keeps adjacent elements separable (boolean predicate
   line_ok: side condition of each element, [follow_of] of an element on the first character after it), on any number
   of lines, are tokenized back into exactly these elements with flags, line numbers and offsets *)
Theorem round_trip : forall o ls,
    Forall (fun l => line_ok o l = true) ls -> lex o (render_lines ls) = Ok (toks_lines 1 true ls).
Proof. exact round_trip_lines. Qed.
Print Assumptions round_trip.
(* every element that satisfies its side condition is scanned as one token in every admissible context *)
Theorem round_trip_elements : forall o t, tok_ok o t = true -> spec_scans o t.
Proof. exact all_specs_scan. Qed.
Print Assumptions round_trip_elements.

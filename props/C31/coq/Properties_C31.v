(* C31 -- property statements (model of CxxTokenizer, see C31Model.v; specification C31Spec.v) *)
From Coq Require Import Ascii List Bool Arith.
From C31 Require Import C31Model C31Spec C31Proofs C31Round.
Import ListNotations.
Local Open Scope char_scope.

(* (1) termination: the fuel used by lex (length of the line + 1) always suffices, more fuel changes nothing *)
Theorem lex_terminates : forall cas s, lex cas s <> OutOfFuel.
Proof. exact lex_total. Qed.
Print Assumptions lex_terminates.

Theorem loop_result_independent_of_extra_fuel : forall f1 f2 cas ln first prevc o rest,
    length rest < f1 -> length rest < f2 ->
    std_loop f1 cas ln first prevc o rest = std_loop f2 cas ln first prevc o rest.
Proof. exact std_loop_fuel. Qed.
Print Assumptions loop_result_independent_of_extra_fuel.

(* (2) the tokens of an accepted line reproduce the line: values in order at their offsets, white space (and comment
   delimiters around comment tokens) in between *)
Theorem line_reproduced : forall cas ln acc line acc' op,
    split_line cas ln (acc, false) line = Ok (acc', op) ->
    exists ts, acc' = rev ts ++ acc /\ covers 0 line ts /\ Forall (fun t => tline t = ln) ts.
Proof. exact split_line_closed. Qed.
Print Assumptions line_reproduced.

Theorem line_in_open_comment_reproduced : forall cas ln t0 acc line acc' op,
    split_line cas ln (t0 :: acc, true) line = Ok (acc', op) ->
    (find_star_slash line = None /\ acc' = append_value t0 line :: acc /\ op = true) \/
    (exists i ts, find_star_slash line = Some i /\ closes_at line i /\
                  acc' = rev ts ++ append_value t0 (firstn i line) :: acc /\
                  covers (i + 2) (skipn (i + 2) line) ts /\ Forall (fun t => tline t = ln) ts).
Proof. exact split_line_opened. Qed.
Print Assumptions line_in_open_comment_reproduced.

Theorem single_line_input_reproduced : forall cas s ts,
    ~ In "010" s -> lex cas s = Ok ts -> covers 0 s ts /\ Forall (fun t => tline t = 1) ts.
Proof. exact lex_single_line. Qed.
Print Assumptions single_line_input_reproduced.

(* (3) stripComments keeps exactly the non-comment tokens (value, line, offset, flag unchanged, order kept) *)
Theorem strip_comments_removes_exactly_comments : forall fx l out,
    strip_comments fx l = Some out -> map core out = map core (filter keeps l).
Proof. exact strip_comments_spec. Qed.
Print Assumptions strip_comments_removes_exactly_comments.

(* (4) round trip, for tokens of simple classes rendered on one line with arbitrary positive blanks *)
Theorem round_trip_partial : forall cas items,
    Forall valid items -> lex cas (render items) = Ok (toks_at 1 0 items).
Proof. exact lex_round_trip. Qed.
Print Assumptions round_trip_partial.

Theorem round_trip_words : forall c body,
    word_start c = true -> forallb word_char body = true -> scans_as (c :: body) Standard.
Proof. exact word_scans. Qed.
Print Assumptions round_trip_words.

Theorem round_trip_separators : forall c, In c single_seps -> scans_as [c] Standard.
Proof. exact sep_scans. Qed.
Print Assumptions round_trip_separators.

Theorem round_trip_integers : forall c body, forallb isdigit (c :: body) = true -> scans_as (c :: body) Number.
Proof. exact number_scans. Qed.
Print Assumptions round_trip_integers.

Theorem round_trip_strings : forall body,
    forallb plain_char body = true -> scans_as ("""" :: body ++ [""""]) String.
Proof. exact string_scans. Qed.
Print Assumptions round_trip_strings.

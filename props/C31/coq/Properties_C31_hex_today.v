(* C31 -- pinned code: hexadecimal / binary literals are lexical elements of C++ that the tokenizer does not give back (computed witness);
   selected by check.py when the real code shows the pinned behaviour on the probe *)
From Coq Require Import Ascii List Bool.
From C31 Require Import C31Model C31Lang C31Variants.
Import ListNotations.

Theorem hex_round_trip_refuted :
  forallb (line_ok (mkOpts false true false false)) w_hex = true /\
  lex (pinned false) (render_lines w_hex) = Err.
Proof. exact hex_witness. Qed.
Print Assumptions hex_round_trip_refuted.

(* C31 -- lemmas about the model C31Model.v: termination/fuel, the layout property, stripComments *)
From Coq Require Import Ascii List Bool Arith Lia NArith.
From C31 Require Import C31Model C31Spec.
Import ListNotations.
Local Open Scope char_scope.

(* ------------------------------------------------------------------ characters *)
Ltac all_chars c := destruct c as [[|] [|] [|] [|] [|] [|] [|] [|]].

Lemma isspace_spec : forall c, isspace c = true -> In c ws_chars.
Proof.
  intro c; all_chars c; vm_compute; intro H; try discriminate H; clear H;
    repeat ((left; reflexivity) || right).
Qed.

Lemma eqb_true : forall a b : ascii, (a == b) = true -> a = b.
Proof. intros a b; apply Ascii.eqb_eq. Qed.

Lemma ws_delim : forall c, In c ws_chars -> In c delim_chars.
Proof. intros c H; unfold delim_chars; apply in_or_app; right; exact H. Qed.

Lemma blank_delims : forall l, blank l -> delims l.
Proof. intros l H; eapply Forall_impl; [ | exact H ]; intros a; apply ws_delim. Qed.

(* ------------------------------------------------------------------ take_while, count_space, firstn / skipn *)
Lemma take_while_length : forall p s, length (take_while p s) <= length s.
Proof. induction s as [|c s IH]; simpl; [ lia | destruct (p c); simpl; lia ]. Qed.

Lemma take_while_firstn : forall p s, firstn (length (take_while p s)) s = take_while p s.
Proof. induction s as [|c s IH]; simpl; [ reflexivity | destruct (p c); simpl; [ f_equal; exact IH | reflexivity ] ]. Qed.

Lemma take_while_all : forall p s, Forall (fun c => p c = true) (take_while p s).
Proof.
  induction s as [|c s IH]; simpl; [ constructor | destruct (p c) eqn:E; [ constructor; assumption | constructor ] ].
Qed.

Lemma count_space_le : forall s, count_space s <= length s.
Proof. intro s; apply take_while_length. Qed.

Lemma count_space_blank : forall s, blank (firstn (count_space s) s).
Proof.
  intro s; unfold count_space; rewrite take_while_firstn.
  eapply Forall_impl; [ | apply take_while_all ]; intros a; apply isspace_spec.
Qed.

Lemma Forall_firstn_add : forall (P : ascii -> Prop) a b l,
    Forall P (firstn a l) -> Forall P (firstn b (skipn a l)) -> Forall P (firstn (a + b) l).
Proof.
  induction a as [|a IH]; intros b l H1 H2; simpl in *; [ exact H2 | ].
  destruct l as [|c l]; simpl in *; [ constructor | ].
  inversion H1; subst; constructor; [ assumption | apply IH; assumption ].
Qed.

Lemma skipn_skipn : forall (x y : nat) (l : str), skipn x (skipn y l) = skipn (x + y) l.
Proof.
  intros x y; revert x; induction y as [|y IH]; intros x l; simpl.
  - rewrite Nat.add_0_r; reflexivity.
  - destruct l as [|c l]; [ rewrite !skipn_nil; reflexivity | ].
    rewrite Nat.add_succ_r; simpl; apply IH.
Qed.

(* the decomposition of a text by counts *)
Lemma split4 : forall (l : str) a b c,
    a + b + c <= length l ->
    l = firstn a l ++ firstn b (skipn a l) ++ firstn c (skipn (a + b) l) ++ skipn (a + b + c) l.
Proof.
  intros l a b c H.
  rewrite <- (firstn_skipn a l) at 1; f_equal.
  rewrite <- (firstn_skipn b (skipn a l)) at 1; f_equal.
  rewrite skipn_skipn, (Nat.add_comm b a).
  rewrite <- (firstn_skipn c (skipn (a + b) l)) at 1; f_equal.
  rewrite skipn_skipn; f_equal; lia.
Qed.

(* ------------------------------------------------------------------ bounds of the token scanners *)
Lemma find_close_lt : forall e s seen i, find_close e seen s = Some i -> i < length s.
Proof.
  induction s as [|c s IH]; simpl; intros seen i H; [ discriminate | ].
  destruct ((c == e) && Nat.even (length (take_while (fun x => x == "\") seen))).
  - inversion H; lia.
  - destruct (find_close e (c :: seen) s) eqn:E; [ | discriminate ].
    inversion H; subst; apply IH in E; lia.
Qed.

Lemma hd_is_cons : forall p s, hd_is p s = true -> exists c t, s = c :: t /\ p c = true.
Proof. intros p [|c t]; simpl; [ discriminate | intros; eauto ]. Qed.

Definition plain_ok (tl : str) (r : scan) : Prop :=
  match r with
  | SPlain k f => k <= length tl /\ is_comment_flag f = false
  | SComment _ _ _ _ _ => False
  | _ => True
  end.

Lemma scan_number_ok : forall o c tl, plain_ok tl (scan_number o (c :: tl)).
Proof.
  intros o c tl; unfold scan_number; destruct (parse_number o (c :: tl)); unfold plain_ok; [ | exact I ].
  split; [ change (length (c :: tl)) with (S (length tl)); lia | reflexivity ].
Qed.

Lemma scan_string_ok : forall e tl, plain_ok tl (scan_string e tl).
Proof.
  intros e tl; unfold scan_string; destruct (find_close e [] tl) eqn:E; simpl; [ | exact I ].
  apply find_close_lt in E; split; [ lia | reflexivity ].
Qed.

Lemma scan_char_ok : forall tl, plain_ok tl (scan_char tl).
Proof.
  intros [|c [|d [|y t]]]; simpl; try exact I.
  - destruct (c == "\"); exact I.
  - destruct (c == "\"); [ exact I | destruct (d == "'"); simpl; [ split; [ lia | reflexivity ] | exact I ] ].
  - destruct (c == "\").
    + destruct (y == "'"); simpl; [ split; [ lia | reflexivity ] | exact I ].
    + destruct (d == "'"); simpl; [ split; [ lia | reflexivity ] | exact I ].
Qed.

Lemma join1_ok : forall x tl, plain_ok tl (join1 x tl).
Proof.
  intros x tl; unfold join1; simpl; destruct (hd_is (fun d => d == x) tl) eqn:E; split; try reflexivity; try lia.
  apply hd_is_cons in E; destruct E as (c & t & -> & _); simpl; lia.
Qed.

Lemma join2_ok : forall x y tl, plain_ok tl (join2 x y tl).
Proof.
  intros x y tl; unfold join2; simpl; destruct (hd_is (fun d => (d == x) || (d == y)) tl) eqn:E; split;
    try reflexivity; try lia.
  apply hd_is_cons in E; destruct E as (c & t & -> & _); simpl; lia.
Qed.

(* ------------------------------------------------------------------ comments *)
Definition comment_ok (t2 : str) (r : scan) : Prop :=
  match r with
  | SComment extra len post f op =>
    delims (firstn extra t2) /\ extra + len + post <= length t2 /\
    delims (firstn post (skipn (extra + len) t2)) /\ is_comment_flag f = true /\
    (op = true -> extra + len + post = length t2)
  | _ => False
  end.

Lemma comment_kind_ok : forall first t2 x f,
    comment_kind first t2 = (x, f) -> x <= length t2 /\ delims (firstn x t2) /\ is_comment_flag f = true.
Proof.
  intros first t2 x f; unfold comment_kind.
  destruct t2 as [|c t3]; [ intro H; inversion H; subst; simpl; repeat split; try lia; constructor | ].
  destruct (c == "!") eqn:E1.
  - apply eqb_true in E1; subst c.
    destruct (hd_is (fun d => d == "<") t3) eqn:E2.
    + apply hd_is_cons in E2; destruct E2 as (d & t4 & -> & E2); apply eqb_true in E2; subst d.
      intro H; inversion H; subst; simpl; repeat split; try lia.
      * repeat constructor; unfold delim_chars; simpl; tauto.
      * destruct first; reflexivity.
    + intro H; inversion H; subst; simpl; repeat split; try lia.
      * repeat constructor; unfold delim_chars; simpl; tauto.
      * destruct first; reflexivity.
  - intro H; inversion H; subst; simpl; repeat split; try lia; constructor.
Qed.

Lemma rstrip_len_le : forall l, rstrip_len l <= length l.
Proof. induction l as [|c l IH]; simpl; [ lia | destruct (Nat.eqb (rstrip_len l) 0 && isspace c); simpl; lia ]. Qed.

Lemma rstrip_blank : forall l, blank (skipn (rstrip_len l) l).
Proof.
  induction l as [|c l IH]; simpl; [ constructor | ].
  destruct (Nat.eqb (rstrip_len l) 0) eqn:E; simpl.
  - apply Nat.eqb_eq in E; rewrite E in IH; simpl in IH.
    destruct (isspace c) eqn:Es; simpl.
    + constructor; [ apply isspace_spec; exact Es | exact IH ].
    + rewrite E; exact IH.
  - exact IH.
Qed.

Lemma find_star_slash_spec : forall s i,
    find_star_slash s = Some i -> i + 2 <= length s /\ skipn i s = "*" :: "/" :: skipn (i + 2) s.
Proof.
  induction s as [|c s IH]; simpl; intros i H; [ discriminate | ].
  destruct ((c == "*") && hd_is (fun d => d == "/") s) eqn:E.
  - inversion H; subst; apply andb_prop in E; destruct E as [E1 E2].
    apply eqb_true in E1; subst c.
    apply hd_is_cons in E2; destruct E2 as (d & t & -> & E2); apply eqb_true in E2; subst d.
    simpl; split; [ lia | reflexivity ].
  - destruct (find_star_slash s) eqn:F; [ | discriminate ].
    inversion H; subst; destruct (IH _ eq_refl) as [A B]; simpl; split; [ lia | exact B ].
Qed.

Lemma find_star_slash_closes : forall s i, find_star_slash s = Some i -> closes_at s i.
Proof.
  intros s i H; apply find_star_slash_spec in H; destruct H as [A B].
  exists (firstn i s), (skipn (i + 2) s); split.
  - rewrite <- B; symmetry; apply firstn_skipn.
  - apply firstn_length_le; lia.
Qed.

Lemma skipn_blank_prefix : forall sp (body : str),
    blank (firstn sp body) -> forall x (t2 : str), body = skipn x t2 -> delims (firstn x t2) ->
    delims (firstn (x + sp) t2).
Proof.
  intros sp body Hb x t2 -> Hx; apply Forall_firstn_add; [ exact Hx | apply blank_delims; exact Hb ].
Qed.

Lemma scan_cxx_comment_ok : forall first t2, comment_ok t2 (scan_cxx_comment first t2).
Proof.
  intros first t2; unfold scan_cxx_comment.
  destruct (comment_kind first t2) as [x f] eqn:K; apply comment_kind_ok in K; destruct K as (K1 & K2 & K3).
  simpl.
  pose proof (count_space_le (skipn x t2)) as L; rewrite skipn_length in L.
  repeat split.
  - eapply skipn_blank_prefix; [ apply count_space_blank | reflexivity | exact K2 ].
  - rewrite skipn_length; lia.
  - constructor.
  - exact K3.
  - discriminate.
Qed.

Lemma scan_c_comment_ok : forall first t2, comment_ok t2 (scan_c_comment first t2).
Proof.
  intros first t2; unfold scan_c_comment.
  destruct (comment_kind first t2) as [x f] eqn:K; apply comment_kind_ok in K; destruct K as (K1 & K2 & K3).
  set (body := skipn x t2).
  set (sp := count_space body).
  set (cs := skipn sp body).
  assert (Lsp : sp <= length t2 - x) by (unfold sp, body; rewrite <- skipn_length; apply count_space_le).
  assert (Hcs : cs = skipn (x + sp) t2) by (unfold cs, body; rewrite skipn_skipn; f_equal; lia).
  assert (Lcs : length cs = length t2 - (x + sp)) by (rewrite Hcs; apply skipn_length).
  assert (Hpre : delims (firstn (x + sp) t2))
    by (eapply skipn_blank_prefix; [ apply count_space_blank | reflexivity | exact K2 ]).
  destruct (find_star_slash cs) as [i|] eqn:F; simpl.
  - apply find_star_slash_spec in F; destruct F as [F1 F2].
    pose proof (rstrip_len_le (firstn i cs)) as R1.
    rewrite firstn_length_le in R1 by lia.
    set (len := rstrip_len (firstn i cs)) in *.
    repeat split; try assumption; try lia; try discriminate.
    (* the trailing white space of the comment and the closing delimiter *)
    replace (skipn (x + sp + len) t2) with (skipn len cs)
      by (rewrite Hcs, skipn_skipn; f_equal; lia).
    apply Forall_firstn_add.
    + rewrite firstn_skipn_comm. replace (len + (i - len)) with i by lia.
      apply blank_delims; apply rstrip_blank.
    + rewrite skipn_skipn. replace (i - len + len) with i by lia. rewrite F2; simpl.
      repeat constructor; unfold delim_chars; simpl; tauto.
  - pose proof (rstrip_len_le cs) as R1.
    set (len := rstrip_len cs) in *.
    repeat split; try assumption; try lia.
    replace (skipn (x + sp + len) t2) with (skipn len cs)
      by (rewrite Hcs, skipn_skipn; f_equal; lia).
    rewrite firstn_all2 by (rewrite skipn_length; lia).
    apply blank_delims; apply rstrip_blank.
Qed.

(* ------------------------------------------------------------------ scan_token *)
Definition token_ok (c : ascii) (tl : str) (r : scan) : Prop :=
  match r with
  | SPlain _ _ => plain_ok tl r
  | SComment _ _ _ _ _ => exists t2, (tl = "/" :: t2 \/ tl = "*" :: t2) /\ c = "/" /\ comment_ok t2 r
  | _ => True
  end.

Lemma plain_token_ok : forall c tl r, plain_ok tl r -> token_ok c tl r.
Proof. intros c tl [ | | | ]; simpl; tauto. Qed.

Ltac comment_case lem :=
  match goal with
  | Hc : (?c == "/") = true, Hd : (?d == _) = true |- token_ok ?c (?d :: ?t) _ =>
    apply eqb_true in Hc; apply eqb_true in Hd; subst c; subst d;
    let P := fresh "P" in
    pose proof (lem t) as P; simpl List.tl;
    match goal with
    | |- token_ok _ _ ?r => destruct r; simpl in P |- *; try contradiction;
                            exists t; split; [ (left; reflexivity) || (right; reflexivity) | split; [ reflexivity | exact P ] ]
    end
  end.

Lemma splain2_ok : forall tl b, b && hd_is (fun d => d == "*") (List.tl tl) = true -> plain_ok tl (SPlain 2 Standard).
Proof.
  intros tl b H; apply andb_prop in H; destruct H as [_ H].
  destruct tl as [|a [|b' t]]; simpl in *; try discriminate. split; [ lia | reflexivity ].
Qed.

Lemma scan_token_ok : forall cas first prevc c tl, token_ok c tl (scan_token cas first prevc c tl).
Proof.
  intros cas first prevc c tl; unfold scan_token.
  repeat match goal with
         | |- token_ok _ _ (if ?b then _ else _) => destruct b eqn:?
         end;
    try (apply plain_token_ok;
         first [ apply scan_number_ok | apply scan_string_ok | apply scan_char_ok | apply join1_ok | apply join2_ok ]);
    try exact I;
    try (apply plain_token_ok; eapply splain2_ok; eassumption);
    try match goal with
        | H : _ && hd_is _ tl = true |- _ => let H1 := fresh in apply andb_prop in H; destruct H as [H1 H]
        end;
    try match goal with
        | H : hd_is _ tl = true |- _ =>
          let d := fresh "d" in let t := fresh "t" in let Hd := fresh "Hd" in
          apply hd_is_cons in H; destruct H as (d & t & -> & Hd)
        end.
  all: try (match goal with |- context [scan_cxx_comment] => comment_case (scan_cxx_comment_ok first) end).
  all: try (match goal with |- context [scan_c_comment] => comment_case (scan_c_comment_ok first) end).
  all: try (destruct tl as [|d0 t0]); simpl;
    repeat match goal with |- context [if ?b then _ else _] => destruct b end;
    simpl; try exact I; try (split; [ simpl; try lia; try (apply le_n_S; apply take_while_length); try apply take_while_length | reflexivity ]).
Qed.

(* ------------------------------------------------------------------ (1) termination: fuel *)
Lemma skipn_tail_length : forall ws (rest : str) c tl, skipn ws rest = c :: tl -> S (length tl) <= length rest.
Proof.
  intros ws rest c tl E; pose proof (skipn_length ws rest) as L; rewrite E in L; simpl in L; lia.
Qed.

Lemma std_loop_fuel : forall f1 f2 cas ln first prevc o rest,
    length rest < f1 -> length rest < f2 ->
    std_loop f1 cas ln first prevc o rest = std_loop f2 cas ln first prevc o rest.
Proof.
  induction f1 as [|f1 IH]; intros [|f2] cas ln first prevc o rest H1 H2; try lia.
  simpl.
  destruct (skipn (count_space rest) rest) as [|c tl] eqn:E; [ reflexivity | ].
  apply skipn_tail_length in E.
  destruct (scan_token cas first (last_char (firstn (count_space rest) rest) prevc) c tl) as [k f|extra len post f op| | ];
    try reflexivity.
  - rewrite (IH f2); [ reflexivity | rewrite skipn_length; lia | rewrite skipn_length; lia ].
  - destruct op; [ reflexivity | ].
    rewrite (IH f2); [ reflexivity | | ]; (destruct tl as [|? ?]; simpl in *; [ lia | rewrite skipn_length; lia ]).
Qed.

Lemma std_loop_no_oof : forall f cas ln first prevc o rest,
    length rest < f -> std_loop f cas ln first prevc o rest <> OutOfFuel.
Proof.
  induction f as [|f IH]; intros cas ln first prevc o rest H; [ lia | ].
  simpl.
  destruct (skipn (count_space rest) rest) as [|c tl] eqn:E; [ discriminate | ].
  apply skipn_tail_length in E.
  destruct (scan_token cas first (last_char (firstn (count_space rest) rest) prevc) c tl) as [k f0|extra len post f0 op| | ];
    try discriminate.
  - match goal with |- context [std_loop f ?a ?b ?c ?d ?e ?g] =>
                    pose proof (IH a b c d e g) as N; destruct (std_loop f a b c d e g) as [[? ?]| | | ] end;
      try discriminate.
    exfalso; apply N; [ rewrite skipn_length; lia | reflexivity ].
  - destruct op; [ discriminate | ].
    match goal with |- context [std_loop f ?a ?b ?c ?d ?e ?g] =>
                    pose proof (IH a b c d e g) as N; destruct (std_loop f a b c d e g) as [[? ?]| | | ] end;
      try discriminate.
    exfalso; apply N; [ destruct tl as [|? ?]; simpl in *; [ lia | rewrite skipn_length; lia ] | reflexivity ].
Qed.

Lemma line_body_no_oof : forall cas ln first prevc o rest, line_body cas ln first prevc o rest <> OutOfFuel.
Proof.
  intros; unfold line_body.
  destruct (skipn (count_space rest) rest) as [|c tl]; [ apply std_loop_no_oof; lia | ].
  destruct (c == "#"); [ | apply std_loop_no_oof; lia ].
  destruct (skipn (count_space tl) tl) as [|d r2] eqn:E; [ discriminate | ].
  destruct (take_while (fun d0 => negb (sep_or_space d0)) (d :: r2)); [ discriminate | ].
  destruct (existsb _ pp_keywords); [ | discriminate ].
  match goal with |- context [std_loop ?f ?a ?b ?c ?d ?e ?g] =>
                  pose proof (std_loop_no_oof f a b c d e g) as N; destruct (std_loop f a b c d e g) as [[? ?]| | | ] end;
    try discriminate.
  exfalso; apply N; [ lia | reflexivity ].
Qed.

Lemma split_line_no_oof : forall cas ln st line, split_line cas ln st line <> OutOfFuel.
Proof.
  intros cas ln [acc opened] line; unfold split_line.
  assert (K : forall acc' prevc o rest,
             match line_body cas ln (match acc' with [] => true | _ => false end) prevc o rest with
             | Ok (ts, op) => Ok (rev_append ts acc', op) | Err => Err | Unsup => Unsup | OutOfFuel => OutOfFuel
             end <> (OutOfFuel : result (list token * bool))).
  { intros acc' prevc o rest.
    pose proof (line_body_no_oof cas ln (match acc' with [] => true | _ => false end) prevc o rest) as N.
    destruct (line_body cas ln _ prevc o rest) as [[? ?]| | | ]; try discriminate. exfalso; apply N; reflexivity. }
  destruct opened; [ | apply K ].
  destruct acc as [|t0 acc0]; [ discriminate | ].
  destruct (negb (is_comment_flag (tflag t0))); [ discriminate | ].
  destruct (find_star_slash line) as [i|]; [ apply (K (append_value t0 (firstn i line) :: acc0)) | discriminate ].
Qed.

Lemma lex_lines_no_oof : forall cas lines ln st, lex_lines cas ln st lines <> OutOfFuel.
Proof.
  induction lines as [|l ls IH]; intros ln st; simpl; [ discriminate | ].
  pose proof (split_line_no_oof cas ln st l) as N.
  destruct (split_line cas ln st l); try discriminate; [ apply IH | exfalso; apply N; reflexivity ].
Qed.

(* ------------------------------------------------------------------ (2) the layout property *)
Lemma comment_flag_of_bool : forall f, is_comment_flag f = true -> comment_flag f.
Proof. intros []; simpl; intro H; try discriminate H; unfold comment_flag; tauto. Qed.

Lemma not_comment_flag_of_bool : forall f, is_comment_flag f = false -> ~ comment_flag f.
Proof. intros [] H [K|[K|K]]; try discriminate K; discriminate H. Qed.

Lemma blank_when_skipn_nil : forall rest, skipn (count_space rest) rest = [] -> blank rest.
Proof.
  intros rest E; rewrite <- (firstn_skipn (count_space rest) rest), E, app_nil_r; apply count_space_blank.
Qed.

Lemma covers_plain : forall o rest c tl k t ts,
    skipn (count_space rest) rest = c :: tl -> k <= length tl ->
    ~ comment_flag (tflag t) ->
    toffset t = o + count_space rest ->
    tvalue t = value_of_raw (tflag t) (c :: firstn k tl) ->
    covers (o + count_space rest + S k) (skipn k tl) ts ->
    covers o rest (t :: ts).
Proof.
  intros o rest c tl k t ts E Hk Hf Ho Hv C.
  pose proof (count_space_le rest) as Lw.
  replace rest with (firstn (count_space rest) rest ++ [] ++ (c :: firstn k tl) ++ [] ++ skipn k tl)
    by (simpl; rewrite firstn_skipn, <- E; apply firstn_skipn).
  apply cov_tok; try assumption.
  - apply count_space_blank.
  - constructor.
  - constructor.
  - intros _; repeat split; discriminate.
  - rewrite firstn_length_le by assumption; simpl; lia.
  - rewrite firstn_length_le by assumption; simpl length; rewrite firstn_length_le by assumption.
    replace (o + count_space rest + 0 + S k + 0) with (o + count_space rest + S k) by lia; exact C.
Qed.

Lemma covers_comment : forall o rest x t2 extra len post t ts,
    skipn (count_space rest) rest = "/" :: x :: t2 -> (x = "/" \/ x = "*") ->
    delims (firstn extra t2) -> extra + len + post <= length t2 ->
    delims (firstn post (skipn (extra + len) t2)) ->
    comment_flag (tflag t) ->
    toffset t = o + count_space rest + (2 + extra) ->
    tvalue t = firstn len (skipn extra t2) ->
    covers (o + count_space rest + (2 + extra + len + post)) (skipn (extra + len + post) t2) ts ->
    covers o rest (t :: ts).
Proof.
  intros o rest x t2 extra len post t ts E Hx D1 L D2 Hf Ho Hv C.
  pose proof (count_space_le rest) as Lw.
  replace rest with (firstn (count_space rest) rest ++ ("/" :: x :: firstn extra t2) ++ firstn len (skipn extra t2) ++
                     firstn post (skipn (extra + len) t2) ++ skipn (extra + len + post) t2).
  2:{ transitivity (firstn (count_space rest) rest ++ skipn (count_space rest) rest); [ | apply firstn_skipn ].
      f_equal; rewrite E; simpl; do 2 f_equal. symmetry; apply split4; exact L. }
  apply cov_tok; try assumption.
  - apply count_space_blank.
  - constructor; [ | constructor; [ | assumption ] ]; unfold delim_chars; simpl; destruct Hx; subst; tauto.
  - intro N; contradiction.
  - rewrite firstn_length_le by assumption; simpl length; rewrite firstn_length_le by lia; lia.
  - rewrite Hv; destruct Hf as [->|[->| ->]]; reflexivity.
  - rewrite firstn_length_le by assumption; simpl length.
    rewrite !firstn_length_le by (rewrite ?skipn_length; lia).
    replace (o + count_space rest + S (S extra) + len + post) with (o + count_space rest + (2 + extra + len + post)) by lia.
    exact C.
Qed.

Lemma std_loop_covers : forall fuel cas ln first prevc o rest ts op,
    std_loop fuel cas ln first prevc o rest = Ok (ts, op) ->
    covers o rest ts /\ Forall (fun t => tline t = ln) ts.
Proof.
  induction fuel as [|fuel IH]; intros cas ln first prevc o rest ts op H; [ discriminate | ].
  simpl in H.
  destruct (skipn (count_space rest) rest) as [|c tl] eqn:E.
  { inversion H; subst; split; [ apply cov_end; apply blank_when_skipn_nil; exact E | constructor ]. }
  pose proof (scan_token_ok cas first (last_char (firstn (count_space rest) rest) prevc) c tl) as OK.
  destruct (scan_token cas first (last_char (firstn (count_space rest) rest) prevc) c tl)
    as [k f|extra len post f opened| | ]; try discriminate; simpl in OK.
  - destruct OK as [Hk Hf].
    match type of H with context [std_loop fuel ?a ?b ?c ?d ?e ?g] =>
                         destruct (std_loop fuel a b c d e g) as [[ts' op']| | | ] eqn:R end; try discriminate.
    inversion H; subst; clear H. apply IH in R; destruct R as [C F].
    split; [ | constructor; [ reflexivity | exact F ] ].
    eapply covers_plain; try eassumption; simpl.
    + apply not_comment_flag_of_bool; exact Hf.
    + reflexivity.
    + destruct f; reflexivity.
  - destruct OK as (t2 & Ht & -> & D1 & L & D2 & Hf & Hop).
    assert (Ex : exists x, tl = x :: t2 /\ (x = "/" \/ x = "*")) by (destruct Ht; subst; eauto).
    destruct Ex as (x & -> & Hx); clear Ht.
    destruct opened.
    + inversion H; subst; clear H. split; [ | repeat constructor ].
      eapply covers_comment with (post := post); try eassumption; simpl.
      * apply comment_flag_of_bool; exact Hf.
      * reflexivity.
      * reflexivity.
      * rewrite skipn_all2 by (rewrite Hop by reflexivity; lia). apply cov_end; constructor.
    + match type of H with context [std_loop fuel ?a ?b ?c ?d ?e ?g] =>
                           destruct (std_loop fuel a b c d e g) as [[ts' op']| | | ] eqn:R end; try discriminate.
      inversion H; subst; clear H. apply IH in R; destruct R as [C F].
      split; [ | constructor; [ reflexivity | exact F ] ].
      eapply covers_comment with (post := post); try eassumption; simpl.
      * apply comment_flag_of_bool; exact Hf.
      * reflexivity.
      * reflexivity.
Qed.

Lemma cov_plain_lists : forall o l ws raw rest t ts,
    l = ws ++ raw ++ rest ->
    blank ws -> raw <> [] -> ~ comment_flag (tflag t) ->
    toffset t = o + length ws -> tvalue t = value_of_raw (tflag t) raw ->
    covers (o + length ws + length raw) rest ts ->
    covers o l (t :: ts).
Proof.
  intros o l ws raw rest t ts -> B N F O V C.
  change (ws ++ raw ++ rest) with (ws ++ [] ++ raw ++ [] ++ rest).
  apply cov_tok; try assumption.
  - constructor.
  - constructor.
  - intros _; repeat split; assumption.
  - simpl; lia.
  - simpl; replace (o + length ws + 0 + length raw + 0) with (o + length ws + length raw) by lia; exact C.
Qed.

Lemma line_body_covers : forall cas ln first prevc o rest ts op,
    line_body cas ln first prevc o rest = Ok (ts, op) ->
    covers o rest ts /\ Forall (fun t => tline t = ln) ts.
Proof.
  intros cas ln first prevc o rest ts op H; unfold line_body in H.
  destruct (skipn (count_space rest) rest) as [|c tl] eqn:E; [ eapply std_loop_covers; eassumption | ].
  destruct (c == "#") eqn:Ec; [ | eapply std_loop_covers; eassumption ].
  apply eqb_true in Ec; subst c.
  destruct (skipn (count_space tl) tl) as [|d r2] eqn:E2; [ discriminate | ].
  remember (take_while (fun d0 => negb (sep_or_space d0)) (d :: r2)) as key eqn:Ek.
  destruct key as [|k0 key']; [ discriminate | ].
  destruct (existsb (str_eqb (k0 :: key')) pp_keywords); [ | discriminate ].
  match type of H with context [std_loop ?f ?a ?b ?c ?d ?e ?g] =>
                       destruct (std_loop f a b c d e g) as [[ts' op']| | | ] eqn:R end; try discriminate.
  inversion H; subst ts op; clear H. apply std_loop_covers in R; destruct R as [C F].
  split; [ | constructor; [ reflexivity | constructor; [ reflexivity | exact F ] ] ].
  pose proof (count_space_le rest) as L1. pose proof (count_space_le tl) as L2.
  assert (Hk : d :: r2 = (k0 :: key') ++ skipn (length (k0 :: key')) (d :: r2)).
  { rewrite Ek at 1. rewrite <- take_while_firstn. rewrite <- Ek. symmetry; apply firstn_skipn. }
  eapply cov_plain_lists with (ws := firstn (count_space rest) rest) (raw := ["#"]) (rest := tl).
  - simpl; rewrite <- E; symmetry; apply firstn_skipn.
  - apply count_space_blank.
  - discriminate.
  - intros [K|[K|K]]; discriminate K.
  - simpl; rewrite firstn_length_le by assumption; reflexivity.
  - reflexivity.
  - eapply cov_plain_lists with (ws := firstn (count_space tl) tl) (raw := k0 :: key')
                                (rest := skipn (length (k0 :: key')) (d :: r2)).
    + rewrite <- Hk, <- E2; symmetry; apply firstn_skipn.
    + apply count_space_blank.
    + discriminate.
    + intros [K|[K|K]]; discriminate K.
    + simpl; rewrite !firstn_length_le by assumption; lia.
    + reflexivity.
    + rewrite !firstn_length_le by assumption. simpl length in *.
      replace (o + count_space rest + 1 + count_space tl + S (length key'))
        with (o + count_space rest + 1 + count_space tl + S (length key')) by lia.
      exact C.
Qed.

Lemma rev_append_rev' : forall (a b : list token), rev_append a b = rev a ++ b.
Proof. intros; apply rev_append_rev. Qed.

(* a line read with no comment open *)
Lemma split_line_closed : forall cas ln acc line acc' op,
    split_line cas ln (acc, false) line = Ok (acc', op) ->
    exists ts, acc' = rev ts ++ acc /\ covers 0 line ts /\ Forall (fun t => tline t = ln) ts.
Proof.
  intros cas ln acc line acc' op H; unfold split_line in H.
  destruct (line_body cas ln match acc with [] => true | _ => false end None 0 line) as [[ts o']| | | ] eqn:B;
    try discriminate.
  inversion H; subst; clear H. apply line_body_covers in B; destruct B as [C F].
  exists ts; rewrite rev_append_rev'; auto.
Qed.

(* a line read while a C comment is open: either it does not close the comment and is appended to the comment
   token, or the text up to the first "*/" is appended and the remainder of the line is tokenized *)
Lemma split_line_opened : forall cas ln t0 acc line acc' op,
    split_line cas ln (t0 :: acc, true) line = Ok (acc', op) ->
    (find_star_slash line = None /\ acc' = append_value t0 line :: acc /\ op = true) \/
    (exists i ts, find_star_slash line = Some i /\ closes_at line i /\
                  acc' = rev ts ++ append_value t0 (firstn i line) :: acc /\
                  covers (i + 2) (skipn (i + 2) line) ts /\ Forall (fun t => tline t = ln) ts).
Proof.
  intros cas ln t0 acc line acc' op H; unfold split_line in H.
  destruct (negb (is_comment_flag (tflag t0))); [ discriminate | ].
  destruct (find_star_slash line) as [i|] eqn:F.
  - right.
    destruct (line_body cas ln false (Some "/") (i + 2) (skipn (i + 2) line)) as [[ts o']| | | ] eqn:B;
      try discriminate.
    inversion H; subst; clear H. apply line_body_covers in B; destruct B as [C Fo].
    exists i, ts; rewrite rev_append_rev'; repeat split; auto. apply find_star_slash_closes; exact F.
  - left; inversion H; auto.
Qed.

Lemma split_nl_no_newline : forall s acc, ~ In "010" s -> split_nl acc s = [rev acc ++ s].
Proof.
  induction s as [|c s IH]; intros acc N; simpl; [ rewrite app_nil_r; reflexivity | ].
  destruct (c == "010") eqn:E; [ apply eqb_true in E; subst; exfalso; apply N; left; reflexivity | ].
  rewrite IH by (intro K; apply N; right; exact K). simpl; rewrite <- app_assoc; reflexivity.
Qed.

(* an input of one line: the tokens describe the whole input *)
Lemma lex_single_line : forall cas s ts,
    ~ In "010" s -> lex cas s = Ok ts -> covers 0 s ts /\ Forall (fun t => tline t = 1) ts.
Proof.
  intros cas s ts N H; unfold lex in H. rewrite split_nl_no_newline in H by exact N.
  change (rev [] ++ s) with s in H. cbn [lex_lines] in H.
  destruct (split_line cas 1 ([], false) s) as [[acc' op]| | | ] eqn:S; try discriminate.
  apply split_line_closed in S; destruct S as (ts' & -> & C & F).
  inversion H; subst; clear H. cbn [fst]. rewrite app_nil_r, rev_involutive. auto.
Qed.

Lemma lex_total : forall cas s, lex cas s <> OutOfFuel.
Proof. intros; apply lex_lines_no_oof. Qed.

(* ------------------------------------------------------------------ (3) stripComments *)
Definition erase (t : token) : token := mkTok (tvalue t) (tline t) (toffset t) [] (tflag t).

Lemma erase_add_comment : forall nl t s, erase (add_comment nl t s) = erase t.
Proof. reflexivity. Qed.

Lemma keeps_add_comment : forall nl t s, keeps (add_comment nl t s) = keeps t.
Proof. reflexivity. Qed.

Definition same_kept (a b : token) : Prop := keeps a = keeps b /\ (keeps a = true -> erase a = erase b).

Lemma filter_same_kept : forall a b r, same_kept a b ->
    map erase (filter keeps (a :: r)) = map erase (filter keeps (b :: r)).
Proof.
  intros a b r [K E]; simpl. rewrite <- K. destruct (keeps a); [ simpl; rewrite E; reflexivity | reflexivity ].
Qed.

Lemma strip_go_spec : forall fx rest done cur out,
    strip_go fx done cur rest = Some out ->
    map erase out = map erase (rev done) ++ map erase (filter keeps (cur :: rest)).
Proof.
  induction rest as [|t2 r2 IH]; intros done cur out H.
  - simpl in H. unfold keeps at 1. simpl.
    destruct (tflag cur) eqn:Fc; simpl in H;
      try (inversion H; subst; simpl; rewrite ?map_app, ?app_nil_r; simpl; reflexivity).
    destruct done as [|t1 [|t1' d1]]; [ destruct fx; [ | discriminate ] | | ];
      inversion H; subst; rewrite ?app_nil_r; try reflexivity;
        destruct fx; destruct (is_standard (tflag t1)); simpl; rewrite ?map_app; reflexivity.
  - simpl in H.
    assert (Kc : forall d m, same_kept (m t2) t2 ->
                 strip_go fx d (m t2) r2 = Some out -> keeps cur = false -> map erase (rev d) = map erase (rev done) ->
                 map erase out = map erase (rev done) ++ map erase (filter keeps (cur :: t2 :: r2))).
    { intros d m SK G Kf Ed. apply IH in G. rewrite G, Ed. f_equal.
      rewrite (filter_same_kept _ _ _ SK). simpl filter at 2. rewrite Kf. reflexivity. }
    assert (Kk : keeps cur = true -> strip_go fx (cur :: done) t2 r2 = Some out ->
                 map erase out = map erase (rev done) ++ map erase (filter keeps (cur :: t2 :: r2))).
    { intros Kt G. apply IH in G. rewrite G. cbn [rev]. rewrite map_app, <- app_assoc.
      cbn [filter]. rewrite Kt. reflexivity. }
    destruct (tflag cur) eqn:Fc;
      try (apply Kk; [ unfold keeps; rewrite Fc; reflexivity | exact H ]).
    + eapply (Kc done (fun t => t)); [ split; auto | exact H | unfold keeps; rewrite Fc; reflexivity | reflexivity ].
    + eapply (Kc done (fun t => match tflag t with
                                  | Standard => add_comment true t (tvalue cur)
                                  | DoxygenComment =>
                                    mkTok (tvalue cur ++ "010" :: tvalue t) (tline t) (toffset t) (tcomment t) (tflag t)
                                  | _ => t
                                  end)); [ | exact H | unfold keeps; rewrite Fc; reflexivity | reflexivity ].
      destruct (tflag t2) eqn:F2; try (split; auto; fail).
      split; [ unfold keeps; simpl; rewrite F2; reflexivity | unfold keeps; simpl; discriminate ].
    + destruct done as [|t1 d1].
      * destruct fx; [ | discriminate ].
        eapply (Kc [] (fun t => t)); [ split; auto | exact H | unfold keeps; rewrite Fc; reflexivity | reflexivity ].
      * assert (Ea : map erase (rev (if is_standard (tflag t1) then add_comment false t1 (tvalue cur) :: d1 else t1 :: d1))
                     = map erase (rev (t1 :: d1))).
        { destruct (is_standard (tflag t1)); [ | reflexivity ]. simpl; rewrite !map_app; reflexivity. }
        destruct d1 as [|t1' d1'].
        -- eapply (Kc _ (fun t => t)); [ split; auto | exact H | unfold keeps; rewrite Fc; reflexivity | ].
           destruct fx; [ exact Ea | reflexivity ].
        -- eapply (Kc _ (fun t => t)); [ split; auto | exact H | unfold keeps; rewrite Fc; reflexivity | exact Ea ].
Qed.

(* stripComments keeps exactly the non-comment tokens, in order, with their value, line, offset and flag *)
Lemma strip_comments_spec : forall fx l out,
    strip_comments fx l = Some out -> map core out = map core (filter keeps l).
Proof.
  intros fx l out H.
  assert (E : map erase out = map erase (filter keeps l)).
  { destruct l as [|t r]; [ inversion H; reflexivity | ]. apply strip_go_spec in H; exact H. }
  assert (C : forall x, core x = core (erase x)) by reflexivity.
  rewrite (map_ext _ _ C), <- (map_map erase core), E, map_map; apply map_ext; intro; symmetry; apply C.
Qed.

(* with the fix, stripComments is total *)
Lemma strip_go_fixed_total : forall rest done cur, strip_go true done cur rest <> None.
Proof.
  induction rest as [|t2 r2 IH]; intros done cur; simpl.
  - destruct (tflag cur); try discriminate. destruct done as [|? [|? ?]]; discriminate.
  - destruct (tflag cur); try apply IH. destruct done as [|? [|? ?]]; apply IH.
Qed.

Lemma strip_comments_fixed_total : forall l, strip_comments true l <> None.
Proof. intros [|t r]; simpl; [ discriminate | apply strip_go_fixed_total ]. Qed.

(* the pinned stripComments on "/*a*/ /*!<b*/": the backward comment becomes the first element once the first comment
   is erased, and the code decrements begin() *)
Definition oob_input : str := ["/"; "*"; "a"; "*"; "/"; " "; "/"; "*"; "!"; "<"; "b"; "*"; "/"].
Lemma strip_oob_witness : exists ts, lex (pinned false) oob_input = Ok ts /\ strip_comments false ts = None.
Proof. eexists; split; vm_compute; reflexivity. Qed.

(* C31 -- the lexical elements of the round-trip theorem, written from the C++ grammar and the tokenizer's documented
   conventions, NOT from the model: token specifications (identifiers, the operator table with multi-character operators,
   integer / floating-point / hexadecimal / binary literals, string and character literals with escapes, comments),
   their source text, the token records that the tokenizer must return for a layout, and the boolean side conditions
   (well-formedness of each element, separability of adjacent elements).  Only [str], [token], [flag], [opts] and the
   character classes are taken from C31Model. *)
From Coq Require Import Ascii List Bool Arith NArith.
From C31 Require Import C31Model.
Import ListNotations.
Local Open Scope char_scope.
Local Open Scope bool_scope.

Definition str_eq (a b : str) : bool := if list_eq_dec ascii_dec a b then true else false.
Definition in_strs (a : str) (l : list str) : bool := existsb (str_eq a) l.
Definition hd_ok (p : ascii -> bool) (s : str) : bool := match s with [] => true | c :: _ => p c end.
Definition blank_char (c : ascii) : bool := isspace c && negb (c == "010").
Definition blanks (s : str) : bool := forallb blank_char s.
Definition no_nl (s : str) : bool := forallb (fun c => negb (c == "010")) s.

(* ------------------------------------------------------------------ numeric literals *)
(* digit sequence with C++14 separators: d (d | 'd)* *)
Fixpoint seq_tail (ok : ascii -> bool) (s : str) : bool :=
  match s with
  | [] => true
  | c :: t => if ok c then seq_tail ok t
              else if c == "'" then match t with d :: t' => ok d && seq_tail ok t' | [] => false end
              else false
  end.
Definition dig_seq (ok : ascii -> bool) (s : str) : bool := match s with c :: t => ok c && seq_tail ok t | [] => false end.
Definition xdigit (c : ascii) : bool := isdigit c || in_range 97 102 c || in_range 65 70 c.

(* suffixes: u, l, ul, lu, ll, ull, llu in any case / f, l in any case *)
Definition U : list str := [["u"]; ["U"]].
Definition L : list str := [["l"]; ["L"]].
Definition cat2 (a b : list str) : list str := flat_map (fun x => map (fun y => x ++ y) b) a.
Definition int_suffixes : list str := [[]] ++ U ++ L ++ cat2 L L ++ cat2 L U ++ cat2 (cat2 L L) U ++ cat2 U L ++ cat2 U (cat2 L L).
Definition int_suffixes_signed : list str := [[]] ++ L ++ cat2 L L.     (* after '-': no unsigned suffix *)
Definition float_suffixes : list str := [[]; ["f"]; ["F"]; ["l"]; ["L"]].
(* user-defined literal suffix: nothing, or '_' followed by at least one letter, digit or '_' *)
Definition udl_ok (s : str) : bool :=
  match s with [] => true | c :: t => (c == "_") && negb (match t with [] => true | _ => false end) && forallb is_word_char t end.

Record declit := mkDec { d_int : str; d_frac : option str; d_exp : option (ascii * option ascii * str); d_suf : str; d_udl : str }.
Inductive numlit :=
| NDec (d : declit)
| NHex (x : ascii) (ds suf udl : str)      (* 0x / 0X *)
| NBin (b : ascii) (ds suf udl : str).     (* 0b / 0B *)

Definition render_exp (e : option (ascii * option ascii * str)) : str :=
  match e with None => [] | Some (ec, sg, ds) => ec :: (match sg with Some s => [s] | None => [] end) ++ ds end.
Definition render_num (n : numlit) : str :=
  match n with
  | NDec d => d_int d ++ (match d_frac d with Some f => "." :: f | None => [] end) ++ render_exp (d_exp d) ++ d_suf d ++ d_udl d
  | NHex x ds suf udl => "0" :: x :: ds ++ suf ++ udl
  | NBin b ds suf udl => "0" :: b :: ds ++ suf ++ udl
  end.
Definition is_some {A} (x : option A) : bool := match x with Some _ => true | None => false end.
(* [neg]: the literal is preceded by '-' (no unsigned suffix then) *)
Definition dec_ok (o : opts) (neg : bool) (d : declit) : bool :=
  (match d_int d, d_frac d with
   | [], Some f => dig_seq isdigit f
   | [], None => false
   | i, None => dig_seq isdigit i
   | i, Some f => dig_seq isdigit i && (match f with [] => true | _ => dig_seq isdigit f end)
   end)
  && (match d_exp d with
      | None => true
      | Some (ec, sg, ds) => ((ec == "e") || (ec == "E"))
                             && (match sg with None => true | Some s => (s == "+") || (s == "-") end) && dig_seq isdigit ds
      end)
  && (let fl := is_some (d_frac d) ||
                (match d_exp d with
                 | Some (_, sg, _) => o_exp o || (match sg with Some s => s == "-" | None => false end)
                 | None => false end) in
      if fl then in_strs (d_suf d) float_suffixes
      else in_strs (d_suf d) (if neg then int_suffixes_signed else int_suffixes))
  && udl_ok (d_udl d).
Definition num_ok (o : opts) (neg : bool) (n : numlit) : bool :=
  match n with
  | NDec d => dec_ok o neg d
  | NHex x ds suf udl => o_hex o && ((x == "x") || (x == "X")) && dig_seq xdigit ds
                         && in_strs suf (if neg then int_suffixes_signed else int_suffixes) && udl_ok udl
  | NBin b ds suf udl => o_hex o && ((b == "b") || (b == "B")) && dig_seq is_binary ds
                         && in_strs suf (if neg then int_suffixes_signed else int_suffixes) && udl_ok udl
  end.
(* what may directly follow a numeric literal *)
Definition num_follow (d : ascii) : bool := negb (isdigit d || (d == "'") || (d == ".") || isalpha d || (d == "_")).

(* ------------------------------------------------------------------ string and character literals *)
(* body of a literal delimited by [q]: every q inside is preceded by an odd number of backslashes, and the body ends with
   an even number of backslashes ([nb] = number of consecutive backslashes just seen) *)
Fixpoint body_ok (q : ascii) (nb : nat) (s : str) : bool :=
  match s with
  | [] => Nat.even nb
  | c :: t => if c == "010" then false
              else if c == q then Nat.odd nb && body_ok q 0 t
              else if c == "\" then body_ok q (S nb) t
              else body_ok q 0 t
  end.

(* ------------------------------------------------------------------ the operator / separator table *)
(* (text, what may directly follow) *)
Definition any (_ : ascii) : bool := true.
Definition none_of (l : str) (d : ascii) : bool := negb (existsb (fun x => d == x) l).
Definition op_table (o : opts) : list (str * (ascii -> bool)) :=
  [ (["?"], any); ([";"], any); (["{"], any); (["}"], any); (["["], any); (["]"], any); (["("], any); ([")"], any);
    (["^"], any); ([","], any); (["`"], any); (["000"], any);
    (["<"], none_of ["<"; "="]); (["<"; "<"], any); (["<"; "="], any);
    ([">"], none_of [">"; "="]); ([">"; ">"], any); ([">"; "="], any);
    ([":"], none_of [":"]); ([":"; ":"], any);
    (["+"], fun d => none_of ["+"; "="; "."] d && negb (isdigit d)); (["+"; "+"], any); (["+"; "="], any);
    (["-"], fun d => none_of ["-"; "="; "."; ">"] d && negb (isdigit d)); (["-"; "-"], any); (["-"; "="], any);
    (["-"; ">"], if o_arrow o then none_of ["*"] else any) ]
  ++ (if o_arrow o then [(["-"; ">"; "*"], any)] else [])
  ++ [ (["/"], none_of ["/"; "*"; "="]); (["/"; "="], any);
       (["*"], none_of ["="]); (["*"; "="], any);
       (["%"], none_of ["="]); (["%"; "="], any);
       (["!"], none_of ["="]); (["!"; "="], any);
       (["="], none_of ["="]); (["="; "="], any);
       (["&"], none_of ["&"]); (["&"; "&"], any);
       (["."], fun d => none_of ["."; "*"] d && negb (isdigit d)); (["."; "."], any); (["."; "*"], any);
       (["|"], none_of ["|"; "="]); (["|"; "|"], any); (["|"; "="], any) ].
Fixpoint op_lookup (t : list (str * (ascii -> bool))) (s : str) : option (ascii -> bool) :=
  match t with [] => None | (x, f) :: r => if str_eq x s then Some f else op_lookup r s end.

(* ------------------------------------------------------------------ token specifications *)
Inductive tspec :=
| TWord (w : str)
| TOp (op : str)
| TNum (sign : option ascii) (n : numlit)
| TStr (body : str)                          (* "body" *)
| TChr (esc : bool) (c : ascii)              (* 'c' or '\c'  (charAsString off) *)
| TQStr (body : str)                         (* 'body'       (charAsString on: mtest) *)
| TCom (bang : nat) (sp body sp2 : str).     (* /* body */, /*! body */, /*!< body */ on one line *)

Definition bangs (n : nat) : str := match n with 0 => [] | 1 => ["!"] | _ => ["!"; "<"] end.
Definition com_flag (first : bool) (bang : nat) : flag :=
  match bang with 0 => Comment | 1 => if first then Comment else DoxygenComment | _ => if first then Comment else DoxygenBackwardComment end.
Definition sign_str (s : option ascii) : str := match s with Some c => [c] | None => [] end.
Definition text_of (t : tspec) : str :=
  match t with
  | TWord w => w
  | TOp op => op
  | TNum sg n => sign_str sg ++ render_num n
  | TStr b => """" :: b ++ [""""]
  | TChr esc c => "'" :: (if esc then ["\"; c] else [c]) ++ ["'"]
  | TQStr b => "'" :: b ++ ["'"]
  | TCom bang sp body sp2 => "/" :: "*" :: bangs bang ++ sp ++ body ++ sp2 ++ ["*"; "/"]
  end.
Definition flag_of (t : tspec) : flag :=
  match t with
  | TWord _ | TOp _ => Standard
  | TNum _ _ => Number
  | TStr _ | TQStr _ => String
  | TChr _ _ => Char
  | TCom _ _ _ _ => Comment
  end.
(* the value recorded: the source text; a number loses its digit separators; a comment is its body *)
Definition value_of (t : tspec) : str :=
  match t with
  | TNum _ _ => filter (fun c => negb (c == "'")) (text_of t)
  | TCom _ _ body _ => body
  | _ => text_of t
  end.
Definition last_nonblank (s : str) : bool := match rev s with [] => true | c :: _ => negb (isspace c) end.
Fixpoint no_close (s : str) : bool :=       (* no "*/" inside *)
  match s with c :: t => negb ((c == "*") && hd_is (fun d => d == "/") t) && no_close t | [] => true end.
Definition tok_ok (o : opts) (t : tspec) : bool :=
  match t with
  | TWord w => (match w with
                | c :: _ => negb (sep_or_space c) && negb (isdigit c) && negb (c == "#")
                | [] => false end) && forallb (fun d => negb (sep_or_space d)) w
  | TOp op => is_some (op_lookup (op_table o) op)
  | TNum sg n => (match sg with None => true | Some s => (s == "+") || (s == "-") end)
                 && num_ok o (match sg with Some s => s == "-" | None => false end) n
                 && no_nl (render_num n)
  | TStr b => body_ok """" 0 b
  | TChr esc c => negb (o_cas o) && negb (c == "010") && (esc || negb (c == "\"))
  | TQStr b => o_cas o && body_ok "'" 0 b
  | TCom bang sp body sp2 =>
      Nat.leb bang 2 && blanks sp && blanks sp2 && no_nl body && no_close (body ++ sp2)
      && (match body with
          | [] => (match sp2 with [] => true | _ => false end)
          | c :: _ => negb (isspace c) && last_nonblank body
                      && (match sp with
                          | [] => (match bang with 0 => negb (c == "!") | 1 => negb (c == "<") | _ => true end)
                          | _ => true end)
          end)
  end.
(* what may directly follow (no white space in between) *)
Definition follow_of (o : opts) (t : tspec) : ascii -> bool :=
  match t with
  | TWord w => fun d => sep_or_space d && negb (str_eq w ["R"] && (d == """"))
  | TOp op => match op_lookup (op_table o) op with Some f => f | None => any end
  | TNum _ _ => num_follow
  | _ => any
  end.
(* a signed number is a number only at the beginning of the line or after a separator or white space *)
Definition needs_sep_before (t : tspec) : bool := match t with TNum (Some _) _ => true | _ => false end.

(* ------------------------------------------------------------------ lines *)
Definition item := (str * tspec)%type.         (* white space before the element, the element *)
Inductive line_end :=
| EBlank (ws : str)                            (* trailing white space *)
| ECxx (pad : str) (bang : nat) (sp body : str).   (* // comment to the end of the line *)
Definition line := (list item * line_end)%type.

Definition render_end (e : line_end) : str :=
  match e with
  | EBlank ws => ws
  | ECxx pad bang sp body => pad ++ "/" :: "/" :: bangs bang ++ sp ++ body
  end.
Definition render_items (items : list item) : str := concat (map (fun it => fst it ++ text_of (snd it)) items).
Definition render_line (l : line) : str := render_items (fst l) ++ render_end (snd l).
Fixpoint render_lines (ls : list line) : str :=
  match ls with
  | [] => []
  | [l] => render_line l
  | l :: r => render_line l ++ "010" :: render_lines r
  end.

(* the token records expected for a line: [first] = no token before in the whole input *)
Definition tok_flag (first : bool) (t : tspec) : flag := match t with TCom bang _ _ _ => com_flag first bang | _ => flag_of t end.
Definition tok_pre (t : tspec) : nat := match t with TCom bang sp _ _ => 2 + length (bangs bang) + length sp | _ => 0 end.
Fixpoint toks_items (ln : nat) (first : bool) (off : nat) (items : list item) : list token :=
  match items with
  | [] => []
  | (pad, t) :: r =>
      mkTok (value_of t) ln (off + length pad + tok_pre t) [] (tok_flag first t)
      :: toks_items ln false (off + length pad + length (text_of t)) r
  end.
Definition toks_end (ln : nat) (first : bool) (off : nat) (e : line_end) : list token :=
  match e with
  | EBlank _ => []
  | ECxx pad bang sp body => [mkTok body ln (off + length pad + 2 + length (bangs bang) + length sp) [] (com_flag first bang)]
  end.
Definition no_items (items : list item) : bool := match items with [] => true | _ => false end.
Definition toks_line (ln : nat) (first : bool) (l : line) : list token :=
  toks_items ln first 0 (fst l)
  ++ toks_end ln (first && no_items (fst l)) (length (render_items (fst l))) (snd l).
Definition line_has_tokens (l : line) : bool :=
  negb (no_items (fst l)) || (match snd l with ECxx _ _ _ _ => true | EBlank _ => false end).
Fixpoint toks_lines (ln : nat) (first : bool) (ls : list line) : list token :=
  match ls with
  | [] => []
  | l :: r => toks_line ln first l ++ toks_lines (S ln) (first && negb (line_has_tokens l)) r
  end.

(* ------------------------------------------------------------------ side conditions *)
(* first character of what follows an element on its line *)
Definition end_ok (e : line_end) : bool :=
  match e with
  | EBlank ws => blanks ws
  | ECxx pad bang sp body =>
      blanks pad && Nat.leb bang 2 && blanks sp && no_nl body
      && (match body with
          | [] => true
          | c :: _ => negb (isspace c)
                      && (match sp with
                          | [] => (match bang with 0 => negb (c == "!") | 1 => negb (c == "<") | _ => true end)
                          | _ => true end)
          end)
  end.
Definition next_char (items : list item) (e : line_end) : option ascii :=
  match render_items items ++ render_end e with c :: _ => Some c | [] => None end.
Definition is_nil (s : str) : bool := match s with [] => true | _ => false end.
(* [prevc]: the character before the element's white space (None at the beginning of the line) *)
Fixpoint items_ok (o : opts) (prevc : option ascii) (items : list item) (e : line_end) : bool :=
  match items with
  | [] => true
  | (pad, t) :: r =>
      blanks pad && tok_ok o t
      (* separability: white space, or the next character may follow this element *)
      && (match next_char r e with None => true | Some d => follow_of o t d end)
      && (negb (needs_sep_before t) || negb (is_nil pad) || (match prevc with None => true | Some c => sep_or_space c end))
      && items_ok o (last_char (text_of t) None) r e
  end.
Definition line_ok (o : opts) (l : line) : bool := items_ok o None (fst l) (snd l) && end_ok (snd l).

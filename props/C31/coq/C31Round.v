(* C31 -- (4) round trip: every list of lines made of the lexical elements of C31Lang.v (identifiers, the whole operator
   table, numeric literals in the accepted forms, string / character literals with escapes, comments), laid out with any
   white space that keeps adjacent elements separable, is tokenized back into exactly these elements with their flags,
   line numbers and offsets. *)
From Coq Require Import Ascii List Bool Arith Lia NArith.
From C31 Require Import C31Model C31Spec C31Proofs C31Lang.
Import ListNotations.
Local Open Scope char_scope.

(* ------------------------------------------------------------------ white space *)
Lemma blank_char_space c : blank_char c = true -> isspace c = true.
Proof. unfold blank_char; intro H; apply andb_prop in H; tauto. Qed.
Lemma blank_char_nl c : blank_char c = true -> c <> "010".
Proof. unfold blank_char; intros H E; subst c; discriminate H. Qed.
Lemma count_space_blanks : forall pad c r, blanks pad = true -> isspace c = false -> count_space (pad ++ c :: r) = length pad.
Proof.
  unfold count_space; induction pad as [|a pad IH]; intros c r B H; simpl.
  - rewrite H; reflexivity.
  - simpl in B; apply andb_prop in B; destruct B as [B1 B2]. rewrite (blank_char_space _ B1); simpl; f_equal; auto.
Qed.
Lemma count_space_all : forall pad, blanks pad = true -> count_space pad = length pad.
Proof.
  unfold count_space; induction pad as [|a pad IH]; intros B; simpl; [ reflexivity | ].
  simpl in B; apply andb_prop in B; destruct B as [B1 B2]. rewrite (blank_char_space _ B1); simpl; f_equal; auto.
Qed.
Lemma skipn_app_len : forall (a b : str), skipn (length a) (a ++ b) = b.
Proof. induction a; simpl; auto. Qed.
Lemma firstn_app_len : forall (a b : str), firstn (length a) (a ++ b) = a.
Proof. induction a; simpl; intros; [ reflexivity | f_equal; auto ]. Qed.
Lemma blanks_no_nl : forall pad, blanks pad = true -> ~ In "010" pad.
Proof.
  induction pad as [|a pad IH]; simpl; intros B; [ tauto | ].
  apply andb_prop in B; destruct B as [B1 B2]. intros [E|I].
  - exact (blank_char_nl _ B1 E).
  - exact (IH B2 I).
Qed.
Lemma last_all : forall (P : ascii -> Prop) pad a, P a -> (forall x, In x pad -> P x) -> P (last pad a).
Proof.
  intros P; induction pad as [|b pad IH]; intros a Ha H; simpl; [ exact Ha | ].
  destruct pad as [|c pad']; [ apply H; left; reflexivity | ].
  apply IH; [ exact Ha | intros x I; apply H; right; exact I ].
Qed.
Lemma blanks_all : forall pad x, blanks pad = true -> In x pad -> isspace x = true.
Proof. intros pad x B I. unfold blanks in B. rewrite forallb_forall in B. apply blank_char_space, B, I. Qed.
Lemma last_char_blanks : forall pad d, blanks pad = true -> pad <> [] -> exists c, last_char pad d = Some c /\ isspace c = true.
Proof.
  intros pad d B N. destruct pad as [|a pad]; [ congruence | ]. clear N. simpl. exists (last pad a). split; [ reflexivity | ].
  apply (last_all (fun c => isspace c = true)).
  - apply (blanks_all (a :: pad)); [ exact B | left; reflexivity ].
  - intros x I. apply (blanks_all (a :: pad)); [ exact B | right; exact I ].
Qed.

(* ------------------------------------------------------------------ what "this text is scanned as one element" means *)
Definition scans_plain (o : opts) (text : str) (f : flag) (fol : ascii -> bool) (needp : bool) : Prop :=
  exists c body,
    text = c :: body /\ isspace c = false /\ (c == "#") = false /\ ~ In "010" text /\
    forall first prevc r, (needp = true -> psep prevc = true) -> hd_ok fol r = true ->
                          scan_token o first prevc c (body ++ r) = SPlain (length body) f.
Definition scans_com (o : opts) (bang : nat) (sp body sp2 : str) : Prop :=
  forall first prevc r,
    scan_token o first prevc "/" ("*" :: bangs bang ++ sp ++ body ++ sp2 ++ "*" :: "/" :: r)
    = SComment (length (bangs bang) + length sp) (length body) (length sp2 + 2) (com_flag first bang) false.

(* one iteration of the loop on a plain element *)
Lemma std_loop_step_plain : forall fuel cas ln first prevc o rest c tl k f,
    skipn (count_space rest) rest = c :: tl ->
    scan_token cas first (last_char (firstn (count_space rest) rest) prevc) c tl = SPlain k f ->
    std_loop (S fuel) cas ln first prevc o rest =
    match std_loop fuel cas ln false (last_char (c :: firstn k tl) None) (o + count_space rest + S k) (skipn k tl) with
    | Ok (ts, op) =>
      Ok (mkTok (match f with Number => filter_quote (c :: firstn k tl) | _ => c :: firstn k tl end)
                ln (o + count_space rest) [] f :: ts, op)
    | e => e
    end.
Proof. intros until f; intros E S; simpl; rewrite E, S; reflexivity. Qed.
Lemma std_loop_step_com : forall fuel cas ln first prevc o rest c tl extra len post f,
    skipn (count_space rest) rest = c :: tl ->
    scan_token cas first (last_char (firstn (count_space rest) rest) prevc) c tl = SComment extra len post f false ->
    std_loop (S fuel) cas ln first prevc o rest =
    match std_loop fuel cas ln false (last_char (firstn (2 + extra + len + post) (c :: tl)) None)
                   (o + count_space rest + (2 + extra + len + post)) (skipn (2 + extra + len + post) (c :: tl)) with
    | Ok (ts, op) => Ok (mkTok (firstn len (skipn (2 + extra) (c :: tl))) ln (o + count_space rest + (2 + extra)) [] f :: ts, op)
    | e => e
    end.
Proof. intros until f; intros E S; simpl; rewrite E, S; reflexivity. Qed.

(* ------------------------------------------------------------------ comment openers *)
Lemma comment_kind_bangs : forall first bang u,
    bang <= 2 ->
    (bang = 0 -> hd_is (fun d => d == "!") u = false) ->
    (bang = 1 -> hd_is (fun d => d == "<") u = false) ->
    comment_kind first (bangs bang ++ u) = (length (bangs bang), com_flag first bang).
Proof.
  intros first bang u L H0 H1. destruct bang as [|[|[|b]]]; try lia; simpl.
  - specialize (H0 eq_refl). unfold comment_kind. destruct u as [|c t]; [ reflexivity | ]. simpl in H0. rewrite H0. reflexivity.
  - specialize (H1 eq_refl). rewrite H1. reflexivity.
  - reflexivity.
Qed.
(* the side condition of C31Lang on the first character after the opener *)
Definition opener_ok (bang : nat) (sp body : str) : bool :=
  match body with
  | [] => true
  | c :: _ => negb (isspace c)
              && (match sp with
                  | [] => (match bang with 0 => negb (c == "!") | 1 => negb (c == "<") | _ => true end)
                  | _ => true end)
  end.
Lemma hd_is_blank_false : forall (p : ascii -> bool) sp x, blanks sp = true -> sp <> [] ->
    (forall c, isspace c = true -> p c = false) -> hd_is p (sp ++ x) = false.
Proof.
  intros p sp x B N H. destruct sp as [|a sp]; [ congruence | ]. simpl. apply H.
  simpl in B. apply andb_prop in B. destruct B as [B1 _]. exact (blank_char_space _ B1).
Qed.
Lemma space_not_bang : forall c, isspace c = true -> (c == "!") = false.
Proof. intros c H; all_chars c; vm_compute in H; try discriminate H; reflexivity. Qed.
Lemma space_not_lt : forall c, isspace c = true -> (c == "<") = false.
Proof. intros c H; all_chars c; vm_compute in H; try discriminate H; reflexivity. Qed.
(* [x] is what follows the body: empty, or text whose first character is neither '!' nor '<' when the body is empty *)
Lemma opener_kind : forall first bang sp body x,
    bang <= 2 -> blanks sp = true -> opener_ok bang sp body = true ->
    (body = [] -> hd_is (fun d => (d == "!") || (d == "<")) x = false) ->
    comment_kind first (bangs bang ++ sp ++ body ++ x) = (length (bangs bang), com_flag first bang).
Proof.
  intros first bang sp body x L B O X. apply comment_kind_bangs; [ exact L | | ].
  - intros ->. destruct sp as [|a sp].
    + destruct body as [|c body]; simpl in *.
      * specialize (X eq_refl). destruct x as [|d x]; [ reflexivity | ]. simpl in *. apply orb_false_iff in X; tauto.
      * apply andb_prop in O. destruct O as [_ O]. apply negb_true_iff in O. exact O.
    + apply hd_is_blank_false; [ exact B | discriminate | exact space_not_bang ].
  - intros ->. destruct sp as [|a sp].
    + destruct body as [|c body]; simpl in *.
      * specialize (X eq_refl). destruct x as [|d x]; [ reflexivity | ]. simpl in *. apply orb_false_iff in X; tauto.
      * apply andb_prop in O. destruct O as [_ O]. apply negb_true_iff in O. exact O.
    + apply hd_is_blank_false; [ exact B | discriminate | exact space_not_lt ].
Qed.
Lemma count_space_sp_body : forall sp body x,
    blanks sp = true -> opener_ok 2 sp body = true -> (body = [] -> hd_is isspace x = false) ->
    count_space (sp ++ body ++ x) = length sp.
Proof.
  intros sp body x B O X. destruct body as [|c body].
  - simpl. destruct x as [|d x].
    + rewrite app_nil_r. apply count_space_all. exact B.
    + apply count_space_blanks; [ exact B | ]. specialize (X eq_refl). exact X.
  - simpl. apply count_space_blanks; [ exact B | ]. simpl in O. apply andb_prop in O. destruct O as [O _].
    apply negb_true_iff in O. exact O.
Qed.
Lemma opener_ok_weaken : forall bang sp body, opener_ok bang sp body = true -> opener_ok 2 sp body = true.
Proof.
  intros bang sp body H. destruct body as [|c body]; [ reflexivity | ]. simpl in *.
  apply andb_prop in H. destruct H as [H _]. rewrite H. destruct sp; reflexivity.
Qed.
Lemma length_bangs : forall bang, bang <= 2 -> length (bangs bang) = bang.
Proof. intros [|[|[|b]]] L; try lia; reflexivity. Qed.

(* ------------------------------------------------------------------ the end of a line *)
Lemma end_ok_cxx : forall pad bang sp body,
    end_ok (ECxx pad bang sp body) = true ->
    blanks pad = true /\ bang <= 2 /\ blanks sp = true /\ no_nl body = true /\ opener_ok bang sp body = true.
Proof.
  intros pad bang sp body H. simpl in H. repeat (apply andb_prop in H; destruct H as [H ?]).
  repeat split; auto. apply Nat.leb_le; assumption.
Qed.
Lemma std_loop_end : forall o e fuel ln first prevc off,
    end_ok e = true -> length (render_end e) < fuel ->
    std_loop fuel o ln first prevc off (render_end e) = Ok (toks_end ln first off e, false).
Proof.
  intros o e fuel ln first prevc off E L. destruct fuel as [|fuel]; [ lia | ].
  destruct e as [ws|pad bang sp body].
  - simpl in *. rewrite count_space_all by exact E. rewrite skipn_all. reflexivity.
  - destruct (end_ok_cxx _ _ _ _ E) as (Bp & Lb & Bs & Nb & O). cbn [render_end] in *.
    assert (Cs : count_space (pad ++ "/" :: "/" :: bangs bang ++ sp ++ body) = length pad)
      by (apply count_space_blanks; [ exact Bp | reflexivity ]).
    assert (K : scan_token o first (last_char (firstn (length pad) (pad ++ "/" :: "/" :: bangs bang ++ sp ++ body)) prevc)
                           "/" ("/" :: bangs bang ++ sp ++ body)
                = SComment (length (bangs bang) + length sp) (length body) 0 (com_flag first bang) false).
    { unfold scan_token. cbn [Ascii.eqb Bool.eqb andb orb isdigit in_range code N_of_ascii N.leb]. simpl.
      unfold scan_cxx_comment.
      replace (bangs bang ++ sp ++ body) with (bangs bang ++ sp ++ body ++ []) by (now rewrite app_nil_r).
      rewrite (opener_kind first bang sp body [] Lb Bs O (fun _ => eq_refl)).
      rewrite skipn_app_len.
      rewrite (count_space_sp_body sp body [] Bs (opener_ok_weaken _ _ _ O) (fun _ => eq_refl)).
      rewrite !app_length. simpl. f_equal; lia. }
    erewrite std_loop_step_com; [ | rewrite Cs; apply skipn_app_len | rewrite Cs; exact K ].
    rewrite Cs.
    assert (Len : 2 + (length (bangs bang) + length sp) + length body + 0 = length ("/" :: "/" :: bangs bang ++ sp ++ body))
      by (simpl; rewrite !app_length; lia).
    rewrite Len, skipn_all.
    destruct fuel as [|fuel]; [ rewrite app_length in L; simpl in L; lia | ].
    cbn [std_loop count_space take_while length skipn toks_end].
    change ("/" :: "/" :: bangs bang ++ sp ++ body) with (["/"; "/"] ++ bangs bang ++ sp ++ body).
    rewrite !app_assoc. replace (2 + (length (bangs bang) + length sp)) with (length ((["/"; "/"] ++ bangs bang) ++ sp))
      by (rewrite !app_length; simpl; lia).
    rewrite skipn_app_len, firstn_all. rewrite !app_length. simpl length.
    replace (off + length pad + (2 + length (bangs bang) + length sp)) with (off + length pad + 2 + length (bangs bang) + length sp) by lia.
    reflexivity.
Qed.

(* ------------------------------------------------------------------ the loop over the elements of a line *)
Definition spec_scans (o : opts) (t : tspec) : Prop :=
  match t with
  | TCom bang sp body sp2 => scans_com o bang sp body sp2 /\ bang <= 2 /\ no_nl (sp ++ body ++ sp2) = true
  | _ => scans_plain o (text_of t) (flag_of t) (follow_of o t) (needs_sep_before t)
  end.

Lemma render_items_cons : forall pad t r, render_items ((pad, t) :: r) = pad ++ text_of t ++ render_items r.
Proof. intros; unfold render_items; simpl; rewrite <- app_assoc; reflexivity. Qed.
Lemma psep_of_pad : forall pad prevc, blanks pad = true -> pad <> [] -> psep (last_char pad prevc) = true.
Proof.
  intros pad prevc B N. destruct (last_char_blanks pad prevc B N) as (c & -> & S). simpl. unfold sep_or_space. rewrite S. reflexivity.
Qed.

Lemma loop_plain_step : forall o text f fol needp pad rest fuel ln first prevc off ts op,
    scans_plain o text f fol needp -> blanks pad = true ->
    (needp = true -> pad = [] -> psep prevc = true) ->
    hd_ok fol rest = true ->
    std_loop fuel o ln false (last_char text None) (off + length pad + length text) rest = Ok (ts, op) ->
    std_loop (S fuel) o ln first prevc off (pad ++ text ++ rest)
    = Ok (mkTok (match f with Number => filter_quote text | _ => text end) ln (off + length pad) [] f :: ts, op).
Proof.
  intros o text f fol needp pad rest fuel ln first prevc off ts op (c & body & Ht & Hs & Hh & Hn & Hscan) Bp Ps Fol Cont.
  subst text. cbn [app] in *.
  assert (Cs : count_space (pad ++ c :: body ++ rest) = length pad) by (apply count_space_blanks; assumption).
  erewrite std_loop_step_plain;
    [ | rewrite Cs; apply skipn_app_len
      | rewrite Cs, firstn_app_len; apply Hscan;
        [ intros Np; destruct pad as [|p0 pad']; [ apply Ps; auto | apply psep_of_pad; [ exact Bp | discriminate ] ]
        | exact Fol ] ].
  rewrite Cs, skipn_app_len, firstn_app_len.
  replace (off + length pad + S (length body)) with (off + length pad + length (c :: body)) by (simpl; lia).
  rewrite Cont. reflexivity.
Qed.
Lemma loop_com_step : forall o bang sp body sp2 pad rest fuel ln first prevc off ts op,
    scans_com o bang sp body sp2 -> blanks pad = true ->
    let text := text_of (TCom bang sp body sp2) in
    std_loop fuel o ln false (last_char text None) (off + length pad + length text) rest = Ok (ts, op) ->
    std_loop (S fuel) o ln first prevc off (pad ++ text ++ rest)
    = Ok (mkTok body ln (off + length pad + (2 + length (bangs bang) + length sp)) [] (com_flag first bang) :: ts, op).
Proof.
  intros o bang sp body sp2 pad rest fuel ln first prevc off ts op Hscan Bp text Cont.
  assert (Tx : text ++ rest = "/" :: "*" :: bangs bang ++ sp ++ body ++ sp2 ++ "*" :: "/" :: rest).
  { unfold text; cbn [text_of app]. rewrite <- !app_assoc. reflexivity. }
  rewrite Tx.
  assert (Cs : count_space (pad ++ "/" :: "*" :: bangs bang ++ sp ++ body ++ sp2 ++ "*" :: "/" :: rest) = length pad)
    by (apply count_space_blanks; [ exact Bp | reflexivity ]).
  erewrite std_loop_step_com; [ | rewrite Cs; apply skipn_app_len | rewrite Cs; apply Hscan ].
  rewrite Cs.
  assert (Len : 2 + (length (bangs bang) + length sp) + length body + (length sp2 + 2) = length text)
    by (unfold text; cbn [text_of length]; rewrite !app_length; cbn [length]; lia).
  rewrite Len, <- Tx, skipn_app_len, firstn_app_len.
  replace (off + length pad + length text) with (off + length pad + length text) in Cont by reflexivity.
  rewrite Cont.
  rewrite Tx. change ("/" :: "*" :: bangs bang ++ sp ++ body ++ sp2 ++ "*" :: "/" :: rest)
    with (["/"; "*"] ++ bangs bang ++ sp ++ body ++ sp2 ++ "*" :: "/" :: rest).
  rewrite !app_assoc. rewrite <- (app_assoc _ sp2). rewrite <- (app_assoc _ body).
  replace (2 + (length (bangs bang) + length sp)) with (length ((["/"; "*"] ++ bangs bang) ++ sp)) by (rewrite !app_length; simpl; lia).
  rewrite skipn_app_len, firstn_app_len. rewrite !app_length. cbn [length].
  replace (off + length pad + (2 + length (bangs bang) + length sp)) with (off + length pad + (2 + length (bangs bang) + length sp)) by lia.
  reflexivity.
Qed.

Definition is_nil_tok (l : list token) : bool := match l with [] => true | _ => false end.

Section Loop.
Variable o : opts.
Hypothesis all_scan : forall t, tok_ok o t = true -> spec_scans o t.

Lemma value_of_plain : forall t, (match t with TCom _ _ _ _ => False | _ => True end) ->
    value_of t = match flag_of t with Number => filter_quote (text_of t) | _ => text_of t end.
Proof. intros [ | | | | | | ]; simpl; intros; try contradiction; reflexivity. Qed.

Lemma loop_items : forall items e ln fuel first prevc off,
    items_ok o prevc items e = true -> end_ok e = true ->
    length (render_items items ++ render_end e) < fuel ->
    std_loop fuel o ln first prevc off (render_items items ++ render_end e)
    = Ok (toks_items ln first off items
          ++ toks_end ln (first && no_items items) (off + length (render_items items)) e, false).
Proof.
  induction items as [|[pad t] items IH]; intros e ln fuel first prevc off I E L.
  - simpl. rewrite andb_true_r, Nat.add_0_r. apply std_loop_end; assumption.
  - cbn [items_ok] in I. repeat (apply andb_prop in I; destruct I as [I ?]).
    rename I into Bp. rename H into Irest. rename H0 into Psep. rename H1 into Fol. rename H2 into Tok.
    rewrite render_items_cons in *. rewrite <- !app_assoc in *.
    set (rest := render_items items ++ render_end e) in *.
    destruct fuel as [|fuel]; [ lia | ].
    pose proof (all_scan t Tok) as S.
    assert (Nt : 1 <= length (text_of t)).
    { destruct t; try (destruct S as (cc0 & bb0 & Ht & _); rewrite Ht; simpl; lia). simpl; lia. }
    assert (Lr : length rest < fuel) by (rewrite !app_length in L; lia).
    pose proof (IH e ln fuel false (last_char (text_of t) None) (off + length pad + length (text_of t)) Irest E Lr) as Cont.
    assert (Goal2 : forall tk,
               tk = mkTok (value_of t) ln (off + length pad + tok_pre t) [] (tok_flag first t) ->
               Ok (tk :: toks_items ln false (off + length pad + length (text_of t)) items ++
                      toks_end ln (false && no_items items) (off + length pad + length (text_of t) + length (render_items items)) e, false)
               = Ok (toks_items ln first off ((pad, t) :: items) ++
                     toks_end ln (first && no_items ((pad, t) :: items)) (off + length (pad ++ text_of t ++ render_items items)) e, false)).
    { intros tk ->. cbn [toks_items no_items]. rewrite !andb_false_r. rewrite !app_length.
      replace (off + (length pad + (length (text_of t) + length (render_items items))))
        with (off + length pad + length (text_of t) + length (render_items items)) by lia. reflexivity. }
    destruct t as [w|op|sg n|b|esc ch|b|bang sp body sp2].
    7:{ (* comment *)
      destruct S as (Sc & Lb & Nn).
      erewrite loop_com_step; [ | exact Sc | exact Bp | exact Cont ].
      apply Goal2. reflexivity. }
    all: erewrite loop_plain_step;
      [ apply Goal2; rewrite value_of_plain by exact I; cbn [tok_pre tok_flag]; rewrite Nat.add_0_r; reflexivity
      | exact S | exact Bp
      | intros Np ->; rewrite Np in Psep; cbn [negb orb is_nil] in Psep; destruct prevc; exact Psep
      | unfold next_char in Fol; fold rest in Fol; destruct rest; [ reflexivity | exact Fol ]
      | exact Cont ].
Qed.

(* a whole line, read with no comment open *)
Lemma no_nl_In : forall s, no_nl s = true -> ~ In "010" s.
Proof.
  unfold no_nl. intros s H I. rewrite forallb_forall in H. apply H in I. discriminate I.
Qed.
Lemma items_no_nl : forall items prevc e, items_ok o prevc items e = true -> ~ In "010" (render_items items).
Proof.
  induction items as [|[pad t] items IH]; intros prevc e I; [ simpl; tauto | ].
  cbn [items_ok] in I. repeat (apply andb_prop in I; destruct I as [I ?]).
  rewrite render_items_cons. intros K. apply in_app_or in K. destruct K as [K|K]; [ exact (blanks_no_nl _ I K) | ].
  apply in_app_or in K. destruct K as [K|K]; [ | exact (IH _ _ H K) ].
  pose proof (all_scan t H2) as S. destruct t; try (destruct S as (cc0 & bb0 & _ & _ & _ & Hn & _); exact (Hn K)).
  destruct S as (_ & _ & Nn). cbn [text_of] in K. destruct K as [K|[K|K]]; try discriminate K.
  apply in_app_or in K. destruct K as [K|K]; [ destruct bang as [|[|b]]; simpl in K; intuition discriminate | ].
  rewrite !app_assoc in K. apply in_app_or in K. destruct K as [K|K].
  - rewrite <- app_assoc in K. exact (no_nl_In _ Nn K).
  - simpl in K; intuition discriminate.
Qed.
Lemma end_no_nl : forall e, end_ok e = true -> ~ In "010" (render_end e).
Proof.
  intros [ws|pad bang sp body] E; cbn [render_end].
  - exact (blanks_no_nl _ E).
  - destruct (end_ok_cxx _ _ _ _ E) as (Bp & Lb & Bs & Nb & O). intros K.
    apply in_app_or in K. destruct K as [K|K]; [ exact (blanks_no_nl _ Bp K) | ].
    destruct K as [K|[K|K]]; try discriminate K.
    apply in_app_or in K. destruct K as [K|K]; [ destruct bang as [|[|b]]; simpl in K; intuition discriminate | ].
    apply in_app_or in K. destruct K as [K|K]; [ exact (blanks_no_nl _ Bs K) | exact (no_nl_In _ Nb K) ].
Qed.
Lemma line_no_nl : forall l, line_ok o l = true -> ~ In "010" (render_line l).
Proof.
  intros [items e] H. unfold line_ok in H. apply andb_prop in H. destruct H as [I E]. unfold render_line. cbn [fst snd] in *.
  intros K. apply in_app_or in K. destruct K as [K|K]; [ exact (items_no_nl _ _ _ I K) | exact (end_no_nl _ E K) ].
Qed.

Lemma line_body_round : forall l ln first,
    line_ok o l = true ->
    line_body o ln first None 0 (render_line l) = Ok (toks_line ln first l, false).
Proof.
  intros [items e] ln first H. unfold line_ok in H. apply andb_prop in H. destruct H as [I E].
  unfold render_line, toks_line. cbn [fst snd] in *.
  assert (Std : std_loop (S (length (render_items items ++ render_end e))) o ln first None 0 (render_items items ++ render_end e)
                = Ok (toks_items ln first 0 items ++ toks_end ln (first && no_items items) (length (render_items items)) e, false)).
  { rewrite (loop_items items e ln _ first None 0 I E) by lia. reflexivity. }
  unfold line_body.
  destruct (skipn (count_space (render_items items ++ render_end e)) (render_items items ++ render_end e)) as [|c tl] eqn:Sk;
    [ exact Std | ].
  assert (Hc : (c == "#") = false); [ | rewrite Hc; exact Std ].
  destruct items as [|[pad t] items].
  - cbn [render_items concat map app] in Sk. destruct e as [ws|pad bang sp body]; cbn [render_end] in Sk.
    + rewrite count_space_all, skipn_all in Sk by exact E. discriminate Sk.
    + destruct (end_ok_cxx _ _ _ _ E) as (Bp & _).
      rewrite count_space_blanks, skipn_app_len in Sk by (exact Bp || reflexivity). inversion Sk. reflexivity.
  - cbn [items_ok] in I. repeat (apply andb_prop in I; destruct I as [I ?]).
    rewrite render_items_cons, <- !app_assoc in Sk.
    pose proof (all_scan t H2) as S. destruct t;
      try (destruct S as (cc0 & bb0 & Ht & Hs & Hh & _); rewrite Ht in Sk; cbn [app] in Sk;
           rewrite count_space_blanks, skipn_app_len in Sk by assumption; inversion Sk; subst; exact Hh).
    cbn [text_of app] in Sk. rewrite count_space_blanks, skipn_app_len in Sk by (exact I || reflexivity). inversion Sk. reflexivity.
Qed.

Lemma split_line_round : forall l ln acc,
    line_ok o l = true ->
    split_line o ln (acc, false) (render_line l) = Ok (rev_append (toks_line ln (is_nil_tok acc) l) acc, false).
Proof.
  intros l ln acc H. unfold split_line.
  replace (match acc with [] => true | _ :: _ => false end) with (is_nil_tok acc) by (destruct acc; reflexivity).
  rewrite line_body_round by exact H. reflexivity.
Qed.

(* several lines *)
Lemma split_nl_line : forall l acc rest, ~ In "010" l -> split_nl acc (l ++ "010" :: rest) = (rev acc ++ l) :: split_nl [] rest.
Proof.
  induction l as [|c l IH]; intros acc rest N; simpl.
  - rewrite app_nil_r. reflexivity.
  - destruct (c == "010") eqn:E; [ apply eqb_true in E; subst; exfalso; apply N; left; reflexivity | ].
    rewrite IH by (intro K; apply N; right; exact K). simpl. rewrite <- app_assoc. reflexivity.
Qed.
Lemma split_nl_render : forall ls, ls <> [] -> Forall (fun l => line_ok o l = true) ls ->
    split_nl [] (render_lines ls) = map render_line ls.
Proof.
  induction ls as [|l ls IH]; intros N F; [ congruence | ]. inversion F as [|? ? F1 F2]; subst.
  destruct ls as [|l2 ls].
  - cbn [render_lines map]. rewrite split_nl_no_newline by (apply line_no_nl; exact F1). reflexivity.
  - change (render_lines (l :: l2 :: ls)) with (render_line l ++ "010" :: render_lines (l2 :: ls)).
    rewrite split_nl_line by (apply line_no_nl; exact F1). cbn [map rev app]. f_equal. apply IH; [ discriminate | exact F2 ].
Qed.
Lemma toks_line_nil : forall ln first l, is_nil_tok (toks_line ln first l) = negb (line_has_tokens l).
Proof.
  intros ln first [items e]. unfold toks_line, line_has_tokens. cbn [fst snd].
  destruct items as [|[pad t] items]; [ | reflexivity ]. destruct e; reflexivity.
Qed.
Lemma is_nil_rev_append : forall ts acc, is_nil_tok (rev_append ts acc) = is_nil_tok acc && is_nil_tok ts.
Proof.
  intros ts acc. rewrite rev_append_rev. destruct ts as [|t ts]; [ simpl; rewrite andb_true_r; reflexivity | ].
  simpl. rewrite andb_false_r. destruct (rev ts); reflexivity.
Qed.
Lemma lex_lines_round : forall ls ln acc,
    Forall (fun l => line_ok o l = true) ls ->
    lex_lines o ln (acc, false) (map render_line ls) = Ok (rev acc ++ toks_lines ln (is_nil_tok acc) ls).
Proof.
  induction ls as [|l ls IH]; intros ln acc F.
  - simpl. rewrite app_nil_r. reflexivity.
  - inversion F as [|? ? F1 F2]; subst. cbn [map lex_lines]. rewrite split_line_round by exact F1.
    rewrite IH by exact F2. rewrite is_nil_rev_append, toks_line_nil.
    rewrite rev_append_rev, rev_app_distr, rev_involutive. cbn [toks_lines]. rewrite <- app_assoc. reflexivity.
Qed.
Theorem lex_round : forall ls,
    Forall (fun l => line_ok o l = true) ls -> lex o (render_lines ls) = Ok (toks_lines 1 true ls).
Proof.
  intros ls F. unfold lex. destruct ls as [|l ls]; [ reflexivity | ].
  rewrite split_nl_render by (discriminate || exact F). apply (lex_lines_round (l :: ls) 1 [] F).
Qed.
End Loop.

(* C31 -- (4) partial round trip: a list of tokens of simple classes, rendered on one line with an arbitrary positive
   number of blanks before each token and one after the last, is tokenized back into exactly these tokens at the
   offsets of the rendering.  Generic in the class of tokens ([scans_as]); instantiated for words, single-character
   separators, unsigned decimal integers and plain string literals. *)
From Coq Require Import Ascii List Bool Arith Lia NArith.
From C31 Require Import C31Model C31Spec C31Proofs.
Import ListNotations.
Local Open Scope char_scope.

Record item := mkItem { ipad : nat; itext : str; iflag : flag }.

Definition piece (it : item) : str := repeat " " (S (ipad it)) ++ itext it.
Definition render (items : list item) : str := concat (map piece items) ++ [" "].

Fixpoint toks_at (ln o : nat) (items : list item) : list token :=
  match items with
  | [] => []
  | it :: r => mkTok (itext it) ln (o + S (ipad it)) [] (iflag it)
                     :: toks_at ln (o + S (ipad it) + length (itext it)) r
  end.

(* the text, followed by a blank, is scanned as one token of flag f, whatever the context *)
Definition scans_as (text : str) (f : flag) : Prop :=
  exists c body,
    text = c :: body /\ isspace c = false /\ (c == "#") = false /\ ~ In "010" text /\
    match f with Number => filter_quote text = text | _ => True end /\
    forall cas first prevc r, scan_token cas first prevc c (body ++ " " :: r) = SPlain (length body) f.

Definition valid (it : item) : Prop := scans_as (itext it) (iflag it).

(* ------------------------------------------------------------------ list facts *)
Lemma count_space_repeat : forall k c r, isspace c = false -> count_space (repeat " " k ++ c :: r) = k.
Proof.
  unfold count_space; induction k as [|k IH]; intros c r H; simpl.
  - rewrite H; reflexivity.
  - change (isspace " ") with true; simpl; f_equal; apply IH; exact H.
Qed.

Lemma skipn_repeat : forall k (l : str), skipn k (repeat " " k ++ l) = l.
Proof. induction k; simpl; auto. Qed.

Lemma firstn_repeat : forall k (l : str), firstn k (repeat " " k ++ l) = repeat " " k.
Proof. induction k; simpl; intros; [ reflexivity | f_equal; auto ]. Qed.

Lemma firstn_app_exact : forall (a b : str), firstn (length a) (a ++ b) = a.
Proof. induction a; simpl; intros; [ reflexivity | f_equal; auto ]. Qed.

Lemma skipn_app_exact : forall (a b : str), skipn (length a) (a ++ b) = b.
Proof. induction a; simpl; auto. Qed.

Lemma tail_space : forall items, exists r, concat (map piece items) ++ [" "] = " " :: r.
Proof. intros [|it r]; simpl; eauto. Qed.

Lemma last_char_repeat : forall k d, last_char (repeat " " (S k)) d = Some " ".
Proof.
  intros k d; simpl; f_equal. induction k as [|k IH]; simpl; [ reflexivity | ].
  destruct k; simpl in *; auto.
Qed.

(* ------------------------------------------------------------------ one iteration of the loop *)
Lemma std_loop_step_plain : forall fuel cas ln first prevc o rest c tl k f,
    skipn (count_space rest) rest = c :: tl ->
    scan_token cas first (last_char (firstn (count_space rest) rest) prevc) c tl = SPlain k f ->
    std_loop (S fuel) cas ln first prevc o rest =
    match std_loop fuel cas ln false (last_char (c :: firstn k tl) None) (o + count_space rest + S k) (skipn k tl) with
    | Ok (ts, op) =>
      Ok (mkTok (match f with Number => filter_quote (c :: firstn k tl) | _ => c :: firstn k tl end)
                ln (o + count_space rest) [] f :: ts, op)
    | e => e
    end.
Proof. intros until f; intros E S; simpl; rewrite E, S; reflexivity. Qed.

Lemma loop_round_trip : forall cas ln items fuel first prevc o,
    Forall valid items ->
    length (render items) < fuel ->
    std_loop fuel cas ln first prevc o (render items) = Ok (toks_at ln o items, false).
Proof.
  intros cas ln; induction items as [|it items IH]; intros fuel first prevc o V L.
  - destruct fuel; [ simpl in L; lia | reflexivity ].
  - inversion V as [|? ? Vi Vr]; subst.
    destruct Vi as (c & body & Ht & Hs & Hh & Hn & Hq & Hscan).
    destruct (tail_space items) as (r & Hr).
    assert (R : render (it :: items) = repeat " " (S (ipad it)) ++ c :: body ++ " " :: r).
    { unfold render; cbn [map concat]; unfold piece at 1; rewrite Ht, <- !app_assoc, Hr; reflexivity. }
    assert (Cs : count_space (render (it :: items)) = S (ipad it)) by (rewrite R; apply count_space_repeat; exact Hs).
    destruct fuel as [|fuel]; [ lia | ].
    rewrite (std_loop_step_plain fuel cas ln first prevc o _ c (body ++ " " :: r) (length body) (iflag it)).
    + rewrite Cs, skipn_app_exact, firstn_app_exact.
      assert (E : " " :: r = render items) by (unfold render; rewrite Hr; reflexivity).
      rewrite E, IH.
      * simpl toks_at. rewrite <- Ht.
        replace (o + S (ipad it) + S (length body)) with (o + S (ipad it) + length (itext it))
          by (rewrite Ht; simpl; lia).
        destruct (iflag it); rewrite ?Hq; reflexivity.
      * exact Vr.
      * rewrite <- E. rewrite R in L. rewrite app_length, repeat_length in L. simpl length in L.
        rewrite app_length in L. simpl length in *. lia.
    + rewrite Cs, R; apply skipn_repeat.
    + rewrite Cs, R; apply Hscan.
Qed.

Lemma render_no_newline : forall items, Forall valid items -> ~ In "010" (render items).
Proof.
  unfold render; induction items as [|it items IH]; intros V K.
  - simpl in K; destruct K as [K|[]]; discriminate K.
  - inversion V as [|? ? Vi Vr]; subst. cbn [map concat] in K.
    destruct Vi as (c & body & Ht & Hs & Hh & Hn & _).
    rewrite <- app_assoc in K. apply in_app_or in K; destruct K as [K|K]; [ | exact (IH Vr K) ].
    unfold piece in K. apply in_app_or in K; destruct K as [K|K]; [ | exact (Hn K) ].
    apply repeat_spec in K; discriminate K.
Qed.

(* lex (render items) = the tokens of the rendering *)
Lemma lex_round_trip : forall cas items,
    Forall valid items -> lex cas (render items) = Ok (toks_at 1 0 items).
Proof.
  intros cas items V; unfold lex.
  rewrite split_nl_no_newline by (apply render_no_newline; exact V).
  change (rev [] ++ render items) with (render items). cbn [lex_lines split_line].
  assert (B : line_body cas 1 true None 0 (render items) = Ok (toks_at 1 0 items, false)).
  { unfold line_body.
    destruct items as [|it items'].
    - reflexivity.
    - inversion V as [|? ? Vi Vr]; subst.
      destruct Vi as (c & body & Ht & Hs & Hh & Hn & Hq & Hscan).
      assert (R : exists r, render (it :: items') = repeat " " (S (ipad it)) ++ c :: r).
      { unfold render; cbn [map concat]; unfold piece at 1; rewrite Ht, <- !app_assoc; simpl; eauto. }
      destruct R as (r & R).
      rewrite R at 1 2. rewrite count_space_repeat by exact Hs. rewrite skipn_repeat, Hh.
      apply loop_round_trip; [ exact V | lia ]. }
  rewrite B. cbn [lex_lines fst]. rewrite rev_append_rev, app_nil_r, rev_involutive. reflexivity.
Qed.

(* ------------------------------------------------------------------ classes of simple tokens *)
Definition word_start (c : ascii) : bool := (isalpha c || (c == "_")) && negb (c == "R").
Definition word_char (d : ascii) : bool := negb (sep_or_space d).

Lemma take_while_app_stop : forall body r,
    forallb word_char body = true -> take_while (fun d => negb (sep_or_space d)) (body ++ " " :: r) = body.
Proof.
  induction body as [|d body IH]; intros r H; simpl in *; [ reflexivity | ].
  apply andb_prop in H; destruct H as [H1 H2]; unfold word_char in H1; rewrite H1; f_equal; apply IH; exact H2.
Qed.

Lemma word_char_not_nl : forall d, word_char d = true -> d <> "010".
Proof. intros d H E; subst d; discriminate H. Qed.

Lemma word_scans : forall c body,
    word_start c = true -> forallb word_char body = true -> scans_as (c :: body) Standard.
Proof.
  intros c body Hc Hb; exists c, body.
  assert (A : isspace c = false /\ (c == "#") = false /\ c <> "010" /\
              forall cas first prevc tl, scan_token cas first prevc c tl =
                                         SPlain (length (take_while (fun d => negb (sep_or_space d)) tl)) Standard).
  { clear Hb; all_chars c; vm_compute in Hc; try discriminate Hc; repeat split; try discriminate. }
  destruct A as (A1 & A2 & A3 & A4).
  repeat split; auto.
  - intros [K|K]; [ exact (A3 K) | ].
    rewrite forallb_forall in Hb. apply Hb in K. discriminate K.
  - intros; rewrite A4, take_while_app_stop by exact Hb; reflexivity.
Qed.

Definition single_seps : str := [";"; ","; "("; ")"; "{"; "}"; "["; "]"; "?"; "^"].

Lemma sep_scans : forall c, In c single_seps -> scans_as [c] Standard.
Proof.
  intros c H; exists c, []; simpl in H.
  repeat (destruct H as [H|H]; [ subst c; repeat split; try discriminate; try (intros [K|[]]; discriminate K) | ]);
    contradiction.
Qed.

(* unsigned decimal integers *)
Lemma digits_q_all : forall ds r, forallb isdigit ds = true -> digits_q (ds ++ " " :: r) = Some (" " :: r).
Proof.
  induction ds as [|d ds IH]; intros r H; simpl in *; [ reflexivity | ].
  apply andb_prop in H; destruct H as [H1 H2]; rewrite H1; apply IH; exact H2.
Qed.

Lemma digit_facts : forall d, isdigit d = true ->
    isspace d = false /\ (d == "#") = false /\ (d == "\") = false /\ (d == "-") = false /\ (d == "+") = false /\
    (d == ".") = false /\ (d == "b") = false /\ (d == "x") = false /\ (d == "'") = false /\ d <> "010".
Proof. intros d H; all_chars d; vm_compute in H; try discriminate H; repeat split; discriminate. Qed.

Lemma filter_quote_digits : forall ds, forallb isdigit ds = true -> filter_quote ds = ds.
Proof.
  induction ds as [|d ds IH]; intro H; simpl in *; [ reflexivity | ].
  apply andb_prop in H; destruct H as [H1 H2].
  destruct (digit_facts d H1) as (_ & _ & _ & _ & _ & _ & _ & _ & Q & _); rewrite Q; simpl; f_equal; apply IH; exact H2.
Qed.

Lemma num_rest_digits : forall ds r, forallb isdigit ds = true ->
    num_rest false false false false (ds ++ " " :: r) = Some (" " :: r).
Proof. intros ds r H; unfold num_rest; rewrite digits_q_all by exact H; reflexivity. Qed.

Lemma number_scans : forall c body, forallb isdigit (c :: body) = true -> scans_as (c :: body) Number.
Proof.
  intros c body H; exists c, body.
  pose proof H as H'. simpl in H'. apply andb_prop in H'; destruct H' as [Hc Hb].
  destruct (digit_facts c Hc) as (F1 & F2 & F3 & F4 & F5 & F6 & _ & _ & _ & F10).
  repeat split; auto.
  - intros [K|K]; [ exact (F10 K) | ].
    rewrite forallb_forall in Hb; apply Hb in K.
    destruct (digit_facts _ K) as (_ & _ & _ & _ & _ & _ & _ & _ & _ & N); apply N; reflexivity.
  - apply filter_quote_digits; exact H.
  - intros cas first prevc r; unfold scan_token; rewrite F2, F3, Hc; unfold scan_number.
    assert (P : parse_number (c :: body ++ " " :: r) = Some (" " :: r)).
    { unfold parse_number; rewrite F4, F5; simpl orb; cbv iota.
      unfold num_after_sign; rewrite Hc, F6; simpl negb; cbv iota.
      destruct (c == "0").
      - destruct body as [|d body']; [ cbn -[num_rest]; apply (num_rest_digits [c]); simpl; rewrite Hc; reflexivity | ].
        simpl in Hb; apply andb_prop in Hb; destruct Hb as [Hd Hb'].
        destruct (digit_facts d Hd) as (_ & _ & _ & _ & _ & _ & G7 & G8 & _).
        change ((d :: body') ++ " " :: r) with (d :: body' ++ " " :: r); cbv iota; rewrite G7, G8.
        apply (num_rest_digits (c :: d :: body')); simpl; rewrite Hc, Hd; exact Hb'.
      - apply (num_rest_digits (c :: body)); exact H. }
    rewrite P. f_equal. simpl length. rewrite app_length; simpl; lia.
Qed.

(* string literals without quote or backslash inside *)
Definition plain_char (d : ascii) : bool := negb (d == """") && negb (d == "\") && negb (d == "010").

Lemma find_close_plain : forall body seen r,
    forallb plain_char body = true -> hd_is (fun x => x == "\") seen = false ->
    find_close """" seen (body ++ """" :: r) = Some (length body).
Proof.
  induction body as [|d body IH]; intros seen r H S; simpl in *.
  - destruct seen as [|x seen']; [ reflexivity | simpl in S; simpl; rewrite S; reflexivity ].
  - apply andb_prop in H; destruct H as [H1 H2]. unfold plain_char in H1.
    apply andb_prop in H1; destruct H1 as [H1 H3]; apply andb_prop in H1; destruct H1 as [H1 H4].
    apply negb_true_iff in H1; apply negb_true_iff in H4. rewrite H1; simpl.
    rewrite IH; [ reflexivity | exact H2 | simpl; exact H4 ].
Qed.

Lemma string_scans : forall body, forallb plain_char body = true -> scans_as ("""" :: body ++ [""""]) String.
Proof.
  intros body H; exists """", (body ++ [""""]).
  repeat split; try reflexivity.
  - intros [K|K]; [ discriminate K | ].
    apply in_app_or in K; destruct K as [K|[K|[]]]; [ | discriminate K ].
    rewrite forallb_forall in H; apply H in K; vm_compute in K; discriminate K.
  - intros cas first prevc r; unfold scan_token; simpl.
    unfold scan_string. rewrite <- app_assoc; simpl.
    rewrite find_close_plain by (exact H || reflexivity).
    rewrite app_length; simpl; f_equal; lia.
Qed.

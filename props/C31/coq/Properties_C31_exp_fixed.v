(* C31 -- with props/C31/fix_*.diff: literals with an exponent and a floating suffix are in the class of the round-trip theorem and come back *)
From Coq Require Import Ascii List Bool.
From C31 Require Import C31Model C31Lang C31Round C31Classes C31Variants.
Import ListNotations.

Theorem exp_in_round_trip_class : forall cas h a, forallb (line_ok (mkOpts cas h true a)) w_exp = true.
Proof. exact exp_in_class. Qed.
Print Assumptions exp_in_round_trip_class.

(* C31 -- stripComments of the pinned tree: there is an accepted input on which it reads before the token vector
   (the model returns None exactly there); selected by check.py when the real code shows the pinned behaviour *)
From Coq Require Import Ascii List.
From C31 Require Import C31Model C31Proofs.

Theorem strip_comments_in_bounds_refuted :
  exists ts, lex (pinned false) oob_input = Ok ts /\ strip_comments false ts = None.
Proof. exact strip_oob_witness. Qed.
Print Assumptions strip_comments_in_bounds_refuted.

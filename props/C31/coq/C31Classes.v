(* C31 -- every lexical element of C31Lang.v that satisfies its side condition is scanned as one token in every context
   where what follows is allowed by its [follow_of] predicate. *)
From Coq Require Import Ascii List Bool Arith Lia NArith.
From C31 Require Import C31Model C31Spec C31Proofs C31Lang C31Round.
Import ListNotations.
Local Open Scope char_scope.

Lemma str_eq_true : forall a b, str_eq a b = true -> a = b.
Proof. intros a b; unfold str_eq; destruct (list_eq_dec ascii_dec a b); [ auto | discriminate ]. Qed.
Lemma hd_ok_app : forall p a k, hd_ok p (a ++ k) = match a with [] => hd_ok p k | c :: _ => p c end.
Proof. intros p [|c a] k; reflexivity. Qed.

(* ------------------------------------------------------------------ identifiers *)
Lemma word_first_scan : forall c,
    negb (sep_or_space c) && negb (isdigit c) && negb (c == "#") && negb (c == "R") = true ->
    forall o first prevc tl,
      scan_token o first prevc c tl = SPlain (length (take_while (fun d => negb (sep_or_space d)) tl)) Standard.
Proof. intros c H; all_chars c; vm_compute in H; try discriminate H; intros; reflexivity. Qed.
Lemma word_R_scan : forall o first prevc tl,
    hd_is (fun d => d == """") tl = false ->
    scan_token o first prevc "R" tl = SPlain (length (take_while (fun d => negb (sep_or_space d)) tl)) Standard.
Proof. intros o first prevc tl H. unfold scan_token. simpl. rewrite H. reflexivity. Qed.
Lemma take_while_stop : forall body r,
    forallb (fun d => negb (sep_or_space d)) body = true -> hd_ok sep_or_space r = true ->
    take_while (fun d => negb (sep_or_space d)) (body ++ r) = body.
Proof.
  induction body as [|d body IH]; intros r H F; simpl in *.
  - destruct r as [|x r]; [ reflexivity | ]. simpl in F. simpl. rewrite F. reflexivity.
  - apply andb_prop in H; destruct H as [H1 H2]. rewrite H1. f_equal. apply IH; assumption.
Qed.
Lemma nonsep_facts : forall c, negb (sep_or_space c) = true -> isspace c = false /\ c <> "010" /\ (c == """") = false.
Proof. intros c H; all_chars c; vm_compute in H; try discriminate H; repeat split; discriminate. Qed.
Lemma word_scans : forall o w, tok_ok o (TWord w) = true -> spec_scans o (TWord w).
Proof.
  intros o w H. cbn [tok_ok] in H. destruct w as [|c body]; [ discriminate H | ].
  apply andb_prop in H; destruct H as [H1 H2]. apply andb_prop in H1; destruct H1 as [H1 Hh]. apply andb_prop in H1; destruct H1 as [Hs Hd].
  pose proof H2 as H2'. cbn [forallb] in H2'. apply andb_prop in H2'; destruct H2' as [_ Hb].
  exists c, body. destruct (nonsep_facts c Hs) as (A1 & A2 & A3).
  repeat split; auto.
  - apply negb_true_iff; exact Hh.
  - intros K. unfold no_nl in *. rewrite forallb_forall in H2. apply H2 in K. discriminate K.
  - intros first prevc r _ F. cbn [follow_of] in F.
    assert (F1 : hd_ok sep_or_space r = true).
    { destruct r as [|d r]; [ reflexivity | ]. simpl in *. apply andb_prop in F; tauto. }
    destruct (c == "R") eqn:ER.
    + apply eqb_true in ER; subst c. rewrite word_R_scan; [ rewrite take_while_stop by assumption; reflexivity | ].
      destruct body as [|b body].
      * destruct r as [|d r]; [ reflexivity | ]. simpl in *. apply andb_prop in F; destruct F as [_ F].
        apply negb_true_iff in F. exact F.
      * simpl. cbn [forallb] in Hb. apply andb_prop in Hb; destruct Hb as [Hb _]. destruct (nonsep_facts b Hb) as (_ & _ & B3). exact B3.
    + rewrite word_first_scan; [ rewrite take_while_stop by assumption; reflexivity | ].
      rewrite Hs, Hd, Hh, ER. reflexivity.
Qed.

(* ------------------------------------------------------------------ string and character literals *)
Definition bs_run (seen : str) : nat := length (take_while (fun x => x == "\") seen).
Lemma find_close_body : forall q body seen r,
    (q == "\") = false ->
    body_ok q (bs_run seen) body = true ->
    find_close q seen (body ++ q :: r) = Some (length body).
Proof.
  intros q body. induction body as [|c body IH]; intros seen r Q B.
  - simpl in *. rewrite Ascii.eqb_refl. fold (bs_run seen). rewrite B. reflexivity.
  - cbn [body_ok] in B. cbn [app find_close]. fold (bs_run seen).
    destruct (c == "010"); [ discriminate B | ].
    destruct (c == q) eqn:E.
    + apply andb_prop in B; destruct B as [Bo Bb]. rewrite <- Nat.negb_even in Bo. apply negb_true_iff in Bo. rewrite Bo. cbn [andb].
      rewrite IH; [ reflexivity | exact Q | ].
      apply eqb_true in E; subst c. unfold bs_run. cbn [take_while]. rewrite Q. exact Bb.
    + cbn [andb]. destruct (c == "\") eqn:Eb.
      * rewrite IH; [ reflexivity | exact Q | ]. unfold bs_run in *. cbn [take_while]. rewrite Eb. exact B.
      * rewrite IH; [ reflexivity | exact Q | ]. unfold bs_run in *. cbn [take_while]. rewrite Eb. exact B.
Qed.
Lemma body_ok_no_nl : forall q body nb, body_ok q nb body = true -> ~ In "010" body.
Proof.
  intros q; induction body as [|c body IH]; intros nb B; [ simpl; tauto | ].
  cbn [body_ok] in B. destruct (c == "010") eqn:E; [ discriminate B | ].
  intros [K|K]; [ subst c; discriminate E | ].
  destruct (c == q); [ apply andb_prop in B; destruct B as [_ B]; exact (IH _ B K) | ].
  destruct (c == "\"); exact (IH _ B K).
Qed.
Lemma string_scans : forall o b, tok_ok o (TStr b) = true -> spec_scans o (TStr b).
Proof.
  intros o b H. cbn [tok_ok] in H. exists """", (b ++ [""""]). repeat split; try reflexivity.
  - cbn [text_of]. intros [K|K]; [ discriminate K | ]. apply in_app_or in K. destruct K as [K|[K|[]]]; [ | discriminate K ].
    exact (body_ok_no_nl _ _ _ H K).
  - intros first prevc r _ _. unfold scan_token. simpl. unfold scan_string. rewrite <- app_assoc. cbn [app].
    rewrite find_close_body by (reflexivity || exact H). rewrite app_length. simpl. f_equal. lia.
Qed.
Lemma qstring_scans : forall o b, tok_ok o (TQStr b) = true -> spec_scans o (TQStr b).
Proof.
  intros o b H. cbn [tok_ok] in H. apply andb_prop in H. destruct H as [Hc H].
  exists "'", (b ++ ["'"]). repeat split; try reflexivity.
  - cbn [text_of]. intros [K|K]; [ discriminate K | ]. apply in_app_or in K. destruct K as [K|[K|[]]]; [ | discriminate K ].
    exact (body_ok_no_nl _ _ _ H K).
  - intros first prevc r _ _. unfold scan_token. simpl. rewrite Hc. unfold scan_string. rewrite <- app_assoc. cbn [app].
    rewrite find_close_body by (reflexivity || exact H). rewrite app_length. simpl. f_equal. lia.
Qed.
Lemma char_scans : forall o esc c, tok_ok o (TChr esc c) = true -> spec_scans o (TChr esc c).
Proof.
  intros o esc c H. cbn [tok_ok] in H. apply andb_prop in H. destruct H as [H He]. apply andb_prop in H. destruct H as [Hc Hn].
  apply negb_true_iff in Hc. apply negb_true_iff in Hn.
  exists "'", ((if esc then ["\"; c] else [c]) ++ ["'"]). repeat split; try reflexivity.
  - cbn [text_of]. destruct esc; simpl; intuition (try discriminate); subst; discriminate.
  - intros first prevc r _ _. unfold scan_token. simpl. rewrite Hc. destruct esc; simpl.
    + reflexivity.
    + simpl in He. apply negb_true_iff in He. rewrite He. reflexivity.
Qed.

(* ------------------------------------------------------------------ comments on one line *)
Lemma find_star_slash_app : forall u r, no_close u = true -> find_star_slash (u ++ "*" :: "/" :: r) = Some (length u).
Proof.
  induction u as [|c u IH]; intros r N; [ reflexivity | ].
  cbn [no_close] in N. apply andb_prop in N. destruct N as [N1 N2]. apply negb_true_iff in N1.
  cbn [app find_star_slash].
  assert (E : (c == "*") && hd_is (fun d => d == "/") (u ++ "*" :: "/" :: r) = false).
  { destruct u as [|d u]; [ simpl; apply andb_false_r | exact N1 ]. }
  rewrite E, IH by exact N2. reflexivity.
Qed.
Lemma rstrip_blanks : forall s, blanks s = true -> rstrip_len s = 0.
Proof.
  induction s as [|c s IH]; intros B; [ reflexivity | ]. simpl in *. apply andb_prop in B. destruct B as [B1 B2].
  rewrite IH by exact B2. rewrite (blank_char_space _ B1). reflexivity.
Qed.
Lemma last_nonblank_cons : forall c b, b <> [] -> last_nonblank (c :: b) = last_nonblank b.
Proof.
  intros c b N. unfold last_nonblank. simpl. destruct (rev b) eqn:E; [ | reflexivity ].
  apply (f_equal (@rev ascii)) in E. rewrite rev_involutive in E. simpl in E. congruence.
Qed.
Lemma rstrip_body : forall body sp2, body <> [] -> last_nonblank body = true -> blanks sp2 = true ->
    rstrip_len (body ++ sp2) = length body.
Proof.
  induction body as [|c body IH]; intros sp2 N L B; [ congruence | ].
  destruct body as [|d body].
  - simpl. rewrite rstrip_blanks by exact B. unfold last_nonblank in L. simpl in L. apply negb_true_iff in L. rewrite L. reflexivity.
  - rewrite last_nonblank_cons in L by discriminate. specialize (IH sp2 ltac:(discriminate) L B).
    change ((c :: d :: body) ++ sp2) with (c :: (d :: body) ++ sp2). cbn [rstrip_len]. rewrite IH. reflexivity.
Qed.
Lemma com_scans : forall o bang sp body sp2, tok_ok o (TCom bang sp body sp2) = true -> spec_scans o (TCom bang sp body sp2).
Proof.
  intros o bang sp body sp2 H. cbn [tok_ok] in H.
  repeat (apply andb_prop in H; destruct H as [H ?]).
  apply Nat.leb_le in H. rename H into Lb. rename H0 into O. rename H1 into Nc. rename H2 into Nb. rename H3 into B2. rename H4 into B1.
  assert (Ob : opener_ok bang sp body = true /\ (body = [] -> sp2 = []) /\ (body <> [] -> last_nonblank body = true)).
  { destruct body as [|c body]; [ destruct sp2; [ repeat split; auto; congruence | discriminate O ] | ].
    apply andb_prop in O. destruct O as [O O3]. apply andb_prop in O. destruct O as [O1 O2].
    repeat split; [ cbn [opener_ok]; rewrite O1, O3; reflexivity | discriminate | intros _; exact O2 ]. }
  destruct Ob as (Oo & Oe & Ol).
  split; [ | split; [ exact Lb | ] ].
  - intros first prevc r. unfold scan_token. simpl. unfold scan_c_comment.
    rewrite (opener_kind first bang sp body (sp2 ++ "*" :: "/" :: r) Lb B1 Oo)
      by (intros ->; rewrite (Oe eq_refl); reflexivity).
    rewrite skipn_app_len.
    rewrite (count_space_sp_body sp body (sp2 ++ "*" :: "/" :: r) B1 (opener_ok_weaken _ _ _ Oo))
      by (intros ->; rewrite (Oe eq_refl); reflexivity).
    rewrite skipn_app_len. rewrite app_assoc. rewrite find_star_slash_app by exact Nc.
    rewrite firstn_app_len.
    assert (R : rstrip_len (body ++ sp2) = length body).
    { destruct body as [|c body]; [ rewrite (Oe eq_refl); reflexivity | ]. apply rstrip_body; [ discriminate | apply Ol; discriminate | exact B2 ]. }
    rewrite R, app_length. f_equal. lia.
  - unfold no_nl in *. rewrite !forallb_app. rewrite Nb.
    assert (X : forall s, blanks s = true -> forallb (fun c => negb (c == "010")) s = true).
    { intros s Bs. apply forallb_forall. intros x I. unfold blanks in Bs. rewrite forallb_forall in Bs. apply Bs in I.
      unfold blank_char in I. apply andb_prop in I. tauto. }
    rewrite (X _ B1), (X _ B2). reflexivity.
Qed.

(* ------------------------------------------------------------------ operators: scan_token by first character *)
Definition plain_seps : str := ["?"; ";"; "{"; "}"; "["; "]"; "("; ")"; "^"; ","; "`"; "000"].
Lemma scan_single : forall c, In c plain_seps -> forall o first prevc tl, scan_token o first prevc c tl = SPlain 0 Standard.
Proof. intros c H; simpl in H; repeat (destruct H as [<-|H]; [ intros; reflexivity | ]); contradiction. Qed.
Lemma scan_lt : forall o first prevc tl, scan_token o first prevc "<" tl = join2 "<" "=" tl.
Proof. reflexivity. Qed.
Lemma scan_gt : forall o first prevc tl, scan_token o first prevc ">" tl = join2 ">" "=" tl.
Proof. reflexivity. Qed.
Lemma scan_colon : forall o first prevc tl, scan_token o first prevc ":" tl = join1 ":" tl.
Proof. reflexivity. Qed.
Lemma scan_eqjoin : forall c, In c ["*"; "%"; "!"; "="] -> forall o first prevc tl, scan_token o first prevc c tl = join1 "=" tl.
Proof. intros c H; simpl in H; repeat (destruct H as [<-|H]; [ intros; reflexivity | ]); contradiction. Qed.
Lemma scan_amp : forall o first prevc tl, scan_token o first prevc "&" tl = join1 "&" tl.
Proof. reflexivity. Qed.
Lemma scan_bar : forall o first prevc tl, scan_token o first prevc "|" tl = join2 "|" "=" tl.
Proof. reflexivity. Qed.
Lemma scan_slash : forall o first prevc tl, scan_token o first prevc "/" tl =
    if hd_is (fun d => d == "/") tl then scan_cxx_comment first (List.tl tl)
    else if hd_is (fun d => d == "*") tl then scan_c_comment first (List.tl tl) else join1 "=" tl.
Proof. reflexivity. Qed.
Lemma scan_dot : forall o first prevc tl, scan_token o first prevc "." tl =
    if hd_is isdigit tl then scan_number o ("." :: tl) else join2 "." "*" tl.
Proof. reflexivity. Qed.
Lemma scan_plus : forall o first prevc tl, scan_token o first prevc "+" tl =
    if hd_is (fun d => d == "+") tl then SPlain 1 Standard
    else if psep prevc && hd_is (fun d => (d == ".") || isdigit d) tl then scan_number o ("+" :: tl) else join1 "=" tl.
Proof. reflexivity. Qed.
Lemma scan_minus : forall o first prevc tl, scan_token o first prevc "-" tl =
    if hd_is (fun d => d == "-") tl then SPlain 1 Standard
    else if hd_is (fun d => d == ">") tl then
           (if o_arrow o && hd_is (fun d => d == "*") (List.tl tl) then SPlain 2 Standard else SPlain 1 Standard)
    else if psep prevc && hd_is (fun d => (d == ".") || isdigit d) tl then scan_number o ("-" :: tl) else join1 "=" tl.
Proof. reflexivity. Qed.

Ltac split_follow F :=
  unfold none_of, any, hd_ok in F; cbn [existsb] in F; rewrite ?negb_orb in F; cbn [negb] in F; rewrite ?andb_true_r in F;
  repeat match goal with H : _ && _ = true |- _ => apply andb_prop in H; destruct H end;
  repeat match goal with H : negb _ = true |- _ => apply negb_true_iff in H end.
Ltac use_facts :=
  repeat match goal with
         | H : (?d == ?k) = false |- _ => rewrite H; clear H
         | H : isdigit ?d = false |- _ => rewrite H; clear H
         | H : false = false |- _ => clear H
         | H : true = true |- _ => clear H
         end.
Ltac fin_op EA :=
  first [ rewrite scan_single by (simpl; tauto) | rewrite scan_lt | rewrite scan_gt | rewrite scan_colon
        | rewrite scan_eqjoin by (simpl; tauto) | rewrite scan_amp | rewrite scan_bar | rewrite scan_slash
        | rewrite scan_dot | rewrite scan_plus | rewrite scan_minus ];
  unfold join1, join2; cbn [app hd_is List.tl length]; rewrite ?EA; use_facts;
  cbn [Ascii.eqb Bool.eqb orb andb]; rewrite ?andb_false_r; try reflexivity.

Lemma op_scans : forall o op, tok_ok o (TOp op) = true -> spec_scans o (TOp op).
Proof.
  intros o op H. cbn [tok_ok] in H. cbn [spec_scans text_of flag_of follow_of needs_sep_before].
  destruct (op_lookup (op_table o) op) as [fol|] eqn:E; [ clear H | discriminate H ].
  unfold op_table in E. destruct (o_arrow o) eqn:EA; cbn [app] in E.
  all: repeat (cbn [op_lookup] in E;
               match type of E with
               | (if str_eq ?x ?oo then _ else _) = _ =>
                 destruct (str_eq x oo) eqn:EQ;
                 [ apply str_eq_true in EQ; subst oo; injection E as <-;
                   eexists; eexists; split; [ reflexivity | ]; split; [ reflexivity | ]; split; [ reflexivity | ];
                   split; [ simpl; intuition discriminate | ];
                   intros first prevc r _ F; destruct r as [|d r]; [ clear F | split_follow F ]; fin_op EA
                 | clear EQ ]
               end).
  all: try discriminate E.
Qed.

(* ------------------------------------------------------------------ numeric literals: the digit loops *)
Definition stopd (d : ascii) : bool := negb (isdigit d) && negb (d == "'").
Lemma digits_q_hq_n : forall n s, length s <= n -> digits_q s = digits_hq isdigit s.
Proof.
  induction n as [|n IH]; intros [|c tl] L; try reflexivity; [ simpl in L; lia | ].
  simpl in L. cbn [digits_q digits_hq]. destruct (isdigit c); [ apply IH; lia | ].
  destruct (c == "'"); [ | reflexivity ]. destruct tl as [|d tl']; [ reflexivity | ].
  destruct (isdigit d); [ apply IH; simpl in L; lia | reflexivity ].
Qed.
Lemma digits_q_hq : forall s, digits_q s = digits_hq isdigit s.
Proof. intros s. apply (digits_q_hq_n (length s)). lia. Qed.
Lemma digits_hq_nil : forall ok k, hd_ok (fun d => negb (ok d) && negb (d == "'")) k = true -> digits_hq ok k = Some k.
Proof.
  intros ok k F. destruct k as [|x k]; [ reflexivity | ]. simpl in F. apply andb_prop in F. destruct F as [F1 F2].
  apply negb_true_iff in F1. apply negb_true_iff in F2. simpl. rewrite F1, F2. reflexivity.
Qed.
Lemma digits_hq_tail_n : forall ok n ds k, length ds <= n ->
    seq_tail ok ds = true -> hd_ok (fun d => negb (ok d) && negb (d == "'")) k = true ->
    digits_hq ok (ds ++ k) = Some k.
Proof.
  intros ok. induction n as [|n IH]; intros [|c tl] k L S F; try (apply digits_hq_nil; exact F); [ simpl in L; lia | ].
  simpl in L. cbn [seq_tail] in S. cbn [app digits_hq]. destruct (ok c); [ apply IH; [ lia | exact S | exact F ] | ].
  destruct (c == "'"); [ | discriminate S ]. destruct tl as [|d tl']; [ discriminate S | ].
  apply andb_prop in S. destruct S as [S1 S2]. cbn [app]. rewrite S1. apply IH; [ simpl in L; lia | exact S2 | exact F ].
Qed.
Lemma digits_hq_tail : forall ok ds k,
    seq_tail ok ds = true -> hd_ok (fun d => negb (ok d) && negb (d == "'")) k = true ->
    digits_hq ok (ds ++ k) = Some k.
Proof. intros ok ds k. apply (digits_hq_tail_n ok (length ds)). lia. Qed.
Lemma digits_q_tail : forall ds k, seq_tail isdigit ds = true -> hd_ok stopd k = true -> digits_q (ds ++ k) = Some k.
Proof. intros. rewrite digits_q_hq. apply digits_hq_tail; assumption. Qed.
Lemma binary_digit : forall c, is_binary c = true -> isdigit c = true.
Proof. intros c H; all_chars c; vm_compute in H; try discriminate H; reflexivity. Qed.
Lemma quote_not_digit : isdigit "'" = false.
Proof. reflexivity. Qed.
Lemma digits_bq_nil : forall k, hd_ok stopd k = true -> digits_bq k = Some k.
Proof.
  intros k F. destruct k as [|x k]; [ reflexivity | ]. simpl in F. unfold stopd in F. apply andb_prop in F. destruct F as [F1 F2].
  apply negb_true_iff in F1. apply negb_true_iff in F2. simpl. rewrite F1, F2. reflexivity.
Qed.
Lemma digits_bq_tail_n : forall n ds k, length ds <= n -> seq_tail is_binary ds = true -> hd_ok stopd k = true -> digits_bq (ds ++ k) = Some k.
Proof.
  induction n as [|n IH]; intros [|c tl] k L S F; try (apply digits_bq_nil; exact F); [ simpl in L; lia | ].
  simpl in L. cbn [seq_tail] in S. cbn [app digits_bq]. destruct (is_binary c) eqn:B.
  - rewrite (binary_digit _ B). apply IH; [ lia | exact S | exact F ].
  - destruct (c == "'") eqn:Q; [ | discriminate S ]. apply eqb_true in Q. subst c. rewrite quote_not_digit.
    destruct tl as [|d tl']; [ discriminate S | ]. apply andb_prop in S. destruct S as [S1 S2]. cbn [app]. rewrite S1.
    apply IH; [ simpl in L; lia | exact S2 | exact F ].
Qed.
Lemma digits_bq_tail : forall ds k, seq_tail is_binary ds = true -> hd_ok stopd k = true -> digits_bq (ds ++ k) = Some k.
Proof. intros ds k. apply (digits_bq_tail_n (length ds)). lia. Qed.

(* ------------------------------------------------------------------ exponent, suffix, user-defined suffix *)
Lemma dig_seq_cons : forall ok ds, dig_seq ok ds = true -> exists g t, ds = g :: t /\ ok g = true /\ seq_tail ok t = true.
Proof. intros ok [|g t] H; [ discriminate H | ]. simpl in H. apply andb_prop in H. exists g, t. tauto. Qed.
Lemma digit_not_sign : forall g, isdigit g = true -> (g == "+") || (g == "-") = false.
Proof. intros g H; all_chars g; vm_compute in H; try discriminate H; reflexivity. Qed.
Definition exp_float (o : opts) (fl : bool) (e : option (ascii * option ascii * str)) : bool :=
  match e with
  | None => fl
  | Some (_, sg, _) => o_exp o || fl || (match sg with Some s => s == "-" | None => false end)
  end.
Definition exp_ok (e : option (ascii * option ascii * str)) : bool :=
  match e with
  | None => true
  | Some (ec, sg, ds) => is_e ec && (match sg with None => true | Some s => (s == "+") || (s == "-") end) && dig_seq isdigit ds
  end.
Lemma num_exponent_ok : forall o fl e k,
    exp_ok e = true -> hd_ok stopd k = true -> hd_ok (fun d => negb (is_e d)) k = true ->
    num_exponent o fl (render_exp e ++ k) = Some (exp_float o fl e, k).
Proof.
  intros o fl [[[ec sg] ds]|] k E F1 F2; cbn [render_exp exp_float app].
  - cbn [exp_ok] in E. apply andb_prop in E. destruct E as [E Ed]. apply andb_prop in E. destruct E as [Ee Es].
    destruct (dig_seq_cons _ _ Ed) as (g & t & -> & Hg & Ht).
    unfold num_exponent. unfold is_e in Ee. rewrite Ee.
    destruct sg as [s|]; cbn [app].
    + rewrite Es. cbn [snd fst]. rewrite Hg. rewrite digits_q_tail by assumption. reflexivity.
    + rewrite (digit_not_sign _ Hg). cbn [snd fst]. rewrite Hg. rewrite digits_q_tail by assumption.
      rewrite orb_false_r. reflexivity.
  - destruct k as [|c k]; [ reflexivity | ]. simpl in F2. apply negb_true_iff in F2. unfold is_e in F2.
    unfold num_exponent. rewrite F2. reflexivity.
Qed.

Lemma in_strs_In : forall a l, in_strs a l = true -> In a l.
Proof.
  intros a l H. unfold in_strs in H. apply existsb_exists in H. destruct H as (x & I & E). apply str_eq_true in E. subst; exact I.
Qed.
Definition nonalpha (d : ascii) : bool := negb (isalpha d).
Lemma nonalpha_facts : forall d, nonalpha d = true -> isl d = false /\ isu d = false /\ isf d = false.
Proof. intros d H; all_chars d; vm_compute in H; try discriminate H; repeat split; reflexivity. Qed.
Ltac kill_suffix F :=
  match goal with |- num_suffix _ _ (?s ++ ?k) = Some ?k =>
    destruct k as [|d k]; [ reflexivity | ]; simpl in F; destruct (nonalpha_facts d F) as (A1 & A2 & A3);
    cbn [app num_suffix]; cbn [isl isu isf Ascii.eqb Bool.eqb orb andb negb]; rewrite ?A1, ?A2, ?A3; cbn [orb andb negb]; reflexivity
  end.
Lemma num_suffix_float : forall signed suf k,
    in_strs suf float_suffixes = true -> hd_ok nonalpha k = true -> num_suffix true signed (suf ++ k) = Some k.
Proof.
  intros signed suf k H F. apply in_strs_In in H. unfold float_suffixes in H. simpl in H.
  repeat (destruct H as [<-|H]; [ kill_suffix F | ]). contradiction.
Qed.
Lemma num_suffix_int : forall suf k,
    in_strs suf int_suffixes = true -> hd_ok nonalpha k = true -> num_suffix false false (suf ++ k) = Some k.
Proof.
  intros suf k H F. apply in_strs_In in H. unfold int_suffixes, cat2, U, L in H. simpl in H.
  repeat (destruct H as [<-|H]; [ kill_suffix F | ]). contradiction.
Qed.
Lemma num_suffix_int_signed : forall suf k,
    in_strs suf int_suffixes_signed = true -> hd_ok nonalpha k = true -> num_suffix false true (suf ++ k) = Some k.
Proof.
  intros suf k H F. apply in_strs_In in H. unfold int_suffixes_signed, cat2, U, L in H. simpl in H.
  repeat (destruct H as [<-|H]; [ kill_suffix F | ]). contradiction.
Qed.

Lemma drop_word : forall u k, forallb is_word_char u = true -> hd_ok (fun d => negb (is_word_char d)) k = true ->
    drop_while is_word_char (u ++ k) = k.
Proof.
  induction u as [|c u IH]; intros k H F; simpl in *.
  - destruct k as [|d k]; [ reflexivity | ]. simpl in F. apply negb_true_iff in F. simpl. rewrite F. reflexivity.
  - apply andb_prop in H. destruct H as [H1 H2]. rewrite H1. apply IH; assumption.
Qed.
Lemma num_udl_ok : forall ud k, udl_ok ud = true -> hd_ok (fun d => negb (is_word_char d)) k = true -> num_udl (ud ++ k) = Some k.
Proof.
  intros [|c t] k H F.
  - simpl. destruct k as [|d k]; [ reflexivity | ]. simpl in F. unfold num_udl.
    destruct (d == "_") eqn:E; [ apply eqb_true in E; subst d; discriminate F | reflexivity ].
  - cbn [udl_ok] in H. apply andb_prop in H. destruct H as [H Hw]. apply andb_prop in H. destruct H as [Hc Hn].
    cbn [app num_udl]. rewrite Hc. destruct t as [|x t]; [ discriminate Hn | ]. cbn [app]. f_equal.
    change (x :: t ++ k) with ((x :: t) ++ k). apply drop_word; assumption.
Qed.

(* the part of num_rest that follows the integer and fractional digits *)
Definition num_tail (o : opts) (signed hx bn fl1 : bool) (s4 : str) : option str :=
  if negb (no_dot s4) then None
  else if (match s4 with [] => false | c4 :: _ => if o_hex o then bn && is_e c4 else hx || bn end) then None
  else match num_exponent o fl1 s4 with
       | None => None
       | Some (fl2, s5) =>
         if negb (no_dot s5) then None
         else match num_suffix fl2 signed s5 with
              | None => None
              | Some s6 =>
                if negb (no_dot s6) then None
                else match num_udl s6 with
                     | None => None
                     | Some s7 => if no_dot s7 then Some s7 else None
                     end
              end
       end.
Lemma num_rest_eq : forall o signed fl hx bn s2,
    num_rest o signed fl hx bn s2 =
    match digits_q s2 with
    | None => None
    | Some s3 =>
      match (if hd_is (fun c => c == ".") s3
             then (if hx || bn || fl then None
                   else match digits_q (List.tl s3) with Some r => Some (true, r) | None => None end)
             else Some (fl, s3)) with
      | None => None
      | Some (fl1, s4) => num_tail o signed hx bn fl1 s4
      end
    end.
Proof. reflexivity. Qed.

(* the first character of what follows the digits of a literal: a suffix letter, '_', or what follows the literal *)
Definition suffix_heads : str := ["u"; "U"; "l"; "L"; "f"; "F"].
Lemma suffix_head : forall suf, In suf (float_suffixes ++ int_suffixes ++ int_suffixes_signed) ->
    match suf with [] => True | c :: _ => In c suffix_heads end.
Proof.
  intros suf H. unfold float_suffixes, int_suffixes, int_suffixes_signed, cat2, U, L in H. simpl in H.
  repeat (destruct H as [<-|H]; [ simpl; tauto | ]). contradiction.
Qed.
Definition head_class (p : ascii -> bool) : Prop :=
  (forall c, In c suffix_heads -> p c = true) /\ p "_" = true /\ (forall d, num_follow d = true -> p d = true).
Lemma tail_head : forall p suf ud r,
    head_class p -> In suf (float_suffixes ++ int_suffixes ++ int_suffixes_signed) -> udl_ok ud = true ->
    hd_ok num_follow r = true -> hd_ok p (suf ++ ud ++ r) = true /\ hd_ok p (ud ++ r) = true /\ hd_ok p r = true.
Proof.
  intros p suf ud r (P1 & P2 & P3) Hs Hu Hr.
  assert (R : hd_ok p r = true) by (destruct r as [|d r]; [ reflexivity | simpl in *; auto ]).
  assert (Ud : hd_ok p (ud ++ r) = true).
  { destruct ud as [|c t]; [ exact R | ]. simpl in Hu. apply andb_prop in Hu. destruct Hu as [Hu _]. apply andb_prop in Hu. destruct Hu as [Hu _].
    apply eqb_true in Hu. subst c. exact P2. }
  repeat split; auto. pose proof (suffix_head suf Hs) as Sh. destruct suf as [|c t]; [ exact Ud | simpl; auto ].
Qed.
Lemma class_stopd : head_class stopd.
Proof. repeat split; [ intros c H; simpl in H; repeat (destruct H as [<-|H]; [ reflexivity | ]); contradiction | ].
  intros d H; all_chars d; vm_compute in H; try discriminate H; reflexivity. Qed.
Lemma class_nodot : head_class (fun d => negb (d == ".")).
Proof. repeat split; [ intros c H; simpl in H; repeat (destruct H as [<-|H]; [ reflexivity | ]); contradiction | ].
  intros d H; all_chars d; vm_compute in H; try discriminate H; reflexivity. Qed.
Lemma class_note : head_class (fun d => negb (is_e d)).
Proof. repeat split; [ intros c H; simpl in H; repeat (destruct H as [<-|H]; [ reflexivity | ]); contradiction | ].
  intros d H; all_chars d; vm_compute in H; try discriminate H; reflexivity. Qed.
Lemma class_notbx : head_class (fun d => negb ((d == "b") || (d == "B") || (d == "x") || (d == "X"))).
Proof. repeat split; [ intros c H; simpl in H; repeat (destruct H as [<-|H]; [ reflexivity | ]); contradiction | ].
  intros d H; all_chars d; vm_compute in H; try discriminate H; reflexivity. Qed.
Lemma follow_nonalpha : forall r, hd_ok num_follow r = true -> hd_ok nonalpha r = true.
Proof. intros [|d r] H; [ reflexivity | ]. simpl in *. all_chars d; vm_compute in H; try discriminate H; reflexivity. Qed.
Lemma follow_nonword : forall r, hd_ok num_follow r = true -> hd_ok (fun d => negb (is_word_char d)) r = true.
Proof. intros [|d r] H; [ reflexivity | ]. simpl in *. all_chars d; vm_compute in H; try discriminate H; reflexivity. Qed.
Lemma udl_head_nonalpha : forall ud r, udl_ok ud = true -> hd_ok num_follow r = true -> hd_ok nonalpha (ud ++ r) = true.
Proof.
  intros [|c t] r Hu Hr; [ apply follow_nonalpha; exact Hr | ]. simpl in Hu. apply andb_prop in Hu. destruct Hu as [Hu _].
  apply andb_prop in Hu. destruct Hu as [Hu _]. apply eqb_true in Hu. subst c. reflexivity.
Qed.
Lemma no_dot_hd : forall s, hd_ok (fun d => negb (d == ".")) s = true -> no_dot s = true.
Proof. intros [|c s] H; [ reflexivity | ]. unfold no_dot. simpl in *. rewrite H. reflexivity. Qed.

Definition suffix_list (fl neg : bool) : list str := if fl then float_suffixes else if neg then int_suffixes_signed else int_suffixes.
Lemma suffix_list_in : forall fl neg suf, in_strs suf (suffix_list fl neg) = true ->
    In suf (float_suffixes ++ int_suffixes ++ int_suffixes_signed).
Proof.
  intros fl neg suf H. apply in_strs_In in H. unfold suffix_list in H. apply in_or_app.
  destruct fl; [ left; exact H | right; apply in_or_app; destruct neg; [ right | left ]; exact H ].
Qed.
Lemma num_suffix_ok : forall fl neg suf k,
    in_strs suf (suffix_list fl neg) = true -> hd_ok nonalpha k = true -> num_suffix fl neg (suf ++ k) = Some k.
Proof.
  intros [|] neg suf k H F; unfold suffix_list in H.
  - apply num_suffix_float; assumption.
  - destruct neg; [ apply num_suffix_int_signed | apply num_suffix_int ]; assumption.
Qed.

Lemma num_tail_gen : forall o neg hx bn fl1 e suf ud r,
    exp_ok e = true -> in_strs suf (suffix_list (exp_float o fl1 e) neg) = true -> udl_ok ud = true ->
    hd_ok num_follow r = true ->
    (match render_exp e ++ suf ++ ud ++ r with [] => false | c4 :: _ => if o_hex o then bn && is_e c4 else hx || bn end) = false ->
    num_tail o neg hx bn fl1 (render_exp e ++ suf ++ ud ++ r) = Some r.
Proof.
  intros o neg hx bn fl1 e suf ud r He Hs Hu Hr X.
  pose proof (suffix_list_in _ _ _ Hs) as Hin.
  destruct (tail_head _ suf ud r class_stopd Hin Hu Hr) as (S3 & S4 & S5).
  destruct (tail_head _ suf ud r class_nodot Hin Hu Hr) as (D3 & D4 & D5).
  destruct (tail_head _ suf ud r class_note Hin Hu Hr) as (E3 & _ & _).
  unfold num_tail.
  assert (D2 : no_dot (render_exp e ++ suf ++ ud ++ r) = true).
  { destruct e as [[[ec sg] ds]|]; [ | apply no_dot_hd; exact D3 ]. cbn [exp_ok] in He.
    apply andb_prop in He. destruct He as [He _]. apply andb_prop in He. destruct He as [He _].
    unfold no_dot. cbn [render_exp app hd_is]. unfold is_e in He. destruct (ec == ".") eqn:Q; [ | reflexivity ].
    apply eqb_true in Q. subst ec. discriminate He. }
  rewrite D2. cbn [negb].
  rewrite X. rewrite (num_exponent_ok o fl1 e _ He S3 E3).
  rewrite (no_dot_hd _ D3). cbn [negb].
  rewrite (num_suffix_ok _ _ _ _ Hs (udl_head_nonalpha ud r Hu Hr)).
  rewrite (no_dot_hd _ D4). cbn [negb].
  rewrite (num_udl_ok ud r Hu (follow_nonword r Hr)). rewrite (no_dot_hd _ D5). reflexivity.
Qed.

Lemma num_tail_ok : forall o neg fl1 e suf ud r,
    exp_ok e = true -> in_strs suf (suffix_list (exp_float o fl1 e) neg) = true -> udl_ok ud = true ->
    hd_ok num_follow r = true ->
    num_tail o neg false false fl1 (render_exp e ++ suf ++ ud ++ r) = Some r.
Proof.
  intros. apply num_tail_gen; auto.
  destruct (render_exp e ++ suf ++ ud ++ r); [ reflexivity | destruct (o_hex o); reflexivity ].
Qed.

(* ------------------------------------------------------------------ decimal literals *)
Lemma seq_of_dig : forall ok ds, dig_seq ok ds = true -> seq_tail ok ds = true.
Proof. intros ok [|g t] H; [ reflexivity | ]. simpl in *. apply andb_prop in H. destruct H as [H1 H2]. rewrite H1. exact H2. Qed.
Lemma exp_head : forall (p : ascii -> bool) e k, exp_ok e = true -> p "e" = true -> p "E" = true -> hd_ok p k = true ->
    hd_ok p (render_exp e ++ k) = true.
Proof.
  intros p [[[ec sg] ds]|] k He P1 P2 Hk; [ | exact Hk ]. cbn [exp_ok] in He.
  apply andb_prop in He. destruct He as [He _]. apply andb_prop in He. destruct He as [He _]. unfold is_e in He.
  cbn [render_exp app hd_ok]. apply orb_prop in He. destruct He as [He|He]; apply eqb_true in He; subst ec; assumption.
Qed.
Lemma digit_facts2 : forall c, isdigit c = true -> (c == ".") = false /\ (c == "'") = false.
Proof. intros c H; all_chars c; vm_compute in H; try discriminate H; split; reflexivity. Qed.

Lemma dec_parse : forall o neg d r,
    dec_ok o neg d = true -> hd_ok num_follow r = true ->
    num_after_sign o neg (render_num (NDec d) ++ r) = Some r.
Proof.
  intros o neg [i f e suf ud] r H Hr. unfold dec_ok in H. cbn [d_int d_frac d_exp d_suf d_udl] in H.
  apply andb_prop in H. destruct H as [H Hu]. apply andb_prop in H. destruct H as [H Hs]. apply andb_prop in H. destruct H as [Hi He].
  assert (He' : exp_ok e = true) by (destruct e as [[[ec sg] ds]|]; [ exact He | reflexivity ]).
  assert (Hs' : in_strs suf (suffix_list (exp_float o (is_some f) e) neg) = true).
  { unfold suffix_list.
    replace (exp_float o (is_some f) e)
      with (is_some f || match e with Some (_, sg, _) => o_exp o || match sg with Some s => s == "-" | None => false end | None => false end).
    - destruct (is_some f || _); [ exact Hs | destruct neg; exact Hs ].
    - destruct e as [[[ec sg] ds]|]; cbn [exp_float]; [ | apply orb_false_r ].
      destruct (is_some f), (o_exp o); reflexivity. }
  pose proof (suffix_list_in _ _ _ Hs') as Hin.
  set (K3 := suf ++ ud ++ r) in *.
  destruct (tail_head _ suf ud r class_stopd Hin Hu Hr) as (S3 & _ & _).
  destruct (tail_head _ suf ud r class_nodot Hin Hu Hr) as (D3 & _ & _).
  destruct (tail_head _ suf ud r class_notbx Hin Hu Hr) as (B3 & _ & _).
  fold K3 in S3, D3, B3.
  set (K2 := render_exp e ++ K3).
  assert (S2 : hd_ok stopd K2 = true) by (apply exp_head; auto).
  assert (D2 : hd_ok (fun d => negb (d == ".")) K2 = true) by (apply exp_head; auto).
  assert (B2 : hd_ok (fun d => negb ((d == "b") || (d == "B") || (d == "x") || (d == "X"))) K2 = true) by (apply exp_head; auto).
  assert (Tail : forall fl1, fl1 = is_some f -> num_tail o neg false false fl1 K2 = Some r).
  { intros fl1 ->. apply num_tail_ok; assumption. }
  assert (Txt : render_num (NDec (mkDec i f e suf ud)) ++ r = i ++ (match f with Some ff => "." :: ff | None => [] end) ++ K2).
  { cbn [render_num d_int d_frac d_exp d_suf d_udl]. unfold K2, K3. rewrite <- !app_assoc. reflexivity. }
  rewrite Txt. clear Txt.
  (* after the integer digits *)
  assert (Frac : forall s, hd_ok stopd s = true ->
             s = (match f with Some ff => "." :: ff | None => [] end) ++ K2 ->
             (match f with Some ff => (match ff with [] => true | _ => dig_seq isdigit ff end) | None => true end) = true ->
             match (if hd_is (fun c => c == ".") s
                    then (if false || false || false then None
                          else match digits_q (List.tl s) with Some r0 => Some (true, r0) | None => None end)
                    else Some (false, s)) with
             | None => None
             | Some (fl1, s4) => num_tail o neg false false fl1 s4
             end = Some r).
  { intros s _ -> Hf. destruct f as [ff|]; cbn [app hd_is List.tl orb].
    - rewrite Ascii.eqb_refl. rewrite digits_q_tail; [ apply Tail; reflexivity | | exact S2 ].
      destruct ff; [ reflexivity | apply seq_of_dig; exact Hf ].
    - assert (Nd : hd_is (fun c => c == ".") K2 = false).
      { destruct K2 as [|c k]; [ reflexivity | ]. simpl in D2. apply negb_true_iff in D2. exact D2. }
      rewrite Nd. apply Tail; reflexivity. }
  destruct i as [|c t].
  - (* .5 *)
    destruct f as [ff|]; [ | discriminate Hi ]. cbn [app].
    destruct (dig_seq_cons _ _ Hi) as (g & tt & -> & Hg & Ht).
    unfold num_after_sign. cbn [Ascii.eqb Bool.eqb isdigit in_range code N_of_ascii N.leb andb orb negb]. simpl hd_is. rewrite Hg.
    rewrite num_rest_eq. change ((g :: tt) ++ K2) with ((g :: tt) ++ K2).
    rewrite digits_q_tail; [ | simpl; rewrite Hg; exact Ht | exact S2 ].
    assert (Nd : hd_is (fun c => c == ".") K2 = false).
    { destruct K2 as [|c k]; [ reflexivity | ]. simpl in D2. apply negb_true_iff in D2. exact D2. }
    rewrite Nd. apply num_tail_ok; assumption.
  - assert (Hi' : dig_seq isdigit (c :: t) = true /\
                  (match f with Some ff => (match ff with [] => true | _ => dig_seq isdigit ff end) | None => true end) = true).
    { destruct f as [ff|]; [ apply andb_prop in Hi; exact Hi | split; [ exact Hi | reflexivity ] ]. }
    destruct Hi' as [Hi1 Hi2]. pose proof Hi1 as Hi1'. simpl in Hi1'. apply andb_prop in Hi1'. destruct Hi1' as [Hc Ht].
    destruct (digit_facts2 c Hc) as [Cd Cq].
    set (K1 := (match f with Some ff => "." :: ff | None => [] end) ++ K2) in *.
    assert (S1 : hd_ok stopd K1 = true) by (unfold K1; destruct f; [ reflexivity | exact S2 ]).
    assert (B1 : hd_ok (fun d => negb ((d == "b") || (d == "B") || (d == "x") || (d == "X"))) K1 = true)
      by (unfold K1; destruct f; [ reflexivity | exact B2 ]).
    assert (Main : num_rest o neg false false false ((c :: t) ++ K1) = Some r).
    { rewrite num_rest_eq. rewrite digits_q_tail; [ | apply seq_of_dig; exact Hi1 | exact S1 ].
      apply Frac; [ exact S1 | reflexivity | exact Hi2 ]. }
    unfold num_after_sign. cbn [app]. rewrite Hc, Cd. cbn [orb negb].
    destruct (c == "0") eqn:Z; [ | exact Main ].
    destruct (t ++ K1) as [|x t2] eqn:E.
    + (* the literal is "0" and nothing follows *)
      cbn [app] in Main. rewrite E in Main. apply eqb_true in Z. subst c.
      destruct t; [ | discriminate E ]. simpl in E. unfold K1 in E.
      assert (r = []).
      { destruct f; [ discriminate E | ]. unfold K2, K3 in E. repeat (apply app_eq_nil in E; destruct E as [? E]). exact E. }
      subst r. reflexivity.
    + assert (X : (x == "b") || (x == "B") || (x == "x") || (x == "X") = false).
      { destruct t as [|d t'].
        - simpl in E. rewrite E in B1. simpl in B1. apply negb_true_iff in B1. exact B1.
        - simpl in E. inversion E; subst x. cbn [seq_tail] in Ht.
          destruct (isdigit d) eqn:Dd; [ clear -Dd; all_chars d; vm_compute in Dd; try discriminate Dd; reflexivity | ].
          destruct (d == "'") eqn:Dq; [ apply eqb_true in Dq; subst d; reflexivity | discriminate Ht ]. }
      apply orb_false_iff in X. destruct X as [X X4]. apply orb_false_iff in X. destruct X as [X X3].
      apply orb_false_iff in X. destruct X as [X1 X2].
      rewrite X1, X2, X3, X4. rewrite !andb_false_r. cbn [orb]. cbn [app] in Main. rewrite E in Main. exact Main.
Qed.

(* ------------------------------------------------------------------ hexadecimal and binary literals (repaired code) *)
Lemma digits_hq_ext : forall p q, (forall c, p c = q c) -> forall n s, length s <= n -> digits_hq p s = digits_hq q s.
Proof.
  intros p q E. induction n as [|n IH]; intros [|c tl] L; try reflexivity; [ simpl in L; lia | ].
  simpl in L. cbn [digits_hq]. rewrite E. destruct (q c); [ apply IH; lia | ].
  destruct (c == "'"); [ | reflexivity ]. destruct tl as [|d tl']; [ reflexivity | ]. rewrite E.
  destruct (q d); [ apply IH; simpl in L; lia | reflexivity ].
Qed.
Lemma is_hex_x : forall o c, o_hex o = true -> is_hex o c = xdigit c.
Proof. intros o c H. unfold is_hex, xdigit, isdigit. rewrite H. reflexivity. Qed.
Definition int_heads : str := ["u"; "U"; "l"; "L"].
Lemma suffix_head_int : forall suf, In suf (int_suffixes ++ int_suffixes_signed) ->
    match suf with [] => True | c :: _ => In c int_heads end.
Proof.
  intros suf H. unfold int_suffixes, int_suffixes_signed, cat2, U, L in H. simpl in H.
  repeat (destruct H as [<-|H]; [ simpl; tauto | ]). contradiction.
Qed.
Definition head_class_int (p : ascii -> bool) : Prop :=
  (forall c, In c int_heads -> p c = true) /\ p "_" = true /\ (forall d, num_follow d = true -> p d = true).
Lemma tail_head_int : forall p suf ud r,
    head_class_int p -> In suf (int_suffixes ++ int_suffixes_signed) -> udl_ok ud = true ->
    hd_ok num_follow r = true -> hd_ok p (suf ++ ud ++ r) = true.
Proof.
  intros p suf ud r (P1 & P2 & P3) Hs Hu Hr.
  assert (R : hd_ok p r = true) by (destruct r as [|d r]; [ reflexivity | simpl in *; auto ]).
  assert (Ud : hd_ok p (ud ++ r) = true).
  { destruct ud as [|c t]; [ exact R | ]. simpl in Hu. apply andb_prop in Hu. destruct Hu as [Hu _]. apply andb_prop in Hu. destruct Hu as [Hu _].
    apply eqb_true in Hu. subst c. exact P2. }
  pose proof (suffix_head_int suf Hs) as Sh. destruct suf as [|c t]; [ exact Ud | simpl; auto ].
Qed.
Lemma class_int_stopx : head_class_int (fun d => negb (xdigit d) && negb (d == "'")).
Proof. repeat split; [ intros c H; simpl in H; repeat (destruct H as [<-|H]; [ reflexivity | ]); contradiction | ].
  intros d H; all_chars d; vm_compute in H; try discriminate H; reflexivity. Qed.
Lemma class_int_stopd : head_class_int stopd.
Proof. repeat split; [ intros c H; simpl in H; repeat (destruct H as [<-|H]; [ reflexivity | ]); contradiction | ].
  intros d H; all_chars d; vm_compute in H; try discriminate H; reflexivity. Qed.
Lemma class_int_nodot : head_class_int (fun d => negb (d == ".")).
Proof. repeat split; [ intros c H; simpl in H; repeat (destruct H as [<-|H]; [ reflexivity | ]); contradiction | ].
  intros d H; all_chars d; vm_compute in H; try discriminate H; reflexivity. Qed.
Lemma class_int_note : head_class_int (fun d => negb (is_e d)).
Proof. repeat split; [ intros c H; simpl in H; repeat (destruct H as [<-|H]; [ reflexivity | ]); contradiction | ].
  intros d H; all_chars d; vm_compute in H; try discriminate H; reflexivity. Qed.
Lemma int_suffix_in : forall (neg : bool) suf, in_strs suf (if neg then int_suffixes_signed else int_suffixes) = true ->
    In suf (int_suffixes ++ int_suffixes_signed) /\ in_strs suf (suffix_list (exp_float (pinned false) false None) neg) = true.
Proof.
  intros neg suf H. split; [ apply in_strs_In in H; apply in_or_app; destruct neg; [ right | left ]; exact H | ].
  unfold suffix_list. cbn [exp_float]. exact H.
Qed.
Lemma prefixed_rest : forall o (neg : bool) hx bn suf ud r,
    o_hex o = true -> in_strs suf (if neg then int_suffixes_signed else int_suffixes) = true -> udl_ok ud = true ->
    hd_ok num_follow r = true ->
    num_rest o neg false hx bn (suf ++ ud ++ r) = Some r.
Proof.
  intros o neg hx bn suf ud r Ho Hs Hu Hr. destruct (int_suffix_in neg suf Hs) as [Hin Hs'].
  pose proof (tail_head_int _ suf ud r class_int_stopd Hin Hu Hr) as S3.
  pose proof (tail_head_int _ suf ud r class_int_nodot Hin Hu Hr) as D3.
  pose proof (tail_head_int _ suf ud r class_int_note Hin Hu Hr) as E3.
  rewrite num_rest_eq. pose proof (digits_q_tail [] _ eq_refl S3) as Dq. cbn [app] in Dq. rewrite Dq.
  assert (Nd : hd_is (fun c => c == ".") (suf ++ ud ++ r) = false).
  { destruct (suf ++ ud ++ r) as [|c k]; [ reflexivity | ]. simpl in D3. apply negb_true_iff in D3. exact D3. }
  rewrite Nd. apply (num_tail_gen o neg hx bn false None suf ud r eq_refl); auto.
  cbn [render_exp app]. destruct (suf ++ ud ++ r) as [|c k]; [ reflexivity | ]. rewrite Ho.
  simpl in E3. apply negb_true_iff in E3. rewrite E3. apply andb_false_r.
Qed.
Lemma hex_parse : forall o neg x ds suf ud r,
    num_ok o neg (NHex x ds suf ud) = true -> hd_ok num_follow r = true ->
    num_after_sign o neg (render_num (NHex x ds suf ud) ++ r) = Some r.
Proof.
  intros o neg x ds suf ud r H Hr. cbn [num_ok] in H. repeat (apply andb_prop in H; destruct H as [H ?]).
  rename H into Ho. rename H0 into Hu. rename H1 into Hs. rename H2 into Hd. rename H3 into Hx.
  cbn [render_num app]. rewrite <- !app_assoc.
  destruct (dig_seq_cons _ _ Hd) as (g & t & -> & Hg & Ht).
  destruct (int_suffix_in neg suf Hs) as [Hin _].
  pose proof (tail_head_int _ suf ud r class_int_stopx Hin Hu Hr) as SX.
  unfold num_after_sign. cbn [Ascii.eqb Bool.eqb isdigit in_range code N_of_ascii N.leb andb orb negb]. simpl (_ == _). cbv iota.
  assert (Xb : (x == "b") || (o_hex o && (x == "B")) = false).
  { apply orb_prop in Hx. destruct Hx as [Hx|Hx]; apply eqb_true in Hx; subst x; rewrite Ho; reflexivity. }
  assert (Xx : (x == "x") || (o_hex o && (x == "X")) = true).
  { rewrite Ho. exact Hx. }
  cbn [app]. rewrite Xb, Xx, Ho.
  cbn [hd_is]. rewrite (is_hex_x o g Ho), Hg.
  rewrite (digits_hq_ext (is_hex o) xdigit (fun c => is_hex_x o c Ho) _ _ (le_n _)).
  change (g :: t ++ suf ++ ud ++ r) with ((g :: t) ++ suf ++ ud ++ r).
  rewrite digits_hq_tail; [ | simpl; rewrite Hg; exact Ht | exact SX ].
  apply prefixed_rest; assumption.
Qed.
Lemma bin_parse : forall o neg b ds suf ud r,
    num_ok o neg (NBin b ds suf ud) = true -> hd_ok num_follow r = true ->
    num_after_sign o neg (render_num (NBin b ds suf ud) ++ r) = Some r.
Proof.
  intros o neg b ds suf ud r H Hr. cbn [num_ok] in H. repeat (apply andb_prop in H; destruct H as [H ?]).
  rename H into Ho. rename H0 into Hu. rename H1 into Hs. rename H2 into Hd. rename H3 into Hb.
  cbn [render_num app]. rewrite <- !app_assoc.
  destruct (dig_seq_cons _ _ Hd) as (g & t & -> & Hg & Ht).
  destruct (int_suffix_in neg suf Hs) as [Hin _].
  pose proof (tail_head_int _ suf ud r class_int_stopd Hin Hu Hr) as SD.
  unfold num_after_sign. cbn [Ascii.eqb Bool.eqb isdigit in_range code N_of_ascii N.leb andb orb negb]. simpl (_ == _). cbv iota.
  assert (Xb : (b == "b") || (o_hex o && (b == "B")) = true).
  { rewrite Ho. exact Hb. }
  cbn [app]. rewrite Xb, Ho. cbn [hd_is]. rewrite Hg.
  change (g :: t ++ suf ++ ud ++ r) with ((g :: t) ++ suf ++ ud ++ r).
  rewrite digits_bq_tail; [ | simpl; rewrite Hg; exact Ht | exact SD ].
  apply prefixed_rest; assumption.
Qed.

(* ------------------------------------------------------------------ numeric literals are scanned as one Number *)
Lemma num_parse : forall o neg n r, num_ok o neg n = true -> hd_ok num_follow r = true ->
    num_after_sign o neg (render_num n ++ r) = Some r.
Proof. intros o neg [d|x ds suf ud|b ds suf ud] r H F; [ apply dec_parse | apply hex_parse | apply bin_parse ]; assumption. Qed.
Lemma num_first : forall o neg n, num_ok o neg n = true ->
    exists c body, render_num n = c :: body /\
                   (isdigit c = true \/ (c = "." /\ forall r, hd_is isdigit (body ++ r) = true)).
Proof.
  intros o neg [[i f e suf ud]|x ds suf ud|b ds suf ud] H.
  - unfold num_ok, dec_ok in H. cbn [d_int d_frac] in H. repeat (apply andb_prop in H; destruct H as [H ?]).
    destruct i as [|c t].
    + destruct f as [ff|]; [ | discriminate H ]. destruct (dig_seq_cons _ _ H) as (g & tt & -> & Hg & _).
      cbn [render_num d_int d_frac app]. eexists; eexists; split; [ reflexivity | ]. right. split; [ reflexivity | ].
      intros r. simpl. exact Hg.
    + assert (Hc : isdigit c = true).
      { destruct f; [ apply andb_prop in H; destruct H as [H _] | ]; simpl in H; apply andb_prop in H; tauto. }
      cbn [render_num d_int app]. eexists; eexists; split; [ reflexivity | ]. left; exact Hc.
  - cbn [render_num]. eexists; eexists; split; [ reflexivity | ]. left; reflexivity.
  - cbn [render_num]. eexists; eexists; split; [ reflexivity | ]. left; reflexivity.
Qed.
Lemma digit_plain : forall c, isdigit c = true -> isspace c = false /\ (c == "#") = false /\ (c == "\") = false /\
                                                 (c == "-") = false /\ (c == "+") = false /\ (c == ">") = false.
Proof. intros c H; all_chars c; vm_compute in H; try discriminate H; repeat split; reflexivity. Qed.
Lemma scan_number_len : forall o c body r,
    parse_number o (c :: body ++ r) = Some r -> scan_number o (c :: body ++ r) = SPlain (length body) Number.
Proof.
  intros o c body r H. unfold scan_number. rewrite H. f_equal. cbn [length]. rewrite app_length. lia.
Qed.
Lemma num_scans : forall o sg n, tok_ok o (TNum sg n) = true -> spec_scans o (TNum sg n).
Proof.
  intros o sg n H. cbn [tok_ok] in H. apply andb_prop in H. destruct H as [H Hnl]. apply andb_prop in H. destruct H as [Hsg Hn].
  cbn [spec_scans text_of flag_of follow_of needs_sep_before].
  destruct (num_first _ _ _ Hn) as (c & body & Ec & Hc).
  destruct sg as [s|]; cbn [sign_str app].
  - (* signed *)
    exists s, (render_num n). repeat split; try reflexivity.
    + apply orb_prop in Hsg. destruct Hsg as [E|E]; apply eqb_true in E; subst s; reflexivity.
    + apply orb_prop in Hsg. destruct Hsg as [E|E]; apply eqb_true in E; subst s; reflexivity.
    + intros [K|K]; [ apply orb_prop in Hsg; destruct Hsg as [E|E]; apply eqb_true in E; subst s; discriminate K | ].
      exact (no_nl_In _ Hnl K).
    + intros first prevc r Hp F. specialize (Hp eq_refl).
      assert (P : parse_number o (s :: render_num n ++ r) = Some r).
      { unfold parse_number. rewrite orb_comm in Hsg. rewrite orb_comm. rewrite orb_comm in Hsg. rewrite Hsg.
        apply num_parse; assumption. }
      assert (Hd : hd_is (fun d => (d == ".") || isdigit d) (render_num n ++ r) = true).
      { rewrite Ec. cbn [app hd_is]. destruct Hc as [Hc|[-> _]]; [ rewrite Hc; apply orb_true_r | reflexivity ]. }
      assert (Hns : forall k, (k == "+") || (k == "-") || (k == ">") = true -> hd_is (fun d => d == k) (render_num n ++ r) = false).
      { intros k Hk. rewrite Ec. cbn [app hd_is]. destruct Hc as [Hc|[-> _]].
        - destruct (digit_plain c Hc) as (_ & _ & _ & A & B & C).
          destruct (c == k) eqn:E; [ apply eqb_true in E; subst k; rewrite A, B, C in Hk; discriminate Hk | reflexivity ].
        - destruct ("." == k) eqn:E; [ apply eqb_true in E; subst k; discriminate Hk | reflexivity ]. }
      rewrite <- (scan_number_len o s (render_num n) r P).
      apply orb_prop in Hsg. destruct Hsg as [E|E]; apply eqb_true in E; subst s.
      * rewrite scan_plus. rewrite (Hns "+" eq_refl), Hp, Hd. reflexivity.
      * rewrite scan_minus. rewrite (Hns "-" eq_refl), (Hns ">" eq_refl), Hp, Hd. reflexivity.
  - rewrite Ec. exists c, body. repeat split; try reflexivity.
    + destruct Hc as [Hc|[-> _]]; [ apply (digit_plain c Hc) | reflexivity ].
    + destruct Hc as [Hc|[-> _]]; [ apply (digit_plain c Hc) | reflexivity ].
    + rewrite <- Ec. exact (no_nl_In _ Hnl).
    + intros first prevc r _ F.
      assert (P : parse_number o (c :: body ++ r) = Some r).
      { pose proof (num_parse o false n r Hn F) as Q. rewrite Ec in Q. cbn [app] in Q.
        unfold parse_number. destruct Hc as [Hc|[-> _]]; [ destruct (digit_plain c Hc) as (_ & _ & _ & A & B & _); rewrite A, B | ]; exact Q. }
      rewrite <- (scan_number_len o c body r P).
      destruct Hc as [Hc|[-> Hd]].
      * unfold scan_token. destruct (digit_plain c Hc) as (_ & A & B & _). rewrite A, B, Hc. reflexivity.
      * rewrite scan_dot, Hd. reflexivity.
Qed.

(* ------------------------------------------------------------------ all together *)
Theorem all_specs_scan : forall o t, tok_ok o t = true -> spec_scans o t.
Proof.
  intros o [w|op|sg n|b|esc c|b|bang sp body sp2] H.
  - apply word_scans; exact H.
  - apply op_scans; exact H.
  - apply num_scans; exact H.
  - apply string_scans; exact H.
  - apply char_scans; exact H.
  - apply qstring_scans; exact H.
  - apply com_scans; exact H.
Qed.
Theorem round_trip_lines : forall o ls,
    Forall (fun l => line_ok o l = true) ls -> lex o (render_lines ls) = Ok (toks_lines 1 true ls).
Proof. intros o ls F. apply lex_round; [ apply all_specs_scan | exact F ]. Qed.

(* C31 -- pinned code: literals with an exponent and a floating suffix are lexical elements of C++ that the tokenizer does not give back (computed witness);
   selected by check.py when the real code shows the pinned behaviour on the probe *)
From Coq Require Import Ascii List Bool.
From C31 Require Import C31Model C31Lang C31Variants.
Import ListNotations.

Theorem exp_round_trip_refuted :
  forallb (line_ok (mkOpts false false true false)) w_exp = true /\
  differs (lex (pinned false) (render_lines w_exp)) (toks_lines 1 true w_exp) = true /\
  (exists a b, lex (pinned false) (render_lines w_exp) = Ok [a; b]).
Proof. exact exp_witness. Qed.
Print Assumptions exp_round_trip_refuted.
